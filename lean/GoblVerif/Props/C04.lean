/-
  C04 — Calculation is a deterministic fixpoint and serialisation is lossless.

  PARTIAL by design (DESIGN.md section 6, C04): the ~35 regime/addon
  normalisers and scenario tables are not modelled; for whole documents the
  check is the byte-level differential run of the real code.  What the model
  carries is proved here:
    * presentation rounding is idempotent (a presented figure re-presents to
      itself) and determinism is trivial for a function;
    * every plain line whose fixed amounts are not finer than the figure it
      is presented with is a fixpoint of calculate ∘ present ∘ re-read
      (`line_fixpoint`, Proofs/CalcFix.lean; all quantities, prices,
      percentages, bases, charge rates and both rules);
    * the one non-fixpoint of the unchanged code that the model exhibits — a
      fixed line discount finer than the item price — as a kernel-checked
      counter-example (known finding `c04.fixedAmountFinerThanPresented`);
    * the `customer-rates` tag (Model/CustomerRates.lean, parametric in the
      normalisers), for the code as it is: the customer's country reaches the
      tax combos inside `calculate`, AFTER the lines were normalised; one
      `Calculate` sends every combo through one fixed function (closed
      form); for regime PT with pt-saft-v1 the first calculation is NOT a
      fixpoint (kernel-checked counter-example backing the known finding
      `c04.customerRatesThenCountryNormaliser`), the second and every later
      one is, and untagged documents are fixpoints at once; the source order
      is pinned over Generated/CustomerRatesFacts.lean.  Clearly separated
      (`repair_*`): what a possible repair — customer rates applied while
      normalising — would give; such a repair was written and rejected.
-/
import GoblVerif.Spec.C04
import GoblVerif.Generated.CalcFacts
import GoblVerif.Proofs.CalcBasics
import GoblVerif.Proofs.CalcFix
import GoblVerif.Generated.CustomerRatesFacts
import GoblVerif.Proofs.CustomerRates

namespace GoblVerif.Props.C04
open GoblVerif GoblVerif.Calc GoblVerif.Spec.C04

/-- rescaling to an exponent twice is rescaling once -/
theorem rescale_idem (a : Amount) (e : ℕ) : exactOps.rescale (exactOps.rescale a e) e = exactOps.rescale a e := by
  simp only [exact_rescale]
  exact rescaleX_self _ e (rescaleX_exp a e)

/-- `RescaleDown` twice is once -/
theorem down_idem (a : Amount) (e : ℕ) : down exactOps (down exactOps a e) e = down exactOps a e := by
  unfold down
  by_cases h : e < a.exp
  · simp only [h, if_true, exact_rescale, rescaleX_exp, Nat.lt_irrefl, if_false]
  · simp only [h, if_false]

/-- **presentation_idem**: presenting presented totals changes nothing -/
theorem presentation_idem (c : ℕ) (t : Totals) :
    roundTotals exactOps c (roundTotals exactOps c t) = roundTotals exactOps c t := by
  have h : ∀ a : Amount, (a.rescaleX c).rescaleX c = a.rescaleX c :=
    fun a => rescaleX_self _ c (rescaleX_exp a c)
  have ho : ∀ o : Option Amount, (o.map (·.rescaleX c)).map (·.rescaleX c) = o.map (·.rescaleX c) := by
    intro o; cases o <;> simp [h]
  simp only [roundTotals, exact_rescale, h, ho]

/-- raising precision is idempotent (item prices, bases and fixed amounts are only ever raised in place) -/
theorem up_idem (a : Amount) (e : ℕ) : up (up a e) e = up a e :=
  up_self _ e (by rw [up_exp]; omega)

/-- the calculation is a function: equal inputs give equal outputs (repetition, process and
    map-iteration order cannot matter for the modelled part) -/
theorem calc_deterministic (d d' : Doc) (h : d = d') : calculate exactOps d = calculate exactOps d' := by rw [h]

/-- stored `sum` and `total` of a priced line are outputs only: the calculation does not read them -/
theorem stored_line_totals_ignored (cur : String) (c : ℕ) (rates : List XRate) (r : Rule) (l : Line) (it : Item)
    (hi : l.item = some it) :
    calcLine exactOps cur c rates r (reread l) = calcLine exactOps cur c rates r l := by
  cases l
  simp only at hi
  subst hi
  rfl

/-- **line_fixpoint** (every plain line in the document currency whose fixed discount/charge amounts
have no more decimals than the line is presented with — percentages, bases, charge rates, any
quantity, price, rule): serialising the presented line and calculating it again gives the very same
presented line.  The excluded lines are exactly the known finding below. -/
theorem line_fixpoint (cur : String) (c : ℕ) (rates : List XRate) (r : Rule) (l l2 : Line) (it : Item)
    (p : Amount) (hb : l.breakdown = []) (hi : l.item = some it) (hp : it.price = some p)
    (hcur : (it.cur == "" || it.cur == cur) = true) (hsub : c ≤ it.sub)
    (hd : ∀ d ∈ l.discounts, DiscountStable (max p.exp it.sub) d)
    (hc : ∀ d ∈ l.charges, ChargeStable (max p.exp it.sub) d)
    (h1 : present cur c rates r l = .ok l2) :
    present cur c rates r (reread l2) = .ok l2 := by
  unfold present at h1 ⊢
  cases hcl : calcLine exactOps cur c rates r l with
  | error e => rw [hcl] at h1; cases h1
  | ok l1 =>
    rw [hcl] at h1
    simp only [Except.map] at h1
    injection h1 with h1
    subst h1
    have hfix := calcLine_fixpoint cur c rates r l l1 it p hb hi hp hcur hsub hd hc hcl
    have hitem : ∃ it', (roundLine exactOps l1).item = some it' := by
      unfold calcLine at hcl
      simp only [hi, hb, calcSubLines, List.filterMap_nil, List.isEmpty_nil, Bool.true_or, if_true, hp,
        itemPrice_same cur c rates it p hcur, Option.getD_some] at hcl
      injection hcl with hcl
      subst hcl
      exact ⟨_, rfl⟩
    obtain ⟨it', hit'⟩ := hitem
    rw [stored_line_totals_ignored cur c rates r _ it' hit', hfix]
    rfl

/-- **document_fixpoint** (every document of stable lines, document discounts/charges and advances —
any number of them, any quantities, prices, percentages, bases, tax combos, included-tax removal, both
rules, with or without payment details): if it calculates to `out`, then the document read back from
`out` (presented lines, discounts, charges, advances, due dates) calculates to exactly `out` again —
same lines, same tax summary, same totals.  "Stable" (`LineStable`, `DocAdjStable`, `AdvanceStable`) admits plain lines priced in the
document currency and lines priced by a breakdown of sub-lines; it excludes only fixed amounts with
more decimals than they are presented with (the known finding) and foreign-currency items, which the
byte-level differential run covers. -/
theorem document_fixpoint (d : Doc) (out : Out) (t : Totals) (hs : DocStable d)
    (h : calculate exactOps d = .ok out) (ht : out.totals = some t) :
    calculate exactOps (rereadDoc d out) = .ok out :=
  calculate_fixpoint d out t hs h ht

/-- the re-read document is stable again, so the fixpoint holds for any number of rounds -/
theorem document_fixpoint_iterates (d : Doc) (out : Out) (t : Totals) (hs : DocStable d)
    (h : calculate exactOps d = .ok out) (ht : out.totals = some t) (n : ℕ) :
    calculate exactOps ((fun x => rereadDoc x out)^[n] d) = .ok out := by
  induction n with
  | zero => exact h
  | succ n ih =>
    rw [Function.iterate_succ_apply']
    -- reading back the same `out` twice is reading it back once
    have hidem : ∀ x : Doc, rereadDoc (rereadDoc x out) out = rereadDoc x out := fun x => rfl
    cases n with
    | zero => exact calculate_fixpoint d out t hs h ht
    | succ m =>
      rw [Function.iterate_succ_apply', hidem]
      rw [Function.iterate_succ_apply'] at ih
      exact ih

/-- **line_fixpoint_breakdown**: the same for a line priced by a breakdown — sub-lines in the document
currency with any discounts and charges of their own; the line's own fixed amounts at currency
precision -/
theorem line_fixpoint_breakdown (cur : String) (c : ℕ) (rates : List XRate) (r : Rule) (l l1 : Line) (it0 : Item)
    (hi : l.item = some it0) (hne : l.breakdown ≠ []) (hsl : ∀ sl ∈ l.breakdown, SubLineStable cur sl)
    (hd : ∀ d ∈ l.discounts, DiscountStable c d) (hc : ∀ d ∈ l.charges, ChargeStable c d)
    (h1 : calcLine exactOps cur c rates r l = .ok l1) :
    calcLine exactOps cur c rates r (roundLine exactOps l1) = .ok l1 :=
  calcLine_fixpoint_breakdown cur c rates r l l1 it0 hi hne hsl hd hc h1

/-- **counter-example (known finding)**: price 10.00, quantity 1, fixed line
discount 0.005: the first calculation presents total 10.00 and stores the
discount as 0.01; calculating the re-read line presents 9.99. -/
theorem fixed_amount_finer_than_price_is_not_a_fixpoint :
    let l : Line := { qty := ⟨1, 0⟩, item := some { price := some ⟨1000, 2⟩, cur := "", sub := 2, alts := [] },
                      discounts := [{ percent := none, base := none, amount := ⟨5, 3⟩, rate := none, quantity := none }],
                      charges := [], breakdown := [], taxes := [] }
    ((present "EUR" 2 [] .precise l).toOption.map (·.total) = some (some ⟨1000, 2⟩)) ∧
    ((present "EUR" 2 [] .precise l).toOption.bind
        (fun l1 => (present "EUR" 2 [] .precise (reread l1)).toOption.map (·.total)) = some (some ⟨999, 2⟩)) := by
  decide

/-- a line without fixed amounts finer than the price *is* a fixpoint (instance) -/
example :
    let l : Line := { qty := ⟨3, 0⟩, item := some { price := some ⟨10005, 3⟩, cur := "", sub := 2, alts := [] },
                      discounts := [{ percent := some ⟨⟨10, 2⟩⟩, base := none, amount := ⟨0, 0⟩, rate := none, quantity := none }],
                      charges := [{ percent := none, base := none, amount := ⟨100, 2⟩, rate := none, quantity := none }],
                      breakdown := [], taxes := [] }
    (present "EUR" 2 [] .precise l).toOption.bind (fun l1 => (present "EUR" 2 [] .precise (reread l1)).toOption)
      = (present "EUR" 2 [] .precise l).toOption := by decide

/-! ## pinned source shapes (regenerated facts; tools/pin_calc_expect.py) -/

namespace ExpectCalc
open GoblVerif.Generated.Calc

theorem calls_Line_round_as_modelled : calls_Line_round =
    ["Exp", "RescaleDown", "Exp", "RescaleDown", "round", "round", "round", "round"] := rfl
theorem conds_Line_round_as_modelled : conds_Line_round =
    ["l.Item == nil || l.Item.Price == nil", "l.Sum != nil", "l.Total != nil"] := rfl
theorem stmts_Line_round_as_modelled : stmts_Line_round =
    ["e := l.Item.Price.Exp()", "sum := l.Sum.RescaleDown(e)", "l.Sum = &sum", "e := l.Item.Price.Exp()", "total := l.Total.RescaleDown(e)", "l.Total = &total"] := rfl
theorem calls_SubLine_round_as_modelled : calls_SubLine_round =
    ["RescaleDown", "RescaleDown"] := rfl
theorem conds_SubLine_round_as_modelled : conds_SubLine_round =
    ["sl.Sum != nil", "sl.Total != nil"] := rfl
theorem stmts_SubLine_round_as_modelled : stmts_SubLine_round =
    ["sum := sl.Sum.RescaleDown(e)", "sl.Sum = &sum", "total := sl.Total.RescaleDown(e)", "sl.Total = &total"] := rfl
theorem calls_LineDiscount_round_as_modelled : calls_LineDiscount_round =
    ["RescaleDown"] := rfl
theorem conds_LineDiscount_round_as_modelled : conds_LineDiscount_round =
    [] := rfl
theorem stmts_LineDiscount_round_as_modelled : stmts_LineDiscount_round =
    ["d.Amount = d.Amount.RescaleDown(e)"] := rfl
theorem calls_LineCharge_round_as_modelled : calls_LineCharge_round =
    ["RescaleDown"] := rfl
theorem conds_LineCharge_round_as_modelled : conds_LineCharge_round =
    [] := rfl
theorem stmts_LineCharge_round_as_modelled : stmts_LineCharge_round =
    ["c.Amount = c.Amount.RescaleDown(e)"] := rfl
theorem calls_Discount_round_as_modelled : calls_Discount_round =
    ["Def", "Exp", "Exp", "RescaleDown"] := rfl
theorem conds_Discount_round_as_modelled : conds_Discount_round =
    ["m.Base != nil && m.Base.Exp() > e"] := rfl
theorem stmts_Discount_round_as_modelled : stmts_Discount_round =
    ["e := cur.Def().Subunits", "e = m.Base.Exp()", "m.Amount = m.Amount.RescaleDown(e)"] := rfl
theorem calls_Charge_round_as_modelled : calls_Charge_round =
    ["Def", "Exp", "Exp", "RescaleDown"] := rfl
theorem conds_Charge_round_as_modelled : conds_Charge_round =
    ["m.Base != nil && m.Base.Exp() > e"] := rfl
theorem stmts_Charge_round_as_modelled : stmts_Charge_round =
    ["e := cur.Def().Subunits", "e = m.Base.Exp()", "m.Amount = m.Amount.RescaleDown(e)"] := rfl
theorem calls_Totals_reset_as_modelled : calls_Totals_reset =
    [] := rfl
theorem conds_Totals_reset_as_modelled : conds_Totals_reset =
    [] := rfl
theorem stmts_Totals_reset_as_modelled : stmts_Totals_reset =
    ["t.Sum = zero", "t.Discount = nil", "t.Charge = nil", "t.TaxIncluded = nil", "t.Total = zero", "t.Taxes = nil", "t.Tax = zero", "t.TotalWithTax = zero", "t.Payable = zero", "t.Advances = nil", "t.Due = nil"] := rfl

end ExpectCalc

/-! ## the customer-rates tag (the code as it is) -/

/-- **customer_rates_closed_form**: one `Calculate` of a billable document leaves the customer normalised
    and sends every tax combo of lines, discounts and charges through one function, `step`: normalisers on
    the combo as written, then the customer's country, then `Combo.calculate` — whatever the normalisers
    are -/
theorem customer_rates_closed_form (n : CustomerRates.Norms) (k : CustomerRates.Combo → CustomerRates.Combo)
    (d : CustomerRates.Doc) :
    CustomerRates.pass n k d =
      CustomerRates.mapCombos (CustomerRates.step n k (CustomerRates.effective n d)) (CustomerRates.normCustomer n d) :=
  CustomerRates.pass_eq n k d

/-- **customer_rates_later_calculations**: if normalising a tax identity twice is normalising it once and a
    combo that went through `step` twice is not changed by a third time, then the second calculation of a
    document is a fixpoint: calculating three times is calculating twice -/
theorem customer_rates_later_calculations (n : CustomerRates.Norms) (k : CustomerRates.Combo → CustomerRates.Combo)
    (d : CustomerRates.Doc)
    (hp : ∀ c, n.party (n.party c) = n.party c)
    (hs : ∀ t, CustomerRates.step n k (CustomerRates.effective n d)
                 (CustomerRates.step n k (CustomerRates.effective n d) (CustomerRates.step n k (CustomerRates.effective n d) t))
             = CustomerRates.step n k (CustomerRates.effective n d) (CustomerRates.step n k (CustomerRates.effective n d) t)) :
    CustomerRates.pass n k (CustomerRates.pass n k (CustomerRates.pass n k d))
      = CustomerRates.pass n k (CustomerRates.pass n k d) := by
  rw [CustomerRates.pass_eq n k d, CustomerRates.pass_pass_eq n k hp, CustomerRates.pass_pass_eq n k hp]
  exact CustomerRates.mapCombos_congr _ _ _ hs

/-- **pt_later_calculations_fixpoint**: for regime PT, with or without pt-saft-v1, every document — tagged or
    not, any customer country, any combos — is settled by its second calculation (countries and extensions) -/
theorem pt_later_calculations_fixpoint (saft : Bool) (d : CustomerRates.Doc) :
    CustomerRates.pass (CustomerRates.ptNorms saft) (CustomerRates.comboCalculate "PT")
        (CustomerRates.pass (CustomerRates.ptNorms saft) (CustomerRates.comboCalculate "PT")
          (CustomerRates.pass (CustomerRates.ptNorms saft) (CustomerRates.comboCalculate "PT") d))
      = CustomerRates.pass (CustomerRates.ptNorms saft) (CustomerRates.comboCalculate "PT")
          (CustomerRates.pass (CustomerRates.ptNorms saft) (CustomerRates.comboCalculate "PT") d) :=
  customer_rates_later_calculations _ _ d CustomerRates.partyCountry_idem (CustomerRates.pt_step_settles saft _)

/-- **pt_untagged_fixpoint**: without the tag the first calculation already is a fixpoint (regime PT, with or
    without pt-saft-v1) -/
theorem pt_untagged_fixpoint (saft : Bool) (d : CustomerRates.Doc) (ht : d.tagged = false) :
    CustomerRates.pass (CustomerRates.ptNorms saft) (CustomerRates.comboCalculate "PT")
        (CustomerRates.pass (CustomerRates.ptNorms saft) (CustomerRates.comboCalculate "PT") d)
      = CustomerRates.pass (CustomerRates.ptNorms saft) (CustomerRates.comboCalculate "PT") d := by
  have he : CustomerRates.effective (CustomerRates.ptNorms saft) d = none := by simp [CustomerRates.effective, ht]
  rw [CustomerRates.pass_eq _ _ d, CustomerRates.pass_pass_eq _ _ CustomerRates.partyCountry_idem, he]
  exact CustomerRates.mapCombos_congr _ _ _ (CustomerRates.pt_step_none_idem saft)

/-- the PT normalisers do not touch category, country and rate key of a combo -/
theorem pt_normalisers_change_extensions_only (saft : Bool) (t : CustomerRates.Combo) :
    ((CustomerRates.ptNorms saft).combo t).cat = t.cat ∧ ((CustomerRates.ptNorms saft).combo t).country = t.country
      ∧ ((CustomerRates.ptNorms saft).combo t).rate = t.rate := by
  rw [CustomerRates.ptNorms_combo_eq]
  exact ⟨rfl, rfl, rfl⟩

/-- **current_order_not_a_fixpoint**: the counter-example behind the known finding
    `c04.customerRatesThenCountryNormaliser` (`$tags` customer-rates, `$addons` pt-saft-v1, customer in NL, one
    standard-rate VAT combo).  The code applies the customer rates only inside `calculate`, after the
    normalisers: the first calculation stores `pt-saft-tax-rate` NOR and `pt-region` PT next to country NL,
    the next one rewrites both to OUT and NL — the calculated document is not a fixpoint -/
theorem current_order_not_a_fixpoint :
    let d : CustomerRates.Doc := ⟨true, some "NL", [[⟨"VAT", "", "standard", fun _ => ""⟩]], [], []⟩
    let once := CustomerRates.pass (CustomerRates.ptNorms true) (CustomerRates.comboCalculate "PT") d
    let twice := CustomerRates.pass (CustomerRates.ptNorms true) (CustomerRates.comboCalculate "PT") once
    once.lines.map (·.map fun t => (t.country, t.ext "pt-saft-tax-rate", t.ext "pt-region")) = [[("NL", "NOR", "PT")]]
    ∧ twice.lines.map (·.map fun t => (t.country, t.ext "pt-saft-tax-rate", t.ext "pt-region")) = [[("NL", "OUT", "NL")]]
    ∧ twice ≠ once := by
  refine ⟨by decide, by decide, ?_⟩
  intro h
  have h2 := congrArg (fun x : CustomerRates.Doc => x.lines.map (·.map fun t => t.ext "pt-saft-tax-rate")) h
  revert h2
  decide

/-- the same without the addon: the PT regime's own `pt-region` is PT after the first calculation and NL
    after the second -/
theorem current_order_not_a_fixpoint_without_addon :
    let d : CustomerRates.Doc := ⟨true, some "NL", [[⟨"VAT", "", "standard", fun _ => ""⟩]], [], []⟩
    let once := CustomerRates.pass (CustomerRates.ptNorms false) (CustomerRates.comboCalculate "PT") d
    let twice := CustomerRates.pass (CustomerRates.ptNorms false) (CustomerRates.comboCalculate "PT") once
    once.lines.map (·.map fun t => (t.country, t.ext "pt-region")) = [[("NL", "PT")]]
    ∧ twice.lines.map (·.map fun t => (t.country, t.ext "pt-region")) = [[("NL", "NL")]] := by
  decide

/-- non-vacuity of `customer_rates_later_calculations` / `pt_later_calculations_fixpoint`: a tagged document
    with a Greek customer written as GR (normalised to EL), a line with two combos (one not VAT), a
    discount with a pre-set region and a charge with its own country: first and second calculation differ
    in the charge, the customer is EL after the first -/
example :
    let d : CustomerRates.Doc := ⟨true, some "GR",
      [[⟨"VAT", "", "reduced", fun _ => ""⟩, ⟨"IRS", "", "", fun _ => ""⟩]],
      [[⟨"VAT", "", "", fun x => if x = "pt-region" then "PT-AC" else ""⟩]],
      [[⟨"VAT", "ES", "standard", fun _ => ""⟩]]⟩
    let once := CustomerRates.pass (CustomerRates.ptNorms true) (CustomerRates.comboCalculate "PT") d
    let twice := CustomerRates.pass (CustomerRates.ptNorms true) (CustomerRates.comboCalculate "PT") once
    d.tagged = true ∧ once.customer = some "EL"
    ∧ once.charges.map (·.map fun t => (t.country, t.ext "pt-saft-tax-rate", t.ext "pt-region")) = [[("EL", "OUT", "ES")]]
    ∧ twice.charges.map (·.map fun t => (t.country, t.ext "pt-saft-tax-rate", t.ext "pt-region")) = [[("EL", "OUT", "GR")]] := by
  decide

/-! ## a possible repair — statements about `passAlt`, NOT about the code

A repair that applies the customer rates while normalising (after the customer, before lines, discounts and
charges) was written and rejected: it also changes what es-verifactu-v1 does to tagged documents that
validate today.  What that order would give is kept here for whoever takes the decision. -/

/-- (possible repair) one `Calculate` would send every combo through `stepAlt` -/
theorem repair_closed_form (n : CustomerRates.Norms) (k : CustomerRates.Combo → CustomerRates.Combo)
    (d : CustomerRates.Doc) :
    CustomerRates.passAlt n k d =
      CustomerRates.mapCombos (CustomerRates.stepAlt n k (CustomerRates.effective n d)) (CustomerRates.normCustomer n d) :=
  CustomerRates.passAlt_eq n k d

/-- (possible repair) **repair_would_be_a_fixpoint**: if normalising a tax identity twice is normalising it
    once and `stepAlt` settles a combo in one application, the first calculation would already be a fixpoint -/
theorem repair_would_be_a_fixpoint (n : CustomerRates.Norms) (k : CustomerRates.Combo → CustomerRates.Combo)
    (d : CustomerRates.Doc)
    (hp : ∀ c, n.party (n.party c) = n.party c)
    (hs : ∀ t, CustomerRates.stepAlt n k (CustomerRates.effective n d) (CustomerRates.stepAlt n k (CustomerRates.effective n d) t)
             = CustomerRates.stepAlt n k (CustomerRates.effective n d) t) :
    CustomerRates.passAlt n k (CustomerRates.passAlt n k d) = CustomerRates.passAlt n k d := by
  rw [CustomerRates.passAlt_eq n k d, CustomerRates.passAlt_passAlt_eq n k hp]
  exact CustomerRates.mapCombos_congr _ _ _ hs

/-- (possible repair) for regime PT, with or without pt-saft-v1, every document would be a fixpoint after
    one calculation -/
theorem repair_would_be_a_fixpoint_pt (saft : Bool) (d : CustomerRates.Doc) :
    CustomerRates.passAlt (CustomerRates.ptNorms saft) (CustomerRates.comboCalculate "PT")
        (CustomerRates.passAlt (CustomerRates.ptNorms saft) (CustomerRates.comboCalculate "PT") d)
      = CustomerRates.passAlt (CustomerRates.ptNorms saft) (CustomerRates.comboCalculate "PT") d :=
  repair_would_be_a_fixpoint _ _ d CustomerRates.partyCountry_idem (CustomerRates.pt_stepAlt_idem saft _)

/-- (possible repair, related to the code) **repair_is_todays_explicit_country**: what the repaired order would
    give for a tagged document is what the code gives TODAY for the document in which the customer's
    (normalised) country was written on every combo by hand -/
theorem repair_is_todays_explicit_country (n : CustomerRates.Norms) (k : CustomerRates.Combo → CustomerRates.Combo)
    (d : CustomerRates.Doc) (c : String) (ht : d.tagged = true) (hc : d.customer = some c) :
    CustomerRates.passAlt n k d = CustomerRates.pass n k (CustomerRates.mapCombos (CustomerRates.setCountry (n.party c)) d) := by
  rw [CustomerRates.passAlt_eq n k d, CustomerRates.pass_eq n k]
  rw [CustomerRates.effective_mapCombos, CustomerRates.normCustomer_mapCombos, CustomerRates.mapCombos_mapCombos]
  apply CustomerRates.mapCombos_congr
  intro t
  have he : CustomerRates.effective n d = some (n.party c) := by simp [CustomerRates.effective, ht, hc]
  rw [he]
  rfl

namespace ExpectCustomerRates
open GoblVerif.Generated.CustomerRates

/-- `Invoice.Normalize`: the customer, then lines, discounts and charges; no customer rates -/
theorem invoice_rows_normalized_without_rates :
    CustomerRates.rowsNormalizedWithoutRates "inv" callexprs_Invoice_Normalize = true := by decide
/-- `Order.Normalize`: the same -/
theorem order_rows_normalized_without_rates :
    CustomerRates.rowsNormalizedWithoutRates "ord" callexprs_Order_Normalize = true := by decide
/-- `Delivery.Normalize`: the same -/
theorem delivery_rows_normalized_without_rates :
    CustomerRates.rowsNormalizedWithoutRates "dlv" callexprs_Delivery_Normalize = true := by decide

/-- the three `Calculate` methods normalise first and calculate afterwards -/
theorem normalize_before_calculate :
    CustomerRates.before "inv.Normalize(tax.ExtractNormalizers(inv))" "calculate(inv)" callexprs_Invoice_Calculate = true
    ∧ CustomerRates.before "ord.Normalize(ord.normalizers())" "calculate(ord)" callexprs_Order_Calculate = true
    ∧ CustomerRates.before "dlv.Normalize(dlv.normalizers())" "calculate(dlv)" callexprs_Delivery_Calculate = true := by
  decide

/-- `calculate` is where the customer rates are applied, under the tag, before the lines and the tax
    summary are calculated -/
theorem calculate_applies_customer_rates :
    "doc.HasTags(tax.TagCustomerRates)" ∈ GoblVerif.Generated.Calc.conds_calculate
    ∧ CustomerRates.before "applyCustomerRates" "calculateLines" GoblVerif.Generated.Calc.calls_calculate = true
    ∧ CustomerRates.before "applyCustomerRates" "Calculate" GoblVerif.Generated.Calc.calls_calculate = true := by
  decide

theorem callexprs_Invoice_Normalize_as_modelled : callexprs_Invoice_Normalize =
    ["cbc.NormalizeCode(inv.Series)", "cbc.NormalizeCode(inv.Code)", "normalizers.Each(inv)", "tax.Normalize(normalizers, inv.Tax)", "tax.Normalize(normalizers, inv.Supplier)", "tax.Normalize(normalizers, inv.Customer)", "tax.Normalize(normalizers, inv.Preceding)", "tax.Normalize(normalizers, inv.Lines)", "tax.Normalize(normalizers, inv.Discounts)", "tax.Normalize(normalizers, inv.Charges)", "tax.Normalize(normalizers, inv.Ordering)", "tax.Normalize(normalizers, inv.Payment)"] := rfl
theorem callexprs_Order_Normalize_as_modelled : callexprs_Order_Normalize =
    ["cbc.NormalizeCode(ord.Series)", "cbc.NormalizeCode(ord.Code)", "normalizers.Each(ord)", "tax.Normalize(normalizers, ord.Tax)", "tax.Normalize(normalizers, ord.Supplier)", "tax.Normalize(normalizers, ord.Customer)", "tax.Normalize(normalizers, ord.Buyer)", "tax.Normalize(normalizers, ord.Seller)", "tax.Normalize(normalizers, ord.Preceding)", "tax.Normalize(normalizers, ord.Lines)", "tax.Normalize(normalizers, ord.Discounts)", "tax.Normalize(normalizers, ord.Charges)", "tax.Normalize(normalizers, ord.Payment)", "tax.Normalize(normalizers, ord.Delivery)"] := rfl
theorem callexprs_Delivery_Normalize_as_modelled : callexprs_Delivery_Normalize =
    ["cbc.NormalizeCode(dlv.Series)", "cbc.NormalizeCode(dlv.Code)", "normalizers.Each(dlv)", "tax.Normalize(normalizers, dlv.Tax)", "tax.Normalize(normalizers, dlv.Supplier)", "tax.Normalize(normalizers, dlv.Customer)", "tax.Normalize(normalizers, dlv.Despatcher)", "tax.Normalize(normalizers, dlv.Receiver)", "tax.Normalize(normalizers, dlv.Preceding)", "tax.Normalize(normalizers, dlv.Lines)", "tax.Normalize(normalizers, dlv.Discounts)", "tax.Normalize(normalizers, dlv.Charges)"] := rfl
theorem callexprs_Invoice_Calculate_as_modelled : callexprs_Invoice_Calculate =
    ["inv.Regime.IsEmpty()", "inv.SetRegime(partyTaxCountry(inv.Supplier))", "partyTaxCountry(inv.Supplier)", "inv.Normalize(tax.ExtractNormalizers(inv))", "tax.ExtractNormalizers(inv)", "calculate(inv)", "inv.prepareScenarios()"] := rfl
theorem callexprs_Order_Calculate_as_modelled : callexprs_Order_Calculate =
    ["ord.Regime.IsEmpty()", "ord.SetRegime(partyTaxCountry(ord.Supplier))", "partyTaxCountry(ord.Supplier)", "ord.Normalize(ord.normalizers())", "ord.normalizers()", "calculate(ord)"] := rfl
theorem callexprs_Delivery_Calculate_as_modelled : callexprs_Delivery_Calculate =
    ["dlv.Regime.IsEmpty()", "dlv.SetRegime(partyTaxCountry(dlv.Supplier))", "partyTaxCountry(dlv.Supplier)", "dlv.Normalize(dlv.normalizers())", "dlv.normalizers()", "calculate(dlv)"] := rfl
theorem applyCustomerRates_as_modelled :
    callexprs_applyCustomerRates = ["doc.getCustomer()", "doc.getCustomer()", "doc.getCustomer()", "doc.getLines()", "addCountryToTaxes(l.Taxes, country)", "doc.getDiscounts()", "addCountryToTaxes(d.Taxes, country)", "doc.getCharges()", "addCountryToTaxes(c.Taxes, country)"]
    ∧ conds_applyCustomerRates = ["doc.getCustomer() == nil || doc.getCustomer().TaxID == nil"]
    ∧ stmts_applyCustomerRates = ["country := doc.getCustomer().TaxID.Country"] := ⟨rfl, rfl, rfl⟩
theorem addCountryToTaxes_as_modelled :
    callexprs_addCountryToTaxes = [] ∧ conds_addCountryToTaxes = [] ∧ stmts_addCountryToTaxes = ["t.Country = country"] :=
  ⟨rfl, rfl, rfl⟩

end ExpectCustomerRates

/-- non-vacuity of `document_fixpoint`: a document with two taxed lines (one with a percentage discount
and a fixed charge), a document discount with an explicit base, included VAT, an advance and a due
date meets `DocStable`, calculates, and its re-read form calculates to the same result -/
def stableDoc : Doc :=
  { cur := "EUR", c := 2, rule := .precise, includes := some "VAT",
    lines := [{ qty := ⟨3, 0⟩, item := some { price := some ⟨10005, 3⟩, cur := "", sub := 2, alts := [] },
                discounts := [{ percent := some ⟨⟨10, 2⟩⟩, base := none, amount := ⟨0, 0⟩, rate := none, quantity := none }],
                charges := [{ percent := none, base := none, amount := ⟨125, 2⟩, rate := none, quantity := none }],
                breakdown := [],
                taxes := [{ cat := "VAT", country := "", key := "standard", percent := some ⟨⟨21, 2⟩⟩,
                            surcharge := none, ext := "", retained := false }] },
              { qty := ⟨15, 1⟩, item := some { price := some ⟨799, 2⟩, cur := "", sub := 2, alts := [] },
                discounts := [], charges := [], breakdown := [],
                taxes := [{ cat := "VAT", country := "", key := "reduced", percent := some ⟨⟨10, 2⟩⟩,
                            surcharge := none, ext := "", retained := false }] }],
    discounts := [{ percent := some ⟨⟨5, 2⟩⟩, base := some ⟨2000, 2⟩, amount := ⟨0, 0⟩,
                    taxes := [{ cat := "VAT", country := "", key := "standard", percent := some ⟨⟨21, 2⟩⟩,
                                surcharge := none, ext := "", retained := false }] }],
    charges := [], rates := [], rounding := none, hasPayment := true,
    advances := [{ percent := none, amount := ⟨1000, 2⟩ }], dues := [{ percent := some ⟨⟨100, 2⟩⟩, amount := ⟨0, 0⟩ }] }

example : DocStable stableDoc := by
  refine ⟨?_, ?_, ?_, ?_⟩
  · intro l hl
    simp only [stableDoc, List.mem_cons, List.mem_nil_iff, or_false] at hl
    rcases hl with rfl | rfl
    · refine Or.inl ⟨rfl, ⟨10005, 3⟩, rfl, rfl, by decide, ?_, ?_⟩
      · intro x hx
        simp only [List.mem_singleton] at hx
        subst hx
        exact Or.inl ⟨_, rfl, rfl⟩
      · intro x hx
        simp only [List.mem_singleton] at hx
        subst hx
        exact Or.inr (Or.inr (by decide))
    · refine Or.inl ⟨rfl, ⟨799, 2⟩, rfl, rfl, by decide, ?_, ?_⟩ <;> intro x hx <;> simp at hx
  · intro x hx
    simp only [stableDoc, List.mem_singleton] at hx
    subst hx
    exact Or.inl ⟨_, rfl, rfl⟩
  · intro x hx
    simp [stableDoc] at hx
  · intro a ha
    simp only [stableDoc, List.mem_singleton] at ha
    subst ha
    exact Or.inr (by decide)

example : ((calculate exactOps stableDoc).toOption.bind (·.totals)).map (fun t => (t.sum, t.payable, t.due)) =
    some (⟨4025, 2⟩, ⟨3925, 2⟩, some ⟨2925, 2⟩) := by decide

end GoblVerif.Props.C04
