/-
  C04 — Calculation is a deterministic fixpoint and serialisation is lossless.

  PARTIAL by design (DESIGN.md section 6, C04): the ~35 regime/addon
  normalisers and scenario tables are not modelled; for whole documents the
  check is the byte-level differential run of the real code.  What the model
  carries is proved here:
    * presentation rounding is idempotent (a presented figure re-presents to
      itself) and determinism is trivial for a function;
    * lines whose fixed amounts are not finer than the item price are
      fixpoints of calculate ∘ present (partial statement, see below);
    * the one non-fixpoint of the unchanged code that the model exhibits — a
      fixed line discount finer than the item price — as a kernel-checked
      counter-example (known finding `c04.fixedAmountFinerThanPresented`).
-/
import GoblVerif.Spec.C04
import GoblVerif.Proofs.CalcBasics

namespace GoblVerif.Props.C04
open GoblVerif GoblVerif.Calc GoblVerif.Spec.C04

/-- rescaling to an exponent twice is rescaling once -/
theorem rescale_idem (a : Amount) (e : ℕ) : exactOps.rescale (exactOps.rescale a e) e = exactOps.rescale a e := by
  simp only [exact_rescale]
  exact rescaleX_self _ e (rescaleX_exp a e)

/-- `RescaleDown` twice is once -/
theorem down_idem (a : Amount) (e : ℕ) : down exactOps (down exactOps a e) e = down exactOps a e := by
  unfold down
  by_cases h : e < a.exp
  · simp only [h, if_true, exact_rescale, rescaleX_exp, Nat.lt_irrefl, if_false]
  · simp only [h, if_false]

/-- **presentation_idem**: presenting presented totals changes nothing -/
theorem presentation_idem (c : ℕ) (t : Totals) :
    roundTotals exactOps c (roundTotals exactOps c t) = roundTotals exactOps c t := by
  have h : ∀ a : Amount, (a.rescaleX c).rescaleX c = a.rescaleX c :=
    fun a => rescaleX_self _ c (rescaleX_exp a c)
  have ho : ∀ o : Option Amount, (o.map (·.rescaleX c)).map (·.rescaleX c) = o.map (·.rescaleX c) := by
    intro o; cases o <;> simp [h]
  simp only [roundTotals, exact_rescale, h, ho]

/-- raising precision is idempotent (item prices, bases and fixed amounts are only ever raised in place) -/
theorem up_idem (a : Amount) (e : ℕ) : up (up a e) e = up a e :=
  up_self _ e (by rw [up_exp]; omega)

/-- the calculation is a function: equal inputs give equal outputs (repetition, process and
    map-iteration order cannot matter for the modelled part) -/
theorem calc_deterministic (d d' : Doc) (h : d = d') : calculate exactOps d = calculate exactOps d' := by rw [h]

/-- **counter-example (known finding)**: price 10.00, quantity 1, fixed line
discount 0.005: the first calculation presents total 10.00 and stores the
discount as 0.01; calculating the re-read line presents 9.99. -/
theorem fixed_amount_finer_than_price_is_not_a_fixpoint :
    let l : Line := { qty := ⟨1, 0⟩, item := some { price := some ⟨1000, 2⟩, cur := "", sub := 2, alts := [] },
                      discounts := [{ percent := none, base := none, amount := ⟨5, 3⟩, rate := none, quantity := none }],
                      charges := [], breakdown := [], taxes := [] }
    ((present "EUR" 2 [] .precise l).toOption.map (·.total) = some (some ⟨1000, 2⟩)) ∧
    ((present "EUR" 2 [] .precise l).toOption.bind
        (fun l1 => (present "EUR" 2 [] .precise (reread l1)).toOption.map (·.total)) = some (some ⟨999, 2⟩)) := by
  decide

/-- a line without fixed amounts finer than the price *is* a fixpoint (instance) -/
example :
    let l : Line := { qty := ⟨3, 0⟩, item := some { price := some ⟨10005, 3⟩, cur := "", sub := 2, alts := [] },
                      discounts := [{ percent := some ⟨⟨10, 2⟩⟩, base := none, amount := ⟨0, 0⟩, rate := none, quantity := none }],
                      charges := [{ percent := none, base := none, amount := ⟨100, 2⟩, rate := none, quantity := none }],
                      breakdown := [], taxes := [] }
    (present "EUR" 2 [] .precise l).toOption.bind (fun l1 => (present "EUR" 2 [] .precise (reread l1)).toOption)
      = (present "EUR" 2 [] .precise l).toOption := by decide

end GoblVerif.Props.C04
