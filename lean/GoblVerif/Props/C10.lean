/-
  C10 — Envelope life-cycle outcomes follow its abstract state over any history.

  Only property theorems live here (helper lemmas: Proofs/C10.lean,
  Proofs/Envelope.lean, Proofs/Header.lean, Proofs/EnvelopeSrc.lean).  The concrete state machine is
  `Env.step` (Model/Envelope.lean, mirroring /repo/envelope.go as it is now);
  the abstract state `Abs`, the outcome table `specOutcome` and the abstract
  successor `specStep` are in Spec/C10.lean.
-/
import GoblVerif.Spec.C10
import GoblVerif.Proofs.C10
import GoblVerif.Generated.HeaderFacts
import GoblVerif.Generated.EnvelopeFacts
import GoblVerif.Generated.EnvelopeSrc
import GoblVerif.Proofs.EnvelopeSrc

namespace GoblVerif.Props.C10
open GoblVerif GoblVerif.Spec.C10

variable (H : Nat → String)

/-! ## refinement -/

/-- the outcome class of every concrete step is the one the table gives for
    the abstract state — for *every* envelope state, reachable or not -/
theorem refines_outcome (e : Env) (op : Op) :
    (Env.step H e op).2 = specOutcome (abs H e) op := by
  cases op with
  | insert d => cases hd : d.calcOk <;> simp [Env.step, Env.insert, Env.calculate, specOutcome, hd]
  | calculate =>
    cases hdoc : e.doc with
    | none => simp [Env.step, Env.calculate, specOutcome, abs, hdoc]
    | some d => cases hd : d.calcOk <;> simp [Env.step, Env.calculate, specOutcome, abs, docFact, hdoc, hd]
  | editDoc c => cases hdoc : e.doc <;> simp [Env.step, specOutcome, abs, hdoc]
  | toggleCode c => cases hdoc : e.doc <;> simp [Env.step, specOutcome, abs, hdoc]
  | sign k => simp only [Env.step, specOutcome]; exact sign_snd H e k
  | signBadKey => rfl
  | unsign => rfl
  | addStamp p v => rfl
  | alterStamp v => cases hs : e.head.stamps <;> simp [Env.step, specOutcome, abs, hs]
  | addLink k u => rfl
  | addTag t => rfl
  | setMeta k v => rfl
  | setNotes s => rfl
  | validate => simp only [Env.step, specOutcome]; exact validate_eq_abs H e
  | verify ks => simp only [Env.step, specOutcome]; exact verify_eq_abs H e ks
  | roundtrip inj =>
    cases hdoc : e.doc with
    | none => simp [Env.step, specOutcome, abs, hdoc]
    | some d => cases inj <;> simp [Env.step, specOutcome, abs, hdoc]

/-- header operations keep the meta map a map -/
theorem step_wf (e : Env) (op : Op) (hwf : e.head.WF) : (Env.step H e op).1.head.WF := by
  cases op with
  | insert d => cases hd : d.calcOk <;> simpa [Env.step, Env.insert, Env.calculate, hd, Header.WF] using hwf
  | calculate =>
    cases hdoc : e.doc with
    | none => simpa [Env.step, Env.calculate, hdoc] using hwf
    | some d => cases hd : d.calcOk <;> simpa [Env.step, Env.calculate, hdoc, hd, Header.WF] using hwf
  | editDoc c => cases hdoc : e.doc <;> simpa [Env.step, hdoc] using hwf
  | toggleCode c => cases hdoc : e.doc <;> simpa [Env.step, hdoc] using hwf
  | sign k =>
    simp only [Env.step]
    by_cases h : (abs H e).signOutcome = .ok
    · rw [sign_fst_ok H e k h]; exact hwf
    · rw [sign_fst_fail H e k h]; exact hwf
  | signBadKey => exact hwf
  | unsign => exact hwf
  | addStamp p v => exact hwf
  | alterStamp v => cases hs : e.head.stamps <;> simpa [Env.step, hs, Env.setHead, Header.addStamp, Header.WF] using hwf
  | addLink k u => exact hwf
  | addTag t => exact hwf
  | setMeta k v => exact nodup_metaSet e.head.metas k v hwf
  | setNotes s => exact hwf
  | validate => exact hwf
  | verify ks => exact hwf
  | roundtrip inj =>
    cases hdoc : e.doc with
    | none => simpa [Env.step, hdoc] using hwf
    | some d => cases inj <;> simpa [Env.step, hdoc] using hwf

/-- the abstraction commutes with every step: the abstract successor is
    `specStep`, whose two free facts (is the new digest the document's /
    does the header still contain what was signed) are read off the concrete
    successor only where the table leaves them open -/
theorem refines_state (e : Env) (hwf : e.head.WF) (op : Op) :
    abs H (Env.step H e op).1 = specStep (abs H e) op (freeOf H (Env.step H e op).1) := by
  cases op with
  | insert d =>
    cases hd : d.calcOk
    · simp only [Env.step, Env.insert, Env.calculate, hd, specStep, Bool.false_eq_true, if_false, Bool.or_false]
      apply Abs.ext <;> simp [abs, docFact, freeOf, hd]
    · simp only [Env.step, Env.insert, Env.calculate, hd, specStep, if_true, Bool.or_true]
      apply Abs.ext <;> try (simp [abs, docFact, freeOf, hd]; done)
      refine freeContains_of H e _ ?_
      simp [abs]
  | calculate =>
    cases hdoc : e.doc with
    | none => simp [Env.step, Env.calculate, specStep, abs, hdoc]
    | some d =>
      cases hd : d.calcOk
      · simp [Env.step, Env.calculate, specStep, abs, docFact, hdoc, hd]
      · have h1 : ((abs H e).hasDoc && (abs H e).calcOk) = true := by simp [abs, docFact, hdoc, hd]
        simp only [Env.step, Env.calculate, hdoc, hd, specStep, h1, if_true]
        apply Abs.ext <;> try (simp [abs, docFact, hdoc]; done)
        show (abs H _).containsAll = _
        cases hok : (abs H e).digestOk
        · simp only [Bool.false_eq_true, if_false]
          refine freeContains_of H e _ ?_
          simp [abs]
        · simp only [if_true]
          have : e.head.dig = some (digestOf H d) := by simpa [abs, docFact, hdoc] using hok
          have hh : ({ e.head with dig := some (digestOf H d) } : Header) = e.head := by
            rw [← this]
          simp [abs, hh]
  | editDoc c =>
    cases hdoc : e.doc with
    | none => simp [Env.step, specStep, abs, hdoc]
    | some d =>
      simp only [Env.step, hdoc, specStep]
      have : (abs H e).hasDoc = true := by simp [abs, hdoc]
      simp only [this, if_true]
      apply Abs.ext <;> simp [abs, docFact, hdoc, freeOf]
  | toggleCode c =>
    cases hdoc : e.doc with
    | none => simp [Env.step, specStep, abs, hdoc]
    | some d =>
      simp only [Env.step, hdoc, specStep]
      have : (abs H e).hasDoc = true := by simp [abs, hdoc]
      simp only [this, if_true]
      apply Abs.ext <;> simp [abs, docFact, hdoc, freeOf]
  | sign k =>
    simp only [Env.step, specStep]
    by_cases h : (abs H e).signOutcome = .ok
    · rw [sign_fst_ok H e k h]
      simp only [h, if_true]
      apply Abs.ext <;> try (simp [abs]; done)
      show (abs H _).containsAll = _
      simp [abs, sigContained, Header.contains_refl e.head hwf]
    · rw [sign_fst_fail H e k h]
      simp only [h, if_false]
      apply Abs.ext <;> simp [abs, Abs.unsigned]
  | signBadKey => rfl
  | unsign => apply Abs.ext <;> simp [Env.step, Env.unsign, specStep, abs, Abs.unsigned]
  | addStamp p v =>
    simp only [Env.step, specStep]
    obtain ⟨f1, f2, f3, f4, f5, f6, f7, f8, f9, f10⟩ := abs_setHead_fields H e (e.head.addStamp ⟨p, v⟩) rfl
    apply Abs.ext <;> try assumption
    · simp [abs, Env.setHead, Header.addStamp, dupKeys_addStampL]
    · simpa [abs, Env.setHead, Header.addStamp] using addStampL_ne_nil e.head.stamps ⟨p, v⟩
    · exact freeContains_of H e _ f8
  | alterStamp v =>
    cases hs : e.head.stamps with
    | nil => simp [Env.step, specStep, abs, hs]
    | cons s rest =>
      have hp : (abs H e).stampsPresent = true := by simp [abs, hs]
      simp only [Env.step, hs, specStep, hp, if_true]
      obtain ⟨f1, f2, f3, f4, f5, f6, f7, f8, f9, f10⟩ := abs_setHead_fields H e (e.head.addStamp ⟨s.prv, v⟩) rfl
      apply Abs.ext <;> try assumption
      · simp [abs, Env.setHead, Header.addStamp, dupKeys_addStampL]
      · simpa [abs, Env.setHead, Header.addStamp] using addStampL_ne_nil e.head.stamps ⟨s.prv, v⟩
      · exact freeContains_of H e _ f8
  | addLink k u =>
    simp only [Env.step, specStep]
    obtain ⟨f1, f2, f3, f4, f5, f6, f7, f8, f9, f10⟩ := abs_setHead_fields H e (e.head.addLink { key := k, url := u }) rfl
    apply Abs.ext <;> try assumption
    · simp [abs, Env.setHead, Header.addLink, dupKeys_addLinkL]
    · simp [abs, Env.setHead, Header.addLink]
    · exact freeContains_of H e _ f8
  | addTag t =>
    simp only [Env.step, specStep]
    obtain ⟨f1, f2, f3, f4, f5, f6, f7, f8, f9, f10⟩ := abs_setHead_fields H e (e.head.addTag t) rfl
    apply Abs.ext <;> try assumption
    · simp [abs, Env.setHead, Header.addTag]
    · simp [abs, Env.setHead, Header.addTag]
    · exact freeContains_of H e _ f8
  | setMeta k v =>
    simp only [Env.step, specStep]
    obtain ⟨f1, f2, f3, f4, f5, f6, f7, f8, f9, f10⟩ := abs_setHead_fields H e (e.head.setMeta k v) rfl
    apply Abs.ext <;> try assumption
    · simp [abs, Env.setHead, Header.setMeta]
    · simp [abs, Env.setHead, Header.setMeta]
    · exact freeContains_of H e _ f8
  | setNotes s =>
    simp only [Env.step, specStep]
    obtain ⟨f1, f2, f3, f4, f5, f6, f7, f8, f9, f10⟩ := abs_setHead_fields H e (e.head.setNotes s) rfl
    apply Abs.ext <;> try assumption
    · simp [abs, Env.setHead, Header.setNotes]
    · simp [abs, Env.setHead, Header.setNotes]
    · exact freeContains_of H e _ f8
  | validate => rfl
  | verify ks => rfl
  | roundtrip inj =>
    cases hdoc : e.doc with
    | none => simp [Env.step, specStep, abs, hdoc]
    | some d =>
      cases inj
      · simp [Env.step, specStep, hdoc]
      · simp [Env.step, specStep, hdoc]
      · have : (abs H e).hasDoc = true := by simp [abs, hdoc]
        simp only [Env.step, hdoc, specStep, this, beq_self_eq_true, Bool.and_self, if_true]
        apply Abs.ext <;> simp [abs, sigContained, hdoc]

/-- **refinement**: each concrete step's outcome class is the table's entry
    for the abstract state, the abstraction commutes with the step, and the
    invariant (meta is a map) is kept -/
theorem refines (e : Env) (hwf : e.head.WF) (op : Op) :
    (Env.step H e op).2 = specOutcome (abs H e) op ∧
    abs H (Env.step H e op).1 = specStep (abs H e) op (freeOf H (Env.step H e op).1) ∧
    (Env.step H e op).1.head.WF :=
  ⟨refines_outcome H e op, refines_state H e hwf op, step_wf H e op hwf⟩

theorem after_wf (e : Env) (ops : List Op) (hwf : e.head.WF) : (Env.after H e ops).head.WF := by
  induction ops generalizing e with
  | nil => exact hwf
  | cons op ops ih => exact ih _ (step_wf H e op hwf)

/-- over any history the outcomes are the ones the table predicts from the
    abstract states along it -/
theorem refines_history (e : Env) (ops : List Op) : (Env.run H e ops).2 = specTrace H e ops := by
  induction ops generalizing e with
  | nil => rfl
  | cons op ops ih =>
    simp only [Env.run, specTrace]
    rw [← ih, refines_outcome]

/-! ## corollaries, for every state (hence every reachable one) -/

/-- only valid envelopes with a matching digest can be signed: a successful
    `Sign` had a document that validates in the signed context (an invoice
    with its code), a header without duplicate keys, only real entries, and
    the header digest was the digest of the document -/
theorem sign_only_valid_matching (e : Env) (k : Key) (h : (Env.step H e (.sign k)).2 = .ok) :
    (abs H e).validSigned = true ∧ (abs H e).allReal = true ∧ (abs H e).digestOk = true ∧
    ∃ d, e.doc = some d ∧ d.valid = true ∧ (d.needsCode = true → d.hasCode = true) ∧
      e.head.dig = some (digestOf H d) := by
  rw [refines_outcome] at h
  simp only [specOutcome, Abs.signOutcome] at h
  have h1 : ((abs H e).validSigned && (abs H e).allReal) = true := by
    cases hh : ((abs H e).validSigned && (abs H e).allReal) <;> simp [hh] at h ⊢
  have h2 : (abs H e).digestOk = true := by
    cases hh : (abs H e).digestOk <;> simp [h1, hh] at h ⊢
  simp only [Bool.and_eq_true] at h1
  refine ⟨h1.1, h1.2, h2, ?_⟩
  cases hd : e.doc with
  | none => simp [abs, docFact, hd] at h2
  | some d =>
    have hv := h1.1
    simp only [Abs.validSigned, Abs.validUnsigned, abs, docFact, hd, Bool.and_eq_true, Bool.or_eq_true,
      Bool.not_eq_true'] at hv
    refine ⟨d, rfl, hv.1.1.1.2, ?_, by simpa [abs, docFact, hd] using h2⟩
    intro hn
    rcases hv.2 with h' | h'
    · rw [hn] at h'; cases h'
    · exact h'

/-- … and the signed result validates -/
theorem signed_result_validates (e : Env) (k : Key) (h : (Env.step H e (.sign k)).2 = .ok) :
    Env.validate H (Env.step H e (.sign k)).1 = .ok := by
  have h' : (abs H e).signOutcome = .ok := by rw [refines_outcome] at h; exact h
  simp only [Env.step]
  rw [sign_fst_ok H e k h', validate_append, h']

/-- a failed signing leaves the envelope unsigned (all signatures are dropped) -/
theorem failed_sign_leaves_unsigned (e : Env) (k : Key) (h : (Env.step H e (.sign k)).2 ≠ .ok) :
    (Env.step H e (.sign k)).1.sigs = [] ∧ (Env.step H e (.sign k)).1.signed = false := by
  have h' : (abs H e).signOutcome ≠ .ok := by rw [refines_outcome] at h; exact h
  simp only [Env.step]
  rw [sign_fst_fail H e k h']
  simp [Env.signed]

/-- stamps are accepted only on signed envelopes: an envelope that validates
    and carries a stamp is signed -/
theorem stamps_only_when_signed (e : Env) (hv : Env.validate H e = .ok) (hs : e.head.stamps ≠ []) :
    e.sigs ≠ [] := by
  intro h0
  rw [validate_eq_abs] at hv
  have h1 : (abs H e).signed = false := by simp [abs, h0]
  have h2 : (abs H e).stampsPresent = true := by
    cases hh : e.head.stamps <;> simp_all [abs]
  simp [Abs.validateOutcome, Abs.structOk, h1, h2] at hv

/-- … so a stamp added to an unsigned envelope makes it invalid -/
theorem stamp_on_unsigned_rejected (e : Env) (p v : String) (h0 : e.sigs = []) :
    Env.validate H (Env.step H e (.addStamp p v)).1 ≠ .ok := by
  intro hv
  refine stamps_only_when_signed H _ hv ?_ (by simpa [Env.step, Env.setHead] using h0)
  simpa [Env.step, Env.setHead, Header.addStamp] using addStampL_ne_nil e.head.stamps ⟨p, v⟩

/-- an invoice needs its code when signed: a signed envelope that validates
    around a code-requiring document has the code -/
theorem code_required_when_signed (e : Env) (d : Doc) (hv : Env.validate H e = .ok) (hs : e.sigs ≠ [])
    (hd : e.doc = some d) (hn : d.needsCode = true) : d.hasCode = true := by
  rw [validate_eq_abs] at hv
  have h1 : (abs H e).signed = true := by cases hh : e.sigs <;> simp_all [abs]
  have hs' : (abs H e).structOk = true := by
    cases hh : (abs H e).structOk <;> simp [Abs.validateOutcome, hh] at hv ⊢
  simp only [Abs.structOk, h1, if_true, Bool.and_eq_true, Abs.validSigned, Bool.or_eq_true,
    Bool.not_eq_true'] at hs'
  have hn' : (abs H e).needsCode = true := by simp [abs, docFact, hd, hn]
  have hc' : (abs H e).hasCode = d.hasCode := by simp [abs, docFact, hd]
  rcases hs'.1.2 with h | h
  · rw [hn'] at h; cases h
  · rw [hc'] at h; exact h

/-- … and such a document without code cannot be signed -/
theorem sign_without_code_fails (e : Env) (d : Doc) (k : Key) (hd : e.doc = some d)
    (hn : d.needsCode = true) (hc : d.hasCode = false) : (Env.step H e (.sign k)).2 = .validation := by
  rw [refines_outcome]
  simp [specOutcome, Abs.signOutcome, Abs.validSigned, abs, docFact, hd, hn, hc]

/-- **every entry is a real signature**: after any history from an unsigned
    envelope every entry of the signature list is either a `null` entry that
    entered through a JSON round trip, or a signature produced by a `sign`
    step of that history over the header of that moment -/
theorem every_sig_is_real_or_null (e : Env) (ops : List Op) (x : Option Sig)
    (hx : x ∈ (Env.after H e ops).sigs) :
    x ∈ e.sigs ∨ x = none ∨ ∃ sg ∈ signLog H e ops, x = some sg := by
  induction ops generalizing e with
  | nil => exact Or.inl hx
  | cons op ops ih =>
    simp only [Env.after] at hx
    rcases ih _ hx with h | h | ⟨sg, hsg, hxe⟩
    · rcases step_sigs H e op x h with h | ⟨h, _⟩ | ⟨k, hop, hk⟩
      · exact Or.inl h
      · exact Or.inr (Or.inl h)
      · subst hop
        exact Or.inr (Or.inr ⟨⟨k, e.head⟩, by simp [signLog], hk⟩)
    · exact Or.inr (Or.inl h)
    · exact Or.inr (Or.inr ⟨sg, by simp only [signLog]; exact List.mem_append_right _ hsg, hxe⟩)

/-- … and an envelope that validates has no `null` entry: every entry of the
    list of a valid envelope reached from an unsigned one was produced by a
    `sign` step -/
theorem every_sig_is_real (e : Env) (ops : List Op) (h0 : e.sigs = [])
    (hv : Env.validate H (Env.after H e ops) = .ok) :
    ∀ x ∈ (Env.after H e ops).sigs, ∃ sg ∈ signLog H e ops, x = some sg := by
  intro x hx
  rcases every_sig_is_real_or_null H e ops x hx with h | h | h
  · rw [h0] at h; cases h
  · exfalso
    subst h
    rw [validate_eq_abs] at hv
    have h1 : (abs H (Env.after H e ops)).signed = true := by
      cases hh : (Env.after H e ops).sigs <;> simp_all [abs]
    have h2 : (abs H (Env.after H e ops)).allReal = false := by
      simp only [abs, List.all_eq_false]
      exact ⟨none, hx, by simp⟩
    simp [Abs.validateOutcome, Abs.structOk, h1, h2] at hv
  · exact h

/-- a `null` entry is never accepted: it fails `Validate` and every `Verify` -/
theorem null_entry_rejected (e : Env) (h : none ∈ e.sigs) :
    Env.validate H e ≠ .ok ∧ ∀ ks, e.verify ks ≠ .ok := by
  have h1 : (abs H e).signed = true := by cases hh : e.sigs <;> simp_all [abs]
  have h2 : (abs H e).allReal = false := by
    simp only [abs, List.all_eq_false]; exact ⟨none, h, by simp⟩
  constructor
  · rw [validate_eq_abs]; simp [Abs.validateOutcome, Abs.structOk, h1, h2]
  · intro ks hv
    have := verify_eq_abs H e ks
    rw [hv] at this
    simp [VerifyOut.outcome, Abs.verifyOutcome, h1, h2] at this

/-- an edit of the document breaks a matching digest (digest-injectivity is
    the hypothesis): the table's free fact `digestOk` after `editDoc` is
    `false` whenever the new content differs -/
theorem edit_breaks_digest (hH : Function.Injective H) (e : Env) (d : Doc) (c : Nat) (hd : e.doc = some d)
    (hok : (abs H e).digestOk = true) (hc : c ≠ d.content) :
    (abs H (Env.step H e (.editDoc c)).1).digestOk = false ∧
    Env.validate H (Env.step H e (.editDoc c)).1 ≠ .ok := by
  have hdig : e.head.dig = some (digestOf H d) := by simpa [abs, docFact, hd] using hok
  have h1 : (abs H (Env.step H e (.editDoc c)).1).digestOk = false := by
    simp only [Env.step, hd, abs, docFact, hdig, beq_eq_false_iff_ne, ne_eq, Option.some.injEq, digestOf,
      Digest.mk.injEq, true_and]
    intro he
    exact hc (hH he).symm
  refine ⟨h1, ?_⟩
  rw [validate_eq_abs]
  simp only [Abs.validateOutcome, h1]
  split <;> simp

/-! ## non-vacuity: a history through the interesting branches -/

example :
    (Env.run exH (emptyEnv exUuid)
      [.sign 1, .insert exInvoice, .addStamp "p" "v", .validate, .sign 1, .validate, .verify [1],
       .editDoc 7, .validate, .sign 2, .verify [1], .calculate, .sign 2, .verify [1], .verify [2],
       .roundtrip .null, .validate, .verify [], .unsign, .validate]).2
    = [.validation, .ok, .ok, .validation, .ok, .ok, .ok,
       .ok, .digest, .digest, .unsigned, .ok, .ok, .verifyFailed, .ok,
       .ok, .validation, .verifyFailed, .ok, .validation] := by decide

example : (Env.run exH (emptyEnv exUuid) [.insert exInvoiceNoCode, .validate, .sign 1, .toggleCode 9, .calculate, .sign 1]).2
    = [.ok, .ok, .validation, .ok, .ok, .ok] := by decide

example : (emptyEnv exUuid).head.WF := by decide

/-! ## the tie to the source: /repo/envelope.go translated by go2lean

`Generated/EnvelopeSrc.lean` is the Go text of `Signed`, `Validate`,
`ValidateWithContext`, `verifyDigest`, `Sign`, `Unsign`, `calculate`, `Calculate`,
`Insert`, `verifySignature` and `Verify` translated on every run; the calls that
leave envelope.go (signing, digest, struct validation, document calculation,
uuid, error wrapping) are the declared primitives of Model/EnvelopeSrcPrims.lean.
Each regenerated definition is proved equal, for all arguments, to the model
transition it was written for, so `refines` is a statement about what the code
says now.  `EnvSrc.ofEnv H sch e` is the Go envelope that stands for the model's
`e` (`$schema` = sch, the header pointer non-nil, the document's digest =
`digestOf H`); `EnvSrc.goErr o` is the `*gobl.Error` with the key of the class
`o` (nil for ok). -/
namespace Src
open GoblVerif.Generated GoblVerif.EnvSrc

theorem all_translated : EnvelopeSrc.untranslated = [] := by decide

theorem translated_as_listed : EnvelopeSrc.translated =
    ["Envelope.Signed", "var ErrDigest", "Envelope.verifyDigest", "Envelope.ValidateWithContext", "Envelope.Validate",
     "Envelope.Unsign", "var ErrValidation", "var ErrSignature", "Envelope.Sign", "var EnvelopeSchema",
     "var ErrCalculation", "Envelope.calculate", "var ErrNoDocument", "Envelope.Calculate", "var ErrInternal",
     "Envelope.Insert", "Envelope.verifySignature", "Envelope.Verify"] := by decide

theorem struct_Envelope_as_mapped :
    EnvelopeSrc.struct_Envelope = [("Schema", "schema.ID"), ("Head", "*head.Header"), ("Document", "*schema.Object"),
      ("Signatures", "[]*dsig.Signature")] ∧
    EnvelopeSrc.structLean_Envelope = ("GoblVerif.EnvSrc.Envelope", ["Schema", "Head", "Document", "Signatures"]) ∧
    EnvelopeSrc.structOmitted_Envelope = [] := by decide

theorem struct_Header_as_mapped :
    EnvelopeSrc.struct_head_Header = [("UUID", "uuid.UUID"), ("Digest", "*dsig.Digest"), ("Stamps", "[]*head.Stamp"),
      ("Links", "[]*head.Link"), ("Tags", "[]string"), ("Meta", "cbc.Meta"), ("Notes", "string")] ∧
    EnvelopeSrc.structLean_head_Header = ("GoblVerif.Header", ["uuid", "dig", "stamps", "links", "tags", "metas", "notes"]) ∧
    EnvelopeSrc.structOmitted_head_Header = [] ∧
    EnvelopeSrc.struct_dsig_Digest = [("Algorithm", "dsig.DigestAlgorithm"), ("Value", "string")] ∧
    EnvelopeSrc.structOmitted_dsig_Digest = [] := by decide

/-- what the translation assumes beyond its general reading of Go: the
    primitives (Model/EnvelopeSrcPrims.lean says what each means), the
    functions that write their receiver, the writes through the header pointer,
    the calls among them, the primitives that fill an out-parameter -/
theorem assumptions_as_reviewed :
    EnvelopeSrc.nonNilElems = ["[]*head.Link", "[]*head.Stamp"] ∧
    EnvelopeSrc.mapRanges = [] ∧ EnvelopeSrc.mapNilTests = [] ∧
    EnvelopeSrc.mapWrites = [("Envelope.Verify", "ve[strconv.Itoa(i)]")] ∧
    EnvelopeSrc.inOutParams = [("Envelope.Unsign", "e"), ("Envelope.Sign", "e"), ("Envelope.calculate", "e"),
      ("Envelope.Calculate", "e"), ("Envelope.Insert", "e")] ∧
    EnvelopeSrc.ptrWrites = [("Envelope.calculate", "e.Head.UUID"), ("Envelope.calculate", "e.Head.Digest")] ∧
    EnvelopeSrc.inOutCalls = [("Envelope.Calculate", "e.calculate()"), ("Envelope.Insert", "e.calculate()")] ∧
    EnvelopeSrc.outPrimCalls = [("Envelope.verifySignature", "sig.UnsafePayload(h)"),
      ("Envelope.verifySignature", "sig.VerifyPayload(k, h)")] ∧
    EnvelopeSrc.natSubs = [] ∧ EnvelopeSrc.fuelChecks = [] := by decide

theorem named_types_as_reviewed :
    EnvelopeSrc.namedTypes.map (fun x => (x.1, x.2.2)) =
      [("context.Context", "Bool"), ("dsig.PrivateKey", "GoblVerif.Key"), ("dsig.PublicKey", "GoblVerif.Key"),
       ("dsig.Signature", "GoblVerif.Sig"), ("error", "Option GoblVerif.EnvSrc.Err"), ("schema.ID", "String"),
       ("schema.Object", "GoblVerif.EnvSrc.Obj"), ("uuid.UUID", "String")] := by decide

theorem primitives_as_reviewed : EnvelopeSrc.primitives = [
    ("Envelope.Digest", "GoblVerif.EnvSrc.digestPrim {0}"),
    ("Error.WithCause", "GoblVerif.EnvSrc.withCause {0} {1}"),
    ("Error.WithReason", "{0}"),
    ("NewError", "(some (GoblVerif.EnvSrc.Err.gobl {0:lit}))"),
    ("context.Background", "false"),
    ("dsig.Digest.Equals", "GoblVerif.EnvSrc.digestEquals {0} {1}"),
    ("dsig.PrivateKey.Sign", "GoblVerif.EnvSrc.keySign {0} {1}"),
    ("dsig.Signature.UnsafePayload", "GoblVerif.EnvSrc.sigPayload {0}"),
    ("dsig.Signature.VerifyPayload", "GoblVerif.EnvSrc.sigVerifyPayload {0} {1}"),
    ("errors.New", "GoblVerif.EnvSrc.errNew {0:lit}"),
    ("head.Header.Contains", "GoblVerif.Header.contains ({0}.get!) ({1}.get!)"),
    ("head.NewHeader", "GoblVerif.EnvSrc.newHeader"),
    ("internal.SignedContext", "true"),
    ("schema.CheckNullElements", "GoblVerif.EnvSrc.checkNull {0}"),
    ("schema.ID.Add", "GoblVerif.EnvSrc.envelopeSchemaId"),
    ("schema.NewObject", "GoblVerif.EnvSrc.newObject {0}"),
    ("schema.Object.Calculate", "GoblVerif.EnvSrc.objCalculate {0}"),
    ("schema.Object.IsEmpty", "GoblVerif.EnvSrc.objIsEmpty {0}"),
    ("strconv.Itoa", "(toString {0})"),
    ("uuid.UUID.IsZero", "GoblVerif.EnvSrc.uuidIsZero {0}"),
    ("uuid.V7", "GoblVerif.EnvSrc.freshUUID"),
    ("validation.ValidateStructWithContext", "GoblVerif.EnvSrc.validateStruct {0} {1}"),
    ("wrapError", "GoblVerif.EnvSrc.wrapError {0}")] := by decide

/-- **`(*Envelope).Signed`, regenerated, is `Env.signed`** -/
theorem src_Signed (sch : String) (e : Env) : EnvelopeSrc.Envelope_Signed (ofEnv H sch e) = e.signed :=
  EnvSrc.src_Signed H sch e

/-- **`(*Envelope).Unsign`, regenerated, is `Env.unsign`** (only the signatures
    go: header and stamps stay, C10-4) -/
theorem src_Unsign (sch : String) (e : Env) :
    EnvelopeSrc.Envelope_Unsign (ofEnv H sch e) = ofEnv H sch e.unsign :=
  EnvSrc.src_Unsign H sch e

/-- **`(*Envelope).Validate` (through `ValidateWithContext` and `verifyDigest`),
    regenerated, is `Env.validate`**: the signed context exactly when there are
    signatures, struct validation first, then the digest comparison — for every
    envelope with a `$schema` -/
theorem src_Validate (sch : String) (hs : sch ≠ "") (e : Env) :
    EnvelopeSrc.Envelope_Validate (ofEnv H sch e) = goErr (Env.validate H e) :=
  EnvSrc.src_Validate H sch hs e

/-- **`(*Envelope).Sign`, regenerated, is `Env.sign`**: same error class and
    same envelope afterwards (the new signature appended, or — on a failed
    validation — ALL signatures dropped), for every envelope and key -/
theorem src_Sign (sch : String) (hs : sch ≠ "") (e : Env) (k : Key) :
    EnvelopeSrc.Envelope_Sign (ofEnv H sch e) (some k)
      = (goErr (Env.step H e (.sign k)).2, ofEnv H sch (Env.step H e (.sign k)).1) :=
  EnvSrc.src_Sign H sch hs e k

/-- … with a key without material: `signature`, envelope unchanged (`Op.signBadKey`) -/
theorem src_Sign_badKey (sch : String) (e : Env) :
    EnvelopeSrc.Envelope_Sign (ofEnv H sch e) none
      = (goErr (Env.step H e .signBadKey).2, ofEnv H sch (Env.step H e .signBadKey).1) :=
  EnvSrc.src_Sign_badKey H sch e

/-- … and the branch the model cannot be in (no header): refused, nothing changes -/
theorem src_Sign_noHead (E : EnvSrc.Envelope) (key : Option Key) (h : E.Head = none) :
    EnvelopeSrc.Envelope_Sign E key = (goErr .validation, E) :=
  EnvSrc.src_Sign_noHead E key h

/-- **`(*Envelope).Calculate`, regenerated, is `Env.calculate`** on an envelope
    with a document whose header has an identifier (the model does not follow
    the assignment of a fresh uuid): `$schema` reset, document calculated, the
    header digest refreshed.  Signatures do NOT stop it (there is no refusal
    when signed in the code) -/
theorem src_Calculate (sch : String) (e : Env) (d : Doc) (hdoc : e.doc = some d)
    (hz : uuidIsZero (some e.head.uuid) = false) :
    EnvelopeSrc.Envelope_Calculate (ofEnv H sch e)
      = (goErr (Env.step H e .calculate).2, ofEnv H EnvelopeSrc.EnvelopeSchema (Env.step H e .calculate).1) :=
  EnvSrc.src_Calculate H sch e d hdoc hz

example : ∃ (e : Env) (d : Doc), e.doc = some d ∧ uuidIsZero (some e.head.uuid) = false :=
  ⟨{ emptyEnv exUuid with doc := some exInvoice }, exInvoice, rfl, by decide⟩

/-- … without a document (nil, or `NewEnvelope`'s empty object): `no-document`, nothing changes -/
theorem src_Calculate_noDoc (sch : String) (e : Env) (hdoc : e.doc = none) :
    EnvelopeSrc.Envelope_Calculate (ofEnv H sch e)
      = (goErr (Env.step H e .calculate).2, ofEnv H sch (Env.step H e .calculate).1) :=
  EnvSrc.src_Calculate_noDoc H sch e hdoc

theorem src_Calculate_emptyObj (E : EnvSrc.Envelope) (o : Obj) (h : E.Document = some o) (he : o.empty = true) :
    EnvelopeSrc.Envelope_Calculate E = (goErr .noDocument, E) :=
  EnvSrc.src_Calculate_emptyObj E o h he

/-- **`(*Envelope).Insert`, regenerated, is `Env.insert`**, whether the argument
    is a `*schema.Object` or a payload that `schema.NewObject` accepts: the
    document is replaced FIRST, then calculated -/
theorem src_Insert (sch : String) (e : Env) (d : Doc) (hz : uuidIsZero (some e.head.uuid) = false) :
    EnvelopeSrc.Envelope_Insert (ofEnv H sch e) (.obj (some (ofDoc H d)))
      = (goErr (Env.step H e (.insert d)).2, ofEnv H EnvelopeSrc.EnvelopeSchema (Env.step H e (.insert d)).1) ∧
    EnvelopeSrc.Envelope_Insert (ofEnv H sch e) (.other (some (ofDoc H d)) none)
      = (goErr (Env.step H e (.insert d)).2, ofEnv H EnvelopeSrc.EnvelopeSchema (Env.step H e (.insert d)).1) :=
  ⟨EnvSrc.src_Insert_obj H sch e d hz, EnvSrc.src_Insert_other H sch e d hz⟩

/-- … a nil document is refused and nothing changes -/
theorem src_Insert_nil (sch : String) (e : Env) :
    EnvelopeSrc.Envelope_Insert (ofEnv H sch e) .nil = (goErr .noDocument, ofEnv H sch e) :=
  EnvSrc.src_Insert_nil H sch e

/-- **`(*Envelope).verifySignature`, regenerated, is `verifySignature`**: same
    verdict (as the `errors.New` text) for every header, signature entry (nil
    too) and key list -/
theorem src_verifySignature (sch : String) (e : Env) (sg : Option Sig) (ks : List Key) :
    EnvelopeSrc.Envelope_verifySignature (ofEnv H sch e) sg (ks.map some)
      = verdictErr (verifySignature e.head sg ks) :=
  EnvSrc.src_verifySignature H sch e sg ks

/-- **`(*Envelope).Verify`, regenerated, is `Env.verify`**: `signature` when
    there is nothing to verify, nil exactly when EVERY entry verifies, otherwise
    `validation` -/
theorem src_Verify (sch : String) (e : Env) (ks : List Key) :
    EnvelopeSrc.Envelope_Verify (ofEnv H sch e) (ks.map some) = verifyErr (e.verify ks) :=
  EnvSrc.src_Verify H sch e ks

/-- the refinement theorem read off the regenerated code: the error class that
    the translated `Sign` / `Validate` / `Verify` return is the entry of the
    16-row table for the abstract state -/
theorem src_refines_outcome (sch : String) (hs : sch ≠ "") (e : Env) :
    (∀ k, (EnvelopeSrc.Envelope_Sign (ofEnv H sch e) (some k)).1 = goErr (specOutcome (abs H e) (.sign k))) ∧
    EnvelopeSrc.Envelope_Validate (ofEnv H sch e) = goErr (specOutcome (abs H e) .validate) ∧
    (∀ ks, outcomeOf (EnvelopeSrc.Envelope_Verify (ofEnv H sch e) (ks.map some)) ≠ .ok ↔
      specOutcome (abs H e) (.verify ks) ≠ .ok) := by
  refine ⟨fun k => ?_, ?_, fun ks => ?_⟩
  · rw [src_Sign H sch hs e k, refines_outcome]
  · rw [src_Validate H sch hs e, ← refines_outcome]; rfl
  · rw [src_Verify H sch e ks, ← refines_outcome]
    simp only [Env.step]
    cases e.verify ks <;> simp [verifyErr, outcomeOf, VerifyOut.outcome]

example : ∃ sch : String, sch ≠ "" := ⟨EnvelopeSrc.EnvelopeSchema, by decide⟩

/-- a failed second `Sign` of the regenerated code leaves NO signature (C10-1) -/
theorem src_failed_sign_leaves_unsigned (sch : String) (hs : sch ≠ "") (e : Env) (k : Key)
    (h : (EnvelopeSrc.Envelope_Sign (ofEnv H sch e) (some k)).1 ≠ none) :
    (EnvelopeSrc.Envelope_Sign (ofEnv H sch e) (some k)).2.Signatures = [] := by
  rw [src_Sign H sch hs e k] at h ⊢
  have hne : (Env.step H e (.sign k)).2 ≠ .ok := by
    intro hc; apply h; simp [hc, goErr]
  simp [ofEnv, (failed_sign_leaves_unsigned H e k hne).1]

example : (EnvelopeSrc.Envelope_Sign (ofEnv exH EnvelopeSrc.EnvelopeSchema
      (Env.after exH (emptyEnv exUuid) [.insert exInvoice, .sign 1, .editDoc 7])) (some 2)).1 ≠ none := by decide

end Src

/-! ## expectations over facts regenerated from /repo on every run

The life-cycle model was written against these shapes: `Sign` appends, then
`Validate`s, and on failure sets `Signatures = nil`; `ValidateWithContext`
switches to the signed context when there are signatures and requires every
entry; stamps must be empty unless signed and duplicates are rejected; the
invoice code is required in the signed context; an empty signature string is
a parse error; `AddStamp` / `AppendLink` replace in place or append. -/
namespace Expect
open GoblVerif.Generated

theorem sign_calls : Envelope.calls_Envelope_Sign = WrittenAgainst.signCalls := by decide
theorem sign_appends_validates_rolls_back : Envelope.assigns_Envelope_Sign = WrittenAgainst.signAssigns := by decide
theorem sign_returns : Envelope.returns_Envelope_Sign = WrittenAgainst.signReturns := by decide
theorem unsign_clears : Envelope.assigns_Envelope_Unsign = WrittenAgainst.unsignAssigns := by decide
theorem signed_is_nonempty : Envelope.returns_Envelope_Signed = WrittenAgainst.signedReturns := by decide
theorem validate_signed_context : Envelope.conds_Envelope_ValidateWithContext = WrittenAgainst.validateConds := by decide
theorem validate_then_digest : Envelope.returns_Envelope_ValidateWithContext = WrittenAgainst.validateReturns := by decide
theorem validate_fields : Envelope.envelopeValidatedFields = WrittenAgainst.validatedFields := by decide
theorem every_signature_entry_required : Envelope.rules_Signatures = WrittenAgainst.rulesSignatures := by decide
theorem digest_error_class : Envelope.returns_Envelope_verifyDigest = WrittenAgainst.verifyDigestReturns := by decide
theorem digest_equals : Envelope.conds_dig_Digest_Equals = WrittenAgainst.digestEqualsConds := by decide
theorem insert_calls : Envelope.calls_Envelope_Insert = WrittenAgainst.insertCalls := by decide
theorem insert_returns : Envelope.returns_Envelope_Insert = WrittenAgainst.insertReturns := by decide
theorem calculate_needs_document : Envelope.conds_Envelope_Calculate = WrittenAgainst.calculateConds ∧
    Envelope.returns_Envelope_Calculate = WrittenAgainst.calculateReturns := by decide
theorem calculate_sets_digest : Envelope.assigns_Envelope_calculate = WrittenAgainst.calcAssigns ∧
    Envelope.returns_Envelope_calculate = WrittenAgainst.calcReturns := by decide
theorem empty_signature_is_parse_error :
    Envelope.conds_sig_Signature_UnmarshalJSON = WrittenAgainst.sigUnmarshalConds ∧
    Envelope.returns_sig_Signature_UnmarshalJSON = WrittenAgainst.sigUnmarshalReturns := by decide
theorem nil_signature_tolerated : Envelope.conds_sig_Signature_Verify = WrittenAgainst.sigVerifyConds ∧
    Envelope.conds_sig_Signature_Unsafe = WrittenAgainst.sigUnsafeConds := by decide
theorem invoice_code_required_when_signed : Envelope.invoice_rules_Code = WrittenAgainst.invoiceCodeRule := by decide
theorem signed_context : Envelope.returns_internal_IsSigned = WrittenAgainst.isSignedReturns ∧
    Envelope.returns_internal_SignedContext = WrittenAgainst.signedContextReturns := by decide

theorem header_validated_fields : Head.validatedFields = WrittenAgainst.headerValidated := by decide
theorem stamps_only_when_signed_rule : Head.rules_Stamps = WrittenAgainst.rulesStamps := by decide
theorem links_rule : Head.rules_Links = WrittenAgainst.rulesLinks := by decide
theorem digest_required : Head.rules_Digest = WrittenAgainst.rulesDigest := by decide
theorem duplicate_detection : Head.stampInConds = WrittenAgainst.stampInConds ∧
    Head.dupStampConds = WrittenAgainst.dupStampConds ∧ Head.dupLinkConds = WrittenAgainst.dupLinkConds := by decide
theorem addStamp_replaces_or_appends : Head.addStampConds = WrittenAgainst.addStampConds ∧
    Head.addStampReturns = WrittenAgainst.addStampReturns ∧ Head.addStampAssigns = WrittenAgainst.copyInPlaceStamp := by decide
theorem appendLink_replaces_or_appends : Head.appendLinkConds = WrittenAgainst.appendLinkConds ∧
    Head.appendLinkReturns = WrittenAgainst.appendLinkReturns ∧ Head.appendLinkAssigns = WrittenAgainst.copyInPlaceLink := by decide

end Expect

end GoblVerif.Props.C10
