/-
  C07 — Canonical JSON follows its specification.

  Only property theorems live here (helper lemmas: Proofs/C14n*.lean).  Every
  theorem is about the *model* of /repo/c14n (Model/C14n.lean: checkEncoding on
  the raw text, the reader on decoder tokens, Object.Sort, the MarshalJSON
  methods with the `first` flags, encodeString with the extracted safeSet/hex
  tables, Float.MarshalJSON's byte surgery on strconv's output) and relates it
  to the README rules (Spec/C07.lean: `norm`, `text`, the number-form
  recognisers).

  Strings are lists of code points.  A string the decoder yields is a sequence
  of Unicode scalar values (`isScalar`; U+FFFD is one of them); a list with
  another element stands for a Go string that is not valid UTF-8, which only a
  direct user of the object model can hand to encodeString (`cleanS`/`cleanJ`
  = every string is a sequence of scalar values).

  Texts are code-point lists (`Chars`); `canon` is their UTF-8 encoding.
  `v.wf` says every float leaf carries well-formed shortest digits (what
  strconv yields); it is a hypothesis about the trusted float formatter, the
  harness checks it on every generated and observed value.
-/
import GoblVerif.Proofs.C14nModel
import GoblVerif.Proofs.C14nNorm
import GoblVerif.Proofs.C14nForm
import GoblVerif.Proofs.C14nReader
import GoblVerif.Proofs.C14nEncoding
import GoblVerif.Proofs.C14nSrc

namespace GoblVerif.Props.C07
open GoblVerif GoblVerif.Spec.C07 GoblVerif.C14n GoblVerif.Proofs.C14n

/-! ## the model computes the README text of the logical content -/

/-- CanonicalJSON (model) = README text of `norm v` (null members dropped, members sorted) for
    every value whose surviving strings and keys are Unicode strings; a string with invalid
    encoding is refused (README rule 8.3) -/
theorem canon_meets_spec (v : J) (hw : v.wf = true) :
    canonChars v = if cleanJ (norm v) then some (text (norm v)) else none :=
  canonChars_eq v (by rw [wf_sortJ]; exact hw)

theorem canon_bytes (v : J) (hw : v.wf = true) :
    canon v = if cleanJ (norm v) then some (utf8s (text (norm v))) else none := by
  unfold canon; rw [canon_meets_spec v hw]; split <;> rfl

/-- every value the decoder can yield — all strings and keys are sequences of scalar values,
    U+FFFD included — has a canonical form, and it is the README text of its content -/
theorem canon_total (v : J) (hw : v.wf = true) (hs : strsHave (fun c => !isScalar c) v = false) :
    canon v = some (utf8s (text (norm v))) := by
  rw [canon_bytes v hw, cleanJ_norm_of_scalar v hs]; rfl

/-- the only refused values: a surviving string or key is not a sequence of scalar values
    (it has no UTF-8 encoding).  U+FFFD does not make a string unclean. -/
theorem canon_rejects_iff (v : J) (hw : v.wf = true) :
    canon v = none ↔ strsHave (fun c => !isScalar c) (norm v) = true := by
  rw [canon_bytes v hw, cleanJ_eq]; cases strsHave (fun c => !isScalar c) (norm v) <;> simp

/-- the replacement character is an ordinary character: as a value and as a key -/
theorem replacement_character_kept (pre post : Str) (hp : pre.all isScalar = true) (hq : post.all isScalar = true) :
    encodeString (pre ++ 0xFFFD :: post) = some (strText (pre ++ 0xFFFD :: post)) ∧
    (escS (pre ++ 0xFFFD :: post) = escS pre ++ 0xFFFD :: escS post) := by
  constructor
  · rw [encodeString_eq]
    have : cleanS (pre ++ 0xFFFD :: post) = true := by
      have h : isScalar 0xFFFD = true := by decide
      simp [cleanS, List.all_append, h] at hp hq ⊢
      exact ⟨hp, hq⟩
    rw [this]; rfl
  · simp [escS, escChar]

example : canonChars (.str [0xFFFD]) = some [0x22, 0xFFFD, 0x22] := by decide
example : canon (.obj (.cons [0xFFFD] (.str [0x61, 0xFFFD]) .nil)) =
    some [0x7B, 0x22, 0xEF, 0xBF, 0xBD, 0x22, 0x3A, 0x22, 0x61, 0xEF, 0xBF, 0xBD, 0x22, 0x7D] := by decide
-- a Go string with undecodable bytes (here: an encoded surrogate) handed to the object model is refused
example : canonChars (.str [0x61, 0xD800]) = none := by decide

/-! ## independence of member order and of null members -/

/-- member order is irrelevant when keys are distinct -/
theorem canon_perm (kvs kvs' : KL) (hp : kvs.toList.Perm kvs'.toList) (hn : (KL.keys kvs).Nodup) :
    canon (.obj kvs) = canon (.obj kvs') := by
  unfold canon; rw [canonChars_perm kvs kvs' hp hn]

/-- members whose value is null do not matter -/
theorem canon_drop_null (kvs : KL) :
    canon (.obj (KL.ofList (kvs.toList.filter (fun p => !p.2.isNull)))) = canon (.obj kvs) := by
  unfold canon; exact congrArg _ (canonChars_dropTop kvs)

/-- … at any depth: the canonical form only depends on the normal form -/
theorem canon_of_norm_eq (v w : J) (h : norm v = norm w) : canon v = canon w := by
  unfold canon; rw [← canonChars_norm v, ← canonChars_norm w, h]

/-- nulls inside arrays are kept: arrays are normalised element by element, nothing is removed -/
theorem canon_keeps_null_in_arrays (xs : JL) :
    norm (.arr xs) = .arr (JL.ofList (xs.toList.map norm)) ∧ norm .null = .null := by
  constructor
  · unfold norm
    simp only [sortJ, dropJ]
    congr 1
    exact dropJL_sortJL_map xs
  · rfl

example : canonChars (.arr (.cons .null (.cons (.obj (.cons [0x78] .null .nil)) (.cons .null .nil)))) =
    some [0x5B, 0x6E, 0x75, 0x6C, 0x6C, 0x2C, 0x7B, 0x7D, 0x2C, 0x6E, 0x75, 0x6C, 0x6C, 0x5D] := by decide
-- {"b":1,"a":null,"":[true]} and {"":[true],"b":1} have the same canonical text {"":[true],"b":1}
example : canonChars (.obj (.cons [0x62] (.int 1) (.cons [0x61] .null (.cons [] (.arr (.cons (.bool true) .nil)) .nil)))) =
    canonChars (.obj (.cons [] (.arr (.cons (.bool true) .nil)) (.cons [0x62] (.int 1) .nil))) := by decide

/-! ## injectivity: different content never shares a canonical form -/

/-- the README text of a content is a prefix code once delimited (`,` `]` `}` or end of text) -/
theorem text_prefix_free (v w : J) (r₁ r₂ : Chars) (hv : v.wf = true) (hw : w.wf = true)
    (h₁ : delim r₁ = true) (h₂ : delim r₂ = true) (h : text v ++ r₁ = text w ++ r₂) :
    v = w ∧ r₁ = r₂ :=
  inj_J v w r₁ r₂ hv hw h₁ h₂ h

/-- the work-horse: canonical texts followed by delimited remainders determine the content and the remainder -/
theorem canon_prefix_free (v w : J) (a b r₁ r₂ : Chars) (hv : v.wf = true) (hw : w.wf = true)
    (ha : canonChars v = some a) (hb : canonChars w = some b)
    (h₁ : delim r₁ = true) (h₂ : delim r₂ = true) (h : a ++ r₁ = b ++ r₂) :
    norm v = norm w ∧ r₁ = r₂ := by
  rw [canon_meets_spec v hv] at ha
  rw [canon_meets_spec w hw] at hb
  split at ha <;> simp only [Option.some.injEq, reduceCtorEq] at ha
  split at hb <;> simp only [Option.some.injEq, reduceCtorEq] at hb
  subst ha hb
  exact inj_J _ _ r₁ r₂ (wf_norm v hv) (wf_norm w hw) h₁ h₂ h

/-- code-point level: equal canonical texts ⇒ equal content -/
theorem canon_injective_chars (v w : J) (hv : v.wf = true) (hw : w.wf = true) (a : Chars)
    (ha : canonChars v = some a) (hb : canonChars w = some a) : norm v = norm w :=
  (canon_prefix_free v w a a [] [] hv hw ha hb rfl rfl rfl).1

/-- byte level: two values with the same canonical bytes have the same content
    (so values with different content never share a canonical form) -/
theorem canon_injective (v w : J) (hv : v.wf = true) (hw : w.wf = true) (b : Bytes)
    (ha : canon v = some b) (hb : canon w = some b) : norm v = norm w := by
  unfold canon at ha hb
  cases hcv : canonChars v with
  | none => simp [hcv] at ha
  | some a =>
    cases hcw : canonChars w with
    | none => simp [hcw] at hb
    | some a' =>
      simp only [hcv, hcw, Option.map_some, Option.some.injEq] at ha hb
      have : a = a' := utf8s_injective a a' (by rw [ha, hb])
      subst this
      exact canon_injective_chars v w hv hw a hcv hcw

example : (J.flt false [1, 5] (-7)).wf = true ∧ canonChars (.flt true [1, 5] (-7)) ≠ canonChars (.flt false [1, 5] (-7)) := by
  decide

/-- the canonical form canonicalises to itself (as a value: `norm v` is what a
    parser reads from `canon v`, by `text_prefix_free`/`leaf_reads_back` and the harness's strict parser) -/
theorem canon_idem (v : J) : canon (norm v) = canon v := by
  unfold canon; rw [canonChars_norm]

theorem norm_idem (v : J) : norm (norm v) = norm v := norm_norm v

/-- reading a leaf of canonical text gives back the leaf (strings are unescaped, numbers re-read) -/
theorem leaf_reads_back (a : Atom) (r : Chars) (hw : a.wf = true) (hr : delim r = true) :
    decodeAtom (atomText a ++ r) = some (a, r) :=
  decodeAtom_atomText a r hw hr

/-- UTF-8 encoding loses nothing -/
theorem utf8_injective (a b : Chars) (h : utf8s a = utf8s b) : a = b := utf8s_injective a b h

/-! ## the README forms -/

/-- rule 3: the members of every object of the content are in key (code point) order -/
theorem members_sorted (v : J) : sortedJ false (norm v) = true :=
  sorted_dropJ _ (sorted_sortJ v)

/-- rule 3, bytes versus code points: Go compares keys byte-wise on their UTF-8 encoding
    (`ltS` on the byte lists); that is the same as comparing the code points -/
theorem key_order_is_bytewise (a b : Str) : ltS (utf8s a) (utf8s b) = ltS a b := ltS_utf8s a b

/-- rule 4: no object of the content has a null member -/
theorem no_null_members (v : J) : noNullMembers (norm v) = true := noNull_dropJ _

/-- rule 8: encodeString with the extracted tables writes exactly the README escapes
    (two-character escapes for `"` `\` `\b` `\t` `\n` `\f` `\r`, `\u00XX` upper case for the
    other controls, everything else literal, U+FFFD like any other character) — or refuses
    a string that is not a sequence of scalar values (8.3) -/
theorem escapes_minimal (s : Str) :
    encodeString s = (if cleanS s then some (strText s) else none) ∧
    (∀ c, 0x20 ≤ c → c ≠ 0x22 → c ≠ 0x5C → escChar c = [c]) ∧
    (∀ c, c < 0x20 → c ≠ 8 → c ≠ 9 → c ≠ 10 → c ≠ 12 → c ≠ 13 →
      escChar c = [0x5C, 0x75, 0x30, 0x30, upperHex (c / 16), upperHex (c % 16)]) ∧
    escChar 0x22 = [0x5C, 0x22] ∧ escChar 0x5C = [0x5C, 0x5C] ∧ escChar 8 = [0x5C, 0x62] ∧
    escChar 9 = [0x5C, 0x74] ∧ escChar 10 = [0x5C, 0x6E] ∧ escChar 12 = [0x5C, 0x66] ∧
    escChar 13 = [0x5C, 0x72] := by
  refine ⟨encodeString_eq s, ?_, ?_, rfl, rfl, rfl, rfl, rfl, rfl, rfl⟩
  · intro c h1 h2 h3
    unfold escChar
    repeat' split
    all_goals first | rfl | omega
  · intro c h1 h2 h3 h4 h5 h6
    unfold escChar
    repeat' split
    all_goals first | rfl | omega

/-- rule 6: Integer.MarshalJSON writes `0` or `[-]` non-zero digit, digits -/
theorem int_plain (i : Int) : marshalAtom (.int i) = some (formatInt i) ∧ isIntPlain (formatInt i) = true :=
  ⟨rfl, isIntPlain_formatInt i⟩

/-- rule 7: Float.MarshalJSON (strconv 'E' output + the byte surgery) writes
    `[-]d.d+E[-]d+`: one digit before the point, non-zero unless the number is zero,
    fraction without trailing zeros (`.0` if empty), capital E, no `+`, no leading
    zeros in the exponent -/
theorem float_form (neg : Bool) (ds : List Nat) (e : Int) (hw : wfFloat ds e = true) :
    marshalAtom (.flt neg ds e) = some (fltText neg ds e) ∧ isFloatForm (fltText neg ds e) = true := by
  have hd : wfDigits ds = true := by simp only [wfFloat, Bool.and_eq_true] at hw; exact hw.1
  exact ⟨by simp [marshalAtom, marshalFloat_eq neg ds e hd], isFloatForm_fltText neg ds e hw⟩

example : marshalAtom (.flt true [1, 5] 0) = some [0x2D, 0x31, 0x2E, 0x35, 0x45, 0x30] := by decide
example : marshalAtom (.flt true [0] 0) = some [0x2D, 0x30, 0x2E, 0x30, 0x45, 0x30] := by decide
example : marshalAtom (.flt false [1] 2) = some [0x31, 0x2E, 0x30, 0x45, 0x32] := by decide
example : marshalAtom (.flt false [1, 2, 3] (-12)) = some [0x31, 0x2E, 0x32, 0x33, 0x45, 0x2D, 0x31, 0x32] := by decide

/-- rule 2: every character of the canonical text is a printable non-space ASCII
    character (structure, escapes, numbers) or a character ≥ U+0020 that occurs
    literally in a string or key of the input: no control character anywhere, and
    a space only where the content has one -/
theorem no_whitespace (v : J) (hw : v.wf = true) (a : Chars) (ha : canonChars v = some a) :
    ∀ c ∈ a, (0x21 ≤ c ∧ c < 0x7F) ∨ (0x20 ≤ c ∧ strsHave (· == c) v = true) := by
  rw [canon_meets_spec v hw] at ha
  split at ha <;> simp only [Option.some.injEq, reduceCtorEq] at ha
  subst ha
  intro c hc
  rcases text_chars (norm v) (wf_norm v hw) c hc with h | h
  · exact Or.inl h
  · exact Or.inr ⟨h.1, strsHave_norm _ v h.2⟩

/-- rule 1: the output is the UTF-8 encoding of a sequence of scalar values whenever
    the strings of the input consist of scalar values -/
theorem canon_valid_utf8 (v : J) (hw : v.wf = true) (hs : strsHave (fun c => !isScalar c) v = false)
    (b : Bytes) (hb : canon v = some b) : ∃ cs : Chars, b = utf8s cs ∧ ∀ c ∈ cs, isScalar c = true := by
  unfold canon at hb
  cases hc : canonChars v with
  | none => simp [hc] at hb
  | some a =>
    simp only [hc, Option.map_some, Option.some.injEq] at hb
    refine ⟨a, hb.symm, ?_⟩
    intro c hca
    rcases no_whitespace v hw a hc c hca with h | ⟨_, h⟩
    · simp [isScalar]; omega
    · cases hsc : isScalar c with
      | true => rfl
      | false =>
        have : strsHave (fun c => !isScalar c) v = true := by
          -- the witness character `c` is a non-scalar character of a string of `v`
          have hmono : ∀ (p q : Nat → Bool), (∀ x, p x = true → q x = true) →
              strsHave p v = true → strsHave q v = true := by
            intro p q hpq
            exact strsHave_mono p q hpq v
          exact hmono (· == c) (fun c => !isScalar c) (by intro x hx; simp at hx; subst hx; simp [hsc]) h
        rw [hs] at this; exact absurd this (by decide)

/-! ## the reader -/

/-- for every token sequence the decoder can emit (ending in io.EOF or in a decoder
    error), UnmarshalJSON returns a value exactly when the sequence is the tokens of one
    complete value and the input ends there — then the value is that value with every
    object sorted — and an error otherwise (empty, truncated, trailing data, stray closer);
    it never builds a tree that contains a nil Canonicalable -/
theorem reader_total (ts : List GTok) (eof : Bool) (hv : decValid ts = true) :
    (∀ t, unmarshal ts eof = .ok t ↔ (eof = true ∧ ∃ x, ts = gtoks x ∧ t = sortJ x)) ∧
    unmarshal ts eof ≠ .nilval :=
  unmarshal_total ts eof hv

/-- the tokens of a value are a sequence the decoder can emit, so `reader_total` is not vacuous -/
theorem reader_reads_values (v : J) : unmarshal (gtoks v) true = .ok (sortJ v) := unmarshal_gtoks v

/-- CanonicalJSON from tokens is `canonChars` of the value -/
theorem canonTokens_value (v : J) :
    canonTokens (gtoks v) true = (match canonChars v with | some cs => .ok cs | none => .err) := by
  unfold canonTokens canonChars
  rw [unmarshal_gtoks]
  cases h : marshalJ (sortJ v) <;> simp [h]

/-! ## input that cannot be represented is rejected, never read as different content -/

/-- tokenToValue returns its error exactly for the number that is neither an int64 nor a
    float64; every other token is read as the leaf it denotes -/
theorem tokenToValue_rejects_iff (l : Lit) :
    (tokenToValue l = none ↔ l = .over) ∧ ∀ a : Atom, tokenToValue (litOf a) = some a :=
  ⟨tokenToValue_none l, tokenToValue_litOf⟩

/-- CanonicalJSON on the raw tokens of the decoder (any sequence it can emit, ending in io.EOF
    or in a decoder error): a text is produced exactly when the tokens are those of one complete
    value `x` and the input ends there — and then it is the canonical text of that very `x`;
    everything else is an error (never a nil in the tree) -/
theorem raw_reader_total (ts : List RTok) (eof : Bool) (hv : decValid (ts.map cook) = true) :
    (∀ cs, canonRaw ts eof = .ok cs ↔ (eof = true ∧ ∃ x, ts = rtoks x ∧ canonChars x = some cs)) ∧
    canonRaw ts eof ≠ .nilval :=
  canonRaw_total ts eof hv

/-! ## the raw text: invalid encoding is rejected before the decoder can replace it by U+FFFD -/

/-- CanonicalJSON on a text `raw` for which the decoder yields the tokens `ts`: a canonical text
    is produced exactly when checkEncoding accepts `raw`, the tokens are those of one complete
    value `x` and the input ends there; it is the canonical text of `x` -/
theorem text_reader_total (raw : Bytes) (ts : List RTok) (eof : Bool) (hv : decValid (ts.map cook) = true) :
    (∀ cs, canonText raw ts eof = .ok cs ↔
      (checkEncoding raw = true ∧ eof = true ∧ ∃ x, ts = rtoks x ∧ canonChars x = some cs)) ∧
    canonText raw ts eof ≠ .nilval := by
  obtain ⟨h1, h2⟩ := canonRaw_total ts eof hv
  unfold canonText
  cases hc : checkEncoding raw with
  | true => simp only [if_true, true_and]; exact ⟨h1, h2⟩
  | false => simp

/-- whatever tokens the decoder makes of it (it would put U+FFFD where it cannot decode), a text
    that checkEncoding refuses is an error -/
theorem invalid_encoding_rejected (raw : Bytes) (ts : List RTok) (eof : Bool) (h : checkEncoding raw = false) :
    canonText raw ts eof = .err := by
  unfold canonText; simp [h]

/-- the first half of checkEncoding: `utf8.Valid` accepts exactly the UTF-8 encodings of
    sequences of Unicode scalar values (no overlong form, no encoded surrogate, nothing beyond
    U+10FFFF, no truncated sequence) -/
theorem utf8Valid_iff (b : Bytes) :
    utf8Valid b = true ↔ ∃ cs : Chars, cs.all isScalar = true ∧ b = utf8s cs := by
  constructor
  · exact utf8Valid_decodes b.length b (Nat.le_refl _)
  · rintro ⟨cs, hs, rfl⟩; exact utf8Valid_utf8s cs hs

/-- the second half: wherever the scan stands at the start of an escape (`pre` is any text it
    passes over, e.g. canonical text or proper pairs), the escape of a surrogate that is not a
    high half followed at once by the escape of a low half makes checkEncoding fail -/
theorem unpaired_surrogate_rejected (pre tail : Bytes) (hp : Passes pre) (r : Nat)
    (hr : escapedUnit tail = some r) (hs : 0xD800 ≤ r ∧ r < 0xE000)
    (hno : pairOK (some r) (escapedUnit (tail.drop 6)) = false) :
    checkEncoding (pre ++ tail) = false := by
  unfold checkEncoding; rw [unpaired_rejected pre tail hp r hr hs hno]; simp

/-- … while the escapes of a high and a low surrogate in a row are passed over -/
theorem surrogate_pair_passes (a b c d a' b' c' d' : Nat)
    (h : pairOK (escapedUnit [0x5C, 0x75, a, b, c, d]) (escapedUnit [0x5C, 0x75, a', b', c', d']) = true) :
    Passes [0x5C, 0x75, a, b, c, d, 0x5C, 0x75, a', b', c', d'] :=
  pair_passes a b c d a' b' c' d' h

/-- canonical output is accepted by checkEncoding: valid UTF-8, and the only `\u` escapes in it
    are `\u00XX` -/
theorem canonical_text_passes_check (v : J) (hw : v.wf = true) (b : Bytes) (hb : canon v = some b) :
    checkEncoding b = true := by
  rw [canon_bytes v hw] at hb
  split at hb
  · rename_i hc
    simp only [Option.some.injEq] at hb; subst hb
    exact checkEncoding_text (norm v) (wf_norm v hw) hc
  · cases hb

/-- the canonical form canonicalises to itself, as a text: given back to CanonicalJSON (the
    decoder reads the tokens of the content from it) it passes checkEncoding and comes out unchanged -/
theorem canon_text_idem (v : J) (hw : v.wf = true) (cs : Chars) (hc : canonChars v = some cs) :
    canonText (utf8s cs) (rtoks (norm v)) true = .ok cs := by
  have hb : canon v = some (utf8s cs) := by unfold canon; rw [hc]; rfl
  have hgood := canonical_text_passes_check v hw _ hb
  unfold canonText; rw [hgood]; simp only [if_true]
  have : canonChars (norm v) = some cs := by rw [canonChars_norm]; exact hc
  unfold canonRaw canonTokens
  rw [cook_rtoks, unmarshal_gtoks]
  unfold canonChars at this
  simp [this]

-- "\ud800" (a lone high surrogate), "\udc00" (a lone low one), "\ud800\u0041", "\ud800x": rejected
example : checkEncoding [0x22, 0x5C, 0x75, 0x64, 0x38, 0x30, 0x30, 0x22] = false := by decide
example : checkEncoding [0x22, 0x5C, 0x75, 0x44, 0x43, 0x30, 0x30, 0x22] = false := by decide
example : checkEncoding [0x22, 0x5C, 0x75, 0x64, 0x38, 0x30, 0x30, 0x5C, 0x75, 0x30, 0x30, 0x34, 0x31, 0x22] = false := by
  decide
example : checkEncoding [0x22, 0x5C, 0x75, 0x64, 0x38, 0x30, 0x30, 0x78, 0x22] = false := by decide
-- "\ud83d\ude00" (a pair), "\\ud800" (an escaped backslash, then plain text), "\ufffd": accepted
example : checkEncoding [0x22, 0x5C, 0x75, 0x64, 0x38, 0x33, 0x64, 0x5C, 0x75, 0x64, 0x65, 0x30, 0x30, 0x22] = true := by
  decide
example : checkEncoding [0x22, 0x5C, 0x5C, 0x75, 0x64, 0x38, 0x30, 0x30, 0x22] = true := by decide
example : checkEncoding [0x22, 0x5C, 0x75, 0x66, 0x66, 0x66, 0x64, 0x22] = true := by decide
-- … but an escaped backslash followed by a lone surrogate escape is rejected
example : checkEncoding [0x22, 0x5C, 0x5C, 0x5C, 0x75, 0x64, 0x38, 0x30, 0x30, 0x22] = false := by decide
-- bytes: EF BF BD (U+FFFD itself) accepted; FF, C0 AF (overlong), ED A0 80 (a surrogate), a truncated sequence: rejected
example : checkEncoding [0x22, 0xEF, 0xBF, 0xBD, 0x22] = true ∧ checkEncoding [0x22, 0xFF, 0x22] = false ∧
    checkEncoding [0x22, 0xC0, 0xAF, 0x22] = false ∧ checkEncoding [0x22, 0xED, 0xA0, 0x80, 0x22] = false ∧
    checkEncoding [0x22, 0xEF, 0xBF] = false := by decide
-- and with rejected encoding nothing is produced, whatever the tokens
example : (match canonText [0x22, 0xFF, 0x22] [.lit (.str [0xFFFD])] true with | .err => true | _ => false) = true ∧
    (match canonText [0x22, 0xEF, 0xBF, 0xBD, 0x22] [.lit (.str [0xFFFD])] true with
      | .ok cs => cs == [0x22, 0xFFFD, 0x22] | _ => false) = true := by decide

/-- a number beyond float64 anywhere in the input (top level, array element, member value,
    after the top-level value) makes CanonicalJSON fail: it is not read as null or as anything else -/
theorem unrepresentable_number_rejected (ts : List RTok) (eof : Bool)
    (hv : decValid (ts.map cook) = true) (ho : RTok.lit .over ∈ ts) : canonRaw ts eof = .err := by
  have hb : GTok.bad ∈ ts.map cook := by
    have := List.mem_map_of_mem (f := cook) ho
    simpa [cook, tokenToValue] using this
  unfold canonRaw canonTokens
  rw [unmarshal_bad _ eof hv hb]

-- [1e999], {"a":1e999}, 1e999 and `1 1e999` are streams the decoder emits, and they are rejected
example : decValid ([RTok.lbrack, .lit .over, .rbrack].map cook) = true ∧
    (match canonRaw [.lbrack, .lit .over, .rbrack] true with | .err => true | _ => false) = true := by decide
example : decValid ([RTok.lbrace, .lit (.str [0x61]), .lit .over, .rbrace].map cook) = true ∧
    (match canonRaw [.lbrace, .lit (.str [0x61]), .lit .over, .rbrace] true with | .err => true | _ => false) = true := by
  decide
example : (match canonRaw [.lit .over] true with | .err => true | _ => false) = true ∧
    (match canonRaw [.lit (.int 1), .lit .over] true with | .err => true | _ => false) = true := by decide
-- while [null] is read as [null]
example : (match canonRaw [.lbrack, .lit .null, .rbrack] true with
    | .ok cs => cs == [0x5B, 0x6E, 0x75, 0x6C, 0x6C, 0x5D] | _ => false) = true := by decide

example : decValid [.lbrack, .val (.int 1)] = true ∧
    (match unmarshal [.lbrack, .val (.int 1)] true with | .err => true | _ => false) = true := by decide
example : decValid [.val (.int 1), .val (.int 2)] = true ∧
    (match unmarshal [.val (.int 1), .val (.int 2)] true with | .err => true | _ => false) = true := by decide
example : (match unmarshal [] true with | .err => true | _ => false) = true := by decide
example : decValid [.lbrace, .val (.str [0x61]), .rbrace] = false := by decide

/-! ## expectations over facts regenerated from /repo/c14n on every run -/
namespace Expect
open GoblVerif.Generated.C14n

theorem safeSet_covers_ascii : safeSet.length = 128 ∧ Generated.C14n.runeSelf = 128 := by decide +kernel
/-- safeSet: everything except controls, `"` and `\` -/
theorem safeSet_is_json_safe : ∀ c, c < 128 → C14n.safe c = (decide (0x20 ≤ c) && c != 0x22 && c != 0x5C) := by
  decide +kernel
theorem hex_is_upper : hex = [48, 49, 50, 51, 52, 53, 54, 55, 56, 57, 65, 66, 67, 68, 69, 70] := by decide
theorem short_escapes : shortEscapes = [(92, 92), (34, 34), (10, 110), (13, 114), (9, 116), (12, 102), (8, 98)] := by
  decide
theorem default_escape_is_u00XX : defaultEscapeWrites = ["`u00`", "hex[b>>4]", "hex[b&0xF]"] := by decide
/-- the tables and the switch together give README rule 8 on every ASCII character -/
theorem ascii_escapes_are_readme :
    ∀ c, c < 128 → (if C14n.safe c then [c] else 0x5C :: escapeAscii c) = escChar c :=
  ascii_escape_table
/-- encodeString refuses a rune only when it is RuneError *and* was decoded from a single byte
    (undecodable input); U+FFFD itself (size 3) is copied -/
theorem rejects_undecodable_bytes_only :
    encodeString_utf8 = ["RuneSelf", "DecodeRuneInString", "RuneError"] ∧
    encodeString_reject_conds = ["c==utf8.RuneError&&size==1"] := by decide
/-- UnmarshalJSON reads the input, checks its encoding and only then creates the decoder -/
theorem encoding_checked_before_decoding :
    calls_UnmarshalJSON = ["ReadAll", "checkEncoding", "NewDecoder", "NewReader", "UseNumber", "handleNextToken",
      "New", "Token", "New"] := by decide
/-- checkEncoding: utf8.Valid on the whole text, then the scan for backslashes with the two
    index moves (`i++`, `i+=6`), escapedUnit at the backslash and six bytes further on -/
theorem checkEncoding_shape :
    calls_checkEncoding = ["Valid", "New", "len", "escapedUnit", "IsSurrogate", "DecodeRune", "escapedUnit", "New"] ∧
    conds_checkEncoding = ["!utf8.Valid(data)", "data[i]!='\\\\'", "!utf16.IsSurrogate(r)",
      "utf16.DecodeRune(r,escapedUnit(data[i+5:]))==unicode.ReplacementChar"] ∧
    steps_checkEncoding = ["i++", "i++", "i+=6"] ∧
    slices_checkEncoding = ["data[i:]", "data[i+5:]"] := by decide
/-- escapedUnit: six bytes, `\\` `u`, four hexadecimal digits of either case, most significant first -/
theorem escapedUnit_shape :
    conds_escapedUnit = ["len(data)<6||data[0]!='\\\\'||data[1]!='u'", "'0'<=c&&c<='9'", "'a'<=c&&c<='f'", "'A'<=c&&c<='F'"] ∧
    steps_escapedUnit = ["c-='0'", "c-='a'-10", "c-='A'-10", "r=r<<4|rune(c)"] ∧
    slices_escapedUnit = ["data[2:6]"] := by decide
theorem integer_uses_FormatInt_base10 : strconv_Integer_MarshalJSON = ["strconv.FormatInt(int64(i),10)"] := by decide
theorem float_uses_AppendFloat_E_shortest :
    strconv_Float_MarshalJSON = ["strconv.AppendFloat(num,float64(f),'E',-1,64)"] := by decide
theorem sort_is_stable : sort_Object_Sort = ["SliceStable"] := by decide
theorem literals : lits_Null_MarshalJSON = ["`null`"] ∧ lits_Bool_MarshalJSON = ["`true`", "`false`"] := by decide
theorem eof_is_an_error : io_handleNextToken = ["EOF", "ErrUnexpectedEOF"] := by decide
theorem top_level_checks : errors_UnmarshalJSON =
    ["\"unexpected end of JSON input\"", "\"unexpected data after top-level value\""] ∧
    io_UnmarshalJSON = ["ReadAll", "EOF"] := by
  decide
theorem reader_shape :
    calls_handleNextToken = ["Token", "handleObject", "handleArray", "tokenToValue"] ∧
    calls_handleObject = ["new", "make", "handleAttribute", "Sort", "append"] ∧
    calls_handleArray = ["new", "make", "handleNextToken", "append"] ∧
    calls_handleAttribute = ["handleNextToken", "New", "new", "string", "handleNextToken"] ∧
    calls_tokenToValue = ["String", "Int64", "Integer", "Float64", "Float", "Errorf", "Bool", "Errorf"] := by decide
/-- tokenToValue dispatches on the token's type: a number that is neither Int64 nor Float64 and a
    token of an unknown type end in an error; `Null{}` is returned for the `nil` token only and
    nothing is returned outside the switch (no fall-through value) -/
theorem token_dispatch :
    tokenToValue_dispatch =
      [("string", ["String"]), ("json.Number", ["Integer", "Float", "error"]), ("bool", ["Bool"]),
       ("nil", ["Null"]), ("default", ["error"]), ("(outside)", [])] := by decide

end Expect

/-! ## Src: the regenerated translation of the writers of /repo/c14n (Generated/C14nSrc.lean)

  Generated/C14nSrc.lean is the translation, by go2lean in its byte mode, of
  encodeString (+ safeSet, hex), String/Integer/Float/Bool/Null.MarshalJSON,
  Attribute/Array/Object.MarshalJSON, Object.Sort, checkEncoding and escapedUnit
  as they stand in the repository NOW.  The theorems below relate those
  definitions to the model the 56 theorems above are about.

  PROVED for all arguments: Null, Bool, Integer, String (= encodeString),
  encodeString on the UTF-8 of every string of Unicode scalar values
  (`src_encodeString`: the byte loop = the code-point model, hence the README
  escapes), Float.MarshalJSON (= floatHacks on every text that contains an `E`,
  hence = marshalFloat on every strconv text), Attribute, Array and Object
  .MarshalJSON (the loops, the `first` flag, the null-member filter, the error
  propagation) = attrJoin / marshalL / marshalK, tied through the interface
  Canonicalable by `marshal_tie` for every value json.Decoder can yield;
  Object.Sort = sortL (the comparator is the bytewise order of the keys, which
  on UTF-8 is the code-point order `ltS`); escapedUnit = the model
  (`src_escapedUnit`);
  the two condition-controlled loops
  never run out of fuel.
  checkEncoding = the model for all texts (`src_checkEncoding`: nil error iff
  utf8Valid and surrogatesPaired).
  NOT proved for all arguments (examples only: `src_encodeString_rejects`): the
  ERROR branch of encodeString,
    ∀ s with a non-scalar element, (Src.encodeString (utf8s s)).2.isSome
  (json.Decoder never yields such a string; the model rejects it).
-/
namespace Src
open GoblVerif.Generated GoblVerif.GoBytes GoblVerif.C14nSrc GoblVerif.GoSem

theorem src_null (n : C14nSrc.Null) : obs (C14nSrc.Null_MarshalJSON n) = (marshalAtom .null).map utf8s := by
  cases n; decide

theorem src_bool (b : Bool) : obs (C14nSrc.Bool_MarshalJSON b) = (marshalAtom (.bool b)).map utf8s := by
  cases b <;> decide

theorem src_integer (i : Int) : obs (C14nSrc.Integer_MarshalJSON i) = (marshalAtom (.int i)).map utf8s := by
  simp only [C14nSrc.Integer_MarshalJSON, marshalAtom, Option.map_some, utf8s_ascii _ (formatInt_ascii i)]
  rfl

theorem src_string (s : Bytes) : C14nSrc.String_MarshalJSON s = C14nSrc.encodeString s := rfl

/-! ### encodeString -/

/-- HEADLINE rule 8 over the regenerated definition, all strings: encodeString as it is in the
    repository now, run on the UTF-8 bytes of a string of Unicode scalar values (what
    `json.Decoder` yields), returns no error and the UTF-8 of the model's text — the byte loop
    with its `start` / lazy copy, the safeSet test, the `switch`, hex[b>>4] hex[b&0xF], and
    utf8.DecodeRuneInString skipping the non-ASCII characters.  With `escapes_minimal` the text
    is `"` ++ README escapes ++ `"`.  (A string with a non-scalar element is rejected by the
    model; for the regenerated code that branch is covered by `src_encodeString_rejects`.) -/
theorem src_encodeString (s : GoblVerif.Str) (hs : s.all isScalar = true) :
    obs (C14nSrc.encodeString (utf8s s)) = (C14n.encodeString s).map utf8s := by
  unfold C14nSrc.encodeString
  simp only [Id.run]
  rw [forIn_range_fuel _ (fun _ _ => rfl)]
  generalize hB : utf8s s = B
  generalize hr : forFuel _ B.length _ = r
  have hr' : r = forFuel (encStep B) B.length (none, [] ++ [34], 0, 0) := by
    rw [← hr]; clear hr
    refine forFuel_congr _ _ (fun st => ?_) _ _
    simp only [encStep, escBytes, Id.run, GoSem.id_pure, show Int.toNat 4 = 4 from rfl]
    by_cases h1 : st.2.2.2 < (B.length : Int)
    · simp only [h1, not_true_eq_false, if_false]
      by_cases h2 : byteAt B st.2.2.2.toNat < 128
      · simp only [h2, if_true]
        by_cases h3 : C14nSrc.safeSet[byteAt B st.2.2.2.toNat]! = true
        · simp only [h3, if_true]
        simp only [h3, if_false, Bool.false_eq_true]
        generalize byteAt B st.2.2.2.toNat = b
        by_cases h4 : st.2.2.1 < st.2.2.2
        · simp only [h4, if_true]
          repeat' split
          all_goals simp
        · simp only [h4, if_false]
          repeat' split
          all_goals simp
      · simp only [h2, if_false]
    · simp only [h1, not_false_eq_true, if_true]
  clear hr
  obtain ⟨out, buf', start', h1, h2, h3⟩ := enc_loop B s [] ([] ++ [34]) 0 B.length (by rw [← hB]; simp [utf8s])
    (Nat.zero_le _) (by rw [← hB]; exact utf8s_length_ge s) hs
  have h2' : r = (none, buf', (start' : Int), (B.length : Int)) := by
    rw [hr', ← h2]; simp [utf8s]
  subst h2'
  have hcast : ((start' : Int) < (B.length : Int)) ↔ start' < B.length := by omega
  simp only [pure_bind, Int.toNat_natCast, hcast]
  have hfin : (if start' < B.length then buf' ++ List.drop start' B else buf') = buf' ++ List.drop start' B := by
    split
    · rfl
    · rw [List.drop_eq_nil_iff.mpr (by omega)]; simp
  have hout : C14n.encodeString s = some (0x22 :: (out ++ [0x22])) := by
    simp [C14n.encodeString, h1]
  rw [hout]
  by_cases hlt : start' < B.length
  · simp only [hlt, if_true, obs, GoSem.id_pure]
    rw [h3]
    simp [utf8s_cons, utf8s_append, utf8_ascii, utf8s, slice, hlt]
  · have hd : List.drop start' B = [] := List.drop_eq_nil_iff.mpr (by omega)
    rw [hd] at h3
    simp only [hlt, if_false, obs, GoSem.id_pure]
    simp only [List.append_nil] at h3
    rw [h3]
    simp [utf8s_cons, utf8s_append, utf8_ascii, utf8s, slice, hlt]

/-- the error branch of encodeString: bytes that are not the encoding of a scalar value (an
    encoded surrogate, a stray continuation byte, 0xFF, a truncated sequence) are refused, also
    after text that needed escaping -/
theorem src_encodeString_rejects :
    (C14nSrc.encodeString [0xED, 0xA0, 0x80]).2.isSome = true ∧
    (C14nSrc.encodeString [97, 0x80]).2.isSome = true ∧
    (C14nSrc.encodeString [10, 0xFF, 97]).2.isSome = true ∧
    (C14nSrc.encodeString [0xE2, 0x82]).2.isSome = true ∧
    (C14nSrc.encodeString [0xF4, 0x90, 0x80, 0x80]).2.isSome = true := by
  decide +kernel

/-- the string of U+FFFD itself is accepted and copied (size 3, not the error value) -/
example : C14nSrc.encodeString [0xEF, 0xBF, 0xBD] = ([0x22, 0xEF, 0xBF, 0xBD, 0x22], none) := by decide +kernel

theorem scalar_of_not_any (s : GoblVerif.Str) (h : s.any (fun c => !isScalar c) = false) : s.all isScalar = true := by
  induction s with
  | nil => rfl
  | cons c cs ih =>
    simp only [List.any_cons, Bool.or_eq_false_iff, Bool.not_eq_false'] at h
    simp [h.1, ih h.2]

theorem src_attribute (k : Str) (v : J)
    (hk : obs (C14nSrc.encodeString (utf8s k)) = (C14n.encodeString k).map utf8s)
    (hv : obs (srcJ v) = (marshalJ v).map utf8s) :
    obs (C14nSrc.Attribute_MarshalJSON ⟨utf8s k, ⟨v.isNull, srcJ v⟩⟩) =
      (attrJoin v.isNull (C14n.encodeString k) (marshalJ v)).map utf8s := by
  unfold C14nSrc.Attribute_MarshalJSON attrJoin
  simp only [Id.run]
  cases hn : v.isNull with
  | true => simp [obs, utf8s, GoSem.id_pure]
  | false =>
    simp only [Bool.false_eq_true, if_false]
    cases hke : C14n.encodeString k with
    | none =>
      rw [hke] at hk
      have := obs_eq_none hk
      simp [this, obs, GoSem.id_pure]
    | some kc =>
      rw [hke] at hk
      obtain ⟨h1, h2⟩ := obs_eq_some hk
      cases hve : marshalJ v with
      | none =>
        rw [hve] at hv
        have := obs_eq_none hv
        simp [h1, this, obs, GoSem.id_pure]
      | some vc =>
        rw [hve] at hv
        obtain ⟨h3, h4⟩ := obs_eq_some hv
        simp [h1, h3, obs, GoSem.id_pure, h2, h4, utf8s_append, utf8s_cons, utf8_ascii]

/-! ### Float.MarshalJSON -/

theorem src_float_text (t : Bytes) (hE : 69 ∈ t) : C14nSrc.Float_MarshalJSON t = (floatHacks t, none) := by
  have hne : t ≠ [] := by intro h; subst h; simp at hE
  unfold C14nSrc.Float_MarshalJSON floatHacks
  simp only [Id.run, appendFloat_nil, show Int.toNat (0:Int) = 0 from rfl, show Int.toNat (2:Int) = 2 from rfl,
    show Int.toNat (1 : Int) = 1 from rfl]
  split <;> split
  · rename_i h0 h2
    rw [← ins_a t h0 h2]
    have hEn := mem_insert_point t 2 hE
    generalize List.take 2 t ++ ([46, 48] ++ List.drop 2 t) = num at hEn ⊢
    float_rest num hEn
  · rename_i h0 h2
    rw [← ins_b t h0 h2]
    float_rest t hE
  · rename_i h0 h1
    rw [← ins_c t hne h0 h1]
    have hEn := mem_insert_point t 1 hE
    generalize List.take 1 t ++ ([46, 48] ++ List.drop 1 t) = num at hEn ⊢
    float_rest num hEn
  · rename_i h0 h1
    rw [← ins_d t h0 h1]
    float_rest t hE

theorem strconvE_has_E (n : Bool) (ds : List Nat) (e : Int) : 69 ∈ strconvE n ds e := by
  unfold strconvE; simp

/-- Float.MarshalJSON as it is now = the model, for every float (given by strconv's text) -/
theorem src_float (n : Bool) (ds : List Nat) (e : Int) :
    C14nSrc.Float_MarshalJSON (strconvE n ds e) = (marshalFloat n ds e, none) :=
  src_float_text _ (strconvE_has_E n ds e)


/-- the same with the result read as UTF-8 (the text is ASCII) -/
theorem src_float_utf8 (n : Bool) (ds : List Nat) (e : Int) (hw : wfDigits ds = true) :
    C14nSrc.Float_MarshalJSON (strconvE n ds e) = (utf8s (marshalFloat n ds e), none) := by
  rw [src_float, marshalFloat_eq n ds e hw, utf8s_ascii _ (fltText_ascii n ds e hw)]

/-- headline, rule 7, over the regenerated definition: what Float.MarshalJSON (as it is in the
    repository now) makes of strconv's text is `[-]d.d+E[-]d+` -/
theorem src_float_form (neg : Bool) (ds : List Nat) (e : Int) (hw : wfFloat ds e = true) :
    C14nSrc.Float_MarshalJSON (strconvE neg ds e) = (fltText neg ds e, none) ∧
    isFloatForm (fltText neg ds e) = true := by
  have hd : wfDigits ds = true := by simp only [wfFloat, Bool.and_eq_true] at hw; exact hw.1
  exact ⟨by rw [src_float, marshalFloat_eq neg ds e hd], isFloatForm_fltText neg ds e hw⟩

example : wfFloat [1, 5] 0 = true := by decide

/-! ### the recursion through the interface Canonicalable -/

mutual
/-- what `json.Decoder` guarantees about the strings of a value: Unicode scalar values only -/
theorem tieJ : ∀ v : J, v.wf = true → strsHave (fun c => !isScalar c) v = false →
    obs (srcJ v) = (marshalJ v).map utf8s
  | .atom .null, _, _ => src_null {}
  | .atom (.bool b), _, _ => src_bool b
  | .atom (.int i), _, _ => src_integer i
  | .atom (.flt n ds e), hw, _ => by
    rw [srcJ, src_float_utf8 n ds e (by simpa [J.wf, Atom.wf] using hw)]; rfl
  | .atom (.str s), _, hs => by
    rw [srcJ]; exact src_encodeString s (scalar_of_not_any s (by simpa [strsHave] using hs))
  | .arr xs, hw, hs => by
    have hw' : JL.wf xs = true := by simpa [J.wf] using hw
    have hs' : strsHaveL (fun c => !isScalar c) xs = false := by simpa [strsHave] using hs
    unfold srcJ C14nSrc.Array_MarshalJSON
    simp only [marshalJ]
    refine arr_wrap _ _ _ ?_ _ (fun s => by rcases s with ⟨_ | _, _⟩ <;> rfl)
    exact tieL xs hw' hs' 0 ([] ++ [91]) _ (fun _ _ => rfl)
  | .obj kvs, hw, hs => by
    have hw' : KL.wf kvs = true := by simpa [J.wf] using hw
    have hs' : strsHaveK (fun c => !isScalar c) kvs = false := by simpa [strsHave] using hs
    unfold srcJ C14nSrc.Object_MarshalJSON
    simp only [marshalJ]
    refine obj_wrap _ _ _ ?_ _ (fun s => by rcases s with ⟨_ | _, _⟩ <;> rfl)
    exact tieK kvs hw' hs' true ([] ++ [123]) _ (fun _ _ => rfl)
theorem tieL : ∀ xs : JL, JL.wf xs = true → strsHaveL (fun c => !isScalar c) xs = false →
    ∀ (n : Nat) (buf : Bytes) (f : Canon × Nat → ArrSt → Id (ForInStep ArrSt)),
    (∀ it s, f it s = pure (arrStep it s)) →
    ArrPost (forIn (m := Id) ((srcL xs).zipIdx n) (none, buf) f).run buf (marshalL (n == 0) xs)
  | .nil, _, _, n, buf, f, _ => arr_nil f n buf
  | .cons x xs, hw, hs, n, buf, f, hf => by
    have hw' : J.wf x = true ∧ JL.wf xs = true := by simpa [JL.wf] using hw
    have hs' : strsHave (fun c => !isScalar c) x = false ∧ strsHaveL (fun c => !isScalar c) xs = false := by
      simpa [strsHaveL] using hs
    unfold srcL marshalL
    exact arr_cons f hf _ _ n buf _ _ (tieJ x hw'.1 hs'.1) (fun b => by
      have := tieL xs hw'.2 hs'.2 (n + 1) b f hf
      simpa using this)
theorem tieK : ∀ kvs : KL, KL.wf kvs = true → strsHaveK (fun c => !isScalar c) kvs = false →
    ∀ (first : Bool) (buf : Bytes) (f : C14nSrc.Attribute → ObjSt → Id (ForInStep ObjSt)),
    (∀ it s, f it s = pure (objStep (C14nSrc.Attribute_MarshalJSON it) s)) →
    ObjPost (forIn (m := Id) (srcK kvs) (none, buf, first) f).run buf (marshalK first kvs)
  | .nil, _, _, first, buf, f, _ => obj_nil f first buf
  | .cons k v r, hw, hs, first, buf, f, hf => by
    have hw' : J.wf v = true ∧ KL.wf r = true := by simpa [KL.wf] using hw
    have hs' : (k.any (fun c => !isScalar c) = false ∧ strsHave (fun c => !isScalar c) v = false) ∧
        strsHaveK (fun c => !isScalar c) r = false := by
      simpa [strsHaveK] using hs
    unfold srcK marshalK
    have hh := src_attribute k v (src_encodeString k (scalar_of_not_any k hs'.1.1)) (tieJ v hw'.1 hs'.1.2)
    generalize attrJoin v.isNull (C14n.encodeString k) (marshalJ v) = m at hh ⊢
    have := obj_cons C14nSrc.Attribute_MarshalJSON f hf _ (srcK r) first buf m (fun fl => marshalK fl r)
      hh (fun fl b => tieK r hw'.2 hs'.2 fl b f hf)
    cases m <;> exact this
end

/-- Go's MarshalJSON on the value that stands for `v`, computed by the TRANSLATED methods at
    every node (a Canonicalable being what its MarshalJSON returned), returns no error and the
    UTF-8 of the model's text, for every value `json.Decoder` can hand over (well-formed float
    digits, strings of scalar values): strings, numbers, the commas of Array.MarshalJSON, the
    `first` flag and the NULL-MEMBER FILTER of Object.MarshalJSON, key `:` value -/
theorem marshal_tie (v : J) (hw : v.wf = true) (hs : strsHave (fun c => !isScalar c) v = false) :
    obs (srcJ v) = (marshalJ v).map utf8s :=
  tieJ v hw hs

example : J.wf (.obj (.cons [97] (.atom .null) (.cons [0xE9] (.arr (.cons (.atom (.flt true [1, 5] 0)) .nil)) .nil))) = true ∧
    strsHave (fun c => !isScalar c) (.obj (.cons [97] (.atom .null) (.cons [0xE9] (.arr (.cons (.atom (.flt true [1, 5] 0)) .nil)) .nil))) = false := by
  decide

/-! ### escapedUnit -/

/-- escapedUnit as it is now = the model (`none` is Go's -1), for all arguments -/
theorem src_escapedUnit (data : Bytes) :
    C14nSrc.escapedUnit data = match C14n.escapedUnit data with
      | some u => ((u : Nat) : Int)
      | none => -1 := by
  unfold C14nSrc.escapedUnit
  simp only [Id.run, show Int.toNat 0 = 0 from rfl, show Int.toNat 1 = 1 from rfl]
  match data with
  | [] => simp [C14n.escapedUnit, GoSem.id_pure]
  | [_] => simp [C14n.escapedUnit, GoSem.id_pure]
  | [_, _] => simp [C14n.escapedUnit, GoSem.id_pure]
  | [_, _, _] => simp [C14n.escapedUnit, GoSem.id_pure]
  | [_, _, _, _] => simp [C14n.escapedUnit, GoSem.id_pure]
  | [_, _, _, _, _] => simp [C14n.escapedUnit, GoSem.id_pure]
  | a0 :: a1 :: a :: b :: c :: d :: rest =>
    have hsl : slice (a0 :: a1 :: a :: b :: c :: d :: rest) 2 6 = [a, b, c, d] := by simp [slice]
    rw [hsl]
    by_cases h0 : a0 = 92
    · by_cases h1 : a1 = 117
      · subst h0; subst h1
        have hlen : ¬ (((92 :: 117 :: a :: b :: c :: d :: rest).length : Int) < 6) := by simp; omega
        simp only [hlen, List.getElem!_cons_zero, List.getElem!_cons_succ, ne_eq, not_true_eq_false, or_self, if_false]
        refine (hex_wrap _ (by intros; rfl) _ _ (by intro s; rcases s with ⟨_ | _, _⟩ <;> rfl)).trans ?_
        simp only [hexFold, C14n.escapedUnit]
        cases hexDigit a <;> cases hexDigit b <;> cases hexDigit c <;> cases hexDigit d <;> simp
      · have hg : (((92 :: a1 :: a :: b :: c :: d :: rest).length : Int) < 6 ∨ (92 :: a1 :: a :: b :: c :: d :: rest)[0]! ≠ 92) ∨
            (92 :: a1 :: a :: b :: c :: d :: rest)[1]! ≠ 117 := by
          right; simpa using h1
        subst h0
        simp only [hg, if_true, GoSem.id_pure]
        rw [escapedUnit_guard _ _ _ _ _ _ _ (Or.inr h1)]
    · have hg : (((a0 :: a1 :: a :: b :: c :: d :: rest).length : Int) < 6 ∨ (a0 :: a1 :: a :: b :: c :: d :: rest)[0]! ≠ 92) ∨
          (a0 :: a1 :: a :: b :: c :: d :: rest)[1]! ≠ 117 := by
        left; right; simpa using h0
      simp only [hg, if_true, GoSem.id_pure]
      rw [escapedUnit_guard _ _ _ _ _ _ _ (Or.inl h0)]

/-! ### checkEncoding -/

/-- checkEncoding as it is now = the model, for all texts: nil error exactly when the bytes are
    valid UTF-8 and every `\uXXXX` escape of a surrogate is the high half of a pair -/
theorem src_checkEncoding (data : Bytes) : (C14nSrc.checkEncoding data).isNone = C14n.checkEncoding data := by
  unfold C14nSrc.checkEncoding C14n.checkEncoding
  simp only [Id.run]
  split
  · rename_i hv
    have : utf8Valid data = false := by simpa using hv
    simp [this, GoStr.errNew, GoSem.id_pure]
  rename_i hv
  have hv' : utf8Valid data = true := by simpa using hv
  rw [forIn_range_fuel _ (fun _ _ => rfl)]
  generalize hr : forFuel _ data.length _ = r
  have hr' : r = forFuel (chkStep C14nSrc.escapedUnit data) data.length (none, 0) := by
    rw [← hr]; clear hr
    refine forFuel_congr _ _ (fun st => ?_) _ _
    simp only [chkStep, Id.run, GoSem.id_pure]
  clear hr
  have heu : ∀ b, C14nSrc.escapedUnit b = unitInt (C14n.escapedUnit b) := by
    intro b; rw [src_escapedUnit]; cases C14n.escapedUnit b <;> rfl
  have hl := chk_loop C14nSrc.escapedUnit heu data data [] 0 data.length (by simp) (by simp)
  have h1 : r.1 = chkRes (surrogatesPaired 0 data) := by
    rw [hr', ← hl]; simp
  rcases r with ⟨r1, r2⟩
  simp only at h1
  subst h1
  simp only [hv', Bool.true_and, pure_bind]
  cases surrogatesPaired 0 data <;> simp [chkRes, GoStr.errNew, GoSem.id_pure]

/-! ### Object.Sort -/

/-- the comparator handed to sort.SliceStable is the bytewise order of the keys -/
theorem src_sort (kvs : List (Str × J)) (src : J → Bytes × Err) :
    (C14nSrc.Object_Sort ⟨kvs.map (attrOf src)⟩).2 = ⟨(sortL kvs).map (attrOf src)⟩ := by
  unfold C14nSrc.Object_Sort
  simp only [Id.run, GoSem.id_pure]
  congr 1
  exact stableSort_attr src _ (fun a b => by simp) kvs

/-! ### headline statements, directly over the regenerated definitions -/

/-- README rule 8, one ASCII byte at a time: what `encodeString` (as it is in the repository now)
    writes for the one-byte string `[b]` is the quoted README escape of `b` -/
theorem src_escape_table_is_readme :
    ∀ b : Fin 128, C14nSrc.encodeString [b.val] = (0x22 :: (escChar b.val ++ [0x22]), none) := by
  decide +kernel

theorem src_float_examples :
    (C14nSrc.Float_MarshalJSON (strconvE true [1, 5] 0)).1 = [45, 49, 46, 53, 69, 48] ∧        -- -1.5E0
    (C14nSrc.Float_MarshalJSON (strconvE false [1] 21)).1 = [49, 46, 48, 69, 50, 49] ∧          -- 1.0E21
    (C14nSrc.Float_MarshalJSON (strconvE false [1] 100)).1 = [49, 46, 48, 69, 49, 48, 48] ∧     -- 1.0E100
    (C14nSrc.Float_MarshalJSON (strconvE true [1, 2, 3] (-7))).1 = [45, 49, 46, 50, 51, 69, 45, 55] := by  -- -1.23E-7
  decide +kernel

/-! ### pins -/

theorem nothing_untranslated : C14nSrc.untranslated = [] := by decide
theorem translated_all : C14nSrc.translated =
    ["escapedUnit", "checkEncoding", "var safeSet", "var hex", "encodeString", "String.MarshalJSON",
     "Integer.MarshalJSON", "Bool.MarshalJSON", "Null.MarshalJSON", "Float.MarshalJSON", "Attribute.MarshalJSON",
     "Array.MarshalJSON", "Object.MarshalJSON", "Object.Sort"] := by decide

/-- checkEncoding and escapedUnit as they are now, on the cases of the README / the fix commit:
    a surrogate pair passes, an escaped backslash before `ud800` is not an escape, two high
    surrogates are rejected, a lone low surrogate is rejected, invalid UTF-8 is rejected -/
theorem src_check_examples :
    (C14nSrc.checkEncoding [34, 92, 117, 100, 56, 48, 48, 92, 117, 100, 99, 48, 48, 34]).isNone = true ∧
    (C14nSrc.checkEncoding [34, 92, 92, 117, 100, 56, 48, 48, 34]).isNone = true ∧
    (C14nSrc.checkEncoding [34, 92, 117, 100, 56, 48, 48, 92, 117, 100, 56, 48, 48, 34]).isNone = false ∧
    (C14nSrc.checkEncoding [34, 92, 117, 68, 67, 48, 48, 34]).isNone = false ∧
    (C14nSrc.checkEncoding [34, 0xC3, 34]).isNone = false ∧
    C14nSrc.escapedUnit [92, 117, 100, 56, 65, 102, 34] = 0xD8AF ∧
    C14nSrc.escapedUnit [92, 117, 100, 56, 65] = -1 ∧
    C14nSrc.escapedUnit [92, 117, 100, 56, 65, 103] = -1 := by
  decide +kernel

/-- the regenerated checkEncoding agrees with the model on every text of at most three bytes
    taken from an alphabet that reaches every branch (backslash, `u`, a hex digit, a lead byte,
    a continuation byte) -/
theorem src_checkEncoding_small :
    ∀ a ∈ [92, 117, 100, 0xC3, 0xA9], ∀ b ∈ [92, 117, 100, 0xC3, 0xA9], ∀ c ∈ [92, 117, 100, 0xC3, 0xA9],
      (C14nSrc.checkEncoding [a, b, c]).isNone = C14n.checkEncoding [a, b, c] := by
  decide +kernel

/-! ### the loops never run out of fuel (one theorem per entry of `fuelChecks`) -/

theorem encodeString_fuel_suffices (s : Bytes) : C14nSrc.encodeString_fuelOK s = true := by
  unfold C14nSrc.encodeString_fuelOK
  simp only [Id.run]
  rw [forIn_range_fuel _ (fun _ _ => rfl)]
  simp only [pure_bind]
  generalize hr : forFuel _ s.length _ = r
  have key : r.1 = some true ∨ ((r.1 = none ∧ 0 ≤ r.2.2.2) ∧ ¬ r.2.2.2 < (s.length : Int)) := by
    rw [← hr]
    clear hr r
    refine forFuel_progress' _ (fun b : Option Bool × Bytes × Int × Int => b.2.2.2) (s.length : Int)
      (fun b => b.1 = some true) (fun b => b.1 = none ∧ 0 ≤ b.2.2.2) ?_ s.length _ ⟨rfl, by simp⟩ (by simp)
    intro b hq
    obtain ⟨hq1, hq2⟩ := hq
    have hw := decodeRune_width_at s b.2.2.2 hq2
    simp only [Id.run, GoSem.id_pure, stepProp_ite_id, stepProp_done, stepProp_yield]
    repeat' split
    all_goals (first | (exact Or.inl rfl) | (exact Or.inl trivial) | (refine Or.inr ⟨⟨trivial, ?_⟩, ?_⟩ <;> omega) |
      (refine ⟨⟨trivial, ?_⟩, ?_⟩ <;> omega))
  clear hr
  rcases key with h | ⟨⟨h1, _⟩, h2⟩
  · rw [h]; rfl
  · rw [h1]; simp only [h2, if_false]; split <;> rfl

theorem checkEncoding_fuel_suffices (s : Bytes) : C14nSrc.checkEncoding_fuelOK s = true := by
  unfold C14nSrc.checkEncoding_fuelOK
  simp only [Id.run]
  split
  · rfl
  rw [forIn_range_fuel _ (fun _ _ => rfl)]
  simp only [pure_bind]
  generalize hr : forFuel _ s.length _ = r
  have key : r.1 = some true ∨ ((r.1 = none) ∧ ¬ r.2 < (s.length : Int)) := by
    rw [← hr]
    refine forFuel_progress _ (fun b : Option Bool × Int => b.2) (s.length : Int)
      (fun b => b.1 = some true) (fun b => b.1 = none) ?_ ?_ s.length _ rfl (by simp)
    · intro b b' hq h
      simp only [Id.run] at h
      (repeat' split at h) <;> (first | cases h | skip) <;> simp_all
    · intro b b' hq h
      simp only [Id.run] at h
      (repeat' split at h) <;> (first | cases h | skip) <;> simp_all <;> omega
  clear hr
  rcases key with h | ⟨h1, h2⟩
  · rw [h]; rfl
  · rw [h1]; simp only [h2, if_false]; rfl

/-! ### pins: what the translation rests on (they can only be changed together with the theorems above) -/

theorem fuel_checks : C14nSrc.fuelChecks = ["checkEncoding_fuelOK", "encodeString_fuelOK"] := by decide

/-- the three unsigned subtractions of escapedUnit are guarded by the range test of their `case` -/
theorem nat_subs : C14nSrc.natSubs =
    [("escapedUnit", "c -= '0'", ["'0' <= c && c <= '9'"]),
     ("escapedUnit", "c -= 'a' - 10", ["!('0' <= c && c <= '9')", "'a' <= c && c <= 'f'"]),
     ("escapedUnit", "c -= 'A' - 10", ["!('0' <= c && c <= '9')", "!('a' <= c && c <= 'f')", "'A' <= c && c <= 'F'"])] := by
  decide

theorem structs_pinned :
    C14nSrc.struct_Array = [("Values", "[]Canonicalable")] ∧
    C14nSrc.struct_Attribute = [("Key", "string"), ("Value", "Canonicalable")] ∧
    C14nSrc.struct_Null = [] ∧
    C14nSrc.struct_Object = [("Attributes", "[]*Attribute")] ∧
    C14nSrc.nonNilElems = ["[]*Attribute"] ∧
    C14nSrc.inOutParams = [("Object.Sort", "o")] := by decide

theorem named_types_pinned : C14nSrc.namedTypes =
    [("Canonicalable", "interface{MarshalJSON() ([]byte, error)}", "GoblVerif.GoBytes.Canon"),
     ("Float", "float64", "GoblVerif.GoBytes.Str"),
     ("bytes.Buffer", "struct{}", "GoblVerif.GoBytes.Str"),
     ("error", "interface{Error() string}", "GoblVerif.GoBytes.Err")] := by decide

theorem primitives_pinned : C14nSrc.primitives.map (·.1) =
    ["&json.UnsupportedValueError", "Canonicalable.(Null)", "Canonicalable.MarshalJSON", "bytes.IndexByte", "errors.New",
     "strconv.AppendFloat", "strconv.FormatInt", "utf16.DecodeRune", "utf16.IsSurrogate", "utf8.DecodeRuneInString",
     "utf8.Valid"] := by decide

end Src

end GoblVerif.Props.C07
