/-
  C15 — bulk replies pair up, whatever the interleaving.   **PARTIAL**

  What is proved here: the *dispatcher protocol* of /repo/internal/cli/bulk.go
  (Model/Bulk.lean: reader, per-request workers, wait group, buffered channel,
  final marker; input ends at EOF or at the first decode error), for every
  request list, every capacity, every `f` and EVERY schedule:

  * `no_loss_no_dup`   accounting invariant at every reachable state
  * `final_last`       a final marker is last, unique, and preceded by everything owed
  * `bulk_pairing`     terminated ⇒ responses = permutation of (req_idᵢ, i, f reqᵢ), i = 1..n,
                       followed by exactly one final marker with seq n+1
  * `no_deadlock`, `schedule_length`, `maximal_schedule_terminates`
                       every schedule can be extended, has exactly 4n+3 steps at most and a
                       stuck one is terminated: no hang, no lost wake-up in the protocol
  * `validTrace_iff_schedule`  the decidable acceptor used by the harness on
                       real `POST /bulk` streams accepts exactly the traces of the system
  * input layer (Model/BulkInput.lean: the stream as the reader meets it — complete requests,
    values that do not decode, and an end that is clean, inside a value, or a failing reader):
    `after_unreadable_ignored`, `unreadable_request_rule`, `truncated_input_rule`,
    `clean_end_rule`, `owed_independent_of_ending`: the complete requests before the first
    unreadable one are answered exactly as if the stream had ended cleanly after them; the
    unreadable request gets no reply of its own, its position n+1 is the seq of the single
    final marker, which carries the error flag and the partial request id
  * context layer (workers read through the caller's cancellable context):
    `uncancelled_results` (no cancellation by the caller ⇒ every reply is the request's
    uncancelled result, whatever the ending), `cancelled_pairing`, `cancelled_payloads`
    (with cancellations pairing is untouched and every reply is still the request's OWN
    result, computed with or without the cancellation seen)

  What is NOT proved (and cannot be, in Lean): that the Go program has no data
  race on the shared regime / addon / tag / extension / schema / currency
  tables, and that each goroutine's result equals the sequential one.  That is
  a property of the Go memory model, scheduler and of ~100 k lines that are not
  modelled; the harness searches for violations with the race detector, a
  frozen-registry hash (including the hidden len..cap region of every shared
  slice) and byte comparison with sequential runs.  Also outside the model:
  `processRequest` being a function of the request alone (`f`) — sampled by
  the payload comparison with the standalone operation.

  -- full statement of the property (not a theorem):
  --   ∀ Go executions of N goroutines over independent documents: no data race on shared
  --   definitions ∧ each result = the sequential result ∧ (bulk) bulk_pairing on the real stream
-/
import GoblVerif.Proofs.Bulk
import GoblVerif.Proofs.BulkInput
import GoblVerif.Generated.BulkFacts
import GoblVerif.Generated.BulkCtxFacts

namespace GoblVerif.Props.C15
open GoblVerif.Bulk List

variable {α β : Type}

/-- **Invariant (no loss, no duplication)** at every reachable state: the
    non-final responses sent so far, the responses still owed by running
    workers and those owed to unread requests are together a permutation of
    the owed responses — every request is accounted for exactly once. -/
theorem no_loss_no_dup (c : Cfg α β) (s : State α β) (h : Reachable c s) :
    (s.stream.filter (fun r => !r.isFinal) ++ s.running.map (respOf c) ++
      expectedFrom c (s.next + 1) s.pending).Perm (expected c) := by
  have inv := inv_reachable c s h
  by_cases hc : s.phase = .closed
  · obtain ⟨hrun, _, hpd, body, hst, hperm⟩ := inv.cls hc
    have hb : ∀ r ∈ body, r.isFinal = false := fun r hr => expected_nonfinal c r (hperm.subset hr)
    have hf : body.filter (fun r => !r.isFinal) = body := by
      apply filter_eq_self.mpr
      intro r hr; simp [hb r hr]
    simp [hst, hrun, hpd, expectedFrom, workersFrom, filter_append, hf, finalResp, finalOf, hperm]
  · obtain ⟨hnf, hperm⟩ := inv.opn hc
    have hf : s.stream.filter (fun r => !r.isFinal) = s.stream := by
      apply filter_eq_self.mpr
      intro r hr; simp [hnf r hr]
    rw [hf]; exact hperm

/-- **The final marker is last**: whenever any response flagged final is in
    the stream, the stream is `body ++ [final]` with `final` the marker with
    seq n+1, `body` free of final flags and a permutation of all owed
    responses (so nothing can follow or overtake it, and it is unique). -/
theorem final_last (c : Cfg α β) (s : State α β) (h : Reachable c s)
    (r : Resp β) (hr : r ∈ s.stream) (hfin : r.isFinal = true) :
    ∃ body, s.stream = body ++ [finalResp c] ∧ body.Perm (expected c) ∧
      (∀ x ∈ body, x.isFinal = false) ∧ (finalResp c).seq = c.reqs.length + 1 := by
  have inv := inv_reachable c s h
  by_cases hc : s.phase = .closed
  · obtain ⟨_, _, _, body, hst, hperm⟩ := inv.cls hc
    exact ⟨body, hst, hperm, fun x hx => expected_nonfinal c x (hperm.subset hx), rfl⟩
  · have := (inv.opn hc).1 r hr
    simp [this] at hfin

/-- **Pairing**: for every schedule that reaches termination, what the
    consumer received is a permutation of (req_idᵢ, i, f reqᵢ) for i = 1..n
    followed by exactly one final marker, which carries seq n+1. -/
theorem bulk_pairing (c : Cfg α β) (sched : List Label) (s : State α β)
    (hex : exec c (init c) sched = some s) (hterm : terminated s = true) :
    ∃ body, s.out = body ++ [finalResp c] ∧ body.Perm (expected c) ∧
      (finalResp c).seq = c.reqs.length + 1 ∧ (finalResp c).isFinal = true ∧
      (∀ x ∈ body, x.isFinal = false) := by
  have inv := inv_reachable c s ⟨sched, hex⟩
  simp only [terminated, Bool.and_eq_true, beq_iff_eq, isEmpty_iff] at hterm
  obtain ⟨_, _, _, body, hst, hperm⟩ := inv.cls hterm.1
  refine ⟨body, ?_, hperm, rfl, rfl, fun x hx => expected_nonfinal c x (hperm.subset hx)⟩
  simpa [State.stream, hterm.2] using hst

/-- the owed responses are exactly one per request, numbered 1..n in input
    order, each with the request's own id (what `expected` means) -/
theorem expected_spec (c : Cfg α β) (i : Nat) (hi : i < c.reqs.length) :
    (expected c)[i]? = some ⟨c.reqs[i].reqId, i + 1, some (c.f c.reqs[i]), false, false⟩ := by
  have key : ∀ (rs : List (Req α)) (k i : Nat) (hi : i < rs.length),
      (expectedFrom c k rs)[i]? = some ⟨rs[i].reqId, k + i, some (c.f rs[i]), false, false⟩ := by
    intro rs
    induction rs with
    | nil => intro k i hi; simp at hi
    | cons r rs ih =>
      intro k i hi
      cases i with
      | zero => simp [expectedFrom, workersFrom, respOf]
      | succ j =>
        have := ih (k + 1) j (by simpa using hi)
        simp only [expectedFrom] at this
        simp [expectedFrom, workersFrom, this]; omega
  have := key c.reqs 1 i hi
  simpa [expected, Nat.add_comm 1 i] using this

/-- **No deadlock**: in any state that is not terminated some step is enabled
    (capacity ≥ 1, as extracted from the code). -/
theorem no_deadlock (c : Cfg α β) (hcap : 1 ≤ c.cap) (s : State α β) (h : terminated s = false) :
    ∃ l s', step c s l = some s' := by
  have ex : ∀ l, (step c s l).isSome = true → ∃ l s', step c s l = some s' :=
    fun l hl => ⟨l, Option.isSome_iff_exists.mp hl⟩
  cases hb : s.buf with
  | cons r rest => exact ex .recv (by simp [step, hb])
  | nil =>
    have hlt : s.buf.length < c.cap := by simp [hb]; omega
    cases hph : s.phase with
    | closed => simp [terminated, hph, hb] at h
    | reading =>
      cases hpd : s.pending with
      | nil => exact ex .stop (by simp [step, hph, hpd])
      | cons p ps => exact ex .read (by simp [step, hph, hpd])
    | waiting =>
      cases hrun : s.running with
      | cons w ws => exact ex (.send 0) (by simp [step, hrun, hlt])
      | nil =>
        cases hs : s.sent with
        | succ n => exact ex .done (by simp [step, hs])
        | zero => exact ex .final (by simp [step, hph, hrun, hs, hlt])

/-- every schedule from the initial state has used up exactly its length of
    the 4n+3 available steps: schedules are bounded, no livelock -/
theorem schedule_length (c : Cfg α β) (sched : List Label) (s : State α β)
    (hex : exec c (init c) sched = some s) :
    s.measure + sched.length = 4 * c.reqs.length + 3 := by
  have := measure_exec c sched _ _ hex
  simpa [init, State.measure] using this

/-- a schedule that cannot be extended has terminated (with the pairing above) -/
theorem maximal_schedule_terminates (c : Cfg α β) (hcap : 1 ≤ c.cap) (sched : List Label) (s : State α β)
    (_hex : exec c (init c) sched = some s) (hstuck : ∀ l, step c s l = none) :
    terminated s = true := by
  cases ht : terminated s with
  | true => rfl
  | false =>
    obtain ⟨l, s', hs⟩ := no_deadlock c hcap s ht
    simp [hstuck l] at hs

/-- **Acceptor complete**: every trace the system can produce is accepted -/
theorem validTrace_of_schedule [DecidableEq β] (c : Cfg α β) (sched : List Label) (s : State α β)
    (hex : exec c (init c) sched = some s) (hterm : terminated s = true) :
    validTrace c s.out = true := by
  obtain ⟨body, hout, hperm, _⟩ := bulk_pairing c sched s hex hterm
  simp [validTrace, hout, isPerm_iff, hperm]

/-- **Acceptor sound**: every accepted trace is produced by some schedule -/
theorem schedule_of_validTrace [DecidableEq β] (c : Cfg α β) (hcap : 1 ≤ c.cap) (obs : List (Resp β))
    (hv : validTrace c obs = true) :
    ∃ sched s, exec c (init c) sched = some s ∧ terminated s = true ∧ s.out = obs := by
  unfold validTrace at hv
  split at hv
  · simp at hv
  · rename_i l hl
    simp only [Bool.and_eq_true, decide_eq_true_eq, isPerm_iff] at hv
    obtain ⟨hlf, hperm⟩ := hv
    have hne : obs ≠ [] := by intro h; simp [h] at hl
    have hobs : obs = obs.dropLast ++ [finalResp c] := by
      have h2 := dropLast_concat_getLast hne
      have h3 : obs.getLast hne = l := by
        have := getLast?_eq_some_getLast hne
        rw [hl] at this; exact (Option.some.inj this).symm
      rw [h3, hlf] at h2; exact h2.symm
    -- 1. read everything, 2. stop
    have h1 := exec_reads c c.reqs (init c) rfl rfl
    let s1 : State α β := { init c with pending := [], next := c.reqs.length, running := workersFrom 1 c.reqs, phase := .waiting }
    have h12 : exec c (init c) (replicate c.reqs.length Label.read ++ [Label.stop]) = some s1 := by
      rw [exec_append, h1]
      simp [exec, step, init, s1]
    -- 3. serve the body in the observed order
    have hp1 : obs.dropLast.Perm (s1.running.map (respOf c)) := by
      simpa [s1, expected, expectedFrom] using hperm
    obtain ⟨sched, s2, he, hrun, hsent, hbuf, hph, hpd, hnext, hout⟩ :=
      exec_serve c hcap obs.dropLast s1 rfl rfl hp1
    -- 4. final, recv
    let s3 : State α β := { s2 with phase := .closed, out := s2.out ++ [finalResp c] }
    have h0 : 0 < c.cap := by omega
    have h34 : exec c s2 [Label.final, Label.recv] = some s3 := by
      have : s2.phase = .waiting := by rw [hph]
      have hn : s2.next = c.reqs.length := by rw [hnext]
      simp [exec, step, this, hrun, hsent, hbuf, h0, hn, finalResp, s3]
    refine ⟨(replicate c.reqs.length Label.read ++ [Label.stop]) ++ (sched ++ [Label.final, Label.recv]), s3, ?_, ?_, ?_⟩
    · rw [exec_append, h12]
      simp only [Option.bind_some]
      rw [exec_append, he]
      exact h34
    · simp [terminated, s3, hbuf]
    · rw [hobs]
      simp [s3, hout, s1, init]

/-- **The acceptor accepts exactly the terminated traces of the system.** -/
theorem validTrace_iff_schedule [DecidableEq β] (c : Cfg α β) (hcap : 1 ≤ c.cap) (obs : List (Resp β)) :
    validTrace c obs = true ↔
      ∃ sched s, exec c (init c) sched = some s ∧ terminated s = true ∧ s.out = obs := by
  constructor
  · exact schedule_of_validTrace c hcap obs
  · rintro ⟨sched, s, hex, hterm, rfl⟩
    exact validTrace_of_schedule c sched s hex hterm


/-! ## the input layer: what a request that cannot be read gets

`Model/BulkInput.lean`: the stream is a list of values (complete requests and
values `Decode` fails on) and an `Ending` of the bytes; `parse` is the decode
loop.  The rule pinned here is the one the harness judges real streams by. -/

/-- nothing after the first unreadable value is ever read: what follows it,
    and how the bytes end after it, do not change the run -/
theorem after_unreadable_ignored (pre : List (Req α)) (id : String) (rest rest' : List (Item α))
    (e e' : Ending) (f : Req α → β) (cap : Nat) :
    Cfg.ofInput (pre.map Item.ok ++ Item.broken id :: rest) e f cap =
      Cfg.ofInput (pre.map Item.ok ++ Item.broken id :: rest') e' f cap := by
  simp [Cfg.ofInput, parse_unreadable]

/-- what the complete requests are owed does not depend on how the stream ends -/
theorem owed_independent_of_ending (c : Cfg α β) (t : Tail) :
    expected { c with tail := t } = expected c := rfl

/-- every ending, one rule: the replies are those owed after a clean end, all
    with a position ≤ n and none final, then the single final marker with
    position n+1 which says whether and with which partial id the input broke -/
theorem ending_rule (c : Cfg α β) (sched : List Label) (s : State α β)
    (hex : exec c (init c) sched = some s) (hterm : terminated s = true) :
    ∃ body, s.out = body ++ [⟨c.tail.reqId, c.reqs.length + 1, none, true, c.tail.isErr⟩] ∧
      body.Perm (expected { c with tail := .eof }) ∧
      ∀ x ∈ body, x.isFinal = false ∧ 1 ≤ x.seq ∧ x.seq ≤ c.reqs.length := by
  obtain ⟨body, hout, hperm, _, _, hnf⟩ := bulk_pairing c sched s hex hterm
  refine ⟨body, hout, hperm, fun x hx => ⟨hnf x hx, ?_⟩⟩
  exact expected_seq_bounds c x (hperm.subset hx)

/-- **A request that cannot be decoded** (not JSON, or a wrongly typed member
    that leaves `id` in `req_id`) after `pre` complete requests, whatever
    follows it: every terminated run delivers a permutation of what `pre` is
    owed after a clean end — positions 1..n, none of them the unreadable
    request's — and then exactly the marker (id, n+1, no payload, final, error). -/
theorem unreadable_request_rule (pre : List (Req α)) (id : String) (rest : List (Item α)) (e : Ending)
    (f : Req α → β) (cap : Nat) (sched : List Label) (s : State α β)
    (hex : exec (Cfg.ofInput (pre.map Item.ok ++ Item.broken id :: rest) e f cap)
      (init (Cfg.ofInput (pre.map Item.ok ++ Item.broken id :: rest) e f cap)) sched = some s)
    (hterm : terminated s = true) :
    ∃ body, s.out = body ++ [unreadableMarker pre.length id] ∧
      body.Perm (expected (Cfg.ofInput (pre.map Item.ok) .eof f cap)) ∧
      ∀ x ∈ body, x.isFinal = false ∧ 1 ≤ x.seq ∧ x.seq ≤ pre.length := by
  have hc : Cfg.ofInput (pre.map Item.ok ++ Item.broken id :: rest) e f cap =
      { reqs := pre, tail := .bad id, f := f, cap := cap } := by
    simp [Cfg.ofInput, parse_unreadable]
  rw [hc] at hex
  obtain ⟨body, hout, hperm, hb⟩ := ending_rule _ sched s hex hterm
  refine ⟨body, ?_, ?_, hb⟩
  · simpa [unreadableMarker, Tail.reqId, Tail.isErr] using hout
  · simpa [Cfg.ofInput, parse_complete, Ending.tail] using hperm

/-- **A request cut short, or a failing reader**, after `pre` complete
    requests: the same, with an empty request id on the marker. -/
theorem truncated_input_rule (pre : List (Req α)) (e : Ending) (he : e ≠ .eof)
    (f : Req α → β) (cap : Nat) (sched : List Label) (s : State α β)
    (hex : exec (Cfg.ofInput (pre.map Item.ok) e f cap) (init (Cfg.ofInput (pre.map Item.ok) e f cap)) sched = some s)
    (hterm : terminated s = true) :
    ∃ body, s.out = body ++ [unreadableMarker pre.length ""] ∧
      body.Perm (expected (Cfg.ofInput (pre.map Item.ok) .eof f cap)) ∧
      ∀ x ∈ body, x.isFinal = false ∧ 1 ≤ x.seq ∧ x.seq ≤ pre.length := by
  have ht : e.tail = .bad "" := by cases e <;> simp_all [Ending.tail]
  have hc : Cfg.ofInput (pre.map Item.ok) e f cap = { reqs := pre, tail := .bad "", f := f, cap := cap } := by
    simp [Cfg.ofInput, parse_complete, ht]
  rw [hc] at hex
  obtain ⟨body, hout, hperm, hb⟩ := ending_rule _ sched s hex hterm
  refine ⟨body, ?_, ?_, hb⟩
  · simpa [unreadableMarker, Tail.reqId, Tail.isErr] using hout
  · simpa [Cfg.ofInput, parse_complete, Ending.tail] using hperm

/-- **A clean end**: the same replies, the marker without error. -/
theorem clean_end_rule (pre : List (Req α)) (f : Req α → β) (cap : Nat) (sched : List Label) (s : State α β)
    (hex : exec (Cfg.ofInput (pre.map Item.ok) .eof f cap) (init (Cfg.ofInput (pre.map Item.ok) .eof f cap)) sched = some s)
    (hterm : terminated s = true) :
    ∃ body, s.out = body ++ [⟨"", pre.length + 1, none, true, false⟩] ∧
      body.Perm (expected (Cfg.ofInput (pre.map Item.ok) .eof f cap)) ∧
      ∀ x ∈ body, x.isFinal = false ∧ 1 ≤ x.seq ∧ x.seq ≤ pre.length := by
  have hc : Cfg.ofInput (pre.map Item.ok) .eof f cap = { reqs := pre, tail := .eof, f := f, cap := cap } := by
    simp [Cfg.ofInput, parse_complete, Ending.tail]
  rw [hc] at hex ⊢
  obtain ⟨body, hout, hperm, hb⟩ := ending_rule _ sched s hex hterm
  exact ⟨body, by simpa [Tail.reqId, Tail.isErr] using hout, hperm, hb⟩

/-! ## the context layer: cancellation

The workers' results depend on whether the shared context was cancelled
(`CCfg.f req cancelled`); the only cancellation is the caller's (`CLabel.cancel`). -/

/-- **Without a cancellation by the caller every reply is the request's
    uncancelled result** — for every ending of the input, every schedule. -/
theorem uncancelled_results (c : CCfg α β) (ls : List CLabel) (hn : ∀ l ∈ ls, l ≠ CLabel.cancel)
    (s : CState α β) (hex : cexec c (cinit c) ls = some s) (hterm : terminated s.base = true) :
    s.cancelled = false ∧
    ∃ body, s.base.out = body ++ [finalResp (c.at false)] ∧ body.Perm (expected (c.at false)) ∧
      ∀ x ∈ body, x.isFinal = false := by
  obtain ⟨hc, sched, hex'⟩ := cexec_of_no_cancel c ls (cinit c) s hn hex
  refine ⟨hc, ?_⟩
  obtain ⟨body, hout, hperm, _, _, hnf⟩ := bulk_pairing (c.at false) sched s.base hex' hterm
  exact ⟨body, hout, hperm, hnf⟩

/-- **Cancellations do not disturb pairing**: whatever the caller cancels and
    when, the replies with their payloads blanked are a permutation of
    (req_idᵢ, i) for i = 1..n followed by the one final marker. -/
theorem cancelled_pairing (c : CCfg α β) (ls : List CLabel) (s : CState α β)
    (hex : cexec c (cinit c) ls = some s) (hterm : terminated s.base = true) :
    ∃ body, s.base.out.map Resp.shape = body ++ [finalResp c.shape] ∧ body.Perm (expected c.shape) ∧
      ∀ x ∈ body, x.isFinal = false := by
  obtain ⟨sched, hex'⟩ := cexec_shape c ls (cinit c) s hex
  have ht : terminated s.base.shape = true := by rw [terminated_shape]; exact hterm
  obtain ⟨body, hout, hperm, _, _, hnf⟩ := bulk_pairing c.shape sched s.base.shape hex' ht
  exact ⟨body, hout, hperm, hnf⟩

/-- **… and every reply is the request's own result**, computed either with
    or without the cancellation seen: a reply never carries anything else, in
    particular never something that depends on another request. -/
theorem cancelled_payloads (c : CCfg α β) (ls : List CLabel) (s : CState α β)
    (hex : cexec c (cinit c) ls = some s) (r : Resp β) (hr : r ∈ s.base.out) (hnf : r.isFinal = false) :
    r ∈ expected (c.at false) ∨ r ∈ expected (c.at true) := by
  have inv := cinv_exec c ls (cinit c) s (cinv_init c) hex
  exact inv.sent r (by simp [State.stream, hr]) hnf

/-! ## non-vacuity: a concrete run with reordering, and a rejected trace -/

/-- two requests, the second answered first -/
def exCfg : Cfg String String :=
  { reqs := [⟨"a", "x"⟩, ⟨"b", "y"⟩], tail := .eof, f := fun r => r.body ++ "!", cap := 1 }

example : ∃ s, exec exCfg (init exCfg)
      [.read, .read, .send 1, .recv, .stop, .send 0, .done, .recv, .done, .final, .recv] = some s ∧
    terminated s = true ∧
    s.out = [⟨"b", 2, some "y!", false, false⟩, ⟨"a", 1, some "x!", false, false⟩, ⟨"", 3, none, true, false⟩] :=
  ⟨_, rfl, rfl, rfl⟩
example : validTrace exCfg
    [⟨"b", 2, some "y!", false, false⟩, ⟨"a", 1, some "x!", false, false⟩, ⟨"", 3, none, true, false⟩] = true := by decide
-- swapped request ids, a duplicate, a missing reply, a marker that is not last, a wrong final seq: all rejected
example : validTrace exCfg
    [⟨"a", 2, some "y!", false, false⟩, ⟨"b", 1, some "x!", false, false⟩, ⟨"", 3, none, true, false⟩] = false := by decide
example : validTrace exCfg
    [⟨"a", 1, some "x!", false, false⟩, ⟨"a", 1, some "x!", false, false⟩, ⟨"", 3, none, true, false⟩] = false := by decide
example : validTrace exCfg [⟨"a", 1, some "x!", false, false⟩, ⟨"", 3, none, true, false⟩] = false := by decide
example : validTrace exCfg
    [⟨"a", 1, some "x!", false, false⟩, ⟨"", 3, none, true, false⟩, ⟨"b", 2, some "y!", false, false⟩] = false := by decide
example : validTrace exCfg
    [⟨"a", 1, some "x!", false, false⟩, ⟨"b", 2, some "y!", false, false⟩, ⟨"", 2, none, true, false⟩] = false := by decide
-- the final step is not enabled while a worker is still running (wg.Wait)
example : exec exCfg (init exCfg) [.read, .read, .stop, .send 0, .recv, .done, .final] = none := rfl
-- the early-termination path: a decode error after one request
example : finalResp { exCfg with reqs := [⟨"a", "x"⟩], tail := .bad "p" } = ⟨"p", 2, none, true, true⟩ := rfl

-- the input layer: two complete requests, then a value with a wrongly typed member that left "p" in
-- req_id, then a request that is never read; the second request is answered first
def exItems : List (Item String) := [.ok ⟨"a", "x"⟩, .ok ⟨"b", "y"⟩, .broken "p", .ok ⟨"never", "z"⟩]
example : parse exItems .eof = ([⟨"a", "x"⟩, ⟨"b", "y"⟩], Tail.bad "p") := rfl
example : ∃ s, exec (Cfg.ofInput exItems .eof (fun r => r.body ++ "!") 1) (init (Cfg.ofInput exItems .eof (fun r => r.body ++ "!") 1))
      [.read, .read, .send 1, .recv, .stop, .send 0, .done, .recv, .done, .final, .recv] = some s ∧
    terminated s = true ∧
    s.out = [⟨"b", 2, some "y!", false, false⟩, ⟨"a", 1, some "x!", false, false⟩, unreadableMarker 2 "p"] :=
  ⟨_, rfl, rfl, rfl⟩
-- a request cut short after one complete request (hypotheses of `truncated_input_rule`)
example : ∃ s, exec (Cfg.ofInput [Item.ok ⟨"a", "x"⟩] .cut (fun r => r.body ++ "!") 1)
      (init (Cfg.ofInput [Item.ok ⟨"a", "x"⟩] .cut (fun r => r.body ++ "!") 1))
      [.read, .stop, .send 0, .done, .recv, .final, .recv] = some s ∧ terminated s = true ∧
    s.out = [⟨"a", 1, some "x!", false, false⟩, unreadableMarker 1 ""] ∧ Ending.cut ≠ Ending.eof :=
  ⟨_, rfl, rfl, rfl, by decide⟩
-- the context layer: the caller cancels between the two sends; the first reply is the uncancelled
-- result, the second the cancelled one (hypotheses of `cancelled_pairing` / `cancelled_payloads`),
-- and without the cancel step both are uncancelled (hypotheses of `uncancelled_results`)
def exCCfg : CCfg String String :=
  { reqs := [⟨"a", "x"⟩, ⟨"b", "y"⟩], tail := .bad "", f := fun r b => if b then "cancelled" else r.body ++ "!", cap := 1 }
example : ∃ s, cexec exCCfg (cinit exCCfg)
      [.sys .read, .sys .read, .sys (.send 0), .sys .recv, .cancel, .sys .stop, .sys (.send 0), .sys .done, .sys .recv,
       .sys .done, .sys .final, .sys .recv] = some s ∧ terminated s.base = true ∧ s.cancelled = true ∧
    s.base.out = [⟨"a", 1, some "x!", false, false⟩, ⟨"b", 2, some "cancelled", false, false⟩, ⟨"", 3, none, true, true⟩] :=
  ⟨_, rfl, rfl, rfl, rfl⟩
example : ∃ s, cexec exCCfg (cinit exCCfg)
      [.sys .read, .sys .read, .sys (.send 0), .sys .recv, .sys .stop, .sys (.send 0), .sys .done, .sys .recv,
       .sys .done, .sys .final, .sys .recv] = some s ∧ terminated s.base = true ∧
    s.base.out = [⟨"a", 1, some "x!", false, false⟩, ⟨"b", 2, some "y!", false, false⟩, ⟨"", 3, none, true, true⟩] :=
  ⟨_, rfl, rfl, rfl⟩

/-! ## expectations over facts regenerated from /repo/internal/cli/bulk.go

The model was written against this synchronisation skeleton.  Moving
`wg.Done()` before the send, dropping `wg.Wait()`, sending the marker before
waiting, or numbering differently breaks one of these. -/
namespace Expect
open GoblVerif.Generated.Bulk

theorem channel_capacity_positive : 1 ≤ chanCap := by decide
theorem dispatcher_skeleton : bulkShape =
    ["go", "func{", "defer", "close", "for{", "atomic.AddInt64(1)", "decode", "if(err != nil){",
     "wg.Wait", "if(err != io.EOF){", "}", "send(resCh)", "return", "}",
     "wg.Add", "go", "func{", "send(resCh)", "wg.Done", "}", "}", "}", "return"] := by decide
theorem final_marker_members : finalFields =
    [("ReqID", "req.ReqID"), ("SeqID", "seq"), ("IsFinal", "true")] := by decide
theorem response_members : respFields = [("ReqID", "req.ReqID"), ("SeqID", "seq")] := by decide
theorem seq_only_copied : seqUsesInProcessRequest = 1 := by decide
theorem action_list : actions =
    ["verify", "validate", "build", "sign", "correct", "replicate", "keygen", "ping", "sleep",
     "schemas", "schema", "regime"] := by decide

end Expect

/-! ## expectations over `Generated/BulkCtxFacts.lean`

What the input and context layers assume about the source beyond the
synchronisation skeleton: the worker's context is the caller's (no context is
derived, rebound or cancelled inside `Bulk`: how the stream ends cannot reach
a dispatched request), the decode-error branch is one branch for every error
and builds the marker the rule above describes, a fresh request structure per
iteration, and a cancellable reader shares nothing with another reader (no
package-level state, the inner read gets the caller's own slice). -/
namespace ExpectCtx
open GoblVerif.Generated.BulkCtx

theorem worker_context_is_the_callers :
    bulkParams = ["ctx context.Context", "opts *BulkOptions"] ∧ workerArgs = ["ctx", "req", "seq", "opts"] ∧
      contextCalls = [] ∧ ctxRebound = 0 ∧ otherFunctionsCalled = [] := by decide
theorem decode_error_branch_as_modelled : decodeErrorBranch =
    ["wg.Wait()", "res := &BulkResponse{ ReqID: req.ReqID, SeqID: seq, IsFinal: true, }",
     "if err != io.EOF { res.Error = wrapError(StatusUnprocessableEntity, err) }", "resCh <- res", "return"] := by decide
theorem read_loop_as_modelled : readLoop =
    ["seq := atomic.AddInt64(&seq, 1)", "var req BulkRequest", "err := dec.Decode(&req)", "if err != nil {...}",
     "wg.Add(1)", "go func() { resCh <- processRequest(ctx, req, seq, opts) wg.Done() }()"] := by decide
theorem cancellable_reader_shares_nothing :
    readerPackageVars = [] ∧ readParam = "p" ∧ innerReadArgs = ["p"] := by decide
theorem cancellable_reader_as_modelled : readerRead =
    ["var c int", "var err error", "wait := make(chan struct{}, 1)", "go func", "  c, err = r.r.Read(p)", "  close(wait)",
     "select", "case <-r.ctx.Done(): return 0, r.ctx.Err()", "case <-wait: return c, err"] := by decide

end ExpectCtx

end GoblVerif.Props.C15
