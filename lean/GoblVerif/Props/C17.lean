/-
  C17 — Totals are symmetric under negation and independent of line order.

  Statements about `Calc.calculate exactOps` (Model/Calc.lean).  Helper
  lemmas: Proofs/CalcNeg.lean, Proofs/CalcPerm.lean.

  Proved: rounding half away from zero is odd, hence every arithmetic
  primitive commutes with negation; `Invoice.Invert`'s sign change on a line
  (quantity, fixed amounts, explicit bases, a charge's own quantity) yields
  exactly the negated line figures; inverting twice is the identity on the
  inputs; the document sum, discount and charge totals do not depend on row
  order, and a row's own figures do not depend on the other rows.
  Whole document (Proofs/CalcInvert.lean): for a document of input lines
  (with or without breakdowns, foreign-currency items, any adjustments) the
  complete recalculation of the inverted document — lines, document discounts
  and charges, the tax summary with included-tax removal, every total, the
  advances and the presentation rounding — is the negated result.
  Order (Proofs/CalcPerm.lean, CalcGroups.lean, CalcPermTax.lean): document
  sums and every tax group's base, amount and surcharge (as amounts: value and
  precision) are independent of the order of the rows.
  So is every category amount (`category_amount_perm_invariant`).
  Included-tax removal (Model/CalcRemove.lean, Proofs/CalcRemove.lean):
  `Invoice.RemoveIncludedTaxes` modelled statement by statement on the invoice
  in memory (two or three `calculate` calls, rows rounded in place in between);
  `remove_included_payable…`: payable = original total with tax, the residue
  exactly the rounding field — outside the two domains where the code does not
  do that, both exhibited as kernel-checked counter-examples; the flag, the
  per-amount formula, "nothing to remove".
  Not proved (metamorphic checks on the real code only): order independence
  of the tax total as a whole sum over categories.
-/
import GoblVerif.Spec.C17
import GoblVerif.Generated.CalcFacts
import GoblVerif.Proofs.CalcNeg
import GoblVerif.Proofs.CalcPerm
import GoblVerif.Proofs.CalcInvert
import GoblVerif.Proofs.CalcGroups
import GoblVerif.Proofs.CalcPermTax
import GoblVerif.Proofs.CalcRemove
import GoblVerif.Proofs.CalcRemoveMore

namespace GoblVerif.Props.C17
open GoblVerif GoblVerif.Calc

/-! ## negation -/

/-- rounding half away from zero is symmetric -/
theorem rounding_odd (n d : ℤ) (hd : 0 < d) : rha (-n) d = - rha n d := rha_neg n d hd

/-- every rounding primitive commutes with negation -/
theorem primitives_odd (a b : Amount) (e : ℕ) :
    exactOps.mul (neg a) b = neg (exactOps.mul a b) ∧
    exactOps.mul a (neg b) = neg (exactOps.mul a b) ∧
    exactOps.rescale (neg a) e = neg (exactOps.rescale a e) ∧
    (b.value ≠ 0 → exactOps.div (neg a) b = neg (exactOps.div a b)) :=
  ⟨mulX_neg_left a b, mulX_neg_right a b, rescaleX_neg a e, divX_neg_left a b⟩

/-- **invert_negates (lines)**: recalculating an inverted line gives exactly
the negated sum, total, discount and charge amounts of the original (any
rounding rule, currency, discounts/charges by percentage with or without
base, fixed, or rate × quantity). -/
theorem invert_negates_line (cur : String) (c : ℕ) (rates : List XRate) (r : Rule) (l : Line)
    (hbd : l.breakdown = []) (hs : l.sum = none) (ht : l.total = none) :
    calcLine exactOps cur c rates r (invertLine l) = (calcLine exactOps cur c rates r l).map negLineOut :=
  calcLine_invert cur c rates r l hbd hs ht

/-- sums of negated amounts are the negated sums (document sum, discount and charge totals, advances) -/
theorem invert_negates_sums (xs : List Amount) (c : ℕ) :
    (xs.map neg).foldl (accum exactOps) ⟨0, c⟩ = neg (xs.foldl (accum exactOps) ⟨0, c⟩) := by
  have := foldl_accum_neg xs ⟨0, c⟩
  simpa [neg] using this

/-- **invert_invert**: the sign change is an involution on the inputs -/
theorem invert_invert_line (l : Line) : invertLine (invertLine l) = l := by
  have hadj : ∀ d : LineAdj, invertAdj (invertAdj d) = d := by
    intro d
    cases d
    simp [invertAdj, neg_neg', Option.map_map, Function.comp_def]
  have hmap : ∀ ds : List LineAdj, (ds.map invertAdj).map invertAdj = ds := by
    intro ds
    rw [List.map_map]
    exact List.map_id'' (fun d => hadj d) ds
  cases l
  simp [invertLine, neg_neg', hmap]

/-! ## order independence -/

/-- **perm_invariant (sums)**: the document sum does not depend on the order of the lines -/
theorem sum_perm_invariant (c : ℕ) (ls ls' : List Line) (h : ls.Perm ls') :
    lineSum exactOps c ls = lineSum exactOps c ls' := by
  unfold lineSum
  exact foldl_accum_perm _ _ (h.filterMap _) _

/-- nor do the discount / charge totals depend on the order of their rows -/
theorem adjSum_perm_invariant (c : ℕ) (ds ds' : List DocAdj) (h : ds.Perm ds') :
    adjSum exactOps c ds = adjSum exactOps c ds' := by
  unfold adjSum
  have hl : ds.isEmpty = ds'.isEmpty := by
    cases ds <;> cases ds' <;> simp_all
  rw [hl]
  split
  · rfl
  · congr 1
    exact foldl_accum_perm _ _ (h.map _) _

/-- a line's own figures are computed from that line alone (`calcLines` maps
`calcLine` over the list), so reordering lines cannot change them -/
theorem lines_independent (cur : String) (c : ℕ) (rates : List XRate) (r : Rule) (ls out : List Line)
    (h : calcLines exactOps cur c rates r ls = .ok out) :
    out.length = ls.length ∧
    ∀ i (hi : i < ls.length) (ho : i < out.length), calcLine exactOps cur c rates r ls[i] = .ok out[i] := by
  induction ls generalizing out with
  | nil => simp [calcLines] at h; subst h; simp
  | cons l ls ih =>
    unfold calcLines at h
    cases h1 : calcLine exactOps cur c rates r l with
    | error e => simp [h1] at h
    | ok l' =>
      simp only [h1] at h
      cases h2 : calcLines exactOps cur c rates r ls with
      | error e => simp [h2] at h
      | ok ls' =>
        simp only [h2] at h
        injection h with h
        subst h
        obtain ⟨i1, i2⟩ := ih ls' h2
        refine ⟨by simp [i1], ?_⟩
        intro i hi ho
        cases i with
        | zero => simpa using h1
        | succ j =>
          simp only [List.getElem_cons_succ]
          exact i2 j (by simpa using hi) (by simpa using ho)

/-- **Reordering rows changes no tax group base.**  For any permutation of the taxable rows (lines,
document discounts, document charges) and any group key, the base accumulated for that key in that
category is the same; with `Props.C02.group_amount` the group's amount is a function of that base. -/
theorem group_base_perm_invariant (r : Rule) (c : ℕ) (cat : String) (k : Key) (rows rows' : List Row)
    (h : rows.Perm rows') :
    catGroupBase cat k (baseRateTotals exactOps r c rows) = catGroupBase cat k (baseRateTotals exactOps r c rows') :=
  baseRateTotals_group_perm r c cat k rows rows' h

/-- **Reordering rows changes no tax group figure.**  For any permutation of the taxable rows and any
category and group key, the group the summary holds for that key has the same base, amount and
surcharge amount — equal as amounts, value and number of decimals — and it exists for one order
exactly when it exists for the other (only the position of the groups in the list may differ). -/
theorem group_figures_perm_invariant (r : Rule) (c : ℕ) (cat : String) (k : Key) (rows rows' : List Row)
    (h : rows.Perm rows') :
    (findGroup cat k ((baseRateTotals exactOps r c rows).map (catAmounts exactOps r c))).map groupView =
      (findGroup cat k ((baseRateTotals exactOps r c rows').map (catAmounts exactOps r c))).map groupView :=
  group_view_perm r c cat k rows rows' h

/-- **Reordering rows changes no category amount**: the amount of every tax category (the sum of its
groups' amounts; 0 when the summary has no such category) is the same for every order of the rows. -/
theorem category_amount_perm_invariant (r : Rule) (c : ℕ) (cat : String) (rows rows' : List Row)
    (h : rows.Perm rows') :
    catAmountQ cat ((baseRateTotals exactOps r c rows).map (catAmounts exactOps r c)) =
      catAmountQ cat ((baseRateTotals exactOps r c rows').map (catAmounts exactOps r c)) :=
  catAmountQ_perm r c cat rows rows' h

/-- non-vacuity: two rows at 21 % and one at 10 %; putting the 10 % row first swaps the two groups and
changes none of their figures (21 %: base 300.0000, amount 63.0000; 10 %: base 50.00, amount 5.00) -/
example :
    let vat (p : ℤ) : Combo := { cat := "VAT", country := "", key := "", percent := some ⟨⟨p, 2⟩⟩, surcharge := none, ext := "", retained := false }
    let rows : List Row := [⟨⟨10000, 2⟩, [vat 21]⟩, ⟨⟨5000, 2⟩, [vat 10]⟩, ⟨⟨2000000, 4⟩, [vat 21]⟩]
    ((baseRateTotals exactOps .precise 2 rows).map (catAmounts exactOps .precise 2)).map (fun ct => ct.rates.map groupView)
      = [[(⟨3000000, 4⟩, ⟨630000, 4⟩, none), (⟨5000, 2⟩, ⟨500, 2⟩, none)]] ∧
    let rows' : List Row := [⟨⟨5000, 2⟩, [vat 10]⟩, ⟨⟨2000000, 4⟩, [vat 21]⟩, ⟨⟨10000, 2⟩, [vat 21]⟩]
    ((baseRateTotals exactOps .precise 2 rows').map (catAmounts exactOps .precise 2)).map (fun ct => ct.rates.map groupView)
      = [[(⟨5000, 2⟩, ⟨500, 2⟩, none), (⟨3000000, 4⟩, ⟨630000, 4⟩, none)]] := by
  decide

/-! ## the whole document under `Invert` -/

/-- The tax summary of negated rows is the negated summary: every group base, amount and surcharge,
every category amount, the precise sum and all presented roundings change sign; grouping, included-tax
removal and the error cases are unchanged. -/
theorem invert_negates_tax_summary (r : Rule) (c : ℕ) (includes : Option String) (rows : List Row) :
    taxTotal exactOps r c includes (rows.map negRow) = (taxTotal exactOps r c includes rows).map negTax :=
  taxTotal_neg r c includes rows

/-- a small document used to show the statement below is not vacuous for a supplied rounding -/
def sampleDocR : Doc :=
  { cur := "EUR", c := 2, rule := .precise, includes := none,
    lines := [{ qty := ⟨3, 0⟩, item := some { price := some ⟨10005, 3⟩, cur := "", sub := 2, alts := [] },
                discounts := [], charges := [], breakdown := [],
                taxes := [{ cat := "VAT", country := "", key := "standard", percent := some ⟨⟨21, 2⟩⟩,
                            surcharge := none, ext := "", retained := false }] }],
    discounts := [], charges := [], rates := [], rounding := none, hasPayment := false, advances := [], dues := [] }

/-- **`Invert` negates the whole calculation.**  `invertDoc` is the sign change `Invoice.Invert`
applies to the inputs; `negOut` negates every computed figure (line sums and totals, line and document
discount/charge amounts and bases, advances, every tax-summary figure, every total).  Payment due
dates are compared separately because a fixed due amount keeps its sign in the code too.  An
externally supplied rounding amount is inverted with the rest (no hypothesis on `d.rounding` since
/repo d6d7c00: until then `Invert` dropped it with the totals and then failed its own payable check —
the hypothesis `d.rounding = none` this theorem used to carry was the sign of that defect). -/
theorem invert_negates_document (d : Doc) (h : ∀ l ∈ d.lines, PlainLine l) :
    (calculate exactOps (invertDoc d)).map Out.dropDues =
      ((calculate exactOps d).map negOut).map Out.dropDues :=
  calculate_invert d h

/-- with a supplied rounding: the inverted document carries the negated rounding and pays the negated amount -/
example :
    ((calculate exactOps (invertDoc { sampleDocR with rounding := some ⟨-2, 2⟩ })).toOption.bind (·.totals)).map
        (fun t => (t.rounding, t.payable)) =
      (((calculate exactOps { sampleDocR with rounding := some ⟨-2, 2⟩ }).toOption.bind (·.totals)).map
        (fun t => (t.rounding.map neg, neg t.payable))) := by decide

/-- `negOut` really is a sign change: applying it twice gives the result back. -/
theorem negate_totals_involutive (t : Totals) (h : t.taxes = none) : negTotals (negTotals t) = t := by
  cases t
  simp only [negTotals, Totals.mk.injEq, neg_neg', Option.map_map, true_and] at h ⊢
  have hf : (neg ∘ neg) = (id : Amount → Amount) := by funext a; exact neg_neg' a
  simp [hf, h]

/-! ## non-vacuity -/

/-- a document that meets the hypotheses of `invert_negates_document` and has taxes, a discount,
included-tax removal and an advance -/
def sampleDoc : Doc :=
  { cur := "EUR", c := 2, rule := .precise, includes := some "VAT",
    lines := [{ qty := ⟨3, 0⟩, item := some { price := some ⟨10005, 3⟩, cur := "", sub := 2, alts := [] },
                discounts := [{ percent := some ⟨⟨10, 2⟩⟩, base := none, amount := ⟨0, 0⟩, rate := none, quantity := none }],
                charges := [], breakdown := [],
                taxes := [{ cat := "VAT", country := "", key := "standard", percent := some ⟨⟨21, 2⟩⟩,
                            surcharge := none, ext := "", retained := false }] }],
    discounts := [{ percent := some ⟨⟨5, 2⟩⟩, base := none, amount := ⟨0, 0⟩,
                    taxes := [{ cat := "VAT", country := "", key := "standard", percent := some ⟨⟨21, 2⟩⟩,
                                surcharge := none, ext := "", retained := false }] }],
    charges := [], rates := [], rounding := none, hasPayment := true,
    advances := [{ percent := some ⟨⟨50, 2⟩⟩, amount := ⟨0, 0⟩ }], dues := [] }

example : (∀ l ∈ sampleDoc.lines, PlainLine l) ∧ sampleDoc.rounding = none := by
  refine ⟨?_, rfl⟩
  intro l hl
  simp only [sampleDoc, List.mem_singleton] at hl
  subst hl
  exact ⟨rfl, rfl⟩

example : ((calculate exactOps sampleDoc).toOption.bind (·.totals)).map (fun t => (t.sum, t.tax, t.payable, t.due)) =
    some (⟨2701, 2⟩, ⟨445, 2⟩, ⟨2566, 2⟩, some ⟨1283, 2⟩) := by decide

example : ((calculate exactOps (invertDoc sampleDoc)).toOption.bind (·.totals)).map (fun t => (t.sum, t.tax, t.payable, t.due)) =
    some (⟨-2701, 2⟩, ⟨-445, 2⟩, ⟨-2566, 2⟩, some ⟨-1283, 2⟩) := by decide

example : (calcLine exactOps "EUR" 2 [] .precise (invertLine
    { qty := ⟨3, 0⟩, item := some { price := some ⟨10005, 3⟩, cur := "", sub := 2, alts := [] },
      discounts := [{ percent := some ⟨⟨10, 2⟩⟩, base := none, amount := ⟨0, 0⟩, rate := none, quantity := none }],
      charges := [], breakdown := [], taxes := [] })).toOption.map (fun l => (l.sum, l.total)) =
    some (some ⟨-300150, 4⟩, some ⟨-270135, 4⟩) := by decide

/-! ## removing included taxes (`Invoice.RemoveIncludedTaxes`, Model/CalcRemove.lean) -/

/-- **What the removal does to an amount** (a unit price, a fixed line discount/charge amount, a
fixed document discount/charge amount): the gross amount divided by (1 + rate), rounded half away from
zero once, at two more decimals than the amount was stored with (`Upscale(2).Remove(percent)`).  The
same statement for the tax summary's own removal is `Props.C02.included_tax_removed_with_own_percentage`. -/
theorem remove_included_amount (a : Amount) (p : Pct) (hne : (factor p).value ≠ 0) :
    (removeAt exactOps a p).exp = a.exp + 2 ∧
    (removeAt exactOps a p).value = Spec.roundTo (a.exp + 2) (a.toRat / (1 + p.amount.toRat)) :=
  removeAt_spec a p hne

/-- non-vacuity: 21 % is not −100 %; 1.00 gross at 21 % is 0.8264 net -/
example : (factor ⟨⟨21, 2⟩⟩).value ≠ 0 ∧ removeAt exactOps ⟨100, 2⟩ ⟨⟨21, 2⟩⟩ = ⟨8264, 4⟩ := by decide

/-- **A line that carries the included category with a percentage and has a price**: the price and
every line discount/charge amount go through `removeAt` with the combo's own percentage (sub-lines
likewise), alternative prices are dropped, everything else — quantity, percentages, bases, rates, the
tax combos themselves — is kept. -/
theorem remove_included_line (k : String) (l : Line) (cb : Combo) (p : Pct) (it : Item) (pr : Amount)
    (hf : l.taxes.find? (fun cb => cb.cat == k) = some cb) (hp : cb.percent = some p)
    (hi : l.item = some it) (hpr : it.price = some pr) :
    removeLineIncluded exactOps k l =
      { l with item := some { it with alts := [], price := some (removeAt exactOps pr p) },
               breakdown := l.breakdown.map (removeSubLine exactOps p),
               discounts := l.discounts.map (removeLineAdj exactOps p),
               charges := l.charges.map (removeLineAdj exactOps p) } :=
  removeLineIncluded_priced k l cb p it pr hf hp hi hpr

/-- every other line (no combo of the included category, an exempt one, no item, no price) is
returned as it is -/
theorem remove_included_line_untouched (k : String) (l : Line)
    (h : ∀ cb p it pr, l.taxes.find? (fun cb => cb.cat == k) = some cb → cb.percent = some p →
      l.item = some it → it.price = some pr → False) :
    removeLineIncluded exactOps k l = l :=
  removeLineIncluded_untouched k l h

/-- document discounts and charges: the amount only, and only when the row carries the category -/
theorem remove_included_row (k : String) (x : DocAdj) (cb : Combo) (p : Pct)
    (hf : x.taxes.find? (fun cb => cb.cat == k) = some cb) (hp : cb.percent = some p) :
    removeAdjIncluded exactOps k x = { x with amount := removeAt exactOps x.amount p } :=
  removeAdjIncluded_carrying k x cb p hf hp

theorem remove_included_row_untouched (k : String) (x : DocAdj)
    (h : ∀ cb p, x.taxes.find? (fun cb => cb.cat == k) = some cb → cb.percent = some p → False) :
    removeAdjIncluded exactOps k x = x :=
  removeAdjIncluded_untouched k x h

/-- **`remove_included_clears_flag`.**  On an invoice with `prices_include = k`, whatever
`removeIncludedTaxes` returns without error either has `prices_include` cleared — and then its totals,
if any, carry no `tax_included`: no row is treated as including a tax any more — or it is the case
"nothing to calculate" (no totals), in which the function returns before touching the flag. -/
theorem remove_included_clears_flag (m m' : Mem) (k : String) (hk : m.doc.includes = some k)
    (h : removeIncludedMem exactOps m = .ok m') :
    (m'.doc.includes = none ∧ ∀ t', m'.totals = some t' → t'.taxIncluded = none) ∨
    (m'.totals = none ∧ m'.doc.includes = some k) :=
  removeIncludedMem_flag m m' k hk h

/-- without `prices_include` the function does nothing (`!canRemoveIncludedTaxes`) -/
theorem remove_included_needs_flag (m : Mem) (h : m.doc.includes = none) :
    removeIncludedMem exactOps m = .ok m :=
  removeIncludedMem_without_flag m h

/-- **Payable after the removal, general form.**  `removeFrom k m t` is `removeIncludedTaxes` from
the point where the original total with tax `t.totalWithTax` is known, for *any* document in memory
(breakdowns included).  If the rows of the document after the removal are reproduced by
calculate ∘ present ∘ calculate (`RowsFix`: the only thing the known finding
`remove-included-fixed-document-row` violates), then: the result has totals; `prices_include` is
cleared; the rounding field is exactly `original − new` presented total with tax when the two differ and
absent when they do not; and the amount payable is the original total with tax unless the residue is
carried across zero (the new presented total with tax non-zero, the original zero or of the other
sign: the known finding `remove-included-residue-across-zero`). -/
theorem remove_included_payable_core (k : String) (m m' : Mem) (t : Totals)
    (hc : t.totalWithTax.exp = m.doc.c)
    (h : removeFrom exactOps k m t = .ok m')
    (hfix : ∀ p, pre exactOps (removedDoc k m.doc) = .ok p → RowsFix (removedDoc k m.doc) p) :
    ∃ t', m'.totals = some t' ∧ m'.doc.includes = none ∧ t'.taxIncluded = none ∧
      t'.totalWithTax.exp = m.doc.c ∧ t'.payable.exp = m.doc.c ∧
      t'.rounding = (if t'.totalWithTax = t.totalWithTax then none
                     else some ⟨t.totalWithTax.value - t'.totalWithTax.value, m.doc.c⟩) ∧
      ((t'.totalWithTax.value = 0 ∨ 0 < t.totalWithTax.value * t'.totalWithTax.value) →
        t'.payable = t.totalWithTax) :=
  removeFrom_payable k m m' t hc h hfix

/-- **`remove_included_payable`.**  For every document (lines with or without breakdown into
sub-lines, items in any currency, any line and document discounts and charges, both rounding rules):

Hypotheses, all on the input document: `prices_include = k`; no externally supplied rounding (the
document has no totals yet, so the function calculates first — exactly what `Calculate` followed by
`RemoveIncludedTaxes` does); the model's well-formedness conditions (`LineWF`: an item priced in the
document's currency is given with that currency's decimals, a sub-line without item carries no figures;
`RatesWF`: an exchange rate into the document's currency is given with that currency's decimals); and
the *visible exclusion of the known finding* `remove-included-fixed-document-row`: the rounding rule is
`currency`, or no document discount/charge with a fixed amount carries the included category with a
percentage (`FixedIncludedRow`).  The other known finding about stored amounts,
`invert-after-in-place-rounding` (fixed amounts finer than presented), is *not* excluded: the original
total with tax is the one of the same first calculation the removal starts from, so what that
calculation rounds in place does not matter here.

Conclusion: if `calculate d = ok out` with totals `t` and `removeIncludedDoc d = ok out'`, then `out'`
has totals `t'` without `tax_included`, presented with the currency's decimals; `t'.rounding` is
exactly `t.totalWithTax − t'.totalWithTax` when they differ and `none` otherwise; and
`t'.payable = t.totalWithTax` provided the residue is not carried across zero (`t'.totalWithTax` is
zero, or has the strict sign of `t.totalWithTax`) — the complement is the known finding
`remove-included-residue-across-zero`, exhibited by `remove_included_residue_across_zero` below. -/
theorem remove_included_payable (d : Doc) (k : String) (out out' : Out) (t : Totals)
    (hk : d.includes = some k) (hr : d.rounding = none)
    (hwf : ∀ l ∈ d.lines, LineWF d.cur d.c l) (hrates : RatesWF d.c d.rates)
    (hrows : d.rule = .currency ∨ ∀ x ∈ d.discounts ++ d.charges, ¬ FixedIncludedRow k x)
    (h1 : calculate exactOps d = .ok out) (ht : out.totals = some t)
    (h2 : removeIncludedDoc exactOps d = .ok out') :
    ∃ t', out'.totals = some t' ∧ t'.taxIncluded = none ∧
      t'.totalWithTax.exp = d.c ∧ t'.payable.exp = d.c ∧
      t'.rounding = (if t'.totalWithTax = t.totalWithTax then none
                     else some ⟨t.totalWithTax.value - t'.totalWithTax.value, d.c⟩) ∧
      ((t'.totalWithTax.value = 0 ∨ 0 < t.totalWithTax.value * t'.totalWithTax.value) →
        t'.payable = t.totalWithTax) :=
  removeIncludedDoc_payable d k out out' t hk hr hwf hrates hrows h1 ht h2

/-- **`RemoveIncludedTaxes` returns normally** in the domain of `remove_included_payable`: under the
same hypotheses, none of the model's error exits is taken — no recalculation fails, and the totals the
function dereferences after its first recalculation are never nil (`RemErr.nilTotals`, a panic in the
Go code).  So the hypothesis `removeIncludedDoc d = ok out'` of `remove_included_payable` always holds
there and the theorem is not true for want of results. -/
theorem remove_included_returns_normally (d : Doc) (k : String) (out : Out) (t : Totals)
    (hk : d.includes = some k) (hr : d.rounding = none)
    (hwf : ∀ l ∈ d.lines, LineWF d.cur d.c l) (hrates : RatesWF d.c d.rates)
    (hrows : d.rule = .currency ∨ ∀ x ∈ d.discounts ++ d.charges, ¬ FixedIncludedRow k x)
    (h1 : calculate exactOps d = .ok out) (ht : out.totals = some t) :
    ∃ out', removeIncludedDoc exactOps d = .ok out' :=
  removeIncludedDoc_succeeds d k out t hk hr hwf hrates hrows h1 ht

/-- what the harness runs, `Calculate` and then `RemoveIncludedTaxes` with the totals present
(`calculateThenRemove`, driver request `rm`), is `removeIncludedDoc`, the function the theorems are
about, whenever prices include a tax, no rounding was supplied and the calculation has totals -/
theorem calculate_then_remove (d : Doc) (k : String) (out : Out) (t : Totals)
    (hk : d.includes = some k) (hr : d.rounding = none)
    (h1 : calculate exactOps d = .ok out) (ht : out.totals = some t) :
    (calculateThenRemove exactOps d).map Mem.out = removeIncludedDoc exactOps d :=
  calculateThenRemove_eq d k out t hk hr h1 ht

/-- every line, with or without sub-lines, after a calculation and after the removal that follows it, is reproduced by
calculate ∘ present ∘ calculate (`LineFix`): the fact about lines behind `remove_included_payable` -/
theorem removed_line_is_fixpoint (cur : String) (c : ℕ) (rates : List XRate) (r : Rule) (k : String) (l0 l1 : Line)
    (hwf : LineWF cur c l0) (hr : RatesWF c rates) (h : calcLine exactOps cur c rates r l0 = .ok l1) :
    LineFix cur c rates r (removeLineIncluded exactOps k (roundLine exactOps l1)) :=
  lineFix_of_settled _ _ _ _ _ (settled_remove _ _ k _ (settled_of_calcLine _ _ _ _ l0 l1 hwf hr h))

/-- what is looked at in the examples: presented total with tax, rounding, payable -/
def removalView (r : Except RemErr Out) : Option (Amount × Option Amount × Amount) :=
  match r with
  | .ok o => o.totals.map (fun t => (t.totalWithTax, t.rounding, t.payable))
  | .error _ => none

/-- non-vacuity: `sampleDoc` (a 10 % line discount, a 5 % document discount carrying VAT, an advance,
21 % VAT included) meets every hypothesis of `remove_included_payable` … -/
example : sampleDoc.includes = some "VAT" ∧ sampleDoc.rounding = none ∧
    (∀ l ∈ sampleDoc.lines, LineWF sampleDoc.cur sampleDoc.c l) ∧ RatesWF sampleDoc.c sampleDoc.rates ∧
    (sampleDoc.rule = .currency ∨ ∀ x ∈ sampleDoc.discounts ++ sampleDoc.charges, ¬ FixedIncludedRow "VAT" x) := by
  refine ⟨rfl, rfl, ?_, ?_, Or.inr ?_⟩
  · intro l hl
    simp only [sampleDoc, List.mem_singleton] at hl
    subst hl
    refine ⟨?_, by simp⟩
    intro it hi
    simp only [Option.some.injEq] at hi
    subst hi
    intro _
    exact Nat.le_refl _
  · intro r hr
    simp [sampleDoc] at hr
  · intro x hx
    simp only [sampleDoc, List.append_nil, List.mem_singleton] at hx
    subst hx
    rintro ⟨h, _⟩
    exact absurd (h _ rfl) (by decide)

/-- … total with tax 25.66 before; the removal leaves no residue here: payable 25.66, no rounding -/
example : ((calculate exactOps sampleDoc).toOption.bind (·.totals)).map (·.totalWithTax) = some ⟨2566, 2⟩ ∧
    removalView (removeIncludedDoc exactOps sampleDoc) = some (⟨2566, 2⟩, none, ⟨2566, 2⟩) := by decide

/-- 100 × 1.00 with 21 % VAT included, and (optionally) a fixed document charge of 0.01 carrying the
same tax -/
def residueDoc (r : Rule) (withCharge : Bool) : Doc :=
  let vat : Combo := { cat := "VAT", country := "", key := "", percent := some ⟨⟨21, 2⟩⟩, surcharge := none, ext := "", retained := false }
  { cur := "EUR", c := 2, rule := r, includes := some "VAT",
    lines := [{ qty := ⟨100, 0⟩, item := some { price := some ⟨100, 2⟩, cur := "", sub := 2, alts := [] },
                discounts := [], charges := [], breakdown := [], taxes := [vat] }],
    discounts := [],
    charges := if withCharge then [{ percent := none, base := none, amount := ⟨1, 2⟩, taxes := [vat] }] else [],
    rates := [], rounding := none, hasPayment := false, advances := [], dues := [] }

/-- non-vacuity with a residue: 100.00 before; the net price 0.8264 × 100 plus 21 % is 99.99; the
residue 0.01 is recorded and payable is 100.00 (the document has no document rows, so `hrows` holds) -/
example : (∀ x ∈ (residueDoc .precise false).discounts ++ (residueDoc .precise false).charges, ¬ FixedIncludedRow "VAT" x) ∧
    ((calculate exactOps (residueDoc .precise false)).toOption.bind (·.totals)).map (·.totalWithTax) = some ⟨10000, 2⟩ ∧
    removalView (removeIncludedDoc exactOps (residueDoc .precise false)) = some (⟨9999, 2⟩, some ⟨1, 2⟩, ⟨10000, 2⟩) := by
  refine ⟨?_, by decide, by decide⟩
  intro x hx
  simp [residueDoc] at hx

/-- a line priced by a breakdown (2 × 10.00 and 1 × 5.005, the second with a fixed discount of
0.015), with a fixed line discount of 0.105 and 21 % VAT included -/
def breakdownDoc : Doc :=
  let vat : Combo := { cat := "VAT", country := "", key := "", percent := some ⟨⟨21, 2⟩⟩, surcharge := none, ext := "", retained := false }
  { cur := "EUR", c := 2, rule := .precise, includes := some "VAT",
    lines := [{ qty := ⟨333, 0⟩, item := some { price := none, cur := "", sub := 2, alts := [] },
                discounts := [{ percent := none, base := none, amount := ⟨105, 3⟩, rate := none, quantity := none }],
                charges := [],
                breakdown := [{ qty := ⟨2, 0⟩, item := some { price := some ⟨1000, 2⟩, cur := "", sub := 2, alts := [] },
                                discounts := [], charges := [] },
                              { qty := ⟨1, 0⟩, item := some { price := some ⟨5005, 3⟩, cur := "", sub := 2, alts := [] },
                                discounts := [{ percent := none, base := none, amount := ⟨15, 3⟩, rate := none, quantity := none }],
                                charges := [] }],
                taxes := [vat] }],
    discounts := [], charges := [], rates := [], rounding := none, hasPayment := false, advances := [], dues := [] }

/-- non-vacuity for lines with a breakdown: `breakdownDoc` meets the hypotheses of
`remove_included_payable`; 8321.57 before, 8321.59 after the removal, the residue −0.02 recorded,
payable 8321.57 -/
example : (∀ l ∈ breakdownDoc.lines, LineWF breakdownDoc.cur breakdownDoc.c l) ∧ RatesWF breakdownDoc.c breakdownDoc.rates ∧
    (∀ x ∈ breakdownDoc.discounts ++ breakdownDoc.charges, ¬ FixedIncludedRow "VAT" x) ∧
    ((calculate exactOps breakdownDoc).toOption.bind (·.totals)).map (·.totalWithTax) = some ⟨832157, 2⟩ ∧
    removalView (removeIncludedDoc exactOps breakdownDoc) = some (⟨832159, 2⟩, some ⟨-2, 2⟩, ⟨832157, 2⟩) := by
  refine ⟨?_, ?_, ?_, by decide, by decide⟩
  · intro l hl
    simp only [breakdownDoc, List.mem_singleton] at hl
    subst hl
    refine ⟨?_, ?_⟩
    · intro it hi
      simp only [Option.some.injEq] at hi
      subst hi
      intro _
      exact Nat.le_refl _
    · intro sl hsl
      simp only [List.mem_cons, List.not_mem_nil, or_false] at hsl
      rcases hsl with rfl | rfl
      · exact ⟨by simp, fun it hi => by simp only [Option.some.injEq] at hi; subst hi; intro _; exact Nat.le_refl _⟩
      · exact ⟨by simp, fun it hi => by simp only [Option.some.injEq] at hi; subst hi; intro _; exact Nat.le_refl _⟩
  · intro r hr
    simp [breakdownDoc] at hr
  · intro x hx
    simp [breakdownDoc] at hx

/-- **Nothing to remove.**  If no line, document discount or document charge carries a combo of the
included category, and the document is one whose second calculation reproduces the first
(`InputStable`: every line `LineStable` — no fixed line discount/charge amount finer than the line is
presented with, the visible exclusion of the known finding `invert-after-in-place-rounding` — or already
in the shape a calculation leaves; every fixed document discount/charge amount not finer than it is
presented with, unless the rule is `currency`; fixed advances likewise), then `RemoveIncludedTaxes`
returns exactly the calculated document: every row, every total, no rounding.  Together with
`remove_included_clears_flag`: the removal changes nothing but the flag. -/
theorem remove_included_nothing_to_remove (d : Doc) (k : String) (out : Out) (t : Totals)
    (hk : d.includes = some k) (hr : d.rounding = none) (hs : InputStable d) (hn : NothingIncluded k d)
    (h1 : calculate exactOps d = .ok out) (ht : out.totals = some t) :
    removeIncludedDoc exactOps d = .ok out :=
  removeIncludedDoc_nothing d k out t hk hr hs hn h1 ht

/-- non-vacuity: `sampleDoc` with its combos moved to IGIC while prices include VAT -/
def nothingDoc : Doc :=
  let igic : Combo := { cat := "IGIC", country := "", key := "", percent := some ⟨⟨7, 2⟩⟩, surcharge := none, ext := "", retained := false }
  { sampleDoc with lines := sampleDoc.lines.map (fun l => { l with taxes := [igic] }),
                   discounts := sampleDoc.discounts.map (fun x => { x with taxes := [igic] }) }

example : InputStable nothingDoc ∧ NothingIncluded "VAT" nothingDoc ∧
    ((calculate exactOps nothingDoc).toOption.bind (·.totals)).map (fun t => (t.totalWithTax, t.rounding, t.payable)) =
      removalView (removeIncludedDoc exactOps nothingDoc) ∧
    removalView (removeIncludedDoc exactOps nothingDoc) = some (⟨2746, 2⟩, none, ⟨2746, 2⟩) := by
  refine ⟨⟨?_, ?_, ?_⟩, ⟨?_, ?_⟩, by decide, by decide⟩
  · intro l hl
    simp only [nothingDoc, sampleDoc, List.map_cons, List.map_nil, List.mem_singleton] at hl
    subst hl
    refine Or.inl (Or.inl ⟨rfl, ?_⟩)
    refine ⟨_, rfl, by decide, Nat.le_refl _, ?_, ?_⟩
    · intro d hd
      simp only [List.mem_singleton] at hd
      subst hd
      exact Or.inl ⟨_, rfl, by decide⟩
    · intro d hd
      simp at hd
  · intro x hx
    simp only [nothingDoc, sampleDoc, List.map_cons, List.map_nil, List.append_nil, List.mem_singleton] at hx
    subst hx
    exact Or.inr (Or.inl ⟨_, rfl, by decide⟩)
  · intro a ha
    simp only [nothingDoc, sampleDoc, List.mem_singleton] at ha
    subst ha
    exact Or.inl rfl
  · intro l hl
    simp only [nothingDoc, sampleDoc, List.map_cons, List.map_nil, List.mem_singleton] at hl
    subst hl
    unfold NoCat
    decide
  · intro x hx
    simp only [nothingDoc, sampleDoc, List.map_cons, List.map_nil, List.append_nil, List.mem_singleton] at hx
    subst hx
    unfold NoCat
    decide

/-- a document whose total with tax is 0 (JPY: 1.00 gross at 50 % VAT included, and −0.5001 untaxed)
and whose unrounded total after the removal is exactly 0.5000 -/
def acrossZeroDoc : Doc :=
  { cur := "JPY", c := 0, rule := .precise, includes := some "VAT",
    lines := [{ qty := ⟨1, 0⟩, item := some { price := some ⟨100, 2⟩, cur := "", sub := 0, alts := [] },
                discounts := [], charges := [], breakdown := [],
                taxes := [{ cat := "VAT", country := "", key := "", percent := some ⟨⟨50, 2⟩⟩,
                            surcharge := none, ext := "", retained := false }] },
              { qty := ⟨1, 0⟩, item := some { price := some ⟨-5001, 4⟩, cur := "", sub := 0, alts := [] },
                discounts := [], charges := [], breakdown := [], taxes := [] }],
    discounts := [], charges := [], rates := [], rounding := none, hasPayment := false, advances := [], dues := [] }

/-- **Counter-example: the residue carried across zero** (known finding
`remove-included-residue-across-zero`, reproduced on the real code by the harness).  The document
meets every hypothesis of `remove_included_payable` except the sign condition: its total with
tax is 0; after the removal the total with tax is presented as 1 (0.5000 rounded half away from zero),
the rounding field is −1 as it should be, and `calculate` presents payable = Rescale(0.5000 − 1) = −1,
not 0: rounding half away from zero does not commute with a shift across zero. -/
theorem remove_included_residue_across_zero :
    ((calculate exactOps acrossZeroDoc).toOption.bind (·.totals)).map (·.totalWithTax) = some ⟨0, 0⟩ ∧
    removalView (removeIncludedDoc exactOps acrossZeroDoc) = some (⟨1, 0⟩, some ⟨-1, 0⟩, ⟨-1, 0⟩) := by decide

/-- **Counter-example: the fixed document row** (known finding `remove-included-fixed-document-row`;
`residueDoc … true` is a `FixedIncludedRow` document).  Under the `precise` rule: total with tax 100.01;
the first recalculation gives 100.00 and records 0.01, but it also presents the charge
0.0100 / 1.21 = 0.0083 as 0.01 in place, so the second recalculation finds 100.01 and pays 100.02.  Under
the `currency` rule (first disjunct of `hrows`) the same document keeps its 100.01. -/
theorem remove_included_fixed_row_counterexample :
    ((calculate exactOps (residueDoc .precise true)).toOption.bind (·.totals)).map (·.totalWithTax) = some ⟨10001, 2⟩ ∧
    removalView (removeIncludedDoc exactOps (residueDoc .precise true)) = some (⟨10001, 2⟩, some ⟨1, 2⟩, ⟨10002, 2⟩) ∧
    ((calculate exactOps (residueDoc .currency true)).toOption.bind (·.totals)).map (·.totalWithTax) = some ⟨10001, 2⟩ ∧
    removalView (removeIncludedDoc exactOps (residueDoc .currency true)) = some (⟨10001, 2⟩, none, ⟨10001, 2⟩) := by decide

/-! ## pinned source shapes (regenerated facts; tools/pin_calc_expect.py) -/

namespace ExpectCalc
open GoblVerif.Generated.Calc

theorem calls_Invoice_Invert_as_modelled : calls_Invoice_Invert =
    ["New", "Invert", "Invert", "Invert", "invertAmountPtr", "Invert", "invertAmountPtr", "invertAmountPtr", "Invert", "invertAmountPtr", "Invert", "invertAmountPtr", "Invert", "invertAmountPtr", "Calculate", "New", "Equals", "Errorf", "String", "String"] := rfl
theorem conds_Invoice_Invert_as_modelled : conds_Invoice_Invert =
    ["inv.Totals == nil", "inv.Payment != nil", "rnd := invertAmountPtr(inv.Totals.Rounding); rnd != nil", "err := inv.Calculate(); err != nil", "inv.Totals == nil", "!payable.Equals(inv.Totals.Payable)"] := rfl
theorem stmts_Invoice_Invert_as_modelled : stmts_Invoice_Invert =
    ["return errors.New(\"cannot invert an invoice without totals\")", "payable := inv.Totals.Payable.Invert()", "row.Quantity = row.Quantity.Invert()", "d.Amount = d.Amount.Invert()", "d.Base = invertAmountPtr(d.Base)", "c.Amount = c.Amount.Invert()", "c.Base = invertAmountPtr(c.Base)", "c.Quantity = invertAmountPtr(c.Quantity)", "row.Amount = row.Amount.Invert()", "row.Base = invertAmountPtr(row.Base)", "row.Amount = row.Amount.Invert()", "row.Base = invertAmountPtr(row.Base)", "row.Amount = row.Amount.Invert()", "rnd := invertAmountPtr(inv.Totals.Rounding)", "inv.Totals = &Totals{Rounding: rnd}", "inv.Totals = nil", "err := inv.Calculate()", "return err", "return errors.New(\"cannot invert an invoice without lines, discounts or charges\")", "return fmt.Errorf(\"inverted invoice totals do not match %s != %s\", payable.String(), inv.Totals.Payable.String())", "return nil"] := rfl
theorem calls_removeIncludedTaxes_as_modelled : calls_removeIncludedTaxes =
    ["canRemoveIncludedTaxes", "getTax", "getTotals", "calculate", "getTotals", "getTotals", "setTotals", "new", "getLines", "getLines", "removeLineIncludedTaxes", "getDiscounts", "len", "removeIncludedTaxes", "getCharges", "len", "removeIncludedTaxes", "getTax", "calculate", "getTotals", "Equals", "Subtract", "calculate"] := rfl
theorem conds_removeIncludedTaxes_as_modelled : conds_removeIncludedTaxes =
    ["!canRemoveIncludedTaxes(doc)", "doc.getTotals() == nil", "err := calculate(doc); err != nil", "doc.getTotals() == nil", "len(discounts) > 0", "len(charges) > 0", "err := calculate(doc); err != nil", "t == nil", "!totalWithTax.Equals(t.TotalWithTax)", "err := calculate(doc); err != nil"] := rfl
theorem stmts_removeIncludedTaxes_as_modelled : stmts_removeIncludedTaxes =
    ["return nil", "tpi := doc.getTax().PricesInclude", "err := calculate(doc)", "return err", "return nil", "totalWithTax := doc.getTotals().TotalWithTax", "lines := doc.getLines()", "lines[i] = removeLineIncludedTaxes(l, tpi)", "discounts := doc.getDiscounts()", "discounts[i] = l.removeIncludedTaxes(tpi)", "charges := doc.getCharges()", "charges[i] = l.removeIncludedTaxes(tpi)", "tx := doc.getTax()", "tx.PricesInclude = \"\"", "err := calculate(doc)", "return err", "t := doc.getTotals()", "return nil", "rnd := totalWithTax.Subtract(t.TotalWithTax)", "t.Rounding = &rnd", "err := calculate(doc)", "return err", "return nil"] := rfl
theorem calls_Discount_removeIncludedTaxes_as_modelled : calls_Discount_removeIncludedTaxes =
    ["Get", "Remove", "Upscale"] := rfl
theorem conds_Discount_removeIncludedTaxes_as_modelled : conds_Discount_removeIncludedTaxes =
    ["rate == nil || rate.Percent == nil"] := rfl
theorem stmts_Discount_removeIncludedTaxes_as_modelled : stmts_Discount_removeIncludedTaxes =
    ["accuracy := defaultTaxRemovalAccuracy", "rate := m.Taxes.Get(cat)", "return m", "m2 := *m", "m2.Amount = m2.Amount.Upscale(accuracy).Remove(*rate.Percent)", "return &m2"] := rfl
theorem calls_Charge_removeIncludedTaxes_as_modelled : calls_Charge_removeIncludedTaxes =
    ["Get", "Remove", "Upscale"] := rfl
theorem conds_Charge_removeIncludedTaxes_as_modelled : conds_Charge_removeIncludedTaxes =
    ["rate == nil || rate.Percent == nil"] := rfl
theorem stmts_Charge_removeIncludedTaxes_as_modelled : stmts_Charge_removeIncludedTaxes =
    ["accuracy := defaultTaxRemovalAccuracy", "rate := m.Taxes.Get(cat)", "return m", "m2 := *m", "m2.Amount = m2.Amount.Upscale(accuracy).Remove(*rate.Percent)", "return &m2"] := rfl
theorem calls_Invoice_RemoveIncludedTaxes_as_modelled : calls_Invoice_RemoveIncludedTaxes =
    ["removeIncludedTaxes"] := rfl
theorem conds_Invoice_RemoveIncludedTaxes_as_modelled : conds_Invoice_RemoveIncludedTaxes =
    [] := rfl
theorem stmts_Invoice_RemoveIncludedTaxes_as_modelled : stmts_Invoice_RemoveIncludedTaxes =
    ["return removeIncludedTaxes(inv)"] := rfl
theorem calls_canRemoveIncludedTaxes_as_modelled : calls_canRemoveIncludedTaxes =
    ["getTax", "IsEmpty", "getTax"] := rfl
theorem conds_canRemoveIncludedTaxes_as_modelled : conds_canRemoveIncludedTaxes =
    [] := rfl
theorem stmts_canRemoveIncludedTaxes_as_modelled : stmts_canRemoveIncludedTaxes =
    ["return doc.getTax() != nil && !doc.getTax().PricesInclude.IsEmpty()"] := rfl
theorem calls_removeLineIncludedTaxes_as_modelled : calls_removeLineIncludedTaxes =
    ["Get", "Remove", "Upscale", "removeSubLinesIncludedTaxes", "removeLineDiscountsIncludedTaxes", "removeLineChargesIncludedTaxes", "removeSubLinesIncludedTaxes"] := rfl
theorem conds_removeLineIncludedTaxes_as_modelled : conds_removeLineIncludedTaxes =
    ["rate == nil || rate.Percent == nil", "line.Item == nil || line.Item.Price == nil"] := rfl
theorem stmts_removeLineIncludedTaxes_as_modelled : stmts_removeLineIncludedTaxes =
    ["accuracy := defaultTaxRemovalAccuracy", "rate := line.Taxes.Get(cat)", "return line", "return line", "l2 := *line", "l2i := *line.Item", "l2i.AltPrices = nil", "price := line.Item.Price.Upscale(accuracy).Remove(*rate.Percent)", "l2i.Price = &price", "l2.Breakdown = removeSubLinesIncludedTaxes(line.Breakdown, rate, accuracy)", "l2.Discounts = removeLineDiscountsIncludedTaxes(line.Discounts, rate, accuracy)", "l2.Charges = removeLineChargesIncludedTaxes(line.Charges, rate, accuracy)", "l2.Substituted = removeSubLinesIncludedTaxes(line.Substituted, rate, accuracy)", "l2.Item = &l2i", "return &l2"] := rfl
theorem calls_removeSubLinesIncludedTaxes_as_modelled : calls_removeSubLinesIncludedTaxes =
    ["len", "make", "len", "Remove", "Upscale", "removeLineDiscountsIncludedTaxes", "removeLineChargesIncludedTaxes"] := rfl
theorem conds_removeSubLinesIncludedTaxes_as_modelled : conds_removeSubLinesIncludedTaxes =
    ["len(sls) == 0", "sl == nil || sl.Item == nil || sl.Item.Price == nil"] := rfl
theorem stmts_removeSubLinesIncludedTaxes_as_modelled : stmts_removeSubLinesIncludedTaxes =
    ["return nil", "rows := make([]*SubLine, len(sls))", "rows[i] = sl", "sl2 := *sl", "sl2i := *sl.Item", "sl2i.AltPrices = nil", "price := sl.Item.Price.Upscale(exp).Remove(*tc.Percent)", "sl2i.Price = &price", "sl2.Discounts = removeLineDiscountsIncludedTaxes(sl.Discounts, tc, exp)", "sl2.Charges = removeLineChargesIncludedTaxes(sl.Charges, tc, exp)", "sl2.Item = &sl2i", "rows[i] = &sl2", "return rows"] := rfl
theorem calls_removeLineDiscountsIncludedTaxes_as_modelled : calls_removeLineDiscountsIncludedTaxes =
    ["len", "make", "len", "Remove", "Upscale"] := rfl
theorem conds_removeLineDiscountsIncludedTaxes_as_modelled : conds_removeLineDiscountsIncludedTaxes =
    ["len(discounts) == 0"] := rfl
theorem stmts_removeLineDiscountsIncludedTaxes_as_modelled : stmts_removeLineDiscountsIncludedTaxes =
    ["return nil", "rows := make([]*LineDiscount, len(discounts))", "d := *v", "d.Amount = d.Amount.Upscale(exp).Remove(*tc.Percent)", "rows[i] = &d", "return rows"] := rfl
theorem calls_removeLineChargesIncludedTaxes_as_modelled : calls_removeLineChargesIncludedTaxes =
    ["len", "make", "len", "Remove", "Upscale"] := rfl
theorem conds_removeLineChargesIncludedTaxes_as_modelled : conds_removeLineChargesIncludedTaxes =
    ["len(charges) == 0"] := rfl
theorem stmts_removeLineChargesIncludedTaxes_as_modelled : stmts_removeLineChargesIncludedTaxes =
    ["return nil", "rows := make([]*LineCharge, len(charges))", "d := *v", "d.Amount = d.Amount.Upscale(exp).Remove(*tc.Percent)", "rows[i] = &d", "return rows"] := rfl
theorem const_defaultTaxRemovalAccuracy_as_modelled : const_defaultTaxRemovalAccuracy = toString removalAccuracy := by decide
theorem const_linePrecisionExtra_as_modelled : const_linePrecisionExtra = toString E := by decide

end ExpectCalc

end GoblVerif.Props.C17
