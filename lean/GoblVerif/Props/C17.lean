/-
  C17 — Totals are symmetric under negation and independent of line order.

  Statements about `Calc.calculate exactOps` (Model/Calc.lean).  Helper
  lemmas: Proofs/CalcNeg.lean, Proofs/CalcPerm.lean.

  Proved: rounding half away from zero is odd, hence every arithmetic
  primitive commutes with negation; `Invoice.Invert`'s sign change on a line
  (quantity, fixed amounts, explicit bases, a charge's own quantity) yields
  exactly the negated line figures; inverting twice is the identity on the
  inputs; the document sum, discount and charge totals do not depend on row
  order, and a row's own figures do not depend on the other rows.
  Whole document (Proofs/CalcInvert.lean): for a document of input lines
  (with or without breakdowns, foreign-currency items, any adjustments) the
  complete recalculation of the inverted document — lines, document discounts
  and charges, the tax summary with included-tax removal, every total, the
  advances and the presentation rounding — is the negated result.
  Order (Proofs/CalcPerm.lean, CalcGroups.lean, CalcPermTax.lean): document
  sums and every tax group's base, amount and surcharge (as amounts: value and
  precision) are independent of the order of the rows.
  So is every category amount (`category_amount_perm_invariant`).
  Not proved (metamorphic checks on the real code only): order independence
  of the tax total as a whole sum over categories, and `remove_included_payable`.
-/
import GoblVerif.Spec.C17
import GoblVerif.Generated.CalcFacts
import GoblVerif.Proofs.CalcNeg
import GoblVerif.Proofs.CalcPerm
import GoblVerif.Proofs.CalcInvert
import GoblVerif.Proofs.CalcGroups
import GoblVerif.Proofs.CalcPermTax

namespace GoblVerif.Props.C17
open GoblVerif GoblVerif.Calc

/-! ## negation -/

/-- rounding half away from zero is symmetric -/
theorem rounding_odd (n d : ℤ) (hd : 0 < d) : rha (-n) d = - rha n d := rha_neg n d hd

/-- every rounding primitive commutes with negation -/
theorem primitives_odd (a b : Amount) (e : ℕ) :
    exactOps.mul (neg a) b = neg (exactOps.mul a b) ∧
    exactOps.mul a (neg b) = neg (exactOps.mul a b) ∧
    exactOps.rescale (neg a) e = neg (exactOps.rescale a e) ∧
    (b.value ≠ 0 → exactOps.div (neg a) b = neg (exactOps.div a b)) :=
  ⟨mulX_neg_left a b, mulX_neg_right a b, rescaleX_neg a e, divX_neg_left a b⟩

/-- **invert_negates (lines)**: recalculating an inverted line gives exactly
the negated sum, total, discount and charge amounts of the original (any
rounding rule, currency, discounts/charges by percentage with or without
base, fixed, or rate × quantity). -/
theorem invert_negates_line (cur : String) (c : ℕ) (rates : List XRate) (r : Rule) (l : Line)
    (hbd : l.breakdown = []) (hs : l.sum = none) (ht : l.total = none) :
    calcLine exactOps cur c rates r (invertLine l) = (calcLine exactOps cur c rates r l).map negLineOut :=
  calcLine_invert cur c rates r l hbd hs ht

/-- sums of negated amounts are the negated sums (document sum, discount and charge totals, advances) -/
theorem invert_negates_sums (xs : List Amount) (c : ℕ) :
    (xs.map neg).foldl (accum exactOps) ⟨0, c⟩ = neg (xs.foldl (accum exactOps) ⟨0, c⟩) := by
  have := foldl_accum_neg xs ⟨0, c⟩
  simpa [neg] using this

/-- **invert_invert**: the sign change is an involution on the inputs -/
theorem invert_invert_line (l : Line) : invertLine (invertLine l) = l := by
  have hadj : ∀ d : LineAdj, invertAdj (invertAdj d) = d := by
    intro d
    cases d
    simp [invertAdj, neg_neg', Option.map_map, Function.comp_def]
  have hmap : ∀ ds : List LineAdj, (ds.map invertAdj).map invertAdj = ds := by
    intro ds
    rw [List.map_map]
    exact List.map_id'' (fun d => hadj d) ds
  cases l
  simp [invertLine, neg_neg', hmap]

/-! ## order independence -/

/-- **perm_invariant (sums)**: the document sum does not depend on the order of the lines -/
theorem sum_perm_invariant (c : ℕ) (ls ls' : List Line) (h : ls.Perm ls') :
    lineSum exactOps c ls = lineSum exactOps c ls' := by
  unfold lineSum
  exact foldl_accum_perm _ _ (h.filterMap _) _

/-- nor do the discount / charge totals depend on the order of their rows -/
theorem adjSum_perm_invariant (c : ℕ) (ds ds' : List DocAdj) (h : ds.Perm ds') :
    adjSum exactOps c ds = adjSum exactOps c ds' := by
  unfold adjSum
  have hl : ds.isEmpty = ds'.isEmpty := by
    cases ds <;> cases ds' <;> simp_all
  rw [hl]
  split
  · rfl
  · congr 1
    exact foldl_accum_perm _ _ (h.map _) _

/-- a line's own figures are computed from that line alone (`calcLines` maps
`calcLine` over the list), so reordering lines cannot change them -/
theorem lines_independent (cur : String) (c : ℕ) (rates : List XRate) (r : Rule) (ls out : List Line)
    (h : calcLines exactOps cur c rates r ls = .ok out) :
    out.length = ls.length ∧
    ∀ i (hi : i < ls.length) (ho : i < out.length), calcLine exactOps cur c rates r ls[i] = .ok out[i] := by
  induction ls generalizing out with
  | nil => simp [calcLines] at h; subst h; simp
  | cons l ls ih =>
    unfold calcLines at h
    cases h1 : calcLine exactOps cur c rates r l with
    | error e => simp [h1] at h
    | ok l' =>
      simp only [h1] at h
      cases h2 : calcLines exactOps cur c rates r ls with
      | error e => simp [h2] at h
      | ok ls' =>
        simp only [h2] at h
        injection h with h
        subst h
        obtain ⟨i1, i2⟩ := ih ls' h2
        refine ⟨by simp [i1], ?_⟩
        intro i hi ho
        cases i with
        | zero => simpa using h1
        | succ j =>
          simp only [List.getElem_cons_succ]
          exact i2 j (by simpa using hi) (by simpa using ho)

/-- **Reordering rows changes no tax group base.**  For any permutation of the taxable rows (lines,
document discounts, document charges) and any group key, the base accumulated for that key in that
category is the same; with `Props.C02.group_amount` the group's amount is a function of that base. -/
theorem group_base_perm_invariant (r : Rule) (c : ℕ) (cat : String) (k : Key) (rows rows' : List Row)
    (h : rows.Perm rows') :
    catGroupBase cat k (baseRateTotals exactOps r c rows) = catGroupBase cat k (baseRateTotals exactOps r c rows') :=
  baseRateTotals_group_perm r c cat k rows rows' h

/-- **Reordering rows changes no tax group figure.**  For any permutation of the taxable rows and any
category and group key, the group the summary holds for that key has the same base, amount and
surcharge amount — equal as amounts, value and number of decimals — and it exists for one order
exactly when it exists for the other (only the position of the groups in the list may differ). -/
theorem group_figures_perm_invariant (r : Rule) (c : ℕ) (cat : String) (k : Key) (rows rows' : List Row)
    (h : rows.Perm rows') :
    (findGroup cat k ((baseRateTotals exactOps r c rows).map (catAmounts exactOps r c))).map groupView =
      (findGroup cat k ((baseRateTotals exactOps r c rows').map (catAmounts exactOps r c))).map groupView :=
  group_view_perm r c cat k rows rows' h

/-- **Reordering rows changes no category amount**: the amount of every tax category (the sum of its
groups' amounts; 0 when the summary has no such category) is the same for every order of the rows. -/
theorem category_amount_perm_invariant (r : Rule) (c : ℕ) (cat : String) (rows rows' : List Row)
    (h : rows.Perm rows') :
    catAmountQ cat ((baseRateTotals exactOps r c rows).map (catAmounts exactOps r c)) =
      catAmountQ cat ((baseRateTotals exactOps r c rows').map (catAmounts exactOps r c)) :=
  catAmountQ_perm r c cat rows rows' h

/-- non-vacuity: two rows at 21 % and one at 10 %; putting the 10 % row first swaps the two groups and
changes none of their figures (21 %: base 300.0000, amount 63.0000; 10 %: base 50.00, amount 5.00) -/
example :
    let vat (p : ℤ) : Combo := { cat := "VAT", country := "", key := "", percent := some ⟨⟨p, 2⟩⟩, surcharge := none, ext := "", retained := false }
    let rows : List Row := [⟨⟨10000, 2⟩, [vat 21]⟩, ⟨⟨5000, 2⟩, [vat 10]⟩, ⟨⟨2000000, 4⟩, [vat 21]⟩]
    ((baseRateTotals exactOps .precise 2 rows).map (catAmounts exactOps .precise 2)).map (fun ct => ct.rates.map groupView)
      = [[(⟨3000000, 4⟩, ⟨630000, 4⟩, none), (⟨5000, 2⟩, ⟨500, 2⟩, none)]] ∧
    let rows' : List Row := [⟨⟨5000, 2⟩, [vat 10]⟩, ⟨⟨2000000, 4⟩, [vat 21]⟩, ⟨⟨10000, 2⟩, [vat 21]⟩]
    ((baseRateTotals exactOps .precise 2 rows').map (catAmounts exactOps .precise 2)).map (fun ct => ct.rates.map groupView)
      = [[(⟨5000, 2⟩, ⟨500, 2⟩, none), (⟨3000000, 4⟩, ⟨630000, 4⟩, none)]] := by
  decide

/-! ## the whole document under `Invert` -/

/-- The tax summary of negated rows is the negated summary: every group base, amount and surcharge,
every category amount, the precise sum and all presented roundings change sign; grouping, included-tax
removal and the error cases are unchanged. -/
theorem invert_negates_tax_summary (r : Rule) (c : ℕ) (includes : Option String) (rows : List Row) :
    taxTotal exactOps r c includes (rows.map negRow) = (taxTotal exactOps r c includes rows).map negTax :=
  taxTotal_neg r c includes rows

/-- **`Invert` negates the whole calculation.**  `invertDoc` is the sign change `Invoice.Invert`
applies to the inputs; `negOut` negates every computed figure (line sums and totals, line and document
discount/charge amounts and bases, advances, every tax-summary figure, every total).  Payment due
dates are compared separately because a fixed due amount keeps its sign in the code too. -/
theorem invert_negates_document (d : Doc) (h : ∀ l ∈ d.lines, PlainLine l) (hr : d.rounding = none) :
    (calculate exactOps (invertDoc d)).map Out.dropDues =
      ((calculate exactOps d).map negOut).map Out.dropDues :=
  calculate_invert d h hr

/-- `negOut` really is a sign change: applying it twice gives the result back. -/
theorem negate_totals_involutive (t : Totals) (h : t.taxes = none) : negTotals (negTotals t) = t := by
  cases t
  simp only [negTotals, Totals.mk.injEq, neg_neg', Option.map_map, true_and] at h ⊢
  have hf : (neg ∘ neg) = (id : Amount → Amount) := by funext a; exact neg_neg' a
  simp [hf, h]

/-! ## non-vacuity -/

/-- a document that meets the hypotheses of `invert_negates_document` and has taxes, a discount,
included-tax removal and an advance -/
def sampleDoc : Doc :=
  { cur := "EUR", c := 2, rule := .precise, includes := some "VAT",
    lines := [{ qty := ⟨3, 0⟩, item := some { price := some ⟨10005, 3⟩, cur := "", sub := 2, alts := [] },
                discounts := [{ percent := some ⟨⟨10, 2⟩⟩, base := none, amount := ⟨0, 0⟩, rate := none, quantity := none }],
                charges := [], breakdown := [],
                taxes := [{ cat := "VAT", country := "", key := "standard", percent := some ⟨⟨21, 2⟩⟩,
                            surcharge := none, ext := "", retained := false }] }],
    discounts := [{ percent := some ⟨⟨5, 2⟩⟩, base := none, amount := ⟨0, 0⟩,
                    taxes := [{ cat := "VAT", country := "", key := "standard", percent := some ⟨⟨21, 2⟩⟩,
                                surcharge := none, ext := "", retained := false }] }],
    charges := [], rates := [], rounding := none, hasPayment := true,
    advances := [{ percent := some ⟨⟨50, 2⟩⟩, amount := ⟨0, 0⟩ }], dues := [] }

example : (∀ l ∈ sampleDoc.lines, PlainLine l) ∧ sampleDoc.rounding = none := by
  refine ⟨?_, rfl⟩
  intro l hl
  simp only [sampleDoc, List.mem_singleton] at hl
  subst hl
  exact ⟨rfl, rfl⟩

example : ((calculate exactOps sampleDoc).toOption.bind (·.totals)).map (fun t => (t.sum, t.tax, t.payable, t.due)) =
    some (⟨2701, 2⟩, ⟨445, 2⟩, ⟨2566, 2⟩, some ⟨1283, 2⟩) := by decide

example : ((calculate exactOps (invertDoc sampleDoc)).toOption.bind (·.totals)).map (fun t => (t.sum, t.tax, t.payable, t.due)) =
    some (⟨-2701, 2⟩, ⟨-445, 2⟩, ⟨-2566, 2⟩, some ⟨-1283, 2⟩) := by decide

example : (calcLine exactOps "EUR" 2 [] .precise (invertLine
    { qty := ⟨3, 0⟩, item := some { price := some ⟨10005, 3⟩, cur := "", sub := 2, alts := [] },
      discounts := [{ percent := some ⟨⟨10, 2⟩⟩, base := none, amount := ⟨0, 0⟩, rate := none, quantity := none }],
      charges := [], breakdown := [], taxes := [] })).toOption.map (fun l => (l.sum, l.total)) =
    some (some ⟨-300150, 4⟩, some ⟨-270135, 4⟩) := by decide

/-! ## pinned source shapes (regenerated facts; tools/pin_calc_expect.py) -/

namespace ExpectCalc
open GoblVerif.Generated.Calc

theorem calls_Invoice_Invert_as_modelled : calls_Invoice_Invert =
    ["New", "Invert", "Invert", "Invert", "invertAmountPtr", "Invert", "invertAmountPtr", "invertAmountPtr", "Invert", "invertAmountPtr", "Invert", "invertAmountPtr", "Invert", "Calculate", "Equals", "Errorf", "String", "String"] := rfl
theorem conds_Invoice_Invert_as_modelled : conds_Invoice_Invert =
    ["inv.Totals == nil", "inv.Payment != nil", "err := inv.Calculate(); err != nil", "!payable.Equals(inv.Totals.Payable)"] := rfl
theorem stmts_Invoice_Invert_as_modelled : stmts_Invoice_Invert =
    ["return errors.New(\"cannot invert an invoice without totals\")", "payable := inv.Totals.Payable.Invert()", "row.Quantity = row.Quantity.Invert()", "d.Amount = d.Amount.Invert()", "d.Base = invertAmountPtr(d.Base)", "c.Amount = c.Amount.Invert()", "c.Base = invertAmountPtr(c.Base)", "c.Quantity = invertAmountPtr(c.Quantity)", "row.Amount = row.Amount.Invert()", "row.Base = invertAmountPtr(row.Base)", "row.Amount = row.Amount.Invert()", "row.Base = invertAmountPtr(row.Base)", "row.Amount = row.Amount.Invert()", "inv.Totals = nil", "err := inv.Calculate()", "return err", "return fmt.Errorf(\"inverted invoice totals do not match %s != %s\", payable.String(), inv.Totals.Payable.String())", "return nil"] := rfl
theorem calls_removeIncludedTaxes_as_modelled : calls_removeIncludedTaxes =
    ["canRemoveIncludedTaxes", "getTax", "getTotals", "calculate", "getTotals", "getTotals", "setTotals", "new", "getLines", "getLines", "removeLineIncludedTaxes", "getDiscounts", "len", "removeIncludedTaxes", "getCharges", "len", "removeIncludedTaxes", "getTax", "calculate", "getTotals", "Equals", "Subtract", "calculate"] := rfl
theorem conds_removeIncludedTaxes_as_modelled : conds_removeIncludedTaxes =
    ["!canRemoveIncludedTaxes(doc)", "doc.getTotals() == nil", "err := calculate(doc); err != nil", "doc.getTotals() == nil", "len(discounts) > 0", "len(charges) > 0", "err := calculate(doc); err != nil", "!totalWithTax.Equals(t.TotalWithTax)", "err := calculate(doc); err != nil"] := rfl
theorem stmts_removeIncludedTaxes_as_modelled : stmts_removeIncludedTaxes =
    ["return nil", "tpi := doc.getTax().PricesInclude", "err := calculate(doc)", "return err", "return nil", "totalWithTax := doc.getTotals().TotalWithTax", "lines := doc.getLines()", "lines[i] = removeLineIncludedTaxes(l, tpi)", "discounts := doc.getDiscounts()", "discounts[i] = l.removeIncludedTaxes(tpi)", "charges := doc.getCharges()", "charges[i] = l.removeIncludedTaxes(tpi)", "tx := doc.getTax()", "tx.PricesInclude = \"\"", "err := calculate(doc)", "return err", "t := doc.getTotals()", "rnd := totalWithTax.Subtract(t.TotalWithTax)", "t.Rounding = &rnd", "err := calculate(doc)", "return err", "return nil"] := rfl
theorem calls_Discount_removeIncludedTaxes_as_modelled : calls_Discount_removeIncludedTaxes =
    ["Get", "Remove", "Upscale"] := rfl
theorem conds_Discount_removeIncludedTaxes_as_modelled : conds_Discount_removeIncludedTaxes =
    ["rate == nil || rate.Percent == nil"] := rfl
theorem stmts_Discount_removeIncludedTaxes_as_modelled : stmts_Discount_removeIncludedTaxes =
    ["accuracy := defaultTaxRemovalAccuracy", "rate := m.Taxes.Get(cat)", "return m", "m2 := *m", "m2.Amount = m2.Amount.Upscale(accuracy).Remove(*rate.Percent)", "return &m2"] := rfl
theorem calls_Charge_removeIncludedTaxes_as_modelled : calls_Charge_removeIncludedTaxes =
    ["Get", "Remove", "Upscale"] := rfl
theorem conds_Charge_removeIncludedTaxes_as_modelled : conds_Charge_removeIncludedTaxes =
    ["rate == nil || rate.Percent == nil"] := rfl
theorem stmts_Charge_removeIncludedTaxes_as_modelled : stmts_Charge_removeIncludedTaxes =
    ["accuracy := defaultTaxRemovalAccuracy", "rate := m.Taxes.Get(cat)", "return m", "m2 := *m", "m2.Amount = m2.Amount.Upscale(accuracy).Remove(*rate.Percent)", "return &m2"] := rfl

end ExpectCalc

end GoblVerif.Props.C17
