/-
  C13 — Tax identity codes are accepted exactly when the national check allows;
  normalisation laws.

  Only property theorems live here (helper lemmas: Proofs/TaxId.lean).
  `XX.goValid` is the model of Go's validation of a non-empty code
  (Model/TaxId.lean: generic gate `^[A-Z0-9]+$` and the regime validator),
  `Spec.TaxId.XX.format/check` the published national rule (Spec/C13.lean).
  Every `…_valid_iff_spec` is over ALL strings.
-/
import GoblVerif.Proofs.TaxId
import GoblVerif.Proofs.TaxIdES
import GoblVerif.Proofs.TaxIdGB
import GoblVerif.Proofs.TaxIdIN
import GoblVerif.Proofs.Normalize
import GoblVerif.Proofs.Detect
import GoblVerif.Generated.TaxIdFacts
import GoblVerif.Generated.TaxIdSrc
import GoblVerif.Proofs.TaxIdSrc

namespace GoblVerif.Props.C13
open GoblVerif.TaxId GoblVerif.TaxId.Norm GoblVerif.TaxId.Detect
open GoblVerif.Spec.TaxId (digs dot num dg isDigits digitSum luhnValid luhnTotal)

/-! ## model of Go = published rule, per regime -/

theorem ae_valid_iff_spec (s : Str) :
    AE.goValid s = true ↔ (Spec.TaxId.AE.format s = true ∧ Spec.TaxId.AE.check s = true) := by
  by_cases hl : s.length = 15
  · obtain ⟨c0,c1,c2,c3,c4,c5,c6,c7,c8,c9,c10,c11,c12,c13,c14,rfl⟩ := len15 s hl
    simp [AE.goValid, AE.regime, gate, matchSeq, rep, List.replicate,
      Spec.TaxId.AE.format, Spec.TaxId.AE.check, isDigits, isAZ09, isDig, isUp]
    omega
  · have : AE.regime s = false := matchSeq_false_of_length (by simpa [rep] using hl)
    simp [AE.goValid, Spec.TaxId.AE.format, hl, this]

theorem pl_valid_iff_spec (s : Str) :
    PL.goValid s = true ↔ (Spec.TaxId.PL.format s = true ∧ Spec.TaxId.PL.check s = true) := by
  by_cases hl : s.length = 10
  · obtain ⟨c0,c1,c2,c3,c4,c5,c6,c7,c8,c9,rfl⟩ := len10 s hl
    simp [PL.goValid, PL.regime, PL.fmt, PL.validateNIPChecksum, gate, matchSeq, rep, List.replicate, allDig, wloop, PL.weights,
      Spec.TaxId.PL.format, Spec.TaxId.PL.check, isDigits, digs, dot, dg, isAZ09, isDig, isUp, PL.d19, dval, char_eq_iff_toNat]
    taxid_arith
  · have h1 : PL.fmt s = false := by
      simp only [PL.fmt, Bool.or_eq_false_iff]
      exact ⟨matchSeq_false_of_length (by simpa [rep] using hl), matchSeq_false_of_length (by simpa [rep] using hl)⟩
    simp [PL.goValid, PL.regime, Spec.TaxId.PL.format, hl, h1]

theorem gr_valid_iff_spec (s : Str) :
    GR.goValid s = true ↔ (Spec.TaxId.GR.format s = true ∧ Spec.TaxId.GR.check s = true) := by
  by_cases hl : s.length = 9
  · obtain ⟨c0,c1,c2,c3,c4,c5,c6,c7,c8,rfl⟩ := len9 s hl
    simp [GR.goValid, GR.regime, GR.fmt, GR.hasValidChecksum, GR.sumLoop, gate, allDig, matchSeq, rep, List.replicate,
      Spec.TaxId.GR.format, Spec.TaxId.GR.check, isDigits, digs, dot, dg, isAZ09, isDig, isUp, dval]
    taxid_arith
  · have : GR.fmt s = false := matchSeq_false_of_length (by simpa [rep] using hl)
    simp [GR.goValid, GR.regime, Spec.TaxId.GR.format, hl, this]

theorem ch_valid_iff_spec (s : Str) :
    CH.goValid s = true ↔ (Spec.TaxId.CH.format s = true ∧ Spec.TaxId.CH.check s = true) := by
  by_cases hl : s.length = 10
  · obtain ⟨c0,c1,c2,c3,c4,c5,c6,c7,c8,c9,rfl⟩ := len10 s hl
    simp [CH.goValid, CH.regime, CH.fmt, CH.commercialCheck, CH.multipliers, wloop, gate, matchSeq, rep, List.replicate, isCh,
      Spec.TaxId.CH.format, Spec.TaxId.CH.check, isDigits, digs, dot, dg, isAZ09, isDig, isUp, dval, char_eq_iff_toNat]
    taxid_arith
  · have : CH.fmt s = false := matchSeq_false_of_length (by simpa [rep] using hl)
    simp [CH.goValid, CH.regime, Spec.TaxId.CH.format, hl, this]

theorem at_valid_iff_spec (s : Str) :
    AT.goValid s = true ↔ (Spec.TaxId.AT.format s = true ∧ Spec.TaxId.AT.check s = true) := by
  by_cases hl : s.length = 9
  · obtain ⟨c0,c1,c2,c3,c4,c5,c6,c7,c8,rfl⟩ := len9 s hl
    simp [AT.goValid, AT.regime, AT.fmt, AT.commercialCheck, AT.multipliers, AT.loop, gate, matchSeq, rep, List.replicate, isCh,
      Spec.TaxId.AT.format, Spec.TaxId.AT.check, isDigits, digs, dg, digitSum, isAZ09, isDig, isUp, dval, char_eq_iff_toNat, at_step]
    taxid_arith
  · have : AT.fmt s = false := matchSeq_false_of_length (by simpa [rep] using hl)
    simp [AT.goValid, AT.regime, Spec.TaxId.AT.format, hl, this]

theorem pt_valid_iff_spec (s : Str) :
    PT.goValid s = true ↔ (Spec.TaxId.PT.format s = true ∧ Spec.TaxId.PT.check s = true) := by
  by_cases hl : s.length = 9
  · obtain ⟨c0,c1,c2,c3,c4,c5,c6,c7,c8,rfl⟩ := len9 s hl
    simp only [PT.goValid, PT.regime, Spec.TaxId.PT.format, List.getD_cons_zero, List.getD_cons_succ, pt_prefix_eq,
      List.take_succ_cons, List.take_zero]
    generalize PT.validPrefixes.contains [c0] = A
    generalize PT.validPrefixes.contains [c0, c1] = B
    simp [PT.sumLoop, gate, allDig, Spec.TaxId.PT.check, isDigits, digs, dot, dg, isAZ09, isDig, isUp, dval]
    cases A <;> cases B <;> simp <;> taxid_arith
  · simp [PT.goValid, PT.regime, Spec.TaxId.PT.format, hl]

theorem it_valid_iff_spec (s : Str) :
    IT.goValid s = true ↔ (Spec.TaxId.IT.format s = true ∧ Spec.TaxId.IT.check s = true) := by
  by_cases hl : s.length = 11
  · obtain ⟨c0,c1,c2,c3,c4,c5,c6,c7,c8,c9,c10,rfl⟩ := len11 s hl
    by_cases hf : Spec.TaxId.IT.format [c0,c1,c2,c3,c4,c5,c6,c7,c8,c9,c10] = true
    · simp only [hf, true_and]
      simp [Spec.TaxId.IT.format, isDigits, isDig] at hf
      simp (disch := omega) [IT.goValid, IT.regime, luhnCheckDigit, luhnLoop, gate, allDig,
        Spec.TaxId.IT.check, luhnValid, luhnTotal, digs, digitSum, isAZ09, isDig, isUp, dval, char_eq_iff_toNat,
        digitChar_mod10_toNat, luhn_dbl]
      taxid_arith
    · have hf' : Spec.TaxId.IT.format [c0,c1,c2,c3,c4,c5,c6,c7,c8,c9,c10] = false := by simpa using hf
      simp only [hf', Bool.false_eq_true, false_and, iff_false]; intro hgo
      simp [Spec.TaxId.IT.format, isDigits, isDig] at hf
      simp [IT.goValid, IT.regime, gate, allDig, isAZ09, isDig, isUp] at hgo
      omega
  · simp [IT.goValid, IT.regime, Spec.TaxId.IT.format, hl]

theorem de_valid_iff_spec (s : Str) :
    DE.goValid s = true ↔ (Spec.TaxId.DE.format s = true ∧ Spec.TaxId.DE.check s = true) := by
  by_cases hl : s.length = 9
  · by_cases hf : Spec.TaxId.DE.format s = true
    · simp only [hf, true_and]
      have hd : ∀ x ∈ s, isDig x = true := by simp [Spec.TaxId.DE.format, isDigits] at hf; exact hf.1.2
      have h8 : (s.take 8).all isDig = true := by
        rw [List.all_eq_true]; intro x hx; exact hd x (List.mem_of_mem_take hx)
      have hloop := de_loop 8 s 10 (by omega) h8
      have hr := de_fold_range (digs (s.take 8)) 10 (by omega)
      have hc : Spec.TaxId.DE.check s = (((digs (s.take 8)).foldl Spec.TaxId.DE.step 10 + dg (digs s) 9) % 10 == 1) := by
        simp [Spec.TaxId.DE.check, digs]
      simp only [DE.goValid, DE.regime, DE.validateTaxCodeChecksum, hloop, hc]
      generalize List.foldl Spec.TaxId.DE.step 10 (digs (List.take 8 s)) = p at hr
      obtain ⟨c0,c1,c2,c3,c4,c5,c6,c7,c8,rfl⟩ := len9 s hl
      simp [Spec.TaxId.DE.format, isDigits, isDig, char_eq_iff_toNat] at hf
      have h8' : atoi? [c8] = some (dval c8) := atoi_single c8 (by simp [isDig]; omega)
      simp (disch := omega) [DE.fmt, h8', gate, matchSeq, rep, List.replicate,
        digs, dg, isAZ09, isDig, isUp, dval]
      simp
      split <;> omega
    · obtain ⟨c0,c1,c2,c3,c4,c5,c6,c7,c8,rfl⟩ := len9 s hl
      have hf' : Spec.TaxId.DE.format [c0,c1,c2,c3,c4,c5,c6,c7,c8] = false := by simpa using hf
      simp only [hf', Bool.false_eq_true, false_and, iff_false]; intro hgo
      simp [Spec.TaxId.DE.format, isDigits, isDig, char_eq_iff_toNat] at hf
      simp [DE.goValid, DE.regime, DE.fmt, gate, matchSeq, rep, List.replicate, isAZ09, isDig, isUp] at hgo
      omega
  · have : DE.fmt s = false := matchSeq_false_of_length (by simpa [rep] using hl)
    simp [DE.goValid, DE.regime, Spec.TaxId.DE.format, hl, this]

theorem be_valid_iff_spec (s : Str) :
    BE.goValid s = true ↔ (Spec.TaxId.BE.format s = true ∧ Spec.TaxId.BE.check s = true) := by
  by_cases hl9 : s.length = 9
  · obtain ⟨c0,c1,c2,c3,c4,c5,c6,c7,c8,rfl⟩ := len9 s hl9
    by_cases hf : Spec.TaxId.BE.format [c0,c1,c2,c3,c4,c5,c6,c7,c8] = true
    · simp only [hf, true_and]
      simp [Spec.TaxId.BE.format, Spec.TaxId.BE.pad, isDigits, isDig, char_eq_iff_toNat] at hf
      have e1 : atoi0 ['0',c0,c1,c2,c3,c4,c5,c6] = num (digs ['0',c0,c1,c2,c3,c4,c5,c6]) :=
        atoi0_eq _ (by simp) (by simp [allDig, isDig]; omega)
      have e2 : atoi0 [c7,c8] = num (digs [c7,c8]) := atoi0_eq _ (by simp) (by simp [allDig, isDig]; omega)
      simp (disch := omega) [BE.goValid, BE.regime, BE.fmt, BE.commercialCheck, e1, e2, gate, matchSeq, rep, List.replicate, isCh,
        Spec.TaxId.BE.check, Spec.TaxId.BE.pad, digs, num, isAZ09, isDig, isUp, dval, char_eq_iff_toNat]
      taxid_arith
    · have hf' : Spec.TaxId.BE.format [c0,c1,c2,c3,c4,c5,c6,c7,c8] = false := by simpa using hf
      simp only [hf', Bool.false_eq_true, false_and, iff_false]; intro hgo
      simp [Spec.TaxId.BE.format, Spec.TaxId.BE.pad, isDigits, isDig, char_eq_iff_toNat] at hf
      simp [BE.goValid, BE.regime, BE.fmt, BE.commercialCheck, gate, matchSeq, rep, List.replicate, isCh, isAZ09, isDig, isUp, dval, char_eq_iff_toNat] at hgo
      omega
  · by_cases hl : s.length = 10
    · obtain ⟨c0,c1,c2,c3,c4,c5,c6,c7,c8,c9,rfl⟩ := len10 s hl
      by_cases hf : Spec.TaxId.BE.format [c0,c1,c2,c3,c4,c5,c6,c7,c8,c9] = true
      · simp only [hf, true_and]
        simp [Spec.TaxId.BE.format, Spec.TaxId.BE.pad, isDigits, isDig, char_eq_iff_toNat] at hf
        have e1 : atoi0 [c0,c1,c2,c3,c4,c5,c6,c7] = num (digs [c0,c1,c2,c3,c4,c5,c6,c7]) :=
          atoi0_eq _ (by simp) (by simp [allDig, isDig]; omega)
        have e2 : atoi0 [c8,c9] = num (digs [c8,c9]) := atoi0_eq _ (by simp) (by simp [allDig, isDig]; omega)
        simp (disch := omega) [BE.goValid, BE.regime, BE.fmt, BE.commercialCheck, e1, e2, gate, matchSeq, rep, List.replicate, isCh,
          Spec.TaxId.BE.check, Spec.TaxId.BE.pad, digs, num, isAZ09, isDig, isUp, dval, char_eq_iff_toNat]
        taxid_arith
      · have hf' : Spec.TaxId.BE.format [c0,c1,c2,c3,c4,c5,c6,c7,c8,c9] = false := by simpa using hf
        simp only [hf', Bool.false_eq_true, false_and, iff_false]; intro hgo
        simp [Spec.TaxId.BE.format, Spec.TaxId.BE.pad, isDigits, isDig, char_eq_iff_toNat] at hf
        simp [BE.goValid, BE.regime, BE.fmt, BE.commercialCheck, gate, matchSeq, rep, List.replicate, isCh, isAZ09, isDig, isUp, dval, char_eq_iff_toNat] at hgo
        omega
    · have h1 : BE.fmt s = false := by
        simp only [BE.fmt, Bool.or_eq_false_iff]
        exact ⟨matchSeq_false_of_length (by simpa [rep] using hl9), matchSeq_false_of_length (by simpa [rep] using hl)⟩
      have h2 : Spec.TaxId.BE.format s = false := by
        simp [Spec.TaxId.BE.format, Spec.TaxId.BE.pad, hl9, hl]
      simp [BE.goValid, BE.regime, h1, h2]

theorem co_valid_iff_spec (s : Str) :
    CO.goValid s = true ↔ (Spec.TaxId.CO.format s = true ∧ Spec.TaxId.CO.check s = true) := by
  by_cases hl9 : s.length = 9
  · obtain ⟨c0,c1,c2,c3,c4,c5,c6,c7,c8,rfl⟩ := len9 s hl9
    by_cases hf : Spec.TaxId.CO.format [c0,c1,c2,c3,c4,c5,c6,c7,c8] = true
    · simp only [hf, true_and]
      simp [Spec.TaxId.CO.format, isDigits, isDig] at hf
      have e : atoi? [c8] = some (dval c8) := atoi_single c8 (by simp [isDig]; omega)
      simp (disch := omega) [CO.goValid, CO.regime, CO.validateDigits, CO.sumLoop, CO.nitMultipliers, e, gate, allDig,
        Spec.TaxId.CO.check, Spec.TaxId.CO.primes, digs, dot, isAZ09, isDig, isUp, dval]
      try simp only [List.getElem?_cons_zero, Option.getD_some]
      taxid_arith
    · have hf' : Spec.TaxId.CO.format [c0,c1,c2,c3,c4,c5,c6,c7,c8] = false := by simpa using hf
      simp only [hf', Bool.false_eq_true, false_and, iff_false]; intro hgo
      simp [Spec.TaxId.CO.format, isDigits, isDig] at hf
      simp [CO.goValid, CO.regime, gate, allDig, isAZ09, isDig, isUp] at hgo
      omega
  · by_cases hl : s.length = 10
    · obtain ⟨c0,c1,c2,c3,c4,c5,c6,c7,c8,c9,rfl⟩ := len10 s hl
      by_cases hf : Spec.TaxId.CO.format [c0,c1,c2,c3,c4,c5,c6,c7,c8,c9] = true
      · simp only [hf, true_and]
        simp [Spec.TaxId.CO.format, isDigits, isDig] at hf
        have e : atoi? [c9] = some (dval c9) := atoi_single c9 (by simp [isDig]; omega)
        simp (disch := omega) [CO.goValid, CO.regime, CO.validateDigits, CO.sumLoop, CO.nitMultipliers, e, gate, allDig,
          Spec.TaxId.CO.check, Spec.TaxId.CO.primes, digs, dot, isAZ09, isDig, isUp, dval]
        try simp only [List.getElem?_cons_zero, Option.getD_some]
        taxid_arith
      · have hf' : Spec.TaxId.CO.format [c0,c1,c2,c3,c4,c5,c6,c7,c8,c9] = false := by simpa using hf
        simp only [hf', Bool.false_eq_true, false_and, iff_false]; intro hgo
        simp [Spec.TaxId.CO.format, isDigits, isDig] at hf
        simp [CO.goValid, CO.regime, gate, allDig, isAZ09, isDig, isUp] at hgo
        omega
    · have h1 : CO.regime s = false := by
        simp only [CO.regime]
        split
        · rfl
        · simp; omega
      simp [CO.goValid, h1, Spec.TaxId.CO.format, hl9, hl]

theorem br_valid_iff_spec (s : Str) :
    BR.goValid s = true ↔ (Spec.TaxId.BR.format s = true ∧ Spec.TaxId.BR.check s = true) := by
  by_cases hl : s.length = 14
  · obtain ⟨c0,c1,c2,c3,c4,c5,c6,c7,c8,c9,c10,c11,c12,c13,rfl⟩ := len14 s hl
    by_cases hf : Spec.TaxId.BR.format [c0,c1,c2,c3,c4,c5,c6,c7,c8,c9,c10,c11,c12,c13] = true
    · simp only [hf, true_and]
      simp [Spec.TaxId.BR.format, isDigits, isDig] at hf
      have e (c : Char) (h : 48 ≤ c.toNat ∧ c.toNat ≤ 57) : atoi? [c] = some (dval c) := atoi_single c (by simp [isDig]; omega)
      simp (disch := omega) [BR.goValid, BR.regime, BR.verifyDigit, BR.sumLoop, BR.weights1, BR.weights2, e, gate,
        Spec.TaxId.BR.check, Spec.TaxId.BR.dv, digs, dot, dg, isAZ09, isDig, isUp, dval]
      try simp only [List.getElem?_cons_zero, Option.getD_some]
      taxid_arith
    · have hf' : Spec.TaxId.BR.format [c0,c1,c2,c3,c4,c5,c6,c7,c8,c9,c10,c11,c12,c13] = false := by simpa using hf
      simp only [hf', Bool.false_eq_true, false_and, iff_false]; intro hgo
      apply hf
      simp only [BR.goValid, BR.regime, Bool.and_eq_true] at hgo
      have h2 := hgo.2
      simp only [List.length_cons, List.length_nil] at h2
      simp only [bne_self_eq_false, Bool.false_eq_true, if_false, Bool.and_eq_true] at h2
      have ha := br_verify_digits _ _ _ h2.1
      have hb := br_verify_digits _ _ _ h2.2
      simp [BR.weights1, BR.weights2] at ha hb
      simp [Spec.TaxId.BR.format, isDigits]
      simp_all
  · simp [BR.goValid, BR.regime, Spec.TaxId.BR.format, hl]

/-- the Go form of the French key, (100·n + 12) mod 97, is the published (12 + 3·(n mod 97)) mod 97 -/
theorem fr_key_formula (n : Nat) : (100 * n + 12) % 97 = (12 + 3 * (n % 97)) % 97 := by omega

theorem fr_valid_iff_spec (s : Str) :
    FR.goValid s = true ↔ (Spec.TaxId.FR.format s = true ∧ Spec.TaxId.FR.check s = true) := by
  by_cases hl : s.length = 11
  · obtain ⟨c0,c1,c2,c3,c4,c5,c6,c7,c8,c9,c10,rfl⟩ := len11 s hl
    by_cases hf : Spec.TaxId.FR.format [c0,c1,c2,c3,c4,c5,c6,c7,c8,c9,c10] = true
    · simp only [hf, true_and]
      simp [Spec.TaxId.FR.format, isDigits, isDig] at hf
      have e1 : atoi0 [c2,c3,c4,c5,c6,c7,c8,c9,c10] = num (digs [c2,c3,c4,c5,c6,c7,c8,c9,c10]) :=
        atoi0_eq _ (by simp) (by simp [allDig, isDig]; omega)
      have hs : Spec.TaxId.FR.check [c0,c1,c2,c3,c4,c5,c6,c7,c8,c9,c10] =
          (num (digs [c0,c1]) == (12 + 3 * (num (digs [c2,c3,c4,c5,c6,c7,c8,c9,c10]) % 97)) % 97) := by
        simp [Spec.TaxId.FR.check, digs]
      rw [hs]
      simp (disch := omega) [FR.goValid, FR.regime, FR.vatRe, FR.calculateVATCheckDigit, e1, gate, matchSeq, rep, List.replicate,
        isAZ09, isDig, isUp, char_eq_iff_toNat, digitChar_mod97_div10_toNat, digitChar_mod97_mod10_toNat]
      generalize num (digs [c2,c3,c4,c5,c6,c7,c8,c9,c10]) = n
      have hk : (n * 100 + 12) % 97 = (12 + 3 * (n % 97)) % 97 := by omega
      rw [hk]
      have ht : (12 + 3 * (n % 97)) % 97 < 97 := Nat.mod_lt _ (by omega)
      generalize (12 + 3 * (n % 97)) % 97 = t at ht
      simp [digs, num, dval]
      omega
    · have hf' : Spec.TaxId.FR.format [c0,c1,c2,c3,c4,c5,c6,c7,c8,c9,c10] = false := by simpa using hf
      simp only [hf', Bool.false_eq_true, false_and, iff_false]; intro hgo
      simp [Spec.TaxId.FR.format, isDigits, isDig] at hf
      simp [FR.goValid, FR.regime, FR.vatRe, gate, matchSeq, rep, List.replicate, isAZ09, isDig, isUp] at hgo
      omega
  · have : FR.vatRe s = false := matchSeq_false_of_length (by simpa [rep] using hl)
    simp [FR.goValid, FR.regime, Spec.TaxId.FR.format, hl, this]

theorem mx_valid_iff_spec (s : Str) :
    MX.goValid s = true ↔ (Spec.TaxId.MX.format s = true ∧ Spec.TaxId.MX.check s = true) := by
  by_cases hl12 : s.length = 12
  · obtain ⟨c0,c1,c2,c3,c4,c5,c6,c7,c8,c9,c10,c11,rfl⟩ := len12 s hl12
    simp [MX.goValid, MX.regime, MX.personRe, MX.companyRe, MX.letterCls, matchSeq, rep, List.replicate,
      Spec.TaxId.MX.format, Spec.TaxId.MX.check, Spec.TaxId.MX.letter, Spec.TaxId.MX.alnum, isDigits, isAZ09, and_assoc]
  · by_cases hl13 : s.length = 13
    · obtain ⟨c0,c1,c2,c3,c4,c5,c6,c7,c8,c9,c10,c11,c12,rfl⟩ := len13 s hl13
      simp [MX.goValid, MX.regime, MX.personRe, MX.companyRe, MX.letterCls, matchSeq, rep, List.replicate,
        Spec.TaxId.MX.format, Spec.TaxId.MX.check, Spec.TaxId.MX.letter, Spec.TaxId.MX.alnum, isDigits, isAZ09, and_assoc]
    · have h1 : MX.personRe s = false := matchSeq_false_of_length (by simpa [rep] using hl13)
      have h2 : MX.companyRe s = false := matchSeq_false_of_length (by simpa [rep] using hl12)
      simp [MX.goValid, MX.regime, h1, h2, Spec.TaxId.MX.format, hl12, hl13]

/-- NL: Go accepts exactly the published rule (11-test, in which a remainder of 10 has
    no check digit, or the mod-97 test) -/
theorem nl_valid_iff_spec (s : Str) :
    NL.goValid s = true ↔ (Spec.TaxId.NL.format s = true ∧ Spec.TaxId.NL.check s = true) := by
  by_cases hl : s.length = 12
  · obtain ⟨c0,c1,c2,c3,c4,c5,c6,c7,c8,c9,c10,c11,rfl⟩ := len12 s hl
    by_cases hf : Spec.TaxId.NL.format [c0,c1,c2,c3,c4,c5,c6,c7,c8,c9,c10,c11] = true
    · simp only [hf, true_and]
      simp [Spec.TaxId.NL.format, isDigits, isDig, char_eq_iff_toNat] at hf
      obtain ⟨⟨hd, h9⟩, he⟩ := hf
      have e1 : atoi? [c0,c1,c2,c3,c4,c5,c6,c7,c8] = some (num (digs [c0,c1,c2,c3,c4,c5,c6,c7,c8])) :=
        atoi?_eq _ (by simp) (by simp [allDig, isDig]; omega)
      have e2 : atoi? [c10,c11] = some (num (digs [c10,c11])) := atoi?_eq _ (by simp) (by simp [allDig, isDig]; omega)
      have hB : c9 = 'B' := by rw [char_eq_iff_toNat]; exact h9
      subst hB
      have hb : dval c0 ≤ 9 ∧ dval c1 ≤ 9 ∧ dval c2 ≤ 9 ∧ dval c3 ≤ 9 ∧ dval c4 ≤ 9 ∧ dval c5 ≤ 9 ∧ dval c6 ≤ 9 ∧
          dval c7 ≤ 9 ∧ dval c8 ≤ 9 ∧ dval c10 ≤ 9 ∧ dval c11 ≤ 9 := by simp only [dval]; omega
      have hm11 := nl_mod11Loop (dval c0) (dval c1) (dval c2) (dval c3) (dval c4) (dval c5) (dval c6) (dval c7) (dval c8) (by omega)
      have hm97 := nl_mod97Loop (dval c0) (dval c1) (dval c2) (dval c3) (dval c4) (dval c5) (dval c6) (dval c7) (dval c8) (dval c10) (dval c11) (by omega)
      have hv (c : Char) (h : 48 ≤ c.toNat ∧ c.toNat ≤ 57) : NL.mod97Val c = dval c := by simp [NL.mod97Val, isDig, dval, h]
      have hx (c : Char) (h : 48 ≤ c.toNat ∧ c.toNat ≤ 57) : Spec.TaxId.NL.expand c = [dval c] := by simp [Spec.TaxId.NL.expand, isDig, h]
      have hgate : gate [c0,c1,c2,c3,c4,c5,c6,c7,c8,'B',c10,c11] = true := by
        simp [gate, isAZ09, isDig, isUp]; omega
      simp (disch := omega) [NL.goValid, NL.regime, NL.validateDigits, e1, e2, NL.mod11, NL.checkMod97, hgate, hv,
        Spec.TaxId.NL.check, Spec.TaxId.NL.elfproef, Spec.TaxId.NL.mod97, hx, digs, dg]
      simp [NL.mod97Val, Spec.TaxId.NL.expand, isDig, digs] at hm11 hm97 ⊢
      obtain ⟨h1, h2⟩ := hm11
      rw [h1, hm97]
      generalize dot [9, 8, 7, 6, 5, 4, 3, 2] [dval c0, dval c1, dval c2, dval c3, dval c4, dval c5, dval c6, dval c7, dval c8] = D
      generalize num [2, 3, 2, 1, dval c0, dval c1, dval c2, dval c3, dval c4, dval c5, dval c6, dval c7, dval c8, 1, 1, dval c10, dval c11] = M
      generalize num [dval c0, dval c1, dval c2, dval c3, dval c4, dval c5, dval c6, dval c7, dval c8] = N at h2 ⊢
      clear h1
      split <;> omega
    · have hf' : Spec.TaxId.NL.format [c0,c1,c2,c3,c4,c5,c6,c7,c8,c9,c10,c11] = false := by simpa using hf
      simp only [hf', Bool.false_eq_true, false_and, iff_false]; intro hgo
      apply hf
      simp only [NL.goValid, NL.regime, NL.validateDigits, Bool.and_eq_true] at hgo
      obtain ⟨-, hgo⟩ := hgo
      simp only [List.length_cons, List.length_nil, bne_self_eq_false, Bool.false_eq_true, if_false] at hgo
      have h9 : c9 = 'B' := by
        by_contra hne
        simp [hne] at hgo
      subst h9
      simp at hgo
      cases ha : atoi? [c0,c1,c2,c3,c4,c5,c6,c7,c8] with
      | none => simp [ha] at hgo
      | some a =>
        cases hb : atoi? [c10,c11] with
        | none => simp [ha, hb] at hgo
        | some b =>
          have h1 : allDig [c0,c1,c2,c3,c4,c5,c6,c7,c8] = true := by
            cases hd : allDig [c0,c1,c2,c3,c4,c5,c6,c7,c8] with
            | true => rfl
            | false => simp [atoi?, hd] at ha
          have h2 : allDig [c10,c11] = true := by
            cases hd : allDig [c10,c11] with
            | true => rfl
            | false => simp [atoi?, hd] at hb
          simp [allDig] at h1 h2
          simp [Spec.TaxId.NL.format, isDigits, h1, h2]
  · simp [NL.goValid, NL.regime, Spec.TaxId.NL.format, hl]

theorem es_valid_iff_spec (s : Str) :
    ES.goValid s = true ↔ (Spec.TaxId.ES.format s = true ∧ Spec.TaxId.ES.check s = true) := by
  by_cases hl : s.length = 9
  · obtain ⟨c0,c1,c2,c3,c4,c5,c6,c7,c8,rfl⟩ := len9 s hl
    simp only [ES.goValid, ES.regime, Spec.TaxId.ES.format, Spec.TaxId.ES.check,
      ← es_f1 c0 c1 c2 c3 c4 c5 c6 c7 c8, ← es_f2 c0 c1 c2 c3 c4 c5 c6 c7 c8, ← es_f3 c0 c1 c2 c3 c4 c5 c6 c7 c8]
    by_cases hO : ES.orgRe [c0,c1,c2,c3,c4,c5,c6,c7,c8] = true
    · obtain ⟨n, f, g⟩ := es_x_org c0 c1 c2 c3 c4 c5 c6 c7 c8 hO
      simp [hO, n, f, g, es_v_org' c0 c1 c2 c3 c4 c5 c6 c7 c8 (by simp [hO])]
    · have hO' : ES.orgRe [c0,c1,c2,c3,c4,c5,c6,c7,c8] = false := by simpa using hO
      by_cases hN : ES.nationalRe [c0,c1,c2,c3,c4,c5,c6,c7,c8] = true
      · simp [hO', hN, es_g_nat c0 c1 c2 c3 c4 c5 c6 c7 c8 hN, es_v_nat c0 c1 c2 c3 c4 c5 c6 c7 c8 hN]
      · have hN' : ES.nationalRe [c0,c1,c2,c3,c4,c5,c6,c7,c8] = false := by simpa using hN
        by_cases hF : ES.foreignRe [c0,c1,c2,c3,c4,c5,c6,c7,c8] = true
        · simp [hO', hN', hF, es_g_for c0 c1 c2 c3 c4 c5 c6 c7 c8 hF, es_v_for c0 c1 c2 c3 c4 c5 c6 c7 c8 hF]
        · have hF' : ES.foreignRe [c0,c1,c2,c3,c4,c5,c6,c7,c8] = false := by simpa using hF
          by_cases hK : ES.otherRe [c0,c1,c2,c3,c4,c5,c6,c7,c8] = true
          · simp [hO', hN', hF', hK, es_g_oth c0 c1 c2 c3 c4 c5 c6 c7 c8 hK, es_v_org' c0 c1 c2 c3 c4 c5 c6 c7 c8 (by simp [hK])]
          · have hK' : ES.otherRe [c0,c1,c2,c3,c4,c5,c6,c7,c8] = false := by simpa using hK
            simp [hO', hN', hF', hK']
  · have h1 : ES.orgRe s = false := matchSeq_false_of_length (by simpa [rep] using hl)
    have h2 : ES.nationalRe s = false := matchSeq_false_of_length (by simpa [rep] using hl)
    have h3 : ES.foreignRe s = false := matchSeq_false_of_length (by simpa [rep] using hl)
    have h4 : ES.otherRe s = false := matchSeq_false_of_length (by simpa [rep] using hl)
    simp [ES.goValid, ES.regime, h1, h2, h3, h4, Spec.TaxId.ES.format, Spec.TaxId.ES.nifFormat, Spec.TaxId.ES.nieFormat,
      Spec.TaxId.ES.cifFormat, hl]

theorem gb_valid_iff_spec (s : Str) :
    GB.goValid s = true ↔ (Spec.TaxId.GB.format s = true ∧ Spec.TaxId.GB.check s = true) := by
  by_cases h9 : s.length = 9
  · obtain ⟨c0,c1,c2,c3,c4,c5,c6,c7,c8,rfl⟩ := len9 s h9
    by_cases hf : Spec.TaxId.GB.format [c0,c1,c2,c3,c4,c5,c6,c7,c8] = true
    · simp only [hf, true_and]
      simp [Spec.TaxId.GB.format, isDigits, isDig] at hf
      have eN : atoi0 [c0,c1,c2,c3,c4,c5,c6,c7,c8] = num (digs [c0,c1,c2,c3,c4,c5,c6,c7,c8]) :=
        atoi0_eq _ (by simp) (by simp [allDig, isDig]; omega)
      have eb : atoi0 ([c0,c1,c2,c3,c4,c5,c6,c7,c8].take 7) = num (digs [c0,c1,c2,c3,c4,c5,c6]) :=
        atoi0_eq _ (by simp) (by simp [allDig, isDig]; omega)
      have ec : atoi0 (([c0,c1,c2,c3,c4,c5,c6,c7,c8].drop 7).take 2) = num (digs [c7,c8]) :=
        atoi0_eq _ (by simp) (by simp [allDig, isDig]; omega)
      have hcc := gb_commercial _ _ _ _ _ eN eb rfl ec
      have hfmt : GB.fmt [c0,c1,c2,c3,c4,c5,c6,c7,c8] = true := by
        simp [GB.fmt, matchSeq, rep, List.replicate, isDig]; omega
      have hgate : gate [c0,c1,c2,c3,c4,c5,c6,c7,c8] = true := by
        simp [gate, isAZ09, isDig]; omega
      have hGD : ([c0,c1,c2,c3,c4,c5,c6,c7,c8].take 2 == ['G','D']) = false := by
        simp [char_eq_iff_toNat]; omega
      have hHA : ([c0,c1,c2,c3,c4,c5,c6,c7,c8].take 2 == ['H','A']) = false := by
        simp [char_eq_iff_toNat]; omega
      simp only [GB.goValid, GB.regime, hgate, hfmt, hGD, hHA, hcc, gbCore, Spec.TaxId.GB.check]
      simp [digs, wloop, GB.multipliers, dot]
      intros; omega
    · have hf' : Spec.TaxId.GB.format [c0,c1,c2,c3,c4,c5,c6,c7,c8] = false := by simpa using hf
      simp only [hf', Bool.false_eq_true, false_and, iff_false]; intro hgo
      simp [Spec.TaxId.GB.format, isDigits, isDig] at hf
      simp [GB.goValid, GB.regime, GB.fmt, matchSeq, rep, List.replicate, isDig, isCh] at hgo
      omega
  by_cases h12 : s.length = 12
  · obtain ⟨c0,c1,c2,c3,c4,c5,c6,c7,c8,c9,c10,c11,rfl⟩ := len12 s h12
    by_cases hf : Spec.TaxId.GB.format [c0,c1,c2,c3,c4,c5,c6,c7,c8,c9,c10,c11] = true
    · simp only [hf, true_and]
      simp [Spec.TaxId.GB.format, isDigits, isDig] at hf
      have eN : atoi0 [c0,c1,c2,c3,c4,c5,c6,c7,c8,c9,c10,c11] = num (digs [c0,c1,c2,c3,c4,c5,c6,c7,c8,c9,c10,c11]) :=
        atoi0_eq _ (by simp) (by simp [allDig, isDig]; omega)
      have eb : atoi0 ([c0,c1,c2,c3,c4,c5,c6,c7,c8,c9,c10,c11].take 7) = num (digs [c0,c1,c2,c3,c4,c5,c6]) :=
        atoi0_eq _ (by simp) (by simp [allDig, isDig]; omega)
      have ec : atoi0 (([c0,c1,c2,c3,c4,c5,c6,c7,c8,c9,c10,c11].drop 7).take 2) = num (digs [c7,c8]) :=
        atoi0_eq _ (by simp) (by simp [allDig, isDig]; omega)
      have hcc := gb_commercial _ _ _ _ _ eN eb rfl ec
      have hfmt : GB.fmt [c0,c1,c2,c3,c4,c5,c6,c7,c8,c9,c10,c11] = true := by
        simp [GB.fmt, matchSeq, rep, List.replicate, isDig]; omega
      have hgate : gate [c0,c1,c2,c3,c4,c5,c6,c7,c8,c9,c10,c11] = true := by
        simp [gate, isAZ09, isDig]; omega
      have hGD : ([c0,c1,c2,c3,c4,c5,c6,c7,c8,c9,c10,c11].take 2 == ['G','D']) = false := by
        simp [char_eq_iff_toNat]; omega
      have hHA : ([c0,c1,c2,c3,c4,c5,c6,c7,c8,c9,c10,c11].take 2 == ['H','A']) = false := by
        simp [char_eq_iff_toNat]; omega
      simp only [GB.goValid, GB.regime, hgate, hfmt, hGD, hHA, hcc, gbCore, Spec.TaxId.GB.check]
      simp [digs, wloop, GB.multipliers, dot]
      intros; omega
    · have hf' : Spec.TaxId.GB.format [c0,c1,c2,c3,c4,c5,c6,c7,c8,c9,c10,c11] = false := by simpa using hf
      simp only [hf', Bool.false_eq_true, false_and, iff_false]; intro hgo
      simp [Spec.TaxId.GB.format, isDigits, isDig] at hf
      simp [GB.goValid, GB.regime, GB.fmt, matchSeq, rep, List.replicate, isDig, isCh] at hgo
      omega
  by_cases h5 : s.length = 5
  · obtain ⟨c0,c1,c2,c3,c4,rfl⟩ := len5 s h5
    by_cases hf : Spec.TaxId.GB.format [c0,c1,c2,c3,c4] = true
    · simp only [hf, true_and]
      simp [Spec.TaxId.GB.format, isDigits] at hf
      obtain ⟨hp, d2, d3, d4⟩ := hf
      have e : atoi0 [c2,c3,c4] = num (digs [c2,c3,c4]) := atoi0_eq _ (by simp) (by simp [allDig, d2, d3, d4])
      have u2 : isAZ09 c2 = true := by simp [isAZ09, d2]
      have u3 : isAZ09 c3 = true := by simp [isAZ09, d3]
      have u4 : isAZ09 c4 = true := by simp [isAZ09, d4]
      rcases hp with ⟨rfl, rfl⟩ | ⟨rfl, rfl⟩
      · simp [GB.goValid, GB.regime, GB.fmt, gate, matchSeq, rep, List.replicate, isCh, d2, d3, d4, u2, u3, u4, e, Spec.TaxId.GB.check]
        intro _; decide
      · simp [GB.goValid, GB.regime, GB.fmt, gate, matchSeq, rep, List.replicate, isCh, d2, d3, d4, u2, u3, u4, e, Spec.TaxId.GB.check]
        intro _; decide
    · have hf' : Spec.TaxId.GB.format [c0,c1,c2,c3,c4] = false := by simpa using hf
      simp only [hf', Bool.false_eq_true, false_and, iff_false]; intro hgo
      simp [Spec.TaxId.GB.format, isDigits] at hf
      simp [GB.goValid, GB.regime, GB.fmt, matchSeq, rep, List.replicate, isCh] at hgo
      obtain ⟨_, h, _⟩ := hgo
      rcases h with ⟨a, b, d2, d3, d4⟩ | ⟨a, b, d2, d3, d4⟩ <;> simp [a, b, d2, d3, d4] at hf
  · have hfm : GB.fmt s = false := by
      simp only [GB.fmt, Bool.or_eq_false_iff]
      exact ⟨⟨⟨matchSeq_false_of_length (by simpa [rep] using h9), matchSeq_false_of_length (by simpa [rep] using h12)⟩,
        matchSeq_false_of_length (by simpa [rep] using h5)⟩, matchSeq_false_of_length (by simpa [rep] using h5)⟩
    simp [GB.goValid, GB.regime, Spec.TaxId.GB.format, h9, h12, h5, hfm]

theorem in_valid_iff_spec (s : Str) :
    IN.goValid s = true ↔ (Spec.TaxId.IN.format s = true ∧ Spec.TaxId.IN.check s = true) := by
  by_cases hl : s.length = 15
  · obtain ⟨c0,c1,c2,c3,c4,c5,c6,c7,c8,c9,c10,c11,c12,c13,c14,rfl⟩ := len15 s hl
    by_cases hf : Spec.TaxId.IN.format [c0,c1,c2,c3,c4,c5,c6,c7,c8,c9,c10,c11,c12,c13,c14] = true
    · simp only [hf, true_and]
      simp [Spec.TaxId.IN.format, isDigits] at hf
      obtain ⟨⟨⟨⟨⟨⟨⟨⟨h0, h1⟩, h2, h3, h4, h5, h6⟩, h7, h8, h9, h10⟩, h11⟩, h12⟩, h12'⟩, h13⟩, h14⟩ := hf
      have hg : gate [c0,c1,c2,c3,c4,c5,c6,c7,c8,c9,c10,c11,c12,c13,c14] = true := by
        simp [Spec.TaxId.IN.alnum] at h12 h14
        simp [gate, isAZ09, h0, h1, h2, h3, h4, h5, h6, h7, h8, h9, h10, h11, h12, h14, h13]; decide
      have hfm : IN.fmt [c0,c1,c2,c3,c4,c5,c6,c7,c8,c9,c10,c11,c12,c13,c14] = true := by
        simp [Spec.TaxId.IN.alnum] at h12 h14
        simp [IN.fmt, matchSeq, rep, List.replicate, isAZ09, isCh, h0, h1, h2, h3, h4, h5, h6, h7, h8, h9, h10, h11, h14, h13, IN.cls19AZ]
        simp [isDig, isUp, char_eq_iff_toNat] at h12 h12' ⊢
        omega
      have a0 := in_value_eq c0 (in_alnum_of_dig h0)
      have a1 := in_value_eq c1 (in_alnum_of_dig h1)
      have a2 := in_value_eq c2 (in_alnum_of_up h2)
      have a3 := in_value_eq c3 (in_alnum_of_up h3)
      have a4 := in_value_eq c4 (in_alnum_of_up h4)
      have a5 := in_value_eq c5 (in_alnum_of_up h5)
      have a6 := in_value_eq c6 (in_alnum_of_up h6)
      have a7 := in_value_eq c7 (in_alnum_of_dig h7)
      have a8 := in_value_eq c8 (in_alnum_of_dig h8)
      have a9 := in_value_eq c9 (in_alnum_of_dig h9)
      have a10 := in_value_eq c10 (in_alnum_of_dig h10)
      have a11 := in_value_eq c11 (in_alnum_of_up h11)
      have a12 := in_value_eq c12 h12
      have a13 := in_value_eq c13 (by rw [h13]; decide)
      simp only [IN.goValid, IN.regime, hg, hfm, Bool.true_and, IN.hasValidChecksum, Spec.TaxId.IN.check]
      simp [IN.loop, a0, a1, a2, a3, a4, a5, a6, a7, a8, a9, a10, a11, a12, a13, Spec.TaxId.IN.contrib]
      refine Iff.trans (in_valueToChar_iff _ (Nat.mod_lt _ (by omega)) c14 h14) ?_
      generalize Spec.TaxId.IN.value c0 = v0
      generalize Spec.TaxId.IN.value c1 = v1
      generalize Spec.TaxId.IN.value c2 = v2
      generalize Spec.TaxId.IN.value c3 = v3
      generalize Spec.TaxId.IN.value c4 = v4
      generalize Spec.TaxId.IN.value c5 = v5
      generalize Spec.TaxId.IN.value c6 = v6
      generalize Spec.TaxId.IN.value c7 = v7
      generalize Spec.TaxId.IN.value c8 = v8
      generalize Spec.TaxId.IN.value c9 = v9
      generalize Spec.TaxId.IN.value c10 = v10
      generalize Spec.TaxId.IN.value c11 = v11
      generalize Spec.TaxId.IN.value c12 = v12
      generalize Spec.TaxId.IN.value c13 = v13
      generalize Spec.TaxId.IN.value c14 = v14
      omega
    · have hf' : Spec.TaxId.IN.format [c0,c1,c2,c3,c4,c5,c6,c7,c8,c9,c10,c11,c12,c13,c14] = false := by simpa using hf
      simp only [hf', Bool.false_eq_true, false_and, iff_false]; intro hgo
      simp [Spec.TaxId.IN.format, Spec.TaxId.IN.alnum, isDigits, isDig, isUp, char_eq_iff_toNat] at hf
      simp [IN.goValid, IN.regime, IN.fmt, IN.cls19AZ, isCh, gate, matchSeq, rep, List.replicate, isAZ09, isDig, isUp, char_eq_iff_toNat] at hgo
      omega
  · have : IN.fmt s = false := matchSeq_false_of_length (by simpa [rep] using hl)
    simp [IN.goValid, IN.regime, Spec.TaxId.IN.format, hl, this]

/-! ## normalisation laws (model of tax.NormalizeIdentity and of the regime normalisers) -/

/-- normalising twice = normalising once, for every country, every list of alternative
    codes and every text (the prefix loop of `tax.NormalizeIdentity` runs until nothing is
    stripped any more; before the fix `b7cd584` this needed the hypothesis that the first
    result no longer starts with a prefix, which failed for `ESES…`, `XIGB…`) -/
theorem normalize_idem (country : Str) (alts : List Str) (code : Str) :
    normalizeIdentity country alts (normalizeIdentity country alts code) = normalizeIdentity country alts code :=
  normalizeIdentity_fixed country alts _ (normalizeIdentity_clean country alts code)
    (normalizeIdentity_stable country alts code)

/-- no country prefix is left: the result starts neither with the country nor with an alternative code -/
theorem normalize_no_prefix_left (country : Str) (alts : List Str) (code : Str) :
    (country ≠ [] → country.isPrefixOf (normalizeIdentity country alts code) = false) ∧
    (∀ a ∈ alts, a ≠ [] → a.isPrefixOf (normalizeIdentity country alts code) = false) := by
  have hs := normalizeIdentity_stable country alts code
  rw [trimPass_fixed_iff] at hs
  constructor
  · intro hne
    exact ((trimPrefix_eq_self_iff _ _).mp hs.1).resolve_left hne
  · intro a ha hne
    exact ((trimPrefix_eq_self_iff _ _).mp (hs.2 a ha)).resolve_left hne

/-- with two-letter codes (every country code is), the loop computes the specification:
    the cleaned text without its leading run of country / alternative codes -/
theorem normalize_eq_spec (country : Str) (alts : List Str) (code : Str)
    (h : ∀ p ∈ country :: alts, p.length = 2) :
    normalizeIdentity country alts code = Spec.TaxId.stripCodes (country :: alts) (stripBad (upper code)) :=
  normalizeIdentity_eq_stripCodes country alts code h

example : normalizeIdentity "ES".toList [] "ESES B-85905495".toList = "B85905495".toList ∧
    normalizeIdentity "ES".toList [] "B85905495".toList = "B85905495".toList ∧
    normalizeIdentity "GB".toList (altsOf "GB") "xi-gb 350983637".toList = "350983637".toList := by decide

/-- the result depends only on the upper-cased alphanumerics of the text -/
theorem normalize_insensitive (country : Str) (alts : List Str) (s t : Str)
    (h : stripBad (upper s) = stripBad (upper t)) :
    normalizeIdentity country alts s = normalizeIdentity country alts t := by
  unfold normalizeIdentity; rw [h]

/-- separators (any character that is not a letter or digit) do not matter -/
theorem normalize_insensitive_separator (country : Str) (alts : List Str) (a b : Str) (sep : Char)
    (hs : isAZ09 sep.toUpper = false) :
    normalizeIdentity country alts (a ++ sep :: b) = normalizeIdentity country alts (a ++ b) := by
  apply normalize_insensitive
  simp [upper, stripBad, List.filter_cons, hs]

/-- letter case does not matter -/
theorem normalize_insensitive_case (country : Str) (alts : List Str) (code : Str) :
    normalizeIdentity country alts (code.map Char.toLower) = normalizeIdentity country alts code ∧
    normalizeIdentity country alts (code.map Char.toUpper) = normalizeIdentity country alts code := by
  constructor <;> apply normalize_insensitive <;> simp [upper, toUpper_toLower, toUpper_toUpper, Function.comp_def]

/-- a leading country prefix (the country or an alternative code) does not matter, whatever
    the code begins with -/
theorem normalize_insensitive_prefix (country : Str) (alts : List Str) (p code : Str)
    (h : ∀ q ∈ country :: alts, q.length = 2) (hp : p ∈ country :: alts) (hc : p.all isAZ09 = true) :
    normalizeIdentity country alts (p ++ code) = normalizeIdentity country alts code := by
  rw [normalize_eq_spec country alts _ h, normalize_eq_spec country alts _ h]
  have h1 : stripBad (upper (p ++ code)) = p ++ stripBad (upper code) := by
    have := clean_fixed p hc
    simp only [upper, stripBad, List.map_append, List.filter_append] at this ⊢
    rw [this]
  rw [h1]
  have hl := h p hp
  match p, hl, hp with
  | [a, b], _, hp => simp [Spec.TaxId.stripCodes, hp]

/-- any number of leading country prefixes does not matter -/
theorem normalize_insensitive_prefixes (country : Str) (alts : List Str) (ps : List Str) (code : Str)
    (h : ∀ q ∈ country :: alts, q.length = 2) (hc : ∀ q ∈ country :: alts, q.all isAZ09 = true)
    (hp : ∀ p ∈ ps, p ∈ country :: alts) :
    normalizeIdentity country alts (ps.flatten ++ code) = normalizeIdentity country alts code := by
  induction ps with
  | nil => rfl
  | cons p ps ih =>
    simp only [List.flatten_cons, List.append_assoc]
    rw [normalize_insensitive_prefix country alts p _ h (hp p (by simp)) (hc p (hp p (by simp)))]
    exact ih (fun q hq => hp q (by simp [hq]))

example : normalizeIdentity "GB".toList (altsOf "GB") ("XI".toList ++ "GB".toList ++ "gd 001".toList) =
    normalizeIdentity "GB".toList (altsOf "GB") "GD001".toList := by decide

/-- normalisation never alters the digits of a code (country codes contain no digits) -/
theorem normalize_keeps_digits (country : Str) (alts : List Str) (code : Str)
    (hc : country.filter isDig = []) (ha : ∀ a ∈ alts, a.filter isDig = []) :
    (normalizeIdentity country alts code).filter isDig = code.filter isDig :=
  filter_isDig_normalizeIdentity country alts code hc ha

/-- MX: the RFC normaliser is idempotent on every text -/
theorem mx_normalize_idem (s : Str) : mxNormalize (mxNormalize s) = mxNormalize s := mxNormalize_idem s

/-- CH: idempotent on every text (the suffix pattern `(MWST|TVA|IVA)+$` removes the whole run of
    suffixes; before the fix `5cc7da9` one suffix per pass was removed) -/
theorem ch_normalize_idem (country code : Str) :
    let r := (normalize "CH" country code).2
    (normalize "CH" country r).2 = r := by
  intro r
  have hr : r = chStripSuffix (normalizeIdentity country [] code) := rfl
  have hc : r.all isAZ09 = true := hr ▸ chStripSuffix_clean _ (normalizeIdentity_clean _ _ _)
  show chStripSuffix (normalizeIdentity country [] r) = r
  have hs := normalizeIdentity_stable country [] code
  rw [trimPass_fixed_iff] at hs
  have hfix : trimPass country [] r = r := by
    rw [trimPass_fixed_iff]
    exact ⟨trimPrefix_fixed_of_prefix country r _ (hr ▸ chStripSuffix_prefix _) hs.1, by simp⟩
  rw [normalizeIdentity_fixed country [] r hc hfix, hr, chStripSuffix_idem]

/-- CH: what is removed behind the number is a sequence of VAT suffixes, and the result ends with none -/
theorem ch_normalize_spec (country code : Str) :
    let r := (normalize "CH" country code).2
    (∃ parts : List Str, (∀ x ∈ parts, x ∈ Spec.TaxId.chSuffixes) ∧
      normalizeIdentity country [] code = r ++ parts.flatten) ∧
    (∀ x ∈ Spec.TaxId.chSuffixes, Spec.TaxId.endsWith x r = false) := by
  intro r
  have hr : r = chStripSuffix (normalizeIdentity country [] code) := rfl
  constructor
  · obtain ⟨t, h1, h2⟩ := chStripSuffix_split (normalizeIdentity country [] code)
    obtain ⟨parts, hp, rfl⟩ := chSuffixStar_parts t h2
    exact ⟨parts, hp, hr ▸ h1⟩
  · intro x hx
    rw [hr]; exact chStripSuffix_no_suffix _ x hx

example : (normalize "CH" "CH".toList "CHE-284.156.502 MWST TVA".toList).2 = "E284156502".toList ∧
    (normalize "CH" "CH".toList "che284156502ivatvamwst".toList).2 = "E284156502".toList ∧
    (normalize "CH" "CH".toList "E284156502MWS".toList).2 = "E284156502MWS".toList := by decide

/-- FR: idempotent for every country code without digits (a SIREN that was extended to a VAT
    number is 11 digits long and is left alone) -/
theorem fr_normalize_idem (country code : Str) (hcd : country.filter isDig = []) :
    let r := (normalize "FR" country code).2
    (normalize "FR" country r).2 = r := by
  intro r
  by_cases he : code.isEmpty = true
  · have : r = code := by simp [r, normalize, he]
    have hnil : code = [] := by simpa using he
    subst hnil; rw [this]; simp [normalize]
  · have hr : r = frExtend (normalizeIdentity country [] code) := by simp [r, normalize, he]
    have hc : r.all isAZ09 = true := hr ▸ frExtend_clean _ (normalizeIdentity_clean _ _ _)
    show (if r.isEmpty then r else frExtend (normalizeIdentity country [] r)) = r
    have hs := normalizeIdentity_stable country [] code
    rw [trimPass_fixed_iff] at hs
    have hfix : trimPass country [] r = r := by
      rw [trimPass_fixed_iff]
      refine ⟨?_, by simp⟩
      rw [hr]
      generalize normalizeIdentity country [] code = m at hs
      unfold frExtend
      split
      · split
        · -- the result begins with a digit, the country code does not
          rw [trimPrefix_eq_self_iff]
          cases country with
          | nil => exact Or.inl rfl
          | cons c cs =>
            right
            have hcn : isDig c = false := by
              cases hd : isDig c with
              | false => rfl
              | true => simp [hd] at hcd
            have hk : isDig (digitChar ((atoi0 m * 100 + 12) % 97 / 10)) = true := by
              simp [isDig, digitChar_toNat _ (show (atoi0 m * 100 + 12) % 97 / 10 ≤ 9 by omega)]
              omega
            simp only [FR.calculateVATCheckDigit, List.cons_append, List.isPrefixOf]
            cases hcc : c == digitChar ((atoi0 m * 100 + 12) % 97 / 10) with
            | false => simp
            | true =>
              have : c = digitChar ((atoi0 m * 100 + 12) % 97 / 10) := by simpa using hcc
              rw [this, hk] at hcn; exact absurd hcn (by simp)
        · exact hs.1
      · exact hs.1
    rw [normalizeIdentity_fixed country [] r hc hfix]
    split
    · rfl
    · -- frExtend r = r
      rw [hr]
      generalize normalizeIdentity country [] code = m
      unfold frExtend
      split
      · rename_i hl
        split
        · rename_i hv
          have h11 : (FR.calculateVATCheckDigit m ++ m).length = 11 := by
            simp [(vatCheck_clean m).2] at hl ⊢; omega
          simp [h11]
        · simp [hl, *]
      · simp [*]

/-- GR/EL: the result does not depend on which of the two country codes the identity was
    written with (nor on any other text in the country field): the country is set to `EL`
    before the code is cleaned (library fix `d935db9`) -/
theorem el_normalize_any_country (country code : Str) :
    normalize "EL" country code = normalize "EL" ['E','L'] code := rfl

/-- GR/EL: idempotent, country and code, from every country code (`GR`, `EL`) and every text.
    Before the fix `d935db9` this held from the tax country code `EL` only: under the ISO code
    `GR` the prefix `EL` survived the first pass and was removed by the second
    (was known finding normalize-rewritten-country-prefix) -/
theorem el_normalize_idem (country code : Str) :
    let r := normalize "EL" country code
    normalize "EL" r.1 r.2 = r := by
  intro r
  show (['E','L'], normalizeIdentity ['E','L'] (altsOf "EL") (normalizeIdentity ['E','L'] (altsOf "EL") code)) = r
  rw [normalize_idem]; rfl

/-- GR/EL: the country becomes `EL` and the code is the cleaned text without its leading run
    of `EL` / `GR` codes, whichever country code the identity was written with -/
theorem el_normalize_spec (country code : Str) :
    normalize "EL" country code =
      (['E','L'], Spec.TaxId.stripCodes [['E','L'], ['G','R']] (stripBad (upper code))) := by
  show (['E','L'], normalizeIdentity ['E','L'] (altsOf "EL") code) = _
  rw [normalize_eq_spec ['E','L'] (altsOf "EL") code (by simp [altsOf])]
  rfl

/-- GR/EL: the result begins with neither `EL` nor `GR` -/
theorem el_normalize_no_prefix_left (country code : Str) :
    ['E','L'].isPrefixOf (normalize "EL" country code).2 = false ∧
    ['G','R'].isPrefixOf (normalize "EL" country code).2 = false := by
  have h := normalize_no_prefix_left ['E','L'] (altsOf "EL") code
  exact ⟨h.1 (by simp), h.2 ['G','R'] (by simp [altsOf]) (by simp)⟩

/-- GR/EL: any number of leading `EL` / `GR` prefixes does not matter, for both country codes -/
theorem el_normalize_insensitive_prefixes (country : Str) (ps : List Str) (code : Str)
    (hp : ∀ p ∈ ps, p = ['E','L'] ∨ p = ['G','R']) :
    normalize "EL" country (ps.flatten ++ code) = normalize "EL" country code := by
  show (['E','L'], normalizeIdentity ['E','L'] (altsOf "EL") (ps.flatten ++ code)) =
    (['E','L'], normalizeIdentity ['E','L'] (altsOf "EL") code)
  rw [normalize_insensitive_prefixes ['E','L'] (altsOf "EL") ps code (by simp [altsOf])
    (by simp [altsOf, isAZ09, isUp, isDig]) (fun p h => by simpa [altsOf] using hp p h)]

example : normalize "EL" "GR".toList ("EL".toList ++ "GR".toList ++ "925667500".toList) =
    normalize "EL" "GR".toList "925667500".toList ∧
    (normalize "EL" "GR".toList "925667500".toList).2 = "925667500".toList := by decide

/-- every regime normaliser keeps the digits of the code: the digits of the
    input are the digits of the output (FR: a suffix of them, the two key
    digits may be prepended to a SIREN) -/
theorem normalize_keeps_digits_regime (cc : String) (country code : Str) (hc : country.filter isDig = []) :
    Spec.TaxId.keepsDigitsSuffix code (normalize cc country code).2 = true ∧
    (cc ≠ "FR" → Spec.TaxId.keepsDigits code (normalize cc country code).2 = true) := by
  have gen (alts : List Str) (ha : ∀ a ∈ alts, a.filter isDig = []) :
      (normalizeIdentity country alts code).filter isDig = code.filter isDig :=
    filter_isDig_normalizeIdentity country alts code hc ha
  unfold normalize
  simp only [Bool.not_true, Bool.false_eq_true, if_false]
  split
  · have := keepsDigits_of_eq code _ (filter_isDig_mxNormalize code); exact ⟨this.2, fun _ => this.1⟩
  · have := keepsDigits_of_eq code _ ((filter_isDig_chStripSuffix _).trans (gen [] (by simp))); exact ⟨this.2, fun _ => this.1⟩
  · refine ⟨?_, fun h => absurd rfl h⟩
    simp only []
    split
    · simp [Spec.TaxId.keepsDigitsSuffix]
    · simp only [frExtend]
      split
      · split
        · simp only [Spec.TaxId.keepsDigitsSuffix, Spec.TaxId.digitsOf, List.filter_append, List.reverse_append, gen [] (by simp)]
          simp
        · exact (keepsDigits_of_eq code _ (gen [] (by simp))).2
      · exact (keepsDigits_of_eq code _ (gen [] (by simp))).2
  · have := keepsDigits_of_eq code _ (filter_isDig_normalizeIdentity ['E','L'] (altsOf "EL") code (by simp [isDig]) (by simp [altsOf, isDig]))
    exact ⟨this.2, fun _ => this.1⟩
  · have := keepsDigits_of_eq code _ (gen (altsOf "IN") (by simp [altsOf, isDig])); exact ⟨this.2, fun _ => this.1⟩
  · have := keepsDigits_of_eq code _ (gen (altsOf "GB") (by simp [altsOf, isDig])); exact ⟨this.2, fun _ => this.1⟩
  · have := keepsDigits_of_eq code _ (gen [] (by simp)); exact ⟨this.2, fun _ => this.1⟩

/-! ## single-character error detection (on the published rule)

`edit1 s s'`: `s'` is `s` with exactly one character replaced by a different one.
Schemes that guarantee detection: weighted mod 11 without collapsed remainders (PL, CH),
mod 97 (BE, FR, NL mod-97 test), Luhn (IT; AT is a Luhn variant), ISO 7064 MOD 11,10 (DE),
the NL 11-test.  Collapsed schemes (PT, GR, CO, BR): the exact undetected set. GB: not guaranteed. -/

theorem pl_single_digit_detected (s s' : Str) (hv : Spec.TaxId.PL.valid s = true) (he : edit1 s s') :
    Spec.TaxId.PL.valid s' = false := by
  refine detect_str Spec.TaxId.PL.valid 10 11 0 (fun _ => false) (W [6, 5, 7, 2, 3, 4, 5, 6, 7, 10]) rfl (by decide) ?_ ?_ s s' hv he
  · intro s hv
    have hl : s.length = 10 := by simp [Spec.TaxId.PL.valid, Spec.TaxId.PL.format] at hv; exact hv.1.1.1.1
    obtain ⟨c0,c1,c2,c3,c4,c5,c6,c7,c8,c9,rfl⟩ := len10 s hl
    simp [Spec.TaxId.PL.valid, Spec.TaxId.PL.format, Spec.TaxId.PL.check, isDigits, isDig, digs, dot, dg, dval] at hv
    refine ⟨rfl, ?_, ?_⟩
    · digit_positions 10
    · simp [sumF, W, digs, dval]; omega
  · intro s s' _ _ i hi; simp at hi

theorem ch_single_digit_detected (s s' : Str) (hv : Spec.TaxId.CH.valid s = true) (he : edit1 s s') :
    Spec.TaxId.CH.valid s' = false := by
  refine detect_str Spec.TaxId.CH.valid 10 11 0 (fun i => i == 0) (W [0, 5, 4, 3, 2, 7, 6, 5, 4, 1]) rfl (by decide) ?_ ?_ s s' hv he
  · intro s hv
    have hl : s.length = 10 := by simp [Spec.TaxId.CH.valid, Spec.TaxId.CH.format] at hv; exact hv.1.1.1
    obtain ⟨c0,c1,c2,c3,c4,c5,c6,c7,c8,c9,rfl⟩ := len10 s hl
    simp [Spec.TaxId.CH.valid, Spec.TaxId.CH.format, Spec.TaxId.CH.check, isDigits, isDig, digs, dot, dg, dval] at hv
    refine ⟨rfl, ?_, ?_⟩
    · digit_positions 10
    · simp [sumF, W, digs, dval]
      obtain ⟨hf, hne, hc⟩ := hv
      split at hc <;> omega
  · intro s s' hv hv' i hi
    have hi0 : i = 0 := by simpa using hi
    subst hi0
    simp [Spec.TaxId.CH.valid, Spec.TaxId.CH.format] at hv hv'
    have h1 := hv.1.1.2; have h2 := hv'.1.1.2
    cases s <;> cases s' <;> simp_all

theorem at_single_digit_detected (s s' : Str) (hv : Spec.TaxId.AT.valid s = true) (he : edit1 s s') :
    Spec.TaxId.AT.valid s' = false := by
  refine detect_str Spec.TaxId.AT.valid 9 10 4 (fun i => i == 0) [fun _ => 0, id, dbl, id, dbl, id, dbl, id, id] rfl (by decide) ?_ ?_ s s' hv he
  · intro s hv
    have hl : s.length = 9 := by simp [Spec.TaxId.AT.valid, Spec.TaxId.AT.format] at hv; exact hv.1.1.1
    obtain ⟨c0,c1,c2,c3,c4,c5,c6,c7,c8,rfl⟩ := len9 s hl
    simp [Spec.TaxId.AT.valid, Spec.TaxId.AT.format, Spec.TaxId.AT.check, isDigits, isDig, digs, dg, dval, digitSum] at hv
    refine ⟨rfl, ?_, ?_⟩
    · digit_positions 9
    · simp [sumF, digs, dval, dbl, digitSum]; omega
  · intro s s' hv hv' i hi
    have hi0 : i = 0 := by simpa using hi
    subst hi0
    simp [Spec.TaxId.AT.valid, Spec.TaxId.AT.format] at hv hv'
    have h1 := hv.1.1.2; have h2 := hv'.1.1.2
    cases s <;> cases s' <;> simp_all

theorem it_single_digit_detected (s s' : Str) (hv : Spec.TaxId.IT.valid s = true) (he : edit1 s s') :
    Spec.TaxId.IT.valid s' = false := by
  refine detect_str Spec.TaxId.IT.valid 11 10 0 (fun _ => false) [id, dbl, id, dbl, id, dbl, id, dbl, id, dbl, id] rfl (by decide) ?_ ?_ s s' hv he
  · intro s hv
    have hl : s.length = 11 := by simp [Spec.TaxId.IT.valid, Spec.TaxId.IT.format] at hv; exact hv.1.1
    obtain ⟨c0,c1,c2,c3,c4,c5,c6,c7,c8,c9,c10,rfl⟩ := len11 s hl
    simp [Spec.TaxId.IT.valid, Spec.TaxId.IT.format, Spec.TaxId.IT.check, luhnValid, luhnTotal, isDigits, isDig, digs, dval, digitSum] at hv
    refine ⟨rfl, ?_, ?_⟩
    · digit_positions 11
    · simp [sumF, digs, dval, dbl, digitSum]; omega
  · intro s s' _ _ i hi; simp at hi

theorem fr_single_digit_detected (s s' : Str) (hv : Spec.TaxId.FR.valid s = true) (he : edit1 s s') :
    Spec.TaxId.FR.valid s' = false := by
  refine detect_str Spec.TaxId.FR.valid 11 97 12 (fun _ => false)
    (W [960, 96, 300000000, 30000000, 3000000, 300000, 30000, 3000, 300, 30, 3]) rfl (by decide) ?_ ?_ s s' hv he
  · intro s hv
    have hl : s.length = 11 := by simp [Spec.TaxId.FR.valid, Spec.TaxId.FR.format] at hv; exact hv.1.1
    obtain ⟨c0,c1,c2,c3,c4,c5,c6,c7,c8,c9,c10,rfl⟩ := len11 s hl
    simp [Spec.TaxId.FR.valid, Spec.TaxId.FR.format, Spec.TaxId.FR.check, isDigits, isDig, digs, num, dval] at hv
    refine ⟨rfl, ?_, ?_⟩
    · digit_positions 11
    · simp [sumF, W, digs, dval]; omega
  · intro s s' _ _ i hi; simp at hi

theorem be_single_digit_detected (s s' : Str) (hv : Spec.TaxId.BE.valid s = true) (he : edit1 s s') :
    Spec.TaxId.BE.valid s' = false := by
  have hlen := edit1_length he
  by_cases hl9 : s.length = 9
  · -- 9-digit form
    refine detect_str (fun s => Spec.TaxId.BE.valid s && s.length == 9) 9 97 0 (fun _ => false)
      (W [1000000, 100000, 10000, 1000, 100, 10, 1, 10, 1]) rfl (by decide) ?_ ?_ s s' (by simp [hv, hl9]) he |> fun h => ?_
    · simpa [hlen, hl9] using h
    · intro s hv
      simp only [Bool.and_eq_true, beq_iff_eq] at hv
      obtain ⟨hv, hl⟩ := hv
      obtain ⟨c0,c1,c2,c3,c4,c5,c6,c7,c8,rfl⟩ := len9 s hl
      simp [Spec.TaxId.BE.valid, Spec.TaxId.BE.format, Spec.TaxId.BE.check, Spec.TaxId.BE.pad, isDigits, isDig, digs, num, dval] at hv
      refine ⟨rfl, ?_, ?_⟩
      · digit_positions 9
      · simp [sumF, W, digs, dval]; omega
    · intro s s' _ _ i hi; simp at hi
  · have hl10 : s.length = 10 := by
      simp [Spec.TaxId.BE.valid, Spec.TaxId.BE.format, Spec.TaxId.BE.pad] at hv
      have := hv.1.1.1.1
      split at this <;> simp_all
    refine detect_str (fun s => Spec.TaxId.BE.valid s && s.length == 10) 10 97 0 (fun i => i == 0)
      (W [0, 1000000, 100000, 10000, 1000, 100, 10, 1, 10, 1]) rfl (by decide) ?_ ?_ s s' (by simp [hv, hl10]) he |> fun h => ?_
    · simpa [hlen, hl10] using h
    · intro s hv
      simp only [Bool.and_eq_true, beq_iff_eq] at hv
      obtain ⟨hv, hl⟩ := hv
      obtain ⟨c0,c1,c2,c3,c4,c5,c6,c7,c8,c9,rfl⟩ := len10 s hl
      simp [Spec.TaxId.BE.valid, Spec.TaxId.BE.format, Spec.TaxId.BE.check, Spec.TaxId.BE.pad, isDigits, isDig, digs, num, dval, char_eq_iff_toNat] at hv
      refine ⟨rfl, ?_, ?_⟩
      · digit_positions 10
      · simp [sumF, W, digs, dval]; omega
    · intro s s' hv hv' i hi
      have hi0 : i = 0 := by simpa using hi
      subst hi0
      simp only [Bool.and_eq_true, beq_iff_eq] at hv hv'
      obtain ⟨hv, hl⟩ := hv
      obtain ⟨hv', hl'⟩ := hv'
      obtain ⟨c0,c1,c2,c3,c4,c5,c6,c7,c8,c9,rfl⟩ := len10 s hl
      obtain ⟨e0,e1,e2,e3,e4,e5,e6,e7,e8,e9,rfl⟩ := len10 s' hl'
      simp [Spec.TaxId.BE.valid, Spec.TaxId.BE.format, Spec.TaxId.BE.pad] at hv hv'
      simp [hv.1.1.2, hv'.1.1.2]

/-- NL, the published 11-test alone (on the 9-digit number) detects every single-digit error -/
theorem nl_elfproef_single_digit_detected (s s' : Str)
    (hv : (s.length == 9 && isDigits s && Spec.TaxId.NL.elfproef (digs s)) = true) (he : edit1 s s') :
    (s'.length == 9 && isDigits s' && Spec.TaxId.NL.elfproef (digs s')) = false := by
  refine detect_str (fun s => s.length == 9 && isDigits s && Spec.TaxId.NL.elfproef (digs s)) 9 11 0 (fun _ => false)
    (W [9, 8, 7, 6, 5, 4, 3, 2, 10]) rfl (by decide) ?_ ?_ s s' hv he
  · intro s hv
    have hl : s.length = 9 := by simp at hv; exact hv.1.1
    obtain ⟨c0,c1,c2,c3,c4,c5,c6,c7,c8,rfl⟩ := len9 s hl
    simp [Spec.TaxId.NL.elfproef, isDigits, isDig, digs, dot, dg, dval] at hv
    refine ⟨rfl, ?_, ?_⟩
    · digit_positions 9
    · simp [sumF, W, digs, dval]; omega
  · intro s s' _ _ i hi; simp at hi

/-- NL, the mod-97 test alone detects every single-character error -/
theorem nl_mod97_single_digit_detected (s s' : Str)
    (hv : (Spec.TaxId.NL.format s && Spec.TaxId.NL.mod97 s) = true) (he : edit1 s s') :
    (Spec.TaxId.NL.format s' && Spec.TaxId.NL.mod97 s') = false := by
  refine detect_str (fun s => Spec.TaxId.NL.format s && Spec.TaxId.NL.mod97 s) 12 97 (2321 * 10 ^ 13 + 1099) (fun i => i == 9)
    (W [1000000000000, 100000000000, 10000000000, 1000000000, 100000000, 10000000, 1000000, 100000, 10000, 0, 10, 1])
    rfl (by decide) ?_ ?_ s s' hv he
  · intro s hv
    have hl : s.length = 12 := by simp [Spec.TaxId.NL.format] at hv; exact hv.1.1.1.1
    obtain ⟨c0,c1,c2,c3,c4,c5,c6,c7,c8,c9,c10,c11,rfl⟩ := len12 s hl
    simp only [Bool.and_eq_true] at hv
    obtain ⟨hf, hm⟩ := hv
    simp [Spec.TaxId.NL.format, isDigits, isDig, char_eq_iff_toNat] at hf
    obtain ⟨⟨hd, h9⟩, he⟩ := hf
    have hB : c9 = 'B' := by rw [char_eq_iff_toNat]; exact h9
    subst hB
    have hx (c : Char) (h : 48 ≤ c.toNat ∧ c.toNat ≤ 57) : Spec.TaxId.NL.expand c = [dval c] := by simp [Spec.TaxId.NL.expand, isDig, h]
    simp (disch := omega) [Spec.TaxId.NL.mod97, hx, num] at hm
    simp [Spec.TaxId.NL.expand, isDig, num, dval] at hm
    refine ⟨rfl, ?_, ?_⟩
    · digit_positions 12
    · simp [sumF, W, digs, dval]; omega
  · intro s s' hv hv' i hi
    have hi0 : i = 9 := by simpa using hi
    subst hi0
    simp [Spec.TaxId.NL.format] at hv hv'
    rw [List.getD_eq_getElem?_getD, List.getD_eq_getElem?_getD, hv.1.1.2, hv'.1.1.2]

/-- DE (ISO 7064 MOD 11,10) detects every single-character error -/
theorem de_single_digit_detected (s s' : Str) (hv : Spec.TaxId.DE.valid s = true) (he : edit1 s s') :
    Spec.TaxId.DE.valid s' = false := by
  have hl : s.length = 9 := by simp [Spec.TaxId.DE.valid, Spec.TaxId.DE.format] at hv; exact hv.1.1.1
  obtain ⟨c0,c1,c2,c3,c4,c5,c6,c7,c8,rfl⟩ := len9 s hl
  obtain ⟨i, hi, c, hc, rfl⟩ := he
  cases hv' : Spec.TaxId.DE.valid ([c0,c1,c2,c3,c4,c5,c6,c7,c8].set i c) with
  | false => rfl
  | true =>
    exfalso
    simp only [List.length_cons, List.length_nil] at hi
    have hcases : i = 0 ∨ i = 1 ∨ i = 2 ∨ i = 3 ∨ i = 4 ∨ i = 5 ∨ i = 6 ∨ i = 7 ∨ i = 8 := by omega
    simp only [Spec.TaxId.DE.valid, Spec.TaxId.DE.format, Spec.TaxId.DE.check, Bool.and_eq_true] at hv
    obtain ⟨⟨⟨_, hd⟩, _⟩, hchk⟩ := hv
    simp [isDigits, isDig] at hd
    simp [digs, dg] at hchk
    rcases hcases with rfl|rfl|rfl|rfl|rfl|rfl|rfl|rfl|rfl
    · simp only [Spec.TaxId.DE.valid, Spec.TaxId.DE.format, Spec.TaxId.DE.check, Bool.and_eq_true] at hv'
      obtain ⟨⟨⟨_, hd'⟩, _⟩, hchk'⟩ := hv'
      simp [isDigits, isDig] at hd'
      simp [digs, dg] at hchk'
      simp at hc
      have hcd : dval c < 10 := by simp only [dval]; omega
      have hne : dval c0 ≠ dval c := by
        intro h; apply hc; rw [char_eq_iff_toNat]; simp only [dval] at h; omega
      refine de_detect_list [] [dval c1, dval c2, dval c3, dval c4, dval c5, dval c6, dval c7] (dval c0) (dval c) (dval c8) ?_ (by simp only [dval]; omega) hcd hne (by simpa using hchk) (by simpa using hchk')
      intro d hd; simp at hd <;> (simp only [dval] at hd; omega)
    · simp only [Spec.TaxId.DE.valid, Spec.TaxId.DE.format, Spec.TaxId.DE.check, Bool.and_eq_true] at hv'
      obtain ⟨⟨⟨_, hd'⟩, _⟩, hchk'⟩ := hv'
      simp [isDigits, isDig] at hd'
      simp [digs, dg] at hchk'
      simp at hc
      have hcd : dval c < 10 := by simp only [dval]; omega
      have hne : dval c1 ≠ dval c := by
        intro h; apply hc; rw [char_eq_iff_toNat]; simp only [dval] at h; omega
      refine de_detect_list [dval c0] [dval c2, dval c3, dval c4, dval c5, dval c6, dval c7] (dval c1) (dval c) (dval c8) ?_ (by simp only [dval]; omega) hcd hne (by simpa using hchk) (by simpa using hchk')
      intro d hd; simp at hd <;> (simp only [dval] at hd; omega)
    · simp only [Spec.TaxId.DE.valid, Spec.TaxId.DE.format, Spec.TaxId.DE.check, Bool.and_eq_true] at hv'
      obtain ⟨⟨⟨_, hd'⟩, _⟩, hchk'⟩ := hv'
      simp [isDigits, isDig] at hd'
      simp [digs, dg] at hchk'
      simp at hc
      have hcd : dval c < 10 := by simp only [dval]; omega
      have hne : dval c2 ≠ dval c := by
        intro h; apply hc; rw [char_eq_iff_toNat]; simp only [dval] at h; omega
      refine de_detect_list [dval c0, dval c1] [dval c3, dval c4, dval c5, dval c6, dval c7] (dval c2) (dval c) (dval c8) ?_ (by simp only [dval]; omega) hcd hne (by simpa using hchk) (by simpa using hchk')
      intro d hd; simp at hd <;> (simp only [dval] at hd; omega)
    · simp only [Spec.TaxId.DE.valid, Spec.TaxId.DE.format, Spec.TaxId.DE.check, Bool.and_eq_true] at hv'
      obtain ⟨⟨⟨_, hd'⟩, _⟩, hchk'⟩ := hv'
      simp [isDigits, isDig] at hd'
      simp [digs, dg] at hchk'
      simp at hc
      have hcd : dval c < 10 := by simp only [dval]; omega
      have hne : dval c3 ≠ dval c := by
        intro h; apply hc; rw [char_eq_iff_toNat]; simp only [dval] at h; omega
      refine de_detect_list [dval c0, dval c1, dval c2] [dval c4, dval c5, dval c6, dval c7] (dval c3) (dval c) (dval c8) ?_ (by simp only [dval]; omega) hcd hne (by simpa using hchk) (by simpa using hchk')
      intro d hd; simp at hd <;> (simp only [dval] at hd; omega)
    · simp only [Spec.TaxId.DE.valid, Spec.TaxId.DE.format, Spec.TaxId.DE.check, Bool.and_eq_true] at hv'
      obtain ⟨⟨⟨_, hd'⟩, _⟩, hchk'⟩ := hv'
      simp [isDigits, isDig] at hd'
      simp [digs, dg] at hchk'
      simp at hc
      have hcd : dval c < 10 := by simp only [dval]; omega
      have hne : dval c4 ≠ dval c := by
        intro h; apply hc; rw [char_eq_iff_toNat]; simp only [dval] at h; omega
      refine de_detect_list [dval c0, dval c1, dval c2, dval c3] [dval c5, dval c6, dval c7] (dval c4) (dval c) (dval c8) ?_ (by simp only [dval]; omega) hcd hne (by simpa using hchk) (by simpa using hchk')
      intro d hd; simp at hd <;> (simp only [dval] at hd; omega)
    · simp only [Spec.TaxId.DE.valid, Spec.TaxId.DE.format, Spec.TaxId.DE.check, Bool.and_eq_true] at hv'
      obtain ⟨⟨⟨_, hd'⟩, _⟩, hchk'⟩ := hv'
      simp [isDigits, isDig] at hd'
      simp [digs, dg] at hchk'
      simp at hc
      have hcd : dval c < 10 := by simp only [dval]; omega
      have hne : dval c5 ≠ dval c := by
        intro h; apply hc; rw [char_eq_iff_toNat]; simp only [dval] at h; omega
      refine de_detect_list [dval c0, dval c1, dval c2, dval c3, dval c4] [dval c6, dval c7] (dval c5) (dval c) (dval c8) ?_ (by simp only [dval]; omega) hcd hne (by simpa using hchk) (by simpa using hchk')
      intro d hd; simp at hd <;> (simp only [dval] at hd; omega)
    · simp only [Spec.TaxId.DE.valid, Spec.TaxId.DE.format, Spec.TaxId.DE.check, Bool.and_eq_true] at hv'
      obtain ⟨⟨⟨_, hd'⟩, _⟩, hchk'⟩ := hv'
      simp [isDigits, isDig] at hd'
      simp [digs, dg] at hchk'
      simp at hc
      have hcd : dval c < 10 := by simp only [dval]; omega
      have hne : dval c6 ≠ dval c := by
        intro h; apply hc; rw [char_eq_iff_toNat]; simp only [dval] at h; omega
      refine de_detect_list [dval c0, dval c1, dval c2, dval c3, dval c4, dval c5] [dval c7] (dval c6) (dval c) (dval c8) ?_ (by simp only [dval]; omega) hcd hne (by simpa using hchk) (by simpa using hchk')
      intro d hd; simp at hd <;> (simp only [dval] at hd; omega)
    · simp only [Spec.TaxId.DE.valid, Spec.TaxId.DE.format, Spec.TaxId.DE.check, Bool.and_eq_true] at hv'
      obtain ⟨⟨⟨_, hd'⟩, _⟩, hchk'⟩ := hv'
      simp [isDigits, isDig] at hd'
      simp [digs, dg] at hchk'
      simp at hc
      have hcd : dval c < 10 := by simp only [dval]; omega
      have hne : dval c7 ≠ dval c := by
        intro h; apply hc; rw [char_eq_iff_toNat]; simp only [dval] at h; omega
      refine de_detect_list [dval c0, dval c1, dval c2, dval c3, dval c4, dval c5, dval c6] [] (dval c7) (dval c) (dval c8) ?_ (by simp only [dval]; omega) hcd hne (by simpa using hchk) (by simpa using hchk')
      intro d hd; simp at hd <;> (simp only [dval] at hd; omega)
    · simp only [Spec.TaxId.DE.valid, Spec.TaxId.DE.format, Spec.TaxId.DE.check, Bool.and_eq_true] at hv'
      obtain ⟨⟨⟨_, hd'⟩, _⟩, hchk'⟩ := hv'
      simp [isDigits, isDig] at hd'
      simp [digs, dg] at hchk'
      simp at hc
      have hcd : dval c < 10 := by simp only [dval]; omega
      have hne : dval c8 ≠ dval c := by
        intro h; apply hc; rw [char_eq_iff_toNat]; simp only [dval] at h; omega
      simp only [dval] at hchk hchk' hne hcd <;> omega

/-- PT (remainders 0 and 1 both give check digit 0): a single-character error in a valid
    NIF goes undetected only if it moves the remainder between 0 and 1 -/
theorem pt_single_digit_undetected_only_r01 (s s' : Str) (hv : Spec.TaxId.PT.valid s = true) (he : edit1 s s')
    (hv' : Spec.TaxId.PT.valid s' = true) :
    dot [9, 8, 7, 6, 5, 4, 3, 2] (digs s) % 11 < 2 ∧ dot [9, 8, 7, 6, 5, 4, 3, 2] (digs s') % 11 < 2 := by
  have key := collapsed_str Spec.TaxId.PT.valid 9 11 [9, 8, 7, 6, 5, 4, 3, 2] (fun r => if r < 2 then 0 else 11 - r) rfl (by decide) ?_ s s' hv he hv'
  · have hcol : ∀ r, r < 11 → ∀ r', r' < 11 → r ≠ r' → (if r < 2 then 0 else 11 - r) = (if r' < 2 then 0 else 11 - r') → r < 2 ∧ r' < 2 := by decide
    exact hcol _ (Nat.mod_lt _ (by omega)) _ (Nat.mod_lt _ (by omega)) key.1 key.2
  · intro s hv
    have hl : s.length = 9 := by simp [Spec.TaxId.PT.valid, Spec.TaxId.PT.format] at hv; exact hv.1.1.1
    obtain ⟨c0,c1,c2,c3,c4,c5,c6,c7,c8,rfl⟩ := len9 s hl
    simp only [Spec.TaxId.PT.valid, Spec.TaxId.PT.format, Bool.and_eq_true] at hv
    obtain ⟨⟨⟨_, hd⟩, _⟩, hk⟩ := hv
    simp [isDigits, isDig] at hd
    refine ⟨rfl, ?_, ?_⟩
    · all_digit_positions 9
    · simpa [Spec.TaxId.PT.check, dg, digs] using hk

/-- GR (remainders 0 and 10 both give check digit 0): undetected only between remainders 0 and 10 -/
theorem gr_single_digit_undetected_only_r0_10 (s s' : Str) (hv : Spec.TaxId.GR.valid s = true) (he : edit1 s s')
    (hv' : Spec.TaxId.GR.valid s' = true) :
    let r := dot [256, 128, 64, 32, 16, 8, 4, 2] (digs s) % 11
    let r' := dot [256, 128, 64, 32, 16, 8, 4, 2] (digs s') % 11
    (r = 0 ∧ r' = 10) ∨ (r = 10 ∧ r' = 0) := by
  have key := collapsed_str Spec.TaxId.GR.valid 9 11 [256, 128, 64, 32, 16, 8, 4, 2] (fun r => r % 10) rfl (by decide) ?_ s s' hv he hv'
  · have hcol : ∀ r, r < 11 → ∀ q, q < 11 → (r ≠ q ∧ r % 10 = q % 10) → ((r = 0 ∧ q = 10) ∨ (r = 10 ∧ q = 0)) := by decide
    exact hcol _ (Nat.mod_lt _ (by omega)) _ (Nat.mod_lt _ (by omega)) ⟨key.1, key.2⟩
  · intro s hv
    have hl : s.length = 9 := by simp [Spec.TaxId.GR.valid, Spec.TaxId.GR.format] at hv; exact hv.1.1
    obtain ⟨c0,c1,c2,c3,c4,c5,c6,c7,c8,rfl⟩ := len9 s hl
    simp only [Spec.TaxId.GR.valid, Spec.TaxId.GR.format, Bool.and_eq_true] at hv
    obtain ⟨⟨_, hd⟩, hk⟩ := hv
    simp [isDigits, isDig] at hd
    refine ⟨rfl, ?_, ?_⟩
    · all_digit_positions 9
    · have := hk; simp [Spec.TaxId.GR.check, dg, digs] at this; simp [digs]; omega

theorem co_collisions : ∀ r, r < 11 → ∀ q, q < 11 →
    (r ≠ q ∧ (if r < 2 then r else 11 - r) = (if q < 2 then q else 11 - q)) → ((r = 1 ∧ q = 10) ∨ (r = 10 ∧ q = 1)) := by decide

/-- CO, 9-digit NIT (remainders 1 and 10 both give check digit 1) -/
theorem co9_single_digit_undetected_only_r1_10 (s s' : Str) (hl : s.length = 9) (hv : Spec.TaxId.CO.valid s = true) (he : edit1 s s')
    (hv' : Spec.TaxId.CO.valid s' = true) :
    let r := dot [37, 29, 23, 19, 17, 13, 7, 3] (digs s) % 11
    let r' := dot [37, 29, 23, 19, 17, 13, 7, 3] (digs s') % 11
    (r = 1 ∧ r' = 10) ∨ (r = 10 ∧ r' = 1) := by
  have hl' := edit1_length he
  have key := collapsed_str (fun s => Spec.TaxId.CO.valid s && s.length == 9) 9 11 [37, 29, 23, 19, 17, 13, 7, 3]
    (fun r => if r < 2 then r else 11 - r) rfl (by decide) ?_ s s' (by simp [hv, hl]) he (by simp [hv', hl', hl])
  · exact co_collisions _ (Nat.mod_lt _ (by omega)) _ (Nat.mod_lt _ (by omega)) ⟨key.1, key.2⟩
  · intro s hv
    simp only [Bool.and_eq_true, beq_iff_eq] at hv
    obtain ⟨hv, hl⟩ := hv
    obtain ⟨c0,c1,c2,c3,c4,c5,c6,c7,c8,rfl⟩ := len9 s hl
    simp only [Spec.TaxId.CO.valid, Spec.TaxId.CO.format, Bool.and_eq_true] at hv
    obtain ⟨⟨_, hd⟩, hk⟩ := hv
    simp [isDigits, isDig] at hd
    refine ⟨rfl, ?_, ?_⟩
    · all_digit_positions 9
    · simp [Spec.TaxId.CO.check, Spec.TaxId.CO.primes, digs, dot] at hk
      simp [digs, dot]
      rw [hk]; ring_nf

/-- CO, 10-digit NIT -/
theorem co10_single_digit_undetected_only_r1_10 (s s' : Str) (hl : s.length = 10) (hv : Spec.TaxId.CO.valid s = true) (he : edit1 s s')
    (hv' : Spec.TaxId.CO.valid s' = true) :
    let r := dot [41, 37, 29, 23, 19, 17, 13, 7, 3] (digs s) % 11
    let r' := dot [41, 37, 29, 23, 19, 17, 13, 7, 3] (digs s') % 11
    (r = 1 ∧ r' = 10) ∨ (r = 10 ∧ r' = 1) := by
  have hl' := edit1_length he
  have key := collapsed_str (fun s => Spec.TaxId.CO.valid s && s.length == 10) 10 11 [41, 37, 29, 23, 19, 17, 13, 7, 3]
    (fun r => if r < 2 then r else 11 - r) rfl (by decide) ?_ s s' (by simp [hv, hl]) he (by simp [hv', hl', hl])
  · exact co_collisions _ (Nat.mod_lt _ (by omega)) _ (Nat.mod_lt _ (by omega)) ⟨key.1, key.2⟩
  · intro s hv
    simp only [Bool.and_eq_true, beq_iff_eq] at hv
    obtain ⟨hv, hl⟩ := hv
    obtain ⟨c0,c1,c2,c3,c4,c5,c6,c7,c8,c9,rfl⟩ := len10 s hl
    simp only [Spec.TaxId.CO.valid, Spec.TaxId.CO.format, Bool.and_eq_true] at hv
    obtain ⟨⟨_, hd⟩, hk⟩ := hv
    simp [isDigits, isDig] at hd
    refine ⟨rfl, ?_, ?_⟩
    · all_digit_positions 10
    · simp [Spec.TaxId.CO.check, Spec.TaxId.CO.primes, digs, dot] at hk
      simp [digs, dot]
      rw [hk]; ring_nf

/-- BR (r < 2 ↦ 0 for each of the two digits): an undetected single-digit error must move
    the second remainder between 0 and 1 -/
theorem br_single_digit_undetected_only_r01 (s s' : Str) (hv : Spec.TaxId.BR.valid s = true) (he : edit1 s s')
    (hv' : Spec.TaxId.BR.valid s' = true) :
    dot [6, 5, 4, 3, 2, 9, 8, 7, 6, 5, 4, 3, 2] (digs s) % 11 < 2 ∧ dot [6, 5, 4, 3, 2, 9, 8, 7, 6, 5, 4, 3, 2] (digs s') % 11 < 2 := by
  have key := collapsed_str Spec.TaxId.BR.valid 14 11 [6, 5, 4, 3, 2, 9, 8, 7, 6, 5, 4, 3, 2] Spec.TaxId.BR.dv rfl (by decide) ?_ s s' hv he hv'
  · have hcol : ∀ r, r < 11 → ∀ q, q < 11 → (r ≠ q ∧ Spec.TaxId.BR.dv r = Spec.TaxId.BR.dv q) → (r < 2 ∧ q < 2) := by decide
    exact hcol _ (Nat.mod_lt _ (by omega)) _ (Nat.mod_lt _ (by omega)) ⟨key.1, key.2⟩
  · intro s hv
    have hl : s.length = 14 := by simp [Spec.TaxId.BR.valid, Spec.TaxId.BR.format] at hv; exact hv.1.1
    obtain ⟨c0,c1,c2,c3,c4,c5,c6,c7,c8,c9,c10,c11,c12,c13,rfl⟩ := len14 s hl
    simp only [Spec.TaxId.BR.valid, Spec.TaxId.BR.format, Bool.and_eq_true] at hv
    obtain ⟨⟨_, hd⟩, hk⟩ := hv
    simp [isDigits, isDig] at hd
    refine ⟨rfl, ?_, ?_⟩
    · all_digit_positions 14
    · simp [Spec.TaxId.BR.check, dg, digs] at hk
      simpa [digs] using hk.2


/-! ## non-vacuity: real codes, the NL remainder-10 case, undetected pairs -/

example : AT.goValid "U12345675".toList = true ∧ BE.goValid "0428759497".toList = true ∧ BR.goValid "11222333000181".toList = true ∧
    CH.goValid "E284156502".toList = true ∧ CO.goValid "412615332".toList = true ∧ DE.goValid "111111125".toList = true := by decide
example : PL.goValid "5260001246".toList = true ∧ PT.goValid "545259045".toList = true ∧ IT.goValid "12345670785".toList = true ∧
    GR.goValid "925667500".toList = true ∧ FR.goValid "44732829320".toList = true ∧ NL.goValid "000099995B57".toList = true := by decide
example : ES.goValid "B85905495".toList = true ∧ IN.goValid "27AAPFU0939F1ZV".toList = true ∧ GB.goValid "350983637".toList = true ∧
    MX.goValid "K&A010101AB1".toList = true ∧ AE.goValid "123456789012345".toList = true := by decide
example : DE.goValid "111111126".toList = false ∧ PL.goValid "5260001247".toList = false ∧ ES.goValid "B85905496".toList = false := by decide

/-- NL: a code whose 11-test remainder is 10 (9·1 + 2·6 = 21, 21 mod 11 = 10) and whose ninth
    digit is 0 is rejected, by the published rule and by Go (it was accepted until the fix
    `nl-mod11-remainder-10`); codes with the remainders 0 and 9 are accepted; the mod-97 path
    is independent of the 11-test -/
example : NL.goValid "100000060B01".toList = false ∧ Spec.TaxId.NL.valid "100000060B01".toList = false ∧
    NL.goValid "000000000B01".toList = true ∧ NL.goValid "100000009B01".toList = true ∧
    NL.goValid "000099998B57".toList = true ∧ Spec.TaxId.NL.elfproef (digs "000099998".toList) = false := by decide

/-- GB does not guarantee single-digit detection: two valid numbers one digit apart
    (old-style and 9755-style check digits coincide) -/
example : Spec.TaxId.GB.valid "101235046".toList = true ∧ Spec.TaxId.GB.valid "161235046".toList = true := by decide
/-- PT: an undetected single-digit error (remainders 0 and 1) -/
example : Spec.TaxId.PT.valid "500000000".toList = true ∧ Spec.TaxId.PT.valid "540000000".toList = true := by decide
/-- the hypotheses of the detection theorems are satisfiable -/
example : Spec.TaxId.PL.valid "5260001246".toList = true ∧ edit1 "5260001246".toList "5260001346".toList :=
  ⟨by decide, 7, by decide, '3', by decide, by decide⟩
/-- doubled prefixes are removed in one normalisation -/
example : normalizeIdentity "EL".toList [['G','R']] "GREL925667500".toList = "925667500".toList ∧
    normalizeIdentity "EL".toList [['G','R']] "ELGR925667500".toList = "925667500".toList := by decide
/-- GR/EL (was known finding normalize-rewritten-country-prefix, fixed in `d935db9`): under the
    ISO country code `GR` the prefixes `EL` and `GR` are both removed by the first normalisation,
    in either order, exactly as under `EL`; the result is a fixed point -/
example : normalize "EL" "GR".toList "EL 925667500".toList = ("EL".toList, "925667500".toList) ∧
    normalize "EL" "GR".toList "GREL925667500".toList = ("EL".toList, "925667500".toList) ∧
    normalize "EL" "GR".toList "el-gr 925667500".toList = ("EL".toList, "925667500".toList) ∧
    normalize "EL" "EL".toList "EL 925667500".toList = ("EL".toList, "925667500".toList) ∧
    normalize "EL" "EL".toList "925667500".toList = ("EL".toList, "925667500".toList) := by decide
example : (normalize "CH" "CH".toList "CHE-284.156.502 MWST".toList).2 = "E284156502".toList ∧
    (normalize "FR" "FR".toList "FR 732 829 320".toList).2 = "44732829320".toList ∧
    (normalize "MX" "MX".toList "k&ñ-010101 ab1".toList).2 = "K&Ñ010101AB1".toList := by decide

/-! ## expectations over facts regenerated from the Go source on every run

The models were written against these pattern strings, weight tables, letter
tables, prefix sets and function shapes (literals and operators in source
order).  A changed weight, modulus, special-remainder rule or regular
expression breaks one of these obligations. -/
namespace Expect
open GoblVerif.Generated.TaxId

theorem generic_gate : tax_regexps = ["^[A-Z0-9]+$", "[^A-Z0-9]+"] ∧ tax_strs_IdentityCodeValidationIgnore = ["MX"] := by decide
theorem normalizer_alt_codes : normalizeAlts_GB = ["XI", "XU"] ∧ normalizeAlts_EL = ["GR"] ∧ normalizeAlts_IN = ["IN"] ∧
    normalizeAlts_ES = [] ∧ normalizeAlts_FR = [] ∧ normalizeAlts_CH = [] ∧ normalizeAlts_DE = [] ∧ normalizeAlts_NL = [] ∧
    normalizeAlts_PT = [] ∧ normalizeAlts_PL = [] ∧ normalizeAlts_IT = [] ∧ normalizeAlts_BE = [] ∧ normalizeAlts_AT = [] ∧
    normalizeAlts_CO = [] ∧ normalizeAlts_AE = [] := by decide
theorem model_alt_codes : (normalizeAlts_GB.map String.toList = altsOf "GB") ∧ (normalizeAlts_EL.map String.toList = altsOf "EL") ∧
    (normalizeAlts_IN.map String.toList = altsOf "IN") := by decide
theorem validators_registered : ["AE", "AT", "BE", "BR", "CH", "CO", "DE", "ES", "FR", "GB", "EL", "IN", "IT", "MX", "NL", "PL", "PT"].all
    (validatorRegistered.contains ·) = true := by decide
theorem ae_patterns : ae_regexps = ["^\\d{15}$"] := by decide
theorem at_patterns : at_regexps = ["^U\\d{8}$"] := by decide
theorem be_patterns : be_regexps = ["^0?\\d{9}$"] := by decide
theorem ch_patterns : ch_regexps = ["^E\\d{9}$", "(MWST|TVA|IVA)+$"] := by decide
theorem de_patterns : de_regexps = ["^[1-9]\\d{8}$"] := by decide
theorem es_patterns : es_regexps = ["^(?P<number>[0-9]{8})(?P<check>[TRWAGMYFPDXBNJZSQVHLCKE])$", "^(?P<type>[XYZ])(?P<number>[0-9]{7})(?P<check>[TRWAGMYFPDXBNJZSQVHLCKE])$", "^(?P<type>[KLM])(?P<number>[0-9]{7})(?P<check>[0-9JABCDEFGHI])$", "^(?P<type>[ABCDEFGHJNPQRSUVW])(?P<number>[0-9]{7})(?P<check>[0-9JABCDEFGHI])$"] := by decide
theorem fr_patterns : fr_regexps = ["^\\d{11}$", "^\\d{9}$"] := by decide
theorem gb_patterns : gb_regexps = ["^\\d{9}$", "^\\d{12}$", "^GD\\d{3}$", "^HA\\d{3}$"] := by decide
theorem gr_patterns : gr_regexps = ["^\\d{9}$"] := by decide
theorem in_patterns : in_regexps = ["^[0-9]{2}[A-Z]{5}[0-9]{4}[A-Z]{1}[1-9A-Z]{1}Z[0-9A-Z]{1}$"] := by decide
theorem mx_patterns : mx_regexps = ["^([A-ZÑ\\&]{4})([0-9]{6})([A-Z0-9]{3})$", "^([A-ZÑ\\&]{3})([0-9]{6})([A-Z0-9]{3})$", "[^A-ZÑ\\&0-9]+"] := by decide
theorem pl_patterns : pl_regexps = ["^[1-9]((\\d[1-9])|([1-9]\\d))\\d{7}$"] := by decide
theorem at_weights : at_ints_taxCodeMultipliers = AT.multipliers := by decide
theorem br_weights : br_ints_weights1 = BR.weights1 ∧ br_ints_weights2 = BR.weights2 := by decide
theorem ch_weights : ch_ints_taxCodeMultipliers = CH.multipliers := by decide
theorem co_weights : co_ints_nitMultipliers = CO.nitMultipliers ∧ co_ints_nitMultipliers = Spec.TaxId.CO.primes := by decide
theorem gb_weights : gb_ints_taxCodeMultipliers = GB.multipliers := by decide
theorem pl_weights : pl_ints_weights = PL.weights := by decide
theorem nl_length : nl_int_vatLen = 12 := by decide
theorem es_letter_tables : es_str_taxCodeCheckLetters.toList = ES.checkLetters ∧ es_str_taxCodeForeignTypeLetters.toList = ES.foreignTypeLetters ∧
    es_str_taxCodeOtherTypeLetters.toList = ES.otherTypeLetters ∧ es_str_taxCodeOrgTypeLetters.toList = ES.orgTypeLetters ∧
    es_str_taxCodeOrgCheckLetters.toList = ES.orgCheckLetters := by decide
theorem pt_prefixes : (pt_trueKeys_validPrefixes.map String.toList).all (PT.validPrefixes.contains ·) = true ∧
    PT.validPrefixes.all ((pt_trueKeys_validPrefixes.map String.toList).contains ·) = true := by decide
theorem tax_shape_NormalizeIdentity :
    tax_lits_NormalizeIdentity = ["s:"] ∧
    tax_ops_NormalizeIdentity = ["==", "=="] := by decide
theorem tax_shape_Identity_Normalize :
    tax_lits_Identity_Normalize = [] ∧
    tax_ops_Identity_Normalize = ["!="] := by decide
theorem tax_shape_Identity_Validate :
    tax_lits_Identity_Validate = [] ∧
    tax_ops_Identity_Validate = ["u&", "u&", "u&", "u&", "u&", "!=", "!="] := by decide
theorem luhn_shape_ComputeLuhnCheckDigit :
    luhn_lits_ComputeLuhnCheckDigit = ["0", "0", "1", "0", "'0'", "2", "0", "2", "9", "9", "10", "10", "10", "10"] ∧
    luhn_ops_ComputeLuhnCheckDigit = ["-", ">=", "--", "-", "%", "==", "*=", ">", "-=", "+=", "++", "-", "%", "%"] := by decide
theorem ae_shape_validateTRNCode :
    ae_lits_validateTRNCode = ["s:"] ∧
    ae_ops_validateTRNCode = ["u!", "||", "==", "u!"] := by decide
theorem at_shape_validateTaxCode :
    at_lits_validateTaxCode = ["s:"] ∧
    at_ops_validateTaxCode = ["u!", "||", "==", "u!"] := by decide
theorem at_shape_commercialCheck :
    at_lits_commercialCheck = ["1", "'0'", "9", "10", "10", "10", "4", "10", "10", "0", "8", "'0'"] ∧
    at_ops_commercialCheck = ["+", "-", "*", ">", "+=", "/", "+", "+=", "-", "+", "==", "-", "!="] := by decide
theorem be_shape_validateTaxCode :
    be_lits_validateTaxCode = ["s:"] ∧
    be_ops_validateTaxCode = ["u!", "||", "==", "u!"] := by decide
theorem be_shape_commercialCheck :
    be_lits_commercialCheck = ["9", "s:0", "1", "'0'", "0", "8", "97", "97", "8", "10"] ∧
    be_ops_commercialCheck = ["==", "+", "-", "==", "-", "!="] := by decide
theorem br_shape_validateTaxCode :
    br_lits_validateTaxCode = ["s:", "14", "5", "4", "3", "2", "9", "8", "7", "6", "5", "4", "3", "2", "12", "6", "5", "4", "3", "2", "9", "8", "7", "6", "5", "4", "3", "2", "13"] ∧
    br_ops_validateTaxCode = ["u!", "||", "==", "!=", "!=", "!="] := by decide
theorem br_shape_verifyDigit :
    br_lits_verifyDigit = ["0", "0", "11", "2", "0", "11"] ∧
    br_ops_verifyDigit = ["<", "++", "!=", "+=", "*", "%", "<", "-", "!=", "!="] := by decide
theorem ch_shape_validateTaxCode :
    ch_lits_validateTaxCode = ["s:"] ∧
    ch_ops_validateTaxCode = ["u!", "||", "==", "u!"] := by decide
theorem ch_shape_commercialCheck :
    ch_lits_commercialCheck = ["1", "'0'", "11", "11", "10", "11", "0", "9", "'0'"] ∧
    ch_ops_commercialCheck = ["+", "-", "*", "+", "-", "==", "==", "-", "!="] := by decide
theorem ch_shape_normalizeTaxIdentity :
    ch_lits_normalizeTaxIdentity = ["s:"] ∧
    ch_ops_normalizeTaxIdentity = ["=="] := by decide
theorem co_shape_validateTaxCode :
    co_lits_validateTaxCode = ["s:", "48", "0", "9", "10", "9", "0", "1", "1"] ∧
    co_ops_validateTaxCode = ["u!", "==", "-", "<", "||", ">", ">", "<", "-", "-"] := by decide
theorem co_shape_validateDigits :
    co_lits_validateDigits = ["0", "48", "1", "11", "2", "11"] ∧
    co_ops_validateDigits = ["!=", "+=", "-", "*", "-", "-", "%", ">=", "-", "!="] := by decide
theorem co_shape_normalizeTaxIdentity :
    co_lits_normalizeTaxIdentity = [] ∧
    co_ops_normalizeTaxIdentity = ["=="] := by decide
theorem de_shape_validateTaxCode :
    de_lits_validateTaxCode = ["s:"] ∧
    de_ops_validateTaxCode = ["u!", "||", "==", "u!"] := by decide
theorem de_shape_validateTaxCodeChecksum :
    de_lits_validateTaxCodeChecksum = ["10", "0", "0", "0", "8", "10", "0", "10", "2", "11", "11", "10", "0", "11", "8"] ∧
    de_ops_validateTaxCodeChecksum = ["<", "++", "!=", "+", "%", "==", "*", "%", "-", "==", "-", "!=", "!="] := by decide
theorem es_shape_validateTaxCode :
    es_lits_validateTaxCode = ["s:"] ∧
    es_ops_validateTaxCode = ["u!", "==", "=="] := by decide
theorem es_shape_DetermineTaxCodeType :
    es_lits_DetermineTaxCodeType = [] ∧
    es_ops_DetermineTaxCodeType = ["case1", "case1", "case1", "case1", "default"] := by decide
theorem es_shape_verifyNationalCode :
    es_lits_verifyNationalCode = ["s:00000000", "23", "0"] ∧
    es_ops_verifyNationalCode = ["!=", "==", "%", "!="] := by decide
theorem es_shape_verifyForeignCode :
    es_lits_verifyForeignCode = ["23", "0"] ∧
    es_ops_verifyForeignCode = ["!=", "+", "%", "!="] := by decide
theorem es_shape_verifyOrgCodeMatches :
    es_lits_verifyOrgCodeMatches = ["0", "0", "1", "1", "0", "2", "9", "9", "10", "10", "10", "1"] ∧
    es_ops_verifyOrgCodeMatches = ["&", "case1", "+=", "case1", "*", ">", "-", "+=", "-", "+", "%", "%", "!=", "u-", "!="] := by decide
theorem es_shape_normalizeTaxIdentity :
    es_lits_normalizeTaxIdentity = ["s:"] ∧
    es_ops_normalizeTaxIdentity = [] := by decide
theorem fr_shape_validateVATTaxCode :
    fr_lits_validateVATTaxCode = ["s:", "2", "2"] ∧
    fr_ops_validateVATTaxCode = ["u!", "||", "==", "u!", "!="] := by decide
theorem fr_shape_calculateVATCheckDigit :
    fr_lits_calculateVATCheckDigit = ["100", "12", "97", "s:%02d"] ∧
    fr_ops_calculateVATCheckDigit = ["*", "+", "%"] := by decide
theorem fr_shape_validateSIRENTaxCode :
    fr_lits_validateSIRENTaxCode = ["s:", "8", "8"] ∧
    fr_ops_validateSIRENTaxCode = ["u!", "||", "==", "u!", "!="] := by decide
theorem fr_shape_normalizeTaxIdentity :
    fr_lits_normalizeTaxIdentity = ["s:", "9", "s:%s%s"] ∧
    fr_ops_normalizeTaxIdentity = ["==", "==", "!="] := by decide
theorem gb_shape_validateTaxCode :
    gb_lits_validateTaxCode = ["s:", "s:GD", "s:HA"] ∧
    gb_ops_validateTaxCode = ["u!", "||", "==", "u!"] := by decide
theorem gb_shape_governmentDepartmentCheck :
    gb_lits_governmentDepartmentCheck = ["499", "2"] ∧
    gb_ops_governmentDepartmentCheck = [">"] := by decide
theorem gb_shape_healthAuthorityCheck :
    gb_lits_healthAuthorityCheck = ["500", "2"] ∧
    gb_ops_healthAuthorityCheck = ["<"] := by decide
theorem gb_shape_commercialCheck :
    gb_lits_commercialCheck = ["0", "7", "0", "'0'", "0", "97", "0", "0", "7", "9", "9990001", "100000", "999999", "9490001", "9700000", "55", "55", "42", "1000000"] ∧
    gb_ops_commercialCheck = ["==", "-", "+=", "*", ">", "-", "<", "-", "==", "&&", "<", "&&", "<", "||", ">", "&&", "<", "||", ">", ">=", "-", "+", "==", "&&", ">"] := by decide
theorem gr_shape_validateTaxCode :
    gr_lits_validateTaxCode = ["s:"] ∧
    gr_ops_validateTaxCode = ["u!", "||", "==", "u!", "u!"] := by decide
theorem gr_shape_hasValidChecksum :
    gr_lits_hasValidChecksum = ["9", "0", "8", "1", "8", "11", "10", "8"] ∧
    gr_ops_hasValidChecksum = ["!=", "<", "++", "+=", "*", "<<", "-", "%", "%", "=="] := by decide
theorem gr_shape_normalizeTaxIdentity :
    gr_lits_normalizeTaxIdentity = ["s:EL"] ∧
    gr_ops_normalizeTaxIdentity = ["=="] := by decide
/-- the country is overwritten *before* the code is cleaned (model: the country handed to
    `normalizeIdentity` is `EL`); the other order is the repaired defect `d935db9` -/
theorem gr_order_normalizeTaxIdentity :
    gr_steps_normalizeTaxIdentity = ["if tID == nil { return }", "tID.Country = \"EL\"",
      "tax.NormalizeIdentity(tID, l10n.GR)"] := by decide
theorem in_shape_validateTaxCode :
    in_lits_validateTaxCode = ["s:"] ∧
    in_ops_validateTaxCode = ["u!", "||", "==", "u!", "!="] := by decide
theorem in_shape_hasValidChecksum :
    in_lits_hasValidChecksum = ["15", "0", "14", "1", "2", "0", "2", "36", "36", "36", "36", "36", "14"] ∧
    in_ops_hasValidChecksum = ["!=", "%", "!=", "*", "+=", "/", "+", "%", "%", "-", "%", "!="] := by decide
theorem in_shape_charToValue :
    in_lits_charToValue = ["'0'", "'9'", "'0'", "'A'", "10"] ∧
    in_ops_charToValue = [">=", "&&", "<=", "-", "-", "+"] := by decide
theorem in_shape_valueToChar :
    in_lits_valueToChar = ["0", "9", "'0'", "'A'", "10"] ∧
    in_ops_valueToChar = [">=", "&&", "<=", "+", "+", "-"] := by decide
theorem in_shape_normalizeTaxIdentity :
    in_lits_normalizeTaxIdentity = ["s:IN"] ∧
    in_ops_normalizeTaxIdentity = ["=="] := by decide
/-- India cleans the code with the identity's own country first and overwrites the country
    afterwards (model: `normalizeIdentity country …`, then `IN`) -/
theorem in_order_normalizeTaxIdentity :
    in_steps_normalizeTaxIdentity = ["if tID == nil { return }", "tax.NormalizeIdentity(tID, l10n.IN)",
      "tID.Code = cbc.Code(strings.ToUpper(tID.Code.String()))", "tID.Country = \"IN\""] := by decide
theorem it_shape_validateTaxCode :
    it_lits_validateTaxCode = ["s:", "48", "0", "9", "11", "10", "10"] ∧
    it_ops_validateTaxCode = ["u!", "||", "==", "-", "<", "||", ">", "!=", "!="] := by decide
theorem mx_shape_ValidateTaxIdentity :
    mx_lits_ValidateTaxIdentity = [] ∧
    mx_ops_ValidateTaxIdentity = ["==", "u&"] := by decide
theorem mx_shape_ValidateTaxCode :
    mx_lits_ValidateTaxCode = ["s:"] ∧
    mx_ops_ValidateTaxCode = ["u!", "||", "=="] := by decide
theorem mx_shape_DetermineTaxCodeType :
    mx_lits_DetermineTaxCodeType = [] ∧
    mx_ops_DetermineTaxCodeType = ["case1", "case1", "default"] := by decide
theorem mx_shape_NormalizeTaxCode :
    mx_lits_NormalizeTaxCode = ["s:"] ∧
    mx_ops_NormalizeTaxCode = [] := by decide
theorem nl_shape_validateTaxCode :
    nl_lits_validateTaxCode = ["s:", "9", "'B'", "0", "9", "10", "12"] ∧
    nl_ops_validateTaxCode = ["u!", "==", "!=", "!="] := by decide
theorem nl_shape_validateDigits :
    nl_lits_validateDigits = ["10", "64", "10", "s:NL%sB%s"] ∧
    nl_ops_validateDigits = ["!=", "!=", "%", "!=", "&&", "u!"] := by decide
theorem nl_shape_mod11 :
    nl_lits_mod11 = ["0", "8", "10", "2", "10", "11", "9", "1"] ∧
    nl_ops_mod11 = ["<", "++", "/=", "+", "+=", "%", "*", "%", ">", "u-"] := by decide
theorem nl_shape_checkMod97 :
    nl_lits_checkMod97 = ["48", "57", "48", "55", "10", "9", "10", "97", "1"] ∧
    nl_ops_checkMod97 = [">=", "&&", "<=", "-", "-", "*", ">", "*", "+", "%", "=="] := by decide
theorem pl_shape_validateTaxCode :
    pl_lits_validateTaxCode = ["s:"] ∧
    pl_ops_validateTaxCode = ["u!", "=="] := by decide
theorem pl_shape_validateNIPChecksum :
    pl_lits_validateNIPChecksum = ["10", "10", "9", "6", "5", "7", "2", "3", "4", "5", "6", "7", "0", "9", "11", "9"] ∧
    pl_ops_validateNIPChecksum = ["!=", "u!", "!=", "+=", "*", "%=", "=="] := by decide
theorem pt_shape_validateTaxCode :
    pt_lits_validateTaxCode = ["s:", "48", "0", "9", "9", "1", "2", "0", "1", "9", "1", "10", "11", "0", "0", "1", "0", "11", "8"] ∧
    pt_ops_validateTaxCode = ["u!", "==", "-", "<", "||", ">", "!=", "u!", "&&", "u!", "<", "++", "-", "!=", "+=", "*", "-", "%", "case2", "default", "-", "!=", "!="] := by decide

end Expect

/-! ## the checkers regenerated from the source (go2lean) are the models

  Generated/TaxIdSrc.lean is the translation of the Go checker functions as
  they stand in /repo NOW (strings as byte lists, `error` as an Option, regexp
  matches as the declared primitive `Re.reMatch`; see the header of that file).
  Each theorem `src_*` says that a regenerated definition returns what the
  hand-written model of Model/TaxId.lean returns — for EVERY string where no
  hypothesis is stated, otherwise for every string that passes the stated
  gate.  `(f (some s)).isNone` reads "Go's `f(cbc.Code(s))` returns nil". -/
namespace Src
open GoblVerif.Generated GoblVerif.GoSem GoblVerif.TaxIdSrc

/-! ### PL -/

/-- `validateNIPChecksum` = the model, for every string -/
theorem src_pl_checksum (s : Str) : TaxIdSrc.PL.validateNIPChecksum s = PL.validateNIPChecksum s := by
  unfold TaxIdSrc.PL.validateNIPChecksum PL.validateNIPChecksum
  simp only [Id.run]
  by_cases hl : s.length = 10
  case neg =>
    have : (s.length : Int) ≠ 10 := by omega
    simp [hl, this]; rfl
  have hl' : ¬ ((s.length : Int) ≠ 10) := by omega
  rw [if_neg hl', forIn_all_guard, all_isDigitRune]
  by_cases hd : allDig s = true
  case neg => simp [hd, hl]; rfl
  obtain ⟨c0,c1,c2,c3,c4,c5,c6,c7,c8,c9,rfl⟩ := len10 s hl
  have hd' := hd
  simp only [allDig, List.all_cons, List.all_nil, Bool.and_true, Bool.and_eq_true] at hd'
  obtain ⟨h0, h1, h2, h3, h4, h5, h6, h7, h8, h9⟩ := hd'
  simp [hd, h0, h1, h2, h3, h4, h5, h6, h7, h8, h9, ofRune_runeOf, atoi_single_digit, List.zipIdx, wloop, PL.weights]
  rw [id_pure, Int.tmod_eq_emod_of_nonneg (by omega), Bool.eq_iff_iff]
  simp only [decide_eq_true_eq, beq_iff_eq]
  omega

/-- `validateTaxCode(code)` returns nil exactly when the model accepts, for every string -/
theorem src_pl_validate (s : Str) :
    (TaxIdSrc.PL.validateTaxCode (some s)).isNone = accepts PL.regime s := by
  unfold TaxIdSrc.PL.validateTaxCode
  simp only [Id.run, src_pl_checksum, TaxIdSrc.PL.taxIdentityRegexp, re_pl, accepts, PL.regime]
  cases s with
  | nil => simp; rfl
  | cons c cs =>
    cases h1 : PL.fmt (c :: cs) <;> cases h2 : PL.validateNIPChecksum (c :: cs) <;> simp [h1, h2] <;> rfl

/-! ### PT -/

theorem src_pt_prefixes : TaxIdSrc.PT.validPrefixes = PT.validPrefixes.map (fun x => (x, true)) := rfl

theorem src_pt_validate (s : Str) :
    (TaxIdSrc.PT.validateTaxCode (some s)).isNone = accepts PT.regime s := by
  unfold TaxIdSrc.PT.validateTaxCode
  simp only [Id.run, accepts, PT.regime]
  cases s with
  | nil => simp; rfl
  | cons c cs =>
    generalize hs : c :: cs = s
    have hne : s ≠ [] := by rw [← hs]; simp
    have hie := isEmpty_false_of_ne hne
    simp only [Option.getD_some, Option.isSome_some, not_true_eq_false, if_false, hne]
    rw [forIn_all_guard, all_rune_guard]
    by_cases hd : allDig s = true
    case neg => simp [hd]; rw [id_pure]; simp [errNew_isNone, hie]
    by_cases hl : s.length = 9
    case neg =>
      have : (s.length : Int) ≠ 9 := by omega
      simp [hd, hl, this]; rw [id_pure]; simp [errNew_isNone, hie]
    obtain ⟨c0,c1,c2,c3,c4,c5,c6,c7,c8,rfl⟩ := len9 s hl
    have hd' := hd
    simp only [allDig, List.all_cons, List.all_nil, Bool.and_true, Bool.and_eq_true] at hd'
    obtain ⟨h0, h1, h2, h3, h4, h5, h6, h7, h8⟩ := hd'
    rw [forIn_range_fuel _ (fun _ _ => rfl)]
    simp [hd, forFuel, GoStr.byteAt, ofByte_toNat, atoi_single_digit, h0, h1, h2, h3, h4, h5, h6, h7, h8]
    rw [src_pt_prefixes]
    simp (disch := omega) only [mapGet_true_keys, PT.sumLoop, Int.tmod_eq_emod_of_nonneg]
    have b0 := dval_le h0; have b1 := dval_le h1; have b2 := dval_le h2; have b3 := dval_le h3; have b4 := dval_le h4
    have b5 := dval_le h5; have b6 := dval_le h6; have b7 := dval_le h7; have b8 := dval_le h8
    simp only [id_pure, List.contains_eq_mem]
    generalize decide ([c0] ∈ PT.validPrefixes) = p1
    generalize decide ([c0, c1] ∈ PT.validPrefixes) = p2
    cases p1 <;> cases p2 <;> simp [errNew_isNone] <;> (repeat' split) <;> simp_all [errNew_isNone] <;> omega

/-! ### regimes/common: the Luhn check digit -/

/-- `common.ComputeLuhnCheckDigit` = the model, for every string of digits (any length) -/
theorem src_luhn (s : Str) (hd : allDig s = true) :
    TaxIdSrc.Common.ComputeLuhnCheckDigit s = luhnCheckDigit s := by
  unfold TaxIdSrc.Common.ComputeLuhnCheckDigit
  simp only [Id.run]
  rw [forIn_range_fuel _ (fun _ _ => rfl)]
  simp only [bind, pure]
  have key : ∀ g : Int × Int × Int → ForInStep (Int × Int × Int),
      (∀ (sum pos i : Nat) (hi : i < s.length),
        g ((sum : Int), (pos : Int), (i : Int)) =
          .yield (((sum + luhnStep (dval s[i]) pos : Nat) : Int), ((pos + 1 : Nat) : Int), (i : Int) - 1)) →
      forFuel g s.length (0, 0, (s.length : Int) - 1) = (((luhnLoop s.reverse 0 0 : Nat) : Int), ((s.length : Nat) : Int), -1) := by
    intro g hg
    simpa using forFuel_luhn s g hg s.length (Nat.le_refl _) 0 0
  rw [key]
  · simp only [luhnCheckDigit]
    rw [show (10 : Int) = ((10 : Nat) : Int) from rfl, tmod_nat]
    have : ((10 : Nat) : Int) - ((luhnLoop s.reverse 0 0 % 10 : Nat) : Int) = ((10 - luhnLoop s.reverse 0 0 % 10 : Nat) : Int) := by omega
    rw [this, tmod_nat, itoa_digit _ (by omega)]
  · intro sum pos i hi
    have hb := isDig_bounds (allDig_getElem hd i hi)
    have e1 : ¬ (¬ ((i : Int) ≥ 0)) := by omega
    simp only [Id.run, e1, if_false, Int.toNat_natCast, byteAt_getElem s i hi]
    have ep : ((pos : Int).tmod 2 = 0) ↔ (pos % 2 = 0) := by
      rw [show (2 : Int) = ((2 : Nat) : Int) from rfl, tmod_nat]; omega
    simp only [luhnStep, dval, beq_iff_eq, ep, Int.ofNat_eq_natCast]
    by_cases hp : pos % 2 = 0 <;> by_cases h2 : (s[i].toNat - 48) * 2 > 9 <;>
      have h2' : (((s[i].toNat - 48 : Nat) : Int) * 2 > 9) ↔ (s[i].toNat - 48) * 2 > 9 := by omega
    all_goals simp only [hp, h2, h2', if_true, if_false, ForInStep.yield.injEq, Prod.mk.injEq]
    all_goals (refine ⟨?_, ?_, trivial⟩ <;> omega)

/-! ### IT -/

theorem src_it_validate (s : Str) :
    (TaxIdSrc.IT.validateTaxCode (some s)).isNone = accepts IT.regime s := by
  unfold TaxIdSrc.IT.validateTaxCode
  simp only [Id.run, accepts, IT.regime]
  cases s with
  | nil => simp; rfl
  | cons c cs =>
    generalize hs : c :: cs = s
    have hne : s ≠ [] := by rw [← hs]; simp
    have hie := isEmpty_false_of_ne hne
    simp only [Option.getD_some, Option.isSome_some, not_true_eq_false, hne, false_or, if_false]
    rw [forIn_all_guard, all_rune_guard]
    by_cases hd : allDig s = true
    case neg => simp [hd]; rw [id_pure]; simp [errNew_isNone, hie]
    by_cases hl : s.length = 11
    case neg =>
      have : (s.length : Int) ≠ 11 := by omega
      simp [hd, hl, this]; rw [id_pure]; simp [errNew_isNone, hie]
    simp only [hd, hl, src_luhn _ (allDig_take hd 10), if_true, if_false, bind, pure, bne_self_eq_false, Bool.false_eq_true, Bool.not_true]
    by_cases he : luhnCheckDigit (s.take 10) = s.drop 10 <;> simp [he, hie, errNew_isNone]

/-! ### FR -/

/-- `calculateVATCheckDigit` = the model on every string over `[A-Z0-9]` (the generic gate) -/
theorem src_fr_vatcheck (s : Str) (hg : s.all isAZ09 = true) :
    TaxIdSrc.FR.calculateVATCheckDigit s = FR.calculateVATCheckDigit s := by
  unfold TaxIdSrc.FR.calculateVATCheckDigit FR.calculateVATCheckDigit
  simp only [Id.run, pure, atoi_gated_fst s hg]
  have e : ((atoi0 s : Nat) : Int) * 100 + 12 = ((atoi0 s * 100 + 12 : Nat) : Int) := by push_cast; rfl
  rw [e, show (97 : Int) = ((97 : Nat) : Int) from rfl, tmod_nat, fmt02d_lt100 _ (by omega)]

theorem src_fr_validate (s : Str) :
    (TaxIdSrc.FR.validateVATTaxCode (some s)).isNone = accepts FR.regime s := by
  unfold TaxIdSrc.FR.validateVATTaxCode
  simp only [Id.run, accepts, FR.regime, TaxIdSrc.FR.taxCodeVATRegexp, re_fr_vat]
  cases s with
  | nil => simp; rfl
  | cons c cs =>
    generalize hs : c :: cs = s
    have hne : s ≠ [] := by rw [← hs]; simp
    have hie := isEmpty_false_of_ne hne
    simp only [Option.getD_some, Option.isSome_some, not_true_eq_false, hne, false_or, if_false]
    by_cases hf : FR.vatRe s = true
    case neg => simp [hf]; rw [id_pure]; simp [errNew_isNone, hie]
    have hd := (matchSeq_rep_isDig 11 s hf).1
    simp only [hf, src_fr_vatcheck _ (allDig_isAZ09 (allDig_drop hd 2)), not_true_eq_false, if_false, pure, hie, Bool.false_or,
      Bool.not_true, Bool.false_eq_true]
    by_cases he : FR.calculateVATCheckDigit (s.drop 2) = s.take 2 <;> simp [he, errNew_isNone]

/-- the SIREN check the normaliser uses -/
theorem src_fr_siren (s : Str) :
    (TaxIdSrc.FR.validateSIRENTaxCode (some s)).isNone = accepts FR.sirenValid s := by
  unfold TaxIdSrc.FR.validateSIRENTaxCode
  simp only [Id.run, accepts, FR.sirenValid, TaxIdSrc.FR.taxCodeSIRENRegexp, re_d9]
  cases s with
  | nil => simp; rfl
  | cons c cs =>
    generalize hs : c :: cs = s
    have hne : s ≠ [] := by rw [← hs]; simp
    have hie := isEmpty_false_of_ne hne
    simp only [Option.getD_some, Option.isSome_some, not_true_eq_false, hne, false_or, if_false]
    by_cases hf : FR.sirenRe s = true
    case neg => simp [hf]; rw [id_pure]; simp [errNew_isNone, hie]
    have hd := (matchSeq_rep_isDig 9 s hf).1
    simp only [hf, src_luhn _ (allDig_take hd 8), not_true_eq_false, if_false, pure, hie, Bool.false_or, Bool.not_true,
      Bool.false_eq_true]
    by_cases he : luhnCheckDigit (s.take 8) = s.drop 8
    · simp [he]
    · have he' : ¬ (s.drop 8 = luhnCheckDigit (s.take 8)) := fun h => he h.symm
      simp [he, he', errNew_isNone]

/-! ### CO -/

/-- `validateDigits` on a digit string of 8 or 9 characters and a one-digit check -/
theorem src_co_digits (code : Str) (k : Char) (hd : allDig code = true) (hk : isDig k = true)
    (hl : code.length = 8 ∨ code.length = 9) :
    (TaxIdSrc.CO.validateDigits code [k]).isNone = CO.validateDigits code [k] := by
  unfold TaxIdSrc.CO.validateDigits CO.validateDigits
  simp only [Id.run, atoi_single_digit hk, TaxId.atoi_single k hk]
  have bk := dval_le hk
  rcases hl with hl | hl
  · obtain ⟨c0,c1,c2,c3,c4,c5,c6,c7,rfl⟩ := len8 code hl
    simp only [allDig, List.all_cons, List.all_nil, Bool.and_true, Bool.and_eq_true] at hd
    obtain ⟨h0, h1, h2, h3, h4, h5, h6, h7⟩ := hd
    have b0 := dval_le h0; have b1 := dval_le h1; have b2 := dval_le h2; have b3 := dval_le h3
    have b4 := dval_le h4; have b5 := dval_le h5; have b6 := dval_le h6; have b7 := dval_le h7
    simp [List.zipIdx, runeOf_sub_digit, h0, h1, h2, h3, h4, h5, h6, h7, TaxIdSrc.CO.nitMultipliers, CO.sumLoop, CO.nitMultipliers]
    simp only [id_pure]
    norm_cast
    src_arith
  · obtain ⟨c0,c1,c2,c3,c4,c5,c6,c7,c8,rfl⟩ := len9 code hl
    simp only [allDig, List.all_cons, List.all_nil, Bool.and_true, Bool.and_eq_true] at hd
    obtain ⟨h0, h1, h2, h3, h4, h5, h6, h7, h8⟩ := hd
    have b0 := dval_le h0; have b1 := dval_le h1; have b2 := dval_le h2; have b3 := dval_le h3
    have b4 := dval_le h4; have b5 := dval_le h5; have b6 := dval_le h6; have b7 := dval_le h7; have b8 := dval_le h8
    simp [List.zipIdx, runeOf_sub_digit, h0, h1, h2, h3, h4, h5, h6, h7, h8, TaxIdSrc.CO.nitMultipliers, CO.sumLoop, CO.nitMultipliers]
    simp only [id_pure]
    norm_cast
    src_arith

theorem src_co_validate (s : Str) :
    (TaxIdSrc.CO.validateTaxCode (some s)).isNone = accepts CO.regime s := by
  unfold TaxIdSrc.CO.validateTaxCode
  simp only [Id.run, accepts, CO.regime]
  cases s with
  | nil => simp; rfl
  | cons c cs =>
    generalize hs : c :: cs = s
    have hne : s ≠ [] := by rw [← hs]; simp
    have hie := isEmpty_false_of_ne hne
    simp only [Option.getD_some, Option.isSome_some, not_true_eq_false, hne, if_false]
    rw [forIn_all_guard, all_rune_guard]
    by_cases hd : allDig s = true
    case neg => simp [hd]; rw [id_pure]; simp [errNew_isNone, hie]
    by_cases h10 : s.length > 10
    case pos =>
      have : (s.length : Int) > 10 := by omega
      simp [hd, h10, this]; rw [id_pure]; simp [errNew_isNone, hie]
    by_cases h9 : s.length < 9
    case pos =>
      have e1 : ¬ ((s.length : Int) > 10) := by omega
      have e2 : (s.length : Int) < 9 := by omega
      simp [hd, h10, h9, e1, e2]; rw [id_pure]; simp [errNew_isNone, hie]
    have e1 : ¬ ((s.length : Int) > 10) := by omega
    have e2 : ¬ ((s.length : Int) < 9) := by omega
    simp only [hd, h10, h9, e1, e2, if_true, if_false, bind, pure, hie, Bool.false_or, Bool.not_true, Bool.false_eq_true]
    have hl : s.length = 9 ∨ s.length = 10 := by omega
    rcases hl with hl | hl
    · obtain ⟨c0,c1,c2,c3,c4,c5,c6,c7,c8,rfl⟩ := len9 s hl
      have hd' := hd
      simp only [allDig, List.all_cons, List.all_nil, Bool.and_true, Bool.and_eq_true] at hd'
      have := src_co_digits [c0,c1,c2,c3,c4,c5,c6,c7] c8 (by simp [allDig, hd']) hd'.2.2.2.2.2.2.2.2 (Or.inl rfl)
      simpa [GoStr.slice] using this
    · obtain ⟨c0,c1,c2,c3,c4,c5,c6,c7,c8,c9,rfl⟩ := len10 s hl
      have hd' := hd
      simp only [allDig, List.all_cons, List.all_nil, Bool.and_true, Bool.and_eq_true] at hd'
      have := src_co_digits [c0,c1,c2,c3,c4,c5,c6,c7,c8] c9 (by simp [allDig, hd']) hd'.2.2.2.2.2.2.2.2.2 (Or.inr rfl)
      simpa [GoStr.slice] using this

/-! ### AE, MX (format only) -/

theorem src_ae_validate (s : Str) :
    (TaxIdSrc.AE.validateTRNCode (some s)).isNone = accepts AE.regime s := by
  unfold TaxIdSrc.AE.validateTRNCode
  simp only [Id.run, accepts, TaxIdSrc.AE.trnRegex, re_ae]
  cases s with
  | nil => simp; rfl
  | cons c cs => cases h : AE.regime (c :: cs) <;> simp [h, errNew_isNone] <;> rfl

theorem src_mx_type (s : Str) :
    TaxIdSrc.MX.DetermineTaxCodeType s =
      if MX.personRe s then "person".toList else if MX.companyRe s then "company".toList else [] := by
  unfold TaxIdSrc.MX.DetermineTaxCodeType
  simp only [Id.run, TaxIdSrc.MX.TaxIdentityRegexpPerson, TaxIdSrc.MX.TaxIdentityRegexpCompany, re_mx_person, re_mx_company]
  by_cases h1 : MX.personRe s = true <;> by_cases h2 : MX.companyRe s = true <;> simp [h1, h2] <;> rfl

/-! ### DE -/

theorem src_de_checksum (s : Str) (hf : DE.fmt s = true) :
    (TaxIdSrc.DE.validateTaxCodeChecksum s).isNone = DE.validateTaxCodeChecksum s := by
  have hl : s.length = 9 := by simpa [rep] using matchSeq_length _ _ hf
  have hd : ∀ j (hj : j < s.length), isDig s[j] = true := by
    obtain ⟨c0,c1,c2,c3,c4,c5,c6,c7,c8,rfl⟩ := len9 s hl
    simp only [DE.fmt, matchSeq, rep, List.replicate, Bool.and_eq_true, Bool.and_true] at hf
    obtain ⟨h0', h1, h2, h3, h4, h5, h6, h7, h8⟩ := hf
    have h0 : isDig c0 = true := by simp only [isDig, decide_eq_true_eq] at h0' ⊢; omega
    intro j hj
    match j, hj with
    | 0, _ | 1, _ | 2, _ | 3, _ | 4, _ | 5, _ | 6, _ | 7, _ | 8, _ => simpa
  unfold TaxIdSrc.DE.validateTaxCodeChecksum DE.validateTaxCodeChecksum
  simp only [Id.run]
  rw [forIn_range_fuel _ (fun _ _ => rfl)]
  have key := fun g h => forFuel_de (ρ := Option GoStr.Str) s g h 8 0 10 0 (by omega)
  simp only [Nat.cast_ofNat, Nat.cast_zero, Nat.zero_add] at key
  simp only [bind, pure]
  rw [key]
  · have h8 := deIter_loop s 8 0 10 0 (by omega) (fun j hj _ _ => hd j hj)
    simp only [List.drop_zero] at h8
    have hd8 := hd 8 (by omega)
    have e8 : s.getD 8 ' ' = s[8] := by simp [List.getD_eq_getElem?_getD, hl]
    simp only [h8, e8, TaxId.atoi_single _ hd8, byteAt_getElem s 8 (by omega), ofByte_toNat, atoi_single_digit hd8]
    have hp := deIter_le s 8 0 10 0 (by omega)
    have hdv := dval_le hd8
    generalize (deIter s 8 0 10 0).1 = p at hp ⊢
    generalize dval s[8] = d at hdv ⊢
    simp only [Option.isSome_none, Bool.false_eq_true, if_false]
    clear key h8 hd hd8 e8 hf hl
    src_arith
  · intro p sum i hi
    have hdi := hd i (by omega)
    have e1 : ¬ (¬ ((i : Int) < 8)) := by omega
    have hil : i < s.length := by omega
    have ei : s.getD i '0' = s[i] := by simp [List.getD_eq_getElem?_getD, hil]
    simp only [Id.run, e1, if_false, Int.toNat_natCast, byteAt_getElem s i (by omega), ofByte_toNat, atoi_single_digit hdi, ei]
    simp only [Option.isSome_none, Bool.false_eq_true, if_false, deStep, beq_iff_eq]
    have et : ((dval s[i] : Int) + (p : Int)).tmod 10 = (((dval s[i] + p) % 10 : Nat) : Int) := by
      rw [← Int.natCast_add, show (10 : Int) = ((10 : Nat) : Int) from rfl, tmod_nat]
    rw [et]
    by_cases h0 : (dval s[i] + p) % 10 = 0
    · simp [h0]
    · have h0' : ¬ ((((dval s[i] + p) % 10 : Nat) : Int) = 0) := by omega
      simp only [h0, h0', if_false, ForInStep.yield.injEq, Prod.mk.injEq, true_and]
      refine ⟨?_, by omega⟩
      rw [show (2 : Int) * (((dval s[i] + p) % 10 : Nat) : Int) = ((2 * ((dval s[i] + p) % 10) : Nat) : Int) from by push_cast; rfl,
        show (11 : Int) = ((11 : Nat) : Int) from rfl, tmod_nat]

theorem src_de_validate (s : Str) :
    (TaxIdSrc.DE.validateTaxCode (some s)).isNone = accepts DE.regime s := by
  unfold TaxIdSrc.DE.validateTaxCode
  simp only [Id.run, accepts, DE.regime, TaxIdSrc.DE.taxCodeRegexps]
  cases s with
  | nil => simp; rfl
  | cons c cs =>
    generalize hs : c :: cs = s
    have hne : s ≠ [] := by rw [← hs]; simp
    have hie := isEmpty_false_of_ne hne
    simp only [Option.getD_some, Option.isSome_some, not_true_eq_false, hne, false_or, if_false]
    rw [forIn_match_one, re_de]
    by_cases hf : DE.fmt s = true
    case neg => simp [hf]; rw [id_pure]; simp [errNew_isNone, hie]
    simp only [hf, bind, pure, not_true_eq_false, if_false, hie, Bool.false_or, Bool.true_and]
    exact src_de_checksum s hf

/-! ### GR -/

theorem src_gr_checksum (s : Str) (hf : GR.fmt s = true) :
    TaxIdSrc.GR.hasValidChecksum s = GR.hasValidChecksum s := by
  obtain ⟨hd, hl⟩ := matchSeq_rep_isDig 9 s hf
  obtain ⟨c0,c1,c2,c3,c4,c5,c6,c7,c8,rfl⟩ := len9 s hl
  have hd' := hd
  simp only [allDig, List.all_cons, List.all_nil, Bool.and_true, Bool.and_eq_true] at hd'
  obtain ⟨h0, h1, h2, h3, h4, h5, h6, h7, h8⟩ := hd'
  unfold TaxIdSrc.GR.hasValidChecksum GR.hasValidChecksum
  simp only [Id.run]
  simp [hd, h0, h1, h2, h3, h4, h5, h6, h7, h8, ofRune_runeOf, atoi_single_digit, List.zipIdx]
  rw [show List.range' 0 8 = [0,1,2,3,4,5,6,7] from rfl]
  simp [GR.sumLoop]
  rw [id_pure]
  norm_cast

theorem src_gr_validate (s : Str) :
    (TaxIdSrc.GR.validateTaxCode (some s)).isNone = accepts GR.regime s := by
  unfold TaxIdSrc.GR.validateTaxCode
  simp only [Id.run, accepts, GR.regime, TaxIdSrc.GR.taxCodeRegexp, re_d9]
  cases s with
  | nil => simp; rfl
  | cons c cs =>
    generalize hs : c :: cs = s
    have hne : s ≠ [] := by rw [← hs]; simp
    have hie := isEmpty_false_of_ne hne
    simp only [Option.getD_some, Option.isSome_some, not_true_eq_false, hne, false_or, if_false]
    by_cases hf : GR.fmt s = true
    case neg =>
      have hf' : FR.sirenRe s = false := by simpa [GR.fmt, FR.sirenRe] using hf
      simp [hf, hf']; rw [id_pure]; simp [errNew_isNone, hie]
    have hf' : FR.sirenRe s = true := hf
    simp only [hf, hf', src_gr_checksum s hf, not_true_eq_false, if_false, hie, Bool.false_or, Bool.true_and]
    cases GR.hasValidChecksum s <;> simp [errNew_isNone] <;> rfl

/-! ### NL -/

theorem src_nl_mod11 (n : Nat) : TaxIdSrc.NL.mod11 (n : Int) = NL.mod11 n := by
  unfold TaxIdSrc.NL.mod11 NL.mod11
  simp only [Id.run]
  rw [forIn_range_fuel _ (fun _ _ => rfl)]
  simp [forFuel, NL.mod11Loop]
  norm_cast

theorem src_nl_mod97 (c0 c1 c2 c3 c4 c5 c6 c7 c8 e0 e1 : Char)
    (h0 : isDig c0 = true) (h1 : isDig c1 = true) (h2 : isDig c2 = true) (h3 : isDig c3 = true) (h4 : isDig c4 = true)
    (h5 : isDig c5 = true) (h6 : isDig c6 = true) (h7 : isDig c7 = true) (h8 : isDig c8 = true)
    (k0 : isDig e0 = true) (k1 : isDig e1 = true) :
    TaxIdSrc.NL.checkMod97 ['N','L',c0,c1,c2,c3,c4,c5,c6,c7,c8,'B',e0,e1] = NL.checkMod97 ['N','L',c0,c1,c2,c3,c4,c5,c6,c7,c8,'B',e0,e1] := by
  have hv (c : Char) (h : isDig c = true) : NL.mod97Val c = dval c := by simp [NL.mod97Val, h, dval]
  have hR : NL.checkMod97 ['N','L',c0,c1,c2,c3,c4,c5,c6,c7,c8,'B',e0,e1] =
      (Spec.TaxId.num [2,3,2,1,dval c0,dval c1,dval c2,dval c3,dval c4,dval c5,dval c6,dval c7,dval c8,1,1,dval e0,dval e1] % 97 == 1) := by
    simp only [NL.checkMod97, List.map, hv _ h0, hv _ h1, hv _ h2, hv _ h3, hv _ h4, hv _ h5, hv _ h6, hv _ h7, hv _ h8, hv _ k0, hv _ k1]
    rw [show NL.mod97Val 'N' = 23 from by decide, show NL.mod97Val 'L' = 21 from by decide, show NL.mod97Val 'B' = 11 from by decide]
    rw [nl_mod97Loop _ _ _ _ _ _ _ _ _ _ _ ⟨dval_le h0, dval_le h1, dval_le h2, dval_le h3, dval_le h4, dval_le h5, dval_le h6,
      dval_le h7, dval_le h8, dval_le k0, dval_le k1⟩]
  rw [hR]
  unfold TaxIdSrc.NL.checkMod97
  simp only [Id.run]
  have b0 := dval_le h0; have b1 := dval_le h1; have b2 := dval_le h2; have b3 := dval_le h3; have b4 := dval_le h4
  have b5 := dval_le h5; have b6 := dval_le h6; have b7 := dval_le h7; have b8 := dval_le h8
  have a0 := dval_le k0; have a1 := dval_le k1
  have n0 : ¬ 9 < dval c0 := by omega
  have n1 : ¬ 9 < dval c1 := by omega
  have n2 : ¬ 9 < dval c2 := by omega
  have n3 : ¬ 9 < dval c3 := by omega
  have n4 : ¬ 9 < dval c4 := by omega
  have n5 : ¬ 9 < dval c5 := by omega
  have n6 : ¬ 9 < dval c6 := by omega
  have n7 : ¬ 9 < dval c7 := by omega
  have n8 : ¬ 9 < dval c8 := by omega
  have m0 : ¬ 9 < dval e0 := by omega
  have m1 : ¬ 9 < dval e1 := by omega
  simp [List.zipIdx, rune_digit_if, runeOf_sub_digit, h0, h1, h2, h3, h4, h5, h6, h7, h8, k0, k1,
    runeOf_N, runeOf_L, runeOf_B, isDig_N, isDig_L, isDig_B, Spec.TaxId.num,
    n0, n1, n2, n3, n4, n5, n6, n7, n8, m0, m1]
  rw [id_pure, Int.tmod_eq_emod_of_nonneg (by omega), Bool.eq_iff_iff]
  simp only [decide_eq_true_eq, beq_iff_eq]
  omega

theorem src_nl_digits (code check : Str) (hc : code.all isAZ09 = true) (hk : check.all isAZ09 = true)
    (hl : code.length = 9) (hl2 : check.length = 2) :
    (TaxIdSrc.NL.validateDigits code check).isNone = NL.validateDigits code check := by
  unfold TaxIdSrc.NL.validateDigits NL.validateDigits
  simp only [Id.run, atoi_gated code hc, atoi_gated check hk, TaxIdSrc.NL.errInvalidVAT]
  cases h1 : atoi? code with
  | none => simp [errNew_isSome]; rfl
  | some n =>
    cases h2 : atoi? check with
    | none => simp [errNew_isSome]; rfl
    | some m =>
      have d1 := allDig_of_atoi h1
      have d2 := allDig_of_atoi h2
      obtain ⟨c0,c1,c2,c3,c4,c5,c6,c7,c8,rfl⟩ := len9 code hl
      match check, hl2 with
      | [e0, e1], _ =>
        simp only [allDig, List.all_cons, List.all_nil, Bool.and_true, Bool.and_eq_true] at d1 d2
        obtain ⟨h0, h1', h2', h3, h4, h5, h6, h7, h8⟩ := d1
        obtain ⟨k0, k1⟩ := d2
        have hm := src_nl_mod97 c0 c1 c2 c3 c4 c5 c6 c7 c8 e0 e1 h0 h1' h2' h3 h4 h5 h6 h7 h8 k0 k1
        simp only [List.cons_append, List.nil_append] at hm ⊢
        simp only [Option.isSome_none, Bool.false_eq_true, if_false, src_nl_mod11, hm, bind, pure,
          show (10 : Int) = ((10 : Nat) : Int) from rfl, tmod_nat]
        cases NL.checkMod97 ['N', 'L', c0, c1, c2, c3, c4, c5, c6, c7, c8, 'B', e0, e1] <;>
          by_cases he : NL.mod11 n = (n : Int) % 10 <;> simp [he, errNew_isNone]

/-- behind the generic gate `^[A-Z0-9]+$` -/
theorem src_nl_validate (s : Str) (hg : gate s = true) :
    (TaxIdSrc.NL.validateTaxCode (some s)).isNone = NL.regime s := by
  have hne : s ≠ [] := by intro e; subst e; simp [gate] at hg
  have hall : s.all isAZ09 = true := by simp only [gate, Bool.and_eq_true] at hg; exact hg.2
  unfold TaxIdSrc.NL.validateTaxCode
  simp only [Id.run, NL.regime, Option.getD_some, Option.isSome_some, not_true_eq_false, hne, if_false]
  by_cases hl : s.length = 12
  case neg =>
    have : (s.length : Int) ≠ 12 := by omega
    simp [hl, this, errNew_isNone]; rfl
  obtain ⟨c0,c1,c2,c3,c4,c5,c6,c7,c8,c9,c10,c11,rfl⟩ := len12 s hl
  by_cases h9 : c9 = 'B'
  case neg =>
    have : GoStr.byteAt [c0,c1,c2,c3,c4,c5,c6,c7,c8,c9,c10,c11] 9 ≠ 66 := by
      simp only [GoStr.byteAt, List.getD_cons_succ, List.getD_cons_zero]
      intro h; apply h9; rw [char_eq_iff_toNat]; exact h
    simp [this, h9, errNew_isNone]; rfl
  subst h9
  simp only [List.all_cons, List.all_nil, Bool.and_true, Bool.and_eq_true] at hall
  have := src_nl_digits [c0,c1,c2,c3,c4,c5,c6,c7,c8] [c10,c11] (by simp [hall]) (by simp [hall]) rfl rfl
  simp [GoStr.byteAt, GoStr.slice]
  rw [id_pure]
  exact this

/-! ### IN -/

theorem src_in_charToValue (c : Char) (h : isAZ09 c = true) :
    TaxIdSrc.IN.charToValue (GoStr.runeOf c) = (IN.charToValue c : Int) := by
  unfold TaxIdSrc.IN.charToValue IN.charToValue
  simp only [Id.run, GoStr.runeOf]
  simp only [isAZ09, isDig, isUp, Bool.or_eq_true, decide_eq_true_eq] at h
  by_cases hd : isDig c = true
  · have hb := isDig_bounds hd
    have : (c.toNat : Int) ≥ 48 ∧ (c.toNat : Int) ≤ 57 := by omega
    simp only [hd, this, and_self, if_true, pure]; omega
  · have hn : ¬ ((c.toNat : Int) ≥ 48 ∧ (c.toNat : Int) ≤ 57) := by
      simp only [isDig, decide_eq_true_eq] at hd; omega
    simp only [hd, hn, if_false, pure, Bool.false_eq_true]
    simp only [isDig, decide_eq_true_eq] at hd
    omega

theorem src_in_valueToChar (v : Nat) (hv : v < 36) :
    TaxIdSrc.IN.valueToChar (v : Int) = ((IN.valueToChar v).toNat : Int) := by
  unfold TaxIdSrc.IN.valueToChar IN.valueToChar
  simp only [Id.run]
  by_cases h9 : v ≤ 9
  · have : (v : Int) ≥ 0 ∧ (v : Int) ≤ 9 := by omega
    simp only [h9, this, and_self, if_true, pure]
    rw [ofNat_toNat_small _ (by omega)]; omega
  · have : ¬ ((v : Int) ≥ 0 ∧ (v : Int) ≤ 9) := by omega
    simp only [h9, this, if_false, pure]
    rw [ofNat_toNat_small _ (by omega)]; omega

private theorem in_sub (r : Nat) (h : r ≤ 36) : (Int.subNatNat 36 r).tmod 36 = (((36 - r) % 36 : Nat) : Int) := by
  rw [Int.subNatNat_eq_coe, Int.tmod_eq_emod_of_nonneg (by omega)]; omega

private theorem in_final (x : Int) (n : Nat) (c : Char) (m : String) (hx : x = (n : Int)) (hn : n < 36) :
    Option.isNone (if TaxIdSrc.IN.valueToChar x = (c.toNat : Int) then (@pure Id _ (Option GoStr.Str) none) else (@pure Id _ (Option GoStr.Str) (GoStr.errNew m)))
      = (IN.valueToChar n == c) := by
  subst hx
  rw [src_in_valueToChar n hn]
  by_cases h : IN.valueToChar n = c
  · subst h; simp
    rfl
  · have h' : ¬ (((IN.valueToChar n).toNat : Int) = (c.toNat : Int)) := by
      intro e; apply h; rw [char_eq_iff_toNat]; omega
    simp [h']
    rw [id_pure]; simp [errNew_isNone, h]

theorem src_in_checksum (s : Str) (hl : s.length = 15) (hg : s.all isAZ09 = true) :
    (TaxIdSrc.IN.hasValidChecksum s).isNone = IN.hasValidChecksum s := by
  obtain ⟨c0,c1,c2,c3,c4,c5,c6,c7,c8,c9,c10,c11,c12,c13,c14,rfl⟩ := len15 s hl
  simp only [List.all_cons, List.all_nil, Bool.and_true, Bool.and_eq_true] at hg
  obtain ⟨g0, g1, g2, g3, g4, g5, g6, g7, g8, g9, g10, g11, g12, g13, g14⟩ := hg
  unfold TaxIdSrc.IN.hasValidChecksum IN.hasValidChecksum
  simp only [Id.run]
  simp [List.zipIdx, src_in_charToValue, g0, g1, g2, g3, g4, g5, g6, g7, g8, g9, g10, g11, g12, g13, IN.loop, GoStr.byteAt]
  refine in_final _ _ _ _ ?_ ?_
  · norm_cast
    exact in_sub _ (by omega)
  · omega

private theorem in_fmt_gate (s : Str) (hf : IN.fmt s = true) : s.length = 15 ∧ s.all isAZ09 = true := by
  have hl : s.length = 15 := by simpa [rep] using matchSeq_length _ _ hf
  refine ⟨hl, ?_⟩
  obtain ⟨c0,c1,c2,c3,c4,c5,c6,c7,c8,c9,c10,c11,c12,c13,c14,rfl⟩ := len15 s hl
  simp only [IN.fmt, matchSeq, rep, List.replicate, List.append, List.cons_append, List.nil_append, Bool.and_eq_true, Bool.and_true] at hf
  obtain ⟨h0, h1, h2, h3, h4, h5, h6, h7, h8, h9, h10, h11, h12, h13, h14⟩ := hf
  have e13 : isAZ09 c13 = true := by simp only [isCh, beq_iff_eq] at h13; subst h13; decide
  have e12 : isAZ09 c12 = true := by
    simp only [IN.cls19AZ, isAZ09, isDig, Bool.or_eq_true, decide_eq_true_eq] at h12 ⊢
    rcases h12 with h | h
    · left; omega
    · right; exact h
  simp only [isAZ09, Bool.or_eq_true] at e12 e13 h14
  simp [isAZ09, h0, h1, h2, h3, h4, h5, h6, h7, h8, h9, h10, h11, e12, e13, h14]

theorem src_in_validate (s : Str) :
    (TaxIdSrc.IN.validateTaxCode (some s)).isNone = accepts IN.regime s := by
  unfold TaxIdSrc.IN.validateTaxCode
  simp only [Id.run, accepts, IN.regime, TaxIdSrc.IN.taxCodeRegexp, re_in]
  cases s with
  | nil => simp; rfl
  | cons c cs =>
    generalize hs : c :: cs = s
    have hne : s ≠ [] := by rw [← hs]; simp
    have hie := isEmpty_false_of_ne hne
    simp only [Option.getD_some, Option.isSome_some, not_true_eq_false, hne, false_or, if_false]
    by_cases hf : IN.fmt s = true
    case neg => simp [hf]; rw [id_pure]; simp [errNew_isNone, hie]
    obtain ⟨hl, hg⟩ := in_fmt_gate s hf
    have hc := src_in_checksum s hl hg
    simp only [hf, not_true_eq_false, if_false, hie, Bool.false_or, Bool.true_and, ← hc, bind, pure]
    cases TaxIdSrc.IN.hasValidChecksum s <;> rfl

/-! ### GB -/

theorem src_gb_multipliers : TaxIdSrc.GB.taxCodeMultipliers = GB.multipliers.map (Nat.cast : Nat → Int) := rfl

theorem src_gb_commercial (val : Str) (hd : allDig val = true) (hl : 9 ≤ val.length) :
    (TaxIdSrc.GB.commercialCheck val).isNone = GB.commercialCheck val := by
  have hne : val ≠ [] := by intro e; subst e; simp at hl
  have hne7 : val.take 7 ≠ [] := by
    intro e; have := congrArg List.length e; simp only [List.length_take, List.length_nil] at this; omega
  have hne2 : GoStr.slice val 7 9 ≠ [] := by
    intro e; have := congrArg List.length e
    simp only [GoStr.slice, List.length_drop, List.length_take, List.length_nil] at this; omega
  have hd2 : allDig (GoStr.slice val 7 9) = true := allDig_drop (allDig_take hd 9) 7
  have es : GoStr.slice val 7 9 = (val.drop 7).take 2 := by simp [GoStr.slice, List.drop_take]
  have hw := forIn_wsum GB.multipliers val 0 0 0 (by simp only [GB.multipliers, List.length_cons, List.length_nil]; omega)
  simp only [Nat.add_zero, Nat.cast_zero, List.drop_zero] at hw
  unfold TaxIdSrc.GB.commercialCheck GB.commercialCheck
  simp only [Id.run, atoi_digits val hne hd, atoi_digits _ hne7 (allDig_take hd 7), atoi_digits _ hne2 hd2, src_gb_multipliers,
    Int.toNat_natCast, hw]
  simp only [pure_bind, Int.toNat_natCast]
  rw [forIn_range_fuel _ (fun _ _ => rfl)]
  simp only [pure_bind]
  rw [forFuel_sub97 _ (by intro c; simp only [Id.run]; split <;> rfl)]
  rw [gb_subLoop _ _ (by omega) (by push_cast; omega)]
  rw [gb_subLoop (wloop GB.multipliers val 0 + 1) _ (by omega) (by push_cast; omega)]
  rw [es]
  generalize wloop GB.multipliers val 0 = S
  generalize atoi0 val = N
  generalize atoi0 (val.take 7) = B
  generalize atoi0 ((val.drop 7).take 2) = L
  clear hw es hd2 hne2 hne7 hne hd hl
  simp only [id_pure]
  generalize (S : Int) - 97 * (((S : Int) + 96) / 97) = C
  by_cases hN : N = 0
  · subst hN; simp [errNew_isNone]
  have hN' : ¬ ((N : Int) = 0) := by omega
  simp only [hN, hN', if_false, beq_iff_eq, Bool.false_eq_true]
  have c1 : ((B : Int) < 9990001) ↔ B < 9990001 := by omega
  have c2 : ((B : Int) < 100000) ↔ B < 100000 := by omega
  have c3 : ((B : Int) > 999999) ↔ B > 999999 := by omega
  have c4 : ((B : Int) < 9490001) ↔ B < 9490001 := by omega
  have c5 : ((B : Int) > 9700000) ↔ B > 9700000 := by omega
  have c6 : ((B : Int) > 1000000) ↔ B > 1000000 := by omega
  simp only [c1, c2, c3, c4, c5, c6, Bool.and_eq_true, Bool.or_eq_true, decide_eq_true_eq, beq_iff_eq, and_assoc]
  by_cases hC : C < 0 <;> simp only [hC, if_true, if_false]
  all_goals (clear c1 c2 c3 c4 c5 c6; (repeat' split) <;> simp_all [errNew_isNone])

theorem src_gb_gd (val : Str) (hg : (val.drop 2).all isAZ09 = true) :
    (TaxIdSrc.GB.governmentDepartmentCheck val).isNone = decide (atoi0 (val.drop 2) ≤ 499) := by
  unfold TaxIdSrc.GB.governmentDepartmentCheck
  simp only [Id.run, atoi_gated_fst _ hg, bind, pure]
  by_cases h : atoi0 (val.drop 2) ≤ 499
  · have : ¬ ((atoi0 (val.drop 2) : Int) > 499) := by omega
    simp [h, this]
  · have : ((atoi0 (val.drop 2) : Int) > 499) := by omega
    simp [h, this, errNew_isNone]

theorem src_gb_ha (val : Str) (hg : (val.drop 2).all isAZ09 = true) :
    (TaxIdSrc.GB.healthAuthorityCheck val).isNone = decide (atoi0 (val.drop 2) ≥ 500) := by
  unfold TaxIdSrc.GB.healthAuthorityCheck
  simp only [Id.run, atoi_gated_fst _ hg, bind, pure]
  by_cases h : atoi0 (val.drop 2) ≥ 500
  · have : ¬ ((atoi0 (val.drop 2) : Int) < 500) := by omega
    simp [h, this]
  · have : ((atoi0 (val.drop 2) : Int) < 500) := by omega
    simp [h, this, errNew_isNone]

private theorem gb_fmt_cases (s : Str) (hf : GB.fmt s = true) :
    (allDig s = true ∧ 9 ≤ s.length) ∨
    (∃ x y z, s = ['G', 'D', x, y, z] ∧ isDig x = true ∧ isDig y = true ∧ isDig z = true) ∨
    (∃ x y z, s = ['H', 'A', x, y, z] ∧ isDig x = true ∧ isDig y = true ∧ isDig z = true) := by
  simp only [GB.fmt, Bool.or_eq_true] at hf
  rcases hf with ((h | h) | h) | h
  · have := matchSeq_rep_isDig 9 s h; exact Or.inl ⟨this.1, by omega⟩
  · have := matchSeq_rep_isDig 12 s h; exact Or.inl ⟨this.1, by omega⟩
  · have hl : s.length = 5 := by simpa [rep] using matchSeq_length _ _ h
    obtain ⟨a, b, x, y, z, rfl⟩ := len5 s hl
    simp only [matchSeq, rep, List.replicate, isCh, Bool.and_eq_true, beq_iff_eq, Bool.and_true] at h
    obtain ⟨rfl, rfl, hx, hy, hz⟩ := h
    exact Or.inr (Or.inl ⟨x, y, z, rfl, hx, hy, hz⟩)
  · have hl : s.length = 5 := by simpa [rep] using matchSeq_length _ _ h
    obtain ⟨a, b, x, y, z, rfl⟩ := len5 s hl
    simp only [matchSeq, rep, List.replicate, isCh, Bool.and_eq_true, beq_iff_eq, Bool.and_true] at h
    obtain ⟨rfl, rfl, hx, hy, hz⟩ := h
    exact Or.inr (Or.inr ⟨x, y, z, rfl, hx, hy, hz⟩)

theorem src_gb_validate (s : Str) :
    (TaxIdSrc.GB.validateTaxCode (some s)).isNone = accepts GB.regime s := by
  unfold TaxIdSrc.GB.validateTaxCode
  simp only [Id.run, accepts, GB.regime, TaxIdSrc.GB.taxCodeRegexps]
  cases s with
  | nil => simp; rfl
  | cons c cs =>
    generalize hs : c :: cs = s
    have hne : s ≠ [] := by rw [← hs]; simp
    have hie := isEmpty_false_of_ne hne
    simp only [Option.getD_some, Option.isSome_some, not_true_eq_false, hne, false_or, if_false]
    rw [forIn_match_any]
    simp only [List.any_cons, List.any_nil, re_d9, re_d12, re_gd, re_ha, Bool.or_false, Bool.false_or]
    have hfm : (FR.sirenRe s || (matchSeq (rep 12 isDig) s || (matchSeq (isCh 'G' :: isCh 'D' :: rep 3 isDig) s ||
        matchSeq (isCh 'H' :: isCh 'A' :: rep 3 isDig) s))) = GB.fmt s := by
      simp [GB.fmt, FR.sirenRe, Bool.or_assoc]
    rw [hfm]
    by_cases hf : GB.fmt s = true
    case neg => simp [hf]; rw [id_pure]; simp [errNew_isNone, hie]
    simp only [hf, pure_bind, not_true_eq_false, if_false, hie, Bool.false_or]
    simp only [hasPrefix2]
    rcases gb_fmt_cases s hf with ⟨hd, hl⟩ | ⟨x, y, z, rfl, hx, hy, hz⟩ | ⟨x, y, z, rfl, hx, hy, hz⟩
    · have h0 : isDig (s.getD 0 ' ') = true := by
        have : 0 < s.length := by omega
        simpa [List.getD_eq_getElem?_getD, this] using allDig_getElem hd 0 this
      have e1 : (s.take 2 == ['G', 'D']) = false := by
        match s, hne, h0 with
        | a :: t, _, h0 =>
          simp only [List.getD_cons_zero] at h0
          cases t <;> simp <;> (intro e; subst e; simp [isDig] at h0)
      have e2 : (s.take 2 == ['H', 'A']) = false := by
        match s, hne, h0 with
        | a :: t, _, h0 =>
          simp only [List.getD_cons_zero] at h0
          cases t <;> simp <;> (intro e; subst e; simp [isDig] at h0)
      simp only [e1, e2, Bool.false_eq_true, if_false, Bool.not_true]
      rw [id_pure]
      exact src_gb_commercial s hd hl
    · have := src_gb_gd ['G', 'D', x, y, z] (by simp [isAZ09, hx, hy, hz])
      simp [this]
      rw [id_pure]; exact this
    · have := src_gb_ha ['H', 'A', x, y, z] (by simp [isAZ09, hx, hy, hz])
      simp [this]
      rw [id_pure]; exact this

/-! ### BR -/

theorem src_br_verify (s : Str) (hl : s.length = 14) (hd : allDig s = true) (ws : List Nat) (pos : Nat)
    (hw : ws = BR.weights1 ∧ pos = 12 ∨ ws = BR.weights2 ∧ pos = 13) :
    (TaxIdSrc.BR.verifyDigit s (ws.map (Nat.cast : Nat → Int)) (pos : Int)).isNone = BR.verifyDigit s ws pos := by
  obtain ⟨c0,c1,c2,c3,c4,c5,c6,c7,c8,c9,c10,c11,c12,c13,rfl⟩ := len14 s hl
  simp only [allDig, List.all_cons, List.all_nil, Bool.and_true, Bool.and_eq_true] at hd
  obtain ⟨h0, h1, h2, h3, h4, h5, h6, h7, h8, h9, h10, h11, h12, h13⟩ := hd
  have b0 := dval_le h0; have b1 := dval_le h1; have b2 := dval_le h2; have b3 := dval_le h3; have b4 := dval_le h4
  have b5 := dval_le h5; have b6 := dval_le h6; have b7 := dval_le h7; have b8 := dval_le h8; have b9 := dval_le h9
  have b10 := dval_le h10; have b11 := dval_le h11; have b12 := dval_le h12; have b13 := dval_le h13
  unfold TaxIdSrc.BR.verifyDigit BR.verifyDigit
  simp only [Id.run]
  rw [forIn_range_fuel _ (fun _ _ => rfl)]
  rcases hw with ⟨rfl, rfl⟩ | ⟨rfl, rfl⟩
  · simp [BR.weights1, forFuel, GoStr.byteAt, ofByte_toNat, atoi_single_digit, TaxId.atoi_single, BR.sumLoop,
      h0, h1, h2, h3, h4, h5, h6, h7, h8, h9, h10, h11, h12, h13]
    simp only [id_pure]
    norm_cast
    clear h0 h1 h2 h3 h4 h5 h6 h7 h8 h9 h10 h11 h12 h13 hl
    src_arith
  · simp [BR.weights2, forFuel, GoStr.byteAt, ofByte_toNat, atoi_single_digit, TaxId.atoi_single, BR.sumLoop,
      h0, h1, h2, h3, h4, h5, h6, h7, h8, h9, h10, h11, h12, h13]
    simp only [id_pure]
    norm_cast
    clear h0 h1 h2 h3 h4 h5 h6 h7 h8 h9 h10 h11 h12 h13 hl
    src_arith

/-- for every string of 14 digits (the validator itself answers "must contain only digits" otherwise:
    not covered here, see the header) -/
theorem src_br_validate_digits (s : Str) (hl : s.length = 14) (hd : allDig s = true) :
    (TaxIdSrc.BR.validateTaxCode (some s)).isNone = BR.regime s := by
  have hne : s ≠ [] := by intro e; subst e; simp at hl
  have hl' : ¬ ((s.length : Int) ≠ 14) := by omega
  have e1 := src_br_verify s hl hd BR.weights1 12 (Or.inl ⟨rfl, rfl⟩)
  have e2 := src_br_verify s hl hd BR.weights2 13 (Or.inr ⟨rfl, rfl⟩)
  have w1 : ([5, 4, 3, 2, 9, 8, 7, 6, 5, 4, 3, 2] : List Int) = BR.weights1.map (Nat.cast : Nat → Int) := rfl
  have w2 : ([6, 5, 4, 3, 2, 9, 8, 7, 6, 5, 4, 3, 2] : List Int) = BR.weights2.map (Nat.cast : Nat → Int) := rfl
  unfold TaxIdSrc.BR.validateTaxCode
  simp only [Id.run, BR.regime, Option.getD_some, Option.isSome_some, not_true_eq_false, hne, false_or, if_false, hl', hl,
    bne_self_eq_false, Bool.false_eq_true]
  rw [w2, w1, show ((12 : Int)) = ((12 : Nat) : Int) from rfl, show ((13 : Int)) = ((13 : Nat) : Int) from rfl, ← e1, ← e2]
  cases h1 : TaxIdSrc.BR.verifyDigit s (BR.weights1.map Nat.cast) ((12 : Nat) : Int) <;>
    cases h2 : TaxIdSrc.BR.verifyDigit s (BR.weights2.map Nat.cast) ((13 : Nat) : Int) <;> simp [h1, h2] <;> rfl

/-! ### the loops never run out of fuel (one theorem per entry of `fuelChecks`) -/

theorem luhn_fuel_suffices (number : Str) : TaxIdSrc.Common.ComputeLuhnCheckDigit_fuelOK number = true := by
  unfold TaxIdSrc.Common.ComputeLuhnCheckDigit_fuelOK
  simp only [Id.run]
  rw [forIn_range_fuel _ (fun _ _ => rfl)]
  simp only [pure_bind]
  generalize hr : forFuel _ number.length _ = r
  have key : False ∨ (True ∧ ¬ (- r.2.2) < 1) := by
    rw [← hr]
    exact forFuel_counter _ (fun b : Int × Int × Int => - b.2.2) 1 (fun _ => False) (fun _ => True)
      (by fuel_step) (by fuel_step) number.length _ trivial (by simp)
  clear hr
  rcases key with h | ⟨_, h2⟩
  · exact h.elim
  · have : ¬ (r.2.2 ≥ 0) := by omega
    simp only [this, if_false]; rfl

theorem pt_fuel_suffices (v : Option Str) : TaxIdSrc.PT.validateTaxCode_fuelOK v = true := by
  unfold TaxIdSrc.PT.validateTaxCode_fuelOK
  simp only [Id.run]
  split
  · rfl
  split
  · rfl
  rw [forIn_all_guard]
  split
  · simp only [pure_bind]
    split
    · rfl
    split
    · rfl
    rw [forIn_range_fuel _ (fun _ _ => rfl)]
    simp only [pure_bind]
    generalize hr : forFuel _ 9 _ = r
    have key : (r.1 = some true) ∨ (r.1 = none ∧ ¬ r.2.2 < 9) := by
      rw [← hr]
      exact forFuel_counter _ (fun b : Option Bool × Int × Int => b.2.2) 9 (fun b => b.1 = some true) (fun b => b.1 = none)
        (by fuel_step)
        (by fuel_step)
        9 _ rfl (by simp)
    clear hr
    rcases key with h | ⟨h1, h2⟩
    · simp [h]; rfl
    · simp [h1, h2]
      rfl
  · rfl

theorem nl_mod11_fuel_suffices (num : Int) : TaxIdSrc.NL.mod11_fuelOK num = true := by
  unfold TaxIdSrc.NL.mod11_fuelOK
  simp only [Id.run]
  rw [forIn_range_fuel _ (fun _ _ => rfl)]
  simp [forFuel]
  rfl

theorem de_fuel_suffices (val : Str) : TaxIdSrc.DE.validateTaxCodeChecksum_fuelOK val = true := by
  unfold TaxIdSrc.DE.validateTaxCodeChecksum_fuelOK
  simp only [Id.run]
  rw [forIn_range_fuel _ (fun _ _ => rfl)]
  simp only [pure_bind]
  generalize hr : forFuel _ 8 _ = r
  have key : (r.1 = some true) ∨ (r.1 = none ∧ ¬ r.2.2.2 < 8) := by
    rw [← hr]
    exact forFuel_counter _ (fun b : Option Bool × Int × Int × Int => b.2.2.2) 8 (fun b => b.1 = some true) (fun b => b.1 = none)
      (by fuel_step) (by fuel_step) 8 _ rfl (by simp)
  clear hr
  rcases key with h | ⟨h1, h2⟩
  · simp [h]; rfl
  · simp only [h1, h2, if_false]
    (repeat' split) <;> rfl

theorem gr_fuel_suffices (val : Str) : TaxIdSrc.GR.hasValidChecksum_fuelOK val = true := by
  unfold TaxIdSrc.GR.hasValidChecksum_fuelOK
  simp only [Id.run]
  generalize hr1 : forIn (m := Id) val.zipIdx _ _ = r1
  have h1 : r1.1 = none ∨ r1.1 = some true := by
    rw [← hr1]
    exact forIn_list_inv _ _ (fun b : Option Bool × List Int => b.1 = none ∨ b.1 = some true) (by inv_step) _ (Or.inl rfl)
  clear hr1
  simp only [bind]
  rcases h1 with h1 | h1
  · rw [h1]
    show (if _ then _ else _) = true
    rw [forIn_range_fuel _ (fun _ _ => rfl)]
    generalize hr : forFuel _ 8 _ = r
    have key : False ∨ (True ∧ ¬ r.2 < 8) := by
      rw [← hr]
      exact forFuel_counter _ (fun b : Int × Int => b.2) 8 (fun _ => False) (fun _ => True)
        (by fuel_step) (by fuel_step) 8 _ trivial (by simp)
    clear hr
    rcases key with h | ⟨_, h2⟩
    · exact h.elim
    · show (if r.2 < 8 then _ else _) = true
      rw [if_neg h2]; rfl
  · rw [h1]; rfl

theorem br_fuel_suffices (cnpj : Str) (weights : List Int) (position : Int) :
    TaxIdSrc.BR.verifyDigit_fuelOK cnpj weights position = true := by
  unfold TaxIdSrc.BR.verifyDigit_fuelOK
  simp only [Id.run]
  rw [forIn_range_fuel _ (fun _ _ => rfl)]
  simp only [pure_bind]
  generalize hr : forFuel _ weights.length _ = r
  have key : (r.1 = some true) ∨ (r.1 = none ∧ ¬ r.2.2 < (weights.length : Int)) := by
    rw [← hr]
    exact forFuel_counter _ (fun b : Option Bool × Int × Int => b.2.2) (weights.length : Int) (fun b => b.1 = some true)
      (fun b => b.1 = none) (by fuel_step) (by fuel_step) weights.length _ rfl (by simp)
  clear hr
  rcases key with h | ⟨h1, h2⟩
  · simp [h]; rfl
  · simp only [h1, h2, if_false]
    (repeat' split) <;> rfl

private theorem gb_subLoop_nonpos (c : Int) : ¬ (GB.subLoop (Int.toNat c) c > 0) := by
  by_cases h : c ≤ 0
  · have : Int.toNat c = 0 := by omega
    rw [this]; simp only [GB.subLoop]; omega
  · rw [gb_subLoop _ _ (by omega) (by omega)]; omega

theorem gb_fuel_suffices (val : Str) : TaxIdSrc.GB.commercialCheck_fuelOK val = true := by
  unfold TaxIdSrc.GB.commercialCheck_fuelOK
  simp only [Id.run]
  split
  · rfl
  generalize (forIn (m := Id) TaxIdSrc.GB.taxCodeMultipliers.zipIdx _ _) = sum
  simp only [bind]
  rw [forIn_range_fuel _ (fun _ _ => rfl)]
  rw [forFuel_sub97 _ (by intro c; simp only [Id.run]; split <;> rfl)]
  have := gb_subLoop_nonpos sum
  simp only [id_pure]
  rw [if_neg this]
  (repeat' split) <;> rfl

/-! ### bookkeeping of the translation

  Translated, compiled, but NOT yet related to the model by a theorem (nothing is claimed about them):
  `at.commercialCheck`, `at.validateTaxCode`, `be.commercialCheck`, `be.validateTaxCode`, `ch.commercialCheck`,
  `ch.validateTaxCode` (the float64 detours: `math.Mod`, `math.Floor`, `float64(n)`), and `br.validateTaxCode` on
  strings of 14 characters that are not all digits (`src_br_validate_digits` covers the digit strings). -/

/-- every loop with a fuel term has its theorem above -/
theorem fuel_checks_listed : TaxIdSrc.fuelChecks =
    ["common.ComputeLuhnCheckDigit_fuelOK", "pt.validateTaxCode_fuelOK", "nl.mod11_fuelOK", "de.validateTaxCodeChecksum_fuelOK",
     "gr.hasValidChecksum_fuelOK", "br.verifyDigit_fuelOK", "gb.commercialCheck_fuelOK"] := by decide

/-- what the subset does not reach (it can only shrink): MX `ValidateTaxCode` reads a variable of
    package tax; ES goes through `regexp.FindStringSubmatch`/`SubexpNames`, a map that is written, and `k & 1` -/
theorem untranslated_pinned : TaxIdSrc.untranslated =
    ["mx.ValidateTaxCode", "es.verifyOrgCodeMatches", "es.verifyNationalCode", "es.verifyForeignCode", "es.verifyOrgCode",
     "es.verifyOtherCode", "es.DetermineTaxCodeType", "es.validateTaxCode", "es.extractMatches"] := by decide

/-- every subtraction on a byte (`val[i] - '0'`: truncated in the translation, wrapping in Go), with
    the conditions around it: each is reached only behind a digit gate (luhn: callers pass digit
    strings; GB, AT, BE, CH: the regexp of `validateTaxCode` admits digits only at these positions) -/
theorem nat_subtractions_as_reviewed : TaxIdSrc.natSubs =
    [("common.ComputeLuhnCheckDigit", "number[i] - '0'", ["i >= 0"]),
     ("gb.commercialCheck", "val[i] - '0'", []),
     ("at.commercialCheck", "val[i+1] - '0'", []),
     ("at.commercialCheck", "val[8] - '0'", []),
     ("be.commercialCheck", "val[1] - '0'", []),
     ("ch.commercialCheck", "val[i+1] - '0'", []),
     ("ch.commercialCheck", "val[9] - '0'", [])] := by decide

/-- every regexp that a translated function matches against has an entry in the table of the
    declared primitive `Re.reMatch` (Model/TaxIdRe.lean): a changed pattern text breaks this -/
theorem re_patterns_known :
    ([TaxIdSrc.PL.taxIdentityRegexp, TaxIdSrc.FR.taxCodeVATRegexp, TaxIdSrc.FR.taxCodeSIRENRegexp, TaxIdSrc.GR.taxCodeRegexp,
      TaxIdSrc.IN.taxCodeRegexp, TaxIdSrc.AE.trnRegex, TaxIdSrc.MX.TaxIdentityRegexpPerson, TaxIdSrc.MX.TaxIdentityRegexpCompany,
      TaxIdSrc.ES.taxCodeNationalRegexp, TaxIdSrc.ES.taxCodeForeignRegexp, TaxIdSrc.ES.taxCodeOrgRegexp, TaxIdSrc.ES.taxCodeOtherRegexp]
      ++ TaxIdSrc.DE.taxCodeRegexps ++ TaxIdSrc.GB.taxCodeRegexps ++ TaxIdSrc.AT.taxCodeRegexps ++ TaxIdSrc.BE.taxCodeRegexps
      ++ TaxIdSrc.CH.taxCodeRegexps).all Re.reKnown = true := by decide

/-- a dynamic value that is not a `cbc.Code` is accepted by every checker (`if !ok { return nil }`) -/
theorem src_not_a_code :
    TaxIdSrc.PL.validateTaxCode none = none ∧ TaxIdSrc.PT.validateTaxCode none = none ∧ TaxIdSrc.NL.validateTaxCode none = none ∧
    TaxIdSrc.IT.validateTaxCode none = none ∧ TaxIdSrc.FR.validateVATTaxCode none = none ∧ TaxIdSrc.DE.validateTaxCode none = none ∧
    TaxIdSrc.CO.validateTaxCode none = none ∧ TaxIdSrc.GR.validateTaxCode none = none ∧ TaxIdSrc.IN.validateTaxCode none = none ∧
    TaxIdSrc.GB.validateTaxCode none = none ∧ TaxIdSrc.AE.validateTRNCode none = none := by
  refine ⟨?_, ?_, ?_, ?_, ?_, ?_, ?_, ?_, ?_, ?_, ?_⟩ <;> rfl

/-! ### non-vacuity: the regenerated checkers on real codes -/

example : (TaxIdSrc.PL.validateTaxCode (some "5260001246".toList)).isNone = true ∧
    (TaxIdSrc.PL.validateTaxCode (some "5260001247".toList)).isNone = false := by
  rw [src_pl_validate, src_pl_validate]; decide
example : (TaxIdSrc.NL.validateTaxCode (some "000099998B57".toList)).isNone = true := by
  rw [src_nl_validate _ (by decide)]; decide
example : (TaxIdSrc.CO.validateTaxCode (some "9014586527".toList)).isNone = true ∧
    (TaxIdSrc.FR.validateVATTaxCode (some "39356000000".toList)).isNone = true ∧
    (TaxIdSrc.GB.validateTaxCode (some "350983637".toList)).isNone = true ∧
    (TaxIdSrc.IN.validateTaxCode (some "27AAPFU0939F1ZV".toList)).isNone = true ∧
    (TaxIdSrc.DE.validateTaxCode (some "111111125".toList)).isNone = true := by
  rw [src_co_validate, src_fr_validate, src_gb_validate, src_in_validate, src_de_validate]; decide
example : gate "000099998B57".toList = true ∧ DE.fmt "111111125".toList = true ∧ GR.fmt "925667500".toList = true ∧
    allDig "11222333000181".toList = true := by decide
/-- the hypotheses of the gated theorems above are satisfiable (luhn, FR, CO, IN, GB, GD/HA, NL digits) -/
example : allDig "7992739871".toList = true ∧ ("356000000".toList).all isAZ09 = true ∧
    (allDig "901458652".toList = true ∧ isDig '7' = true ∧ "901458652".toList.length = 9) ∧
    ("27AAPFU0939F1ZV".toList.length = 15 ∧ ("27AAPFU0939F1ZV".toList).all isAZ09 = true) ∧
    (allDig "350983637".toList = true ∧ 9 ≤ "350983637".toList.length) ∧
    (("GD001".toList.drop 2).all isAZ09 = true ∧ ("HA501".toList.drop 2).all isAZ09 = true) ∧
    (("000099998".toList).all isAZ09 = true ∧ ("57".toList).all isAZ09 = true) ∧ isAZ09 'Q' = true ∧ 35 < 36 := by decide

end Src

end GoblVerif.Props.C13
