/-
  C13 — Tax identity codes are accepted exactly when the national check allows;
  normalisation laws.

  Only property theorems live here (helper lemmas: Proofs/TaxId.lean).
  `XX.goValid` is the model of Go's validation of a non-empty code
  (Model/TaxId.lean: generic gate `^[A-Z0-9]+$` and the regime validator),
  `Spec.TaxId.XX.format/check` the published national rule (Spec/C13.lean).
  Every `…_valid_iff_spec` is over ALL strings.
-/
import GoblVerif.Proofs.TaxId
import GoblVerif.Proofs.TaxIdES
import GoblVerif.Proofs.TaxIdGB
import GoblVerif.Proofs.TaxIdIN
import GoblVerif.Proofs.Normalize
import GoblVerif.Proofs.Detect
import GoblVerif.Generated.TaxIdFacts

namespace GoblVerif.Props.C13
open GoblVerif.TaxId GoblVerif.TaxId.Norm GoblVerif.TaxId.Detect
open GoblVerif.Spec.TaxId (digs dot num dg isDigits digitSum luhnValid luhnTotal)

/-! ## model of Go = published rule, per regime -/

theorem ae_valid_iff_spec (s : Str) :
    AE.goValid s = true ↔ (Spec.TaxId.AE.format s = true ∧ Spec.TaxId.AE.check s = true) := by
  by_cases hl : s.length = 15
  · obtain ⟨c0,c1,c2,c3,c4,c5,c6,c7,c8,c9,c10,c11,c12,c13,c14,rfl⟩ := len15 s hl
    simp [AE.goValid, AE.regime, gate, matchSeq, rep, List.replicate,
      Spec.TaxId.AE.format, Spec.TaxId.AE.check, isDigits, isAZ09, isDig, isUp]
    omega
  · have : AE.regime s = false := matchSeq_false_of_length (by simpa [rep] using hl)
    simp [AE.goValid, Spec.TaxId.AE.format, hl, this]

theorem pl_valid_iff_spec (s : Str) :
    PL.goValid s = true ↔ (Spec.TaxId.PL.format s = true ∧ Spec.TaxId.PL.check s = true) := by
  by_cases hl : s.length = 10
  · obtain ⟨c0,c1,c2,c3,c4,c5,c6,c7,c8,c9,rfl⟩ := len10 s hl
    simp [PL.goValid, PL.regime, PL.fmt, PL.validateNIPChecksum, gate, matchSeq, rep, List.replicate, allDig, wloop, PL.weights,
      Spec.TaxId.PL.format, Spec.TaxId.PL.check, isDigits, digs, dot, dg, isAZ09, isDig, isUp, PL.d19, dval, char_eq_iff_toNat]
    taxid_arith
  · have h1 : PL.fmt s = false := by
      simp only [PL.fmt, Bool.or_eq_false_iff]
      exact ⟨matchSeq_false_of_length (by simpa [rep] using hl), matchSeq_false_of_length (by simpa [rep] using hl)⟩
    simp [PL.goValid, PL.regime, Spec.TaxId.PL.format, hl, h1]

theorem gr_valid_iff_spec (s : Str) :
    GR.goValid s = true ↔ (Spec.TaxId.GR.format s = true ∧ Spec.TaxId.GR.check s = true) := by
  by_cases hl : s.length = 9
  · obtain ⟨c0,c1,c2,c3,c4,c5,c6,c7,c8,rfl⟩ := len9 s hl
    simp [GR.goValid, GR.regime, GR.fmt, GR.hasValidChecksum, GR.sumLoop, gate, allDig, matchSeq, rep, List.replicate,
      Spec.TaxId.GR.format, Spec.TaxId.GR.check, isDigits, digs, dot, dg, isAZ09, isDig, isUp, dval]
    taxid_arith
  · have : GR.fmt s = false := matchSeq_false_of_length (by simpa [rep] using hl)
    simp [GR.goValid, GR.regime, Spec.TaxId.GR.format, hl, this]

theorem ch_valid_iff_spec (s : Str) :
    CH.goValid s = true ↔ (Spec.TaxId.CH.format s = true ∧ Spec.TaxId.CH.check s = true) := by
  by_cases hl : s.length = 10
  · obtain ⟨c0,c1,c2,c3,c4,c5,c6,c7,c8,c9,rfl⟩ := len10 s hl
    simp [CH.goValid, CH.regime, CH.fmt, CH.commercialCheck, CH.multipliers, wloop, gate, matchSeq, rep, List.replicate, isCh,
      Spec.TaxId.CH.format, Spec.TaxId.CH.check, isDigits, digs, dot, dg, isAZ09, isDig, isUp, dval, char_eq_iff_toNat]
    taxid_arith
  · have : CH.fmt s = false := matchSeq_false_of_length (by simpa [rep] using hl)
    simp [CH.goValid, CH.regime, Spec.TaxId.CH.format, hl, this]

theorem at_valid_iff_spec (s : Str) :
    AT.goValid s = true ↔ (Spec.TaxId.AT.format s = true ∧ Spec.TaxId.AT.check s = true) := by
  by_cases hl : s.length = 9
  · obtain ⟨c0,c1,c2,c3,c4,c5,c6,c7,c8,rfl⟩ := len9 s hl
    simp [AT.goValid, AT.regime, AT.fmt, AT.commercialCheck, AT.multipliers, AT.loop, gate, matchSeq, rep, List.replicate, isCh,
      Spec.TaxId.AT.format, Spec.TaxId.AT.check, isDigits, digs, dg, digitSum, isAZ09, isDig, isUp, dval, char_eq_iff_toNat, at_step]
    taxid_arith
  · have : AT.fmt s = false := matchSeq_false_of_length (by simpa [rep] using hl)
    simp [AT.goValid, AT.regime, Spec.TaxId.AT.format, hl, this]

theorem pt_valid_iff_spec (s : Str) :
    PT.goValid s = true ↔ (Spec.TaxId.PT.format s = true ∧ Spec.TaxId.PT.check s = true) := by
  by_cases hl : s.length = 9
  · obtain ⟨c0,c1,c2,c3,c4,c5,c6,c7,c8,rfl⟩ := len9 s hl
    simp only [PT.goValid, PT.regime, Spec.TaxId.PT.format, List.getD_cons_zero, List.getD_cons_succ, pt_prefix_eq,
      List.take_succ_cons, List.take_zero]
    generalize PT.validPrefixes.contains [c0] = A
    generalize PT.validPrefixes.contains [c0, c1] = B
    simp [PT.sumLoop, gate, allDig, Spec.TaxId.PT.check, isDigits, digs, dot, dg, isAZ09, isDig, isUp, dval]
    cases A <;> cases B <;> simp <;> taxid_arith
  · simp [PT.goValid, PT.regime, Spec.TaxId.PT.format, hl]

theorem it_valid_iff_spec (s : Str) :
    IT.goValid s = true ↔ (Spec.TaxId.IT.format s = true ∧ Spec.TaxId.IT.check s = true) := by
  by_cases hl : s.length = 11
  · obtain ⟨c0,c1,c2,c3,c4,c5,c6,c7,c8,c9,c10,rfl⟩ := len11 s hl
    by_cases hf : Spec.TaxId.IT.format [c0,c1,c2,c3,c4,c5,c6,c7,c8,c9,c10] = true
    · simp only [hf, true_and]
      simp [Spec.TaxId.IT.format, isDigits, isDig] at hf
      simp (disch := omega) [IT.goValid, IT.regime, luhnCheckDigit, luhnLoop, gate, allDig,
        Spec.TaxId.IT.check, luhnValid, luhnTotal, digs, digitSum, isAZ09, isDig, isUp, dval, char_eq_iff_toNat,
        digitChar_mod10_toNat, luhn_dbl]
      taxid_arith
    · have hf' : Spec.TaxId.IT.format [c0,c1,c2,c3,c4,c5,c6,c7,c8,c9,c10] = false := by simpa using hf
      simp only [hf', Bool.false_eq_true, false_and, iff_false]; intro hgo
      simp [Spec.TaxId.IT.format, isDigits, isDig] at hf
      simp [IT.goValid, IT.regime, gate, allDig, isAZ09, isDig, isUp] at hgo
      omega
  · simp [IT.goValid, IT.regime, Spec.TaxId.IT.format, hl]

theorem de_valid_iff_spec (s : Str) :
    DE.goValid s = true ↔ (Spec.TaxId.DE.format s = true ∧ Spec.TaxId.DE.check s = true) := by
  by_cases hl : s.length = 9
  · by_cases hf : Spec.TaxId.DE.format s = true
    · simp only [hf, true_and]
      have hd : ∀ x ∈ s, isDig x = true := by simp [Spec.TaxId.DE.format, isDigits] at hf; exact hf.1.2
      have h8 : (s.take 8).all isDig = true := by
        rw [List.all_eq_true]; intro x hx; exact hd x (List.mem_of_mem_take hx)
      have hloop := de_loop 8 s 10 (by omega) h8
      have hr := de_fold_range (digs (s.take 8)) 10 (by omega)
      have hc : Spec.TaxId.DE.check s = (((digs (s.take 8)).foldl Spec.TaxId.DE.step 10 + dg (digs s) 9) % 10 == 1) := by
        simp [Spec.TaxId.DE.check, digs]
      simp only [DE.goValid, DE.regime, DE.validateTaxCodeChecksum, hloop, hc]
      generalize List.foldl Spec.TaxId.DE.step 10 (digs (List.take 8 s)) = p at hr
      obtain ⟨c0,c1,c2,c3,c4,c5,c6,c7,c8,rfl⟩ := len9 s hl
      simp [Spec.TaxId.DE.format, isDigits, isDig, char_eq_iff_toNat] at hf
      have h8' : atoi? [c8] = some (dval c8) := atoi_single c8 (by simp [isDig]; omega)
      simp (disch := omega) [DE.fmt, h8', gate, matchSeq, rep, List.replicate,
        digs, dg, isAZ09, isDig, isUp, dval]
      simp
      split <;> omega
    · obtain ⟨c0,c1,c2,c3,c4,c5,c6,c7,c8,rfl⟩ := len9 s hl
      have hf' : Spec.TaxId.DE.format [c0,c1,c2,c3,c4,c5,c6,c7,c8] = false := by simpa using hf
      simp only [hf', Bool.false_eq_true, false_and, iff_false]; intro hgo
      simp [Spec.TaxId.DE.format, isDigits, isDig, char_eq_iff_toNat] at hf
      simp [DE.goValid, DE.regime, DE.fmt, gate, matchSeq, rep, List.replicate, isAZ09, isDig, isUp] at hgo
      omega
  · have : DE.fmt s = false := matchSeq_false_of_length (by simpa [rep] using hl)
    simp [DE.goValid, DE.regime, Spec.TaxId.DE.format, hl, this]

theorem be_valid_iff_spec (s : Str) :
    BE.goValid s = true ↔ (Spec.TaxId.BE.format s = true ∧ Spec.TaxId.BE.check s = true) := by
  by_cases hl9 : s.length = 9
  · obtain ⟨c0,c1,c2,c3,c4,c5,c6,c7,c8,rfl⟩ := len9 s hl9
    by_cases hf : Spec.TaxId.BE.format [c0,c1,c2,c3,c4,c5,c6,c7,c8] = true
    · simp only [hf, true_and]
      simp [Spec.TaxId.BE.format, Spec.TaxId.BE.pad, isDigits, isDig, char_eq_iff_toNat] at hf
      have e1 : atoi0 ['0',c0,c1,c2,c3,c4,c5,c6] = num (digs ['0',c0,c1,c2,c3,c4,c5,c6]) :=
        atoi0_eq _ (by simp) (by simp [allDig, isDig]; omega)
      have e2 : atoi0 [c7,c8] = num (digs [c7,c8]) := atoi0_eq _ (by simp) (by simp [allDig, isDig]; omega)
      simp (disch := omega) [BE.goValid, BE.regime, BE.fmt, BE.commercialCheck, e1, e2, gate, matchSeq, rep, List.replicate, isCh,
        Spec.TaxId.BE.check, Spec.TaxId.BE.pad, digs, num, isAZ09, isDig, isUp, dval, char_eq_iff_toNat]
      taxid_arith
    · have hf' : Spec.TaxId.BE.format [c0,c1,c2,c3,c4,c5,c6,c7,c8] = false := by simpa using hf
      simp only [hf', Bool.false_eq_true, false_and, iff_false]; intro hgo
      simp [Spec.TaxId.BE.format, Spec.TaxId.BE.pad, isDigits, isDig, char_eq_iff_toNat] at hf
      simp [BE.goValid, BE.regime, BE.fmt, BE.commercialCheck, gate, matchSeq, rep, List.replicate, isCh, isAZ09, isDig, isUp, dval, char_eq_iff_toNat] at hgo
      omega
  · by_cases hl : s.length = 10
    · obtain ⟨c0,c1,c2,c3,c4,c5,c6,c7,c8,c9,rfl⟩ := len10 s hl
      by_cases hf : Spec.TaxId.BE.format [c0,c1,c2,c3,c4,c5,c6,c7,c8,c9] = true
      · simp only [hf, true_and]
        simp [Spec.TaxId.BE.format, Spec.TaxId.BE.pad, isDigits, isDig, char_eq_iff_toNat] at hf
        have e1 : atoi0 [c0,c1,c2,c3,c4,c5,c6,c7] = num (digs [c0,c1,c2,c3,c4,c5,c6,c7]) :=
          atoi0_eq _ (by simp) (by simp [allDig, isDig]; omega)
        have e2 : atoi0 [c8,c9] = num (digs [c8,c9]) := atoi0_eq _ (by simp) (by simp [allDig, isDig]; omega)
        simp (disch := omega) [BE.goValid, BE.regime, BE.fmt, BE.commercialCheck, e1, e2, gate, matchSeq, rep, List.replicate, isCh,
          Spec.TaxId.BE.check, Spec.TaxId.BE.pad, digs, num, isAZ09, isDig, isUp, dval, char_eq_iff_toNat]
        taxid_arith
      · have hf' : Spec.TaxId.BE.format [c0,c1,c2,c3,c4,c5,c6,c7,c8,c9] = false := by simpa using hf
        simp only [hf', Bool.false_eq_true, false_and, iff_false]; intro hgo
        simp [Spec.TaxId.BE.format, Spec.TaxId.BE.pad, isDigits, isDig, char_eq_iff_toNat] at hf
        simp [BE.goValid, BE.regime, BE.fmt, BE.commercialCheck, gate, matchSeq, rep, List.replicate, isCh, isAZ09, isDig, isUp, dval, char_eq_iff_toNat] at hgo
        omega
    · have h1 : BE.fmt s = false := by
        simp only [BE.fmt, Bool.or_eq_false_iff]
        exact ⟨matchSeq_false_of_length (by simpa [rep] using hl9), matchSeq_false_of_length (by simpa [rep] using hl)⟩
      have h2 : Spec.TaxId.BE.format s = false := by
        simp [Spec.TaxId.BE.format, Spec.TaxId.BE.pad, hl9, hl]
      simp [BE.goValid, BE.regime, h1, h2]

theorem co_valid_iff_spec (s : Str) :
    CO.goValid s = true ↔ (Spec.TaxId.CO.format s = true ∧ Spec.TaxId.CO.check s = true) := by
  by_cases hl9 : s.length = 9
  · obtain ⟨c0,c1,c2,c3,c4,c5,c6,c7,c8,rfl⟩ := len9 s hl9
    by_cases hf : Spec.TaxId.CO.format [c0,c1,c2,c3,c4,c5,c6,c7,c8] = true
    · simp only [hf, true_and]
      simp [Spec.TaxId.CO.format, isDigits, isDig] at hf
      have e : atoi? [c8] = some (dval c8) := atoi_single c8 (by simp [isDig]; omega)
      simp (disch := omega) [CO.goValid, CO.regime, CO.validateDigits, CO.sumLoop, CO.nitMultipliers, e, gate, allDig,
        Spec.TaxId.CO.check, Spec.TaxId.CO.primes, digs, dot, isAZ09, isDig, isUp, dval]
      try simp only [List.getElem?_cons_zero, Option.getD_some]
      taxid_arith
    · have hf' : Spec.TaxId.CO.format [c0,c1,c2,c3,c4,c5,c6,c7,c8] = false := by simpa using hf
      simp only [hf', Bool.false_eq_true, false_and, iff_false]; intro hgo
      simp [Spec.TaxId.CO.format, isDigits, isDig] at hf
      simp [CO.goValid, CO.regime, gate, allDig, isAZ09, isDig, isUp] at hgo
      omega
  · by_cases hl : s.length = 10
    · obtain ⟨c0,c1,c2,c3,c4,c5,c6,c7,c8,c9,rfl⟩ := len10 s hl
      by_cases hf : Spec.TaxId.CO.format [c0,c1,c2,c3,c4,c5,c6,c7,c8,c9] = true
      · simp only [hf, true_and]
        simp [Spec.TaxId.CO.format, isDigits, isDig] at hf
        have e : atoi? [c9] = some (dval c9) := atoi_single c9 (by simp [isDig]; omega)
        simp (disch := omega) [CO.goValid, CO.regime, CO.validateDigits, CO.sumLoop, CO.nitMultipliers, e, gate, allDig,
          Spec.TaxId.CO.check, Spec.TaxId.CO.primes, digs, dot, isAZ09, isDig, isUp, dval]
        try simp only [List.getElem?_cons_zero, Option.getD_some]
        taxid_arith
      · have hf' : Spec.TaxId.CO.format [c0,c1,c2,c3,c4,c5,c6,c7,c8,c9] = false := by simpa using hf
        simp only [hf', Bool.false_eq_true, false_and, iff_false]; intro hgo
        simp [Spec.TaxId.CO.format, isDigits, isDig] at hf
        simp [CO.goValid, CO.regime, gate, allDig, isAZ09, isDig, isUp] at hgo
        omega
    · have h1 : CO.regime s = false := by
        simp only [CO.regime]
        split
        · rfl
        · simp; omega
      simp [CO.goValid, h1, Spec.TaxId.CO.format, hl9, hl]

theorem br_valid_iff_spec (s : Str) :
    BR.goValid s = true ↔ (Spec.TaxId.BR.format s = true ∧ Spec.TaxId.BR.check s = true) := by
  by_cases hl : s.length = 14
  · obtain ⟨c0,c1,c2,c3,c4,c5,c6,c7,c8,c9,c10,c11,c12,c13,rfl⟩ := len14 s hl
    by_cases hf : Spec.TaxId.BR.format [c0,c1,c2,c3,c4,c5,c6,c7,c8,c9,c10,c11,c12,c13] = true
    · simp only [hf, true_and]
      simp [Spec.TaxId.BR.format, isDigits, isDig] at hf
      have e (c : Char) (h : 48 ≤ c.toNat ∧ c.toNat ≤ 57) : atoi? [c] = some (dval c) := atoi_single c (by simp [isDig]; omega)
      simp (disch := omega) [BR.goValid, BR.regime, BR.verifyDigit, BR.sumLoop, BR.weights1, BR.weights2, e, gate,
        Spec.TaxId.BR.check, Spec.TaxId.BR.dv, digs, dot, dg, isAZ09, isDig, isUp, dval]
      try simp only [List.getElem?_cons_zero, Option.getD_some]
      taxid_arith
    · have hf' : Spec.TaxId.BR.format [c0,c1,c2,c3,c4,c5,c6,c7,c8,c9,c10,c11,c12,c13] = false := by simpa using hf
      simp only [hf', Bool.false_eq_true, false_and, iff_false]; intro hgo
      apply hf
      simp only [BR.goValid, BR.regime, Bool.and_eq_true] at hgo
      have h2 := hgo.2
      simp only [List.length_cons, List.length_nil] at h2
      simp only [bne_self_eq_false, Bool.false_eq_true, if_false, Bool.and_eq_true] at h2
      have ha := br_verify_digits _ _ _ h2.1
      have hb := br_verify_digits _ _ _ h2.2
      simp [BR.weights1, BR.weights2] at ha hb
      simp [Spec.TaxId.BR.format, isDigits]
      simp_all
  · simp [BR.goValid, BR.regime, Spec.TaxId.BR.format, hl]

/-- the Go form of the French key, (100·n + 12) mod 97, is the published (12 + 3·(n mod 97)) mod 97 -/
theorem fr_key_formula (n : Nat) : (100 * n + 12) % 97 = (12 + 3 * (n % 97)) % 97 := by omega

theorem fr_valid_iff_spec (s : Str) :
    FR.goValid s = true ↔ (Spec.TaxId.FR.format s = true ∧ Spec.TaxId.FR.check s = true) := by
  by_cases hl : s.length = 11
  · obtain ⟨c0,c1,c2,c3,c4,c5,c6,c7,c8,c9,c10,rfl⟩ := len11 s hl
    by_cases hf : Spec.TaxId.FR.format [c0,c1,c2,c3,c4,c5,c6,c7,c8,c9,c10] = true
    · simp only [hf, true_and]
      simp [Spec.TaxId.FR.format, isDigits, isDig] at hf
      have e1 : atoi0 [c2,c3,c4,c5,c6,c7,c8,c9,c10] = num (digs [c2,c3,c4,c5,c6,c7,c8,c9,c10]) :=
        atoi0_eq _ (by simp) (by simp [allDig, isDig]; omega)
      have hs : Spec.TaxId.FR.check [c0,c1,c2,c3,c4,c5,c6,c7,c8,c9,c10] =
          (num (digs [c0,c1]) == (12 + 3 * (num (digs [c2,c3,c4,c5,c6,c7,c8,c9,c10]) % 97)) % 97) := by
        simp [Spec.TaxId.FR.check, digs]
      rw [hs]
      simp (disch := omega) [FR.goValid, FR.regime, FR.vatRe, FR.calculateVATCheckDigit, e1, gate, matchSeq, rep, List.replicate,
        isAZ09, isDig, isUp, char_eq_iff_toNat, digitChar_mod97_div10_toNat, digitChar_mod97_mod10_toNat]
      generalize num (digs [c2,c3,c4,c5,c6,c7,c8,c9,c10]) = n
      have hk : (n * 100 + 12) % 97 = (12 + 3 * (n % 97)) % 97 := by omega
      rw [hk]
      have ht : (12 + 3 * (n % 97)) % 97 < 97 := Nat.mod_lt _ (by omega)
      generalize (12 + 3 * (n % 97)) % 97 = t at ht
      simp [digs, num, dval]
      omega
    · have hf' : Spec.TaxId.FR.format [c0,c1,c2,c3,c4,c5,c6,c7,c8,c9,c10] = false := by simpa using hf
      simp only [hf', Bool.false_eq_true, false_and, iff_false]; intro hgo
      simp [Spec.TaxId.FR.format, isDigits, isDig] at hf
      simp [FR.goValid, FR.regime, FR.vatRe, gate, matchSeq, rep, List.replicate, isAZ09, isDig, isUp] at hgo
      omega
  · have : FR.vatRe s = false := matchSeq_false_of_length (by simpa [rep] using hl)
    simp [FR.goValid, FR.regime, Spec.TaxId.FR.format, hl, this]

theorem mx_valid_iff_spec (s : Str) :
    MX.goValid s = true ↔ (Spec.TaxId.MX.format s = true ∧ Spec.TaxId.MX.check s = true) := by
  by_cases hl12 : s.length = 12
  · obtain ⟨c0,c1,c2,c3,c4,c5,c6,c7,c8,c9,c10,c11,rfl⟩ := len12 s hl12
    simp [MX.goValid, MX.regime, MX.personRe, MX.companyRe, MX.letterCls, matchSeq, rep, List.replicate,
      Spec.TaxId.MX.format, Spec.TaxId.MX.check, Spec.TaxId.MX.letter, Spec.TaxId.MX.alnum, isDigits, isAZ09, and_assoc]
  · by_cases hl13 : s.length = 13
    · obtain ⟨c0,c1,c2,c3,c4,c5,c6,c7,c8,c9,c10,c11,c12,rfl⟩ := len13 s hl13
      simp [MX.goValid, MX.regime, MX.personRe, MX.companyRe, MX.letterCls, matchSeq, rep, List.replicate,
        Spec.TaxId.MX.format, Spec.TaxId.MX.check, Spec.TaxId.MX.letter, Spec.TaxId.MX.alnum, isDigits, isAZ09, and_assoc]
    · have h1 : MX.personRe s = false := matchSeq_false_of_length (by simpa [rep] using hl13)
      have h2 : MX.companyRe s = false := matchSeq_false_of_length (by simpa [rep] using hl12)
      simp [MX.goValid, MX.regime, h1, h2, Spec.TaxId.MX.format, hl12, hl13]

/-- NL: Go accepts exactly the published rule (11-test, in which a remainder of 10 has
    no check digit, or the mod-97 test) -/
theorem nl_valid_iff_spec (s : Str) :
    NL.goValid s = true ↔ (Spec.TaxId.NL.format s = true ∧ Spec.TaxId.NL.check s = true) := by
  by_cases hl : s.length = 12
  · obtain ⟨c0,c1,c2,c3,c4,c5,c6,c7,c8,c9,c10,c11,rfl⟩ := len12 s hl
    by_cases hf : Spec.TaxId.NL.format [c0,c1,c2,c3,c4,c5,c6,c7,c8,c9,c10,c11] = true
    · simp only [hf, true_and]
      simp [Spec.TaxId.NL.format, isDigits, isDig, char_eq_iff_toNat] at hf
      obtain ⟨⟨hd, h9⟩, he⟩ := hf
      have e1 : atoi? [c0,c1,c2,c3,c4,c5,c6,c7,c8] = some (num (digs [c0,c1,c2,c3,c4,c5,c6,c7,c8])) :=
        atoi?_eq _ (by simp) (by simp [allDig, isDig]; omega)
      have e2 : atoi? [c10,c11] = some (num (digs [c10,c11])) := atoi?_eq _ (by simp) (by simp [allDig, isDig]; omega)
      have hB : c9 = 'B' := by rw [char_eq_iff_toNat]; exact h9
      subst hB
      have hb : dval c0 ≤ 9 ∧ dval c1 ≤ 9 ∧ dval c2 ≤ 9 ∧ dval c3 ≤ 9 ∧ dval c4 ≤ 9 ∧ dval c5 ≤ 9 ∧ dval c6 ≤ 9 ∧
          dval c7 ≤ 9 ∧ dval c8 ≤ 9 ∧ dval c10 ≤ 9 ∧ dval c11 ≤ 9 := by simp only [dval]; omega
      have hm11 := nl_mod11Loop (dval c0) (dval c1) (dval c2) (dval c3) (dval c4) (dval c5) (dval c6) (dval c7) (dval c8) (by omega)
      have hm97 := nl_mod97Loop (dval c0) (dval c1) (dval c2) (dval c3) (dval c4) (dval c5) (dval c6) (dval c7) (dval c8) (dval c10) (dval c11) (by omega)
      have hv (c : Char) (h : 48 ≤ c.toNat ∧ c.toNat ≤ 57) : NL.mod97Val c = dval c := by simp [NL.mod97Val, isDig, dval, h]
      have hx (c : Char) (h : 48 ≤ c.toNat ∧ c.toNat ≤ 57) : Spec.TaxId.NL.expand c = [dval c] := by simp [Spec.TaxId.NL.expand, isDig, h]
      have hgate : gate [c0,c1,c2,c3,c4,c5,c6,c7,c8,'B',c10,c11] = true := by
        simp [gate, isAZ09, isDig, isUp]; omega
      simp (disch := omega) [NL.goValid, NL.regime, NL.validateDigits, e1, e2, NL.mod11, NL.checkMod97, hgate, hv,
        Spec.TaxId.NL.check, Spec.TaxId.NL.elfproef, Spec.TaxId.NL.mod97, hx, digs, dg]
      simp [NL.mod97Val, Spec.TaxId.NL.expand, isDig, digs] at hm11 hm97 ⊢
      obtain ⟨h1, h2⟩ := hm11
      rw [h1, hm97]
      generalize dot [9, 8, 7, 6, 5, 4, 3, 2] [dval c0, dval c1, dval c2, dval c3, dval c4, dval c5, dval c6, dval c7, dval c8] = D
      generalize num [2, 3, 2, 1, dval c0, dval c1, dval c2, dval c3, dval c4, dval c5, dval c6, dval c7, dval c8, 1, 1, dval c10, dval c11] = M
      generalize num [dval c0, dval c1, dval c2, dval c3, dval c4, dval c5, dval c6, dval c7, dval c8] = N at h2 ⊢
      clear h1
      split <;> omega
    · have hf' : Spec.TaxId.NL.format [c0,c1,c2,c3,c4,c5,c6,c7,c8,c9,c10,c11] = false := by simpa using hf
      simp only [hf', Bool.false_eq_true, false_and, iff_false]; intro hgo
      apply hf
      simp only [NL.goValid, NL.regime, NL.validateDigits, Bool.and_eq_true] at hgo
      obtain ⟨-, hgo⟩ := hgo
      simp only [List.length_cons, List.length_nil, bne_self_eq_false, Bool.false_eq_true, if_false] at hgo
      have h9 : c9 = 'B' := by
        by_contra hne
        simp [hne] at hgo
      subst h9
      simp at hgo
      cases ha : atoi? [c0,c1,c2,c3,c4,c5,c6,c7,c8] with
      | none => simp [ha] at hgo
      | some a =>
        cases hb : atoi? [c10,c11] with
        | none => simp [ha, hb] at hgo
        | some b =>
          have h1 : allDig [c0,c1,c2,c3,c4,c5,c6,c7,c8] = true := by
            cases hd : allDig [c0,c1,c2,c3,c4,c5,c6,c7,c8] with
            | true => rfl
            | false => simp [atoi?, hd] at ha
          have h2 : allDig [c10,c11] = true := by
            cases hd : allDig [c10,c11] with
            | true => rfl
            | false => simp [atoi?, hd] at hb
          simp [allDig] at h1 h2
          simp [Spec.TaxId.NL.format, isDigits, h1, h2]
  · simp [NL.goValid, NL.regime, Spec.TaxId.NL.format, hl]

theorem es_valid_iff_spec (s : Str) :
    ES.goValid s = true ↔ (Spec.TaxId.ES.format s = true ∧ Spec.TaxId.ES.check s = true) := by
  by_cases hl : s.length = 9
  · obtain ⟨c0,c1,c2,c3,c4,c5,c6,c7,c8,rfl⟩ := len9 s hl
    simp only [ES.goValid, ES.regime, Spec.TaxId.ES.format, Spec.TaxId.ES.check,
      ← es_f1 c0 c1 c2 c3 c4 c5 c6 c7 c8, ← es_f2 c0 c1 c2 c3 c4 c5 c6 c7 c8, ← es_f3 c0 c1 c2 c3 c4 c5 c6 c7 c8]
    by_cases hO : ES.orgRe [c0,c1,c2,c3,c4,c5,c6,c7,c8] = true
    · obtain ⟨n, f, g⟩ := es_x_org c0 c1 c2 c3 c4 c5 c6 c7 c8 hO
      simp [hO, n, f, g, es_v_org' c0 c1 c2 c3 c4 c5 c6 c7 c8 (by simp [hO])]
    · have hO' : ES.orgRe [c0,c1,c2,c3,c4,c5,c6,c7,c8] = false := by simpa using hO
      by_cases hN : ES.nationalRe [c0,c1,c2,c3,c4,c5,c6,c7,c8] = true
      · simp [hO', hN, es_g_nat c0 c1 c2 c3 c4 c5 c6 c7 c8 hN, es_v_nat c0 c1 c2 c3 c4 c5 c6 c7 c8 hN]
      · have hN' : ES.nationalRe [c0,c1,c2,c3,c4,c5,c6,c7,c8] = false := by simpa using hN
        by_cases hF : ES.foreignRe [c0,c1,c2,c3,c4,c5,c6,c7,c8] = true
        · simp [hO', hN', hF, es_g_for c0 c1 c2 c3 c4 c5 c6 c7 c8 hF, es_v_for c0 c1 c2 c3 c4 c5 c6 c7 c8 hF]
        · have hF' : ES.foreignRe [c0,c1,c2,c3,c4,c5,c6,c7,c8] = false := by simpa using hF
          by_cases hK : ES.otherRe [c0,c1,c2,c3,c4,c5,c6,c7,c8] = true
          · simp [hO', hN', hF', hK, es_g_oth c0 c1 c2 c3 c4 c5 c6 c7 c8 hK, es_v_org' c0 c1 c2 c3 c4 c5 c6 c7 c8 (by simp [hK])]
          · have hK' : ES.otherRe [c0,c1,c2,c3,c4,c5,c6,c7,c8] = false := by simpa using hK
            simp [hO', hN', hF', hK']
  · have h1 : ES.orgRe s = false := matchSeq_false_of_length (by simpa [rep] using hl)
    have h2 : ES.nationalRe s = false := matchSeq_false_of_length (by simpa [rep] using hl)
    have h3 : ES.foreignRe s = false := matchSeq_false_of_length (by simpa [rep] using hl)
    have h4 : ES.otherRe s = false := matchSeq_false_of_length (by simpa [rep] using hl)
    simp [ES.goValid, ES.regime, h1, h2, h3, h4, Spec.TaxId.ES.format, Spec.TaxId.ES.nifFormat, Spec.TaxId.ES.nieFormat,
      Spec.TaxId.ES.cifFormat, hl]

theorem gb_valid_iff_spec (s : Str) :
    GB.goValid s = true ↔ (Spec.TaxId.GB.format s = true ∧ Spec.TaxId.GB.check s = true) := by
  by_cases h9 : s.length = 9
  · obtain ⟨c0,c1,c2,c3,c4,c5,c6,c7,c8,rfl⟩ := len9 s h9
    by_cases hf : Spec.TaxId.GB.format [c0,c1,c2,c3,c4,c5,c6,c7,c8] = true
    · simp only [hf, true_and]
      simp [Spec.TaxId.GB.format, isDigits, isDig] at hf
      have eN : atoi0 [c0,c1,c2,c3,c4,c5,c6,c7,c8] = num (digs [c0,c1,c2,c3,c4,c5,c6,c7,c8]) :=
        atoi0_eq _ (by simp) (by simp [allDig, isDig]; omega)
      have eb : atoi0 ([c0,c1,c2,c3,c4,c5,c6,c7,c8].take 7) = num (digs [c0,c1,c2,c3,c4,c5,c6]) :=
        atoi0_eq _ (by simp) (by simp [allDig, isDig]; omega)
      have ec : atoi0 (([c0,c1,c2,c3,c4,c5,c6,c7,c8].drop 7).take 2) = num (digs [c7,c8]) :=
        atoi0_eq _ (by simp) (by simp [allDig, isDig]; omega)
      have hcc := gb_commercial _ _ _ _ _ eN eb rfl ec
      have hfmt : GB.fmt [c0,c1,c2,c3,c4,c5,c6,c7,c8] = true := by
        simp [GB.fmt, matchSeq, rep, List.replicate, isDig]; omega
      have hgate : gate [c0,c1,c2,c3,c4,c5,c6,c7,c8] = true := by
        simp [gate, isAZ09, isDig]; omega
      have hGD : ([c0,c1,c2,c3,c4,c5,c6,c7,c8].take 2 == ['G','D']) = false := by
        simp [char_eq_iff_toNat]; omega
      have hHA : ([c0,c1,c2,c3,c4,c5,c6,c7,c8].take 2 == ['H','A']) = false := by
        simp [char_eq_iff_toNat]; omega
      simp only [GB.goValid, GB.regime, hgate, hfmt, hGD, hHA, hcc, gbCore, Spec.TaxId.GB.check]
      simp [digs, wloop, GB.multipliers, dot]
      intros; omega
    · have hf' : Spec.TaxId.GB.format [c0,c1,c2,c3,c4,c5,c6,c7,c8] = false := by simpa using hf
      simp only [hf', Bool.false_eq_true, false_and, iff_false]; intro hgo
      simp [Spec.TaxId.GB.format, isDigits, isDig] at hf
      simp [GB.goValid, GB.regime, GB.fmt, matchSeq, rep, List.replicate, isDig, isCh] at hgo
      omega
  by_cases h12 : s.length = 12
  · obtain ⟨c0,c1,c2,c3,c4,c5,c6,c7,c8,c9,c10,c11,rfl⟩ := len12 s h12
    by_cases hf : Spec.TaxId.GB.format [c0,c1,c2,c3,c4,c5,c6,c7,c8,c9,c10,c11] = true
    · simp only [hf, true_and]
      simp [Spec.TaxId.GB.format, isDigits, isDig] at hf
      have eN : atoi0 [c0,c1,c2,c3,c4,c5,c6,c7,c8,c9,c10,c11] = num (digs [c0,c1,c2,c3,c4,c5,c6,c7,c8,c9,c10,c11]) :=
        atoi0_eq _ (by simp) (by simp [allDig, isDig]; omega)
      have eb : atoi0 ([c0,c1,c2,c3,c4,c5,c6,c7,c8,c9,c10,c11].take 7) = num (digs [c0,c1,c2,c3,c4,c5,c6]) :=
        atoi0_eq _ (by simp) (by simp [allDig, isDig]; omega)
      have ec : atoi0 (([c0,c1,c2,c3,c4,c5,c6,c7,c8,c9,c10,c11].drop 7).take 2) = num (digs [c7,c8]) :=
        atoi0_eq _ (by simp) (by simp [allDig, isDig]; omega)
      have hcc := gb_commercial _ _ _ _ _ eN eb rfl ec
      have hfmt : GB.fmt [c0,c1,c2,c3,c4,c5,c6,c7,c8,c9,c10,c11] = true := by
        simp [GB.fmt, matchSeq, rep, List.replicate, isDig]; omega
      have hgate : gate [c0,c1,c2,c3,c4,c5,c6,c7,c8,c9,c10,c11] = true := by
        simp [gate, isAZ09, isDig]; omega
      have hGD : ([c0,c1,c2,c3,c4,c5,c6,c7,c8,c9,c10,c11].take 2 == ['G','D']) = false := by
        simp [char_eq_iff_toNat]; omega
      have hHA : ([c0,c1,c2,c3,c4,c5,c6,c7,c8,c9,c10,c11].take 2 == ['H','A']) = false := by
        simp [char_eq_iff_toNat]; omega
      simp only [GB.goValid, GB.regime, hgate, hfmt, hGD, hHA, hcc, gbCore, Spec.TaxId.GB.check]
      simp [digs, wloop, GB.multipliers, dot]
      intros; omega
    · have hf' : Spec.TaxId.GB.format [c0,c1,c2,c3,c4,c5,c6,c7,c8,c9,c10,c11] = false := by simpa using hf
      simp only [hf', Bool.false_eq_true, false_and, iff_false]; intro hgo
      simp [Spec.TaxId.GB.format, isDigits, isDig] at hf
      simp [GB.goValid, GB.regime, GB.fmt, matchSeq, rep, List.replicate, isDig, isCh] at hgo
      omega
  by_cases h5 : s.length = 5
  · obtain ⟨c0,c1,c2,c3,c4,rfl⟩ := len5 s h5
    by_cases hf : Spec.TaxId.GB.format [c0,c1,c2,c3,c4] = true
    · simp only [hf, true_and]
      simp [Spec.TaxId.GB.format, isDigits] at hf
      obtain ⟨hp, d2, d3, d4⟩ := hf
      have e : atoi0 [c2,c3,c4] = num (digs [c2,c3,c4]) := atoi0_eq _ (by simp) (by simp [allDig, d2, d3, d4])
      have u2 : isAZ09 c2 = true := by simp [isAZ09, d2]
      have u3 : isAZ09 c3 = true := by simp [isAZ09, d3]
      have u4 : isAZ09 c4 = true := by simp [isAZ09, d4]
      rcases hp with ⟨rfl, rfl⟩ | ⟨rfl, rfl⟩
      · simp [GB.goValid, GB.regime, GB.fmt, gate, matchSeq, rep, List.replicate, isCh, d2, d3, d4, u2, u3, u4, e, Spec.TaxId.GB.check]
        intro _; decide
      · simp [GB.goValid, GB.regime, GB.fmt, gate, matchSeq, rep, List.replicate, isCh, d2, d3, d4, u2, u3, u4, e, Spec.TaxId.GB.check]
        intro _; decide
    · have hf' : Spec.TaxId.GB.format [c0,c1,c2,c3,c4] = false := by simpa using hf
      simp only [hf', Bool.false_eq_true, false_and, iff_false]; intro hgo
      simp [Spec.TaxId.GB.format, isDigits] at hf
      simp [GB.goValid, GB.regime, GB.fmt, matchSeq, rep, List.replicate, isCh] at hgo
      obtain ⟨_, h, _⟩ := hgo
      rcases h with ⟨a, b, d2, d3, d4⟩ | ⟨a, b, d2, d3, d4⟩ <;> simp [a, b, d2, d3, d4] at hf
  · have hfm : GB.fmt s = false := by
      simp only [GB.fmt, Bool.or_eq_false_iff]
      exact ⟨⟨⟨matchSeq_false_of_length (by simpa [rep] using h9), matchSeq_false_of_length (by simpa [rep] using h12)⟩,
        matchSeq_false_of_length (by simpa [rep] using h5)⟩, matchSeq_false_of_length (by simpa [rep] using h5)⟩
    simp [GB.goValid, GB.regime, Spec.TaxId.GB.format, h9, h12, h5, hfm]

theorem in_valid_iff_spec (s : Str) :
    IN.goValid s = true ↔ (Spec.TaxId.IN.format s = true ∧ Spec.TaxId.IN.check s = true) := by
  by_cases hl : s.length = 15
  · obtain ⟨c0,c1,c2,c3,c4,c5,c6,c7,c8,c9,c10,c11,c12,c13,c14,rfl⟩ := len15 s hl
    by_cases hf : Spec.TaxId.IN.format [c0,c1,c2,c3,c4,c5,c6,c7,c8,c9,c10,c11,c12,c13,c14] = true
    · simp only [hf, true_and]
      simp [Spec.TaxId.IN.format, isDigits] at hf
      obtain ⟨⟨⟨⟨⟨⟨⟨⟨h0, h1⟩, h2, h3, h4, h5, h6⟩, h7, h8, h9, h10⟩, h11⟩, h12⟩, h12'⟩, h13⟩, h14⟩ := hf
      have hg : gate [c0,c1,c2,c3,c4,c5,c6,c7,c8,c9,c10,c11,c12,c13,c14] = true := by
        simp [Spec.TaxId.IN.alnum] at h12 h14
        simp [gate, isAZ09, h0, h1, h2, h3, h4, h5, h6, h7, h8, h9, h10, h11, h12, h14, h13]; decide
      have hfm : IN.fmt [c0,c1,c2,c3,c4,c5,c6,c7,c8,c9,c10,c11,c12,c13,c14] = true := by
        simp [Spec.TaxId.IN.alnum] at h12 h14
        simp [IN.fmt, matchSeq, rep, List.replicate, isAZ09, isCh, h0, h1, h2, h3, h4, h5, h6, h7, h8, h9, h10, h11, h14, h13, IN.cls19AZ]
        simp [isDig, isUp, char_eq_iff_toNat] at h12 h12' ⊢
        omega
      have a0 := in_value_eq c0 (in_alnum_of_dig h0)
      have a1 := in_value_eq c1 (in_alnum_of_dig h1)
      have a2 := in_value_eq c2 (in_alnum_of_up h2)
      have a3 := in_value_eq c3 (in_alnum_of_up h3)
      have a4 := in_value_eq c4 (in_alnum_of_up h4)
      have a5 := in_value_eq c5 (in_alnum_of_up h5)
      have a6 := in_value_eq c6 (in_alnum_of_up h6)
      have a7 := in_value_eq c7 (in_alnum_of_dig h7)
      have a8 := in_value_eq c8 (in_alnum_of_dig h8)
      have a9 := in_value_eq c9 (in_alnum_of_dig h9)
      have a10 := in_value_eq c10 (in_alnum_of_dig h10)
      have a11 := in_value_eq c11 (in_alnum_of_up h11)
      have a12 := in_value_eq c12 h12
      have a13 := in_value_eq c13 (by rw [h13]; decide)
      simp only [IN.goValid, IN.regime, hg, hfm, Bool.true_and, IN.hasValidChecksum, Spec.TaxId.IN.check]
      simp [IN.loop, a0, a1, a2, a3, a4, a5, a6, a7, a8, a9, a10, a11, a12, a13, Spec.TaxId.IN.contrib]
      refine Iff.trans (in_valueToChar_iff _ (Nat.mod_lt _ (by omega)) c14 h14) ?_
      generalize Spec.TaxId.IN.value c0 = v0
      generalize Spec.TaxId.IN.value c1 = v1
      generalize Spec.TaxId.IN.value c2 = v2
      generalize Spec.TaxId.IN.value c3 = v3
      generalize Spec.TaxId.IN.value c4 = v4
      generalize Spec.TaxId.IN.value c5 = v5
      generalize Spec.TaxId.IN.value c6 = v6
      generalize Spec.TaxId.IN.value c7 = v7
      generalize Spec.TaxId.IN.value c8 = v8
      generalize Spec.TaxId.IN.value c9 = v9
      generalize Spec.TaxId.IN.value c10 = v10
      generalize Spec.TaxId.IN.value c11 = v11
      generalize Spec.TaxId.IN.value c12 = v12
      generalize Spec.TaxId.IN.value c13 = v13
      generalize Spec.TaxId.IN.value c14 = v14
      omega
    · have hf' : Spec.TaxId.IN.format [c0,c1,c2,c3,c4,c5,c6,c7,c8,c9,c10,c11,c12,c13,c14] = false := by simpa using hf
      simp only [hf', Bool.false_eq_true, false_and, iff_false]; intro hgo
      simp [Spec.TaxId.IN.format, Spec.TaxId.IN.alnum, isDigits, isDig, isUp, char_eq_iff_toNat] at hf
      simp [IN.goValid, IN.regime, IN.fmt, IN.cls19AZ, isCh, gate, matchSeq, rep, List.replicate, isAZ09, isDig, isUp, char_eq_iff_toNat] at hgo
      omega
  · have : IN.fmt s = false := matchSeq_false_of_length (by simpa [rep] using hl)
    simp [IN.goValid, IN.regime, Spec.TaxId.IN.format, hl, this]

/-! ## normalisation laws (model of tax.NormalizeIdentity and of the regime normalisers) -/

/-- normalising twice = normalising once, for every country, every list of alternative
    codes and every text (the prefix loop of `tax.NormalizeIdentity` runs until nothing is
    stripped any more; before the fix `b7cd584` this needed the hypothesis that the first
    result no longer starts with a prefix, which failed for `ESES…`, `XIGB…`) -/
theorem normalize_idem (country : Str) (alts : List Str) (code : Str) :
    normalizeIdentity country alts (normalizeIdentity country alts code) = normalizeIdentity country alts code :=
  normalizeIdentity_fixed country alts _ (normalizeIdentity_clean country alts code)
    (normalizeIdentity_stable country alts code)

/-- no country prefix is left: the result starts neither with the country nor with an alternative code -/
theorem normalize_no_prefix_left (country : Str) (alts : List Str) (code : Str) :
    (country ≠ [] → country.isPrefixOf (normalizeIdentity country alts code) = false) ∧
    (∀ a ∈ alts, a ≠ [] → a.isPrefixOf (normalizeIdentity country alts code) = false) := by
  have hs := normalizeIdentity_stable country alts code
  rw [trimPass_fixed_iff] at hs
  constructor
  · intro hne
    exact ((trimPrefix_eq_self_iff _ _).mp hs.1).resolve_left hne
  · intro a ha hne
    exact ((trimPrefix_eq_self_iff _ _).mp (hs.2 a ha)).resolve_left hne

/-- with two-letter codes (every country code is), the loop computes the specification:
    the cleaned text without its leading run of country / alternative codes -/
theorem normalize_eq_spec (country : Str) (alts : List Str) (code : Str)
    (h : ∀ p ∈ country :: alts, p.length = 2) :
    normalizeIdentity country alts code = Spec.TaxId.stripCodes (country :: alts) (stripBad (upper code)) :=
  normalizeIdentity_eq_stripCodes country alts code h

example : normalizeIdentity "ES".toList [] "ESES B-85905495".toList = "B85905495".toList ∧
    normalizeIdentity "ES".toList [] "B85905495".toList = "B85905495".toList ∧
    normalizeIdentity "GB".toList (altsOf "GB") "xi-gb 350983637".toList = "350983637".toList := by decide

/-- the result depends only on the upper-cased alphanumerics of the text -/
theorem normalize_insensitive (country : Str) (alts : List Str) (s t : Str)
    (h : stripBad (upper s) = stripBad (upper t)) :
    normalizeIdentity country alts s = normalizeIdentity country alts t := by
  unfold normalizeIdentity; rw [h]

/-- separators (any character that is not a letter or digit) do not matter -/
theorem normalize_insensitive_separator (country : Str) (alts : List Str) (a b : Str) (sep : Char)
    (hs : isAZ09 sep.toUpper = false) :
    normalizeIdentity country alts (a ++ sep :: b) = normalizeIdentity country alts (a ++ b) := by
  apply normalize_insensitive
  simp [upper, stripBad, List.filter_cons, hs]

/-- letter case does not matter -/
theorem normalize_insensitive_case (country : Str) (alts : List Str) (code : Str) :
    normalizeIdentity country alts (code.map Char.toLower) = normalizeIdentity country alts code ∧
    normalizeIdentity country alts (code.map Char.toUpper) = normalizeIdentity country alts code := by
  constructor <;> apply normalize_insensitive <;> simp [upper, toUpper_toLower, toUpper_toUpper, Function.comp_def]

/-- a leading country prefix (the country or an alternative code) does not matter, whatever
    the code begins with -/
theorem normalize_insensitive_prefix (country : Str) (alts : List Str) (p code : Str)
    (h : ∀ q ∈ country :: alts, q.length = 2) (hp : p ∈ country :: alts) (hc : p.all isAZ09 = true) :
    normalizeIdentity country alts (p ++ code) = normalizeIdentity country alts code := by
  rw [normalize_eq_spec country alts _ h, normalize_eq_spec country alts _ h]
  have h1 : stripBad (upper (p ++ code)) = p ++ stripBad (upper code) := by
    have := clean_fixed p hc
    simp only [upper, stripBad, List.map_append, List.filter_append] at this ⊢
    rw [this]
  rw [h1]
  have hl := h p hp
  match p, hl, hp with
  | [a, b], _, hp => simp [Spec.TaxId.stripCodes, hp]

/-- any number of leading country prefixes does not matter -/
theorem normalize_insensitive_prefixes (country : Str) (alts : List Str) (ps : List Str) (code : Str)
    (h : ∀ q ∈ country :: alts, q.length = 2) (hc : ∀ q ∈ country :: alts, q.all isAZ09 = true)
    (hp : ∀ p ∈ ps, p ∈ country :: alts) :
    normalizeIdentity country alts (ps.flatten ++ code) = normalizeIdentity country alts code := by
  induction ps with
  | nil => rfl
  | cons p ps ih =>
    simp only [List.flatten_cons, List.append_assoc]
    rw [normalize_insensitive_prefix country alts p _ h (hp p (by simp)) (hc p (hp p (by simp)))]
    exact ih (fun q hq => hp q (by simp [hq]))

example : normalizeIdentity "GB".toList (altsOf "GB") ("XI".toList ++ "GB".toList ++ "gd 001".toList) =
    normalizeIdentity "GB".toList (altsOf "GB") "GD001".toList := by decide

/-- normalisation never alters the digits of a code (country codes contain no digits) -/
theorem normalize_keeps_digits (country : Str) (alts : List Str) (code : Str)
    (hc : country.filter isDig = []) (ha : ∀ a ∈ alts, a.filter isDig = []) :
    (normalizeIdentity country alts code).filter isDig = code.filter isDig :=
  filter_isDig_normalizeIdentity country alts code hc ha

/-- MX: the RFC normaliser is idempotent on every text -/
theorem mx_normalize_idem (s : Str) : mxNormalize (mxNormalize s) = mxNormalize s := mxNormalize_idem s

/-- CH: idempotent on every text (the suffix pattern `(MWST|TVA|IVA)+$` removes the whole run of
    suffixes; before the fix `5cc7da9` one suffix per pass was removed) -/
theorem ch_normalize_idem (country code : Str) :
    let r := (normalize "CH" country code).2
    (normalize "CH" country r).2 = r := by
  intro r
  have hr : r = chStripSuffix (normalizeIdentity country [] code) := rfl
  have hc : r.all isAZ09 = true := hr ▸ chStripSuffix_clean _ (normalizeIdentity_clean _ _ _)
  show chStripSuffix (normalizeIdentity country [] r) = r
  have hs := normalizeIdentity_stable country [] code
  rw [trimPass_fixed_iff] at hs
  have hfix : trimPass country [] r = r := by
    rw [trimPass_fixed_iff]
    exact ⟨trimPrefix_fixed_of_prefix country r _ (hr ▸ chStripSuffix_prefix _) hs.1, by simp⟩
  rw [normalizeIdentity_fixed country [] r hc hfix, hr, chStripSuffix_idem]

/-- CH: what is removed behind the number is a sequence of VAT suffixes, and the result ends with none -/
theorem ch_normalize_spec (country code : Str) :
    let r := (normalize "CH" country code).2
    (∃ parts : List Str, (∀ x ∈ parts, x ∈ Spec.TaxId.chSuffixes) ∧
      normalizeIdentity country [] code = r ++ parts.flatten) ∧
    (∀ x ∈ Spec.TaxId.chSuffixes, Spec.TaxId.endsWith x r = false) := by
  intro r
  have hr : r = chStripSuffix (normalizeIdentity country [] code) := rfl
  constructor
  · obtain ⟨t, h1, h2⟩ := chStripSuffix_split (normalizeIdentity country [] code)
    obtain ⟨parts, hp, rfl⟩ := chSuffixStar_parts t h2
    exact ⟨parts, hp, hr ▸ h1⟩
  · intro x hx
    rw [hr]; exact chStripSuffix_no_suffix _ x hx

example : (normalize "CH" "CH".toList "CHE-284.156.502 MWST TVA".toList).2 = "E284156502".toList ∧
    (normalize "CH" "CH".toList "che284156502ivatvamwst".toList).2 = "E284156502".toList ∧
    (normalize "CH" "CH".toList "E284156502MWS".toList).2 = "E284156502MWS".toList := by decide

/-- FR: idempotent for every country code without digits (a SIREN that was extended to a VAT
    number is 11 digits long and is left alone) -/
theorem fr_normalize_idem (country code : Str) (hcd : country.filter isDig = []) :
    let r := (normalize "FR" country code).2
    (normalize "FR" country r).2 = r := by
  intro r
  by_cases he : code.isEmpty = true
  · have : r = code := by simp [r, normalize, he]
    have hnil : code = [] := by simpa using he
    subst hnil; rw [this]; simp [normalize]
  · have hr : r = frExtend (normalizeIdentity country [] code) := by simp [r, normalize, he]
    have hc : r.all isAZ09 = true := hr ▸ frExtend_clean _ (normalizeIdentity_clean _ _ _)
    show (if r.isEmpty then r else frExtend (normalizeIdentity country [] r)) = r
    have hs := normalizeIdentity_stable country [] code
    rw [trimPass_fixed_iff] at hs
    have hfix : trimPass country [] r = r := by
      rw [trimPass_fixed_iff]
      refine ⟨?_, by simp⟩
      rw [hr]
      generalize normalizeIdentity country [] code = m at hs
      unfold frExtend
      split
      · split
        · -- the result begins with a digit, the country code does not
          rw [trimPrefix_eq_self_iff]
          cases country with
          | nil => exact Or.inl rfl
          | cons c cs =>
            right
            have hcn : isDig c = false := by
              cases hd : isDig c with
              | false => rfl
              | true => simp [hd] at hcd
            have hk : isDig (digitChar ((atoi0 m * 100 + 12) % 97 / 10)) = true := by
              simp [isDig, digitChar_toNat _ (show (atoi0 m * 100 + 12) % 97 / 10 ≤ 9 by omega)]
              omega
            simp only [FR.calculateVATCheckDigit, List.cons_append, List.isPrefixOf]
            cases hcc : c == digitChar ((atoi0 m * 100 + 12) % 97 / 10) with
            | false => simp
            | true =>
              have : c = digitChar ((atoi0 m * 100 + 12) % 97 / 10) := by simpa using hcc
              rw [this, hk] at hcn; exact absurd hcn (by simp)
        · exact hs.1
      · exact hs.1
    rw [normalizeIdentity_fixed country [] r hc hfix]
    split
    · rfl
    · -- frExtend r = r
      rw [hr]
      generalize normalizeIdentity country [] code = m
      unfold frExtend
      split
      · rename_i hl
        split
        · rename_i hv
          have h11 : (FR.calculateVATCheckDigit m ++ m).length = 11 := by
            simp [(vatCheck_clean m).2] at hl ⊢; omega
          simp [h11]
        · simp [hl, *]
      · simp [*]

/-- GR/EL: the result does not depend on which of the two country codes the identity was
    written with (nor on any other text in the country field): the country is set to `EL`
    before the code is cleaned (library fix `d935db9`) -/
theorem el_normalize_any_country (country code : Str) :
    normalize "EL" country code = normalize "EL" ['E','L'] code := rfl

/-- GR/EL: idempotent, country and code, from every country code (`GR`, `EL`) and every text.
    Before the fix `d935db9` this held from the tax country code `EL` only: under the ISO code
    `GR` the prefix `EL` survived the first pass and was removed by the second
    (was known finding normalize-rewritten-country-prefix) -/
theorem el_normalize_idem (country code : Str) :
    let r := normalize "EL" country code
    normalize "EL" r.1 r.2 = r := by
  intro r
  show (['E','L'], normalizeIdentity ['E','L'] (altsOf "EL") (normalizeIdentity ['E','L'] (altsOf "EL") code)) = r
  rw [normalize_idem]; rfl

/-- GR/EL: the country becomes `EL` and the code is the cleaned text without its leading run
    of `EL` / `GR` codes, whichever country code the identity was written with -/
theorem el_normalize_spec (country code : Str) :
    normalize "EL" country code =
      (['E','L'], Spec.TaxId.stripCodes [['E','L'], ['G','R']] (stripBad (upper code))) := by
  show (['E','L'], normalizeIdentity ['E','L'] (altsOf "EL") code) = _
  rw [normalize_eq_spec ['E','L'] (altsOf "EL") code (by simp [altsOf])]
  rfl

/-- GR/EL: the result begins with neither `EL` nor `GR` -/
theorem el_normalize_no_prefix_left (country code : Str) :
    ['E','L'].isPrefixOf (normalize "EL" country code).2 = false ∧
    ['G','R'].isPrefixOf (normalize "EL" country code).2 = false := by
  have h := normalize_no_prefix_left ['E','L'] (altsOf "EL") code
  exact ⟨h.1 (by simp), h.2 ['G','R'] (by simp [altsOf]) (by simp)⟩

/-- GR/EL: any number of leading `EL` / `GR` prefixes does not matter, for both country codes -/
theorem el_normalize_insensitive_prefixes (country : Str) (ps : List Str) (code : Str)
    (hp : ∀ p ∈ ps, p = ['E','L'] ∨ p = ['G','R']) :
    normalize "EL" country (ps.flatten ++ code) = normalize "EL" country code := by
  show (['E','L'], normalizeIdentity ['E','L'] (altsOf "EL") (ps.flatten ++ code)) =
    (['E','L'], normalizeIdentity ['E','L'] (altsOf "EL") code)
  rw [normalize_insensitive_prefixes ['E','L'] (altsOf "EL") ps code (by simp [altsOf])
    (by simp [altsOf, isAZ09, isUp, isDig]) (fun p h => by simpa [altsOf] using hp p h)]

example : normalize "EL" "GR".toList ("EL".toList ++ "GR".toList ++ "925667500".toList) =
    normalize "EL" "GR".toList "925667500".toList ∧
    (normalize "EL" "GR".toList "925667500".toList).2 = "925667500".toList := by decide

/-- every regime normaliser keeps the digits of the code: the digits of the
    input are the digits of the output (FR: a suffix of them, the two key
    digits may be prepended to a SIREN) -/
theorem normalize_keeps_digits_regime (cc : String) (country code : Str) (hc : country.filter isDig = []) :
    Spec.TaxId.keepsDigitsSuffix code (normalize cc country code).2 = true ∧
    (cc ≠ "FR" → Spec.TaxId.keepsDigits code (normalize cc country code).2 = true) := by
  have gen (alts : List Str) (ha : ∀ a ∈ alts, a.filter isDig = []) :
      (normalizeIdentity country alts code).filter isDig = code.filter isDig :=
    filter_isDig_normalizeIdentity country alts code hc ha
  unfold normalize
  simp only [Bool.not_true, Bool.false_eq_true, if_false]
  split
  · have := keepsDigits_of_eq code _ (filter_isDig_mxNormalize code); exact ⟨this.2, fun _ => this.1⟩
  · have := keepsDigits_of_eq code _ ((filter_isDig_chStripSuffix _).trans (gen [] (by simp))); exact ⟨this.2, fun _ => this.1⟩
  · refine ⟨?_, fun h => absurd rfl h⟩
    simp only []
    split
    · simp [Spec.TaxId.keepsDigitsSuffix]
    · simp only [frExtend]
      split
      · split
        · simp only [Spec.TaxId.keepsDigitsSuffix, Spec.TaxId.digitsOf, List.filter_append, List.reverse_append, gen [] (by simp)]
          simp
        · exact (keepsDigits_of_eq code _ (gen [] (by simp))).2
      · exact (keepsDigits_of_eq code _ (gen [] (by simp))).2
  · have := keepsDigits_of_eq code _ (filter_isDig_normalizeIdentity ['E','L'] (altsOf "EL") code (by simp [isDig]) (by simp [altsOf, isDig]))
    exact ⟨this.2, fun _ => this.1⟩
  · have := keepsDigits_of_eq code _ (gen (altsOf "IN") (by simp [altsOf, isDig])); exact ⟨this.2, fun _ => this.1⟩
  · have := keepsDigits_of_eq code _ (gen (altsOf "GB") (by simp [altsOf, isDig])); exact ⟨this.2, fun _ => this.1⟩
  · have := keepsDigits_of_eq code _ (gen [] (by simp)); exact ⟨this.2, fun _ => this.1⟩

/-! ## single-character error detection (on the published rule)

`edit1 s s'`: `s'` is `s` with exactly one character replaced by a different one.
Schemes that guarantee detection: weighted mod 11 without collapsed remainders (PL, CH),
mod 97 (BE, FR, NL mod-97 test), Luhn (IT; AT is a Luhn variant), ISO 7064 MOD 11,10 (DE),
the NL 11-test.  Collapsed schemes (PT, GR, CO, BR): the exact undetected set. GB: not guaranteed. -/

theorem pl_single_digit_detected (s s' : Str) (hv : Spec.TaxId.PL.valid s = true) (he : edit1 s s') :
    Spec.TaxId.PL.valid s' = false := by
  refine detect_str Spec.TaxId.PL.valid 10 11 0 (fun _ => false) (W [6, 5, 7, 2, 3, 4, 5, 6, 7, 10]) rfl (by decide) ?_ ?_ s s' hv he
  · intro s hv
    have hl : s.length = 10 := by simp [Spec.TaxId.PL.valid, Spec.TaxId.PL.format] at hv; exact hv.1.1.1.1
    obtain ⟨c0,c1,c2,c3,c4,c5,c6,c7,c8,c9,rfl⟩ := len10 s hl
    simp [Spec.TaxId.PL.valid, Spec.TaxId.PL.format, Spec.TaxId.PL.check, isDigits, isDig, digs, dot, dg, dval] at hv
    refine ⟨rfl, ?_, ?_⟩
    · digit_positions 10
    · simp [sumF, W, digs, dval]; omega
  · intro s s' _ _ i hi; simp at hi

theorem ch_single_digit_detected (s s' : Str) (hv : Spec.TaxId.CH.valid s = true) (he : edit1 s s') :
    Spec.TaxId.CH.valid s' = false := by
  refine detect_str Spec.TaxId.CH.valid 10 11 0 (fun i => i == 0) (W [0, 5, 4, 3, 2, 7, 6, 5, 4, 1]) rfl (by decide) ?_ ?_ s s' hv he
  · intro s hv
    have hl : s.length = 10 := by simp [Spec.TaxId.CH.valid, Spec.TaxId.CH.format] at hv; exact hv.1.1.1
    obtain ⟨c0,c1,c2,c3,c4,c5,c6,c7,c8,c9,rfl⟩ := len10 s hl
    simp [Spec.TaxId.CH.valid, Spec.TaxId.CH.format, Spec.TaxId.CH.check, isDigits, isDig, digs, dot, dg, dval] at hv
    refine ⟨rfl, ?_, ?_⟩
    · digit_positions 10
    · simp [sumF, W, digs, dval]
      obtain ⟨hf, hne, hc⟩ := hv
      split at hc <;> omega
  · intro s s' hv hv' i hi
    have hi0 : i = 0 := by simpa using hi
    subst hi0
    simp [Spec.TaxId.CH.valid, Spec.TaxId.CH.format] at hv hv'
    have h1 := hv.1.1.2; have h2 := hv'.1.1.2
    cases s <;> cases s' <;> simp_all

theorem at_single_digit_detected (s s' : Str) (hv : Spec.TaxId.AT.valid s = true) (he : edit1 s s') :
    Spec.TaxId.AT.valid s' = false := by
  refine detect_str Spec.TaxId.AT.valid 9 10 4 (fun i => i == 0) [fun _ => 0, id, dbl, id, dbl, id, dbl, id, id] rfl (by decide) ?_ ?_ s s' hv he
  · intro s hv
    have hl : s.length = 9 := by simp [Spec.TaxId.AT.valid, Spec.TaxId.AT.format] at hv; exact hv.1.1.1
    obtain ⟨c0,c1,c2,c3,c4,c5,c6,c7,c8,rfl⟩ := len9 s hl
    simp [Spec.TaxId.AT.valid, Spec.TaxId.AT.format, Spec.TaxId.AT.check, isDigits, isDig, digs, dg, dval, digitSum] at hv
    refine ⟨rfl, ?_, ?_⟩
    · digit_positions 9
    · simp [sumF, digs, dval, dbl, digitSum]; omega
  · intro s s' hv hv' i hi
    have hi0 : i = 0 := by simpa using hi
    subst hi0
    simp [Spec.TaxId.AT.valid, Spec.TaxId.AT.format] at hv hv'
    have h1 := hv.1.1.2; have h2 := hv'.1.1.2
    cases s <;> cases s' <;> simp_all

theorem it_single_digit_detected (s s' : Str) (hv : Spec.TaxId.IT.valid s = true) (he : edit1 s s') :
    Spec.TaxId.IT.valid s' = false := by
  refine detect_str Spec.TaxId.IT.valid 11 10 0 (fun _ => false) [id, dbl, id, dbl, id, dbl, id, dbl, id, dbl, id] rfl (by decide) ?_ ?_ s s' hv he
  · intro s hv
    have hl : s.length = 11 := by simp [Spec.TaxId.IT.valid, Spec.TaxId.IT.format] at hv; exact hv.1.1
    obtain ⟨c0,c1,c2,c3,c4,c5,c6,c7,c8,c9,c10,rfl⟩ := len11 s hl
    simp [Spec.TaxId.IT.valid, Spec.TaxId.IT.format, Spec.TaxId.IT.check, luhnValid, luhnTotal, isDigits, isDig, digs, dval, digitSum] at hv
    refine ⟨rfl, ?_, ?_⟩
    · digit_positions 11
    · simp [sumF, digs, dval, dbl, digitSum]; omega
  · intro s s' _ _ i hi; simp at hi

theorem fr_single_digit_detected (s s' : Str) (hv : Spec.TaxId.FR.valid s = true) (he : edit1 s s') :
    Spec.TaxId.FR.valid s' = false := by
  refine detect_str Spec.TaxId.FR.valid 11 97 12 (fun _ => false)
    (W [960, 96, 300000000, 30000000, 3000000, 300000, 30000, 3000, 300, 30, 3]) rfl (by decide) ?_ ?_ s s' hv he
  · intro s hv
    have hl : s.length = 11 := by simp [Spec.TaxId.FR.valid, Spec.TaxId.FR.format] at hv; exact hv.1.1
    obtain ⟨c0,c1,c2,c3,c4,c5,c6,c7,c8,c9,c10,rfl⟩ := len11 s hl
    simp [Spec.TaxId.FR.valid, Spec.TaxId.FR.format, Spec.TaxId.FR.check, isDigits, isDig, digs, num, dval] at hv
    refine ⟨rfl, ?_, ?_⟩
    · digit_positions 11
    · simp [sumF, W, digs, dval]; omega
  · intro s s' _ _ i hi; simp at hi

theorem be_single_digit_detected (s s' : Str) (hv : Spec.TaxId.BE.valid s = true) (he : edit1 s s') :
    Spec.TaxId.BE.valid s' = false := by
  have hlen := edit1_length he
  by_cases hl9 : s.length = 9
  · -- 9-digit form
    refine detect_str (fun s => Spec.TaxId.BE.valid s && s.length == 9) 9 97 0 (fun _ => false)
      (W [1000000, 100000, 10000, 1000, 100, 10, 1, 10, 1]) rfl (by decide) ?_ ?_ s s' (by simp [hv, hl9]) he |> fun h => ?_
    · simpa [hlen, hl9] using h
    · intro s hv
      simp only [Bool.and_eq_true, beq_iff_eq] at hv
      obtain ⟨hv, hl⟩ := hv
      obtain ⟨c0,c1,c2,c3,c4,c5,c6,c7,c8,rfl⟩ := len9 s hl
      simp [Spec.TaxId.BE.valid, Spec.TaxId.BE.format, Spec.TaxId.BE.check, Spec.TaxId.BE.pad, isDigits, isDig, digs, num, dval] at hv
      refine ⟨rfl, ?_, ?_⟩
      · digit_positions 9
      · simp [sumF, W, digs, dval]; omega
    · intro s s' _ _ i hi; simp at hi
  · have hl10 : s.length = 10 := by
      simp [Spec.TaxId.BE.valid, Spec.TaxId.BE.format, Spec.TaxId.BE.pad] at hv
      have := hv.1.1.1.1
      split at this <;> simp_all
    refine detect_str (fun s => Spec.TaxId.BE.valid s && s.length == 10) 10 97 0 (fun i => i == 0)
      (W [0, 1000000, 100000, 10000, 1000, 100, 10, 1, 10, 1]) rfl (by decide) ?_ ?_ s s' (by simp [hv, hl10]) he |> fun h => ?_
    · simpa [hlen, hl10] using h
    · intro s hv
      simp only [Bool.and_eq_true, beq_iff_eq] at hv
      obtain ⟨hv, hl⟩ := hv
      obtain ⟨c0,c1,c2,c3,c4,c5,c6,c7,c8,c9,rfl⟩ := len10 s hl
      simp [Spec.TaxId.BE.valid, Spec.TaxId.BE.format, Spec.TaxId.BE.check, Spec.TaxId.BE.pad, isDigits, isDig, digs, num, dval, char_eq_iff_toNat] at hv
      refine ⟨rfl, ?_, ?_⟩
      · digit_positions 10
      · simp [sumF, W, digs, dval]; omega
    · intro s s' hv hv' i hi
      have hi0 : i = 0 := by simpa using hi
      subst hi0
      simp only [Bool.and_eq_true, beq_iff_eq] at hv hv'
      obtain ⟨hv, hl⟩ := hv
      obtain ⟨hv', hl'⟩ := hv'
      obtain ⟨c0,c1,c2,c3,c4,c5,c6,c7,c8,c9,rfl⟩ := len10 s hl
      obtain ⟨e0,e1,e2,e3,e4,e5,e6,e7,e8,e9,rfl⟩ := len10 s' hl'
      simp [Spec.TaxId.BE.valid, Spec.TaxId.BE.format, Spec.TaxId.BE.pad] at hv hv'
      simp [hv.1.1.2, hv'.1.1.2]

/-- NL, the published 11-test alone (on the 9-digit number) detects every single-digit error -/
theorem nl_elfproef_single_digit_detected (s s' : Str)
    (hv : (s.length == 9 && isDigits s && Spec.TaxId.NL.elfproef (digs s)) = true) (he : edit1 s s') :
    (s'.length == 9 && isDigits s' && Spec.TaxId.NL.elfproef (digs s')) = false := by
  refine detect_str (fun s => s.length == 9 && isDigits s && Spec.TaxId.NL.elfproef (digs s)) 9 11 0 (fun _ => false)
    (W [9, 8, 7, 6, 5, 4, 3, 2, 10]) rfl (by decide) ?_ ?_ s s' hv he
  · intro s hv
    have hl : s.length = 9 := by simp at hv; exact hv.1.1
    obtain ⟨c0,c1,c2,c3,c4,c5,c6,c7,c8,rfl⟩ := len9 s hl
    simp [Spec.TaxId.NL.elfproef, isDigits, isDig, digs, dot, dg, dval] at hv
    refine ⟨rfl, ?_, ?_⟩
    · digit_positions 9
    · simp [sumF, W, digs, dval]; omega
  · intro s s' _ _ i hi; simp at hi

/-- NL, the mod-97 test alone detects every single-character error -/
theorem nl_mod97_single_digit_detected (s s' : Str)
    (hv : (Spec.TaxId.NL.format s && Spec.TaxId.NL.mod97 s) = true) (he : edit1 s s') :
    (Spec.TaxId.NL.format s' && Spec.TaxId.NL.mod97 s') = false := by
  refine detect_str (fun s => Spec.TaxId.NL.format s && Spec.TaxId.NL.mod97 s) 12 97 (2321 * 10 ^ 13 + 1099) (fun i => i == 9)
    (W [1000000000000, 100000000000, 10000000000, 1000000000, 100000000, 10000000, 1000000, 100000, 10000, 0, 10, 1])
    rfl (by decide) ?_ ?_ s s' hv he
  · intro s hv
    have hl : s.length = 12 := by simp [Spec.TaxId.NL.format] at hv; exact hv.1.1.1.1
    obtain ⟨c0,c1,c2,c3,c4,c5,c6,c7,c8,c9,c10,c11,rfl⟩ := len12 s hl
    simp only [Bool.and_eq_true] at hv
    obtain ⟨hf, hm⟩ := hv
    simp [Spec.TaxId.NL.format, isDigits, isDig, char_eq_iff_toNat] at hf
    obtain ⟨⟨hd, h9⟩, he⟩ := hf
    have hB : c9 = 'B' := by rw [char_eq_iff_toNat]; exact h9
    subst hB
    have hx (c : Char) (h : 48 ≤ c.toNat ∧ c.toNat ≤ 57) : Spec.TaxId.NL.expand c = [dval c] := by simp [Spec.TaxId.NL.expand, isDig, h]
    simp (disch := omega) [Spec.TaxId.NL.mod97, hx, num] at hm
    simp [Spec.TaxId.NL.expand, isDig, num, dval] at hm
    refine ⟨rfl, ?_, ?_⟩
    · digit_positions 12
    · simp [sumF, W, digs, dval]; omega
  · intro s s' hv hv' i hi
    have hi0 : i = 9 := by simpa using hi
    subst hi0
    simp [Spec.TaxId.NL.format] at hv hv'
    rw [List.getD_eq_getElem?_getD, List.getD_eq_getElem?_getD, hv.1.1.2, hv'.1.1.2]

/-- DE (ISO 7064 MOD 11,10) detects every single-character error -/
theorem de_single_digit_detected (s s' : Str) (hv : Spec.TaxId.DE.valid s = true) (he : edit1 s s') :
    Spec.TaxId.DE.valid s' = false := by
  have hl : s.length = 9 := by simp [Spec.TaxId.DE.valid, Spec.TaxId.DE.format] at hv; exact hv.1.1.1
  obtain ⟨c0,c1,c2,c3,c4,c5,c6,c7,c8,rfl⟩ := len9 s hl
  obtain ⟨i, hi, c, hc, rfl⟩ := he
  cases hv' : Spec.TaxId.DE.valid ([c0,c1,c2,c3,c4,c5,c6,c7,c8].set i c) with
  | false => rfl
  | true =>
    exfalso
    simp only [List.length_cons, List.length_nil] at hi
    have hcases : i = 0 ∨ i = 1 ∨ i = 2 ∨ i = 3 ∨ i = 4 ∨ i = 5 ∨ i = 6 ∨ i = 7 ∨ i = 8 := by omega
    simp only [Spec.TaxId.DE.valid, Spec.TaxId.DE.format, Spec.TaxId.DE.check, Bool.and_eq_true] at hv
    obtain ⟨⟨⟨_, hd⟩, _⟩, hchk⟩ := hv
    simp [isDigits, isDig] at hd
    simp [digs, dg] at hchk
    rcases hcases with rfl|rfl|rfl|rfl|rfl|rfl|rfl|rfl|rfl
    · simp only [Spec.TaxId.DE.valid, Spec.TaxId.DE.format, Spec.TaxId.DE.check, Bool.and_eq_true] at hv'
      obtain ⟨⟨⟨_, hd'⟩, _⟩, hchk'⟩ := hv'
      simp [isDigits, isDig] at hd'
      simp [digs, dg] at hchk'
      simp at hc
      have hcd : dval c < 10 := by simp only [dval]; omega
      have hne : dval c0 ≠ dval c := by
        intro h; apply hc; rw [char_eq_iff_toNat]; simp only [dval] at h; omega
      refine de_detect_list [] [dval c1, dval c2, dval c3, dval c4, dval c5, dval c6, dval c7] (dval c0) (dval c) (dval c8) ?_ (by simp only [dval]; omega) hcd hne (by simpa using hchk) (by simpa using hchk')
      intro d hd; simp at hd <;> (simp only [dval] at hd; omega)
    · simp only [Spec.TaxId.DE.valid, Spec.TaxId.DE.format, Spec.TaxId.DE.check, Bool.and_eq_true] at hv'
      obtain ⟨⟨⟨_, hd'⟩, _⟩, hchk'⟩ := hv'
      simp [isDigits, isDig] at hd'
      simp [digs, dg] at hchk'
      simp at hc
      have hcd : dval c < 10 := by simp only [dval]; omega
      have hne : dval c1 ≠ dval c := by
        intro h; apply hc; rw [char_eq_iff_toNat]; simp only [dval] at h; omega
      refine de_detect_list [dval c0] [dval c2, dval c3, dval c4, dval c5, dval c6, dval c7] (dval c1) (dval c) (dval c8) ?_ (by simp only [dval]; omega) hcd hne (by simpa using hchk) (by simpa using hchk')
      intro d hd; simp at hd <;> (simp only [dval] at hd; omega)
    · simp only [Spec.TaxId.DE.valid, Spec.TaxId.DE.format, Spec.TaxId.DE.check, Bool.and_eq_true] at hv'
      obtain ⟨⟨⟨_, hd'⟩, _⟩, hchk'⟩ := hv'
      simp [isDigits, isDig] at hd'
      simp [digs, dg] at hchk'
      simp at hc
      have hcd : dval c < 10 := by simp only [dval]; omega
      have hne : dval c2 ≠ dval c := by
        intro h; apply hc; rw [char_eq_iff_toNat]; simp only [dval] at h; omega
      refine de_detect_list [dval c0, dval c1] [dval c3, dval c4, dval c5, dval c6, dval c7] (dval c2) (dval c) (dval c8) ?_ (by simp only [dval]; omega) hcd hne (by simpa using hchk) (by simpa using hchk')
      intro d hd; simp at hd <;> (simp only [dval] at hd; omega)
    · simp only [Spec.TaxId.DE.valid, Spec.TaxId.DE.format, Spec.TaxId.DE.check, Bool.and_eq_true] at hv'
      obtain ⟨⟨⟨_, hd'⟩, _⟩, hchk'⟩ := hv'
      simp [isDigits, isDig] at hd'
      simp [digs, dg] at hchk'
      simp at hc
      have hcd : dval c < 10 := by simp only [dval]; omega
      have hne : dval c3 ≠ dval c := by
        intro h; apply hc; rw [char_eq_iff_toNat]; simp only [dval] at h; omega
      refine de_detect_list [dval c0, dval c1, dval c2] [dval c4, dval c5, dval c6, dval c7] (dval c3) (dval c) (dval c8) ?_ (by simp only [dval]; omega) hcd hne (by simpa using hchk) (by simpa using hchk')
      intro d hd; simp at hd <;> (simp only [dval] at hd; omega)
    · simp only [Spec.TaxId.DE.valid, Spec.TaxId.DE.format, Spec.TaxId.DE.check, Bool.and_eq_true] at hv'
      obtain ⟨⟨⟨_, hd'⟩, _⟩, hchk'⟩ := hv'
      simp [isDigits, isDig] at hd'
      simp [digs, dg] at hchk'
      simp at hc
      have hcd : dval c < 10 := by simp only [dval]; omega
      have hne : dval c4 ≠ dval c := by
        intro h; apply hc; rw [char_eq_iff_toNat]; simp only [dval] at h; omega
      refine de_detect_list [dval c0, dval c1, dval c2, dval c3] [dval c5, dval c6, dval c7] (dval c4) (dval c) (dval c8) ?_ (by simp only [dval]; omega) hcd hne (by simpa using hchk) (by simpa using hchk')
      intro d hd; simp at hd <;> (simp only [dval] at hd; omega)
    · simp only [Spec.TaxId.DE.valid, Spec.TaxId.DE.format, Spec.TaxId.DE.check, Bool.and_eq_true] at hv'
      obtain ⟨⟨⟨_, hd'⟩, _⟩, hchk'⟩ := hv'
      simp [isDigits, isDig] at hd'
      simp [digs, dg] at hchk'
      simp at hc
      have hcd : dval c < 10 := by simp only [dval]; omega
      have hne : dval c5 ≠ dval c := by
        intro h; apply hc; rw [char_eq_iff_toNat]; simp only [dval] at h; omega
      refine de_detect_list [dval c0, dval c1, dval c2, dval c3, dval c4] [dval c6, dval c7] (dval c5) (dval c) (dval c8) ?_ (by simp only [dval]; omega) hcd hne (by simpa using hchk) (by simpa using hchk')
      intro d hd; simp at hd <;> (simp only [dval] at hd; omega)
    · simp only [Spec.TaxId.DE.valid, Spec.TaxId.DE.format, Spec.TaxId.DE.check, Bool.and_eq_true] at hv'
      obtain ⟨⟨⟨_, hd'⟩, _⟩, hchk'⟩ := hv'
      simp [isDigits, isDig] at hd'
      simp [digs, dg] at hchk'
      simp at hc
      have hcd : dval c < 10 := by simp only [dval]; omega
      have hne : dval c6 ≠ dval c := by
        intro h; apply hc; rw [char_eq_iff_toNat]; simp only [dval] at h; omega
      refine de_detect_list [dval c0, dval c1, dval c2, dval c3, dval c4, dval c5] [dval c7] (dval c6) (dval c) (dval c8) ?_ (by simp only [dval]; omega) hcd hne (by simpa using hchk) (by simpa using hchk')
      intro d hd; simp at hd <;> (simp only [dval] at hd; omega)
    · simp only [Spec.TaxId.DE.valid, Spec.TaxId.DE.format, Spec.TaxId.DE.check, Bool.and_eq_true] at hv'
      obtain ⟨⟨⟨_, hd'⟩, _⟩, hchk'⟩ := hv'
      simp [isDigits, isDig] at hd'
      simp [digs, dg] at hchk'
      simp at hc
      have hcd : dval c < 10 := by simp only [dval]; omega
      have hne : dval c7 ≠ dval c := by
        intro h; apply hc; rw [char_eq_iff_toNat]; simp only [dval] at h; omega
      refine de_detect_list [dval c0, dval c1, dval c2, dval c3, dval c4, dval c5, dval c6] [] (dval c7) (dval c) (dval c8) ?_ (by simp only [dval]; omega) hcd hne (by simpa using hchk) (by simpa using hchk')
      intro d hd; simp at hd <;> (simp only [dval] at hd; omega)
    · simp only [Spec.TaxId.DE.valid, Spec.TaxId.DE.format, Spec.TaxId.DE.check, Bool.and_eq_true] at hv'
      obtain ⟨⟨⟨_, hd'⟩, _⟩, hchk'⟩ := hv'
      simp [isDigits, isDig] at hd'
      simp [digs, dg] at hchk'
      simp at hc
      have hcd : dval c < 10 := by simp only [dval]; omega
      have hne : dval c8 ≠ dval c := by
        intro h; apply hc; rw [char_eq_iff_toNat]; simp only [dval] at h; omega
      simp only [dval] at hchk hchk' hne hcd <;> omega

/-- PT (remainders 0 and 1 both give check digit 0): a single-character error in a valid
    NIF goes undetected only if it moves the remainder between 0 and 1 -/
theorem pt_single_digit_undetected_only_r01 (s s' : Str) (hv : Spec.TaxId.PT.valid s = true) (he : edit1 s s')
    (hv' : Spec.TaxId.PT.valid s' = true) :
    dot [9, 8, 7, 6, 5, 4, 3, 2] (digs s) % 11 < 2 ∧ dot [9, 8, 7, 6, 5, 4, 3, 2] (digs s') % 11 < 2 := by
  have key := collapsed_str Spec.TaxId.PT.valid 9 11 [9, 8, 7, 6, 5, 4, 3, 2] (fun r => if r < 2 then 0 else 11 - r) rfl (by decide) ?_ s s' hv he hv'
  · have hcol : ∀ r, r < 11 → ∀ r', r' < 11 → r ≠ r' → (if r < 2 then 0 else 11 - r) = (if r' < 2 then 0 else 11 - r') → r < 2 ∧ r' < 2 := by decide
    exact hcol _ (Nat.mod_lt _ (by omega)) _ (Nat.mod_lt _ (by omega)) key.1 key.2
  · intro s hv
    have hl : s.length = 9 := by simp [Spec.TaxId.PT.valid, Spec.TaxId.PT.format] at hv; exact hv.1.1.1
    obtain ⟨c0,c1,c2,c3,c4,c5,c6,c7,c8,rfl⟩ := len9 s hl
    simp only [Spec.TaxId.PT.valid, Spec.TaxId.PT.format, Bool.and_eq_true] at hv
    obtain ⟨⟨⟨_, hd⟩, _⟩, hk⟩ := hv
    simp [isDigits, isDig] at hd
    refine ⟨rfl, ?_, ?_⟩
    · all_digit_positions 9
    · simpa [Spec.TaxId.PT.check, dg, digs] using hk

/-- GR (remainders 0 and 10 both give check digit 0): undetected only between remainders 0 and 10 -/
theorem gr_single_digit_undetected_only_r0_10 (s s' : Str) (hv : Spec.TaxId.GR.valid s = true) (he : edit1 s s')
    (hv' : Spec.TaxId.GR.valid s' = true) :
    let r := dot [256, 128, 64, 32, 16, 8, 4, 2] (digs s) % 11
    let r' := dot [256, 128, 64, 32, 16, 8, 4, 2] (digs s') % 11
    (r = 0 ∧ r' = 10) ∨ (r = 10 ∧ r' = 0) := by
  have key := collapsed_str Spec.TaxId.GR.valid 9 11 [256, 128, 64, 32, 16, 8, 4, 2] (fun r => r % 10) rfl (by decide) ?_ s s' hv he hv'
  · have hcol : ∀ r, r < 11 → ∀ q, q < 11 → (r ≠ q ∧ r % 10 = q % 10) → ((r = 0 ∧ q = 10) ∨ (r = 10 ∧ q = 0)) := by decide
    exact hcol _ (Nat.mod_lt _ (by omega)) _ (Nat.mod_lt _ (by omega)) ⟨key.1, key.2⟩
  · intro s hv
    have hl : s.length = 9 := by simp [Spec.TaxId.GR.valid, Spec.TaxId.GR.format] at hv; exact hv.1.1
    obtain ⟨c0,c1,c2,c3,c4,c5,c6,c7,c8,rfl⟩ := len9 s hl
    simp only [Spec.TaxId.GR.valid, Spec.TaxId.GR.format, Bool.and_eq_true] at hv
    obtain ⟨⟨_, hd⟩, hk⟩ := hv
    simp [isDigits, isDig] at hd
    refine ⟨rfl, ?_, ?_⟩
    · all_digit_positions 9
    · have := hk; simp [Spec.TaxId.GR.check, dg, digs] at this; simp [digs]; omega

theorem co_collisions : ∀ r, r < 11 → ∀ q, q < 11 →
    (r ≠ q ∧ (if r < 2 then r else 11 - r) = (if q < 2 then q else 11 - q)) → ((r = 1 ∧ q = 10) ∨ (r = 10 ∧ q = 1)) := by decide

/-- CO, 9-digit NIT (remainders 1 and 10 both give check digit 1) -/
theorem co9_single_digit_undetected_only_r1_10 (s s' : Str) (hl : s.length = 9) (hv : Spec.TaxId.CO.valid s = true) (he : edit1 s s')
    (hv' : Spec.TaxId.CO.valid s' = true) :
    let r := dot [37, 29, 23, 19, 17, 13, 7, 3] (digs s) % 11
    let r' := dot [37, 29, 23, 19, 17, 13, 7, 3] (digs s') % 11
    (r = 1 ∧ r' = 10) ∨ (r = 10 ∧ r' = 1) := by
  have hl' := edit1_length he
  have key := collapsed_str (fun s => Spec.TaxId.CO.valid s && s.length == 9) 9 11 [37, 29, 23, 19, 17, 13, 7, 3]
    (fun r => if r < 2 then r else 11 - r) rfl (by decide) ?_ s s' (by simp [hv, hl]) he (by simp [hv', hl', hl])
  · exact co_collisions _ (Nat.mod_lt _ (by omega)) _ (Nat.mod_lt _ (by omega)) ⟨key.1, key.2⟩
  · intro s hv
    simp only [Bool.and_eq_true, beq_iff_eq] at hv
    obtain ⟨hv, hl⟩ := hv
    obtain ⟨c0,c1,c2,c3,c4,c5,c6,c7,c8,rfl⟩ := len9 s hl
    simp only [Spec.TaxId.CO.valid, Spec.TaxId.CO.format, Bool.and_eq_true] at hv
    obtain ⟨⟨_, hd⟩, hk⟩ := hv
    simp [isDigits, isDig] at hd
    refine ⟨rfl, ?_, ?_⟩
    · all_digit_positions 9
    · simp [Spec.TaxId.CO.check, Spec.TaxId.CO.primes, digs, dot] at hk
      simp [digs, dot]
      rw [hk]; ring_nf

/-- CO, 10-digit NIT -/
theorem co10_single_digit_undetected_only_r1_10 (s s' : Str) (hl : s.length = 10) (hv : Spec.TaxId.CO.valid s = true) (he : edit1 s s')
    (hv' : Spec.TaxId.CO.valid s' = true) :
    let r := dot [41, 37, 29, 23, 19, 17, 13, 7, 3] (digs s) % 11
    let r' := dot [41, 37, 29, 23, 19, 17, 13, 7, 3] (digs s') % 11
    (r = 1 ∧ r' = 10) ∨ (r = 10 ∧ r' = 1) := by
  have hl' := edit1_length he
  have key := collapsed_str (fun s => Spec.TaxId.CO.valid s && s.length == 10) 10 11 [41, 37, 29, 23, 19, 17, 13, 7, 3]
    (fun r => if r < 2 then r else 11 - r) rfl (by decide) ?_ s s' (by simp [hv, hl]) he (by simp [hv', hl', hl])
  · exact co_collisions _ (Nat.mod_lt _ (by omega)) _ (Nat.mod_lt _ (by omega)) ⟨key.1, key.2⟩
  · intro s hv
    simp only [Bool.and_eq_true, beq_iff_eq] at hv
    obtain ⟨hv, hl⟩ := hv
    obtain ⟨c0,c1,c2,c3,c4,c5,c6,c7,c8,c9,rfl⟩ := len10 s hl
    simp only [Spec.TaxId.CO.valid, Spec.TaxId.CO.format, Bool.and_eq_true] at hv
    obtain ⟨⟨_, hd⟩, hk⟩ := hv
    simp [isDigits, isDig] at hd
    refine ⟨rfl, ?_, ?_⟩
    · all_digit_positions 10
    · simp [Spec.TaxId.CO.check, Spec.TaxId.CO.primes, digs, dot] at hk
      simp [digs, dot]
      rw [hk]; ring_nf

/-- BR (r < 2 ↦ 0 for each of the two digits): an undetected single-digit error must move
    the second remainder between 0 and 1 -/
theorem br_single_digit_undetected_only_r01 (s s' : Str) (hv : Spec.TaxId.BR.valid s = true) (he : edit1 s s')
    (hv' : Spec.TaxId.BR.valid s' = true) :
    dot [6, 5, 4, 3, 2, 9, 8, 7, 6, 5, 4, 3, 2] (digs s) % 11 < 2 ∧ dot [6, 5, 4, 3, 2, 9, 8, 7, 6, 5, 4, 3, 2] (digs s') % 11 < 2 := by
  have key := collapsed_str Spec.TaxId.BR.valid 14 11 [6, 5, 4, 3, 2, 9, 8, 7, 6, 5, 4, 3, 2] Spec.TaxId.BR.dv rfl (by decide) ?_ s s' hv he hv'
  · have hcol : ∀ r, r < 11 → ∀ q, q < 11 → (r ≠ q ∧ Spec.TaxId.BR.dv r = Spec.TaxId.BR.dv q) → (r < 2 ∧ q < 2) := by decide
    exact hcol _ (Nat.mod_lt _ (by omega)) _ (Nat.mod_lt _ (by omega)) ⟨key.1, key.2⟩
  · intro s hv
    have hl : s.length = 14 := by simp [Spec.TaxId.BR.valid, Spec.TaxId.BR.format] at hv; exact hv.1.1
    obtain ⟨c0,c1,c2,c3,c4,c5,c6,c7,c8,c9,c10,c11,c12,c13,rfl⟩ := len14 s hl
    simp only [Spec.TaxId.BR.valid, Spec.TaxId.BR.format, Bool.and_eq_true] at hv
    obtain ⟨⟨_, hd⟩, hk⟩ := hv
    simp [isDigits, isDig] at hd
    refine ⟨rfl, ?_, ?_⟩
    · all_digit_positions 14
    · simp [Spec.TaxId.BR.check, dg, digs] at hk
      simpa [digs] using hk.2


/-! ## non-vacuity: real codes, the NL remainder-10 case, undetected pairs -/

example : AT.goValid "U12345675".toList = true ∧ BE.goValid "0428759497".toList = true ∧ BR.goValid "11222333000181".toList = true ∧
    CH.goValid "E284156502".toList = true ∧ CO.goValid "412615332".toList = true ∧ DE.goValid "111111125".toList = true := by decide
example : PL.goValid "5260001246".toList = true ∧ PT.goValid "545259045".toList = true ∧ IT.goValid "12345670785".toList = true ∧
    GR.goValid "925667500".toList = true ∧ FR.goValid "44732829320".toList = true ∧ NL.goValid "000099995B57".toList = true := by decide
example : ES.goValid "B85905495".toList = true ∧ IN.goValid "27AAPFU0939F1ZV".toList = true ∧ GB.goValid "350983637".toList = true ∧
    MX.goValid "K&A010101AB1".toList = true ∧ AE.goValid "123456789012345".toList = true := by decide
example : DE.goValid "111111126".toList = false ∧ PL.goValid "5260001247".toList = false ∧ ES.goValid "B85905496".toList = false := by decide

/-- NL: a code whose 11-test remainder is 10 (9·1 + 2·6 = 21, 21 mod 11 = 10) and whose ninth
    digit is 0 is rejected, by the published rule and by Go (it was accepted until the fix
    `nl-mod11-remainder-10`); codes with the remainders 0 and 9 are accepted; the mod-97 path
    is independent of the 11-test -/
example : NL.goValid "100000060B01".toList = false ∧ Spec.TaxId.NL.valid "100000060B01".toList = false ∧
    NL.goValid "000000000B01".toList = true ∧ NL.goValid "100000009B01".toList = true ∧
    NL.goValid "000099998B57".toList = true ∧ Spec.TaxId.NL.elfproef (digs "000099998".toList) = false := by decide

/-- GB does not guarantee single-digit detection: two valid numbers one digit apart
    (old-style and 9755-style check digits coincide) -/
example : Spec.TaxId.GB.valid "101235046".toList = true ∧ Spec.TaxId.GB.valid "161235046".toList = true := by decide
/-- PT: an undetected single-digit error (remainders 0 and 1) -/
example : Spec.TaxId.PT.valid "500000000".toList = true ∧ Spec.TaxId.PT.valid "540000000".toList = true := by decide
/-- the hypotheses of the detection theorems are satisfiable -/
example : Spec.TaxId.PL.valid "5260001246".toList = true ∧ edit1 "5260001246".toList "5260001346".toList :=
  ⟨by decide, 7, by decide, '3', by decide, by decide⟩
/-- doubled prefixes are removed in one normalisation -/
example : normalizeIdentity "EL".toList [['G','R']] "GREL925667500".toList = "925667500".toList ∧
    normalizeIdentity "EL".toList [['G','R']] "ELGR925667500".toList = "925667500".toList := by decide
/-- GR/EL (was known finding normalize-rewritten-country-prefix, fixed in `d935db9`): under the
    ISO country code `GR` the prefixes `EL` and `GR` are both removed by the first normalisation,
    in either order, exactly as under `EL`; the result is a fixed point -/
example : normalize "EL" "GR".toList "EL 925667500".toList = ("EL".toList, "925667500".toList) ∧
    normalize "EL" "GR".toList "GREL925667500".toList = ("EL".toList, "925667500".toList) ∧
    normalize "EL" "GR".toList "el-gr 925667500".toList = ("EL".toList, "925667500".toList) ∧
    normalize "EL" "EL".toList "EL 925667500".toList = ("EL".toList, "925667500".toList) ∧
    normalize "EL" "EL".toList "925667500".toList = ("EL".toList, "925667500".toList) := by decide
example : (normalize "CH" "CH".toList "CHE-284.156.502 MWST".toList).2 = "E284156502".toList ∧
    (normalize "FR" "FR".toList "FR 732 829 320".toList).2 = "44732829320".toList ∧
    (normalize "MX" "MX".toList "k&ñ-010101 ab1".toList).2 = "K&Ñ010101AB1".toList := by decide

/-! ## expectations over facts regenerated from the Go source on every run

The models were written against these pattern strings, weight tables, letter
tables, prefix sets and function shapes (literals and operators in source
order).  A changed weight, modulus, special-remainder rule or regular
expression breaks one of these obligations. -/
namespace Expect
open GoblVerif.Generated.TaxId

theorem generic_gate : tax_regexps = ["^[A-Z0-9]+$", "[^A-Z0-9]+"] ∧ tax_strs_IdentityCodeValidationIgnore = ["MX"] := by decide
theorem normalizer_alt_codes : normalizeAlts_GB = ["XI", "XU"] ∧ normalizeAlts_EL = ["GR"] ∧ normalizeAlts_IN = ["IN"] ∧
    normalizeAlts_ES = [] ∧ normalizeAlts_FR = [] ∧ normalizeAlts_CH = [] ∧ normalizeAlts_DE = [] ∧ normalizeAlts_NL = [] ∧
    normalizeAlts_PT = [] ∧ normalizeAlts_PL = [] ∧ normalizeAlts_IT = [] ∧ normalizeAlts_BE = [] ∧ normalizeAlts_AT = [] ∧
    normalizeAlts_CO = [] ∧ normalizeAlts_AE = [] := by decide
theorem model_alt_codes : (normalizeAlts_GB.map String.toList = altsOf "GB") ∧ (normalizeAlts_EL.map String.toList = altsOf "EL") ∧
    (normalizeAlts_IN.map String.toList = altsOf "IN") := by decide
theorem validators_registered : ["AE", "AT", "BE", "BR", "CH", "CO", "DE", "ES", "FR", "GB", "EL", "IN", "IT", "MX", "NL", "PL", "PT"].all
    (validatorRegistered.contains ·) = true := by decide
theorem ae_patterns : ae_regexps = ["^\\d{15}$"] := by decide
theorem at_patterns : at_regexps = ["^U\\d{8}$"] := by decide
theorem be_patterns : be_regexps = ["^0?\\d{9}$"] := by decide
theorem ch_patterns : ch_regexps = ["^E\\d{9}$", "(MWST|TVA|IVA)+$"] := by decide
theorem de_patterns : de_regexps = ["^[1-9]\\d{8}$"] := by decide
theorem es_patterns : es_regexps = ["^(?P<number>[0-9]{8})(?P<check>[TRWAGMYFPDXBNJZSQVHLCKE])$", "^(?P<type>[XYZ])(?P<number>[0-9]{7})(?P<check>[TRWAGMYFPDXBNJZSQVHLCKE])$", "^(?P<type>[KLM])(?P<number>[0-9]{7})(?P<check>[0-9JABCDEFGHI])$", "^(?P<type>[ABCDEFGHJNPQRSUVW])(?P<number>[0-9]{7})(?P<check>[0-9JABCDEFGHI])$"] := by decide
theorem fr_patterns : fr_regexps = ["^\\d{11}$", "^\\d{9}$"] := by decide
theorem gb_patterns : gb_regexps = ["^\\d{9}$", "^\\d{12}$", "^GD\\d{3}$", "^HA\\d{3}$"] := by decide
theorem gr_patterns : gr_regexps = ["^\\d{9}$"] := by decide
theorem in_patterns : in_regexps = ["^[0-9]{2}[A-Z]{5}[0-9]{4}[A-Z]{1}[1-9A-Z]{1}Z[0-9A-Z]{1}$"] := by decide
theorem mx_patterns : mx_regexps = ["^([A-ZÑ\\&]{4})([0-9]{6})([A-Z0-9]{3})$", "^([A-ZÑ\\&]{3})([0-9]{6})([A-Z0-9]{3})$", "[^A-ZÑ\\&0-9]+"] := by decide
theorem pl_patterns : pl_regexps = ["^[1-9]((\\d[1-9])|([1-9]\\d))\\d{7}$"] := by decide
theorem at_weights : at_ints_taxCodeMultipliers = AT.multipliers := by decide
theorem br_weights : br_ints_weights1 = BR.weights1 ∧ br_ints_weights2 = BR.weights2 := by decide
theorem ch_weights : ch_ints_taxCodeMultipliers = CH.multipliers := by decide
theorem co_weights : co_ints_nitMultipliers = CO.nitMultipliers ∧ co_ints_nitMultipliers = Spec.TaxId.CO.primes := by decide
theorem gb_weights : gb_ints_taxCodeMultipliers = GB.multipliers := by decide
theorem pl_weights : pl_ints_weights = PL.weights := by decide
theorem nl_length : nl_int_vatLen = 12 := by decide
theorem es_letter_tables : es_str_taxCodeCheckLetters.toList = ES.checkLetters ∧ es_str_taxCodeForeignTypeLetters.toList = ES.foreignTypeLetters ∧
    es_str_taxCodeOtherTypeLetters.toList = ES.otherTypeLetters ∧ es_str_taxCodeOrgTypeLetters.toList = ES.orgTypeLetters ∧
    es_str_taxCodeOrgCheckLetters.toList = ES.orgCheckLetters := by decide
theorem pt_prefixes : (pt_trueKeys_validPrefixes.map String.toList).all (PT.validPrefixes.contains ·) = true ∧
    PT.validPrefixes.all ((pt_trueKeys_validPrefixes.map String.toList).contains ·) = true := by decide
theorem tax_shape_NormalizeIdentity :
    tax_lits_NormalizeIdentity = ["s:"] ∧
    tax_ops_NormalizeIdentity = ["==", "=="] := by decide
theorem tax_shape_Identity_Normalize :
    tax_lits_Identity_Normalize = [] ∧
    tax_ops_Identity_Normalize = ["!="] := by decide
theorem tax_shape_Identity_Validate :
    tax_lits_Identity_Validate = [] ∧
    tax_ops_Identity_Validate = ["u&", "u&", "u&", "u&", "u&", "!=", "!="] := by decide
theorem luhn_shape_ComputeLuhnCheckDigit :
    luhn_lits_ComputeLuhnCheckDigit = ["0", "0", "1", "0", "'0'", "2", "0", "2", "9", "9", "10", "10", "10", "10"] ∧
    luhn_ops_ComputeLuhnCheckDigit = ["-", ">=", "--", "-", "%", "==", "*=", ">", "-=", "+=", "++", "-", "%", "%"] := by decide
theorem ae_shape_validateTRNCode :
    ae_lits_validateTRNCode = ["s:"] ∧
    ae_ops_validateTRNCode = ["u!", "||", "==", "u!"] := by decide
theorem at_shape_validateTaxCode :
    at_lits_validateTaxCode = ["s:"] ∧
    at_ops_validateTaxCode = ["u!", "||", "==", "u!"] := by decide
theorem at_shape_commercialCheck :
    at_lits_commercialCheck = ["1", "'0'", "9", "10", "10", "10", "4", "10", "10", "0", "8", "'0'"] ∧
    at_ops_commercialCheck = ["+", "-", "*", ">", "+=", "/", "+", "+=", "-", "+", "==", "-", "!="] := by decide
theorem be_shape_validateTaxCode :
    be_lits_validateTaxCode = ["s:"] ∧
    be_ops_validateTaxCode = ["u!", "||", "==", "u!"] := by decide
theorem be_shape_commercialCheck :
    be_lits_commercialCheck = ["9", "s:0", "1", "'0'", "0", "8", "97", "97", "8", "10"] ∧
    be_ops_commercialCheck = ["==", "+", "-", "==", "-", "!="] := by decide
theorem br_shape_validateTaxCode :
    br_lits_validateTaxCode = ["s:", "14", "5", "4", "3", "2", "9", "8", "7", "6", "5", "4", "3", "2", "12", "6", "5", "4", "3", "2", "9", "8", "7", "6", "5", "4", "3", "2", "13"] ∧
    br_ops_validateTaxCode = ["u!", "||", "==", "!=", "!=", "!="] := by decide
theorem br_shape_verifyDigit :
    br_lits_verifyDigit = ["0", "0", "11", "2", "0", "11"] ∧
    br_ops_verifyDigit = ["<", "++", "!=", "+=", "*", "%", "<", "-", "!=", "!="] := by decide
theorem ch_shape_validateTaxCode :
    ch_lits_validateTaxCode = ["s:"] ∧
    ch_ops_validateTaxCode = ["u!", "||", "==", "u!"] := by decide
theorem ch_shape_commercialCheck :
    ch_lits_commercialCheck = ["1", "'0'", "11", "11", "10", "11", "0", "9", "'0'"] ∧
    ch_ops_commercialCheck = ["+", "-", "*", "+", "-", "==", "==", "-", "!="] := by decide
theorem ch_shape_normalizeTaxIdentity :
    ch_lits_normalizeTaxIdentity = ["s:"] ∧
    ch_ops_normalizeTaxIdentity = ["=="] := by decide
theorem co_shape_validateTaxCode :
    co_lits_validateTaxCode = ["s:", "48", "0", "9", "10", "9", "0", "1", "1"] ∧
    co_ops_validateTaxCode = ["u!", "==", "-", "<", "||", ">", ">", "<", "-", "-"] := by decide
theorem co_shape_validateDigits :
    co_lits_validateDigits = ["0", "48", "1", "11", "2", "11"] ∧
    co_ops_validateDigits = ["!=", "+=", "-", "*", "-", "-", "%", ">=", "-", "!="] := by decide
theorem co_shape_normalizeTaxIdentity :
    co_lits_normalizeTaxIdentity = [] ∧
    co_ops_normalizeTaxIdentity = ["=="] := by decide
theorem de_shape_validateTaxCode :
    de_lits_validateTaxCode = ["s:"] ∧
    de_ops_validateTaxCode = ["u!", "||", "==", "u!"] := by decide
theorem de_shape_validateTaxCodeChecksum :
    de_lits_validateTaxCodeChecksum = ["10", "0", "0", "0", "8", "10", "0", "10", "2", "11", "11", "10", "0", "11", "8"] ∧
    de_ops_validateTaxCodeChecksum = ["<", "++", "!=", "+", "%", "==", "*", "%", "-", "==", "-", "!=", "!="] := by decide
theorem es_shape_validateTaxCode :
    es_lits_validateTaxCode = ["s:"] ∧
    es_ops_validateTaxCode = ["u!", "==", "=="] := by decide
theorem es_shape_DetermineTaxCodeType :
    es_lits_DetermineTaxCodeType = [] ∧
    es_ops_DetermineTaxCodeType = ["case1", "case1", "case1", "case1", "default"] := by decide
theorem es_shape_verifyNationalCode :
    es_lits_verifyNationalCode = ["s:00000000", "23", "0"] ∧
    es_ops_verifyNationalCode = ["!=", "==", "%", "!="] := by decide
theorem es_shape_verifyForeignCode :
    es_lits_verifyForeignCode = ["23", "0"] ∧
    es_ops_verifyForeignCode = ["!=", "+", "%", "!="] := by decide
theorem es_shape_verifyOrgCodeMatches :
    es_lits_verifyOrgCodeMatches = ["0", "0", "1", "1", "0", "2", "9", "9", "10", "10", "10", "1"] ∧
    es_ops_verifyOrgCodeMatches = ["&", "case1", "+=", "case1", "*", ">", "-", "+=", "-", "+", "%", "%", "!=", "u-", "!="] := by decide
theorem es_shape_normalizeTaxIdentity :
    es_lits_normalizeTaxIdentity = ["s:"] ∧
    es_ops_normalizeTaxIdentity = [] := by decide
theorem fr_shape_validateVATTaxCode :
    fr_lits_validateVATTaxCode = ["s:", "2", "2"] ∧
    fr_ops_validateVATTaxCode = ["u!", "||", "==", "u!", "!="] := by decide
theorem fr_shape_calculateVATCheckDigit :
    fr_lits_calculateVATCheckDigit = ["100", "12", "97", "s:%02d"] ∧
    fr_ops_calculateVATCheckDigit = ["*", "+", "%"] := by decide
theorem fr_shape_validateSIRENTaxCode :
    fr_lits_validateSIRENTaxCode = ["s:", "8", "8"] ∧
    fr_ops_validateSIRENTaxCode = ["u!", "||", "==", "u!", "!="] := by decide
theorem fr_shape_normalizeTaxIdentity :
    fr_lits_normalizeTaxIdentity = ["s:", "9", "s:%s%s"] ∧
    fr_ops_normalizeTaxIdentity = ["==", "==", "!="] := by decide
theorem gb_shape_validateTaxCode :
    gb_lits_validateTaxCode = ["s:", "s:GD", "s:HA"] ∧
    gb_ops_validateTaxCode = ["u!", "||", "==", "u!"] := by decide
theorem gb_shape_governmentDepartmentCheck :
    gb_lits_governmentDepartmentCheck = ["499", "2"] ∧
    gb_ops_governmentDepartmentCheck = [">"] := by decide
theorem gb_shape_healthAuthorityCheck :
    gb_lits_healthAuthorityCheck = ["500", "2"] ∧
    gb_ops_healthAuthorityCheck = ["<"] := by decide
theorem gb_shape_commercialCheck :
    gb_lits_commercialCheck = ["0", "7", "0", "'0'", "0", "97", "0", "0", "7", "9", "9990001", "100000", "999999", "9490001", "9700000", "55", "55", "42", "1000000"] ∧
    gb_ops_commercialCheck = ["==", "-", "+=", "*", ">", "-", "<", "-", "==", "&&", "<", "&&", "<", "||", ">", "&&", "<", "||", ">", ">=", "-", "+", "==", "&&", ">"] := by decide
theorem gr_shape_validateTaxCode :
    gr_lits_validateTaxCode = ["s:"] ∧
    gr_ops_validateTaxCode = ["u!", "||", "==", "u!", "u!"] := by decide
theorem gr_shape_hasValidChecksum :
    gr_lits_hasValidChecksum = ["9", "0", "8", "1", "8", "11", "10", "8"] ∧
    gr_ops_hasValidChecksum = ["!=", "<", "++", "+=", "*", "<<", "-", "%", "%", "=="] := by decide
theorem gr_shape_normalizeTaxIdentity :
    gr_lits_normalizeTaxIdentity = ["s:EL"] ∧
    gr_ops_normalizeTaxIdentity = ["=="] := by decide
/-- the country is overwritten *before* the code is cleaned (model: the country handed to
    `normalizeIdentity` is `EL`); the other order is the repaired defect `d935db9` -/
theorem gr_order_normalizeTaxIdentity :
    gr_steps_normalizeTaxIdentity = ["if tID == nil { return }", "tID.Country = \"EL\"",
      "tax.NormalizeIdentity(tID, l10n.GR)"] := by decide
theorem in_shape_validateTaxCode :
    in_lits_validateTaxCode = ["s:"] ∧
    in_ops_validateTaxCode = ["u!", "||", "==", "u!", "!="] := by decide
theorem in_shape_hasValidChecksum :
    in_lits_hasValidChecksum = ["15", "0", "14", "1", "2", "0", "2", "36", "36", "36", "36", "36", "14"] ∧
    in_ops_hasValidChecksum = ["!=", "%", "!=", "*", "+=", "/", "+", "%", "%", "-", "%", "!="] := by decide
theorem in_shape_charToValue :
    in_lits_charToValue = ["'0'", "'9'", "'0'", "'A'", "10"] ∧
    in_ops_charToValue = [">=", "&&", "<=", "-", "-", "+"] := by decide
theorem in_shape_valueToChar :
    in_lits_valueToChar = ["0", "9", "'0'", "'A'", "10"] ∧
    in_ops_valueToChar = [">=", "&&", "<=", "+", "+", "-"] := by decide
theorem in_shape_normalizeTaxIdentity :
    in_lits_normalizeTaxIdentity = ["s:IN"] ∧
    in_ops_normalizeTaxIdentity = ["=="] := by decide
/-- India cleans the code with the identity's own country first and overwrites the country
    afterwards (model: `normalizeIdentity country …`, then `IN`) -/
theorem in_order_normalizeTaxIdentity :
    in_steps_normalizeTaxIdentity = ["if tID == nil { return }", "tax.NormalizeIdentity(tID, l10n.IN)",
      "tID.Code = cbc.Code(strings.ToUpper(tID.Code.String()))", "tID.Country = \"IN\""] := by decide
theorem it_shape_validateTaxCode :
    it_lits_validateTaxCode = ["s:", "48", "0", "9", "11", "10", "10"] ∧
    it_ops_validateTaxCode = ["u!", "||", "==", "-", "<", "||", ">", "!=", "!="] := by decide
theorem mx_shape_ValidateTaxIdentity :
    mx_lits_ValidateTaxIdentity = [] ∧
    mx_ops_ValidateTaxIdentity = ["==", "u&"] := by decide
theorem mx_shape_ValidateTaxCode :
    mx_lits_ValidateTaxCode = ["s:"] ∧
    mx_ops_ValidateTaxCode = ["u!", "||", "=="] := by decide
theorem mx_shape_DetermineTaxCodeType :
    mx_lits_DetermineTaxCodeType = [] ∧
    mx_ops_DetermineTaxCodeType = ["case1", "case1", "default"] := by decide
theorem mx_shape_NormalizeTaxCode :
    mx_lits_NormalizeTaxCode = ["s:"] ∧
    mx_ops_NormalizeTaxCode = [] := by decide
theorem nl_shape_validateTaxCode :
    nl_lits_validateTaxCode = ["s:", "9", "'B'", "0", "9", "10", "12"] ∧
    nl_ops_validateTaxCode = ["u!", "==", "!=", "!="] := by decide
theorem nl_shape_validateDigits :
    nl_lits_validateDigits = ["10", "64", "10", "s:NL%sB%s"] ∧
    nl_ops_validateDigits = ["!=", "!=", "%", "!=", "&&", "u!"] := by decide
theorem nl_shape_mod11 :
    nl_lits_mod11 = ["0", "8", "10", "2", "10", "11", "9", "1"] ∧
    nl_ops_mod11 = ["<", "++", "/=", "+", "+=", "%", "*", "%", ">", "u-"] := by decide
theorem nl_shape_checkMod97 :
    nl_lits_checkMod97 = ["48", "57", "48", "55", "10", "9", "10", "97", "1"] ∧
    nl_ops_checkMod97 = [">=", "&&", "<=", "-", "-", "*", ">", "*", "+", "%", "=="] := by decide
theorem pl_shape_validateTaxCode :
    pl_lits_validateTaxCode = ["s:"] ∧
    pl_ops_validateTaxCode = ["u!", "=="] := by decide
theorem pl_shape_validateNIPChecksum :
    pl_lits_validateNIPChecksum = ["10", "10", "9", "6", "5", "7", "2", "3", "4", "5", "6", "7", "0", "9", "11", "9"] ∧
    pl_ops_validateNIPChecksum = ["!=", "u!", "!=", "+=", "*", "%=", "=="] := by decide
theorem pt_shape_validateTaxCode :
    pt_lits_validateTaxCode = ["s:", "48", "0", "9", "9", "1", "2", "0", "1", "9", "1", "10", "11", "0", "0", "1", "0", "11", "8"] ∧
    pt_ops_validateTaxCode = ["u!", "==", "-", "<", "||", ">", "!=", "u!", "&&", "u!", "<", "++", "-", "!=", "+=", "*", "-", "%", "case2", "default", "-", "!=", "!="] := by decide

end Expect

end GoblVerif.Props.C13
