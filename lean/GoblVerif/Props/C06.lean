/-
  C06 — Amount and percentage text codec round-trips and accepts only the schema.

  Only property theorems live here (helper lemmas: Proofs/Codec.lean).  They
  are about the model of /repo/num's codec in Model/Codec.lean (the code as it
  is after fix 36384ed, the fix decoding quoted JSON values, and the fixes of
  the int64 minimum and of the percentage conversions) and relate it to the
  specification in Spec/C06.lean: the hand-written recognisers of the two
  published patterns, the exact decimal reading of a pattern member, and the
  64-bit condition `fits64` (−2^63 … 2^63−1, at most 18 decimals).
-/
import GoblVerif.Spec.C06
import GoblVerif.Generated.CodecFacts
import GoblVerif.Proofs.Codec
import GoblVerif.Proofs.CodecMinimal
import GoblVerif.Generated.CodecSrc
import GoblVerif.Proofs.CodecSrc
import GoblVerif.Proofs.Num
import Mathlib.Tactic.Linarith
import Mathlib.Tactic.FieldSimp

namespace GoblVerif.Props.C06
open GoblVerif GoblVerif.Codec GoblVerif.Spec.C06

/-! ## amounts: writing then reading -/

/-- Writing **any** int64 amount with at most 18 decimals and reading the text back
    gives the same value **and** the same exponent — the most negative value
    included (it used to be written as `--922….-8`, and its correct text used to
    be rejected: former known finding `amount-min-int64`). -/
theorem amount_roundtrip (a : Amount) (he : a.exp ≤ 18)
    (hlo : -(2 : ℤ) ^ 63 ≤ a.value) (hhi : a.value < (2 : ℤ) ^ 63) :
    amountFromString (amountToString a) = .ok a := by
  obtain ⟨v, e⟩ := a
  simp only at he hlo hhi
  obtain ⟨body, htext, hnm, _, hparse⟩ := amountToString_parse v e he hlo hhi
  rw [htext, amountFromString_sgn _ body (fun _ => hnm), hparse]

/-- The written text of every int64 amount is a member of `^\-?[0-9]+(\.[0-9]+)?$`. -/
theorem amount_text_matches (a : Amount) (he : a.exp ≤ 18)
    (hlo : -(2 : ℤ) ^ 63 ≤ a.value) (hhi : a.value < (2 : ℤ) ^ 63) :
    isAmountText (amountToString a) = true := by
  obtain ⟨v, e⟩ := a
  simp only at he hlo hhi
  obtain ⟨body, htext, hnm, hbody, _⟩ := amountToString_parse v e he hlo hhi
  rw [htext]
  unfold isAmountText
  by_cases hneg : v < 0
  · simp only [hneg, decide_true, sgn, if_true]; exact hbody
  · simp only [hneg, decide_false, sgn, Bool.false_eq_true, if_false]
    rw [stripMinus_eq]
    have : trimPrefixMinus body = body := by
      cases body with
      | nil => rfl
      | cons c r =>
        by_cases hc : c = '-'
        · subst hc; simp [hasPrefixMinus] at hnm
        · simp [trimPrefixMinus, hc]
    rw [this]; exact hbody

/-- The formerly excluded point: −2^63 is written as the decimal expansion of the
    value at every precision and read back unchanged. -/
theorem min_int64_roundtrips (e : ℕ) (he : e ≤ 18) :
    isAmountText (amountToString ⟨-2 ^ 63, e⟩) = true ∧
    amountFromString (amountToString ⟨-2 ^ 63, e⟩) = .ok ⟨-2 ^ 63, e⟩ :=
  ⟨amount_text_matches _ he (by norm_num) (by norm_num), amount_roundtrip _ he (by norm_num) (by norm_num)⟩

/-- … with the texts written out for 0, 2 and 18 decimals (kernel-evaluated). -/
theorem min_int64_texts :
    amountToString ⟨-2 ^ 63, 0⟩ = "-9223372036854775808".toList ∧
    amountToString ⟨-2 ^ 63, 2⟩ = "-92233720368547758.08".toList ∧
    amountToString ⟨-2 ^ 63, 18⟩ = "-9.223372036854775808".toList := by
  refine ⟨by decide +kernel, by decide +kernel, by decide +kernel⟩


/-! ## amounts: the minimal text -/

/-- `MinimalString` (trailing zeros of the decimals and a left-over point removed) of **any**
    int64 amount with at most 18 decimals is a member of the published pattern … -/
theorem minimal_string_matches (a : Amount) (he : a.exp ≤ 18)
    (hlo : -(2 : ℤ) ^ 63 ≤ a.value) (hhi : a.value < (2 : ℤ) ^ 63) :
    isAmountText (amountMinimalString a) = true := by
  obtain ⟨v, e⟩ := a
  simp only at he hlo hhi
  obtain ⟨body, b, htext, hnm, hbody, _, _⟩ := amountMinimalString_parse v e he hlo hhi
  rw [htext]
  unfold isAmountText
  by_cases hneg : v < 0
  · simp only [hneg, decide_true, sgn, if_true]; exact hbody
  · simp only [hneg, decide_false, sgn, Bool.false_eq_true, if_false]
    rw [stripMinus_eq]
    have : trimPrefixMinus body = body := by
      cases body with
      | nil => rfl
      | cons c r =>
        by_cases hc : c = '-'
        · subst hc; simp [hasPrefixMinus] at hnm
        · simp [trimPrefixMinus, hc]
    rw [this]; exact hbody

/-- … and it is read back as an amount of the **same value** (the exponent is the number of
    decimals that are left). -/
theorem minimal_string_preserves_value (a : Amount) (he : a.exp ≤ 18)
    (hlo : -(2 : ℤ) ^ 63 ≤ a.value) (hhi : a.value < (2 : ℤ) ^ 63) :
    ∃ b, amountFromString (amountMinimalString a) = .ok b ∧ b.toRat = a.toRat := by
  obtain ⟨v, e⟩ := a
  simp only at he hlo hhi
  obtain ⟨body, b, htext, hnm, _, hparse, hval⟩ := amountMinimalString_parse v e he hlo hhi
  exact ⟨b, by rw [htext, amountFromString_sgn _ body (fun _ => hnm), hparse], hval⟩

example : amountMinimalString ⟨-1250, 2⟩ = "-12.5".toList ∧ amountMinimalString ⟨1000, 3⟩ = "1".toList ∧
    amountMinimalString ⟨10, 0⟩ = "10".toList ∧ amountMinimalString ⟨0, 4⟩ = "0".toList := by decide

/-! ## amounts: reading -/

/-- `AmountFromString` accepts **exactly** the members of the published pattern
    that fit: at most 18 decimals, and the digits without the point, with the
    sign of the text, are an int64 (`fits64`: −2^63 … 2^63−1). -/
theorem amount_accepts_iff (s : Text) :
    (∃ a, amountFromString s = .ok a) ↔ (isAmountText s = true ∧ fits64 s = true) := by
  constructor
  · rintro ⟨a, h⟩
    obtain ⟨h1, h2, _⟩ := (amountFromString_ok_iff s a).mp h
    exact ⟨h1, h2⟩
  · rintro ⟨h1, h2⟩
    exact ⟨_, (amountFromString_ok_iff s _).mpr ⟨h1, h2, rfl⟩⟩

/-- What is accepted is read as the number the text denotes, at the written
    precision — never as a different number. -/
theorem amount_reads_value (s : Text) (a : Amount) (h : amountFromString s = .ok a) :
    a.toRat = decimalValue s ∧ a.exp = decimals s := by
  obtain ⟨_, _, rfl⟩ := (amountFromString_ok_iff s a).mp h
  refine ⟨?_, rfl⟩
  unfold Amount.toRat decimalValue signedUnscaled pow10
  simp only
  by_cases hn : negative s = true
  · simp only [hn, if_true]
    push_cast
    ring
  · simp only [hn]
    simp

/-- every rejection is an error value, and the model function is total: for every
    text exactly one of "accepted with the denoted value" / "rejected" holds -/
theorem amount_rejects_otherwise (s : Text) (h : ¬ (isAmountText s = true ∧ fits64 s = true)) :
    ∃ e, amountFromString s = .error e := by
  cases hr : amountFromString s with
  | error e => exact ⟨e, rfl⟩
  | ok a => exact absurd ((amount_accepts_iff s).mp ⟨a, hr⟩) h

/-- The range is the int64 range, not a symmetric one: −2^63 is read, 2^63 and
    −2^63−1 are not, with or without decimals. -/
theorem amount_range_boundaries :
    amountFromString "-9223372036854775808".toList = .ok ⟨-2 ^ 63, 0⟩ ∧
    amountFromString "-92233720368547758.08".toList = .ok ⟨-2 ^ 63, 2⟩ ∧
    amountFromString "9223372036854775808".toList = .error .major ∧
    amountFromString "92233720368547758.08".toList = .error .range ∧
    amountFromString "-9223372036854775809".toList = .error .major ∧
    amountFromString "-92233720368547758.09".toList = .error .range := by
  refine ⟨by decide +kernel, by decide +kernel, by decide +kernel, by decide +kernel, by decide +kernel,
    by decide +kernel⟩


/-! ## percentages -/

/-- the text body the percentage parser hands to `AmountFromString` -/
def pctBody (s : Text) : Text := if s.getLast? == some '%' then s.dropLast else s

private theorem getLast_snoc (x : Text) (c : Char) : (x ++ [c]).getLast? = some c := by simp

private theorem pct_parse_snoc (x : Text) :
    percentageFromString (x ++ ['%']) =
      match amountFromString x with
      | .error e => .error e
      | .ok a => .ok (Pct.ofAmount a) := by
  unfold percentageFromString
  have h1 : (x ++ ['%']).isEmpty = false := by simp
  simp only [h1, Bool.false_eq_true, if_false, getLast_snoc, beq_self_eq_true, if_true, List.dropLast_concat]
  cases amountFromString x <;> rfl

/-- the written amount of a percentage whose percent figure is an int64 -/
private theorem pct_written (v : ℤ) (e : ℕ) (he : e ≤ 20) :
    ∃ A : Amount, Pct.toAmount ⟨⟨v, e⟩⟩ = A ∧ A.exp ≤ 18 ∧ A.value = v * 10 ^ (2 - e) ∧
      A.toRat * (1 / 100) = (⟨v, e⟩ : Amount).toRat ∧ (2 ≤ e → A = ⟨v, e - 2⟩) := by
  refine ⟨_, toAmount_exact v e, by simp; omega, rfl, ?_, ?_⟩
  · unfold Amount.toRat pow10
    simp only
    have h10 : ((10 : ℤ) : ℚ) ≠ 0 := by norm_num
    by_cases h2 : 2 ≤ e
    · have e1 : 2 - e = 0 := by omega
      obtain ⟨k, rfl⟩ : ∃ k, e = k + 2 := ⟨e - 2, by omega⟩
      rw [e1]
      simp only [pow_zero, mul_one, Nat.add_sub_cancel]
      push_cast
      rw [pow_add]
      field_simp
      norm_num
    · have : e = 0 ∨ e = 1 := by omega
      rcases this with rfl | rfl
      · norm_num
        ring
      · norm_num
        ring
  · intro h2
    have e1 : 2 - e = 0 := by omega
    rw [e1]; simp

private theorem ofAmount_value (A : Amount) : (Pct.ofAmount A).amount.toRat = A.toRat * (1 / 100) := by
  rw [ofAmount_exact A]
  unfold Amount.toRat pow10
  simp only
  push_cast
  rw [pow_add]
  have h10 : ((10 : ℚ)) ^ A.exp ≠ 0 := by positivity
  field_simp
  norm_num

/-- Writing a percentage (at most 20 decimals; the percent figure `value·10^(2−exp)`
    an int64 — for two or more decimals that is the value itself, i.e. **every**
    int64 value) and reading the text back gives a percentage of the same value.
    For ≥ 2 decimals it is the identical percentage; below that the exponent is
    normalised to 2.  No magnitude bound: the conversions no longer go through
    float64 (former known findings `percentage-scaling-overflow`,
    `percentage-beyond-exact-range`). -/
theorem percentage_roundtrip_value (p : Pct) (he : p.amount.exp ≤ 20)
    (hlo : -(2 : ℤ) ^ 63 ≤ p.amount.value * 10 ^ (2 - p.amount.exp))
    (hhi : p.amount.value * 10 ^ (2 - p.amount.exp) < (2 : ℤ) ^ 63) :
    ∃ q, percentageFromString (pctToString p) = .ok q ∧ q.amount.toRat = p.amount.toRat ∧
      (2 ≤ p.amount.exp → q = p) := by
  obtain ⟨⟨v, e⟩⟩ := p
  simp only at he hlo hhi
  obtain ⟨A, hA, hAe, hAv, hrat, hsame⟩ := pct_written v e he
  have hrt := amount_roundtrip A hAe (by rw [hAv]; exact hlo) (by rw [hAv]; exact hhi)
  unfold pctToString
  rw [hA, pct_parse_snoc, hrt]
  refine ⟨Pct.ofAmount A, rfl, ?_, ?_⟩
  · rw [ofAmount_value A, hrat]
  · intro h2
    simp only at h2
    have := hsame h2
    subst this
    have hq : (Pct.ofAmount ⟨v, e - 2⟩).amount = ⟨v, e⟩ := by
      rw [ofAmount_exact]; simp only; congr 1; omega
    cases hp : Pct.ofAmount ⟨v, e - 2⟩ with
    | mk am => rw [hp] at hq; simp only at hq; rw [hq]

/-- The text of a percentage is stable: writing, reading and writing again gives
    the same text. -/
theorem percentage_text_stable (p : Pct) (he : p.amount.exp ≤ 20)
    (hlo : -(2 : ℤ) ^ 63 ≤ p.amount.value * 10 ^ (2 - p.amount.exp))
    (hhi : p.amount.value * 10 ^ (2 - p.amount.exp) < (2 : ℤ) ^ 63) :
    ∃ q, percentageFromString (pctToString p) = .ok q ∧ pctToString q = pctToString p := by
  obtain ⟨⟨v, e⟩⟩ := p
  simp only at he hlo hhi
  obtain ⟨A, hA, hAe, hAv, _, _⟩ := pct_written v e he
  have hrt := amount_roundtrip A hAe (by rw [hAv]; exact hlo) (by rw [hAv]; exact hhi)
  refine ⟨Pct.ofAmount A, ?_, ?_⟩
  · unfold pctToString; rw [hA, pct_parse_snoc, hrt]
  · unfold pctToString
    rw [hA]
    have hback : (Pct.ofAmount A).toAmount = A := by
      have hq := ofAmount_exact A
      cases hp : Pct.ofAmount A with
      | mk am =>
        rw [hp] at hq; simp only at hq; subst hq
        rw [toAmount_exact]
        have : 2 - (A.exp + 2) = 0 := by omega
        rw [this]; simp
    rw [hback]

/-- The written text is a member of `^\-?[0-9]+(\.[0-9]+)?%$`. -/
theorem percentage_text_matches (p : Pct) (he : p.amount.exp ≤ 20)
    (hlo : -(2 : ℤ) ^ 63 ≤ p.amount.value * 10 ^ (2 - p.amount.exp))
    (hhi : p.amount.value * 10 ^ (2 - p.amount.exp) < (2 : ℤ) ^ 63) :
    isPercentageText (pctToString p) = true := by
  obtain ⟨⟨v, e⟩⟩ := p
  simp only at he hlo hhi
  obtain ⟨A, hA, hAe, hAv, _, _⟩ := pct_written v e he
  unfold pctToString isPercentageText
  rw [hA, getLast_snoc]
  simp only [List.dropLast_concat]
  exact amount_text_matches A hAe (by rw [hAv]; exact hlo) (by rw [hAv]; exact hhi)


/-! ## percentages: reading -/

/-- What `PercentageFromString` accepts, exactly: the empty text, or a text whose
    body (the text without one trailing `%`, if there is one) is a fitting amount
    text.  This is what the code does; the published pattern demands less — see
    the next two theorems for the gap. -/
theorem percentage_accepts_iff (s : Text) :
    (∃ q, percentageFromString s = .ok q) ↔
      (s = [] ∨ (isAmountText (pctBody s) = true ∧ fits64 (pctBody s) = true)) := by
  unfold percentageFromString
  by_cases he : s = []
  · subst he; simp
  · have h1 : s.isEmpty = false := by simpa using he
    simp only [h1, Bool.false_eq_true, if_false, he, false_or]
    rw [← amount_accepts_iff]
    show (∃ q, (match amountFromString (pctBody s) with
        | .error e => Except.error e
        | .ok a => Except.ok (if (s.getLast? == some '%') = true then Pct.ofAmount a else ⟨a⟩)) = Except.ok q) ↔ _
    cases amountFromString (pctBody s) with
    | error e => simp
    | ok a => simp

private theorem isPercentageText_iff (s : Text) :
    isPercentageText s = true ↔ (s.getLast? = some '%' ∧ isAmountText s.dropLast = true) := by
  unfold isPercentageText
  cases h : s.getLast? with
  | none => simp
  | some c =>
    by_cases hc : c = '%'
    · subst hc; simp
    · simp only [Option.some.injEq, hc, false_and, iff_false]
      split
      · rename_i heq; simp at heq; exact absurd heq hc
      · simp

/-- every fitting member of the published percentage pattern is accepted -/
theorem percentage_accepts_pattern (s : Text) (h : isPercentageText s = true) (hf : fits64 s.dropLast = true) :
    ∃ q, percentageFromString s = .ok q := by
  obtain ⟨h1, h2⟩ := (isPercentageText_iff s).mp h
  rw [percentage_accepts_iff]
  right
  unfold pctBody
  simp [h1, h2, hf]

/-- THE GAP (known findings `percentage-empty-text`, `percentage-without-symbol`):
    what is accepted although it is not in the published pattern is the empty text
    or a fitting *amount* text (no `%`), and nothing else. -/
theorem percentage_leniency_exact (s : Text) (q : Pct) (h : percentageFromString s = .ok q)
    (hn : isPercentageText s = false) :
    s = [] ∨ (isAmountText s = true ∧ fits64 s = true) := by
  rcases (percentage_accepts_iff s).mp ⟨q, h⟩ with h0 | ⟨h1, h2⟩
  · exact Or.inl h0
  · right
    unfold pctBody at h1 h2
    by_cases hl : s.getLast? = some '%'
    · simp only [hl, beq_self_eq_true, if_true] at h1
      have := (isPercentageText_iff s).mpr ⟨hl, h1⟩
      rw [this] at hn; exact absurd hn (by decide)
    · have : (s.getLast? == some '%') = false := by simpa using hl
      simp only [this, Bool.false_eq_true, if_false] at h1 h2
      exact ⟨h1, h2⟩

/-- the empty text really is accepted (as 0%) and "0.16" really is read as 16% -/
theorem percentage_leniency_witnesses :
    percentageFromString [] = .ok ⟨⟨0, 0⟩⟩ ∧
    percentageFromString ['0', '.', '1', '6'] = .ok ⟨⟨16, 2⟩⟩ ∧
    isPercentageText [] = false ∧ isPercentageText ['0', '.', '1', '6'] = false := by
  refine ⟨by decide, by decide, by decide, by decide⟩

/-- Every text `x%` whose `x` is accepted as an amount — i.e. every fitting member
    of the percentage pattern — is read as the number of hundredths it denotes,
    two decimals finer.  No bound on the digits any more: nothing is multiplied
    (former known finding `percentage-scaling-overflow`) and nothing goes through
    float64 (`percentage-beyond-exact-range`). -/
theorem percentage_reads_value (x : Text) (a : Amount) (ha : amountFromString x = .ok a) :
    ∃ q, percentageFromString (x ++ ['%']) = .ok q ∧
      q.amount.toRat = decimalValue x / 100 ∧ q.amount.exp = decimals x + 2 ∧ q.amount.value = a.value := by
  obtain ⟨hval, hexp⟩ := amount_reads_value x a ha
  rw [pct_parse_snoc, ha]
  refine ⟨_, rfl, ?_, ?_, ?_⟩
  · rw [ofAmount_value a, ← hval]; ring
  · rw [ofAmount_exact a, ← hexp]
  · rw [ofAmount_exact a]

/-- so a fitting member of the published percentage pattern is never read as a
    different number -/
theorem percentage_pattern_reads_value (s : Text) (q : Pct) (h : isPercentageText s = true)
    (hq : percentageFromString s = .ok q) :
    q.amount.toRat = decimalValue s.dropLast / 100 ∧ q.amount.exp = decimals s.dropLast + 2 := by
  obtain ⟨h1, _⟩ := (isPercentageText_iff s).mp h
  have hsplit : s = s.dropLast ++ ['%'] := (List.dropLast_append_getLast? '%' (by simpa using h1)).symm
  rw [hsplit, pct_parse_snoc] at hq
  cases ha : amountFromString s.dropLast with
  | error e => rw [ha] at hq; simp at hq
  | ok a =>
    obtain ⟨q', hq', h2, h3, _⟩ := percentage_reads_value s.dropLast a ha
    rw [pct_parse_snoc, ha] at hq'
    rw [ha] at hq
    simp only [Except.ok.injEq] at hq hq'
    rw [← hq, hq']
    exact ⟨h2, h3⟩

/-- without the `%` sign the accepted text is read as a plain factor ("0.160 ≡ 16.0%") -/
theorem percentage_no_symbol_value (s : Text) (a : Amount) (hne : s ≠ []) (hl : s.getLast? ≠ some '%')
    (ha : amountFromString s = .ok a) : percentageFromString s = .ok ⟨a⟩ := by
  unfold percentageFromString
  have h1 : s.isEmpty = false := by simpa using hne
  have h2 : (s.getLast? == some '%') = false := by simpa using hl
  simp only [h1, h2, Bool.false_eq_true, if_false, ha]

/-! ## JSON layer: a string is read by its value, only the literal `null` is a no-op

`jsonSpelling mask s` (Spec/C06) is the text `s` written as a JSON string token
in which the characters selected by `mask` are spelled `\u00XX`; `jsonPlain`
are the ASCII characters that may also stand for themselves (everything a
pattern member consists of: `isAmountText_plain`, `isPercentageText_plain`). -/

/-- A JSON string is read exactly as `AmountFromString` reads its *value*,
    whichever of its characters are written as escapes. -/
theorem json_string_read_by_value (cur : Amount) (mask : List Bool) (s : Text)
    (hs : ∀ c ∈ s, jsonPlain c = true) :
    amountUnmarshalJSON cur (jsonSpelling mask s) = amountFromString s := by
  unfold amountUnmarshalJSON
  rw [jsonText_spelling mask s hs]
  simp

/-- So a JSON string is accepted as an amount iff its value is a fitting member of
    the published pattern — for every spelling of that value. -/
theorem json_string_accepts_iff (cur : Amount) (mask : List Bool) (s : Text)
    (hs : ∀ c ∈ s, jsonPlain c = true) :
    (∃ a, amountUnmarshalJSON cur (jsonSpelling mask s) = .ok a) ↔
      (isAmountText s = true ∧ fits64 s = true) := by
  rw [json_string_read_by_value cur mask s hs]
  exact amount_accepts_iff s

private theorem member_head (s : Text) (h : isAmountText s = true) : s.head? ≠ some '"' := by
  cases s with
  | nil => simp
  | cons c r =>
    intro hc
    simp at hc
    subst hc
    revert h
    unfold isAmountText stripMinus isAmountBody
    simp [digit]

/-- For every member of the amount pattern every spelling of the quoted JSON
    string and the bare JSON number are read identically, namely as
    `AmountFromString` reads the text. -/
theorem json_quoted_and_bare_agree (cur : Amount) (mask : List Bool) (s : Text) (h : isAmountText s = true) :
    amountUnmarshalJSON cur (jsonSpelling mask s) = amountFromString s ∧
    amountUnmarshalJSON cur s = amountFromString s := by
  refine ⟨json_string_read_by_value cur mask s (isAmountText_plain s h), ?_⟩
  have hnull : (s == nullText) = false := by
    rw [beq_eq_false_iff_ne]
    intro e; subst e; revert h; decide
  unfold amountUnmarshalJSON
  rw [jsonText_bare s (member_head s h), hnull]
  simp

/-- Only the JSON literal `null` leaves the receiver untouched; the JSON *string*
    "null", however spelled, is rejected like any other text outside the pattern. -/
theorem json_null_literal_only (cur : Amount) (mask : List Bool) :
    amountUnmarshalJSON cur nullText = .ok cur ∧
    amountUnmarshalJSON cur (jsonSpelling mask nullText) = .error .major := by
  constructor
  · unfold amountUnmarshalJSON
    rw [jsonText_bare nullText (by decide)]
    simp
  · rw [json_string_read_by_value cur mask nullText (by decide)]
    decide

/-- A value that starts with a quote but is not one JSON string (unterminated, raw
    control character, bad escape, text after the closing quote) is an error for
    both types, whatever the receiver. -/
theorem json_malformed_string_rejected (cur : Amount) (curP : Pct) (v : Text)
    (hq : v.head? = some '"') (hd : jsonDecodeString v = none) :
    amountUnmarshalJSON cur v = .error .json ∧ pctUnmarshalJSON curP v = .error .json := by
  have : jsonText v = .error .json := by
    unfold jsonText
    simp [hq, hd]
  unfold amountUnmarshalJSON pctUnmarshalJSON
  rw [this]
  exact ⟨rfl, rfl⟩

/-- Percentages: a non-empty JSON string is read as `PercentageFromString` reads
    its value, whichever of its characters are written as escapes … -/
theorem json_percentage_read_by_value (cur : Pct) (mask : List Bool) (s : Text)
    (hs : ∀ c ∈ s, jsonPlain c = true) (hne : s ≠ []) :
    pctUnmarshalJSON cur (jsonSpelling mask s) = percentageFromString s := by
  unfold pctUnmarshalJSON
  rw [jsonText_spelling mask s hs]
  have : s.isEmpty = false := by simpa using hne
  simp [this]

/-- … and the empty JSON string is rejected: the leniency of `PercentageFromString`
    for the empty text (known finding `percentage-empty-text`) does not reach JSON. -/
theorem json_percentage_empty_rejected (cur : Pct) (mask : List Bool) :
    pctUnmarshalJSON cur (jsonSpelling mask []) = .error .empty := by
  unfold pctUnmarshalJSON
  rw [jsonText_spelling mask [] (by simp)]
  simp

/-- What is accepted from a JSON string as a percentage, exactly: a value whose
    body (without one trailing `%`, if any) is a fitting amount text. -/
theorem json_percentage_accepts_iff (cur : Pct) (mask : List Bool) (s : Text)
    (hs : ∀ c ∈ s, jsonPlain c = true) :
    (∃ q, pctUnmarshalJSON cur (jsonSpelling mask s) = .ok q) ↔
      (isAmountText (pctBody s) = true ∧ fits64 (pctBody s) = true) := by
  by_cases hne : s = []
  · subst hne
    rw [json_percentage_empty_rejected]
    simp [pctBody]
    decide
  · rw [json_percentage_read_by_value cur mask s hs hne, percentage_accepts_iff]
    simp [hne]

/-- every fitting member of the published percentage pattern is accepted from JSON,
    in every spelling -/
theorem json_percentage_accepts_pattern (cur : Pct) (mask : List Bool) (s : Text)
    (h : isPercentageText s = true) (hf : fits64 s.dropLast = true) :
    ∃ q, pctUnmarshalJSON cur (jsonSpelling mask s) = .ok q := by
  have hne : s ≠ [] := by intro e; subst e; revert h; decide
  rw [json_percentage_read_by_value cur mask s (isPercentageText_plain s h) hne]
  exact percentage_accepts_pattern s h hf

/-- the literal `null` is a no-op for percentages too, the string "null" an error -/
theorem json_percentage_null_literal_only (cur : Pct) (mask : List Bool) :
    pctUnmarshalJSON cur nullText = .ok cur ∧
    pctUnmarshalJSON cur (jsonSpelling mask nullText) = .error .major := by
  constructor
  · unfold pctUnmarshalJSON
    rw [jsonText_bare nullText (by decide)]
    simp
  · rw [json_percentage_read_by_value cur mask nullText (by decide) (by decide)]
    decide


/-! ## non-vacuity: the hypotheses are satisfiable, at boundaries and with signs -/

example : amountFromString "-12.50".toList = .ok ⟨-1250, 2⟩ := by decide
example : amountToString ⟨-1250, 2⟩ = "-12.50".toList := by decide
example : amountToString ⟨5, 3⟩ = "0.005".toList := by decide
example : amountFromString "9223372036854775807".toList = .ok ⟨9223372036854775807, 0⟩ := by decide
example : amountFromString "9.223372036854775807".toList = .ok ⟨9223372036854775807, 18⟩ := by decide
example : amountFromString "9223372036854775808".toList = .error .major := by decide
example : amountFromString "9.223372036854775808".toList = .error .range := by decide
example : amountFromString "1.0000000000000000000".toList = .error .decimals := by decide
example : amountFromString "+5".toList = .error .majorDigits := by decide
example : amountFromString "1.-5".toList = .error .minorDigits := by decide
example : amountFromString "--5".toList = .error .major := by decide
example : amountFromString "-+5".toList = .error .major := by decide
example : amountFromString "-0.50".toList = .ok ⟨-50, 2⟩ ∧ amountFromString "-0".toList = .ok ⟨0, 0⟩ := by decide
example : amountFromString "-.5".toList = .error .major ∧ amountFromString "-5.-3".toList = .error .minorDigits := by decide
example : (isAmountText "1.-5".toList, isAmountText "٣".toList, isAmountText "1e2".toList, isAmountText "-0.50".toList)
    = (false, false, false, true) := by decide
example : fits64 "922337203685477580.7".toList = true ∧ fits64 "922337203685477580.8".toList = false := by decide
example : fits64 "-922337203685477580.8".toList = true ∧ fits64 "-922337203685477580.9".toList = false := by decide
example : amountToString ⟨-2 ^ 63, 1⟩ = "-922337203685477580.8".toList := by decide +kernel
example : percentageFromString "16.0%".toList = .ok ⟨⟨160, 3⟩⟩ := by decide +kernel
example : pctToString ⟨⟨160, 3⟩⟩ = "16.0%".toList ∧ pctToString ⟨⟨5, 0⟩⟩ = "500%".toList ∧
    pctToString ⟨⟨-5, 1⟩⟩ = "-50%".toList := by decide +kernel
example : percentageFromString "0.123456789012345678%".toList = .ok ⟨⟨123456789012345678, 20⟩⟩ := by decide +kernel
example : percentageFromString "123456789012345.67%".toList = .ok ⟨⟨12345678901234567, 4⟩⟩ := by decide +kernel
example : pctToString ⟨⟨12345678901234567, 4⟩⟩ = "123456789012345.67%".toList := by decide +kernel
example : pctToString ⟨⟨-2 ^ 63, 2⟩⟩ = "-9223372036854775808%".toList ∧
    percentageFromString "-9223372036854775808%".toList = .ok ⟨⟨-2 ^ 63, 2⟩⟩ := by
  constructor <;> decide +kernel
example : (-(2 : ℤ) ^ 63 ≤ (-2 ^ 63 : ℤ) * 10 ^ (2 - 2)) ∧ ((-2 ^ 63 : ℤ) * 10 ^ (2 - 2) < 2 ^ 63) := by decide
example : jsonSpelling [true, false, true] "1.5".toList = "\"\\u0031.\\u0035\"".toList := by decide
example : amountUnmarshalJSON ⟨7, 1⟩ "\"\\u0031.5\"".toList = .ok ⟨15, 1⟩ := by decide
example : amountUnmarshalJSON ⟨7, 1⟩ "\"\\u0031\\u002E5\"".toList = .ok ⟨15, 1⟩ := by decide
example : amountUnmarshalJSON ⟨7, 1⟩ "1.5".toList = .ok ⟨15, 1⟩ := by decide
example : pctUnmarshalJSON ⟨⟨7, 1⟩⟩ "\"16\\u0025\"".toList = .ok ⟨⟨16, 2⟩⟩ := by decide +kernel
example : pctUnmarshalJSON ⟨⟨7, 1⟩⟩ "\"\"".toList = .error .empty := by decide
example : jsonDecodeString "\"\\ud83d\\ude00\"".toList = some ([0xF0, 0x9F, 0x98, 0x80].map Char.ofNat) := by decide
example : jsonDecodeString "\"\\ud83d\"".toList = some replacementBytes := by decide
example : jsonDecodeString ['"', Char.ofNat 0xFF, '"'] = some replacementBytes := by decide
example : jsonDecodeString "\"a\\n\\/\" \n".toList = some ['a', Char.ofNat 10, '/'] := by decide
example : ∀ c ∈ "-12.50%".toList, jsonPlain c = true := by decide
example : ["\"1", "\"1\\x\"", "\"1\"2\"", "\"\\u12g4\"", "\"1\t\"", "\"1\" x"].map (fun v => jsonDecodeString v.toList)
    = [none, none, none, none, none, none] := by decide

/-! ## expectations over facts regenerated from /repo on every run

The recognisers of Spec/C06 were written for exactly these two pattern strings,
published twice (Go `JSONSchema()` methods and data/schemas/num/*.json); the
model of the parser and printer relies on exactly these library calls.  If any
of them changes, an obligation here breaks and the check searches for a witness. -/
namespace Expect
open GoblVerif.Generated.Codec

theorem amount_pattern_go : amountPatternGo = "^\\-?[0-9]+(\\.[0-9]+)?$" := by decide
theorem amount_pattern_file : amountPatternFile = "^\\-?[0-9]+(\\.[0-9]+)?$" := by decide
theorem percentage_pattern_go : percentagePatternGo = "^\\-?[0-9]+(\\.[0-9]+)?%$" := by decide
theorem percentage_pattern_file : percentagePatternFile = "^\\-?[0-9]+(\\.[0-9]+)?%$" := by decide
theorem schema_types : [amountSchemaTypeGo, amountSchemaTypeFile, percentageSchemaTypeGo, percentageSchemaTypeFile]
    = ["string", "string", "string", "string"] := by decide
theorem max_decimals : GoblVerif.Generated.Codec.maxAmountExp = GoblVerif.Codec.maxAmountExp := by decide
theorem parser_library_calls : libcalls_AmountFromString =
    ["strings.HasPrefix(_,\"-\")", "strings.Split(_,\".\")", "strconv.ParseInt(_,10,64)",
     "strings.TrimPrefix(_,\"-\")", "strconv.ParseInt(_,10,64)"] := by decide
/-- the checks of the parser in source order: the major part's digits are checked
    without its sign, and each side of zero has its own range check -/
theorem parser_conditions : conds_AmountFromString =
    ["l > 2", "err != nil", "!isDigits(strings.TrimPrefix(x[0], \"-\"))", "l == 2", "err != nil",
     "!isDigits(x[1])", "e > maxAmountExp", "n", "v < (math.MinInt64+v2)/p", "v > (math.MaxInt64-v2)/p"] := by decide
/-- the printer decides the sign on the value itself (it no longer negates a copy of it) -/
theorem printer_conditions : conds_Amount_String = ["a.exp == 0", "a.exp > 1000", "a.value < 0"] := by decide
/-- the two conversions between amounts and percentages only move the decimal point -/
theorem percentage_conversions_shift_the_point :
    calls_PercentageFromAmount = [] ∧ calls_Percentage_Amount = ["RescaleUp"] := by decide
theorem printer_library_calls : libcalls_Amount_String =
    ["fmt.Sprintf(\"%d\",_)", "fmt.Sprintf(\"%s%d.%0*d\",_,_,_,_)"] := by decide
theorem minimal_library_calls : libcalls_Amount_MinimalString =
    ["strings.Contains(_,\".\")", "strings.TrimRight(_,\"0\")", "strings.TrimSuffix(_,\".\")"] := by decide
theorem percentage_parser_calls : calls_PercentageFromString = ["len", "AmountFromString", "PercentageFromAmount"] := by decide
theorem percentage_printer_calls : calls_Percentage_String = ["StringWithoutSymbol"] ∧
    calls_Percentage_StringWithoutSymbol = ["String", "Amount"] := by decide
theorem json_text_shape : calls_jsonText = ["len", "Unmarshal", "string", "string"] ∧
    conds_jsonText = ["len(value) > 0 && value[0] == '\"'", "err := json.Unmarshal(value, &text); err != nil"] := by decide
theorem unmarshal_json_calls : calls_Amount_UnmarshalJSON = ["jsonText", "AmountFromString"] ∧
    conds_Amount_UnmarshalJSON = ["err != nil || null", "err != nil"] ∧
    calls_Percentage_UnmarshalJSON = ["jsonText", "New", "PercentageFromString"] ∧
    conds_Percentage_UnmarshalJSON = ["err != nil || null", "text == \"\"", "err != nil"] := by decide

end Expect


/-! ## Src — the codec as it stands now, translated on this run

`Generated/CodecSrc.lean` is written by the go2lean translator
(harness/cmd/extract/go2lean*.go in string mode, configuration codecsrc.go,
extension go2lean_codec.go) from /repo/num/amount.go and percentage.go on
EVERY run of the check.  This namespace proves each regenerated definition
equal to the corresponding function of Model/Codec.lean — the parser, its
wrappers and the percentage reader for ALL arguments, the printers on every
int64 value with at most 18 decimals (where `int64` arithmetic, unbounded in
the translation, does not wrap) — and restates the headline theorems of C06
directly over the regenerated definitions.  A change of the Go source changes
the regenerated definitions and breaks a theorem here.

Result shapes (Proofs/CodecSrc.lean): `toGo`, `toGoP` put an `Except Err _` of
the model into Go's `(value, error)` pair (zero value and the FORMAT text of
`fmt.Errorf` on an error), `toGoU cur` into the `(error, receiver afterwards)`
pair of the in-out translation of `Unmarshal*` (the receiver keeps `cur` on an
error), `jsonTextGo` the triple of `jsonText`.  A `[]byte` argument is
`GoStrings.toBytes value` for a text `value` (every byte list is of that form). -/

namespace Src
open GoblVerif.Generated GoblVerif.GoSem GoblVerif.GoStr GoblVerif.CodecTie

/-! ### the translation is complete; what it rests on -/

theorem all_translated : CodecSrc.untranslated = [] := by decide

theorem translated_functions : CodecSrc.translated =
    ["intPow", "isDigits", "AmountFromString", "Amount.String", "Amount.MinimalString", "Amount.MarshalText",
     "jsonText", "Amount.UnmarshalText", "Amount.UnmarshalJSON", "PercentageFromAmount", "PercentageFromString",
     "Amount.Rescale", "Amount.RescaleUp", "Percentage.Amount", "Percentage.StringWithoutSymbol",
     "Percentage.String", "Percentage.MarshalText", "Percentage.UnmarshalText", "Percentage.UnmarshalJSON"] := by
  decide

theorem struct_Amount_as_mapped :
    CodecSrc.struct_Amount = [("value", "int64"), ("exp", "uint32")] ∧
    CodecSrc.structLean_Amount = ("GoblVerif.Amount", ["value", "exp"]) ∧
    CodecSrc.structOmitted_Amount = [] := by decide

theorem struct_Percentage_as_mapped :
    CodecSrc.struct_Percentage = [("amount", "Amount")] ∧
    CodecSrc.structLean_Percentage = ("GoblVerif.Pct", ["amount"]) ∧
    CodecSrc.structOmitted_Percentage = [] := by decide

/-- every subtraction on `uint32` (truncated in the translation, wrapping in Go):
    three are guarded syntactically, the fourth by `pct_amount_subtraction_guarded` -/
theorem nat_subtractions_as_reviewed :
    CodecSrc.natSubs = [
      ("intPow", "exp--", ["exp != 0"]),
      ("Amount.Rescale", "a.exp - exp", ["a.exp > exp"]),
      ("Amount.Rescale", "exp - a.exp", ["a.exp < exp"]),
      ("Percentage.Amount", "a.exp - 2", [])] := by decide

/-- the two loops (`intPow`, the digit scan of `isDigits`) and their fuel twins -/
theorem fuel_checks_listed : CodecSrc.fuelChecks = ["intPow_fuelOK", "isDigits_fuelOK"] := by decide

/-- the four `Unmarshal*` methods write through their receiver: translated with the
    receiver as a value that is also returned -/
theorem in_out_params_as_reviewed :
    CodecSrc.inOutParams = [("Amount.UnmarshalText", "a"), ("Amount.UnmarshalJSON", "a"),
      ("Percentage.UnmarshalText", "p"), ("Percentage.UnmarshalJSON", "p")] := by decide

/-- `error` is the only opaque type (an `Option` of the message text); no maps, no nil-free slices -/
theorem opaque_types_as_reviewed :
    CodecSrc.namedTypes = [("error", "interface{Error() string}", "Option GoblVerif.GoStr.Str")] ∧
    CodecSrc.nonNilElems = [] ∧ CodecSrc.mapRanges = [] ∧ CodecSrc.mapWrites = [] ∧ CodecSrc.mapNilTests = [] := by
  decide

/-! ### each regenerated definition is the function of the model -/

theorem src_intPow (base : Int) (e : Nat) : CodecSrc.intPow base e = base ^ e := by
  unfold CodecSrc.intPow
  simp only [Id.run]
  rw [forIn_range_fuel _ (fun _ _ => rfl)]
  simp only [bind, pure]
  rw [forFuel_countdown _ (fun o => o * base) (by intro s; simp [Id.run]) (by intro k s; simp [Id.run])]
  simp [iter_mul_int]

theorem intPow_fuel_suffices (base : Int) (e : Nat) : CodecSrc.intPow_fuelOK base e = true := by
  unfold CodecSrc.intPow_fuelOK
  simp only [Id.run]
  rw [forIn_range_fuel _ (fun _ _ => rfl)]
  simp only [bind, pure]
  rw [forFuel_countdown _ (fun o => o * base) (by intro s; simp [Id.run]) (by intro k s; simp [Id.run])]
  simp

/-- `isDigits` (the byte scan `for i := 0; i < len(s); i++`) is the model's `isDigits`, for every text -/
theorem src_isDigits (s : Text) : CodecSrc.isDigits s = Codec.isDigits s := by
  unfold CodecSrc.isDigits
  simp only [Id.run]
  by_cases h0 : (s.length : Int) = 0
  · have : s = [] := by
      cases s with
      | nil => rfl
      | cons c r => simp at h0; omega
    subst this; rfl
  · simp only [h0, if_false]
    rw [forIn_range_fuel _ (fun _ _ => rfl)]
    simp only [bind, pure]
    rw [(forFuel_digitScan0 s false _ (by intro b; simp only [digitScanStep, Id.run])).1]
    have hne : s.isEmpty = false := by
      cases s with
      | nil => simp at h0
      | cons c r => rfl
    unfold Codec.isDigits
    simp only [hne, Bool.not_false, Bool.true_and]
    by_cases ha : s.all isDigitC = true <;> simp [ha]

theorem isDigits_fuel_suffices (s : Text) : CodecSrc.isDigits_fuelOK s = true := by
  unfold CodecSrc.isDigits_fuelOK
  simp only [Id.run]
  by_cases h0 : (s.length : Int) = 0
  · simp [h0, id_pure]
  · simp only [h0, if_false]
    rw [forIn_range_fuel _ (fun _ _ => rfl)]
    simp only [bind, pure]
    rw [forFuel_congr _ (digitScanStep s true) (by intro b; simp only [digitScanStep, Id.run])]
    obtain ⟨k1, k2⟩ := forFuel_digitScan0 s true (digitScanStep s true) (fun _ => rfl)
    by_cases ha : s.all isDigitC = true
    · simp only [ha, if_true] at k1
      rw [k1, k2 k1]
      simp
    · simp only [ha] at k1
      rw [k1]
      rfl

/-- **`AmountFromString` is the model's `amountFromString` for EVERY text** — the value, the
    exponent, and on an error the zero amount with the format text of the error
    (`errFormat`).  The translation computes on unbounded integers, the model wraps at 64
    bits: the equality says that no product or sum of the parser can overflow (the range
    guard `v > (math.MaxInt64-v2)/p`, its mirror on the negative side, the 18-decimal cap
    and `ParseInt`'s own range error see to it). -/
theorem src_AmountFromString (val : Text) : CodecSrc.AmountFromString val = toGo (amountFromString val) := by
  unfold CodecSrc.AmountFromString amountFromString
  simp only [Id.run, hasPrefix_minus, split_dot, parseInt_eq, trimPrefix_minus, src_isDigits, src_intPow]
  have hh := hasPrefixMinus_split_head val
  match hs : splitOn '.' val with
  | [] => exact absurd hs (splitOn_ne_nil '.' val)
  | [x0] =>
    have i0 : ([x0] : List Text)[Int.toNat 0]! = x0 := rfl
    simp only [i0, List.length_singleton]
    rw [← parts1_eq]
    simp [id_pure]
  | [x0, x1] =>
    have i0 : ([x0, x1] : List Text)[Int.toNat 0]! = x0 := rfl
    have i1 : ([x0, x1] : List Text)[Int.toNat 1]! = x1 := rfl
    have hn : hasPrefixMinus val = hasPrefixMinus x0 := by rw [← hh, hs]; rfl
    simp only [i0, i1, hn]
    rw [← parts2_eq]
    simp [id_pure]
  | x0 :: x1 :: x2 :: r =>
    have : ((x0 :: x1 :: x2 :: r).length : Int) > 2 := by simp; omega
    have h2 : (x0 :: x1 :: x2 :: r).length > 2 := by simp
    simp only [this, if_true, parseParts, h2, toGo, errFormat]
    rfl

/-- `Amount.String` is the model's `amountToString` on every int64 value with at most 18
    decimals (and beyond 1000, where both say "NA"); for 19 … 1000 decimals the Go code
    works with a wrapped `10^exp`, which the unbounded translation does not show. -/
theorem src_String (a : Amount) (he : a.exp ≤ 18 ∨ 1000 < a.exp)
    (hlo : minInt64 ≤ a.value) (hhi : a.value ≤ maxInt64) :
    CodecSrc.Amount_String a = amountToString a := by
  obtain ⟨v, e⟩ := a
  simp only at he hlo hhi
  unfold CodecSrc.Amount_String
  simp only [Id.run, itoa_eq, fmtPad0_eq, src_intPow]
  by_cases h0 : e = 0
  · subst h0; simp [amountToString, id_pure]
  by_cases h1 : e > 1000
  · simp [amountToString, h0, h1, id_pure]
  have he' : e ≤ 18 := by omega
  rw [amountToString_nowrap v e (by omega) he' hlo hhi]
  by_cases hneg : v < 0 <;> simp [h0, h1, hneg, id_pure]

theorem src_MinimalString (a : Amount) (he : a.exp ≤ 18 ∨ 1000 < a.exp)
    (hlo : minInt64 ≤ a.value) (hhi : a.value ≤ maxInt64) :
    CodecSrc.Amount_MinimalString a = amountMinimalString a := by
  unfold CodecSrc.Amount_MinimalString amountMinimalString
  simp only [Id.run, src_String a he hlo hhi, contains_dot, trimRight_zeros, trimSuffix_dot]
  by_cases h : (amountToString a).contains '.' = true <;> simp [h, id_pure]

theorem src_MarshalText (a : Amount) (he : a.exp ≤ 18 ∨ 1000 < a.exp)
    (hlo : minInt64 ≤ a.value) (hhi : a.value ≤ maxInt64) :
    CodecSrc.Amount_MarshalText a = (GoStrings.toBytes (amountToString a), none) := by
  unfold CodecSrc.Amount_MarshalText
  rw [src_String a he hlo hhi]

/-- `jsonText` (a value that starts with a quote goes through `json.Unmarshal`, anything
    else is taken as it is; only the literal `null` is null), for every byte string -/
theorem src_jsonText (value : Text) :
    CodecSrc.jsonText (GoStrings.toBytes value) = jsonTextGo (Codec.jsonText value) := by
  unfold CodecSrc.jsonText Codec.jsonText
  simp only [Id.run, ofBytes_toBytes, toBytes_length]
  cases value with
  | nil => simp [jsonTextGo, nullText, id_pure]
  | cons c r =>
    have i0 : (GoStrings.toBytes (c :: r))[Int.toNat 0]! = c.toNat := rfl
    simp only [i0, toNat_eq_34, List.head?_cons]
    by_cases hq : c = '"'
    · subst hq
      simp only [GoJson.unmarshalString, ofBytes_toBytes]
      cases hd : jsonDecodeString ('"' :: r) with
      | none => simp [jsonTextGo, id_pure]
      | some t => simp [jsonTextGo, id_pure]
    · have : (some c == some '"') = false := by simp [hq]
      simp [hq, this, jsonTextGo, id_pure, nullText, beq_eq_decide]

theorem src_UnmarshalText (cur : Amount) (value : Text) :
    CodecSrc.Amount_UnmarshalText cur (GoStrings.toBytes value) = toGoU cur (amountUnmarshalText cur value) := by
  unfold CodecSrc.Amount_UnmarshalText amountUnmarshalText
  simp only [Id.run, ofBytes_toBytes, src_AmountFromString]
  by_cases hn : value = nullText
  · subst hn; simp [toGoU, nullText, id_pure]
  · have : ¬ value = ['n', 'u', 'l', 'l'] := hn
    simp only [this, hn, if_false]
    generalize amountFromString value = x
    cases x <;> simp [toGo, toGoU, GoStr.errNew, id_pure]

theorem src_UnmarshalJSON (cur : Amount) (value : Text) :
    CodecSrc.Amount_UnmarshalJSON cur (GoStrings.toBytes value) = toGoU cur (amountUnmarshalJSON cur value) := by
  unfold CodecSrc.Amount_UnmarshalJSON amountUnmarshalJSON
  simp only [Id.run, src_jsonText, src_AmountFromString]
  cases hj : Codec.jsonText value with
  | error e => 
    have he := jsonText_error value e hj
    subst he
    simp [jsonTextGo, toGoU, id_pure, errJson_eq]
  | ok p =>
    obtain ⟨t, null⟩ := p
    simp only [jsonTextGo]
    cases null
    · obtain ⟨x, hx⟩ : ∃ x, amountFromString t = x := ⟨_, rfl⟩
      simp only [hx]
      cases x <;> simp [toGo, toGoU, GoStr.errNew, id_pure]
    · simp [toGoU, id_pure]

theorem src_PercentageFromAmount (a : Amount) : CodecSrc.PercentageFromAmount a = Pct.ofAmount a := rfl

/-- `PercentageFromString` is the model's `percentageFromString` for EVERY text -/
theorem src_PercentageFromString (str : Text) :
    CodecSrc.PercentageFromString str = toGoP (percentageFromString str) := by
  unfold CodecSrc.PercentageFromString percentageFromString
  simp only [Id.run, src_AmountFromString, src_PercentageFromAmount, take_last_eq]
  by_cases h0 : str = []
  · subst h0; simp [toGoP, id_pure]
  have hl : ¬ ((str.length : Int) = 0) := by
    cases str with
    | nil => exact absurd rfl h0
    | cons c r => simp; omega
  have he : str.isEmpty = false := by cases str <;> simp_all
  simp only [hl, if_false, he, drop_last_eq str '%' h0, Bool.false_eq_true]
  by_cases hp : str.getLast? = some '%'
  · have hb : (str.getLast? == some '%') = true := by simp [hp]
    simp only [hp, hb, if_true]
    obtain ⟨x, hx⟩ : ∃ x, amountFromString str.dropLast = x := ⟨_, rfl⟩
    simp only [hx]
    cases x <;> simp [hx, toGo, toGoP, GoStr.errNew, id_pure]
  · have hb : (str.getLast? == some '%') = false := by simp [hp]
    simp only [hp, hb, if_false, Bool.false_eq_true]
    obtain ⟨x, hx⟩ : ∃ x, amountFromString str = x := ⟨_, rfl⟩
    simp only [hx]
    cases x <;> simp [hx, toGo, toGoP, GoStr.errNew, id_pure]

theorem src_Rescale (a : Amount) (e : Nat) : CodecSrc.Amount_Rescale a e = a.rescale e := by
  unfold CodecSrc.Amount_Rescale Amount.rescale
  simp only [src_intPow]
  rfl

theorem src_RescaleUp (a : Amount) (e : Nat) : CodecSrc.Amount_RescaleUp a e = a.rescaleUp e := by
  unfold CodecSrc.Amount_RescaleUp Amount.rescaleUp
  simp only [src_Rescale]
  rfl

theorem src_Percentage_Amount (p : Pct) : CodecSrc.Percentage_Amount p = p.toAmount := by
  unfold CodecSrc.Percentage_Amount Pct.toAmount
  simp only [src_RescaleUp]
  rfl

/-- the subtraction `a.exp - 2` in `Percentage.Amount` never truncates: `RescaleUp(2)` came first -/
theorem pct_amount_subtraction_guarded (p : Pct) : 2 ≤ (CodecSrc.Amount_RescaleUp p.amount 2).exp := by
  rw [src_RescaleUp]
  unfold Amount.rescaleUp Amount.rescale
  by_cases h : 2 > p.amount.exp
  · have h1 : ¬ p.amount.exp > 2 := by omega
    have h2 : p.amount.exp < 2 := by omega
    simp [h, h1]
  · simp only [h, if_false]; omega

/-- `Percentage.StringWithoutSymbol` / `String` are the model's, wherever the percent figure
    `p.toAmount` is an int64 with at most 18 decimals -/
theorem src_StringWithoutSymbol (p : Pct) (he : p.toAmount.exp ≤ 18 ∨ 1000 < p.toAmount.exp)
    (hlo : minInt64 ≤ p.toAmount.value) (hhi : p.toAmount.value ≤ maxInt64) :
    CodecSrc.Percentage_StringWithoutSymbol p = amountToString p.toAmount := by
  unfold CodecSrc.Percentage_StringWithoutSymbol
  rw [src_Percentage_Amount, src_String _ he hlo hhi]

theorem src_Percentage_String (p : Pct) (he : p.toAmount.exp ≤ 18 ∨ 1000 < p.toAmount.exp)
    (hlo : minInt64 ≤ p.toAmount.value) (hhi : p.toAmount.value ≤ maxInt64) :
    CodecSrc.Percentage_String p = pctToString p := by
  unfold CodecSrc.Percentage_String pctToString
  rw [src_StringWithoutSymbol p he hlo hhi]

theorem src_Percentage_MarshalText (p : Pct) (he : p.toAmount.exp ≤ 18 ∨ 1000 < p.toAmount.exp)
    (hlo : minInt64 ≤ p.toAmount.value) (hhi : p.toAmount.value ≤ maxInt64) :
    CodecSrc.Percentage_MarshalText p = (GoStrings.toBytes (pctToString p), none) := by
  unfold CodecSrc.Percentage_MarshalText
  rw [src_Percentage_String p he hlo hhi]

theorem src_Percentage_UnmarshalText (cur : Pct) (value : Text) :
    CodecSrc.Percentage_UnmarshalText cur (GoStrings.toBytes value) = toGoU cur (pctUnmarshalText cur value) := by
  unfold CodecSrc.Percentage_UnmarshalText pctUnmarshalText
  simp only [Id.run, ofBytes_toBytes, src_PercentageFromString]
  by_cases hn : value = nullText
  · subst hn; simp [toGoU, nullText, id_pure]
  · have : ¬ value = ['n', 'u', 'l', 'l'] := hn
    simp only [this, hn, if_false]
    generalize percentageFromString value = x
    cases x <;> simp [toGoP, toGoU, GoStr.errNew, id_pure]

theorem src_Percentage_UnmarshalJSON (cur : Pct) (value : Text) :
    CodecSrc.Percentage_UnmarshalJSON cur (GoStrings.toBytes value) = toGoU cur (pctUnmarshalJSON cur value) := by
  unfold CodecSrc.Percentage_UnmarshalJSON pctUnmarshalJSON
  simp only [Id.run, src_jsonText, src_PercentageFromString]
  cases hj : Codec.jsonText value with
  | error e =>
    have he := jsonText_error value e hj
    subst he
    simp [jsonTextGo, toGoU, id_pure, errJson_eq]
  | ok p =>
    obtain ⟨t, null⟩ := p
    simp only [jsonTextGo]
    cases null
    · by_cases ht : t = []
      · subst ht; simp [toGoU, errFormat, id_pure]
      · have hte : t.isEmpty = false := by cases t <;> simp_all
        obtain ⟨x, hx⟩ : ∃ x, percentageFromString t = x := ⟨_, rfl⟩
        simp only [hx]
        cases x <;> simp [ht, hte, toGoP, toGoU, GoStr.errNew, id_pure]
    · simp [toGoU, id_pure]

/-! ### the headline theorems of C06, read off the regenerated code -/

/-- ROUND TRIP, over the translated `String` and `AmountFromString`: every int64 amount
    with at most 18 decimals (−2^63 included) is written and read back unchanged, without
    an error. -/
theorem roundtrip_of_the_source (a : Amount) (he : a.exp ≤ 18)
    (hlo : -(2 : ℤ) ^ 63 ≤ a.value) (hhi : a.value < (2 : ℤ) ^ 63) :
    CodecSrc.AmountFromString (CodecSrc.Amount_String a) = (a, none) := by
  have h1 : minInt64 ≤ a.value := by unfold minInt64; norm_num at hlo; omega
  have h2 : a.value ≤ maxInt64 := by unfold maxInt64; norm_num at hhi; omega
  rw [src_String a (Or.inl he) h1 h2, src_AmountFromString, amount_roundtrip a he hlo hhi]
  rfl

example : CodecSrc.AmountFromString (CodecSrc.Amount_String ⟨-2 ^ 63, 18⟩) = (⟨-2 ^ 63, 18⟩, none) :=
  roundtrip_of_the_source _ (by decide) (by norm_num) (by norm_num)

/-- the same through `MarshalText` / `UnmarshalText`, whatever the receiver held before -/
theorem marshal_unmarshal_of_the_source (cur a : Amount) (he : a.exp ≤ 18)
    (hlo : -(2 : ℤ) ^ 63 ≤ a.value) (hhi : a.value < (2 : ℤ) ^ 63) :
    CodecSrc.Amount_UnmarshalText cur (CodecSrc.Amount_MarshalText a).1 = (none, a) := by
  have h1 : minInt64 ≤ a.value := by unfold minInt64; norm_num at hlo; omega
  have h2 : a.value ≤ maxInt64 := by unfold maxInt64; norm_num at hhi; omega
  rw [src_MarshalText a (Or.inl he) h1 h2, src_UnmarshalText]
  unfold amountUnmarshalText
  have hne : amountToString a ≠ nullText := by
    intro e
    have := amount_text_matches a he hlo hhi
    rw [e] at this
    revert this; decide
  simp only [hne, if_false, amount_roundtrip a he hlo hhi]
  rfl

/-- the written text of the translated `String` is a member of the published pattern -/
theorem text_matches_of_the_source (a : Amount) (he : a.exp ≤ 18)
    (hlo : -(2 : ℤ) ^ 63 ≤ a.value) (hhi : a.value < (2 : ℤ) ^ 63) :
    isAmountText (CodecSrc.Amount_String a) = true := by
  have h1 : minInt64 ≤ a.value := by unfold minInt64; norm_num at hlo; omega
  have h2 : a.value ≤ maxInt64 := by unfold maxInt64; norm_num at hhi; omega
  rw [src_String a (Or.inl he) h1 h2]
  exact amount_text_matches a he hlo hhi

/-- ACCEPTS ↔ PATTERN ∧ FITS, over the translated `AmountFromString`: the error is nil
    exactly on the members of `^\-?[0-9]+(\.[0-9]+)?$` whose signed digits are an int64
    with at most 18 decimals. -/
theorem accepts_iff_of_the_source (s : Text) :
    (CodecSrc.AmountFromString s).2 = none ↔ (isAmountText s = true ∧ fits64 s = true) := by
  rw [src_AmountFromString, ← amount_accepts_iff]
  cases h : amountFromString s with
  | ok a => simp [toGo]
  | error e => simp [toGo, GoStr.errNew]

example : (CodecSrc.AmountFromString "-12.50".toList).2 = none ∧
    (CodecSrc.AmountFromString "9.223372036854775808".toList).2 ≠ none ∧
    (CodecSrc.AmountFromString "+5".toList).2 ≠ none := by
  refine ⟨(accepts_iff_of_the_source _).mpr (by decide), ?_, ?_⟩
  · intro h; exact absurd ((accepts_iff_of_the_source _).mp h) (by decide)
  · intro h; exact absurd ((accepts_iff_of_the_source _).mp h) (by decide)

/-- … and what it accepts it reads as the number the text denotes, at the written precision;
    what it rejects comes back as the zero amount -/
theorem reads_value_of_the_source (s : Text) :
    ((CodecSrc.AmountFromString s).2 = none →
      (CodecSrc.AmountFromString s).1.toRat = decimalValue s ∧ (CodecSrc.AmountFromString s).1.exp = decimals s) ∧
    ((CodecSrc.AmountFromString s).2 ≠ none → (CodecSrc.AmountFromString s).1 = ⟨0, 0⟩) := by
  rw [src_AmountFromString]
  cases h : amountFromString s with
  | ok a => simpa [toGo] using amount_reads_value s a h
  | error e => simp [toGo, GoStr.errNew]

/-- PERCENTAGES, over the translated `String` and `PercentageFromString`: writing and reading
    back gives a percentage of the same value (the identical one from two decimals on) -/
theorem percentage_roundtrip_of_the_source (p : Pct) (he : p.amount.exp ≤ 20)
    (hlo : -(2 : ℤ) ^ 63 ≤ p.amount.value * 10 ^ (2 - p.amount.exp))
    (hhi : p.amount.value * 10 ^ (2 - p.amount.exp) < (2 : ℤ) ^ 63) :
    (CodecSrc.PercentageFromString (CodecSrc.Percentage_String p)).2 = none ∧
    (CodecSrc.PercentageFromString (CodecSrc.Percentage_String p)).1.amount.toRat = p.amount.toRat ∧
    (2 ≤ p.amount.exp → (CodecSrc.PercentageFromString (CodecSrc.Percentage_String p)).1 = p) := by
  obtain ⟨q, hq, hv, hs⟩ := percentage_roundtrip_value p he hlo hhi
  obtain ⟨⟨v, e⟩⟩ := p
  simp only at he hlo hhi
  obtain ⟨A, hA, hAe, hAv, _, _⟩ := pct_written v e he
  have h1 : minInt64 ≤ A.value := by rw [hAv]; unfold minInt64; norm_num at hlo; omega
  have h2 : A.value ≤ maxInt64 := by rw [hAv]; unfold maxInt64; norm_num at hhi; omega
  rw [src_Percentage_String _ (by rw [hA]; exact Or.inl hAe) (by rw [hA]; exact h1) (by rw [hA]; exact h2),
    src_PercentageFromString, hq]
  exact ⟨rfl, hv, hs⟩

/-- what the translated `PercentageFromString` accepts, exactly -/
theorem percentage_accepts_iff_of_the_source (s : Text) :
    (CodecSrc.PercentageFromString s).2 = none ↔
      (s = [] ∨ (isAmountText (pctBody s) = true ∧ fits64 (pctBody s) = true)) := by
  rw [src_PercentageFromString, ← percentage_accepts_iff]
  cases h : percentageFromString s with
  | ok a => simp [toGoP]
  | error e => simp [toGoP, GoStr.errNew]

/-- JSON, over the translated `UnmarshalJSON`: a JSON string is read exactly as
    `AmountFromString` reads its VALUE, whichever characters are spelled as `\u00XX` -/
theorem json_string_read_by_value_of_the_source (cur : Amount) (mask : List Bool) (s : Text)
    (hs : ∀ c ∈ s, jsonPlain c = true) :
    CodecSrc.Amount_UnmarshalJSON cur (GoStrings.toBytes (jsonSpelling mask s)) =
      ((CodecSrc.AmountFromString s).2, if (CodecSrc.AmountFromString s).2 = none then (CodecSrc.AmountFromString s).1 else cur) := by
  rw [src_UnmarshalJSON, json_string_read_by_value cur mask s hs, src_AmountFromString]
  cases h : amountFromString s with
  | ok a => simp [toGo, toGoU]
  | error e => simp [toGo, toGoU, GoStr.errNew]

/-- only the literal `null` leaves the receiver alone without an error; the STRING "null" is an error -/
theorem json_null_of_the_source (cur : Amount) :
    CodecSrc.Amount_UnmarshalJSON cur (GoStrings.toBytes "null".toList) = (none, cur) ∧
    (CodecSrc.Amount_UnmarshalJSON cur (GoStrings.toBytes "\"null\"".toList)).1 ≠ none := by
  rw [src_UnmarshalJSON, src_UnmarshalJSON]
  constructor
  · rfl
  · have : amountUnmarshalJSON cur "\"null\"".toList = .error .major := rfl
    rw [this]
    simp [toGoU, GoStr.errNew]

/-- MINIMAL STRING, over the translated `MinimalString` and `AmountFromString`: the text of every
    int64 amount with at most 18 decimals is a member of the pattern and is read back, without an
    error, as an amount of the same value -/
theorem minimal_string_of_the_source (a : Amount) (he : a.exp ≤ 18)
    (hlo : -(2 : ℤ) ^ 63 ≤ a.value) (hhi : a.value < (2 : ℤ) ^ 63) :
    isAmountText (CodecSrc.Amount_MinimalString a) = true ∧
    (CodecSrc.AmountFromString (CodecSrc.Amount_MinimalString a)).2 = none ∧
    (CodecSrc.AmountFromString (CodecSrc.Amount_MinimalString a)).1.toRat = a.toRat := by
  have h1 : minInt64 ≤ a.value := by unfold minInt64; norm_num at hlo; omega
  have h2 : a.value ≤ maxInt64 := by unfold maxInt64; norm_num at hhi; omega
  rw [src_MinimalString a (Or.inl he) h1 h2, src_AmountFromString]
  obtain ⟨b, hb, hv⟩ := minimal_string_preserves_value a he hlo hhi
  rw [hb]
  exact ⟨minimal_string_matches a he hlo hhi, rfl, hv⟩

end Src

end GoblVerif.Props.C06
