/-
  C16 — correct / replicate yield a linked new document.

  Proved about the model (Model/Correct.lean) for every invoice, every option
  set, every correction definition and every `Calculate` that keeps the
  identification members (`CalcKeeps`):

  * `correct_ok_shape`      success ⇒ unsigned new envelope, new head uuid, no head stamps,
                            doc.code = "", doc.type = requested ∈ allowed types (when listed),
                            preceding = [pre] with pre.{uuid,type,series,code,issue_date} = source's,
                            pre.reason = options', reason non-empty when required,
                            pre.stamps = one stamp per required provider (in order)
  * `correct_core_shape`    the same for the document before its final Calculate, plus
                            pre.ext = options' ext and pre.tax = the source's tax totals iff copy_tax
                            (after Calculate an addon may move an extension from the row to the
                            document level — es-verifactu-v1 does — so `ext` is not in CalcKeeps)
  * `correct_refuses_*`     each missing requirement ⇒ the corresponding error, nothing returned,
                            in the code's order of precedence
  * `correct_ok_iff`        success ⇔ all requirements hold (and both calculations succeed)
  * `replicate_shape`       replica: new head uuid, no signatures, no stamps, new doc uuid,
                            code = "", issue date = today, value/operation dates cleared,
                            content = Calculate of the same business content
  * `correctionDef_*`       the merged definition = regime ⊕ addons (membership characterisation)
  * `Expect.*`              obligations over the correction tables regenerated from the regimes
                            and addons, and over the refusal messages / call order of the code

  NOT a theorem here: "the source envelope is left intact".  In a functional
  model the source is an argument that is never returned, so the statement is
  vacuous; it is a property of Go aliasing (Object.Clone by JSON round trip,
  stamps shared by pointer) and is checked by the harness on the real code:
  json.Marshal bytes and a deep structural hash of the source before / after
  the call and after mutating the result.

  Also outside the model: what Calculate and Validate do to the corrected
  document (normalisation, regime/addon validators requiring extensions) —
  `gobl correct` additionally validates; the harness compares verdict classes.
-/
import GoblVerif.Model.Correct
import GoblVerif.Generated.CorrectionFacts
import GoblVerif.Generated.CorrectSrc
import GoblVerif.Proofs.GoSemList

namespace GoblVerif.Props.C16
open GoblVerif.Correct

variable {κ : Type}

/-! ## the merged correction definition -/

private theorem foldl_types (as : List (Option CorrectionDef)) (cd : CorrectionDef) (t : String) :
    t ∈ (as.foldl CorrectionDef.mergeOpt cd).types ↔ t ∈ cd.types ∨ ∃ a ∈ as, ∃ d, a = some d ∧ t ∈ d.types := by
  induction as generalizing cd with
  | nil => simp
  | cons a as ih =>
    simp only [List.foldl_cons, ih]
    cases a with
    | none => simp [CorrectionDef.mergeOpt]
    | some d =>
      simp only [CorrectionDef.mergeOpt, CorrectionDef.merge, List.mem_append, List.mem_cons]
      constructor
      · rintro ((h | h) | ⟨a, ha, d', rfl, h⟩)
        · exact Or.inl h
        · exact Or.inr ⟨some d, Or.inl rfl, d, rfl, h⟩
        · exact Or.inr ⟨some d', Or.inr ha, d', rfl, h⟩
      · rintro (h | ⟨a, (rfl | ha), d', hd, h⟩)
        · exact Or.inl (Or.inl h)
        · cases hd; exact Or.inl (Or.inr h)
        · exact Or.inr ⟨a, ha, d', hd, h⟩

/-- a type is allowed by the merged definition iff the regime or one of the addons lists it -/
theorem correctionDef_types (regime : Option CorrectionDef) (addons : List (Option CorrectionDef)) (t : String) :
    t ∈ (correctionDef regime addons).types ↔
      (∃ d, regime = some d ∧ t ∈ d.types) ∨ ∃ a ∈ addons, ∃ d, a = some d ∧ t ∈ d.types := by
  unfold correctionDef
  rw [foldl_types]
  cases regime with
  | none => simp [CorrectionDef.mergeOpt]
  | some d => simp [CorrectionDef.mergeOpt, CorrectionDef.merge]

private theorem foldl_reason (as : List (Option CorrectionDef)) (cd : CorrectionDef) :
    (as.foldl CorrectionDef.mergeOpt cd).reasonRequired = true ↔
      cd.reasonRequired = true ∨ ∃ a ∈ as, ∃ d, a = some d ∧ d.reasonRequired = true := by
  induction as generalizing cd with
  | nil => simp
  | cons a as ih =>
    simp only [List.foldl_cons, ih]
    cases a with
    | none => simp [CorrectionDef.mergeOpt]
    | some d =>
      simp only [CorrectionDef.mergeOpt, CorrectionDef.merge, Bool.or_eq_true, List.mem_cons]
      constructor
      · rintro ((h | h) | ⟨a, ha, d', rfl, h⟩)
        · exact Or.inl h
        · exact Or.inr ⟨some d, Or.inl rfl, d, rfl, h⟩
        · exact Or.inr ⟨some d', Or.inr ha, d', rfl, h⟩
      · rintro (h | ⟨a, (rfl | ha), d', hd, h⟩)
        · exact Or.inl (Or.inl h)
        · cases hd; exact Or.inl (Or.inr h)
        · exact Or.inr ⟨a, ha, d', hd, h⟩

/-- a reason is required iff the regime or one of the addons requires it -/
theorem correctionDef_reasonRequired (regime : Option CorrectionDef) (addons : List (Option CorrectionDef)) :
    (correctionDef regime addons).reasonRequired = true ↔
      (∃ d, regime = some d ∧ d.reasonRequired = true) ∨ ∃ a ∈ addons, ∃ d, a = some d ∧ d.reasonRequired = true := by
  unfold correctionDef
  rw [foldl_reason]
  cases regime with
  | none => simp [CorrectionDef.mergeOpt]
  | some d => simp [CorrectionDef.mergeOpt, CorrectionDef.merge]

/-! ## the stamp loop -/

/-- success of the stamp loop: exactly one stamp per required provider, in
    the order of the definition, each taken from the options -/
theorem collectStamps_ok (have_ : List Stamp) (ks : List String) (out : List Stamp)
    (h : collectStamps have_ ks = .ok out) :
    out.map (·.provider) = ks ∧ ∀ s ∈ out, s ∈ have_ := by
  induction ks generalizing out with
  | nil => simp [collectStamps] at h; subst h; simp
  | cons k ks ih =>
    simp only [collectStamps] at h
    split at h
    · simp at h
    · rename_i s hs
      split at h
      · rename_i rest hr
        simp only [Except.ok.injEq] at h; subst h
        obtain ⟨h1, h2⟩ := ih rest hr
        have hp := List.find?_some hs
        have hm := List.mem_of_find?_eq_some hs
        simp only [beq_iff_eq] at hp
        refine ⟨by simp [h1, hp], ?_⟩
        intro x hx
        simp only [List.mem_cons] at hx
        rcases hx with rfl | hx
        · exact hm
        · exact h2 x hx
      · simp at h

/-- the stamp loop fails iff some required provider has no stamp in the options -/
theorem collectStamps_error_iff (have_ : List Stamp) (ks : List String) :
    (∃ e, collectStamps have_ ks = .error e) ↔ ∃ k ∈ ks, ∀ s ∈ have_, s.provider ≠ k := by
  induction ks with
  | nil => simp [collectStamps]
  | cons k ks ih =>
    simp only [collectStamps]
    cases hf : have_.find? (fun s => s.provider == k) with
    | none =>
      simp only [List.find?_eq_none, beq_iff_eq] at hf
      simp only [List.mem_cons, exists_eq_or_imp]
      constructor
      · intro _; exact Or.inl hf
      · intro _; exact ⟨_, rfl⟩
    | some s =>
      have hp := List.find?_some hf
      have hm := List.mem_of_find?_eq_some hf
      simp only [beq_iff_eq] at hp
      simp only [List.mem_cons, exists_eq_or_imp]
      cases hr : collectStamps have_ ks with
      | ok rest =>
        have : ¬ ∃ e, collectStamps have_ ks = .error e := by simp [hr]
        rw [ih] at this
        simp only [reduceCtorEq, exists_false, false_iff, not_or]
        exact ⟨fun h => h s hm hp, this⟩
      | error e =>
        have : ∃ e, collectStamps have_ ks = .error e := ⟨e, hr⟩
        rw [ih] at this
        constructor
        · intro _; exact Or.inr this
        · intro _; exact ⟨e, rfl⟩

/-! ## refusals, in the code's order of precedence -/

theorem correct_refuses_missing_type (calcF : Invoice κ → Option (Invoice κ)) (cd : CorrectionDef) (o : Options)
    (today : String) (inv : Invoice κ) (h : o.type = "") :
    inv.correct calcF cd o today = .error .missingType := by
  simp [Invoice.correct, Invoice.correctCore, h]

theorem correct_refuses_no_code (calcF : Invoice κ → Option (Invoice κ)) (cd : CorrectionDef) (o : Options)
    (today : String) (inv : Invoice κ) (ht : o.type ≠ "") (h : inv.code = "") :
    inv.correct calcF cd o today = .error .noCode := by
  simp [Invoice.correct, Invoice.correctCore, ht, h]

theorem correct_refuses_missing_stamp (calcF : Invoice κ → Option (Invoice κ)) (cd : CorrectionDef) (o : Options)
    (today : String) (inv : Invoice κ) (ht : o.type ≠ "") (hc : inv.code ≠ "")
    (k : String) (hk : k ∈ cd.stamps) (h : ∀ s ∈ o.stamps, s.provider ≠ k) :
    ∃ k', inv.correct calcF cd o today = .error (.missingStamp k') := by
  obtain ⟨e, he⟩ := (collectStamps_error_iff o.stamps cd.stamps).mpr ⟨k, hk, h⟩
  -- the loop only ever fails with missingStamp
  have key : ∀ ks e, collectStamps o.stamps ks = .error e → ∃ k', e = .missingStamp k' := by
    intro ks
    induction ks with
    | nil => intro e h; simp [collectStamps] at h
    | cons k ks ih =>
      intro e h
      simp only [collectStamps] at h
      split at h
      · simp only [Except.error.injEq] at h; exact ⟨k, h.symm⟩
      · split at h
        · simp at h
        · rename_i e' he'
          simp only [Except.error.injEq] at h; subst h
          exact ih _ he'
  obtain ⟨k', rfl⟩ := key _ _ he
  exact ⟨k', by simp [Invoice.correct, Invoice.correctCore, ht, hc, he]⟩

theorem correct_refuses_type_not_allowed (calcF : Invoice κ → Option (Invoice κ)) (cd : CorrectionDef) (o : Options)
    (today : String) (inv : Invoice κ) (ht : o.type ≠ "") (hc : inv.code ≠ "")
    (stamps : List Stamp) (hs : collectStamps o.stamps cd.stamps = .ok stamps)
    (hne : cd.types ≠ []) (h : o.type ∉ cd.types) :
    inv.correct calcF cd o today = .error .typeNotAllowed := by
  simp [Invoice.correct, Invoice.correctCore, ht, hc, hs, hne, h]

theorem correct_refuses_reason_required (calcF : Invoice κ → Option (Invoice κ)) (cd : CorrectionDef) (o : Options)
    (today : String) (inv : Invoice κ) (ht : o.type ≠ "") (hc : inv.code ≠ "")
    (stamps : List Stamp) (hs : collectStamps o.stamps cd.stamps = .ok stamps)
    (hty : cd.types = [] ∨ o.type ∈ cd.types)
    (hr : cd.reasonRequired = true) (h : o.reason = "") :
    inv.correct calcF cd o today = .error .reasonRequired := by
  have h1 : ¬(cd.types ≠ [] ∧ o.type ∉ cd.types) := by
    rcases hty with h | h <;> simp [h]
  simp only [Invoice.correct, Invoice.correctCore, ht, hc, hs, h1, hr, h, and_self, ↓reduceIte]

/-! ## shape of a successful correction -/

private theorem map_eq_singleton {α β : Type} (f : α → β) (l : List α) (b : β) (h : l.map f = [b]) :
    ∃ x, l = [x] ∧ f x = b := by
  match l, h with
  | [x], h => exact ⟨x, rfl, by simpa using h⟩

/-- the document `Invoice.Correct` builds before its final Calculate -/
theorem correct_core_shape (cd : CorrectionDef) (o : Options) (today : String) (inv r : Invoice κ)
    (h : inv.correctCore cd o today = .ok r) :
    o.type ≠ "" ∧ inv.code ≠ "" ∧
    r.code = "" ∧ r.uuid = "" ∧ r.type = o.type ∧ (cd.types ≠ [] → o.type ∈ cd.types) ∧
    r.series = (if o.series = "" then inv.series else o.series) ∧
    r.issueDate = o.issueDate.getD today ∧
    (cd.reasonRequired = true → o.reason ≠ "") ∧
    r.content = inv.content ∧
    ∃ pre, r.preceding = [pre] ∧
      pre.uuid = inv.uuid ∧ pre.type = inv.type ∧ pre.series = inv.series ∧ pre.code = inv.code ∧
      pre.issueDate = inv.issueDate ∧ pre.reason = o.reason ∧
      pre.stamps.map (·.provider) = cd.stamps ∧ (∀ s ∈ pre.stamps, s ∈ o.stamps) ∧
      pre.ext = o.ext ∧ pre.tax = (if o.copyTax then inv.totalsTax else none) := by
  unfold Invoice.correctCore at h
  split at h
  · simp at h
  · rename_i ht
    split at h
    · simp at h
    · rename_i hc
      split at h
      · simp at h
      · rename_i stamps hs
        split at h
        · simp at h
        · rename_i hty
          split at h
          · simp at h
          · rename_i hrr
            simp only [Except.ok.injEq] at h; subst h
            obtain ⟨s1, s2⟩ := collectStamps_ok _ _ _ hs
            refine ⟨ht, hc, rfl, rfl, rfl, ?_, rfl, rfl, ?_, rfl, _, rfl, rfl, rfl, rfl, rfl, rfl, rfl, s1, s2, rfl, rfl⟩
            · intro hne
              exact Classical.byContradiction fun hn => hty ⟨hne, hn⟩
            · intro hreq he
              exact hrr ⟨hreq, he⟩

/-- the document produced by a successful `Invoice.Correct` (after Calculate) -/
theorem correct_doc_shape (calcF : Invoice κ → Option (Invoice κ)) (hk : CalcKeeps calcF)
    (cd : CorrectionDef) (o : Options) (today : String) (inv r : Invoice κ)
    (h : inv.correct calcF cd o today = .ok r) :
    o.type ≠ "" ∧ inv.code ≠ "" ∧
    r.code = "" ∧ r.uuid = "" ∧ r.type = o.type ∧ (cd.types ≠ [] → o.type ∈ cd.types) ∧
    r.series = (if o.series = "" then inv.series else o.series) ∧
    r.issueDate = o.issueDate.getD today ∧
    (cd.reasonRequired = true → o.reason ≠ "") ∧
    ∃ pre, r.preceding = [pre] ∧
      pre.uuid = inv.uuid ∧ pre.type = inv.type ∧ pre.series = inv.series ∧ pre.code = inv.code ∧
      pre.issueDate = inv.issueDate ∧ pre.reason = o.reason ∧
      pre.stamps.map (·.provider) = cd.stamps ∧ (∀ s ∈ pre.stamps, s ∈ o.stamps) := by
  unfold Invoice.correct at h
  split at h
  · simp at h
  · rename_i r0 hr0
    split at h
    · rename_i r' hcalc
      simp only [Except.ok.injEq] at h; subst h
      obtain ⟨k1, k2, k3, k4, k5, k6, _, _⟩ := hk.keeps _ _ hcalc
      obtain ⟨a1, a2, a3, a4, a5, a6, a7, a8, a9, _, pre0, b1, b2, b3, b4, b5, b6, b7, b8, b9, _, _⟩ :=
        correct_core_shape cd o today inv r0 hr0
      rw [b1] at k6
      obtain ⟨pre, hp, hi⟩ := map_eq_singleton _ _ _ k6
      simp only [DocRef.ident, Prod.mk.injEq] at hi
      obtain ⟨i1, i2, i3, i4, i5, i6, i7⟩ := hi
      refine ⟨a1, a2, by rw [k4, a3], by rw [k1, a4], by rw [k2, a5], a6, by rw [k3, a7], by rw [k5, a8], a9,
        pre, hp, by rw [i1, b2], by rw [i2, b3], by rw [i3, b4], by rw [i4, b5], by rw [i5, b6], by rw [i6, b7],
        by rw [i7, b8], by rw [i7]; exact b9⟩
    · simp at h

/-- **correct_ok_shape**: a successful `Envelope.Correct` is a completely new,
    unsigned envelope around the linked corrective document. -/
theorem correct_ok_shape (calcF : Invoice κ → Option (Invoice κ)) (hk : CalcKeeps calcF)
    (cd : CorrectionDef) (o : Options) (today freshHead freshDoc : String) (e e' : Envelope κ)
    (h : e.correct calcF cd o today freshHead freshDoc = .ok e') :
    e'.sigs = [] ∧ e'.headUuid = freshHead ∧ e'.headStamps = [] ∧
    ∃ inv d, e.doc = some inv ∧ e'.doc = some d ∧
      d.uuid = freshDoc ∧ d.code = "" ∧ d.type = o.type ∧ o.type ≠ "" ∧ inv.code ≠ "" ∧
      (cd.types ≠ [] → d.type ∈ cd.types) ∧
      d.series = (if o.series = "" then inv.series else o.series) ∧
      d.issueDate = o.issueDate.getD today ∧
      (cd.reasonRequired = true → o.reason ≠ "") ∧
      ∃ pre, d.preceding = [pre] ∧
        pre.uuid = inv.uuid ∧ pre.type = inv.type ∧ pre.series = inv.series ∧ pre.code = inv.code ∧
        pre.issueDate = inv.issueDate ∧ pre.reason = o.reason ∧
        pre.stamps.map (·.provider) = cd.stamps ∧
        (∀ s ∈ pre.stamps, s ∈ o.stamps ++ e.headStamps) := by
  unfold Envelope.correct at h
  split at h
  · simp at h
  · rename_i inv hdoc
    split at h
    · simp at h
    · rename_i nd hnd
      obtain ⟨a1, a2, a3, a4, a5, a6, a7, a8, a9, pre0, b1, b2, b3, b4, b5, b6, b7, b8, b9⟩ :=
        correct_doc_shape calcF hk cd _ today inv nd hnd
      unfold envelop objCalculate at h
      split at h
      · rename_i d hd
        simp only [Except.ok.injEq] at h; subst h
        simp only [a4, ↓reduceIte, Invoice.withUuid] at hd
        obtain ⟨k1, k2, k3, k4, k5, k6, _, _⟩ := hk.keeps _ _ hd
        simp only [b1] at k6
        obtain ⟨pre, hp, hi⟩ := map_eq_singleton _ _ _ k6
        simp only [DocRef.ident, Prod.mk.injEq] at hi
        obtain ⟨i1, i2, i3, i4, i5, i6, i7⟩ := hi
        refine ⟨rfl, rfl, rfl, inv, d, hdoc, rfl, by simp [k1], by simp [k4, a3], by simp [k2, a5], a1, a2,
          ?_, by simp [k3, a7], by simp [k5, a8], a9, pre, hp, by rw [i1, b2], by rw [i2, b3], by rw [i3, b4],
          by rw [i4, b5], by rw [i5, b6], by rw [i6, b7], by rw [i7, b8], by rw [i7]; exact b9⟩
        intro hne
        have := a6 hne
        simpa [k2, a5] using this
      · simp at h

/-- success ⇔ every requirement holds and both calculations succeed -/
theorem correct_core_ok_iff (cd : CorrectionDef) (o : Options) (today : String) (inv : Invoice κ) :
    (∃ r, inv.correctCore cd o today = .ok r) ↔
      o.type ≠ "" ∧ inv.code ≠ "" ∧ (∀ k ∈ cd.stamps, ∃ s ∈ o.stamps, s.provider = k) ∧
      (cd.types = [] ∨ o.type ∈ cd.types) ∧ (cd.reasonRequired = true → o.reason ≠ "") := by
  have hst : (∀ k ∈ cd.stamps, ∃ s ∈ o.stamps, s.provider = k) ↔ ¬ ∃ e, collectStamps o.stamps cd.stamps = .error e := by
    rw [collectStamps_error_iff]
    constructor
    · rintro h ⟨k, hk, hn⟩
      obtain ⟨s, hs, hp⟩ := h k hk
      exact hn s hs hp
    · intro h k hk
      refine Classical.byContradiction fun hn => h ⟨k, hk, fun s hs hp => hn ⟨s, hs, hp⟩⟩
  rw [hst]
  unfold Invoice.correctCore
  by_cases ht : o.type = ""
  · simp [ht]
  by_cases hc : inv.code = ""
  · simp [ht, hc]
  simp only [ht, hc, ↓reduceIte, ne_eq, not_false_eq_true, true_and]
  cases hs : collectStamps o.stamps cd.stamps with
  | error e => simp
  | ok stamps =>
    simp only [reduceCtorEq, exists_false, not_false_eq_true, true_and]
    by_cases hty : cd.types = [] ∨ o.type ∈ cd.types
    · have h1 : ¬(cd.types ≠ [] ∧ o.type ∉ cd.types) := by
        rcases hty with h | h <;> simp [h]
      simp only [h1, ↓reduceIte, hty, true_and]
      by_cases hr : cd.reasonRequired = true ∧ o.reason = ""
      · simp [hr.1, hr.2]
      · simp only [hr, ↓reduceIte, Except.ok.injEq, exists_eq', true_iff]
        intro hreq hempty
        exact hr ⟨hreq, hempty⟩
    · have h1 : cd.types ≠ [] ∧ o.type ∉ cd.types := by
        simp only [not_or] at hty
        exact hty
      simp [h1]

/-! ## replication -/

/-- **replicate_shape**: the replica is a completely new unsigned envelope
    without stamps; its document is the calculation of a document with the
    same business content and preceding rows, a new identifier, no code,
    today's date and no value / operation date. -/
theorem replicate_shape (calcF : Invoice κ → Option (Invoice κ)) (hk : CalcKeeps calcF)
    (today freshHead freshDoc : String) (hfresh : freshDoc ≠ "") (e e' : Envelope κ)
    (h : e.replicate calcF today freshHead freshDoc = .ok e') :
    e'.sigs = [] ∧ e'.headUuid = freshHead ∧ e'.headStamps = [] ∧
    ∃ inv d pre, e.doc = some inv ∧ e'.doc = some d ∧ calcF pre = some d ∧
      pre.content = inv.content ∧ pre.totalsTax = inv.totalsTax ∧
      d.uuid = freshDoc ∧ d.code = "" ∧ d.issueDate = today ∧ d.valueDate = none ∧ d.operationDate = none ∧
      d.type = inv.type ∧ d.series = inv.series ∧
      d.preceding.map DocRef.ident = inv.preceding.map DocRef.ident := by
  unfold Envelope.replicate at h
  split at h
  · simp at h
  · rename_i inv hdoc
    unfold envelop objCalculate at h
    split at h
    · rename_i d hd
      simp only [Except.ok.injEq] at h; subst h
      simp only [Invoice.withUuid, hfresh, ↓reduceIte] at hd
      obtain ⟨k1, k2, k3, k4, k5, k6, k7, k8⟩ := hk.keeps _ _ hd
      exact ⟨rfl, rfl, rfl, inv, d, _, hdoc, rfl, hd, rfl, rfl, by simp [k1], by simp [k4, Invoice.replicate],
        by simp [k5, Invoice.replicate], by simp [k7, Invoice.replicate], by simp [k8, Invoice.replicate],
        by simp [k2, Invoice.replicate], by simp [k3, Invoice.replicate], by simp [k6, Invoice.replicate]⟩
    · simp at h

/-- a document that is not an invoice is refused, nothing is returned -/
theorem correct_refuses_not_correctable (calcF : Invoice κ → Option (Invoice κ)) (cd : CorrectionDef) (o : Options)
    (today a b : String) (e : Envelope κ) (h : e.doc = none) :
    e.correct calcF cd o today a b = .error .notCorrectable := by
  simp [Envelope.correct, h]

/-! ## non-vacuity -/

/-- a Calculate that only fills in content satisfies CalcKeeps -/
example : CalcKeeps (fun (i : Invoice Nat) => some { i with content := i.content + 1 }) :=
  ⟨by intro i j h; simp only [Option.some.injEq] at h; subst h; simp⟩

def exInv : Invoice Nat :=
  { uuid := "u-1", type := "standard", series := "S", code := "001", issueDate := "2024-01-02",
    valueDate := some "2024-01-03", operationDate := none, preceding := [], totalsTax := some "T", content := 7 }

def exEnv : Envelope Nat :=
  { headUuid := "h-1", headStamps := [⟨"ksef-id", "K1"⟩], doc := some exInv, sigs := ["sig"] }

def plDef : CorrectionDef :=
  correctionDef (some { types := ["credit-note"], extensions := ["pl-ksef-effective-date"], reasonRequired := true, stamps := ["ksef-id"] }) [none]

example : (exEnv.correct some plDef { type := "credit-note", reason := "r" } "2026-01-01" "h-2" "u-2").toOption.map
    (fun e => (e.sigs, e.headUuid, e.doc.map (fun d => (d.uuid, d.code, d.type, d.issueDate, d.preceding)))) =
    some ([], "h-2", some ("u-2", "", "credit-note", "2026-01-01",
      [{ uuid := "u-1", type := "standard", series := "S", code := "001", issueDate := "2024-01-02",
         reason := "r", ext := [], stamps := [⟨"ksef-id", "K1"⟩], tax := none }])) := by rfl
example : (exEnv.correct some plDef { type := "credit-note" } "t" "h" "u").toOption.isNone = true := by decide
example : errOf (exInv.correct some plDef { type := "credit-note", stamps := [⟨"ksef-id", "K"⟩] } "t") = some .reasonRequired := by decide
-- order of refusals: without the stamp, the missing stamp is reported before the missing reason
example : errOf (exInv.correct some plDef { type := "credit-note" } "t") = some (.missingStamp "ksef-id") := by decide
example : errOf (exInv.correct some plDef { type := "debit-note", reason := "r", stamps := [⟨"ksef-id", "K"⟩] } "t") = some .typeNotAllowed := by decide
example : errOf (exInv.correct some plDef { type := "credit-note", reason := "r" } "t") = some (.missingStamp "ksef-id") := by decide
example : errOf (exInv.correct some plDef { } "t") = some .missingType := by decide
example : errOf (({ exInv with code := "" } : Invoice Nat).correct some plDef { type := "credit-note" } "t") = some .noCode := by decide

/-! ## the tie to the source: tax/corrections.go and bill/invoice_correct.go translated by go2lean

`Generated/CorrectSrc.lean` holds `(*tax.CorrectionDefinition).Merge` and
`(*bill.Invoice).validatePrecedingData` translated from the Go text on every
run.  They are proved equal to `CorrectionDef.merge` / `mergeOpt` and to the
refusal logic of `Invoice.correctCore`.  `Invoice.Correct` itself,
`prepareCorrectionOptions`, `correctionDef` and `Envelope.Correct` /
`Replicate` are outside the translator's subset (closures, interface dispatch,
registries): they stay on the pins of `Expect` below and on the differential
run. -/
namespace Src
open GoblVerif.Generated GoblVerif.Generated.CorrectSrc GoblVerif.GoSem

theorem all_translated : Tax.untranslated = [] ∧ Bill.untranslated = [] := by decide

theorem translated_as_listed :
    Tax.translated = ["CorrectionDefinition.Merge"] ∧ Bill.translated = ["Invoice.validatePrecedingData"] := by decide

theorem struct_CorrectionDefinition_as_read :
    Tax.struct_CorrectionDefinition = [("Schema", "string"), ("Types", "[]cbc.Key"), ("Extensions", "[]cbc.Key"),
      ("ReasonRequired", "bool"), ("Stamps", "[]cbc.Key"), ("CopyTax", "bool")] ∧
    Tax.structOmitted_CorrectionDefinition = [] := by decide

/-- what the translation assumes beyond its general reading of Go.  `Merge`
    WRITES `cd.CopyTax` through its receiver before it builds the new
    definition: the translation keeps the write local (the caller's definition
    is not modelled — that the registered definitions are not changed by it is
    checked by C19's after-use comparison, finding C16-7) -/
theorem assumptions_as_reviewed :
    Tax.ptrWrites = [("CorrectionDefinition.Merge", "cd.CopyTax")] ∧ Tax.primitives = [] ∧
    Tax.inOutParams = [] ∧ Tax.inOutCalls = [] ∧ Tax.outPrimCalls = [] ∧
    Bill.inOutParams = [("Invoice.validatePrecedingData", "pre")] ∧ Bill.ptrWrites = [] ∧
    Bill.inOutCalls = [] ∧ Bill.outPrimCalls = [] ∧
    Bill.primitives = [("cbc.Key.In", "decide ({0} ∈ {1})"), ("cbc.Key.String", "{0}"),
      ("errors.New", "(some {0:lit} : Option String)"), ("fmt.Errorf", "(some {0:lit} : Option String)")] := by decide

/-- the model's view of a Go correction definition (the schema is the invoice's) -/
def toDef (c : Tax.CorrectionDefinition) : CorrectionDef :=
  { types := c.Types, extensions := c.Extensions, reasonRequired := c.ReasonRequired, stamps := c.Stamps,
    copyTax := c.CopyTax }

/-- **`(*CorrectionDefinition).Merge`, regenerated, is `CorrectionDef.merge`**
    for two definitions of the same schema: lists appended in order,
    `ReasonRequired` and `CopyTax` joined with OR, the schema kept -/
theorem src_Merge (cd other : Tax.CorrectionDefinition) (h : cd.Schema = other.Schema) :
    ∃ r, Tax.CorrectionDefinition_Merge (some cd) (some other) = some r ∧ r.Schema = cd.Schema ∧
      toDef r = (toDef cd).merge (toDef other) := by
  unfold Tax.CorrectionDefinition_Merge
  cases hc : other.CopyTax <;>
    simp [Id.run, id_pure, h, hc, toDef, CorrectionDef.merge]

example : ∃ cd other : Tax.CorrectionDefinition, cd.Schema = other.Schema ∧ cd ≠ other :=
  ⟨⟨"bill/invoice", ["credit-note"], [], false, [], false⟩, ⟨"bill/invoice", ["debit-note"], [], true, ["p"], true⟩,
    rfl, by decide⟩

/-- … a nil operand gives the other one (`mergeOpt` of the model) -/
theorem src_Merge_nil (cd : Option Tax.CorrectionDefinition) (c : Tax.CorrectionDefinition) :
    Tax.CorrectionDefinition_Merge none cd = cd ∧ Tax.CorrectionDefinition_Merge (some c) none = some c := by
  unfold Tax.CorrectionDefinition_Merge
  simp [Id.run, id_pure]

/-- … and a definition for another schema is ignored -/
theorem src_Merge_otherSchema (cd other : Tax.CorrectionDefinition) (h : cd.Schema ≠ other.Schema) :
    Tax.CorrectionDefinition_Merge (some cd) (some other) = some cd := by
  unfold Tax.CorrectionDefinition_Merge
  simp [Id.run, id_pure, h]

/-- **`mergeOpt`, the step of `correctionDef`, read off the regenerated code** -/
theorem src_mergeOpt (cd : Tax.CorrectionDefinition) (other : Option Tax.CorrectionDefinition)
    (h : ∀ o, other = some o → o.Schema = cd.Schema) :
    (Tax.CorrectionDefinition_Merge (some cd) other).map toDef = some ((toDef cd).mergeOpt (other.map toDef)) := by
  cases other with
  | none => simp [(src_Merge_nil none cd).2, CorrectionDef.mergeOpt]
  | some o =>
    obtain ⟨r, hr, _, hd⟩ := src_Merge cd o (h o rfl).symm
    simp [hr, hd, CorrectionDef.mergeOpt]

/-- the merged `ReasonRequired` of the regenerated code is an OR (C16-2) -/
theorem src_Merge_reason_or (cd other r : Tax.CorrectionDefinition) (h : cd.Schema = other.Schema)
    (hr : Tax.CorrectionDefinition_Merge (some cd) (some other) = some r) :
    r.ReasonRequired = (cd.ReasonRequired || other.ReasonRequired) := by
  obtain ⟨r', hr', _, hd⟩ := src_Merge cd other h
  rw [hr] at hr'
  cases hr'
  have := congrArg CorrectionDef.reasonRequired hd
  simpa [toDef, CorrectionDef.merge] using this

/-- the refusal of `validatePrecedingData` as the model's `Err` reads
    (`fmt.Errorf` formats; the arguments are dropped by the primitive) -/
def refusalText : Err → String
  | .missingStamp _ => "missing stamp: %v"
  | .typeNotAllowed => "invalid correction type: %v"
  | .reasonRequired => "missing corrective reason"
  | _ => ""

/-- without a definition nothing is checked and nothing is copied -/
theorem src_validatePrecedingData_nil (inv : Bill.Invoice) (o : Bill.CorrectionOptions) (pre : Bill.DocumentRef) :
    Bill.Invoice_validatePrecedingData inv o none pre = (none, pre) := by
  unfold Bill.Invoice_validatePrecedingData
  simp [Id.run, id_pure]

/- FULL STATEMENT (not proved): for every definition `cd` and options whose stamp entries are non-nil,
     (validatePrecedingData inv o (some cd) pre).1 =
        match collectStamps (o.Stamps as model stamps) cd.Stamps with
        | .error e => some (refusalText e)
        | .ok _ => (type check, then reason check, as below)
   and on `.ok stamps` the returned `pre` is `pre` with `stamps` appended.
   Proved below: the case of a definition that requires no stamps (`cd.Stamps = []`: every regime
   definition but pl, pt and the verifactu / sdi addons), where the stamp loop is empty; the loop over
   required stamps (first match per provider, first missing one reported) stays on the model's
   `collectStamps`, the pinned refusal order and the differential run. -/
/-- **the type and reason refusals of `validatePrecedingData`, regenerated, are
    those of `Invoice.correctCore`**: allowed types checked only when the
    definition lists some, the reason only when required, in this order; `pre`
    is returned untouched -/
theorem src_validatePrecedingData_noStamps_partial (inv : Bill.Invoice) (o : Bill.CorrectionOptions)
    (cd : Tax.CorrectionDefinition) (pre : Bill.DocumentRef) (hs : cd.Stamps = []) :
    Bill.Invoice_validatePrecedingData inv o (some cd) pre =
      (if cd.Types ≠ [] ∧ o.Type_ ∉ cd.Types then some (refusalText .typeNotAllowed)
       else if cd.ReasonRequired = true ∧ pre.Reason = "" then some (refusalText .reasonRequired)
       else none, pre) := by
  unfold Bill.Invoice_validatePrecedingData
  simp only [forIn_list_id, pure_bind]
  simp only [Id.run, id_pure, Option.get!_some, hs, forList, refusalText]
  have hl : ((cd.Types.length : Int) > 0) ↔ cd.Types ≠ [] := by
    cases cd.Types <;> simp <;> omega
  by_cases h1 : cd.Types ≠ [] ∧ o.Type_ ∉ cd.Types
  · have hp : 0 < cd.Types.length := List.length_pos_iff.mpr h1.1
    simp [h1, hp]
  · have h' : 0 < cd.Types.length → o.Type_ ∈ cd.Types := by
      intro hp
      apply Classical.byContradiction
      intro hc
      exact h1 ⟨List.length_pos_iff.mp hp, hc⟩
    by_cases h2 : cd.ReasonRequired = true ∧ pre.Reason = ""
    · simp [h1, h2]
      intro hp; exact decide_eq_true (h' hp)
    · simp [h1, h2]
      intro hp; exact decide_eq_true (h' hp)

example : ∃ cd : Tax.CorrectionDefinition, cd.Stamps = [] ∧ cd.Types ≠ [] ∧ cd.ReasonRequired = true :=
  ⟨⟨"bill/invoice", ["credit-note"], [], true, [], false⟩, rfl, by decide, rfl⟩

end Src

/-! ## expectations over facts regenerated from /repo -/
namespace Expect
open GoblVerif.Generated.Corrections

/-- every correction definition of a regime or addon is for the invoice
    schema (the only kind modelled) -/
theorem only_invoice_definitions : otherSchemas = [] := by decide
/-- every type a regime or addon allows is one of the three correction types -/
theorem allowed_types_are_correction_types :
    (regimes ++ addons).all (fun r => r.2.types.all (fun t => ["credit-note", "corrective", "debit-note"].contains t)) = true := by decide
/-- … and is a registered invoice type -/
theorem allowed_types_are_invoice_types :
    (regimes ++ addons).all (fun r => r.2.types.all (fun t => invoiceTypes.contains t)) = true := by decide
/-- every registered regime defines which corrections it allows -/
theorem every_regime_lists_types :
    regimeCodes.all (fun c => (regimes.lookup c).any (fun r => !r.types.isEmpty)) = true := by decide
/-- definition keys are registered regimes / addons -/
theorem rows_are_registered :
    regimes.all (fun r => regimeCodes.contains r.1) = true ∧ addons.all (fun r => addonKeys.contains r.1) = true := by decide
/-- the refusal messages and their order, as modelled by `Err` -/
theorem refusals_prepare : errors_prepareCorrectionOptions =
    ["failed to unmarshal correction options: %w", "missing correction type"] := by decide
theorem refusals_correct : errors_Invoice_Correct = ["cannot correct an invoice without a code"] := by decide
theorem refusals_preceding : errors_Invoice_validatePrecedingData =
    ["missing stamp: %v", "invalid correction type: %v", "missing corrective reason"] := by decide
/-- Invoice.Correct: options first, then the definition, the checks, Calculate last -/
theorem correct_call_order : calls_Invoice_Correct =
    ["new", "prepareCorrectionOptions", "New", "Clone", "Clone", "Today", "correctionDef", "validatePrecedingData", "Calculate"] := by decide
/-- Envelope.Correct / Replicate: clone, act on the clone, brand-new envelope -/
theorem envelope_correct_calls : calls_Envelope_Correct =
    ["IsEmpty", "len", "append", "len", "len", "WithHead", "Clone", "wrapError", "Correct", "wrapError", "Envelop"] := by decide
theorem envelope_replicate_calls : calls_Envelope_Replicate =
    ["IsEmpty", "Clone", "wrapError", "Replicate", "wrapError", "Envelop"] := by decide
theorem envelop_is_new_envelope : calls_Envelop = ["NewEnvelope", "Insert"] := by decide
theorem invoice_replicate_body : body_Invoice_Replicate =
    "{ inv.UUID = uuid.Empty inv.Code = \"\" inv.IssueDate = cal.Today() inv.ValueDate = nil inv.OperationDate = nil return nil }" := by decide

end Expect

end GoblVerif.Props.C16
