/-
  C03 — Under currency rounding every presented amount re-adds exactly.

  Theorems about `Calc.calculate exactOps` (Model/Calc.lean) with
  `rule = currency`.  Helper lemmas: Proofs/CalcBasics.lean,
  Proofs/CalcCurrency.lean.
-/
import GoblVerif.Spec.C03
import GoblVerif.Proofs.CalcCurrency

namespace GoblVerif.Props.C03
open GoblVerif GoblVerif.Calc

/-- **line_total_readds**: under the currency rule, with fixed discount /
charge amounts (and charge rates) at the currency's precision, a calculated
line's total is exactly its sum minus its discounts plus its charges, and
each of those figures has exactly the currency's number of decimals. -/
theorem line_total_readds (cur : String) (c : Nat) (rates : List XRate) (l l' : Line)
    (hg : lineGuard c l) (h : calcLine exactOps cur c rates .currency l = .ok l')
    (s t : Amount) (hs : l'.sum = some s) (ht : l'.total = some t) (hi : l.item ≠ none) :
    s.exp = c ∧ t.exp = c ∧ (∀ d ∈ l'.discounts, d.amount.exp = c) ∧ (∀ d ∈ l'.charges, d.amount.exp = c) ∧
    t.value = s.value - (l'.discounts.map (·.amount.value)).sum + (l'.charges.map (·.amount.value)).sum := by
  obtain ⟨h1, h2, h3, h4⟩ := calcLine_currency cur c rates l l' hg h s t hs ht hi
  subst h4
  exact ⟨h1, rfl, h2, h3, rfl⟩

/-- non-vacuity: a concrete line (price 10.005, quantity 3, a 10% discount and a fixed 1.00 charge, EUR) -/
example :
    let l : Line := { qty := ⟨3, 0⟩, item := some { price := some ⟨10005, 3⟩, cur := "", sub := 2, alts := [] },
                      discounts := [{ percent := some ⟨⟨10, 2⟩⟩, base := none, amount := ⟨0, 0⟩, rate := none, quantity := none }],
                      charges := [{ percent := none, base := none, amount := ⟨100, 2⟩, rate := none, quantity := none }],
                      breakdown := [], taxes := [] }
    (calcLine exactOps "EUR" 2 [] .currency l).toOption.map (fun l' => (l'.sum, l'.total)) =
      some (some ⟨3002, 2⟩, some ⟨2802, 2⟩) := by decide

end GoblVerif.Props.C03
