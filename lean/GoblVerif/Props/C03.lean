/-
  C03 — Under currency rounding every presented amount re-adds exactly.

  Theorems about `Calc.calculate exactOps` (Model/Calc.lean) with
  `rule = currency`.  Helper lemmas: Proofs/CalcBasics.lean,
  Proofs/CalcCurrency.lean, Proofs/CalcTax.lean.

  Proved: line totals, document sums and running total, tax groups /
  categories / tax sum, and the final assembly (total, total_with_tax,
  payable, due) are plain integer arithmetic at the currency's exponent.
  Glue not proved as one statement about `calculate`: that the tax summary
  handed to the final assembly is the one `category_readds`/`tax_sum_readds`
  speak about after `roundTax` (an identity at that exponent) — covered by
  the re-add oracle on the real output and by model = code.
-/
import GoblVerif.Spec.C03
import GoblVerif.Generated.CalcFacts
import GoblVerif.Proofs.CalcCurrency
import GoblVerif.Proofs.CalcTax
import GoblVerif.Proofs.CalcReadd
import GoblVerif.Proofs.BillCalcSrc

namespace GoblVerif.Props.C03
open GoblVerif GoblVerif.Calc

/-- **line_total_readds**: under the currency rule, with fixed discount /
charge amounts (and charge rates) at the currency's precision, a calculated
line's total is exactly its sum minus its discounts plus its charges, and
each of those figures has exactly the currency's number of decimals. -/
theorem line_total_readds (cur : String) (c : Nat) (rates : List XRate) (l l' : Line)
    (hg : lineGuard c l) (h : calcLine exactOps cur c rates .currency l = .ok l')
    (s t : Amount) (hs : l'.sum = some s) (ht : l'.total = some t) (hi : l.item ≠ none) :
    s.exp = c ∧ t.exp = c ∧ (∀ d ∈ l'.discounts, d.amount.exp = c) ∧ (∀ d ∈ l'.charges, d.amount.exp = c) ∧
    t.value = s.value - (l'.discounts.map (·.amount.value)).sum + (l'.charges.map (·.amount.value)).sum := by
  obtain ⟨h1, h2, h3, h4⟩ := calcLine_currency cur c rates l l' hg h s t hs ht hi
  subst h4
  exact ⟨h1, rfl, h2, h3, rfl⟩

/-- the value of an optional total, 0 when absent -/
def valueOr0 (a : Option Amount) : Int := match a with | some x => x.value | none => 0

/-- **doc_sum_readds / total_readds (before tax)**: under the currency rule the
document sum is exactly the sum of the line totals, the discount and charge
totals are exactly the sums of their rows, and the running total is
sum − discounts + charges — all plain integer arithmetic at the currency's
exponent.  Holds for every document (no guard on fixed amounts is needed here:
document rows are rounded to the currency before they are summed). -/
theorem doc_sums_readd (d : Doc) (p : Pre) (hr : d.rule = .currency)
    (hclean : ∀ l ∈ d.lines, l.total = none) (h : pre exactOps d = .ok p) :
    p.sum = ⟨((p.lines.filterMap (·.total)).map (·.value)).sum, d.c⟩ ∧
    (∀ x ∈ p.discounts, x.amount.exp = d.c) ∧ (∀ x ∈ p.charges, x.amount.exp = d.c) ∧
    (∀ s, p.dsum = some s → s = ⟨(p.discounts.map (·.amount.value)).sum, d.c⟩) ∧
    (∀ s, p.csum = some s → s = ⟨(p.charges.map (·.amount.value)).sum, d.c⟩) ∧
    p.total2 = ⟨p.sum.value - valueOr0 p.dsum + valueOr0 p.csum, d.c⟩ := by
  unfold pre at h
  rw [hr] at h
  cases hl : calcLines exactOps d.cur d.c d.rates .currency d.lines with
  | error e => simp [hl] at h
  | ok lines =>
    simp only [hl] at h
    injection h with h
    subst h
    simp only
    have hexp := calcLines_currency_total_exp d.cur d.c d.rates d.lines lines hl hclean
    have hsum : lineSum exactOps d.c lines = ⟨((lines.filterMap (·.total)).map (·.value)).sum, d.c⟩ := by
      unfold lineSum
      rw [foldl_accum_same d.c _ ⟨0, d.c⟩ rfl hexp]
      simp
    have hD : ∀ x ∈ d.discounts.map (docAdj exactOps .currency d.c (lineSum exactOps d.c lines)), x.amount.exp = d.c := by
      intro x hx
      simp only [List.mem_map] at hx
      obtain ⟨y, _, rfl⟩ := hx
      exact docAdj_currency_exp d.c _ y
    have hC : ∀ x ∈ d.charges.map (docAdj exactOps .currency d.c (lineSum exactOps d.c lines)), x.amount.exp = d.c := by
      intro x hx
      simp only [List.mem_map] at hx
      obtain ⟨y, _, rfl⟩ := hx
      exact docAdj_currency_exp d.c _ y
    refine ⟨hsum, hD, hC, fun s hs => adjSum_currency d.c _ hD s hs, fun s hs => adjSum_currency d.c _ hC s hs, ?_⟩
    have hse : (lineSum exactOps d.c lines).exp = d.c := by rw [hsum]
    cases hds : adjSum exactOps d.c (d.discounts.map (docAdj exactOps .currency d.c (lineSum exactOps d.c lines))) with
    | none =>
      cases hcs : adjSum exactOps d.c (d.charges.map (docAdj exactOps .currency d.c (lineSum exactOps d.c lines))) with
      | none =>
        simp only [valueOr0]
        rw [hsum]; simp
      | some cs =>
        have hce := adjSum_currency d.c _ hC cs hcs
        simp only [valueOr0]
        rw [add_same _ _ (by rw [hce, hse]), hse]
        simp
    | some ds =>
      have hde := adjSum_currency d.c _ hD ds hds
      cases hcs : adjSum exactOps d.c (d.charges.map (docAdj exactOps .currency d.c (lineSum exactOps d.c lines))) with
      | none =>
        simp only [valueOr0]
        rw [sub_same _ _ (by rw [hde, hse]), hse]
        simp
      | some cs =>
        have hce := adjSum_currency d.c _ hC cs hcs
        simp only [valueOr0]
        rw [sub_same _ _ (by rw [hde, hse]), add_same _ _ (by rw [hce]; simp [hse])]
        simp [hse]

/-- **rate_amount_from_presented_base / category sums**: under the currency rule,
for every category built from any rows, every group's base and amount sit at
the currency's exponent (so presentation leaves them untouched), each amount is
its percentage of that very base rounded half away from zero to the currency,
the category amount is the integer sum of its groups' amounts and the category
surcharge the integer sum of their surcharges. -/
theorem category_readds (c : ℕ) (rows : List Row) :
    ∀ ct ∈ (baseRateTotals exactOps .currency c rows).map (catAmounts exactOps .currency c),
      (∀ rt ∈ ct.rates, rt.base.exp = c ∧ rt.amount.exp = c) ∧
      ct.amount = ⟨(ct.rates.map taxedValue).sum, c⟩ ∧
      (∀ s, ct.surcharge = some s → s = ⟨(ct.rates.map surchargeValue).sum, c⟩) := by
  intro ct hct
  simp only [List.mem_map] at hct
  obtain ⟨ct0, h0, rfl⟩ := hct
  exact catAmounts_currency c ct0 (baseRateTotals_currency c rows ct0 h0)

/-- a group's amount is its percentage of its (presented) base rounded to the currency -/
theorem rate_amount_from_presented_base (c : ℕ) (rt : RateTotal) (p : Pct) (hb : rt.base.exp = c)
    (hp : rt.percent = some p) :
    (rateAmounts exactOps rt c).base = rt.base ∧ (rateAmounts exactOps rt c).amount.exp = c ∧
    (rateAmounts exactOps rt c).amount.value = Spec.roundTo c (rt.base.toRat * p.amount.toRat) := by
  have h := (rateAmounts_amount rt c).1 p hp
  refine ⟨(rateAmounts_currency c rt hb).2.1, by rw [h.1, hb], by rw [h.2, hb]⟩

/-- **tax sum**: ordinary categories (with surcharges) added, retained ones subtracted, as integers -/
theorem tax_sum_readds (c : ℕ) (cats : List CatTotal)
    (h : ∀ ct ∈ cats, ct.amount.exp = c ∧ ∀ s, ct.surcharge = some s → s.exp = c) :
    finalSum exactOps .currency c cats = ⟨(cats.map catSigned).sum, c⟩ :=
  finalSum_currency c cats h

/-- **total, total_with_tax, payable, due**: once every input of the final
assembly sits at the currency's exponent (which the theorems above establish
for sums, rows and the tax summary; fixed advances and an external rounding
amount are covered by the property's own guard), the assembly is plain integer
arithmetic: total = (sum − discount + charge) − tax_included,
total_with_tax = total + tax, payable = total_with_tax + rounding,
due = payable − advances. -/
theorem totals_readd (d : Doc) (p : Pre) (tx : TaxTotal)
    (h2 : p.total2.exp = d.c) (htax : tx.precise.exp = d.c)
    (hti : ∀ x, taxIncluded d.includes tx = some x → x.exp = d.c)
    (hrnd : ∀ x, d.rounding = some x → x.exp = d.c)
    (hadv : ∀ x, (rawTotals exactOps d p tx).advances = some x → x.exp = d.c) :
    let t := rawTotals exactOps d p tx
    t.total = ⟨p.total2.value - valueOr0 t.taxIncluded, d.c⟩ ∧
    t.totalWithTax = ⟨t.total.value + t.tax.value, d.c⟩ ∧
    t.payable = ⟨t.totalWithTax.value + valueOr0 t.rounding, d.c⟩ ∧
    (∀ x, t.due = some x → x = ⟨t.payable.value - valueOr0 t.advances, d.c⟩) := by
  have hT : (rawTotals exactOps d p tx).total = ⟨p.total2.value - valueOr0 (taxIncluded d.includes tx), d.c⟩ := by
    simp only [rawTotals]
    cases hti' : taxIncluded d.includes tx with
    | none => simp [valueOr0, ← h2]
    | some x => simp only [valueOr0]; rw [sub_same _ _ (by rw [hti x hti', h2]), h2]
  have hTW : (rawTotals exactOps d p tx).totalWithTax =
      ⟨(rawTotals exactOps d p tx).total.value + tx.precise.value, d.c⟩ := by
    have : (rawTotals exactOps d p tx).totalWithTax = add exactOps (rawTotals exactOps d p tx).total tx.precise := rfl
    rw [this, add_same _ _ (by rw [htax, hT])]
    rw [hT]
  have hP : (rawTotals exactOps d p tx).payable =
      ⟨(rawTotals exactOps d p tx).totalWithTax.value + valueOr0 d.rounding, d.c⟩ := by
    have : (rawTotals exactOps d p tx).payable =
        (match d.rounding with | some x => add exactOps (rawTotals exactOps d p tx).totalWithTax x | none => (rawTotals exactOps d p tx).totalWithTax) := rfl
    rw [this]
    cases hr : d.rounding with
    | none => simp only [valueOr0]; rw [hTW]; simp
    | some x => simp only [valueOr0]; rw [add_same _ _ (by rw [hrnd x hr, hTW]), hTW]
  refine ⟨hT, hTW, hP, ?_⟩
  intro x hx
  have hdue : (rawTotals exactOps d p tx).due =
      (rawTotals exactOps d p tx).advances.map (fun a => sub exactOps (rawTotals exactOps d p tx).payable a) := rfl
  rw [hdue] at hx
  cases ha : (rawTotals exactOps d p tx).advances with
  | none => simp [ha] at hx
  | some a =>
    simp only [ha, Option.map_some, Option.some.injEq] at hx
    rw [← hx, sub_same _ _ (by rw [hadv a ha, hP]), hP]
    simp [valueOr0]

/-- **currency_rule_readds** (capstone): for EVERY document calculated under the
currency rule, the executable oracle `Spec.C03.readdOk` — the whole statement of
C03 on the presented figures, and the function that judges the output of the
real `Invoice.Calculate` in harness/props/c03 — holds of what `Calc.calculate`
returns: every line and breakdown row total = sum − discounts + charges;
document sum = Σ line totals; discount / charge totals = Σ of their rows;
total = sum − discounts + charges − included tax; every rate amount and
surcharge amount = its percentage of the presented base rounded half away from
zero to the currency; category amount / surcharge = Σ of its rates'; tax sum =
Σ ordinary − Σ retained (with surcharges) = the document's tax;
total with tax = total + tax; payable = total with tax + rounding; advances =
Σ advance rows, each percentage advance that percentage of the presented total
with tax; due = payable − advances; each percentage due date that percentage
of the presented payable amount; no figure finer than the currency (lines: than
the item price).  Assembled from `calcLine_currency` (`line_total_readds`),
`doc_sums_readd`, `catAmounts_currency` (`category_readds`),
`rateAmounts_amount` (`rate_amount_from_presented_base`), `finalSum_currency`
(`tax_sum_readds`) and `totals_readd`, extended in Proofs/CalcReadd.lean to
breakdown rows, the presentation roundings (`Line.round`, `Discount.round`,
`tax.Total.round`, `Totals.round` are the identity on these figures), surcharge
presence, advances and due dates.

Hypotheses, all about the *input*:
* `hclean`  — no figures of an earlier calculation on lines / breakdown rows;
* `hguard`  — the property's own guard: fixed line (and breakdown) discount and
  charge amounts, and charge rates, are not finer than the currency (the
  complement is the known finding of C04); percentages, explicit bases, item
  prices and quantities are unrestricted (prices may be finer than the currency);
* `hitems`, `hrates` — the encoding: an item priced in the document's currency
  and an exchange rate into it carry that currency's number of decimals;
* `hrnd`    — an externally supplied `totals.rounding` is given at the currency's precision;
* `hadv`    — fixed advances are not finer than the currency;
* `hpay`    — advances and due dates only exist inside payment details.
Document discounts / charges, due dates and every percentage need no guard.
A document that `calculate` refuses (no exchange rate, retained category
included in prices) has no output: `h` cannot hold. -/
theorem currency_rule_readds (d : Doc) (out : Out) (hr : d.rule = .currency)
    (h : calculate exactOps d = .ok out)
    (hclean : ∀ l ∈ d.lines, lineClean l)
    (hguard : ∀ l ∈ d.lines, lineGuard d.c l ∧ ∀ sl ∈ l.breakdown, subGuard d.c sl)
    (hitems : ∀ l ∈ d.lines, ∀ it, l.item = some it → itemOk d.cur d.c it)
    (hrates : ratesOk d.cur d.c d.rates)
    (hrnd : ∀ x, d.rounding = some x → x.exp = d.c)
    (hadv : ∀ a ∈ d.advances, a.percent = none → a.amount.exp ≤ d.c)
    (hpay : d.hasPayment = false → d.advances = [] ∧ d.dues = []) :
    Spec.C03.readdOk d.c out = true := by
  unfold calculate at h
  cases hp : pre exactOps d with
  | error e => simp [hp] at h
  | ok p =>
    simp only [hp] at h
    obtain ⟨hcl, hdsum, hcsum⟩ := pre_fields d p hp
    rw [hr] at hcl
    have hL := calcLines_facts d.cur d.c d.rates d.lines p.lines hguard hclean hitems hrates hcl
    split at h
    · injection h with h
      subst h
      exact readdOk_noTotals d.c _ hL rfl
    · cases htx : taxTotal exactOps d.rule d.c d.includes p.rows with
      | error e => simp [htx] at h
      | ok tx =>
        simp only [htx] at h
        injection h with h
        subst h
        obtain ⟨hsum, hD, hC, hds, hcs, ht2⟩ :=
          doc_sums_readd d p hr (fun l hl => (hclean l hl).2.1) hp
        rw [hr] at htx
        have hT := taxTotal_facts d.c d.includes p.rows tx htx
        have h2 : p.total2.exp = d.c := by rw [ht2]
        have htot := totals_readd d p tx h2 (by rw [hT.precise_eq, hT.2.1]) (hT.taxIncluded_exp d.includes) hrnd
          (rawTotals_advances_exp d p tx h2 hadv)
        exact readdOk_finish d p tx hL hsum hD hC hds hcs
          (fun hn => adjSum_none d.c _ (hdsum ▸ hn)) (fun hn => adjSum_none d.c _ (hcsum ▸ hn))
          ht2 hT hrnd hadv hpay htot

/-- non-vacuity of `currency_rule_readds`: `Calc.readdExample` (three lines, one
priced by a breakdown with a foreign-currency row, a price finer than the
currency, tax-included prices, two VAT 21 % groups that differ in the surcharge,
a retained category, document discount and charge, external rounding, a
percentage and a fixed advance, a due date) satisfies every hypothesis … -/
example (out : Out) (h : calculate exactOps readdExample = .ok out) : Spec.C03.readdOk 2 out = true :=
  currency_rule_readds readdExample out rfl h (by decide) (by decide) (by decide) (by decide) (by decide)
    (by decide) (by decide)

/-- … is calculated, and presents these totals (sum, discount, charge, included
tax, total, tax, total with tax, payable, advances, due) -/
example : (calculate exactOps readdExample).toOption.map (fun o => o.totals.map (fun t =>
      [some t.sum, t.discount, t.charge, t.taxIncluded, some t.total, some t.tax, some t.totalWithTax,
       some t.payable, t.advances, t.due])) =
    some (some [some ⟨8429, 2⟩, some ⟨421, 2⟩, some ⟨123, 2⟩, some ⟨1151, 2⟩, some ⟨6980, 2⟩, some ⟨822, 2⟩,
      some ⟨7802, 2⟩, some ⟨7803, 2⟩, some ⟨2841, 2⟩, some ⟨4962, 2⟩]) := by decide

/-- the oracle is not trivially true: one cent more on the payable amount and it fails -/
example : (calculate exactOps readdExample).toOption.map (fun o =>
      Spec.C03.readdOk 2 { o with totals := o.totals.map (fun t => { t with payable := ⟨t.payable.value + 1, 2⟩ }) }) =
    some false := by decide +kernel

/-- non-vacuity: a concrete line (price 10.005, quantity 3, a 10% discount and a fixed 1.00 charge, EUR) -/
example :
    let l : Line := { qty := ⟨3, 0⟩, item := some { price := some ⟨10005, 3⟩, cur := "", sub := 2, alts := [] },
                      discounts := [{ percent := some ⟨⟨10, 2⟩⟩, base := none, amount := ⟨0, 0⟩, rate := none, quantity := none }],
                      charges := [{ percent := none, base := none, amount := ⟨100, 2⟩, rate := none, quantity := none }],
                      breakdown := [], taxes := [] }
    (calcLine exactOps "EUR" 2 [] .currency l).toOption.map (fun l' => (l'.sum, l'.total)) =
      some (some ⟨3002, 2⟩, some ⟨2802, 2⟩) := by decide

/-! ## pinned source shapes (regenerated facts; tools/pin_calc_expect.py) -/

/-! ## the line-level statement over the code itself (B22)

`BillCalcSrc.calculateLine` is the Go function `calculateLine` of /repo/bill/line_calculate.go
translated on every run (Generated/BillCalcSrc.lean); Props/C01 (`Src.src_calculateLine`,
from Proofs/BillCalcSrc `calculateLine_eq`) proves it equal to `Calc.calcLine` for lines without
substituted sub-lines.  With that, `line_total_readds` is a statement about the translated code. -/
namespace Src
open GoblVerif.Generated GoblVerif.CalcSrc GoblVerif.Proofs.BillCalcSrc

/-- **line_total_readds, about the code**: under the currency rule, for a line with an item and
without substituted sub-lines whose fixed discount / charge amounts (and charge rates) come at the
currency's precision, what the regenerated `calculateLine` leaves re-adds exactly: sum, total and
every discount / charge amount have exactly the currency's number of decimals and
total = sum − discounts + charges as integers. -/
theorem line_total_readds_source (sub : String → Nat) (l l' : BillCalcSrc.Line) (cur : String) (rates : List XRate)
    (hr : ∀ r ∈ rates, r.toSub = sub r.to) (hsub : l.Substituted = []) (hi : l.Item ≠ none)
    (hgd : ∀ d ∈ l.Discounts, adjGuard (sub cur) (toAdj d) = true) (hgc : ∀ d ∈ l.Charges, adjGuard (sub cur) d = true)
    (h : BillCalcSrc.calculateLine exactOps sub l cur rates "currency" = .ok l')
    (s t : Amount) (hs : l'.Sum = some s) (ht : l'.Total = some t) :
    s.exp = sub cur ∧ t.exp = sub cur ∧ (∀ d ∈ l'.Discounts, d.Amount.exp = sub cur) ∧
    (∀ d ∈ l'.Charges, d.amount.exp = sub cur) ∧
    t.value = s.value - (l'.Discounts.map (·.Amount.value)).sum + (l'.Charges.map (·.amount.value)).sum := by
  have hm : calcLine exactOps cur (sub cur) rates .currency (toLine (toItem sub cur) l) = .ok (toLine (toItem sub cur) l') := by
    have := calculateLine_eq exactOps sub l cur rates "currency" hr hsub
    rw [h] at this
    exact this.symm
  have hg : lineGuard (sub cur) (toLine (toItem sub cur) l) := by
    refine ⟨?_, hgc⟩
    intro d hd
    obtain ⟨x, hx, rfl⟩ := List.mem_map.mp hd
    exact ⟨rfl, hgd x hx⟩
  have hi' : (toLine (toItem sub cur) l).item ≠ none := by
    cases hI : l.Item with
    | none => exact absurd hI hi
    | some it => simp [toLine, hI]
  obtain ⟨h1, h2, h3, h4, h5⟩ := line_total_readds cur (sub cur) rates _ _ hg hm s t hs ht hi'
  refine ⟨h1, h2, ?_, h4, ?_⟩
  · intro d hd
    exact h3 (toAdj d) (List.mem_map.mpr ⟨d, hd, rfl⟩)
  · rw [h5]
    simp [toLine, toAdj, List.map_map, Function.comp_def]

/-- the hypotheses are satisfiable and the code computes: 3 × 33.335 EUR = 100.01 (rounded once to
    the cent), − 10 % (10.00) + a fixed charge of 0.50 = 90.51 -/
def readdLine : BillCalcSrc.Line :=
  { Quantity := ⟨3, 0⟩, Item := some ⟨"", some ⟨33335, 3⟩, []⟩, Breakdown := [], Sum := none,
    Discounts := [⟨none, some ⟨⟨10, 2⟩⟩, ⟨0, 0⟩⟩], Charges := [⟨none, none, ⟨50, 2⟩, none, none⟩], Taxes := [],
    Total := none, Substituted := [] }

example :
    readdLine.Substituted = [] ∧ readdLine.Item ≠ none ∧ (∀ d ∈ readdLine.Discounts, adjGuard 2 (toAdj d) = true) ∧
    (∀ d ∈ readdLine.Charges, adjGuard 2 d = true) ∧
    ((BillCalcSrc.calculateLine exactOps (fun _ => 2) readdLine "EUR" [] "currency").toOption.map
      (fun r => (r.Sum, r.Discounts.map (·.Amount), r.Charges.map (·.amount), r.Total))) =
      some (some ⟨10001, 2⟩, [⟨1000, 2⟩], [⟨50, 2⟩], some ⟨9051, 2⟩) := by
  decide +kernel

end Src

namespace ExpectCalc
open GoblVerif.Generated.Calc

theorem calls_calculate_as_modelled : calls_calculate =
    ["RegimeDef", "IsZero", "getIssueDate", "setIssueDate", "TodayIn", "TimeLocation", "getValueDate", "getIssueDate", "getCurrency", "Def", "getCurrency", "New", "setCurrency", "getCurrency", "getTotals", "new", "Zero", "Def", "reset", "getTax", "GetRoundingRule", "HasTags", "applyCustomerRates", "calculateComplements", "getComplements", "calculateOrgDocumentRefs", "getPreceding", "calculateLines", "getLines", "getExchangeRates", "calculateLineSum", "getLines", "calculateDiscounts", "getDiscounts", "calculateDiscountSum", "getDiscounts", "Subtract", "calculateCharges", "getCharges", "calculateChargeSum", "getCharges", "Add", "make", "getLines", "append", "getDiscounts", "append", "getCharges", "append", "getLines", "Prepare", "GetCountry", "GetTags", "len", "setTotals", "new", "getCurrency", "GetCountry", "GetTags", "Calculate", "Category", "PreciseAmount", "Subtract", "PreciseSum", "Add", "Add", "len", "getPaymentDetails", "calculateAdvances", "totalAdvance", "Subtract", "CalculateDues", "roundLines", "getLines", "roundDiscounts", "getDiscounts", "roundCharges", "getCharges", "round", "setTotals"] := rfl
theorem conds_calculate_as_modelled : conds_calculate =
    ["doc.getIssueDate().IsZero()", "date == nil", "doc.getCurrency() == currency.CodeEmpty || doc.getCurrency().Def() == nil", "r == nil", "t == nil", "tx := doc.getTax(); tx != nil", "tx.PricesInclude != \"\"", "tx.Rounding != \"\"", "rr == \"\"", "doc.HasTags(tax.TagCustomerRates)", "err := calculateComplements(doc.getComplements()); err != nil", "err := calculateOrgDocumentRefs(doc.getPreceding(), cur, rr); err != nil", "err := calculateLines(doc.getLines(), cur, doc.getExchangeRates(), rr); err != nil", "discounts := calculateDiscountSum(doc.getDiscounts(), cur); discounts != nil", "charges := calculateChargeSum(doc.getCharges(), cur); charges != nil", "l.Total != nil", "l.Total == nil", "err := l.Taxes.Prepare(r.GetCountry(), doc.GetTags(), *date); err != nil", "len(tls) == 0", "err := tc.Calculate(t.Taxes); err != nil", "ct != nil", "t.Rounding != nil", "len(t.Taxes.Categories) == 0", "pd := doc.getPaymentDetails(); pd != nil", "t.Advances = pd.totalAdvance(zero); t.Advances != nil"] := rfl
theorem stmts_calculate_as_modelled : stmts_calculate =
    ["r := doc.RegimeDef()", "date := doc.getValueDate()", "id := doc.getIssueDate()", "date = &id", "return validation.Errors{\"currency\": errors.New(\"missing\")}", "cur := doc.getCurrency()", "t := doc.getTotals()", "t = new(Totals)", "zero := cur.Def().Zero()", "tx := doc.getTax()", "pit = tx.PricesInclude", "rr = tx.Rounding", "rr = r.GetRoundingRule()", "err := calculateComplements(doc.getComplements())", "return validation.Errors{\"complements\": err}", "err := calculateOrgDocumentRefs(doc.getPreceding(), cur, rr)", "return err", "err := calculateLines(doc.getLines(), cur, doc.getExchangeRates(), rr)", "return validation.Errors{\"lines\": err}", "t.Sum = calculateLineSum(doc.getLines(), cur)", "t.Total = t.Sum", "discounts := calculateDiscountSum(doc.getDiscounts(), cur)", "t.Discount = discounts", "t.Total = t.Total.Subtract(*discounts)", "charges := calculateChargeSum(doc.getCharges(), cur)", "t.Charge = charges", "t.Total = t.Total.Add(*charges)", "tls := make([]tax.TaxableLine, 0)", "tls = append(tls, l)", "tls = append(tls, l)", "tls = append(tls, l)", "err := l.Taxes.Prepare(r.GetCountry(), doc.GetTags(), *date)", "return err", "return nil", "t.Taxes = new(tax.Total)", "tc := &tax.TotalCalculator{ Currency: doc.getCurrency(), Rounding: rr, Country: r.GetCountry(), Tags: doc.GetTags(), Date: *date, Lines: tls, Includes: pit, }", "err := tc.Calculate(t.Taxes)", "return err", "ct := t.Taxes.Category(pit)", "ti := ct.PreciseAmount()", "t.TaxIncluded = &ti", "t.Total = t.Total.Subtract(ti)", "t.Tax = t.Taxes.PreciseSum()", "t.TotalWithTax = t.Total.Add(t.Tax)", "t.Payable = t.TotalWithTax", "t.Payable = t.Payable.Add(*t.Rounding)", "t.Taxes = nil", "pd := doc.getPaymentDetails()", "t.Advances = pd.totalAdvance(zero)", "v := t.Payable.Subtract(*t.Advances)", "t.Due = &v", "return nil"] := rfl
theorem calls_calculateDiscounts_as_modelled : calls_calculateDiscounts =
    ["Zero", "Def", "len", "IsZero", "RescaleUp", "Exp", "ApplyRoundingRule", "Of", "ApplyRoundingRule"] := rfl
theorem conds_calculateDiscounts_as_modelled : conds_calculateDiscounts =
    ["len(lines) == 0", "l.Percent != nil && !l.Percent.IsZero()", "l.Base != nil"] := rfl
theorem stmts_calculateDiscounts_as_modelled : stmts_calculateDiscounts =
    ["zero := cur.Def().Zero()", "l.Index = i + 1", "base := sum", "base = l.Base.RescaleUp(zero.Exp() + linePrecisionExtra)", "base = tax.ApplyRoundingRule(rr, cur, base)", "l.Amount = l.Percent.Of(base)", "l.Amount = tax.ApplyRoundingRule(rr, cur, l.Amount)"] := rfl
theorem calls_calculateCharges_as_modelled : calls_calculateCharges =
    ["Zero", "Def", "len", "IsZero", "RescaleUp", "Exp", "ApplyRoundingRule", "Of", "ApplyRoundingRule"] := rfl
theorem conds_calculateCharges_as_modelled : conds_calculateCharges =
    ["len(lines) == 0", "l.Percent != nil && !l.Percent.IsZero()", "l.Base != nil"] := rfl
theorem stmts_calculateCharges_as_modelled : stmts_calculateCharges =
    ["zero := cur.Def().Zero()", "l.Index = i + 1", "base := sum", "base = l.Base.RescaleUp(zero.Exp() + linePrecisionExtra)", "base = tax.ApplyRoundingRule(rr, cur, base)", "l.Amount = l.Percent.Of(base)", "l.Amount = tax.ApplyRoundingRule(rr, cur, l.Amount)"] := rfl
theorem calls_calculateDiscountSum_as_modelled : calls_calculateDiscountSum =
    ["len", "Zero", "Def", "MatchPrecision", "Add"] := rfl
theorem conds_calculateDiscountSum_as_modelled : conds_calculateDiscountSum =
    ["len(discounts) == 0"] := rfl
theorem stmts_calculateDiscountSum_as_modelled : stmts_calculateDiscountSum =
    ["return nil", "total := cur.Def().Zero()", "total = total.MatchPrecision(l.Amount)", "total = total.Add(l.Amount)", "return &total"] := rfl
theorem calls_calculateChargeSum_as_modelled : calls_calculateChargeSum =
    ["len", "Zero", "Def", "MatchPrecision", "Add"] := rfl
theorem conds_calculateChargeSum_as_modelled : conds_calculateChargeSum =
    ["len(charges) == 0"] := rfl
theorem stmts_calculateChargeSum_as_modelled : stmts_calculateChargeSum =
    ["return nil", "total := cur.Def().Zero()", "total = total.MatchPrecision(l.Amount)", "total = total.Add(l.Amount)", "return &total"] := rfl
theorem calls_PaymentDetails_calculateAdvances_as_modelled : calls_PaymentDetails_calculateAdvances =
    ["CalculateFrom", "MatchPrecision"] := rfl
theorem conds_PaymentDetails_calculateAdvances_as_modelled : conds_PaymentDetails_calculateAdvances =
    [] := rfl
theorem stmts_PaymentDetails_calculateAdvances_as_modelled : stmts_PaymentDetails_calculateAdvances =
    ["a.Amount = a.Amount.MatchPrecision(zero)"] := rfl
theorem calls_PaymentDetails_totalAdvance_as_modelled : calls_PaymentDetails_totalAdvance =
    ["len", "MatchPrecision", "Add", "Rescale", "Exp"] := rfl
theorem conds_PaymentDetails_totalAdvance_as_modelled : conds_PaymentDetails_totalAdvance =
    ["p == nil || len(p.Advances) == 0"] := rfl
theorem stmts_PaymentDetails_totalAdvance_as_modelled : stmts_PaymentDetails_totalAdvance =
    ["return nil", "sum := zero", "sum = sum.MatchPrecision(a.Amount)", "sum = sum.Add(a.Amount)", "a.Amount = a.Amount.Rescale(zero.Exp())", "return &sum"] := rfl
theorem calls_Terms_CalculateDues_as_modelled : calls_Terms_CalculateDues =
    ["IsZero", "Of", "Rescale", "Exp"] := rfl
theorem conds_Terms_CalculateDues_as_modelled : conds_Terms_CalculateDues =
    ["t == nil", "dd.Percent != nil && !dd.Percent.IsZero()"] := rfl
theorem stmts_Terms_CalculateDues_as_modelled : stmts_Terms_CalculateDues =
    ["dd.Amount = dd.Percent.Of(sum)", "dd.Amount = dd.Amount.Rescale(zero.Exp())"] := rfl
theorem calls_Advance_CalculateFrom_as_modelled : calls_Advance_CalculateFrom =
    ["Of"] := rfl
theorem conds_Advance_CalculateFrom_as_modelled : conds_Advance_CalculateFrom =
    ["a.Percent != nil"] := rfl
theorem stmts_Advance_CalculateFrom_as_modelled : stmts_Advance_CalculateFrom =
    ["a.Amount = a.Percent.Of(totalWithTax)"] := rfl
theorem calls_CategoryTotal_PreciseAmount_as_modelled : calls_CategoryTotal_PreciseAmount =
    ["IsZero"] := rfl
theorem conds_CategoryTotal_PreciseAmount_as_modelled : conds_CategoryTotal_PreciseAmount =
    ["!ct.amount.IsZero()"] := rfl
theorem stmts_CategoryTotal_PreciseAmount_as_modelled : stmts_CategoryTotal_PreciseAmount =
    ["return ct.amount", "return ct.Amount"] := rfl
theorem calls_Total_PreciseSum_as_modelled : calls_Total_PreciseSum =
    ["IsZero"] := rfl
theorem conds_Total_PreciseSum_as_modelled : conds_Total_PreciseSum =
    ["!t.sum.IsZero()"] := rfl
theorem stmts_Total_PreciseSum_as_modelled : stmts_Total_PreciseSum =
    ["return t.sum", "return t.Sum"] := rfl
theorem calls_Total_round_as_modelled : calls_Total_round =
    ["Rescale", "Exp", "Rescale", "Exp", "Rescale", "Exp", "Rescale", "Exp", "Rescale", "Exp", "Rescale", "Exp"] := rfl
theorem conds_Total_round_as_modelled : conds_Total_round =
    ["rt.Surcharge != nil", "ct.Surcharge != nil"] := rfl
theorem stmts_Total_round_as_modelled : stmts_Total_round =
    ["rt.Amount = rt.Amount.Rescale(zero.Exp())", "rt.Base = rt.Base.Rescale(zero.Exp())", "rt.Surcharge.Amount = rt.Surcharge.Amount.Rescale(zero.Exp())", "ct.amount = ct.Amount", "ct.Amount = ct.Amount.Rescale(zero.Exp())", "*ct.Surcharge = ct.Surcharge.Rescale(zero.Exp())", "t.sum = t.Sum", "t.Sum = t.Sum.Rescale(zero.Exp())"] := rfl
theorem calls_Totals_round_as_modelled : calls_Totals_round =
    ["Exp", "Rescale", "Rescale", "Rescale", "Rescale", "Rescale", "Rescale", "Rescale", "Rescale", "Rescale", "Rescale"] := rfl
theorem conds_Totals_round_as_modelled : conds_Totals_round =
    ["t.Discount != nil", "t.Charge != nil", "t.TaxIncluded != nil", "t.Advances != nil", "t.Due != nil"] := rfl
theorem stmts_Totals_round_as_modelled : stmts_Totals_round =
    ["e := zero.Exp()", "t.Sum = t.Sum.Rescale(e)", "*t.Discount = t.Discount.Rescale(e)", "*t.Charge = t.Charge.Rescale(e)", "*t.TaxIncluded = t.TaxIncluded.Rescale(e)", "t.Total = t.Total.Rescale(e)", "t.Tax = t.Tax.Rescale(e)", "t.TotalWithTax = t.TotalWithTax.Rescale(e)", "t.Payable = t.Payable.Rescale(e)", "*t.Advances = t.Advances.Rescale(e)", "*t.Due = t.Due.Rescale(e)"] := rfl

end ExpectCalc

end GoblVerif.Props.C03
