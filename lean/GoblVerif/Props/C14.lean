/-
  C14 — no input crashes the library; failures are structured errors.   **PARTIAL**

  C14 is mostly a search (harness/props/c14): panics live in ~100 k lines of
  Go (regime/addon normalisers and validators, the validation engine, JSON and
  YAML decoders) that no model in this project covers.  What is proved here is
  small and only about pieces that ARE modelled:

  * the two loop shapes over slices of pointers (`eachDeref`, `eachGuarded`):
      -- full statement (FALSE for the unchanged code, see `null_row_panics`):
      --   theorem never_panics : ∀ rows, (eachDeref site f rows).isPanic = false
      `never_panics_partial`  holds under the decidable guard `NoNullRows`
      `null_row_panics`       the counter-example class: a null row ⇒ panic at that site
      `guarded_never_panics`  the repaired loop shape never panics, for every input
  * the stamp loop of bill.validatePrecedingData with nil option stamps
      `stamp_loop_never_panics_partial`, `stamp_loop_nil_panics`
  * the modelled dispatcher and correction logic are total functions into
    explicit outcomes: `bulk_step_total`, `correct_total` (no third outcome)
  * `wrapError_documented`   every error that goes through gobl.wrapError carries a documented key
  * the error the command line prints (`cliPresent` = cli.WrapError, what cmd/gobl
    `printError` encodes since /repo 585d2c1, cac3c9e):
      `cli_error_structured`        whatever error ends the program, the printed object has a code,
                                    a key / message / fields, and no undocumented key
      `cli_usage_error_shape`       an unknown command or flag, an unreadable file: code 400, the text as message
      `cli_encoding_failure_shape`  a result that cannot be encoded: code 422, key `marshal`, the text as message
      `cli_error_code`, `cli_lib_error_keeps_key`, `cli_present_idem`, `cli_members_allowed`, `cli_never_bare`
  * three places where the input controls a pointer (Model/PanicsEnvelope.lean: every pointer an
    `Option`, the function as it is now and as it was at /repo 87b8cf5):
      `verifySignature_never_panics`   FULL: absent header, null entries in the envelope's own stamps /
                                       links, null entries in the header a signature signs, any keys:
                                       always one of the four verdicts
      `verifySignature_head_nil`, `verifySignature_own_null`, `verifySignature_payload_null`,
      `verifySignature_ok_sound`, `verifySignature_agrees_with_old`, `contains_never_panics`
      `old_head_nil_panics`, `old_payload_null_panics`, `old_own_null_panics`   the three guards are
                                       necessary (kernel-checked counter-examples on the old function)
      `sign_never_panics` (FULL), `sign_nil_key`, `old_sign_nil_key_panics`, `sign_agrees_with_old`
      `calcRefs_ok_iff` (FULL characterisation), `calcRefs_never_panics`, `calcRefs_order_irrelevant`,
      `old_calcRefs_unknown_currency_panics`, `calcRefs_on_the_counterexamples`
  * `Expect.*`                over the keys regenerated from errors.go / internal/cli/errors.go, and
                              the guards above over `Generated/PanicGuardFacts.lean`

  Every panic the harness finds on the unchanged tree is a listed known
  finding identified by call site (entry stage, innermost gobl function).
-/
import GoblVerif.Model.Panics
import GoblVerif.Model.PanicsEnvelope
import GoblVerif.Model.Bulk
import GoblVerif.Generated.ErrorFacts
import GoblVerif.Generated.PanicGuardFacts

namespace GoblVerif.Props.C14
open GoblVerif.Panics

variable {ρ : Type}

/-- the dereferencing loop does not panic when no row is null (PARTIAL: the
    guard is what the unchanged code lacks) -/
theorem never_panics_partial (site : String) (f : ρ → ρ) (rows : List (Option ρ))
    (h : NoNullRows rows) : (eachDeref site f rows).isPanic = false := by
  induction rows with
  | nil => rfl
  | cons r rows ih =>
    cases r with
    | none => exact absurd rfl (h none (by simp))
    | some x =>
      have ih' := ih (fun r hr => h r (by simp [hr]))
      simp only [eachDeref]
      cases hh : eachDeref site f rows with
      | ok rs => rfl
      | err k => rfl
      | panic s => rw [hh] at ih'; simp [Outcome.isPanic] at ih'

/-- the counter-example class: any null row makes the loop panic at its site -/
theorem null_row_panics (site : String) (f : ρ → ρ) (rows : List (Option ρ))
    (h : none ∈ rows) : eachDeref site f rows = .panic site := by
  induction rows with
  | nil => simp at h
  | cons r rows ih =>
    cases r with
    | none => rfl
    | some x =>
      have : none ∈ rows := by simpa using h
      simp [eachDeref, ih this]

/-- the guarded loop never panics, whatever the rows -/
theorem guarded_never_panics (f : ρ → ρ) (rows : List (Option ρ)) :
    ∃ rs, eachGuarded f rows = .ok rs ∧ rs.length = rows.length := by
  induction rows with
  | nil => exact ⟨[], rfl, rfl⟩
  | cons r rows ih =>
    obtain ⟨rs, h, hl⟩ := ih
    cases r with
    | none => exact ⟨none :: rs, by simp [eachGuarded, h], by simp [hl]⟩
    | some x => exact ⟨some (f x) :: rs, by simp [eachGuarded, h], by simp [hl]⟩

open GoblVerif.Correct in
private theorem findStamp_no_nil (site k : String) (have_ : List (Option Stamp))
    (h : ∀ s ∈ have_, s ≠ none) : (findStamp site k have_).isPanic = false := by
  induction have_ with
  | nil => rfl
  | cons s rest ih =>
    cases s with
    | none => exact absurd rfl (h none (by simp))
    | some x =>
      simp only [findStamp]
      split
      · rfl
      · exact ih (fun s hs => h s (by simp [hs]))

open GoblVerif.Correct in
/-- the stamp loop does not panic when no option stamp is nil (PARTIAL) -/
theorem stamp_loop_never_panics_partial (site : String) (have_ : List (Option Stamp)) (ks : List String)
    (h : ∀ s ∈ have_, s ≠ none) : (collectStampsNil site have_ ks).isPanic = false := by
  induction ks with
  | nil => rfl
  | cons k ks ih =>
    simp only [collectStampsNil]
    have hf := findStamp_no_nil site k have_ h
    cases hh : findStamp site k have_ with
    | panic s => rw [hh] at hf; simp [Outcome.isPanic] at hf
    | err e => rfl
    | ok o =>
      cases o with
      | none => rfl
      | some s =>
        simp only
        cases hc : collectStampsNil site have_ ks with
        | ok rest => rfl
        | err e => rfl
        | panic s' => rw [hc] at ih; simp [Outcome.isPanic] at ih

open GoblVerif.Correct in
/-- counter-example: `"stamps":[null]` with a required stamp panics -/
theorem stamp_loop_nil_panics (site k : String) (ks : List String) (rest : List (Option Stamp)) :
    collectStampsNil site (none :: rest) (k :: ks) = .panic site := by
  simp [collectStampsNil, findStamp]

/-- the modelled dispatcher: a step is either enabled (a state) or not (none);
    there is no third outcome — the model has no crash state -/
theorem bulk_step_total {α β : Type} (c : Bulk.Cfg α β) (s : Bulk.State α β) (l : Bulk.Label) :
    (∃ s', Bulk.step c s l = some s') ∨ Bulk.step c s l = none := by
  cases h : Bulk.step c s l with
  | none => exact Or.inr rfl
  | some s' => exact Or.inl ⟨s', rfl⟩

/-- the modelled correction: every input gives a document or one of the seven refusals -/
theorem correct_total {κ : Type} (calcF : Correct.Invoice κ → Option (Correct.Invoice κ)) (cd : Correct.CorrectionDef)
    (o : Correct.Options) (today : String) (inv : Correct.Invoice κ) :
    (∃ r, inv.correct calcF cd o today = .ok r) ∨ (∃ e, inv.correct calcF cd o today = .error e) := by
  cases h : inv.correct calcF cd o today with
  | ok r => exact Or.inl ⟨r, rfl⟩
  | error e => exact Or.inr ⟨e, rfl⟩

/-- every error that goes through `wrapError` carries a documented key,
    provided already-keyed errors do (they are made by `NewError` only) -/
theorem wrapError_documented (e : ErrKind)
    (h : ∀ k, e = .keyed k → k ∈ GoblVerif.Generated.Errors.documentedKeys) :
    wrapError e ∈ GoblVerif.Generated.Errors.documentedKeys := by
  cases e with
  | keyed k => exact h k rfl
  | unknownSchema => decide
  | validationErrors => decide
  | other => decide

/-! ## the error the command line prints -/

open GoblVerif.Spec.C14 GoblVerif.Generated.Errors

/-- whatever error ends the program, what is printed is structured: a code,
    at least one of key / message / fields, and a key that is documented if
    there is one (formerly `{}` for usage errors and the raw
    `json.MarshalerError` struct for an encoding failure: known findings
    `c14.clierr:empty:usage`, `c14.clierr:empty`) -/
theorem cli_error_structured (e : CliErrIn) (h : e.WellFormed documentedKeys) :
    structured documentedKeys (cliPresent e).shown = true := by
  cases e with
  | structured e' => exact h
  | lib k f m =>
    have hk : k ∈ documentedKeys := h
    have hne : k ≠ "" := by
      intro h0; subst h0; revert hk; decide
    simp [cliPresent, cliWrapError, CliError.shown, structured, statusBadRequest, hne, hk]
  | encoding t =>
    have ht : t ≠ "" := h
    simp [cliPresent, cliWrapError, CliError.shown, structured, statusUnprocessableEntity, marshalKey]
    decide
  | plain t =>
    have ht : t ≠ "" := h
    simp [cliPresent, cliWrapError, CliError.shown, structured, statusBadRequest, ht]

/-- a refusal of the request itself (unknown command or flag, unreadable
    input or key file) is a bad request that carries the text of the error -/
theorem cli_usage_error_shape (t : String) (h : t ≠ "") :
    usageShape (cliPresent (.plain t)).shown = true ∧ (cliPresent (.plain t)).message = t ∧
      (cliPresent (.plain t)).key = "" := by
  simp [cliPresent, cliWrapError, CliError.shown, usageShape, statusBadRequest, h]

/-- a result that cannot be encoded is reported under the library's key for
    that, with code 422 and the text of the encoder's error -/
theorem cli_encoding_failure_shape (t : String) (h : t ≠ "") :
    encodingShape (cliPresent (.encoding t)).shown = true ∧ (cliPresent (.encoding t)).message = t ∧
      (cliPresent (.encoding t)).key ∈ documentedKeys := by
  refine ⟨?_, rfl, ?_⟩
  · simp [cliPresent, cliWrapError, CliError.shown, encodingShape, statusUnprocessableEntity, marshalKey, h]
  · simp [cliPresent, cliWrapError, marshalKey]; decide

/-- the code of an error that was not structured already is 422 exactly for
    an encoding failure and 400 otherwise -/
theorem cli_error_code (e : CliErrIn) (h : ∀ e', e ≠ .structured e') :
    ((∃ t, e = .encoding t) → (cliPresent e).code = 422) ∧
    ((∀ t, e ≠ .encoding t) → (cliPresent e).code = 400) := by
  cases e with
  | structured e' => exact absurd rfl (h e')
  | lib k f m => simp [cliPresent, cliWrapError, statusBadRequest]
  | encoding t => simp [cliPresent, cliWrapError, statusUnprocessableEntity]
  | plain t => simp [cliPresent, cliWrapError, statusBadRequest]

/-- an error of the library that reaches `main` unwrapped keeps key, fields and message -/
theorem cli_lib_error_keeps_key (k : String) (f : Bool) (m : String) :
    cliPresent (.lib k f m) = ⟨400, k, f, m⟩ := rfl

/-- presenting what was presented changes nothing (`errors.As` finds the `*cli.Error`) -/
theorem cli_present_idem (e : CliErrIn) : cliPresent (.structured (cliPresent e)) = cliPresent e := rfl

/-- the printed object has a `code` and only members of the `cli.Error` struct -/
theorem cli_members_allowed (e : CliErrIn) :
    "code" ∈ (cliPresent e).members ∧ ∀ m ∈ (cliPresent e).members, m ∈ cliErrorJSONMembers := by
  constructor
  · simp [CliError.members]
  · intro m hm
    simp only [CliError.members, List.mem_append, List.mem_singleton] at hm
    have : cliErrorJSONMembers = ["code", "key", "fields", "message"] := by decide
    rw [this]
    rcases hm with ((rfl | hm) | hm) | hm
    · simp
    · split at hm <;> simp_all
    · split at hm <;> simp_all
    · split at hm <;> simp_all

/-- the printed object is never the bare `{"code":…}` (nor `{}`): something says what went wrong -/
theorem cli_never_bare (e : CliErrIn) (h : e.WellFormed documentedKeys) :
    (cliPresent e).members ≠ ["code"] := by
  have hs := cli_error_structured e h
  generalize cliPresent e = p at hs
  obtain ⟨c, k, f, m⟩ := p
  simp only [structured, CliError.shown, Bool.and_eq_true, Bool.or_eq_true, bne_iff_ne, ne_eq] at hs
  obtain ⟨⟨_, hany⟩, _⟩ := hs
  simp only [CliError.members]
  rcases hany with (hk | hm) | hf
  · simp [hk]
  · simp [hm]
  · simp [hf]

/-! ## verifySignature, Sign, calculateOrgDocumentRefs: no dereference is left -/

private theorem entryIn_no_panic (t : Entry) (own : List (Option Entry)) (h : own.any (·.isNone) = false) :
    (entryIn (some t) own).isPanic = false := by
  induction own with
  | nil => rfl
  | cons s rest ih =>
    cases s with
    | none => simp at h
    | some x =>
      simp only [List.any_cons, Option.isNone_some, Bool.false_or] at h
      simp only [entryIn]
      split
      · rfl
      · exact ih h

private theorem allIn_no_panic (own l : List (Option Entry)) (ho : own.any (·.isNone) = false)
    (hl : l.any (·.isNone) = false) : (allIn own l).isPanic = false := by
  induction l with
  | nil => rfl
  | cons s2 rest ih =>
    cases s2 with
    | none => simp at hl
    | some t =>
      simp only [List.any_cons, Option.isNone_some, Bool.false_or] at hl
      have h1 := entryIn_no_panic t own ho
      have h2 := ih hl
      simp only [allIn]
      cases he : entryIn (some t) own with
      | ok b =>
        cases b with
        | true => exact h2
        | false => rfl
      | err k => rfl
      | panic s => rw [he] at h1; simp [Outcome.isPanic] at h1

private theorem entryIn_not_err (s2 : Option Entry) (o : List (Option Entry)) (k : String) : entryIn s2 o ≠ .err k := by
  induction o with
  | nil => intro h; simp [entryIn] at h
  | cons s rest ih =>
    cases s with
    | none => simp [entryIn]
    | some x =>
      cases s2 with
      | none => simp [entryIn]
      | some t =>
        simp only [entryIn]
        by_cases hx : x = t
        · simp [hx]
        · simpa [hx] using ih

private theorem allIn_not_err (own l : List (Option Entry)) (k : String) : allIn own l ≠ .err k := by
  induction l with
  | nil => intro h; simp [allIn] at h
  | cons s2 rest ih =>
    simp only [allIn]
    cases he : entryIn s2 own with
    | ok b =>
      cases b with
      | true => exact ih
      | false => simp
    | err k' => exact absurd he (entryIn_not_err s2 own k')
    | panic s => simp

private theorem allIn_bool (own l : List (Option Entry)) (ho : own.any (·.isNone) = false)
    (hl : l.any (·.isNone) = false) : ∃ b, allIn own l = .ok b := by
  have h1 := allIn_no_panic own l ho hl
  cases h : allIn own l with
  | ok b => exact ⟨b, rfl⟩
  | err k => exact absurd h (allIn_not_err own l k)
  | panic s => rw [h] at h1; simp [Outcome.isPanic] at h1

/-- `Contains` between two headers without null entries: a truth value, nothing else -/
theorem contains_never_panics (rest : Bool) (h p : PHeader) (hh : hasNullEntries h = false) (hp : hasNullEntries p = false) :
    ∃ b, containsP rest h p = .ok b := by
  simp only [hasNullEntries, Bool.or_eq_false_iff] at hh hp
  obtain ⟨b1, e1⟩ := allIn_bool h.stamps p.stamps hh.1 hp.1
  obtain ⟨b2, e2⟩ := allIn_bool h.links p.links hh.2 hp.2
  unfold containsP
  cases hc : (h.uuid != p.uuid || digMismatch h p) with
  | true => exact ⟨false, by simp⟩
  | false =>
    rw [e1, e2]
    cases b1 <;> cases b2 <;> simp [bothIn]

private theorem afterPayload_verdict (rest : Bool) (h p : PHeader) (hh : hasNullEntries h = false) :
    ∃ v, afterPayload rest h p = .ok v := by
  unfold afterPayload
  cases hp : hasNullEntries p with
  | true => simp
  | false =>
    obtain ⟨b, hb⟩ := contains_never_panics rest h p hh hp
    cases b <;> simp [hb, verdictOf]

/-- FULL: whatever the header of the envelope (absent, with null entries),
    whatever the signature signs (nothing readable, a header with null
    entries) and whatever keys are given, `verifySignature` answers with one
    of its four verdicts: it neither panics nor fails otherwise -/
theorem verifySignature_never_panics (rest : Bool) (head : Option PHeader) (sig : PSig) :
    ∃ v, verifySignatureP rest head sig = .ok v := by
  cases head with
  | none => exact ⟨_, rfl⟩
  | some h =>
    cases hh : hasNullEntries h with
    | true => exact ⟨.mismatch, by simp [verifySignatureP, hh]⟩
    | false =>
      cases hp : sig.payload with
      | none =>
        cases he : sig.verifiesUnder.isEmpty <;> cases ha : sig.verifiesUnder.any id <;>
          simp [verifySignatureP, hh, hp, he, ha]
      | some p =>
        obtain ⟨v, hv⟩ := afterPayload_verdict rest h p hh
        cases he : sig.verifiesUnder.isEmpty <;> cases ha : sig.verifiesUnder.any id <;>
          simp [verifySignatureP, hh, hp, he, ha, hv]

/-- an envelope without a header: "header mismatch" -/
theorem verifySignature_head_nil (rest : Bool) (sig : PSig) :
    verifySignatureP rest none sig = .ok .mismatch := rfl

/-- null entries in the envelope's own stamps or links: "header mismatch" -/
theorem verifySignature_own_null (rest : Bool) (h : PHeader) (sig : PSig) (hh : hasNullEntries h = true) :
    verifySignatureP rest (some h) sig = .ok .mismatch := by
  simp [verifySignatureP, hh]

/-- null entries in the header a signature signs: "invalid signature payload",
    without keys and under a key that verifies alike -/
theorem verifySignature_payload_null (rest : Bool) (h p : PHeader) (ks : List Bool)
    (hh : hasNullEntries h = false) (hp : hasNullEntries p = true) (hk : ks.isEmpty = true ∨ ks.any id = true) :
    verifySignatureP rest (some h) ⟨some p, ks⟩ = .ok .badPayload := by
  unfold verifySignatureP
  simp only [hh, Bool.false_eq_true, if_false]
  rcases hk with hk | hk
  · simp [hk, afterPayload, hp]
  · cases he : ks.isEmpty with
    | true => simp [afterPayload, hp]
    | false => simp [hk, afterPayload, hp]

/-- the verdict is `ok` only if the header is there, nothing is null and the signed header is contained -/
theorem verifySignature_ok_sound (rest : Bool) (head : Option PHeader) (sig : PSig)
    (h : verifySignatureP rest head sig = .ok .ok) :
    ∃ hd p, head = some hd ∧ sig.payload = some p ∧ hasNullEntries hd = false ∧ hasNullEntries p = false ∧
      containsP rest hd p = .ok true := by
  cases head with
  | none => simp [verifySignatureP] at h
  | some hd =>
    cases hh : hasNullEntries hd with
    | true => simp [verifySignatureP, hh] at h
    | false =>
      have key : ∀ p, afterPayload rest hd p = .ok .ok → hasNullEntries p = false ∧ containsP rest hd p = .ok true := by
        intro p hp
        unfold afterPayload at hp
        cases hn : hasNullEntries p with
        | true => simp [hn] at hp
        | false =>
          simp only [hn, Bool.false_eq_true, if_false] at hp
          refine ⟨rfl, ?_⟩
          cases hc : containsP rest hd p with
          | ok b => cases b <;> simp_all [verdictOf]
          | err k => simp [hc, verdictOf] at hp
          | panic s => simp [hc, verdictOf] at hp
      cases hp : sig.payload with
      | none =>
        cases he : sig.verifiesUnder.isEmpty <;> cases ha : sig.verifiesUnder.any id <;>
          simp [verifySignatureP, hh, hp, he, ha] at h
      | some p =>
        have hap : afterPayload rest hd p = .ok .ok := by
          cases he : sig.verifiesUnder.isEmpty <;> cases ha : sig.verifiesUnder.any id <;>
            simp [verifySignatureP, hh, hp, he, ha] at h <;> exact h
        exact ⟨hd, p, rfl, rfl, hh, (key p hap).1, (key p hap).2⟩

/-- where nothing is null and the header is there, the guards change nothing:
    the function is the one of 87b8cf5 -/
theorem verifySignature_agrees_with_old (rest : Bool) (h : PHeader) (sig : PSig) (hh : hasNullEntries h = false)
    (hp : ∀ p, sig.payload = some p → hasNullEntries p = false) :
    verifySignatureP rest (some h) sig = verifySignatureOld rest (some h) sig := by
  unfold verifySignatureP verifySignatureOld
  simp only [hh, Bool.false_eq_true, if_false]
  cases hs : sig.payload with
  | none => rfl
  | some p => simp [afterPayload, hp p hs]

/-! ### the three guards are necessary: the function of 87b8cf5 panics (kernel-checked) -/

/-- `"head": null` with a signature present -/
theorem old_head_nil_panics (rest : Bool) (p : PHeader) :
    verifySignatureOld rest none ⟨some p, []⟩ = .panic containsSite := rfl

/-- the signed header holds `"stamps":[null]` and the envelope's header has a stamp of its own -/
theorem old_payload_null_panics :
    verifySignatureOld true (some ⟨"u", none, [some ("prv", "1")], []⟩) ⟨some ⟨"u", none, [none], []⟩, []⟩ =
      .panic containsSite := by decide

/-- the envelope's own header holds `"links":[null]` and the signed header has a link -/
theorem old_own_null_panics :
    verifySignatureOld true (some ⟨"u", none, [], [none]⟩) ⟨some ⟨"u", none, [], [some ("k", "u")]⟩, [true]⟩ =
      .panic containsSite := by decide

/-- … and the present function answers those three inputs -/
theorem guarded_on_the_counterexamples :
    verifySignatureP true none ⟨some ⟨"u", none, [], []⟩, []⟩ = .ok .mismatch ∧
    verifySignatureP true (some ⟨"u", none, [some ("prv", "1")], []⟩) ⟨some ⟨"u", none, [none], []⟩, []⟩ = .ok .badPayload ∧
    verifySignatureP true (some ⟨"u", none, [], [none]⟩) ⟨some ⟨"u", none, [], [some ("k", "u")]⟩, [true]⟩ = .ok .mismatch := by
  decide

/-! ### Sign -/

/-- FULL: `Sign` with any key (nil, without key material, invalid, valid) and
    with or without a header gives a result or a keyed error -/
theorem sign_never_panics (headPresent : Bool) (k : PKey) (validAfter : Bool) :
    signP headPresent k validAfter = .ok () ∨
      ∃ e, signP headPresent k validAfter = .err e ∧ (e = "validation" ∨ e = "signature") := by
  cases headPresent <;> cases k <;> cases validAfter <;> simp [signP, signWith, keyValid]
  all_goals (rename_i v; cases v <;> simp)

/-- a missing key is the error `signature` -/
theorem sign_nil_key (validAfter : Bool) : signP true .nil validAfter = .err "signature" ∧
    signP true .empty validAfter = .err "signature" := ⟨rfl, rfl⟩

/-- the function of 87b8cf5 panics on it -/
theorem old_sign_nil_key_panics (validAfter : Bool) : signOld true .nil validAfter = .panic keyValidateSite := rfl

/-- for every key that is not nil nothing changed -/
theorem sign_agrees_with_old (hp : Bool) (k : PKey) (va : Bool) (hk : k ≠ .nil) : signP hp k va = signOld hp k va := by
  cases k with
  | nil => exact absurd rfl hk
  | empty => rfl
  | key v => rfl

/-! ### calculateOrgDocumentRefs -/

/-- FULL characterisation: the references are calculated iff every one that is
    there has a known currency of its own or, lacking one, the document's is known;
    otherwise the outcome is the error; there is no third outcome -/
theorem calcRefs_ok_iff (known : String → Bool) (docCur : String) (refs : List (Option PRef)) :
    (calcRefs known docCur refs = .ok () ↔ ∀ r, some r ∈ refs → known (r.effective docCur) = true) ∧
    (calcRefs known docCur refs = .ok () ∨ calcRefs known docCur refs = .err "calculation") := by
  induction refs with
  | nil => simp [calcRefs]
  | cons x rest ih =>
    cases x with
    | none => simpa [calcRefs] using ih
    | some r =>
      simp only [calcRefs]
      cases hk : known (r.effective docCur) with
      | false =>
        simp only [Bool.false_eq_true, if_false]
        refine ⟨⟨fun h => by simp at h, fun h => ?_⟩, Or.inr trivial⟩
        have := h r (by simp)
        simp [hk] at this
      | true =>
        simp only [if_true]
        refine ⟨⟨fun h q hq => ?_, fun h => ?_⟩, ih.2⟩
        · simp only [List.mem_cons, Option.some.injEq] at hq
          rcases hq with rfl | hq
          · exact hk
          · exact ih.1.mp h q hq
        · exact ih.1.mpr (fun q hq => h q (by simp [hq]))

/-- hence: never a panic -/
theorem calcRefs_never_panics (known : String → Bool) (docCur : String) (refs : List (Option PRef)) :
    (calcRefs known docCur refs).isPanic = false := by
  rcases (calcRefs_ok_iff known docCur refs).2 with h | h <;> simp [h, Outcome.isPanic]

/-- the outcome does not depend on the order of the references (the currency
    of one reference no longer stays in force for the next: /repo 17c3526) -/
theorem calcRefs_order_irrelevant (known : String → Bool) (docCur : String) (a b : List (Option PRef))
    (h : ∀ x, x ∈ a ↔ x ∈ b) : calcRefs known docCur a = calcRefs known docCur b := by
  have ha := calcRefs_ok_iff known docCur a
  have hb := calcRefs_ok_iff known docCur b
  by_cases hk : ∀ r, some r ∈ a → known (r.effective docCur) = true
  · rw [ha.1.mpr hk, hb.1.mpr (fun r hr => hk r ((h _).mpr hr))]
  · have na : calcRefs known docCur a ≠ .ok () := fun e => hk (ha.1.mp e)
    have nb : calcRefs known docCur b ≠ .ok () := fun e => hk (fun r hr => hb.1.mp e r ((h _).mp hr))
    rcases ha.2 with e | e
    · exact absurd e na
    · rcases hb.2 with e' | e'
      · exact absurd e' nb
      · rw [e, e']

/-- the function of 87b8cf5: an unknown currency on a reference that carries a
    tax summary panics — and so does a LATER reference without a currency of its own -/
theorem old_calcRefs_unknown_currency_panics (known : String → Bool) (hq : known "QQQ" = false) :
    calcRefsOld known "EUR" [some ⟨"QQQ", true⟩] = .panic zeroSite ∧
    calcRefsOld known "EUR" [some ⟨"QQQ", false⟩, some ⟨"", true⟩] = .panic zeroSite := by
  simp [calcRefsOld, hq]

/-- … where the present one returns the error, resp. calculates the second
    reference in the document's currency -/
theorem calcRefs_on_the_counterexamples (known : String → Bool) (hq : known "QQQ" = false) (he : known "EUR" = true) :
    calcRefs known "EUR" [some ⟨"QQQ", true⟩] = .err "calculation" ∧
    calcRefs known "EUR" [some ⟨"", true⟩, none] = .ok () := by
  simp [calcRefs, PRef.effective, hq, he]

/-! non-vacuity -/
example : hasNullEntries ⟨"u", some "d", [some ("a", "b")], []⟩ = false := by decide
example : verifySignatureP true (some ⟨"u", some "d", [some ("a", "b")], []⟩) ⟨some ⟨"u", some "d", [some ("a", "b")], []⟩, [false, true]⟩ = .ok .ok := by decide
example : verifySignatureP true (some ⟨"u", some "d", [], []⟩) ⟨some ⟨"u", some "d", [some ("a", "b")], []⟩, []⟩ = .ok .mismatch := by decide
example : verifySignatureP true (some ⟨"u", none, [], []⟩) ⟨none, [true]⟩ = .ok .noKey := by decide
example : ∃ known : String → Bool, known "QQQ" = false ∧ known "EUR" = true := ⟨fun s => s == "EUR", by decide, by decide⟩
example : signP true (.key true) true = .ok () := rfl
example : (PKey.key true) ≠ .nil := by decide

/-! ## non-vacuity -/
example : (CliErrIn.plain "unknown command \"nonsense\" for \"gobl\"").WellFormed documentedKeys := by
  simp [CliErrIn.WellFormed]
example : cliPresent (.plain "open /no/such/file: no such file or directory") =
    ⟨400, "", false, "open /no/such/file: no such file or directory"⟩ := rfl
example : (cliPresent (.plain "unknown flag: --no-such-flag")).members = ["code", "message"] := by decide
example : cliPresent (.encoding "json: error calling MarshalJSON for type *schema.Object: …") =
    ⟨422, "marshal", false, "json: error calling MarshalJSON for type *schema.Object: …"⟩ := rfl
example : (cliPresent (.encoding "json: unsupported type: func()")).members = ["code", "key", "message"] := by decide
example : (CliErrIn.structured ⟨422, "no-document", false, ""⟩).WellFormed documentedKeys := by
  simp [CliErrIn.WellFormed]; decide
example : (CliErrIn.lib "signature" false "no key").WellFormed documentedKeys := by
  simp [CliErrIn.WellFormed]; decide
example : NoNullRows [some 1, some 2] := by intro r hr; simp at hr; rcases hr with rfl | rfl <;> simp
example : eachDeref "bill.(*Line).Normalize" (· + 1) [some 1, none, some 3] = .panic "bill.(*Line).Normalize" := by decide
example : eachGuarded (· + 1) [some 1, none, some 3] = .ok [some 2, none, some 4] := by decide
example : eachDeref "s" (· + 1) [some 1, some 2] = .ok [some 2, some 3] := by decide

/-! ## expectations over facts regenerated from /repo/errors.go, internal/cli/errors.go -/
namespace Expect
open GoblVerif.Generated.Errors

theorem documented_keys : documentedKeys =
    ["no-document", "validation", "calculation", "marshal", "unmarshal", "signature", "digest", "internal", "unknown-schema"] := by decide
theorem keys_distinct : documentedKeys.Nodup := by decide
/-- wrapError returns nil, the error itself (already keyed), or one of three keyed errors -/
theorem wrapError_shape : wrapErrorReturns =
    ["nil", "err", "ErrUnknownSchema", "ErrValidation.WithCause", "ErrInternal.WithCause"] := by decide
theorem wrapError_targets_documented :
    ["ErrUnknownSchema", "ErrValidation", "ErrInternal"].all (fun v => (errorVars.lookup v).any (documentedKeys.contains ·)) = true := by decide
/-- the model's three keys are those variables' keys -/
theorem model_keys : errorVars.lookup "ErrUnknownSchema" = some (wrapError .unknownSchema) ∧
    errorVars.lookup "ErrValidation" = some (wrapError .validationErrors) ∧
    errorVars.lookup "ErrInternal" = some (wrapError .other) := by decide
theorem error_json_members : errorJSONMembers = ["key", "fields", "message"] := by decide
theorem cli_error_json_members : cliErrorJSONMembers = ["code", "key", "fields", "message"] := by decide
/-- the specification's members are those of the struct -/
theorem spec_members : GoblVerif.Spec.C14.allowedMembers = cliErrorJSONMembers := by decide

/-! ### the error the command line prints: cmd/gobl main, cli.WrapError, cli.wrapError -/

/-- `main` prints the error and exits with status 1 -/
theorem main_as_modelled : calls_main_main = ["run", "printError", "Exit"] ∧
    mainExitCodes = [toString cliExitCode] := by decide
/-- what is handed to the JSON encoder is `cli.WrapError(err)`, never the error
    value itself (the former `enc.Encode(err)` printed `{}` or the exported
    fields of whatever struct the error was) -/
theorem main_prints_wrapped_error : calls_main_printError = ["writeError"] ∧
    mainErrorEncodes = ["cli.WrapError(err)"] ∧
    conds_main_writeError = ["err = enc.Encode(cli.WrapError(err)); err != nil"] := by decide
theorem cli_status_codes : cliStatusCodes.lookup "StatusBadRequest" = some statusBadRequest ∧
    cliStatusCodes.lookup "StatusUnprocessableEntity" = some statusUnprocessableEntity := by decide
/-- cli.WrapError: nil, the `*cli.Error` found by errors.As, an encoding failure
    under ErrMarshal with 422, anything else through wrapError with 400 -/
theorem cli_WrapError_as_modelled :
    conds_cli_WrapError = ["err == nil", "errors.As(err, &e)", "isEncodingError(err)"] ∧
    stmts_cli_WrapError = ["return nil", "return e",
      "return wrapError(StatusUnprocessableEntity, gobl.ErrMarshal.WithCause(err))",
      "return wrapError(StatusBadRequest, err)"] ∧
    types_cli_WrapError = ["var *Error"] := by decide
/-- the three errors with which encoding/json refuses a value -/
theorem cli_encoding_errors_as_modelled :
    types_cli_isEncodingError = ["var *json.MarshalerError", "var *json.UnsupportedTypeError", "var *json.UnsupportedValueError"] ∧
    stmts_cli_isEncodingError = ["return errors.As(err, &me) || errors.As(err, &te) || errors.As(err, &ve)"] := by decide
/-- cli.wrapError: a `*cli.Error` as it is; a `*gobl.Error` gives key, fields, message; anything else its text -/
theorem cli_wrapError_as_modelled :
    conds_cli_wrapError = ["e, ok := err.(*Error); ok"] ∧
    types_cli_wrapError = ["case *gobl.Error", "default"] ∧
    stmts_cli_wrapError = ["e, ok := err.(*Error)", "return e", "out := new(Error)", "out.Code = code",
      "e := err.(type)", "out.Key = e.Key()", "out.Fields = e.Fields()", "out.Message = e.Message()",
      "out.Message = e.Error()", "return out"] := by decide
/-- the key of the model's encoding failure is ErrMarshal's -/
theorem model_marshal_key : errorVars.lookup "ErrMarshal" = some marshalKey := by decide

open GoblVerif.Generated
/-! ### the guards of Model/PanicsEnvelope.lean, pinned to the source -/

/-- `verifySignature`: the header guard (absent, or null entries of its own)
    comes first; each `Contains` is preceded by the null check of the signed header -/
theorem verifySignature_guards_as_modelled :
    PanicGuards.conds_Envelope_verifySignature =
      ["e.Head == nil || schema.CheckNullElements(e.Head) != nil", "len(keys) == 0",
       "err := sig.UnsafePayload(h); err != nil", "err := schema.CheckNullElements(h); err != nil",
       "!e.Head.Contains(h)", "err := sig.VerifyPayload(k, h); err != nil",
       "err := schema.CheckNullElements(h); err != nil", "e.Head.Contains(h)"] ∧
    PanicGuards.stmts_Envelope_verifySignature =
      ["return errors.New(\"header mismatch\")", "h := new(head.Header)", "err := sig.UnsafePayload(h)",
       "return errors.New(\"invalid signature payload\")", "err := schema.CheckNullElements(h)",
       "return errors.New(\"invalid signature payload\")", "return errors.New(\"header mismatch\")", "return nil",
       "h := new(head.Header)", "err := sig.VerifyPayload(k, h)", "err := schema.CheckNullElements(h)",
       "return errors.New(\"invalid signature payload\")", "return nil", "return errors.New(\"header mismatch\")",
       "return errors.New(\"no key match found\")"] := by decide

/-- `Sign`: header required, then `key.Sign` = `NewSignature(k, …)`, whose
    `key.Validate()` answers a nil key and a key without key material with "key not set" -/
theorem sign_guards_as_modelled :
    PanicGuards.conds_Envelope_Sign = ["e.Head == nil", "err != nil", "err := e.Validate(); err != nil"] ∧
    PanicGuards.stmts_Envelope_Sign.take 3 =
      ["return ErrValidation.WithReason(\"header required\")", "sig, err := key.Sign(e.Head)", "return ErrSignature.WithCause(err)"] ∧
    PanicGuards.stmts_PrivateKey_Sign = ["return NewSignature(k, data)"] ∧
    PanicGuards.conds_PrivateKey_Validate =
      ["k == nil || k.jwk == nil", "k.ID() == \"\"", "!k.jwk.Valid()", "k.jwk.IsPublic()"] ∧
    PanicGuards.stmts_PrivateKey_Validate.head? = some "return errors.New(\"key not set\")" := by decide

/-- `Signature.Verify`: a nil signature, a nil key and a key without key material are a key mismatch -/
theorem signature_verify_guard_as_modelled :
    PanicGuards.conds_Signature_Verify = ["s == nil || s.jws == nil || key == nil || key.jwk == nil", "err != nil"] ∧
    PanicGuards.stmts_Signature_Verify.head? = some "return nil, ErrKeyMismatch" := by decide

/-- the header's validation refuses null entries in stamps and links before it looks for duplicates -/
theorem header_refuses_null_entries :
    PanicGuards.header_rules_Stamps.drop 1 = ["validation.By(noNullEntries)", "DetectDuplicateStamps"] ∧
    PanicGuards.header_rules_Links = ["validation.By(noNullEntries)", "DetectDuplicateLinks"] ∧
    PanicGuards.conds_head_noNullEntries = ["v == nil", "v == nil"] ∧
    PanicGuards.types_head_noNullEntries = ["case []*Stamp", "case []*Link"] := by decide

/-- `cli.Verify`: the envelope is validated (null entries of its own header are
    refused there) before any signature is looked at, and the signed header is
    checked for null entries before `Contains` -/
theorem cli_verify_guards_as_modelled :
    PanicGuards.conds_cli_Verify =
      ["err != nil", "err := jsonyaml.Unmarshal(body, env); err != nil", "err := env.Validate(); err != nil",
       "key == nil", "!env.Signed()", "err := sig.VerifyPayload(key, h); err != nil",
       "err := schema.CheckNullElements(h); err != nil", "!env.Head.Contains(h)"] := by decide

/-- `calculateOrgDocumentRefs`: nil entries skipped, the document's currency
    unless the reference has its own, an unknown one is an error -/
theorem calculateOrgDocumentRefs_as_modelled :
    PanicGuards.conds_calculateOrgDocumentRefs = ["dr == nil", "dr.Currency != currency.CodeEmpty", "c.Def() == nil"] ∧
    PanicGuards.stmts_calculateOrgDocumentRefs.take 2 = ["c := cur", "c = dr.Currency"] ∧
    PanicGuards.stmts_calculateOrgDocumentRefs.getLast? = some "return nil" ∧
    PanicGuards.calls_calculateOrgDocumentRefs = ["Def", "Itoa", "Errorf", "Calculate"] := by decide

end Expect

end GoblVerif.Props.C14
