/-
  C14 — no input crashes the library; failures are structured errors.   **PARTIAL**

  C14 is mostly a search (harness/props/c14): panics live in ~100 k lines of
  Go (regime/addon normalisers and validators, the validation engine, JSON and
  YAML decoders) that no model in this project covers.  What is proved here is
  small and only about pieces that ARE modelled:

  * the two loop shapes over slices of pointers (`eachDeref`, `eachGuarded`):
      -- full statement (FALSE for the unchanged code, see `null_row_panics`):
      --   theorem never_panics : ∀ rows, (eachDeref site f rows).isPanic = false
      `never_panics_partial`  holds under the decidable guard `NoNullRows`
      `null_row_panics`       the counter-example class: a null row ⇒ panic at that site
      `guarded_never_panics`  the repaired loop shape never panics, for every input
  * the stamp loop of bill.validatePrecedingData with nil option stamps
      `stamp_loop_never_panics_partial`, `stamp_loop_nil_panics`
  * the modelled dispatcher and correction logic are total functions into
    explicit outcomes: `bulk_step_total`, `correct_total` (no third outcome)
  * `wrapError_documented`   every error that goes through gobl.wrapError carries a documented key
  * the error the command line prints (`cliPresent` = cli.WrapError, what cmd/gobl
    `printError` encodes since /repo 585d2c1, cac3c9e):
      `cli_error_structured`        whatever error ends the program, the printed object has a code,
                                    a key / message / fields, and no undocumented key
      `cli_usage_error_shape`       an unknown command or flag, an unreadable file: code 400, the text as message
      `cli_encoding_failure_shape`  a result that cannot be encoded: code 422, key `marshal`, the text as message
      `cli_error_code`, `cli_lib_error_keeps_key`, `cli_present_idem`, `cli_members_allowed`, `cli_never_bare`
  * `Expect.*`                over the keys regenerated from errors.go / internal/cli/errors.go

  Every panic the harness finds on the unchanged tree is a listed known
  finding identified by call site (entry stage, innermost gobl function).
-/
import GoblVerif.Model.Panics
import GoblVerif.Model.Bulk
import GoblVerif.Generated.ErrorFacts

namespace GoblVerif.Props.C14
open GoblVerif.Panics

variable {ρ : Type}

/-- the dereferencing loop does not panic when no row is null (PARTIAL: the
    guard is what the unchanged code lacks) -/
theorem never_panics_partial (site : String) (f : ρ → ρ) (rows : List (Option ρ))
    (h : NoNullRows rows) : (eachDeref site f rows).isPanic = false := by
  induction rows with
  | nil => rfl
  | cons r rows ih =>
    cases r with
    | none => exact absurd rfl (h none (by simp))
    | some x =>
      have ih' := ih (fun r hr => h r (by simp [hr]))
      simp only [eachDeref]
      cases hh : eachDeref site f rows with
      | ok rs => rfl
      | err k => rfl
      | panic s => rw [hh] at ih'; simp [Outcome.isPanic] at ih'

/-- the counter-example class: any null row makes the loop panic at its site -/
theorem null_row_panics (site : String) (f : ρ → ρ) (rows : List (Option ρ))
    (h : none ∈ rows) : eachDeref site f rows = .panic site := by
  induction rows with
  | nil => simp at h
  | cons r rows ih =>
    cases r with
    | none => rfl
    | some x =>
      have : none ∈ rows := by simpa using h
      simp [eachDeref, ih this]

/-- the guarded loop never panics, whatever the rows -/
theorem guarded_never_panics (f : ρ → ρ) (rows : List (Option ρ)) :
    ∃ rs, eachGuarded f rows = .ok rs ∧ rs.length = rows.length := by
  induction rows with
  | nil => exact ⟨[], rfl, rfl⟩
  | cons r rows ih =>
    obtain ⟨rs, h, hl⟩ := ih
    cases r with
    | none => exact ⟨none :: rs, by simp [eachGuarded, h], by simp [hl]⟩
    | some x => exact ⟨some (f x) :: rs, by simp [eachGuarded, h], by simp [hl]⟩

open GoblVerif.Correct in
private theorem findStamp_no_nil (site k : String) (have_ : List (Option Stamp))
    (h : ∀ s ∈ have_, s ≠ none) : (findStamp site k have_).isPanic = false := by
  induction have_ with
  | nil => rfl
  | cons s rest ih =>
    cases s with
    | none => exact absurd rfl (h none (by simp))
    | some x =>
      simp only [findStamp]
      split
      · rfl
      · exact ih (fun s hs => h s (by simp [hs]))

open GoblVerif.Correct in
/-- the stamp loop does not panic when no option stamp is nil (PARTIAL) -/
theorem stamp_loop_never_panics_partial (site : String) (have_ : List (Option Stamp)) (ks : List String)
    (h : ∀ s ∈ have_, s ≠ none) : (collectStampsNil site have_ ks).isPanic = false := by
  induction ks with
  | nil => rfl
  | cons k ks ih =>
    simp only [collectStampsNil]
    have hf := findStamp_no_nil site k have_ h
    cases hh : findStamp site k have_ with
    | panic s => rw [hh] at hf; simp [Outcome.isPanic] at hf
    | err e => rfl
    | ok o =>
      cases o with
      | none => rfl
      | some s =>
        simp only
        cases hc : collectStampsNil site have_ ks with
        | ok rest => rfl
        | err e => rfl
        | panic s' => rw [hc] at ih; simp [Outcome.isPanic] at ih

open GoblVerif.Correct in
/-- counter-example: `"stamps":[null]` with a required stamp panics -/
theorem stamp_loop_nil_panics (site k : String) (ks : List String) (rest : List (Option Stamp)) :
    collectStampsNil site (none :: rest) (k :: ks) = .panic site := by
  simp [collectStampsNil, findStamp]

/-- the modelled dispatcher: a step is either enabled (a state) or not (none);
    there is no third outcome — the model has no crash state -/
theorem bulk_step_total {α β : Type} (c : Bulk.Cfg α β) (s : Bulk.State α β) (l : Bulk.Label) :
    (∃ s', Bulk.step c s l = some s') ∨ Bulk.step c s l = none := by
  cases h : Bulk.step c s l with
  | none => exact Or.inr rfl
  | some s' => exact Or.inl ⟨s', rfl⟩

/-- the modelled correction: every input gives a document or one of the seven refusals -/
theorem correct_total {κ : Type} (calcF : Correct.Invoice κ → Option (Correct.Invoice κ)) (cd : Correct.CorrectionDef)
    (o : Correct.Options) (today : String) (inv : Correct.Invoice κ) :
    (∃ r, inv.correct calcF cd o today = .ok r) ∨ (∃ e, inv.correct calcF cd o today = .error e) := by
  cases h : inv.correct calcF cd o today with
  | ok r => exact Or.inl ⟨r, rfl⟩
  | error e => exact Or.inr ⟨e, rfl⟩

/-- every error that goes through `wrapError` carries a documented key,
    provided already-keyed errors do (they are made by `NewError` only) -/
theorem wrapError_documented (e : ErrKind)
    (h : ∀ k, e = .keyed k → k ∈ GoblVerif.Generated.Errors.documentedKeys) :
    wrapError e ∈ GoblVerif.Generated.Errors.documentedKeys := by
  cases e with
  | keyed k => exact h k rfl
  | unknownSchema => decide
  | validationErrors => decide
  | other => decide

/-! ## the error the command line prints -/

open GoblVerif.Spec.C14 GoblVerif.Generated.Errors

/-- whatever error ends the program, what is printed is structured: a code,
    at least one of key / message / fields, and a key that is documented if
    there is one (formerly `{}` for usage errors and the raw
    `json.MarshalerError` struct for an encoding failure: known findings
    `c14.clierr:empty:usage`, `c14.clierr:empty`) -/
theorem cli_error_structured (e : CliErrIn) (h : e.WellFormed documentedKeys) :
    structured documentedKeys (cliPresent e).shown = true := by
  cases e with
  | structured e' => exact h
  | lib k f m =>
    have hk : k ∈ documentedKeys := h
    have hne : k ≠ "" := by
      intro h0; subst h0; revert hk; decide
    simp [cliPresent, cliWrapError, CliError.shown, structured, statusBadRequest, hne, hk]
  | encoding t =>
    have ht : t ≠ "" := h
    simp [cliPresent, cliWrapError, CliError.shown, structured, statusUnprocessableEntity, marshalKey]
    decide
  | plain t =>
    have ht : t ≠ "" := h
    simp [cliPresent, cliWrapError, CliError.shown, structured, statusBadRequest, ht]

/-- a refusal of the request itself (unknown command or flag, unreadable
    input or key file) is a bad request that carries the text of the error -/
theorem cli_usage_error_shape (t : String) (h : t ≠ "") :
    usageShape (cliPresent (.plain t)).shown = true ∧ (cliPresent (.plain t)).message = t ∧
      (cliPresent (.plain t)).key = "" := by
  simp [cliPresent, cliWrapError, CliError.shown, usageShape, statusBadRequest, h]

/-- a result that cannot be encoded is reported under the library's key for
    that, with code 422 and the text of the encoder's error -/
theorem cli_encoding_failure_shape (t : String) (h : t ≠ "") :
    encodingShape (cliPresent (.encoding t)).shown = true ∧ (cliPresent (.encoding t)).message = t ∧
      (cliPresent (.encoding t)).key ∈ documentedKeys := by
  refine ⟨?_, rfl, ?_⟩
  · simp [cliPresent, cliWrapError, CliError.shown, encodingShape, statusUnprocessableEntity, marshalKey, h]
  · simp [cliPresent, cliWrapError, marshalKey]; decide

/-- the code of an error that was not structured already is 422 exactly for
    an encoding failure and 400 otherwise -/
theorem cli_error_code (e : CliErrIn) (h : ∀ e', e ≠ .structured e') :
    ((∃ t, e = .encoding t) → (cliPresent e).code = 422) ∧
    ((∀ t, e ≠ .encoding t) → (cliPresent e).code = 400) := by
  cases e with
  | structured e' => exact absurd rfl (h e')
  | lib k f m => simp [cliPresent, cliWrapError, statusBadRequest]
  | encoding t => simp [cliPresent, cliWrapError, statusUnprocessableEntity]
  | plain t => simp [cliPresent, cliWrapError, statusBadRequest]

/-- an error of the library that reaches `main` unwrapped keeps key, fields and message -/
theorem cli_lib_error_keeps_key (k : String) (f : Bool) (m : String) :
    cliPresent (.lib k f m) = ⟨400, k, f, m⟩ := rfl

/-- presenting what was presented changes nothing (`errors.As` finds the `*cli.Error`) -/
theorem cli_present_idem (e : CliErrIn) : cliPresent (.structured (cliPresent e)) = cliPresent e := rfl

/-- the printed object has a `code` and only members of the `cli.Error` struct -/
theorem cli_members_allowed (e : CliErrIn) :
    "code" ∈ (cliPresent e).members ∧ ∀ m ∈ (cliPresent e).members, m ∈ cliErrorJSONMembers := by
  constructor
  · simp [CliError.members]
  · intro m hm
    simp only [CliError.members, List.mem_append, List.mem_singleton] at hm
    have : cliErrorJSONMembers = ["code", "key", "fields", "message"] := by decide
    rw [this]
    rcases hm with ((rfl | hm) | hm) | hm
    · simp
    · split at hm <;> simp_all
    · split at hm <;> simp_all
    · split at hm <;> simp_all

/-- the printed object is never the bare `{"code":…}` (nor `{}`): something says what went wrong -/
theorem cli_never_bare (e : CliErrIn) (h : e.WellFormed documentedKeys) :
    (cliPresent e).members ≠ ["code"] := by
  have hs := cli_error_structured e h
  generalize cliPresent e = p at hs
  obtain ⟨c, k, f, m⟩ := p
  simp only [structured, CliError.shown, Bool.and_eq_true, Bool.or_eq_true, bne_iff_ne, ne_eq] at hs
  obtain ⟨⟨_, hany⟩, _⟩ := hs
  simp only [CliError.members]
  rcases hany with (hk | hm) | hf
  · simp [hk]
  · simp [hm]
  · simp [hf]

/-! ## non-vacuity -/
example : (CliErrIn.plain "unknown command \"nonsense\" for \"gobl\"").WellFormed documentedKeys := by
  simp [CliErrIn.WellFormed]
example : cliPresent (.plain "open /no/such/file: no such file or directory") =
    ⟨400, "", false, "open /no/such/file: no such file or directory"⟩ := rfl
example : (cliPresent (.plain "unknown flag: --no-such-flag")).members = ["code", "message"] := by decide
example : cliPresent (.encoding "json: error calling MarshalJSON for type *schema.Object: …") =
    ⟨422, "marshal", false, "json: error calling MarshalJSON for type *schema.Object: …"⟩ := rfl
example : (cliPresent (.encoding "json: unsupported type: func()")).members = ["code", "key", "message"] := by decide
example : (CliErrIn.structured ⟨422, "no-document", false, ""⟩).WellFormed documentedKeys := by
  simp [CliErrIn.WellFormed]; decide
example : (CliErrIn.lib "signature" false "no key").WellFormed documentedKeys := by
  simp [CliErrIn.WellFormed]; decide
example : NoNullRows [some 1, some 2] := by intro r hr; simp at hr; rcases hr with rfl | rfl <;> simp
example : eachDeref "bill.(*Line).Normalize" (· + 1) [some 1, none, some 3] = .panic "bill.(*Line).Normalize" := by decide
example : eachGuarded (· + 1) [some 1, none, some 3] = .ok [some 2, none, some 4] := by decide
example : eachDeref "s" (· + 1) [some 1, some 2] = .ok [some 2, some 3] := by decide

/-! ## expectations over facts regenerated from /repo/errors.go, internal/cli/errors.go -/
namespace Expect
open GoblVerif.Generated.Errors

theorem documented_keys : documentedKeys =
    ["no-document", "validation", "calculation", "marshal", "unmarshal", "signature", "digest", "internal", "unknown-schema"] := by decide
theorem keys_distinct : documentedKeys.Nodup := by decide
/-- wrapError returns nil, the error itself (already keyed), or one of three keyed errors -/
theorem wrapError_shape : wrapErrorReturns =
    ["nil", "err", "ErrUnknownSchema", "ErrValidation.WithCause", "ErrInternal.WithCause"] := by decide
theorem wrapError_targets_documented :
    ["ErrUnknownSchema", "ErrValidation", "ErrInternal"].all (fun v => (errorVars.lookup v).any (documentedKeys.contains ·)) = true := by decide
/-- the model's three keys are those variables' keys -/
theorem model_keys : errorVars.lookup "ErrUnknownSchema" = some (wrapError .unknownSchema) ∧
    errorVars.lookup "ErrValidation" = some (wrapError .validationErrors) ∧
    errorVars.lookup "ErrInternal" = some (wrapError .other) := by decide
theorem error_json_members : errorJSONMembers = ["key", "fields", "message"] := by decide
theorem cli_error_json_members : cliErrorJSONMembers = ["code", "key", "fields", "message"] := by decide
/-- the specification's members are those of the struct -/
theorem spec_members : GoblVerif.Spec.C14.allowedMembers = cliErrorJSONMembers := by decide

/-! ### the error the command line prints: cmd/gobl main, cli.WrapError, cli.wrapError -/

/-- `main` prints the error and exits with status 1 -/
theorem main_as_modelled : calls_main_main = ["run", "printError", "Exit"] ∧
    mainExitCodes = [toString cliExitCode] := by decide
/-- what is handed to the JSON encoder is `cli.WrapError(err)`, never the error
    value itself (the former `enc.Encode(err)` printed `{}` or the exported
    fields of whatever struct the error was) -/
theorem main_prints_wrapped_error : calls_main_printError = ["writeError"] ∧
    mainErrorEncodes = ["cli.WrapError(err)"] ∧
    conds_main_writeError = ["err = enc.Encode(cli.WrapError(err)); err != nil"] := by decide
theorem cli_status_codes : cliStatusCodes.lookup "StatusBadRequest" = some statusBadRequest ∧
    cliStatusCodes.lookup "StatusUnprocessableEntity" = some statusUnprocessableEntity := by decide
/-- cli.WrapError: nil, the `*cli.Error` found by errors.As, an encoding failure
    under ErrMarshal with 422, anything else through wrapError with 400 -/
theorem cli_WrapError_as_modelled :
    conds_cli_WrapError = ["err == nil", "errors.As(err, &e)", "isEncodingError(err)"] ∧
    stmts_cli_WrapError = ["return nil", "return e",
      "return wrapError(StatusUnprocessableEntity, gobl.ErrMarshal.WithCause(err))",
      "return wrapError(StatusBadRequest, err)"] ∧
    types_cli_WrapError = ["var *Error"] := by decide
/-- the three errors with which encoding/json refuses a value -/
theorem cli_encoding_errors_as_modelled :
    types_cli_isEncodingError = ["var *json.MarshalerError", "var *json.UnsupportedTypeError", "var *json.UnsupportedValueError"] ∧
    stmts_cli_isEncodingError = ["return errors.As(err, &me) || errors.As(err, &te) || errors.As(err, &ve)"] := by decide
/-- cli.wrapError: a `*cli.Error` as it is; a `*gobl.Error` gives key, fields, message; anything else its text -/
theorem cli_wrapError_as_modelled :
    conds_cli_wrapError = ["e, ok := err.(*Error); ok"] ∧
    types_cli_wrapError = ["case *gobl.Error", "default"] ∧
    stmts_cli_wrapError = ["e, ok := err.(*Error)", "return e", "out := new(Error)", "out.Code = code",
      "e := err.(type)", "out.Key = e.Key()", "out.Fields = e.Fields()", "out.Message = e.Message()",
      "out.Message = e.Error()", "return out"] := by decide
/-- the key of the model's encoding failure is ErrMarshal's -/
theorem model_marshal_key : errorVars.lookup "ErrMarshal" = some marshalKey := by decide

end Expect

end GoblVerif.Props.C14
