/-
  C14 — no input crashes the library; failures are structured errors.   **PARTIAL**

  C14 is mostly a search (harness/props/c14): panics live in ~100 k lines of
  Go (regime/addon normalisers and validators, the validation engine, JSON and
  YAML decoders) that no model in this project covers.  What is proved here is
  small and only about pieces that ARE modelled:

  * the two loop shapes over slices of pointers (`eachDeref`, `eachGuarded`):
      -- full statement (FALSE for the unchanged code, see `null_row_panics`):
      --   theorem never_panics : ∀ rows, (eachDeref site f rows).isPanic = false
      `never_panics_partial`  holds under the decidable guard `NoNullRows`
      `null_row_panics`       the counter-example class: a null row ⇒ panic at that site
      `guarded_never_panics`  the repaired loop shape never panics, for every input
  * the stamp loop of bill.validatePrecedingData with nil option stamps
      `stamp_loop_never_panics_partial`, `stamp_loop_nil_panics`
  * the modelled dispatcher and correction logic are total functions into
    explicit outcomes: `bulk_step_total`, `correct_total` (no third outcome)
  * `wrapError_documented`   every error that goes through gobl.wrapError carries a documented key
  * `Expect.*`                over the keys regenerated from errors.go / internal/cli/errors.go

  Every panic the harness finds on the unchanged tree is a listed known
  finding identified by call site (entry stage, innermost gobl function).
-/
import GoblVerif.Model.Panics
import GoblVerif.Model.Bulk
import GoblVerif.Generated.ErrorFacts

namespace GoblVerif.Props.C14
open GoblVerif.Panics

variable {ρ : Type}

/-- the dereferencing loop does not panic when no row is null (PARTIAL: the
    guard is what the unchanged code lacks) -/
theorem never_panics_partial (site : String) (f : ρ → ρ) (rows : List (Option ρ))
    (h : NoNullRows rows) : (eachDeref site f rows).isPanic = false := by
  induction rows with
  | nil => rfl
  | cons r rows ih =>
    cases r with
    | none => exact absurd rfl (h none (by simp))
    | some x =>
      have ih' := ih (fun r hr => h r (by simp [hr]))
      simp only [eachDeref]
      cases hh : eachDeref site f rows with
      | ok rs => rfl
      | err k => rfl
      | panic s => rw [hh] at ih'; simp [Outcome.isPanic] at ih'

/-- the counter-example class: any null row makes the loop panic at its site -/
theorem null_row_panics (site : String) (f : ρ → ρ) (rows : List (Option ρ))
    (h : none ∈ rows) : eachDeref site f rows = .panic site := by
  induction rows with
  | nil => simp at h
  | cons r rows ih =>
    cases r with
    | none => rfl
    | some x =>
      have : none ∈ rows := by simpa using h
      simp [eachDeref, ih this]

/-- the guarded loop never panics, whatever the rows -/
theorem guarded_never_panics (f : ρ → ρ) (rows : List (Option ρ)) :
    ∃ rs, eachGuarded f rows = .ok rs ∧ rs.length = rows.length := by
  induction rows with
  | nil => exact ⟨[], rfl, rfl⟩
  | cons r rows ih =>
    obtain ⟨rs, h, hl⟩ := ih
    cases r with
    | none => exact ⟨none :: rs, by simp [eachGuarded, h], by simp [hl]⟩
    | some x => exact ⟨some (f x) :: rs, by simp [eachGuarded, h], by simp [hl]⟩

open GoblVerif.Correct in
private theorem findStamp_no_nil (site k : String) (have_ : List (Option Stamp))
    (h : ∀ s ∈ have_, s ≠ none) : (findStamp site k have_).isPanic = false := by
  induction have_ with
  | nil => rfl
  | cons s rest ih =>
    cases s with
    | none => exact absurd rfl (h none (by simp))
    | some x =>
      simp only [findStamp]
      split
      · rfl
      · exact ih (fun s hs => h s (by simp [hs]))

open GoblVerif.Correct in
/-- the stamp loop does not panic when no option stamp is nil (PARTIAL) -/
theorem stamp_loop_never_panics_partial (site : String) (have_ : List (Option Stamp)) (ks : List String)
    (h : ∀ s ∈ have_, s ≠ none) : (collectStampsNil site have_ ks).isPanic = false := by
  induction ks with
  | nil => rfl
  | cons k ks ih =>
    simp only [collectStampsNil]
    have hf := findStamp_no_nil site k have_ h
    cases hh : findStamp site k have_ with
    | panic s => rw [hh] at hf; simp [Outcome.isPanic] at hf
    | err e => rfl
    | ok o =>
      cases o with
      | none => rfl
      | some s =>
        simp only
        cases hc : collectStampsNil site have_ ks with
        | ok rest => rfl
        | err e => rfl
        | panic s' => rw [hc] at ih; simp [Outcome.isPanic] at ih

open GoblVerif.Correct in
/-- counter-example: `"stamps":[null]` with a required stamp panics -/
theorem stamp_loop_nil_panics (site k : String) (ks : List String) (rest : List (Option Stamp)) :
    collectStampsNil site (none :: rest) (k :: ks) = .panic site := by
  simp [collectStampsNil, findStamp]

/-- the modelled dispatcher: a step is either enabled (a state) or not (none);
    there is no third outcome — the model has no crash state -/
theorem bulk_step_total {α β : Type} (c : Bulk.Cfg α β) (s : Bulk.State α β) (l : Bulk.Label) :
    (∃ s', Bulk.step c s l = some s') ∨ Bulk.step c s l = none := by
  cases h : Bulk.step c s l with
  | none => exact Or.inr rfl
  | some s' => exact Or.inl ⟨s', rfl⟩

/-- the modelled correction: every input gives a document or one of the seven refusals -/
theorem correct_total {κ : Type} (calcF : Correct.Invoice κ → Option (Correct.Invoice κ)) (cd : Correct.CorrectionDef)
    (o : Correct.Options) (today : String) (inv : Correct.Invoice κ) :
    (∃ r, inv.correct calcF cd o today = .ok r) ∨ (∃ e, inv.correct calcF cd o today = .error e) := by
  cases h : inv.correct calcF cd o today with
  | ok r => exact Or.inl ⟨r, rfl⟩
  | error e => exact Or.inr ⟨e, rfl⟩

/-- every error that goes through `wrapError` carries a documented key,
    provided already-keyed errors do (they are made by `NewError` only) -/
theorem wrapError_documented (e : ErrKind)
    (h : ∀ k, e = .keyed k → k ∈ GoblVerif.Generated.Errors.documentedKeys) :
    wrapError e ∈ GoblVerif.Generated.Errors.documentedKeys := by
  cases e with
  | keyed k => exact h k rfl
  | unknownSchema => decide
  | validationErrors => decide
  | other => decide

/-! ## non-vacuity -/
example : NoNullRows [some 1, some 2] := by intro r hr; simp at hr; rcases hr with rfl | rfl <;> simp
example : eachDeref "bill.(*Line).Normalize" (· + 1) [some 1, none, some 3] = .panic "bill.(*Line).Normalize" := by decide
example : eachGuarded (· + 1) [some 1, none, some 3] = .ok [some 2, none, some 4] := by decide
example : eachDeref "s" (· + 1) [some 1, some 2] = .ok [some 2, some 3] := by decide

/-! ## expectations over facts regenerated from /repo/errors.go, internal/cli/errors.go -/
namespace Expect
open GoblVerif.Generated.Errors

theorem documented_keys : documentedKeys =
    ["no-document", "validation", "calculation", "marshal", "unmarshal", "signature", "digest", "internal", "unknown-schema"] := by decide
theorem keys_distinct : documentedKeys.Nodup := by decide
/-- wrapError returns nil, the error itself (already keyed), or one of three keyed errors -/
theorem wrapError_shape : wrapErrorReturns =
    ["nil", "err", "ErrUnknownSchema", "ErrValidation.WithCause", "ErrInternal.WithCause"] := by decide
theorem wrapError_targets_documented :
    ["ErrUnknownSchema", "ErrValidation", "ErrInternal"].all (fun v => (errorVars.lookup v).any (documentedKeys.contains ·)) = true := by decide
/-- the model's three keys are those variables' keys -/
theorem model_keys : errorVars.lookup "ErrUnknownSchema" = some (wrapError .unknownSchema) ∧
    errorVars.lookup "ErrValidation" = some (wrapError .validationErrors) ∧
    errorVars.lookup "ErrInternal" = some (wrapError .other) := by decide
theorem error_json_members : errorJSONMembers = ["key", "fields", "message"] := by decide
theorem cli_error_json_members : cliErrorJSONMembers = ["code", "key", "fields", "message"] := by decide

end Expect

end GoblVerif.Props.C14
