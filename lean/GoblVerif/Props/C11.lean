/-
  C11 — Published JSON Schemas are valid and every valid document conforms.

  What is a theorem here (kernel-checked on every run, over the data
  regenerated from /repo/data/schemas and from the Go registries):

  * `keywords_well_typed`, `refs_resolve`, `patterns_compile`, `formats_known`,
    `ids_consistent` — every one of the published files is a well-formed draft
    2020-12 schema in the sense of Model/Schema.lean (the old
    `"enum": "advice"` of bill/delivery.json makes `keywords_well_typed` false);
  * leaf inclusions for **all** values: the text `Amount.String` /
    `Percentage.String` produce matches the published pattern, the text of a
    valid date passes the `date` format check, the text of a UUID passes the
    `uuid` format check, a normalised code matches the `cbc.Code` pattern
    exactly when it neither starts nor ends with a separator;
  * enumeration inclusions: every currency, country, regime, addon, document
    type and unit the Go validators accept is listed exactly once in the
    schema's `oneOf` of constants;
  * validator inclusions (models of the repaired Go validators in
    Model/SchemaLeaves.lean): whatever `Extensions.Validate` accepts as a value
    is a text the schema of cbc/code accepts; a stored tax summary that
    `(*tax.Total).Validate` accepts has, in every category, a conforming code
    and a non-empty `rates` array whose keys, countries and extension values
    conform; a tax identity code Go accepts — by the generic rule, or by the
    Mexican one for the country exempt from it — is inside the pattern and
    the length limits published for `tax.Identity.code`;
  * `Expect`: the keyword / pattern / format / type inventories of the files are
    pinned, so that a keyword the model does not evaluate cannot appear
    silently; the Go validators' patterns and length limits for keys and codes
    equal the published ones.

  What is **not** a theorem (see MANIFEST, DESIGN §6 C11):
  "every document GOBL calculates and validates conforms" needs a model of all
  of GOBL's validation; it is checked by running the consumer model
  (`Schema.validate`) and python jsonschema on every example, recalculated
  document and valid mutant (harness/props/c11).
-/
import GoblVerif.Spec.C11
import GoblVerif.Model.SchemaLeaves
import GoblVerif.Proofs.SchemaLeaves
import GoblVerif.Proofs.SchemaValidators
import GoblVerif.Generated.Schemas
import GoblVerif.Generated.SchemaFacts

namespace GoblVerif.Props.C11
open GoblVerif GoblVerif.Schema GoblVerif.Regex GoblVerif.Regex.RE GoblVerif.Leaves GoblVerif.Spec.C11
open GoblVerif.Generated.Schemas GoblVerif.Generated.SchemaFacts

set_option maxRecDepth 100000

/-! ## (1) the published files are well-formed schemas -/

/-- each keyword's value has the JSON type the 2020-12 meta-schema requires, in every file -/
theorem keywords_well_typed : (files.all fun f => wellTyped walkFuel f.2) = true := by decide +kernel

/-- every `$ref` of every file resolves to an existing `$id` / `$defs` target; `$id` only at file roots -/
theorem refs_resolve : (files.all fun f => refsOk (registryOf files) f.2) = true := by decide +kernel

/-- every `pattern` and every `patternProperties` key parses in Model/Regex -/
theorem patterns_compile : (files.all fun f => patternsOk f.2) = true := by decide +kernel

/-- every `format` used is one the consumer model asserts -/
theorem formats_known : (files.all fun f => formatsOk f.2) = true := by decide +kernel

/-- `$id` = `https://gobl.org/draft-0/<path without .json>`, `$schema` is draft 2020-12, ids are distinct,
    and every file is registered under its `$id` -/
theorem ids_consistent : idsOk files = true ∧ (registryOf files).length = files.length := by decide +kernel

/-- the four checks together, as the specification states them -/
theorem schema_set_ok : SchemaSetOk files = true := by
  unfold SchemaSetOk
  simp only [List.all_eq_true, Bool.and_eq_true]
  intro f hf
  exact ⟨⟨⟨List.all_eq_true.mp keywords_well_typed f hf, List.all_eq_true.mp refs_resolve f hf⟩,
    List.all_eq_true.mp patterns_compile f hf⟩, List.all_eq_true.mp formats_known f hf⟩

/-- a `$ref` the check accepted does resolve (what `refsOk` means for the root of a file) -/
theorem refsOk_root_ref (reg : Registry) (kvs : List (NStr × JVal)) (r : NStr)
    (h : refsOk reg (.obj kvs) = true) (hr : (s%"$ref", JVal.str r) ∈ kvs) :
    (resolveRef reg (.obj kvs) r).isSome = true := by
  unfold refsOk walkFuel at h
  simp only [refsOkAt, Bool.and_eq_true, List.all_eq_true] at h
  have := h.1 _ hr
  simpa using this

example : (resolveRef (registryOf files) f_bill_invoice s%"https://gobl.org/draft-0/org/party").isSome = true := by
  decide +kernel

/-! ## (2a) leaf inclusions, for all values -/

def dashCls : RE := .cls ⟨[(45, 45)], false⟩
def dotCls : RE := .cls ⟨[(46, 46)], false⟩
def pctCls : RE := .cls ⟨[(37, 37)], false⟩

/-- what `^\-?[0-9]+(\.[0-9]+)?$` compiles to -/
def amountRE : RE := .cat (.cat (RE.opt dashCls) (RE.plus digitCls)) (RE.opt (.cat dotCls (RE.plus digitCls)))
/-- what `^\-?[0-9]+(\.[0-9]+)?%$` compiles to -/
def percentageRE : RE := .cat amountRE pctCls

theorem amount_text_in_language (a : Amount) (he : a.exp ≤ 1000) : Matches amountRE (amountCodes a) := by
  have hsign : ∀ (b : Bool), Matches (RE.opt dashCls) (if b then [45] else []) := by
    intro b; cases b
    · exact matches_opt_nil
    · exact matches_opt_some (single_matches 45)
  unfold amountCodes
  simp only
  split
  · -- no decimals
    have h1 := hsign (decide (a.value < 0))
    have h2 : Matches (RE.plus digitCls) (natDigits a.value.natAbs) :=
      digits_plus (natDigits_ne_nil _) (natDigits_digits _)
    have := Matches.cat (Matches.cat h1 h2) (matches_opt_nil (a := .cat dotCls (RE.plus digitCls)))
    simpa [amountRE, apply_ite] using this
  · split
    · omega
    · have h1 := hsign (decide (a.value < 0))
      have h2 : Matches (RE.plus digitCls) (natDigits (a.value.natAbs / 10 ^ a.exp)) :=
        digits_plus (natDigits_ne_nil _) (natDigits_digits _)
      have h3 : Matches (RE.plus digitCls) (padZero a.exp (natDigits (a.value.natAbs % 10 ^ a.exp))) :=
        digits_plus (padZero_ne_nil _ _ (natDigits_ne_nil _)) (padZero_digits _ _ (natDigits_digits _))
      have h4 := matches_opt_some (Matches.cat (single_matches 46) h3)
      have := Matches.cat (Matches.cat h1 h2) h4
      simpa [amountRE, dotCls, apply_ite, List.append_assoc] using this

/-- **Amount**: the text `Amount.String` produces (model `amountCodes`; exponents above 1000 print
    "NA" in Go and are excluded) matches the published pattern of num/amount. -/
theorem amount_text_matches (a : Amount) (he : a.exp ≤ 1000) : amountRE.matchL (amountCodes a) = true :=
  (matchL_iff _ _).mpr (amount_text_in_language a he)

example : amountCodes ⟨-12345, 2⟩ = NStr.toCodes s%"-123.45" ∧ amountRE.matchL (amountCodes ⟨-12345, 2⟩) = true := by decide
example : amountCodes ⟨5, 3⟩ = NStr.toCodes s%"0.005" ∧ amountCodes ⟨-7, 0⟩ = NStr.toCodes s%"-7" := by decide
/-- the excluded case really is outside the pattern -/
example : amountRE.matchL (amountCodes ⟨1, 1001⟩) = false := by decide

/-- **Percentage**: `Percentage.String` is the amount text followed by `%`. -/
theorem percentage_text_matches (p : Pct) (he : p.toAmount.exp ≤ 1000) :
    percentageRE.matchL (pctCodes p) = true := by
  rw [matchL_iff]
  exact Matches.cat (amount_text_in_language _ he) (single_matches 37)

example : percentageRE.matchL (amountCodes ⟨2100, 2⟩ ++ [37]) = true ∧ amountCodes ⟨2100, 2⟩ ++ [37] = NStr.toCodes s%"21.00%" := by
  decide

/-! ### dates -/

/-- **Date**: the text `%04d-%02d-%02d` of a date that exists (years 0…9999) passes the `date` format. -/
theorem date_text_is_date (y m d : Nat) (hy : y ≤ 9999) (hv : dateValid y m d = true) :
    isDateC (dateCodes y m d) = true := by
  have hm : m < 100 := by
    simp only [dateValid, Bool.and_eq_true, decide_eq_true_eq] at hv; omega
  have hd : d < 100 := by
    simp only [dateValid, Bool.and_eq_true, decide_eq_true_eq] at hv
    obtain ⟨_, h⟩ := hv
    split at h <;> (try split at h) <;> omega
  unfold dateCodes
  rw [pad4 y (by omega), pad2 m hm, pad2 d hd]
  simp only [List.cons_append, List.nil_append, isDateC, List.all_cons, List.all_nil, Bool.and_true,
    Bool.and_eq_true]
  have e1 : digitVal (48 + y / 1000) * 1000 + digitVal (48 + y / 100 % 10) * 100 + digitVal (48 + y / 10 % 10) * 10
      + digitVal (48 + y % 10) = y := by
    simp only [digitVal]; omega
  have e2 : digitVal (48 + m / 10) * 10 + digitVal (48 + m % 10) = m := by simp only [digitVal]; omega
  have e3 : digitVal (48 + d / 10) * 10 + digitVal (48 + d % 10) = d := by simp only [digitVal]; omega
  rw [e1, e2, e3]
  refine ⟨⟨?_, ?_, ?_, ?_, ?_, ?_, ?_, ?_⟩, ?_⟩
  all_goals first
    | (simp only [isDigit, Bool.and_eq_true, decide_eq_true_eq]; omega)
    | skip
  simpa [validYMD, dateValid, daysIn, isLeap, Bool.and_assoc] using hv

example : dateCodes 2024 2 29 = NStr.toCodes s%"2024-02-29" ∧ dateValid 2024 2 29 = true ∧
    isDateC (dateCodes 2024 2 29) = true ∧ dateValid 2023 2 29 = false := by decide

/-! ### UUIDs -/

/-- **UUID**: the canonical text of 16 bytes (what GOBL stores after parsing) passes the `uuid` format. -/
theorem uuid_text_is_uuid (bs : List Nat) (h : bs.length = 16) : isUuidC (uuidCodes bs) = true := by
  match bs, h with
  | [b0, b1, b2, b3, b4, b5, b6, b7, b8, b9, b10, b11, b12, b13, b14, b15], _ =>
    simp [uuidCodes, hexByte, isUuidC, allHexN]

example : uuidCodes [0, 1, 2, 3, 4, 5, 6, 7, 8, 9, 10, 11, 12, 13, 14, 255]
    = NStr.toCodes s%"00010203-0405-0607-0809-0a0b0c0d0eff" := by decide

/-! ### codes: cbc.NormalizeCode against the cbc.Code pattern

  The unconditional statement "a non-empty normalised code matches the pattern" is **false** for
  the code as it is (`NormalizeCode("abc-") = "abc-"`, see the example below): the result may begin
  or end with a separator other than a blank.  What holds for every input: the result consists
  of allowed characters, every separator in it is followed by an alphanumeric, and it matches
  the published pattern as soon as it begins and ends with an alphanumeric. -/

theorem normalizeCode_chars (s : List Nat) :
    ∀ c ∈ normalizeCode s, Leaves.isAlnum c = true ∨ isSep c = true := normalizeCode_allowed s

theorem normalizeCode_separators (s : List Nat) : sepOk (normalizeCode s) = true := normalizeCode_sepOk s

theorem normalizeCode_matches_partial (s : List Nat) (hne : normalizeCode s ≠ [])
    (hhead : ∀ y t, normalizeCode s = y :: t → Leaves.isAlnum y = true)
    (hlast : ∀ z, (normalizeCode s).getLast? = some z → Leaves.isAlnum z = true) :
    codeRE.matchL (normalizeCode s) = true :=
  (matchL_iff _ _).mpr (code_shape_matches _ (normalizeCode_allowed s) (normalizeCode_sepOk s) hhead hne hlast)
/- full statement (not true of the code): `normalizeCode s ≠ [] → codeRE.matchL (normalizeCode s) = true`;
   missing: NormalizeCode does not strip leading / trailing separators other than blanks. -/

example : normalizeCode (NStr.toCodes s%"  ab--c d! ") = NStr.toCodes s%"ab-c d" ∧
    codeRE.matchL (normalizeCode (NStr.toCodes s%"  ab--c d! ")) = true := by decide
/-- the counterexample to the unconditional statement -/
example : normalizeCode (NStr.toCodes s%"abc-") = NStr.toCodes s%"abc-" ∧
    codeRE.matchL (normalizeCode (NStr.toCodes s%"abc-")) = false := by decide

/-! ### enumerations: what Go accepts is listed exactly once -/

theorem currencies_listed : listedOnce goCurrencies (oneOfConsts f_currency_code [s%"$defs", s%"Code"]) = true := by
  decide +kernel
theorem iso_countries_listed :
    listedOnce goISOCountries (oneOfConsts f_l10n_iso_country_code [s%"$defs", s%"ISOCountryCode"]) = true := by
  decide +kernel
theorem tax_countries_listed :
    listedOnce goTaxCountries (oneOfConsts f_l10n_tax_country_code [s%"$defs", s%"TaxCountryCode"]) = true := by
  decide +kernel

/-- the four document types carrying `$regime` / `$addons` -/
def billDocs : List (JVal × NStr) :=
  [(f_bill_invoice, s%"Invoice"), (f_bill_order, s%"Order"), (f_bill_delivery, s%"Delivery"), (f_bill_payment, s%"Payment")]

theorem regimes_listed : (billDocs.all fun d =>
    listedOnce goRegimes (oneOfConsts d.1 [s%"$defs", d.2, s%"properties", s%"$regime"])) = true := by decide +kernel
/-- **known finding C11-K7, on the regenerated data**: `tax.Regime.Validate` accepts every code
    the regime registry answers to (`goRegimeKeys`: the regimes' countries AND their alternative
    country codes) and nothing rewrites an accepted `$regime`; the published enumerations list the
    countries only.  Exactly the alternative codes are accepted and not listed — and one of them is
    not even a published tax country code, which is what a party's `$regime` is published as.
    (`regimes_listed` above is about `goRegimes`, the codes `SetRegime` writes.) -/
theorem regime_aliases_not_listed :
    (billDocs.all fun d =>
      goRegimeKeys.filter (fun k => !(oneOfConsts d.1 [s%"$defs", d.2, s%"properties", s%"$regime"]).contains k)
        == [s%"GR", s%"XI", s%"XU"]) = true ∧
    goRegimeKeys.filter (fun k => !(oneOfConsts f_l10n_tax_country_code [s%"$defs", s%"TaxCountryCode"]).contains k)
      = [s%"GR"] ∧
    goRegimes.all (goRegimeKeys.contains ·) = true := by decide +kernel

theorem addons_listed : (billDocs.all fun d =>
    listedOnce goAddons (oneOfConsts d.1 [s%"$defs", d.2, s%"properties", s%"$addons", s%"items"])) = true := by decide +kernel
theorem document_types_listed :
    listedOnce goInvoiceTypes (oneOfConsts f_bill_invoice [s%"$defs", s%"Invoice", s%"properties", s%"type"]) = true ∧
    listedOnce goOrderTypes (oneOfConsts f_bill_order [s%"$defs", s%"Order", s%"properties", s%"type"]) = true ∧
    listedOnce goDeliveryTypes (oneOfConsts f_bill_delivery [s%"$defs", s%"Delivery", s%"properties", s%"type"]) = true ∧
    listedOnce goPaymentTypes (oneOfConsts f_bill_payment [s%"$defs", s%"Payment", s%"properties", s%"type"]) = true := by
  decide +kernel
theorem units_listed : listedOnce goUnits (oneOfConsts f_org_unit [s%"$defs", s%"Unit"]) = true := by decide +kernel

/-- non-vacuity: the lists are there -/
example : goCurrencies.length ≥ 100 ∧ goRegimes.length ≥ 10 ∧ goAddons.length ≥ 5 ∧
    (oneOfConsts f_bill_invoice [s%"$defs", s%"Invoice", s%"properties", s%"$regime"]).length ≥ 10 := by decide +kernel

/-- being listed once is what makes the `oneOf` accept the value (consumer model) -/
example : validateById (registryOf files) s%"https://gobl.org/draft-0/currency/code" (.str s%"EUR") = .ok ∧
    validateById (registryOf files) s%"https://gobl.org/draft-0/currency/code" (.str s%"XXQ")
      = .reject s%"oneOf" NStr.empty := by decide +kernel

/-! ## (2b) validator inclusions: what the Go validators accept, the published leaf schemas accept

  The models (`Leaves.requiredCode`, `extValueValidate`, `totalValidate`, `identityCodeGeneric`,
  `mxNational` …) mirror the Go validators as repaired; `Expect.stored_total_validators`,
  `Expect.extensions_validator` and `Expect.identity_code_pattern` pin their shape, the harness
  compares them with the real validators on generated values.  The right-hand sides are what
  the published schemas ask (`Expect.code_validator_is_schema`, `key_validator_is_schema`,
  `stored_total_schema`, `identity_code_pattern` pin patterns, limits and references). -/

/-- what cbc/code asks of a text: 1…32 characters, inside the code pattern -/
def CodeConforms (s : List Nat) : Prop := 1 ≤ s.length ∧ s.length ≤ 32 ∧ codeRE.matchL s = true
/-- what cbc/key asks of a text: 1…64 characters, inside the key pattern -/
def KeyConforms (s : List Nat) : Prop := 1 ≤ s.length ∧ s.length ≤ 64 ∧ keyRE.matchL s = true
/-- what tax/identity asks of `code`: 1…32 characters, inside the published identity pattern -/
def IdentityCodeConforms (s : List Nat) : Prop := 1 ≤ s.length ∧ s.length ≤ 32 ∧ identitySchemaRE.matchL s = true

/-- a code that is required and valid (`validation.Required` + `cbc.Code.Validate`) conforms to cbc/code -/
theorem required_code_conforms (s : List Nat) (h : requiredCode s = true) : CodeConforms s := requiredCode_spec h

/-- a key that is present and valid (`cbc.Key.Validate`) conforms to cbc/key -/
theorem valid_key_conforms (s : List Nat) (h : keyValidate s = true) (hne : s ≠ []) : KeyConforms s :=
  keyValidate_spec h hne

/-- **extension values**: whatever `Extensions.Validate` accepts as the value of a member — for any
    definition of its key: with a list of codes, with a pattern, with neither — is a text the schema
    of cbc/code accepts, which is what tax/extensions refers every value to. -/
theorem ext_value_conforms (kd : Option ExtKeyDef) (v : List Nat) (h : extValueValidate kd v = true) :
    CodeConforms v := by
  cases kd with
  | none => simp [extValueValidate] at h
  | some kd =>
    simp only [extValueValidate, Bool.and_eq_true] at h
    exact requiredCode_spec h.1.1

theorem extensions_conform (defOf : List Nat → Option ExtKeyDef) (em : List (List Nat × List Nat))
    (h : extensionsValidate defOf em = true) : ∀ kv ∈ em, CodeConforms kv.2 := by
  intro kv hkv
  simp only [extensionsValidate, Bool.and_eq_true, List.all_eq_true] at h
  exact ext_value_conforms _ _ (h.2 kv hkv)

/-- a definition without list and without pattern used to accept any text; not any more -/
example : extValueValidate (some ⟨[], none⟩) (NStr.toCodes s%"01010101") = true ∧
    extValueValidate (some ⟨[], none⟩) (NStr.toCodes s%"-0.25") = false ∧
    extValueValidate (some ⟨[], none⟩) (NStr.toCodes s%"0101 ") = false ∧
    extValueValidate (some ⟨[], none⟩) [] = false ∧
    extValueValidate (some ⟨[], none⟩) (List.replicate 33 48) = false ∧
    extValueValidate (some ⟨[], some fun _ => true⟩) (NStr.toCodes s%"62\t01") = false ∧
    extValueValidate (some ⟨[NStr.toCodes s%"E1"], none⟩) (NStr.toCodes s%"E1") = true ∧
    extValueValidate none (NStr.toCodes s%"E1") = false := by decide

/-- the members of a rate of a stored tax summary as tax/total constrains them: `key` and `country`
    are written only when not empty (`omitempty`), every extension value is a code -/
def RateConforms (countries : List (List Nat)) (rt : RateTotalV) : Prop :=
  (rt.key = [] ∨ KeyConforms rt.key) ∧ (rt.country = [] ∨ rt.country ∈ countries) ∧
  ∀ kv ∈ rt.ext, CodeConforms kv.2

theorem rate_total_conforms (countries : List (List Nat)) (defOf : List Nat → Option ExtKeyDef) (rt : RateTotalV)
    (h : rateTotalValidate countries defOf rt = true) : RateConforms countries rt := by
  simp only [rateTotalValidate, Bool.and_eq_true] at h
  obtain ⟨⟨hk, hc⟩, he⟩ := h
  refine ⟨?_, ?_, extensions_conform defOf rt.ext he⟩
  · by_cases hne : rt.key = []
    · exact Or.inl hne
    · exact Or.inr (keyValidate_spec hk hne)
  · simp only [taxCountryValidate, Bool.or_eq_true, List.isEmpty_iff, List.contains_eq_mem,
      decide_eq_true_eq] at hc
    exact hc

/-- **stored tax summaries**: a summary `(*tax.Total).Validate` accepts has, in every category, a
    code the schema of cbc/code accepts and a non-empty list of rates (so `rates` is printed as an
    array, never `null`), and every rate conforms.  `countries` is the list `TaxCountryCode.Validate`
    accepts (`tax_countries_listed`: each is listed in the schema). -/
theorem stored_total_conforms (countries : List (List Nat)) (defOf : List Nat → Option ExtKeyDef)
    (cats : List CategoryTotalV) (h : totalValidate countries defOf cats = true) :
    ∀ ct ∈ cats, CodeConforms ct.code ∧ ct.rates ≠ [] ∧ ∀ rt ∈ ct.rates, RateConforms countries rt := by
  intro ct hct
  simp only [totalValidate, List.all_eq_true] at h
  have hc := h ct hct
  simp only [categoryTotalValidate, Bool.and_eq_true, Bool.not_eq_true', List.all_eq_true] at hc
  obtain ⟨⟨h1, h2⟩, h3⟩ := hc
  refine ⟨requiredCode_spec h1, ?_, fun rt hrt => rate_total_conforms countries defOf rt (h3 rt hrt)⟩
  intro hnil
  rw [hnil] at h2
  cases h2

def vatCodes : List Nat := NStr.toCodes s%"VAT"
def esCodes : List Nat := NStr.toCodes s%"ES"
def sampleRate : RateTotalV := ⟨NStr.toCodes s%"standard", esCodes, []⟩

/-- non-vacuity, and the inputs of the former finding: no code, a malformed code, no rates,
    a malformed rate key, an unknown country are refused -/
example : totalValidate [esCodes] (fun _ => none) [⟨vatCodes, [sampleRate]⟩] = true ∧
    totalValidate [esCodes] (fun _ => none) [⟨[], [sampleRate]⟩] = false ∧
    totalValidate [esCodes] (fun _ => none) [⟨NStr.toCodes s%"VAT ", [sampleRate]⟩] = false ∧
    totalValidate [esCodes] (fun _ => none) [⟨vatCodes, []⟩] = false ∧
    totalValidate [esCodes] (fun _ => none) [⟨vatCodes, [⟨NStr.toCodes s%"Std Rate", [], []⟩]⟩] = false ∧
    totalValidate [esCodes] (fun _ => none) [⟨vatCodes, [⟨[], NStr.toCodes s%"ZZ", []⟩]⟩] = false ∧
    totalValidate [esCodes] (fun _ => none) [⟨vatCodes, [⟨[], [], []⟩]⟩] = true := by decide

/-! ### tax identity codes -/

theorem identity_subset {r : RE} {s : List Nat} (hm : r.matchL s = true)
    (hw : r.within identitySchemaK = true) (hn : r.nullable = false) : identitySchemaRE.matchL s = true :=
  (matchL_iff _ _).mpr (matches_plus_cls_of_within ((matchL_iff _ _).mp hm) hw hn)

/-- **identity codes, generic rule**: a non-empty code that passes `Match(IdentityCodePatternRegexp)`
    and `cbc.Code.Validate` (every country outside `IdentityCodeValidationIgnore`) is inside the
    pattern and limits published for `tax.Identity.code` -/
theorem identity_code_generic_conforms (s : List Nat) (h : identityCodeGeneric s = true) (hne : s ≠ []) :
    IdentityCodeConforms s := by
  simp only [identityCodeGeneric, codeValidate, Bool.and_eq_true, Bool.or_eq_true, List.isEmpty_iff,
    decide_eq_true_eq] at h
  obtain ⟨h1, h2⟩ := h
  rcases h1 with h1 | h1
  · exact absurd h1 hne
  rcases h2 with h2 | ⟨⟨_, h32⟩, _⟩
  · exact absurd h2 hne
  have := length_le_utf8Len s
  refine ⟨?_, by omega, identity_subset h1 (by decide) (by decide)⟩
  cases s with
  | nil => exact absurd rfl hne
  | cons _ _ => simp

/-- **identity codes, exempt country**: a non-empty code the Mexican rule accepts — the only rule
    applied to the codes of the country exempt from the generic one, `&` and `Ñ` included — is
    inside the pattern and limits published for `tax.Identity.code` -/
theorem identity_code_mx_conforms (s : List Nat) (h : mxNational s = true) (hne : s ≠ []) :
    IdentityCodeConforms s := by
  simp only [mxNational, Bool.or_eq_true, List.isEmpty_iff] at h
  rcases h with (h | h) | h
  · exact absurd h hne
  · have hl := fixedLen_length ((matchL_iff _ _).mp h) 13 (by decide)
    exact ⟨by omega, by omega, identity_subset h (by decide) (by decide)⟩
  · have hl := fixedLen_length ((matchL_iff _ _).mp h) 12 (by decide)
    exact ⟨by omega, by omega, identity_subset h (by decide) (by decide)⟩

/-- the code of examples/mx/out/retentions.json, refused by the old pattern `^[A-Z0-9]+$` -/
example : mxNational (NStr.toCodes s%"K&A010301I16") = true ∧
    identitySchemaRE.matchL (NStr.toCodes s%"K&A010301I16") = true ∧
    identityRE.matchL (NStr.toCodes s%"K&A010301I16") = false ∧
    codeRE.matchL (NStr.toCodes s%"K&A010301I16") = false ∧
    mxNational (NStr.toCodes s%"ÑAB010301I16") = true ∧
    identityCodeGeneric (NStr.toCodes s%"B98602642") = true ∧
    identityCodeGeneric (NStr.toCodes s%"B-98602642") = false := by decide

/-! ## obligations over regenerated facts -/
namespace Expect

/-- keywords at schema positions, recomputed from the data -/
def keywordsUsed : List NStr := files.flatMap fun f => keywordsOf walkFuel f.2

/-- the keyword subset of the 68 files (most frequent first: the kernel searches linearly) -/
def expectedKeywords : List NStr :=
  [s%"title", s%"const", s%"description", s%"$ref", s%"type", s%"items", s%"properties", s%"$schema", s%"$id",
   s%"$defs", s%"required", s%"calculated", s%"format", s%"oneOf", s%"pattern", s%"recommended", s%"anyOf",
   s%"examples", s%"patternProperties", s%"maxLength", s%"minLength", s%"contentEncoding"]

/-- the keyword subset of the 68 files is exactly this one: 8 evaluated by the validator
    (`$ref type items properties required oneOf anyOf const pattern patternProperties format
    min/maxLength`) and the annotations.  A new keyword breaks this obligation instead of being
    ignored; the extractor's own inventory says the same. -/
theorem keyword_inventory : sameSet keywordsUsed expectedKeywords = true ∧
    sameSet keywordInventory expectedKeywords = true := by decide +kernel

/-- every keyword used is either evaluated by the validator or a declared annotation -/
theorem keywords_covered :
    expectedKeywords.all (fun k => assertionKeywords.contains k || annotationKeywords.contains k) = true := by
  decide +kernel

def patternsUsed : List NStr :=
  files.flatMap fun f => stringsOf s%"pattern" walkFuel f.2 ++ patternKeysOf walkFuel f.2

def expectedPatterns : List NStr :=
    [s%"^(?:[a-z]|[a-z0-9][a-z0-9-+]*[a-z0-9])$",
     s%"^[0-9]{4}-[0-9]{2}-[0-9]{2}T[0-9]{2}:[0-9]{2}:[0-9]{2}$",
     s%"^[A-Z0-9]+$", s%"^[A-Z0-9Ñ&]+$", s%"^[A-Z0-9]{2,3}$",
     s%"^[A-Za-z0-9]+([\\.\\-\\/ _\\:]?[A-Za-z0-9]+)*$",
     s%"^[a-z]{2}$",
     s%"^\\-?[0-9]+(\\.[0-9]+)?$", s%"^\\-?[0-9]+(\\.[0-9]+)?%$"]

/-- the nine patterns of the schema files (`pattern` values and `patternProperties` keys) -/
theorem pattern_inventory : sameSet patternsUsed expectedPatterns = true ∧
    sameSet patternInventory expectedPatterns = true := by decide +kernel

/-- formats and type names: `formats_known` / `keywords_well_typed` bound them from the data;
    the extractor's inventories name them -/
theorem format_and_type_inventory :
    sameSet formatInventory [s%"date", s%"uri", s%"uuid"] = true ∧
    sameSet typeInventory [s%"array", s%"boolean", s%"integer", s%"number", s%"object", s%"string"] = true := by
  decide +kernel

theorem file_count : files.length = fileCount ∧ fileCount = 68 := by decide +kernel

/-- the published amount / percentage patterns are the ones the leaf theorems are about -/
theorem amount_pattern : strAt f_num_amount [s%"$defs", s%"Amount", s%"pattern"] = goAmountSchemaPattern ∧
    compileL (strAt f_num_amount [s%"$defs", s%"Amount", s%"pattern"]).toCodes = some amountRE := by decide +kernel
theorem percentage_pattern :
    strAt f_num_percentage [s%"$defs", s%"Percentage", s%"pattern"] = goPercentageSchemaPattern ∧
    compileL (strAt f_num_percentage [s%"$defs", s%"Percentage", s%"pattern"]).toCodes = some percentageRE := by decide +kernel
theorem amount_string_formats : amountStringFormats = ["%d", "NA", "", "-", "%s%d.%0*d"] := by decide
theorem date_schema : strAt f_cal_date [s%"$defs", s%"Date", s%"format"] = s%"date" ∧
    strAt f_cal_date [s%"$defs", s%"Date", s%"type"] = s%"string" := by decide +kernel

/-- keys: the Go validator (`Key.Validate`: Match + Length) uses the published pattern and limits,
    which are the ones `Leaves.keyValidate` has -/
theorem key_validator_is_schema :
    strAt f_cbc_key [s%"$defs", s%"Key", s%"pattern"] = goKeyPattern ∧
    natAt f_cbc_key [s%"$defs", s%"Key", s%"minLength"] = some goKeyMin ∧
    natAt f_cbc_key [s%"$defs", s%"Key", s%"maxLength"] = some goKeyMax ∧
    calls_Key_Validate = ["Validate", "string", "Match", "Length", "int", "int"] ∧
    compileL goKeyPattern.toCodes = some keyRE ∧ goKeyMin = 1 ∧ goKeyMax = 64 := by decide +kernel

/-- codes: the Go validator (`Code.Validate`: Length + Match) uses the published pattern and limits,
    which are the ones `Leaves.codeValidate` has -/
theorem code_validator_is_schema :
    strAt f_cbc_code [s%"$defs", s%"Code", s%"pattern"] = goCodePattern ∧
    natAt f_cbc_code [s%"$defs", s%"Code", s%"minLength"] = some goCodeMin ∧
    natAt f_cbc_code [s%"$defs", s%"Code", s%"maxLength"] = some goCodeMax ∧
    calls_Code_Validate = ["Validate", "string", "Length", "int", "Match"] ∧
    compileL goCodePattern.toCodes = some codeRE ∧ goCodeMin = 1 ∧ goCodeMax = 32 := by decide +kernel

/-- the published `cbc.Code` pattern is the expression `normalizeCode_matches_partial` is about, and
    NormalizeCode is still the three steps the model mirrors, with the same two expressions -/
theorem code_pattern_and_normalizer :
    compileL (strAt f_cbc_code [s%"$defs", s%"Code", s%"pattern"]).toCodes = some codeRE ∧
    steps_NormalizeCode = ["c.String", "codeInvalidCharsRegexp.ReplaceAllString",
      "codeSeparatorRegexp.ReplaceAllString", "strings.TrimSpace"] ∧
    codeSeparatorRegexp = s%"([\\.\\-\\/ _\\:])[^A-Za-z0-9]+" ∧
    codeInvalidCharsRegexp = s%"[^A-Za-z0-9\\.\\-\\/ _\\:]" := by decide +kernel

/-- tax identity codes: the published `code` property is a string of 1…32 characters with the pattern
    `JSONSchemaExtend` sets (no reference to cbc/code any more), which compiles to `identitySchemaRE`;
    Go applies `IdentityCodePattern` (= `identityRE`) except to the countries listed, whose regimes'
    code patterns are the two `identity_code_mx_conforms` is about -/
theorem identity_code_pattern :
    strAt f_tax_identity [s%"$defs", s%"Identity", s%"properties", s%"code", s%"pattern"] = goIdentityCodeSchemaPattern ∧
    compileL goIdentityCodeSchemaPattern.toCodes = some identitySchemaRE ∧
    hasAt f_tax_identity [s%"$defs", s%"Identity", s%"properties", s%"code", s%"$ref"] = false ∧
    strAt f_tax_identity [s%"$defs", s%"Identity", s%"properties", s%"code", s%"type"] = s%"string" ∧
    natAt f_tax_identity [s%"$defs", s%"Identity", s%"properties", s%"code", s%"minLength"] = some 1 ∧
    natAt f_tax_identity [s%"$defs", s%"Identity", s%"properties", s%"code", s%"maxLength"] = some 32 ∧
    compileL goIdentityCodePattern.toCodes = some identityRE ∧
    goIdentityCodeIgnore = [s%"MX"] ∧
    goExemptIdentityPatterns.map (fun p => compileL p.toCodes) = [some mxPersonRE, some mxCompanyRE] ∧
    fields_Identity_Validate = ["Country: validation.Required",
      "Code: validation.Skip.When( id.Country.In(IdentityCodeValidationIgnore...), ), validation.Match(IdentityCodePatternRegexp)",
      "Scheme: validation.Match(IdentityCodePatternRegexp)", "Zone: validation.Empty", "Type:"] := by decide +kernel

/-- stored tax summaries: the three `Validate` methods of tax/totals.go have the fields and rules
    `Leaves.totalValidate` models (category: code and rates required; rate: key, country, ext), the
    members have the types whose validators are modelled, `rates` is printed without `omitempty`
    (a nil slice would be `null`), `key`, `country` and `ext` with it -/
theorem stored_total_validators :
    fields_Total_Validate = ["Categories:"] ∧
    fields_CategoryTotal_Validate = ["Code: validation.Required", "Rates: validation.Required"] ∧
    fields_RateTotal_Validate = ["Key:", "Country:", "Ext:"] ∧
    members_CategoryTotal = ["Code cbc.Code code", "Retained bool retained,omitempty", "Rates []*RateTotal rates",
      "Amount num.Amount amount", "Surcharge *num.Amount surcharge,omitempty"] ∧
    members_RateTotal = ["Key cbc.Key key,omitempty", "Country l10n.TaxCountryCode country,omitempty",
      "Ext Extensions ext,omitempty", "Base num.Amount base", "Percent *num.Percentage percent,omitempty",
      "Surcharge *RateTotalSurcharge surcharge,omitempty", "Amount num.Amount amount"] := by decide

/-- …and the published tax/total asks exactly that of those members: `code`, `rates`, `amount` required
    in a category, `code` a cbc/code, `rates` an array of rates; `key` a cbc/key, `country` a tax country
    code, `ext` a tax/extensions in a rate, where `base` and `amount` are required -/
theorem stored_total_schema :
    strsAt f_tax_total [s%"$defs", s%"CategoryTotal", s%"required"] = [s%"code", s%"rates", s%"amount"] ∧
    strAt f_tax_total [s%"$defs", s%"CategoryTotal", s%"properties", s%"code", s%"$ref"] = s%"https://gobl.org/draft-0/cbc/code" ∧
    strAt f_tax_total [s%"$defs", s%"CategoryTotal", s%"properties", s%"rates", s%"type"] = s%"array" ∧
    strAt f_tax_total [s%"$defs", s%"CategoryTotal", s%"properties", s%"rates", s%"items", s%"$ref"] = s%"#/$defs/RateTotal" ∧
    strsAt f_tax_total [s%"$defs", s%"RateTotal", s%"required"] = [s%"base", s%"amount"] ∧
    strAt f_tax_total [s%"$defs", s%"RateTotal", s%"properties", s%"key", s%"$ref"] = s%"https://gobl.org/draft-0/cbc/key" ∧
    strAt f_tax_total [s%"$defs", s%"RateTotal", s%"properties", s%"country", s%"$ref"] = s%"https://gobl.org/draft-0/l10n/tax-country-code" ∧
    strAt f_tax_total [s%"$defs", s%"RateTotal", s%"properties", s%"ext", s%"$ref"] = s%"https://gobl.org/draft-0/tax/extensions" := by
  decide +kernel

/-- extension values: `Extensions.Validate` holds every value of a defined key to
    `validation.Required` and to its own `Validate` (cbc.Code) before the list / pattern of the
    definition is consulted; the published tax/extensions refers the value of every member whose
    name is a key to cbc/code -/
theorem extensions_validator :
    steps_Extensions_Validate = ["k.Validate", "k.String", "k.String", "errors.New", "validation.Validate",
      "kd.HasCode", "fmt.Errorf", "regexp.Compile", "re.MatchString", "errors.New"] ∧
    valueRules_Extensions_Validate = ["validation.Validate(ev, validation.Required)"] ∧
    patternRefsAt f_tax_extensions [s%"$defs", s%"Extensions"] = [(goKeyPattern, s%"https://gobl.org/draft-0/cbc/code")] := by
  decide +kernel

end Expect

end GoblVerif.Props.C11
