/-
  C02 — The tax summary partitions taxable amounts and sums them correctly.

  Statements about the tax part of `Calc.calculate exactOps`
  (`baseRateTotals`, `catAmounts`, `finalSum`; Model/Calc.lean mirrors
  tax/totals_calculator.go and tax/totals.go).  Helper lemmas:
  Proofs/CalcTax.lean.

  The currency-rule forms of the sums are in Props/C03.  The statement for the
  whole `calculate` — the executable oracle `Spec.C02.summaryOk` holds of every
  calculated document — is `tax_summary_spec` (glue through `taxTotal`,
  `roundTax` and `finish`: Proofs/CalcSummary.lean).
-/
import GoblVerif.Spec.C02
import GoblVerif.Generated.CalcFacts
import GoblVerif.Proofs.CalcTax
import GoblVerif.Proofs.CalcGroups
import GoblVerif.Proofs.CalcSummary
import GoblVerif.Generated.TaxTotalsSrc
import GoblVerif.Proofs.TaxTotalsSrc
import GoblVerif.Proofs.TaxTotalsCalc

namespace GoblVerif.Props.C02
open GoblVerif GoblVerif.Calc GoblVerif.Spec.C02

/-- **partition** (any number of rows, categories and groups): for every
category, the bases of its rate groups add up to exactly what its rows
contribute — the row's tax-exclusive total under `precise`, that total rounded
to the currency under `currency` — each (row, combo) pair being counted once. -/
theorem partition (r : Rule) (c : ℕ) (k : String) (rows : List Row) :
    catBase k (baseRateTotals exactOps r c rows) = (rows.map (rowContrib r c k)).sum := by
  have := baseRateTotals_spec r c k rows [] (fun _ h => by simp at h)
  simpa [baseRateTotals, catBase] using this

/-- under `precise` the contribution is the exact tax-exclusive total -/
theorem partition_precise (c : ℕ) (k : String) (rows : List Row) :
    catBase k (baseRateTotals exactOps .precise c rows) = (rowsOf k rows).sum := by
  rw [partition]
  induction rows with
  | nil => simp [rowsOf]
  | cons rw rows ih =>
    have : rowsOf k (rw :: rows) = (rw.taxes.filter (·.cat == k)).map (fun _ => rw.total.toRat) ++ rowsOf k rows := by
      simp [rowsOf, List.flatMap_cons]
    rw [this, List.sum_append, ← ih]
    simp [rowContrib, contrib]

/-- **groups_pairwise_distinct**: within a category no two groups share a key
(country, extensions, percentage, surcharge percentage | exempt): every row
combo found the one group it matches. -/
theorem groups_pairwise_distinct (r : Rule) (c : ℕ) (rows : List Row) :
    ∀ ct ∈ baseRateTotals exactOps r c rows, Distinct ct.rates :=
  baseRateTotals_distinct r c rows

/-- **group_amount**: a group's amount is its percentage of its base, rounded
half away from zero once at the base's precision; exempt groups have none. -/
theorem group_amount (rt : RateTotal) (c : ℕ) :
    (∀ p, rt.percent = some p →
      (rateAmounts exactOps rt c).amount.exp = rt.base.exp ∧
      (rateAmounts exactOps rt c).amount.value = Spec.roundTo rt.base.exp (rt.base.toRat * p.amount.toRat)) ∧
    (rt.percent = none → (rateAmounts exactOps rt c).amount = ⟨0, c⟩) :=
  rateAmounts_amount rt c

/-- **surcharge_amount** -/
theorem surcharge_amount (rt : RateTotal) (c : ℕ) (p sp : Pct) (sa : Amount)
    (hp : rt.percent = some p) (hs : rt.surcharge = some (sp, sa)) :
    ∃ sa', (rateAmounts exactOps rt c).surcharge = some (sp, sa') ∧ sa'.exp = rt.base.exp ∧
      sa'.value = Spec.roundTo rt.base.exp (rt.base.toRat * sp.amount.toRat) :=
  rateAmounts_surcharge rt c p sp sa hp hs

/-- **category_sum**: a category's amount is the sum of its groups' amounts
(under `currency`: of the amounts rounded to the currency). -/
theorem category_sum (r : Rule) (c : ℕ) (ct : CatTotal) :
    (catAmounts exactOps r c ct).amount.toRat =
      (((catAmounts exactOps r c ct).rates).map (taxedAmount r c)).sum :=
  catAmounts_amount r c ct

/-- **tax_sum** (precise rule): for the categories the pipeline builds from any
rows, the tax total is exactly the sum of the ordinary categories' amounts and
surcharges minus the retained ones — no rounding happens in this sum. -/
theorem tax_sum (r : Rule) (hr : r ≠ .currency) (c : ℕ) (rows : List Row) :
    let cats := (baseRateTotals exactOps r c rows).map (catAmounts exactOps r c)
    (finalSum exactOps r c cats).toRat = (cats.map catSignedQ).sum := by
  intro cats
  apply finalSum_toRat r hr c cats
  intro ct hct
  simp only [cats, List.mem_map] at hct
  obtain ⟨ct0, _, rfl⟩ := hct
  exact catAmounts_surcharge_exp_le r hr c ct0

/-- **included_only_total_with_tax**: when prices include a tax and the tax
total of the document is exactly the amount of that included category (no
other category, no surcharge on it — every other tax would be added on top),
taking the included tax out of the total and adding the tax total back cancels
exactly, whatever the precisions involved: the total with tax is the gross
sum − discounts + charges of the rows. -/
theorem included_only_total_with_tax (d : Doc) (p : Pre) (tx : TaxTotal) (ti : Amount)
    (hti : taxIncluded d.includes tx = some ti) (heq : ti.toRat = tx.precise.toRat) :
    (rawTotals exactOps d p tx).totalWithTax = p.total2 := by
  have h : (rawTotals exactOps d p tx).totalWithTax = add exactOps (sub exactOps p.total2 ti) tx.precise := by
    simp only [rawTotals, hti]
  rw [h]
  unfold add sub
  simp only [exact_rescale, rescaleX_value_congr ti tx.precise p.total2.exp heq]
  cases p.total2
  simp

/-- the tax total of a summary with a single ordinary category without
surcharge is that category's amount -/
theorem single_category_sum (r : Rule) (c : ℕ) (ct : CatTotal) (hr : ct.retained = false)
    (hs : ct.surcharge = none) (hc : r ≠ .currency) :
    (finalSum exactOps r c [ct]).toRat = ct.amount.toRat := by
  unfold finalSum
  simp only [List.foldl_cons, List.foldl_nil, hr, hs, Bool.false_eq_true, if_false]
  have hm : mrp r ⟨0, c⟩ ct.amount = up ⟨0, c⟩ ct.amount.exp := by
    cases r <;> simp_all [mrp]
  rw [hm, add_toRat _ _ (by rw [up_exp]; omega), up_toRat]
  simp [Amount.toRat]

/-- **included tax is taken out with its own percentage**: a row carrying the included category at
`p` % (not −100 %) leaves the removal with `total / (1 + p)` rounded half away from zero once at the
row's working precision; the other rows and the row's combos are untouched, a retained included
category is refused. -/
theorem included_tax_removed_with_own_percentage (k : String) (rw : Row) (cb : Combo) (p : Pct)
    (hfind : rw.taxes.find? (fun cb => cb.cat == k) = some cb) (hret : cb.retained = false)
    (hp : cb.percent = some p) (hne : (factor p).value ≠ 0) :
    ∃ rw', removeIncludedRow exactOps k rw = .ok rw' ∧ rw'.taxes = rw.taxes ∧ rw'.total.exp = rw.total.exp ∧
      rw'.total.value = Spec.roundTo rw.total.exp (rw.total.toRat / (1 + p.amount.toRat)) := by
  refine ⟨{ rw with total := remove exactOps rw.total p }, ?_, rfl, ?_, ?_⟩
  · simp [removeIncludedRow, hfind, hret, hp]
  · simp [remove, Amount.divX]
    split <;> rfl
  · simp only [remove, exact_div]
    rw [divX_spec _ _ hne]
    congr 1
    have hf : (factor p).toRat = 1 + p.amount.toRat := by
      have h := p10q_ne p.amount.exp
      unfold factor Amount.toRat
      push_cast
      field_simp
      ring
    rw [hf]

/-- rows without the included category, and exempt combos of it, pass through unchanged -/
theorem included_removal_leaves_other_rows (k : String) (rw : Row)
    (h : rw.taxes.find? (fun cb => cb.cat == k) = none) :
    removeIncludedRow exactOps k rw = .ok rw := by
  simp [removeIncludedRow, h]

/-- **matching is equality of keys**: `RateTotal.matches` holds exactly when the group and the combo
have the same extensions, country and — unless both are exempt — percentage and surcharge percentage
by value.  An exempt combo never matches a 0 % group, a surcharged rate never an unsurcharged one. -/
theorem matches_iff_same_key (rt : RateTotal) (cb : Combo) :
    rtMatches rt cb = true ↔ rtKey rt = comboKey cb := rtMatches_iff rt cb

/-- **partition_by_key** (any rows, any rule): the base of the group with key `k` in category `cat`
is exactly the sum of the contributions of the combos with that category and that key — every combo
of every row is counted in the one group with its key and in no other. -/
theorem partition_by_key (r : Rule) (c : ℕ) (cat : String) (k : Key) (rows : List Row) :
    catGroupBase cat k (baseRateTotals exactOps r c rows) = (rows.map (rowGroupContrib r c cat k)).sum :=
  baseRateTotals_group r c cat k rows

/-- a combo contributes nothing to a group with another key or another category -/
theorem other_groups_untouched (r : Rule) (c : ℕ) (cb : Combo) (t : Amount) (cat : String) (k : Key)
    (cats : List CatTotal) (hok : CatsOk r c cats) (h : ¬ (cb.cat == cat ∧ comboKey cb = k)) :
    catGroupBase cat k (addToCats exactOps r c cb t cats) = catGroupBase cat k cats := by
  rw [addToCats_group r c cb t cat k cats hok, if_neg h, add_zero]

/-- non-vacuity of the key: an exempt combo and a 0 % combo have different keys; `20%` and `20.0%`
the same -/
example : comboKey { cat := "VAT", country := "", key := "", percent := none, surcharge := none, ext := "", retained := false }
    ≠ comboKey { cat := "VAT", country := "", key := "", percent := some ⟨⟨0, 2⟩⟩, surcharge := none, ext := "", retained := false } := by
  simp [comboKey]

example : comboKey { cat := "VAT", country := "", key := "", percent := some ⟨⟨20, 2⟩⟩, surcharge := none, ext := "", retained := false }
    = comboKey { cat := "VAT", country := "", key := "", percent := some ⟨⟨200, 3⟩⟩, surcharge := none, ext := "", retained := false } := by
  simp [comboKey, Amount.toRat, pow10]
  norm_num

/-- non-vacuity: two rows at 21 %, one at 10 %, one exempt -/
example :
    (baseRateTotals exactOps .precise 2
      [ { total := ⟨10000, 4⟩, taxes := [{ cat := "VAT", country := "", key := "", percent := some ⟨⟨21, 2⟩⟩, surcharge := none, ext := "", retained := false }] },
        { total := ⟨5000, 4⟩, taxes := [{ cat := "VAT", country := "", key := "", percent := some ⟨⟨210, 3⟩⟩, surcharge := none, ext := "", retained := false }] },
        { total := ⟨700, 4⟩, taxes := [{ cat := "VAT", country := "", key := "", percent := some ⟨⟨10, 2⟩⟩, surcharge := none, ext := "", retained := false }] },
        { total := ⟨300, 4⟩, taxes := [{ cat := "VAT", country := "", key := "", percent := none, surcharge := none, ext := "", retained := false }] } ]).map
      (fun ct => ct.rates.map (·.base)) = [[⟨15000, 4⟩, ⟨700, 4⟩, ⟨300, 4⟩]] := by decide

/-- **the rate key takes no part in grouping**: whatever rate keys the group and the combo carry,
`RateTotal.matches` answers the same — groups are distinguished by extensions, country, percentage and
surcharge (`matches_iff_same_key`), never by the key the percentage was asked for with. -/
theorem matches_ignores_rate_key (rt : RateTotal) (cb : Combo) (k k' : String) :
    rtMatches { rt with key := k } { cb with key := k' } = rtMatches rt cb := rfl

/-- hence a group and a combo with different percentages never match, whatever their rate keys — in
particular under the SAME rate key (a key whose percentage the issuer supplies; satisfiable: the
`example` below) … -/
theorem same_rate_key_other_percentage_no_match (rt : RateTotal) (cb : Combo) (p q : Pct)
    (hp : rt.percent = some p) (hq : cb.percent = some q)
    (hne : p.amount.toRat ≠ q.amount.toRat) : rtMatches rt cb = false := by
  cases h : rtMatches rt cb with
  | false => rfl
  | true =>
    have hk := (rtMatches_iff rt cb).1 h
    simp only [rtKey, comboKey, hp, hq, Option.map_some, Prod.mk.injEq, Option.some.injEq] at hk
    exact absurd hk.2.2.1 hne

/-- … while different rate keys with one percentage do (same extensions and country). -/
theorem other_rate_key_same_percentage_match (rt : RateTotal) (cb : Combo)
    (h : rtKey rt = comboKey cb) : rtMatches rt cb = true := (rtMatches_iff rt cb).2 h

/-- non-vacuity: rate key `other` at 5 % and at 12 % on two rows, `other` at 12.0 % on a third and a
key-less 5 % on a fourth: two groups, 5 % and 12 %, each with two rows -/
example :
    (baseRateTotals exactOps .precise 2
      [ { total := ⟨10000, 4⟩, taxes := [{ cat := "VAT", country := "", key := "other", percent := some ⟨⟨5, 2⟩⟩, surcharge := none, ext := "", retained := false }] },
        { total := ⟨5000, 4⟩, taxes := [{ cat := "VAT", country := "", key := "other", percent := some ⟨⟨12, 2⟩⟩, surcharge := none, ext := "", retained := false }] },
        { total := ⟨700, 4⟩, taxes := [{ cat := "VAT", country := "", key := "other", percent := some ⟨⟨120, 3⟩⟩, surcharge := none, ext := "", retained := false }] },
        { total := ⟨300, 4⟩, taxes := [{ cat := "VAT", country := "", key := "", percent := some ⟨⟨5, 2⟩⟩, surcharge := none, ext := "", retained := false }] } ]).map
      (fun ct => ct.rates.map (·.base)) = [[⟨10300, 4⟩, ⟨5700, 4⟩]] := by decide

example : ∃ (rt : RateTotal) (cb : Combo) (p q : Pct), rt.key = cb.key ∧ rt.key ≠ "" ∧ rt.percent = some p ∧
    cb.percent = some q ∧ p.amount.toRat ≠ q.amount.toRat :=
  ⟨{ key := "other", country := "", ext := "", base := ⟨0, 2⟩, percent := some ⟨⟨5, 2⟩⟩, surcharge := none, amount := ⟨0, 2⟩ },
   { cat := "VAT", country := "", key := "other", percent := some ⟨⟨12, 2⟩⟩, surcharge := none, ext := "", retained := false },
   ⟨⟨5, 2⟩⟩, ⟨⟨12, 2⟩⟩, rfl, by decide, rfl, rfl, by simp [Amount.toRat, pow10]⟩

/-- **tax_summary_spec** (capstone): for EVERY document the model calculates, under
either rounding rule, the executable oracle `Spec.C02.summaryOk` — the whole
statement of C02, and the function that judges the output of the real
`Invoice.Calculate` in harness/props/c02 — holds of the input document and what
`Calc.calculate` returns.  In exact rationals, over the contributions of the
(row, combo) pairs (the row's working total with the included tax taken out
with the row's own percentage, `included_tax_removed_with_own_percentage`;
rounded to the currency under the currency rule):

* categories have pairwise distinct codes, the groups of a category pairwise
  distinct keys (`groups_pairwise_distinct`, `matches_iff_same_key`), and every
  contribution finds its category and the group with its key: each taxed row
  total lands in exactly one rate group of its category;
* every presented base is the sum of the contributions with that category and
  key (the per-group form of `partition_by_key`; hence also Σ of the group
  bases of a category = Σ of all contributions to it, `partition`), rounded to
  the currency;
* every group amount and surcharge is the percentage of that sum rounded half
  away from zero once at the group's working precision (`group_amount`,
  `surcharge_amount`), presented rounded to the currency;
* category amount = Σ group amounts, category surcharge = Σ group surcharges
  (`category_sum`), presented exactly when a group carries one;
* tax sum = Σ ordinary − Σ retained categories including surcharges (`tax_sum`,
  and its currency-rule form), and it is the document's `tax`;
* `tax_included` is the presented amount of the included category, and when that
  category is the only one, ordinary and without surcharge, total with tax is
  the gross total of the rows (`included_only_total_with_tax`).

No hypothesis besides `h`: a document the calculation refuses (no exchange rate,
a retained category included in prices) has no output.  The glue through
`taxTotal` / `roundTax` / `finish` that the earlier theorems left to the
differential run is Proofs/CalcSummary.lean. -/
theorem tax_summary_spec (d : Doc) (out : Out) (h : calculate exactOps d = .ok out) :
    summaryOk d out = true := by
  unfold calculate at h
  unfold summaryOk
  cases hp : pre exactOps d with
  | error e => simp [hp] at h
  | ok p =>
    simp only [hp] at h ⊢
    split at h
    · rename_i hrows
      injection h with h
      subst h
      simpa [summaryRowsOk] using hrows
    · cases htx : taxTotal exactOps d.rule d.c d.includes p.rows with
      | error e => simp [htx] at h
      | ok tx =>
        simp only [htx] at h
        injection h with h
        subst h
        exact summaryRowsOk_finish d p tx htx
          (fun ti h1 h2 => included_only_total_with_tax d p tx ti h1 h2)

/-- non-vacuity of `tax_summary_spec`: `Calc.readdExample` (tax-included prices, two
VAT 21 % groups that differ in the surcharge, VAT 10 % fed by a line and a
document discount, a retained category) is calculated under both rules … -/
example : ((calculate exactOps readdExample).toOption.isSome &&
    (calculate exactOps { readdExample with rule := .precise }).toOption.isSome) = true := by decide

/-- … the oracle evaluates to true on both outputs (as the theorem says) … -/
example : ((calculate exactOps readdExample).toOption.map (summaryOk readdExample),
    (calculate exactOps { readdExample with rule := .precise }).toOption.map
      (summaryOk { readdExample with rule := .precise })) = (some true, some true) := by decide +kernel

/-- … and it is not trivially true: under the precise rule the summary of the
currency-rule calculation is refused, and so is a tax sum that is off by one unit -/
example : ((calculate exactOps readdExample).toOption.map (summaryOk { readdExample with rule := .precise }),
    (calculate exactOps readdExample).toOption.map (fun o => summaryOk readdExample
      { o with totals := o.totals.map (fun t => { t with tax := ⟨t.tax.value + 1, 2⟩ }) })) =
    (some false, some false) := by decide +kernel

/-! ## the model and the source (`namespace Src`)

`Generated/TaxTotalsSrc.lean` is the translation (go2lean) of /repo/tax/totals.go
as it stands now.  Its structs are mapped onto the records of Model/Merge.lean
and `TaxTotals.Combo`; `toCalcRT` / `toCalcCat` / `toCalcCombo`
(Proofs/TaxTotalsSrc.lean) carry them to the records of Model/Calc.lean, whose
extension field is the canonical TEXT of the map (`enc`, any injective
encoding).  The `num` calls are the fields of `TaxTotals.NumOps`, read here with
`calcOps o` — the operations of Model/Calc.lean over ANY rounding primitives `o`
(`exactOps` in the theorems above, `floatOps` in the driver).

Proved for all arguments: `matches` (the rate-group key), `newRateTotal`,
`newCategoryTotal`, `matchRoundingPrecision`, `PreciseAmount`, `PreciseSum`,
`Category`, and — through the loop principles of Proofs/TaxTotalsSrc.lean and the
bridge Proofs/TaxTotalsCalc.lean — `rateTotalFor` (with the base accumulation on
the row it returns = `addToCats`), `calculateBaseCategoryTotal` (= `catAmounts`),
`calculateFinalSum` (= `finalSum` over the categories with their amounts),
`round` (= `roundTax`), for summaries of any shape and ANY rounding primitives.
`src_partition_by_key` restates the headline theorem over the regenerated
`rateTotalFor`.  B24: `(*TotalCalculator).calculateBaseRateTotals` itself is
translated too (go2lean_ownret.go: the pointer `rateTotalFor` returns is a cursor
whose index path the twin `Total_rateTotalFor_at` reports) and proved equal to
`srcBaseRateTotals`, hence to `baseRateTotals` (`src_calculateBaseRateTotals`);
`src_partition_by_key_regenerated` is the headline over it.  Not translated (they
stay on their shape pins in `ExpectCalc`): `TotalCalculator.Calculate`,
`prepareLines`, `removeIncludedTaxes`, `mapTaxLines`, `Total.Calculate`.  The pins
of the functions proved here stay too (they are weaker, and cheap). -/
namespace Src
open GoblVerif.Generated GoblVerif.TaxTotals GoblVerif.Proofs.TaxTotalsSrc

private def sampleEnc (e : List (String × String)) : String := String.join (e.map fun p => p.1 ++ "=" ++ p.2 ++ ";")
private def sampleRT : Merge.RateTotal :=
  { key := "k", country := "", ext := [("a", "1")], base := ⟨0, 2⟩, percent := some ⟨⟨210, 3⟩⟩,
    surcharge := some ⟨⟨⟨52, 3⟩⟩, ⟨0, 2⟩⟩, amount := ⟨0, 2⟩ }
private def sampleCB : TaxTotals.Combo :=
  { category := "VAT", country := "", rate := "other", percent := some ⟨⟨21, 2⟩⟩, surcharge := some ⟨⟨520, 4⟩⟩,
    ext := [("a", "1")], retained := false }

theorem all_translated : TaxTotalsSrc.untranslated = [] := by decide

/-- the reading of the primitives this file uses is the one Model/Calc.lean is written with -/
theorem calc_reading (o : Ops) (a b : Amount) (p q : Pct) (e : ℕ) :
    @NumOps.add (calcOps o) a b = add o a b ∧ @NumOps.sub (calcOps o) a b = sub o a b ∧
    @NumOps.rescale (calcOps o) a e = o.rescale a e ∧ @NumOps.matchPrecision (calcOps o) a b = up a b.exp ∧
    @NumOps.pctOf (calcOps o) p a = pctOf o p a ∧ @NumOps.pctEquals (calcOps o) p q = pctEq p q ∧
    @NumOps.isZero (calcOps o) a = (a.value == 0) :=
  ⟨rfl, rfl, rfl, rfl, rfl, rfl, rfl⟩

/-- **the regenerated `(*RateTotal).matches` is `rtMatches`**: for every rate
    group, every combo and every rounding primitives, under any encoding of the
    extension maps that tells the two maps at hand apart (an injective one does) -/
theorem src_matches (o : Ops) (enc : List (String × String) → String)
    (rt : Merge.RateTotal) (c : TaxTotals.Combo) (henc : enc rt.ext = enc c.ext → rt.ext = c.ext) :
    @TaxTotalsSrc.RateTotal_matches (calcOps o) rt c = rtMatches (toCalcRT enc rt) (toCalcCombo enc c) :=
  matches_calc o enc rt c henc

/-- … hence the regenerated `matches` decides "same rate-group key" (`matches_iff_same_key`) -/
theorem spec_of_the_source_matches (o : Ops) (enc : List (String × String) → String)
    (rt : Merge.RateTotal) (c : TaxTotals.Combo) (henc : enc rt.ext = enc c.ext → rt.ext = c.ext) :
    @TaxTotalsSrc.RateTotal_matches (calcOps o) rt c = true ↔ rtKey (toCalcRT enc rt) = comboKey (toCalcCombo enc c) := by
  rw [src_matches o enc rt c henc]; exact matches_iff_same_key _ _

/-- the hypothesis is satisfiable, with equal and with different maps; 21.0% with surcharge 5.2% matches 21% with 5.20% -/
example : (sampleEnc sampleRT.ext = sampleEnc sampleCB.ext → sampleRT.ext = sampleCB.ext) ∧
    (sampleEnc sampleRT.ext = sampleEnc [("a", "2")] → sampleRT.ext = [("a", "2")]) ∧
    rtMatches (toCalcRT sampleEnc sampleRT) (toCalcCombo sampleEnc sampleCB) = true := by
  refine ⟨fun _ => rfl, fun h => absurd h (by decide), by decide +kernel⟩

/-- **the regenerated `newRateTotal` is `newRate`** (at the currency's zero `⟨0, c⟩`) -/
theorem src_newRateTotal (enc : List (String × String) → String) (cb : TaxTotals.Combo) (c : ℕ) :
    (TaxTotalsSrc.newRateTotal cb ⟨0, c⟩).map (toCalcRT enc) = some (newRate c (toCalcCombo enc cb)) := by
  rw [newRateTotal_eq]
  rcases cb with ⟨cat, cn, r, p, s, e, ret⟩
  cases s <;> rfl

/-- **the regenerated `newCategoryTotal`** is the empty category `addToCats` opens -/
theorem src_newCategoryTotal (enc : List (String × String) → String) (cb : TaxTotals.Combo) (c : ℕ) :
    (TaxTotalsSrc.newCategoryTotal cb ⟨0, c⟩).map (toCalcCat enc) =
      some { code := (toCalcCombo enc cb).cat, retained := (toCalcCombo enc cb).retained, rates := [],
             amount := ⟨0, c⟩, surcharge := none, precise := ⟨0, c⟩ } := by
  rw [newCategoryTotal_eq]; rfl

/-- **the regenerated `matchRoundingPrecision` is `mrp`**: only the key `currency` keeps the precision -/
theorem src_matchRoundingPrecision (o : Ops) (rr : String) (a b : Amount) :
    @TaxTotalsSrc.matchRoundingPrecision (calcOps o) rr a b = mrp (ruleOf rr) a b := mrp_calc o rr a b

example : ruleOf "currency" = .currency ∧ ruleOf "precise" = .precise ∧ ruleOf "" = .precise := by decide

/-- **the regenerated `PreciseAmount` / `PreciseSum`** are the model's -/
theorem src_PreciseAmount (o : Ops) (enc : List (String × String) → String) (ct : Merge.CategoryTotal) :
    @TaxTotalsSrc.CategoryTotal_PreciseAmount (calcOps o) ct = (toCalcCat enc ct).preciseAmount := by
  rw [preciseAmount_eq]; rfl

theorem src_PreciseSum (o : Ops) (enc : List (String × String) → String) (t : Merge.Total) :
    @TaxTotalsSrc.Total_PreciseSum (calcOps o) t = (toCalcTotal enc t).precise := by
  rw [preciseSum_eq]; rfl

/-- **the regenerated `Total.Category`** returns the first category with the code -/
theorem src_Category (t : Merge.Total) (code : String) :
    TaxTotalsSrc.Total_Category t code = t.categories.find? (fun ct => ct.code == code) := category_eq t code

/-! ### the four functions with write-back loops, for summaries of any shape -/

/-- **the regenerated `calculateBaseCategoryTotal` is `catAmounts`**: every rate group's amount and
    surcharge amount, the category amount and the category surcharge, for any number of rate groups
    (the receiver `t` is not used by the Go function) -/
theorem src_calculateBaseCategoryTotal (o : Ops) (enc : List (String × String) → String)
    (t : Merge.Total) (ct : Merge.CategoryTotal) (c : ℕ) (rr : String) :
    toCalcCat enc (@TaxTotalsSrc.Total_calculateBaseCategoryTotal (calcOps o) t ct ⟨0, c⟩ rr).2 =
      catAmounts o (ruleOf rr) c (toCalcCat enc ct) := by
  rw [@calcBase_eq (calcOps o)]; exact catAmounts_calc o enc c rr ct

/-- **the regenerated `calculateFinalSum`**: every category gets its amounts (`catAmounts`), the sum
    is `finalSum` of these categories, the precise sum is left alone -/
theorem src_calculateFinalSum (o : Ops) (enc : List (String × String) → String) (t : Merge.Total) (c : ℕ) (rr : String) :
    toCalcTotal enc (@TaxTotalsSrc.Total_calculateFinalSum (calcOps o) t ⟨0, c⟩ rr).2 =
      { cats := (t.categories.map (toCalcCat enc)).map (catAmounts o (ruleOf rr) c),
        sum := finalSum o (ruleOf rr) c ((t.categories.map (toCalcCat enc)).map (catAmounts o (ruleOf rr) c)),
        preciseSum := t.sumP } := by
  rw [@calcFinalSum_eq (calcOps o)]
  have hm : (t.categories.map (@calcCatG (calcOps o) ⟨0, c⟩ rr)).map (toCalcCat enc) =
      (t.categories.map (toCalcCat enc)).map (catAmounts o (ruleOf rr) c) := by
    simp only [List.map_map]
    apply List.map_congr_left; intro ct _; exact catAmounts_calc o enc c rr ct
  simp only [toCalcTotal, hm, finalSum_calc o enc]

/-- **the regenerated `round` is `roundTax`**: every amount of every rate group and category is
    rescaled to the currency's exponent, the precise amounts and the precise sum are kept -/
theorem src_round (o : Ops) (enc : List (String × String) → String) (t : Merge.Total) (zero : Amount) :
    toCalcTotal enc (@TaxTotalsSrc.Total_round (calcOps o) t zero).2 =
      roundTax o zero.exp (t.categories.map (toCalcCat enc)) t.sum := by
  rw [@round_eq (calcOps o)]; exact round_calc o enc t zero.exp

/-- **`calculateFinalSum` then `round`** (the body of `Total.Calculate`) **is the last line of
    `taxTotal`**: `roundTax` of the categories with their amounts and of their `finalSum` -/
theorem src_Calculate_body (o : Ops) (enc : List (String × String) → String) (t : Merge.Total) (c : ℕ) (rr : String) :
    toCalcTotal enc (@TaxTotalsSrc.Total_round (calcOps o)
        (@TaxTotalsSrc.Total_calculateFinalSum (calcOps o) t ⟨0, c⟩ rr).2 ⟨0, c⟩).2 =
      roundTax o c ((t.categories.map (toCalcCat enc)).map (catAmounts o (ruleOf rr) c))
        (finalSum o (ruleOf rr) c ((t.categories.map (toCalcCat enc)).map (catAmounts o (ruleOf rr) c))) :=
  Calculate_body_calc o enc t c rr

/-- **the regenerated `rateTotalFor`**, for any summary, combo and rounding primitives, under an
    injective encoding of the extension maps:
    (1) it returns a non-nil row and leaves the sums alone;
    (2) the row is the first one that `matches` the combo in the first category with the combo's
        code of the summary AFTERWARDS (`findRow`: where the returned pointer points);
    (3) writing the base accumulation of `calculateBaseRateTotals` through that pointer (`updCats`,
        which writes at the place `findRow` reads) gives `addToCats` of the summary BEFORE. -/
theorem src_rateTotalFor (o : Ops) (enc : List (String × String) → String) (henc : ∀ a b, enc a = enc b → a = b)
    (r : Rule) (c : ℕ) (t : Merge.Total) (cb : TaxTotals.Combo) (tot : Amount) :
    ∃ row t', @TaxTotalsSrc.Total_rateTotalFor (calcOps o) t cb ⟨0, c⟩ = (some row, t') ∧
      t'.sum = t.sum ∧ t'.sumP = t.sumP ∧
      @findRow (calcOps o) cb t'.categories = some row ∧
      (@updCats (calcOps o) cb (accBase o r tot) t'.categories).map (toCalcCat enc) =
        addToCats o r c (toCalcCombo enc cb) tot (t.categories.map (toCalcCat enc)) :=
  ⟨_, _, @rateTotalFor_eq (calcOps o) t cb ⟨0, c⟩, rfl, rfl, findRow_locCats o enc henc cb _ _,
    updCats_calc o enc henc r c cb tot t.categories⟩

/-- the hypothesis on the encoding is satisfiable -/
example : ∃ enc : List (String × String) → String, ∀ a b, enc a = enc b → a = b := exists_enc

/-- **both loops of `calculateBaseRateTotals` around the regenerated `rateTotalFor` are
    `baseRateTotals`** (`srcBaseRateTotals`: for every row and every combo, `rateTotalFor`, then the
    base accumulation written through the returned pointer), from the empty summary -/
theorem src_baseRateTotals (o : Ops) (enc : List (String × String) → String) (henc : ∀ a b, enc a = enc b → a = b)
    (r : Rule) (c : ℕ) (rows : List (Amount × List TaxTotals.Combo)) (s sp : Amount) :
    (srcBaseRateTotals o r c rows ⟨[], s, sp⟩).categories.map (toCalcCat enc) =
      baseRateTotals o r c (rows.map (toCalcRow enc)) :=
  srcBaseRateTotals_calc o enc henc r c rows ⟨[], s, sp⟩

/-! ### the headline theorem, stated over the regenerated `rateTotalFor` -/

/-- **partition by key, over the source**: in the summary that the two loops of
    `calculateBaseRateTotals` build with the regenerated `rateTotalFor`, the base of the group with
    key `k` in category `cat` is exactly the sum of the contributions of the combos with that
    category and that key — every combo of every row is counted in the one group with its key and in
    no other (any rows, any rule; exact arithmetic as in `partition_by_key`) -/
theorem src_partition_by_key (enc : List (String × String) → String) (henc : ∀ a b, enc a = enc b → a = b)
    (r : Rule) (c : ℕ) (cat : String) (k : Key) (rows : List (Amount × List TaxTotals.Combo)) (s sp : Amount) :
    catGroupBase cat k ((srcBaseRateTotals exactOps r c rows ⟨[], s, sp⟩).categories.map (toCalcCat enc)) =
      ((rows.map (toCalcRow enc)).map (rowGroupContrib r c cat k)).sum := by
  rw [src_baseRateTotals exactOps enc henc]; exact partition_by_key r c cat k _

/-- one step: a combo is counted in its own group and in no other (over the regenerated `rateTotalFor`) -/
theorem src_one_combo_one_group (enc : List (String × String) → String) (henc : ∀ a b, enc a = enc b → a = b)
    (r : Rule) (c : ℕ) (t : Merge.Total) (cb : TaxTotals.Combo) (tot : Amount) (cat : String) (k : Key)
    (hok : CatsOk r c (t.categories.map (toCalcCat enc))) :
    catGroupBase cat k ((srcStep exactOps r c t cb tot).categories.map (toCalcCat enc)) =
      catGroupBase cat k (t.categories.map (toCalcCat enc)) +
        (if (toCalcCombo enc cb).cat == cat ∧ comboKey (toCalcCombo enc cb) = k then contrib r c tot else 0) := by
  rw [srcStep_calc exactOps enc henc]; exact addToCats_group r c _ tot cat k _ hok

/-- non-vacuity: two rows, 21% with surcharge written `21%` / `21.0%`, and an exempt combo: the
    regenerated `rateTotalFor` puts the two spellings into one group -/
example : ((srcBaseRateTotals exactOps .precise 2
      [(⟨10000, 4⟩, [sampleCB]), (⟨5000, 4⟩, [{ sampleCB with percent := some ⟨⟨210, 3⟩⟩ }, { sampleCB with percent := none, surcharge := none }])]
      ⟨[], ⟨0, 2⟩, ⟨0, 2⟩⟩).categories.map (fun ct => ct.rates.map (fun rt => rt.base))) = [[⟨15000, 4⟩, ⟨5000, 4⟩]] ∧
    CatsOk .precise 2 [] := by
  refine ⟨by decide +kernel, fun _ h => by simp at h⟩


/-! ### the regenerated `calculateBaseRateTotals` (B24): both loops and the writes through the returned pointer -/

/-- the returned-cursor reading is used exactly where reviewed: `rateTotalFor` returns a pointer to
    `t.Categories[catTotal_at].Rates[rateTotal_at]`, `calculateBaseRateTotals` is its one user; the two
    structs that came with it are mapped field by field -/
theorem returned_cursors_as_reviewed :
    TaxTotalsSrc.returnedCursors = [("Total.rateTotalFor", "t.categories[catTotal_at].rates[rateTotal_at]")] ∧
    TaxTotalsSrc.returnedCursorUses = [("TotalCalculator.calculateBaseRateTotals", "rt := t.rateTotalFor(c, tc.zero)")] ∧
    TaxTotalsSrc.struct_taxLine = [("total", "num.Amount"), ("taxes", "Set")] ∧
    TaxTotalsSrc.structLean_taxLine = ("GoblVerif.TaxTotals.TaxLine", ["total", "taxes"]) ∧
    TaxTotalsSrc.structOmitted_taxLine = [] ∧
    TaxTotalsSrc.struct_TotalCalculator = [("Country", "l10n.TaxCountryCode"), ("Rounding", "cbc.Key"),
      ("Currency", "currency.Code"), ("Tags", "[]cbc.Key"), ("Date", "cal.Date"), ("Lines", "[]TaxableLine"),
      ("Includes", "cbc.Code"), ("zero", "num.Amount")] ∧
    TaxTotalsSrc.structOmitted_TotalCalculator = [] := by decide

/-- **the `_at` twin of the regenerated `rateTotalFor`**: the index path it reports is that of the first
    category with the combo's code and of the first row in it that `matches` (the lengths where there
    is none: the places of the appended category / row), and writing ANY `f` of the returned row at
    that path is writing it at the place `findRow` reads (`updCats`) -/
theorem src_rateTotalFor_at (o : Ops) (enc : List (String × String) → String) (henc : ∀ a b, enc a = enc b → a = b)
    (c : ℕ) (t : Merge.Total) (cb : TaxTotals.Combo) (f : Merge.RateTotal → Merge.RateTotal) :
    ∃ i j row t', @TaxTotalsSrc.Total_rateTotalFor_at (calcOps o) t cb ⟨0, c⟩ = (some i, some j) ∧
      @TaxTotalsSrc.Total_rateTotalFor (calcOps o) t cb ⟨0, c⟩ = (some row, t') ∧
      setAt i j (f row) t'.categories = @updCats (calcOps o) cb f t'.categories :=
  ⟨_, _, _, _, @rateTotalFor_at_eq (calcOps o) t cb ⟨0, c⟩, @rateTotalFor_eq (calcOps o) t cb ⟨0, c⟩,
    setAt_locCats o enc henc cb ⟨0, c⟩ f t.categories⟩

/-- **the regenerated `(*TotalCalculator).calculateBaseRateTotals` is `baseRateTotals`**: for any lines, any
    combos, any rounding rule and rounding primitives, from the empty summary `Calculate` starts with
    (`tc.zero` the currency's zero) -/
theorem src_calculateBaseRateTotals (o : Ops) (enc : List (String × String) → String) (henc : ∀ a b, enc a = enc b → a = b)
    (tc : TaxTotals.Calculator) (c : ℕ) (hz : tc.zero = ⟨0, c⟩) (ls : List TaxTotals.TaxLine) (s sp : Amount) :
    (@TaxTotalsSrc.TotalCalculator_calculateBaseRateTotals (calcOps o) tc ls ⟨[], s, sp⟩).2.categories.map (toCalcCat enc) =
      baseRateTotals o (ruleOf tc.rounding) c ((lineRows ls).map (toCalcRow enc)) := by
  rw [calculateBaseRateTotals_eq o enc henc tc c hz]; exact src_baseRateTotals o enc henc _ c _ s sp

/-- … and it is the hand-written reading `srcBaseRateTotals` of B18, from ANY summary (sums untouched) -/
theorem src_calculateBaseRateTotals_loops (o : Ops) (enc : List (String × String) → String) (henc : ∀ a b, enc a = enc b → a = b)
    (tc : TaxTotals.Calculator) (c : ℕ) (hz : tc.zero = ⟨0, c⟩) (ls : List TaxTotals.TaxLine) (t : Merge.Total) :
    (@TaxTotalsSrc.TotalCalculator_calculateBaseRateTotals (calcOps o) tc ls t).2 =
      srcBaseRateTotals o (ruleOf tc.rounding) c (lineRows ls) t :=
  calculateBaseRateTotals_eq o enc henc tc c hz ls t

/-- **partition by key, over the regenerated `calculateBaseRateTotals`** (the C02 headline): in the summary
    the regenerated function builds, the base of the group with key `k` in category `cat` is exactly
    the sum of the contributions of the combos with that category and that key -/
theorem src_partition_by_key_regenerated (enc : List (String × String) → String) (henc : ∀ a b, enc a = enc b → a = b)
    (tc : TaxTotals.Calculator) (c : ℕ) (hz : tc.zero = ⟨0, c⟩) (cat : String) (k : Key)
    (ls : List TaxTotals.TaxLine) (s sp : Amount) :
    catGroupBase cat k ((@TaxTotalsSrc.TotalCalculator_calculateBaseRateTotals (calcOps exactOps) tc ls ⟨[], s, sp⟩).2.categories.map (toCalcCat enc)) =
      (((lineRows ls).map (toCalcRow enc)).map (rowGroupContrib (ruleOf tc.rounding) c cat k)).sum := by
  rw [src_calculateBaseRateTotals exactOps enc henc tc c hz]; exact partition_by_key _ c cat k _

/-- non-vacuity: a calculator at the euro's zero, two lines; `21%` and `21.0%` land in one group (kernel
    evaluation of the REGENERATED loops, the `_at` twin included) -/
example : ((@TaxTotalsSrc.TotalCalculator_calculateBaseRateTotals (calcOps exactOps)
      { country := "ES", rounding := "precise", currency := "EUR", tags := [], date := "", lines := [], includes := "", zero := ⟨0, 2⟩ }
      [⟨⟨10000, 4⟩, [sampleCB]⟩, ⟨⟨5000, 4⟩, [{ sampleCB with percent := some ⟨⟨210, 3⟩⟩ }, { sampleCB with percent := none, surcharge := none }]⟩]
      ⟨[], ⟨0, 2⟩, ⟨0, 2⟩⟩).2.categories.map (fun ct => ct.rates.map (fun rt => rt.base))) = [[⟨15000, 4⟩, ⟨5000, 4⟩]] := by
  decide +kernel

end Src

/-! ## pinned source shapes (regenerated facts; tools/pin_calc_expect.py) -/

namespace ExpectCalc
open GoblVerif.Generated.Calc

theorem calls_TotalCalculator_Calculate_as_modelled : calls_TotalCalculator_Calculate =
    ["Zero", "Def", "make", "mapTaxLines", "prepareLines", "removeIncludedTaxes", "calculateBaseRateTotals", "Calculate"] := rfl
theorem conds_TotalCalculator_Calculate_as_modelled : conds_TotalCalculator_Calculate =
    ["err := tc.prepareLines(taxLines); err != nil", "err := tc.removeIncludedTaxes(taxLines); err != nil"] := rfl
theorem stmts_TotalCalculator_Calculate_as_modelled : stmts_TotalCalculator_Calculate =
    ["tc.zero = tc.Currency.Def().Zero()", "t.Categories = make([]*CategoryTotal, 0)", "t.Sum = tc.zero", "taxLines := mapTaxLines(tc.Lines)", "err := tc.prepareLines(taxLines)", "return err", "err := tc.removeIncludedTaxes(taxLines)", "return err", "return nil"] := rfl
theorem calls_TotalCalculator_prepareLines_as_modelled : calls_TotalCalculator_prepareLines =
    ["calculate", "RescaleUp", "Exp"] := rfl
theorem conds_TotalCalculator_prepareLines_as_modelled : conds_TotalCalculator_prepareLines =
    ["err := combo.calculate(tc.Country, tc.Tags, tc.Date); err != nil"] := rfl
theorem stmts_TotalCalculator_prepareLines_as_modelled : stmts_TotalCalculator_prepareLines =
    ["err := combo.calculate(tc.Country, tc.Tags, tc.Date)", "return err", "tl.total = tl.total.RescaleUp(tc.zero.Exp() + 2)", "return nil"] := rfl
theorem calls_TotalCalculator_removeIncludedTaxes_as_modelled : calls_TotalCalculator_removeIncludedTaxes =
    ["IsEmpty", "Get", "WithMessage", "String", "Remove"] := rfl
theorem conds_TotalCalculator_removeIncludedTaxes_as_modelled : conds_TotalCalculator_removeIncludedTaxes =
    ["tc.Includes.IsEmpty()", "c := tl.taxes.Get(tc.Includes); c != nil", "c.retained", "c.Percent == nil"] := rfl
theorem stmts_TotalCalculator_removeIncludedTaxes_as_modelled : stmts_TotalCalculator_removeIncludedTaxes =
    ["return nil", "c := tl.taxes.Get(tc.Includes)", "return ErrInvalidPricesInclude.WithMessage(\"cannot include retained category '%s'\", tc.Includes.String())", "tl.total = tl.total.Remove(*c.Percent)", "return nil"] := rfl
theorem calls_TotalCalculator_calculateBaseRateTotals_as_modelled : calls_TotalCalculator_calculateBaseRateTotals =
    ["rateTotalFor", "matchRoundingPrecision", "Add"] := rfl
theorem conds_TotalCalculator_calculateBaseRateTotals_as_modelled : conds_TotalCalculator_calculateBaseRateTotals =
    [] := rfl
theorem stmts_TotalCalculator_calculateBaseRateTotals_as_modelled : stmts_TotalCalculator_calculateBaseRateTotals =
    ["rt := t.rateTotalFor(c, tc.zero)", "rt.Base = matchRoundingPrecision(tc.Rounding, rt.Base, tl.total)", "rt.Base = rt.Base.Add(tl.total)"] := rfl
theorem calls_Total_rateTotalFor_as_modelled : calls_Total_rateTotalFor =
    ["newCategoryTotal", "append", "matches", "newRateTotal", "append"] := rfl
theorem conds_Total_rateTotalFor_as_modelled : conds_Total_rateTotalFor =
    ["ct.Code == c.Category", "catTotal == nil", "rt.matches(c)", "rateTotal == nil"] := rfl
theorem stmts_Total_rateTotalFor_as_modelled : stmts_Total_rateTotalFor =
    ["catTotal = ct", "catTotal = newCategoryTotal(c, zero)", "t.Categories = append(t.Categories, catTotal)", "rateTotal = rt", "rateTotal = newRateTotal(c, zero)", "catTotal.Rates = append(catTotal.Rates, rateTotal)", "return rateTotal"] := rfl
theorem calls_newRateTotal_as_modelled : calls_newRateTotal =
    ["new"] := rfl
theorem conds_newRateTotal_as_modelled : conds_newRateTotal =
    ["c.Percent != nil", "c.Surcharge != nil"] := rfl
theorem stmts_newRateTotal_as_modelled : stmts_newRateTotal =
    ["rt := new(RateTotal)", "rt.Key = c.Rate", "rt.Country = c.Country", "rt.Ext = c.Ext", "pc := *c.Percent", "rt.Percent = &pc", "rt.Base = zero", "rt.Amount = zero", "rt.Surcharge = &RateTotalSurcharge{ Percent: *c.Surcharge, Amount: zero, }", "return rt"] := rfl
theorem calls_newCategoryTotal_as_modelled : calls_newCategoryTotal =
    ["new", "make"] := rfl
theorem conds_newCategoryTotal_as_modelled : conds_newCategoryTotal =
    [] := rfl
theorem stmts_newCategoryTotal_as_modelled : stmts_newCategoryTotal =
    ["ct := new(CategoryTotal)", "ct.Code = c.Category", "ct.Rates = make([]*RateTotal, 0)", "ct.Amount = zero", "ct.amount = zero", "ct.Retained = c.retained", "return ct"] := rfl
theorem calls_RateTotal_matches_as_modelled : calls_RateTotal_matches =
    ["Equals", "Equals", "Equals"] := rfl
theorem conds_RateTotal_matches_as_modelled : conds_RateTotal_matches =
    ["!rt.Ext.Equals(c.Ext)", "rt.Country != c.Country", "rt.Percent == nil || c.Percent == nil", "rt.Surcharge != nil || c.Surcharge != nil", "rt.Surcharge == nil || c.Surcharge == nil", "!rt.Surcharge.Percent.Equals(*c.Surcharge)"] := rfl
theorem stmts_RateTotal_matches_as_modelled : stmts_RateTotal_matches =
    ["return false", "return false", "return rt.Percent == nil && c.Percent == nil", "return false", "return false", "return rt.Percent.Equals(*c.Percent)"] := rfl
theorem calls_Total_Calculate_as_modelled : calls_Total_Calculate =
    ["Zero", "Def", "calculateFinalSum", "round"] := rfl
theorem conds_Total_Calculate_as_modelled : conds_Total_Calculate =
    ["t == nil"] := rfl
theorem stmts_Total_Calculate_as_modelled : stmts_Total_Calculate =
    ["zero := cur.Def().Zero()"] := rfl
theorem calls_Total_calculateBaseCategoryTotal_as_modelled : calls_Total_calculateBaseCategoryTotal =
    ["Of", "matchRoundingPrecision", "Add", "Of", "matchRoundingPrecision", "Add"] := rfl
theorem conds_Total_calculateBaseCategoryTotal_as_modelled : conds_Total_calculateBaseCategoryTotal =
    ["rt.Percent == nil", "rt.Surcharge != nil", "ct.Surcharge == nil"] := rfl
theorem stmts_Total_calculateBaseCategoryTotal_as_modelled : stmts_Total_calculateBaseCategoryTotal =
    ["ct.Amount = zero", "ct.Surcharge = nil", "rt.Amount = zero", "base := rt.Base", "rt.Amount = rt.Percent.Of(rt.Base)", "ct.Amount = matchRoundingPrecision(rr, ct.Amount, rt.Amount)", "ct.Amount = ct.Amount.Add(rt.Amount)", "rt.Surcharge.Amount = rt.Surcharge.Percent.Of(base)", "ct.Surcharge = &zero", "a := rt.Surcharge.Amount", "x := *ct.Surcharge", "x = matchRoundingPrecision(rr, x, a)", "x = x.Add(a)", "ct.Surcharge = &x"] := rfl
theorem calls_Total_calculateFinalSum_as_modelled : calls_Total_calculateFinalSum =
    ["calculateBaseCategoryTotal", "matchRoundingPrecision", "Subtract", "Subtract", "Add", "Add"] := rfl
theorem conds_Total_calculateFinalSum_as_modelled : conds_Total_calculateFinalSum =
    ["ct.Retained", "ct.Surcharge != nil", "ct.Surcharge != nil"] := rfl
theorem stmts_Total_calculateFinalSum_as_modelled : stmts_Total_calculateFinalSum =
    ["t.Sum = zero", "t.Sum = matchRoundingPrecision(rr, t.Sum, ct.Amount)", "t.Sum = t.Sum.Subtract(ct.Amount)", "t.Sum = t.Sum.Subtract(*ct.Surcharge)", "t.Sum = t.Sum.Add(ct.Amount)", "t.Sum = t.Sum.Add(*ct.Surcharge)"] := rfl
theorem calls_matchRoundingPrecision_as_modelled : calls_matchRoundingPrecision =
    ["MatchPrecision"] := rfl
theorem conds_matchRoundingPrecision_as_modelled : conds_matchRoundingPrecision =
    [] := rfl
theorem stmts_matchRoundingPrecision_as_modelled : stmts_matchRoundingPrecision =
    ["return a", "return a.MatchPrecision(b)"] := rfl
theorem calls_Amount_Remove_as_modelled : calls_Amount_Remove =
    ["Divide", "Factor"] := rfl
theorem conds_Amount_Remove_as_modelled : conds_Amount_Remove =
    [] := rfl
theorem stmts_Amount_Remove_as_modelled : stmts_Amount_Remove =
    ["return a.Divide(percent.Factor())"] := rfl

end ExpectCalc

end GoblVerif.Props.C02
