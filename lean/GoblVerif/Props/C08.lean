/-
  C08 — The header digest makes every change to the document evident.

  Corollaries of C07's injectivity (`canon_injective`) and of the decision
  logic of Validate/verifyDigest/Digest.Equals (Model/Digest.lean).  The hash
  is abstract; its collision-freeness is the structure field `Hash.inj`, an
  explicit hypothesis of every theorem that needs it (no axiom).

  `d.wf` = every float leaf of the document carries well-formed shortest
  digits (what strconv yields; hypothesis about the trusted formatter).

  Second part (section `edits`): the edits the property names — a value
  altered, a member added or removed, array elements reordered — as functions
  on documents (Model/JsonEdit.lean), the exact condition under which each
  changes the content (Proofs/DigestEdits.lean), and the corollaries that each
  of them, performed on the document of a calculated envelope at any depth, is
  `Evident` (Spec/C08.lean) — with no hypothesis about the content left.

  Third part (`namespace Expect`): the source of every function between the
  document and the verdict of Validate, regenerated from /repo on every run
  (Generated/DigestFacts.lean), pinned to what the models were written against.
-/
import GoblVerif.Model.Digest
import GoblVerif.Spec.C08
import GoblVerif.Proofs.DigestEdits
import GoblVerif.Props.C07
import GoblVerif.Generated.DigestFacts
import GoblVerif.Generated.HeaderFacts
import GoblVerif.Generated.EnvelopeFacts

namespace GoblVerif.Props.C08
open GoblVerif GoblVerif.Spec.C07 GoblVerif.C14n GoblVerif.Digest

/-- equal digests ⇒ equal content (this is where `Hash.inj` is used) -/
theorem digest_injective (h : Hash) (d d' : J) (hw : d.wf = true) (hw' : d'.wf = true) (x : Dig)
    (h1 : digest h d = some x) (h2 : digest h d' = some x) : norm d = norm d' := by
  unfold digest at h1 h2
  cases hc : canon d with
  | none => simp [hc] at h1
  | some b =>
    cases hc' : canon d' with
    | none => simp [hc'] at h2
    | some b' =>
      simp only [hc, hc', Option.map_some, Option.some.injEq] at h1 h2
      have : h.H b = h.H b' := by
        have := h1.trans h2.symm
        simpa [sha256Digest] using this
      have hb : b = b' := h.inj b b' this
      subst hb
      exact C07.canon_injective d d' hw hw' b hc hc'

/-- a calculated envelope validates (when its document is valid) -/
theorem validate_after_calculate (h : Hash) (docCalc : J → Option J) (docValid : J → Bool) (e e' : Env)
    (hc : calculate h docCalc e = some e') (hv : docValid e'.doc = true) :
    validate h docValid e' = .ok := by
  unfold calculate at hc
  cases h1 : docCalc e.doc with
  | none => simp [h1] at hc
  | some d =>
    cases h2 : digest h d with
    | none => simp [h1, h2] at hc
    | some dg =>
      simp only [h1, h2, Option.some.injEq] at hc
      subst hc
      simp only [validate, verifyDigest] at hv ⊢
      simp [hv, h2, Dig.equals]

/-- the content was changed without recalculating ⇒ validation does not succeed;
    it fails with a *digest* error whenever the changed document is structurally
    valid and canonicalisable -/
theorem tamper_detected (h : Hash) (docValid : J → Bool) (d d' : J) (dg : Dig)
    (hw : d.wf = true) (hw' : d'.wf = true)
    (hdig : digest h d = some dg) (hne : norm d ≠ norm d') :
    validate h docValid { dig := some dg, doc := d' } ≠ .ok ∧
    (docValid d' = true → canon d' ≠ none → validate h docValid { dig := some dg, doc := d' } = .digest) := by
  have key : ∀ d2, digest h d' = some d2 → dg.equals d2 = false := by
    intro d2 h2
    cases he : dg.equals d2 with
    | false => rfl
    | true =>
      simp only [Dig.equals, Bool.and_eq_true, beq_iff_eq] at he
      have : dg = d2 := by
        cases dg; cases d2; simp_all
      subst this
      exact absurd (digest_injective h d d' hw hw' dg hdig h2) hne
  constructor
  · simp only [validate, verifyDigest]
    cases docValid d' with
    | false => simp
    | true =>
      cases h2 : digest h d' with
      | none => simp
      | some d2 => simp [key d2 h2]
  · intro hv hc
    simp only [validate, verifyDigest, hv, if_true]
    cases h2 : digest h d' with
    | none =>
      unfold digest at h2
      cases hcd : canon d' with
      | none => exact absurd hcd hc
      | some b => simp [hcd] at h2
    | some d2 => simp [key d2 h2]

/-- a digest produced with a different algorithm name never validates -/
theorem algorithm_is_compared (h : Hash) (docValid : J → Bool) (d : J) (dg : Dig)
    (halg : dg.alg ≠ algSHA256) : validate h docValid { dig := some dg, doc := d } ≠ .ok := by
  simp only [validate, verifyDigest]
  cases docValid d with
  | false => simp
  | true =>
    cases h2 : digest h d with
    | none => simp
    | some d2 =>
      have : d2.alg = algSHA256 := by
        unfold digest at h2
        cases hc : canon d with
        | none => simp [hc] at h2
        | some b => simp [hc, sha256Digest] at h2; rw [← h2]
      have : dg.equals d2 = false := by
        simp only [Dig.equals, Bool.and_eq_false_iff, beq_eq_false_iff_ne, ne_eq]
        left; rw [this]; exact halg
      simp [this]

/-- after recalculating, the digest of changed content differs from the previous one -/
theorem recalc_changes_digest (h : Hash) (d d' : J) (hw : d.wf = true) (hw' : d'.wf = true)
    (dg dg' : Dig) (h1 : digest h d = some dg) (h2 : digest h d' = some dg')
    (hne : norm d ≠ norm d') : dg ≠ dg' := by
  intro e; subst e
  exact hne (digest_injective h d d' hw hw' dg h1 h2)

/-- re-encodings that keep the content keep the digest … -/
theorem reencode_same_digest (h : Hash) (d d' : J) (hn : norm d = norm d') : digest h d = digest h d' := by
  unfold digest; rw [C07.canon_of_norm_eq d d' hn]

/-- … in particular a different member order (distinct keys) -/
theorem reorder_same_digest (h : Hash) (kvs kvs' : KL) (hp : kvs.toList.Perm kvs'.toList)
    (hn : (KL.keys kvs).Nodup) : digest h (.obj kvs) = digest h (.obj kvs') := by
  unfold digest; rw [C07.canon_perm kvs kvs' hp hn]

/-- … and null members added or removed -/
theorem nulls_same_digest (h : Hash) (kvs : KL) :
    digest h (.obj (KL.ofList (kvs.toList.filter (fun p => !p.2.isNull)))) = digest h (.obj kvs) := by
  unfold digest; rw [C07.canon_drop_null kvs]

/-- hence a re-encoded calculated envelope keeps validating -/
theorem reencoded_still_validates (h : Hash) (docValid : J → Bool) (d d' : J) (dg : Dig)
    (hn : norm d = norm d') (hv : validate h docValid { dig := some dg, doc := d } = .ok)
    (hv' : docValid d' = true) : validate h docValid { dig := some dg, doc := d' } = .ok := by
  simp only [validate, verifyDigest] at hv ⊢
  rw [← reencode_same_digest h d d' hn, hv']
  cases hd : docValid d with
  | false => simp [hd] at hv
  | true => simpa [hd] using hv

/-! non-vacuity: the hypotheses of `tamper_detected` are satisfiable (identity "hash") -/
example : ∃ (h : Hash) (d d' : J) (dg : Dig), d.wf = true ∧ d'.wf = true ∧ digest h d = some dg ∧
    norm d ≠ norm d' ∧ validate h (fun _ => true) { dig := some dg, doc := d' } = .digest :=
  ⟨⟨id, fun _ _ h => h⟩, .obj (.cons [0x61] (.int 1) .nil), .obj (.cons [0x61] (.int 2) .nil),
    ⟨algSHA256, [0x7B, 0x22, 0x61, 0x22, 0x3A, 0x31, 0x7D]⟩, by decide, by decide, by decide,
    (by intro h; have := congrArg text h; revert this; decide), by decide⟩

/-! ## the edits the property names change the content

"a value altered, a member added or removed, array elements reordered": the edit functions are
those of Model/JsonEdit.lean (`KL.set`, `KL.insertAt`, `KL.erase`, `JL.swap`, and `J.set p` for the
same at the end of a path `p` of member names and array indices).  Each theorem says exactly when
the edit changes the logical content `norm` — so that the theorems about digests below need no
hypothesis of the form `norm d ≠ norm d'`.  A member name addresses the first member of that name;
no theorem of this section needs the names to be distinct (the model keeps both of two equal
names, as c14n does), so each holds in particular for the documents `json.Marshal` writes. -/
section edits
open GoblVerif.Edit GoblVerif.Proofs.DigestEdits GoblVerif.Spec.C08

/-- the value `v` of member `k` replaced by `v'`: the object keeps its content iff `v'` has the
    content of `v` (also when one of the two is null: that is a member removed or added) -/
theorem set_member_content_iff (k : Str) (kvs : KL) (v v' : J) (hg : KL.get? k kvs = some v) :
    norm (.obj (KL.set k v' kvs)) = norm (.obj kvs) ↔ norm v' = norm v :=
  norm_obj_set_iff k kvs v v' hg

/-- a value altered -/
theorem set_member_changes_content (k : Str) (kvs : KL) (v v' : J) (hg : KL.get? k kvs = some v)
    (hne : norm v' ≠ norm v) : norm (.obj (KL.set k v' kvs)) ≠ norm (.obj kvs) :=
  fun h => hne ((norm_obj_set_iff k kvs v v' hg).mp h)

/-- … at any depth: the value at the end of a path replaced; the document keeps its content iff the
    new value has the content of the old one -/
theorem edit_at_path_content_iff (p : Path) (d v v' : J) (hg : J.get? p d = some v) :
    norm (J.set p v' d) = norm d ↔ norm v' = norm v :=
  norm_set_iff p d v v' hg

theorem edit_at_path_changes_content (p : Path) (d v v' : J) (hg : J.get? p d = some v)
    (hne : norm v' ≠ norm v) : norm (J.set p v' d) ≠ norm d :=
  fun h => hne ((norm_set_iff p d v v' hg).mp h)

/-- a leaf altered at any depth — another integer, another string, the other truth value, another
    float64, a number of another kind (`1` is an integer, `1.0` is a float64), a leaf of another
    type, null against anything else — changes the content of the document -/
theorem leaf_altered_changes_content (p : Path) (d : J) (a a' : Atom) (hg : J.get? p d = some (.atom a))
    (hne : a' ≠ a) : norm (J.set p (.atom a') d) ≠ norm d := by
  apply edit_at_path_changes_content p d (.atom a) (.atom a') hg
  intro h
  rw [norm_atom, norm_atom] at h
  exact hne (J.atom.inj h)

/-- a member added (anywhere among the members, under any name): the object keeps its content
    iff the value of the new member is null -/
theorem add_member_content_iff (n : Nat) (k : Str) (v : J) (kvs : KL) :
    norm (.obj (KL.insertAt n k v kvs)) = norm (.obj kvs) ↔ v.isNull = true :=
  norm_obj_insert_iff n k v kvs

theorem add_member_changes_content (n : Nat) (k : Str) (v : J) (kvs : KL) (hv : v.isNull = false) :
    norm (.obj (KL.insertAt n k v kvs)) ≠ norm (.obj kvs) := by
  intro h; rw [(norm_obj_insert_iff n k v kvs).mp h] at hv; exact absurd hv (by decide)

/-- a member removed: the object keeps its content iff the value of that member was null -/
theorem remove_member_content_iff (k : Str) (kvs : KL) (v : J) (hg : KL.get? k kvs = some v) :
    norm (.obj (KL.erase k kvs)) = norm (.obj kvs) ↔ v.isNull = true :=
  norm_obj_erase_iff k kvs v hg

theorem remove_member_changes_content (k : Str) (kvs : KL) (v : J) (hg : KL.get? k kvs = some v)
    (hv : v.isNull = false) : norm (.obj (KL.erase k kvs)) ≠ norm (.obj kvs) := by
  intro h; rw [(norm_obj_erase_iff k kvs v hg).mp h] at hv; exact absurd hv (by decide)

/-- two array elements `i ≠ j` exchanged: the array keeps its content iff the two elements have
    the same content (arrays are ordered: `norm` keeps the order of the elements) -/
theorem swap_elements_content_iff (i j : Nat) (xs : JL) (a b : J) (hij : i ≠ j)
    (hi : JL.get? i xs = some a) (hj : JL.get? j xs = some b) :
    norm (.arr (JL.swap i j xs)) = norm (.arr xs) ↔ norm a = norm b :=
  norm_arr_swap_iff i j xs a b hij hi hj

theorem swap_elements_changes_content (i j : Nat) (xs : JL) (a b : J) (hij : i ≠ j)
    (hi : JL.get? i xs = some a) (hj : JL.get? j xs = some b) (hne : norm a ≠ norm b) :
    norm (.arr (JL.swap i j xs)) ≠ norm (.arr xs) :=
  fun h => hne ((norm_arr_swap_iff i j xs a b hij hi hj).mp h)

/-- array elements reordered in any way (rotated, reversed, permuted): as soon as some position
    holds another content than before, the content of the array has changed -/
theorem reorder_changes_content (xs ys : JL) (i : Nat) (a b : J)
    (hx : JL.get? i xs = some a) (hy : JL.get? i ys = some b) (hne : norm b ≠ norm a) :
    norm (.arr ys) ≠ norm (.arr xs) :=
  fun h => hne (norm_arr_position ys xs i b a h hy hx)

/-- an element dropped or added -/
theorem resize_changes_content (xs ys : JL) (hl : ys.toList.length ≠ xs.toList.length) :
    norm (.arr ys) ≠ norm (.arr xs) :=
  fun h => hl (norm_arr_length ys xs h)

/-- the other way round: the content of a document determines the content of the value at every
    path (member names along the path used once in their objects, as in everything `json.Marshal`
    writes) -/
theorem content_determines_path (p : Path) (d1 d2 v1 v2 : J) (h : norm d1 = norm d2)
    (c1 : J.distinctAlong p d1 = true) (c2 : J.distinctAlong p d2 = true)
    (g1 : J.get? p d1 = some v1) (g2 : J.get? p d2 = some v2) : norm v1 = norm v2 :=
  norm_eq_get p d1 d2 v1 v2 h c1 c2 g1 g2

/-- the oracle of Spec/C08 (`applyOp`: the edit performed, and "does the content change?" decided by
    looking at the edited place only — this is what the driver answers to the harness) is right:
    its verdict is true exactly when the edited document has another content -/
theorem edit_verdict_sound (op : Op) (p : Path) (d d' : J) (c : Bool)
    (ha : applyOp op p d = some (d', c)) : c = true ↔ norm d' ≠ norm d := by
  have hs : ∀ a b : J, sameContent a b = true ↔ norm a = norm b := fun a b => J_beq_iff _ _
  cases op with
  | set v' =>
    simp only [applyOp] at ha
    cases hg : J.get? p d with
    | none => simp [hg] at ha
    | some v =>
      simp only [hg, Option.some.injEq, Prod.mk.injEq] at ha
      obtain ⟨rfl, rfl⟩ := ha
      rw [Ne, edit_at_path_content_iff p d v v' hg, ← hs]
      cases sameContent v' v <;> simp
  | ins n k v =>
    simp only [applyOp] at ha
    cases hg : J.get? p d with
    | none => simp [hg] at ha
    | some w =>
      cases w with
      | atom _ => simp [hg] at ha
      | arr _ => simp [hg] at ha
      | obj kvs =>
        simp only [hg, Option.some.injEq, Prod.mk.injEq] at ha
        obtain ⟨rfl, rfl⟩ := ha
        rw [Ne, edit_at_path_content_iff p d _ _ hg, add_member_content_iff]
        cases v.isNull <;> simp
  | del k =>
    simp only [applyOp] at ha
    cases hg : J.get? p d with
    | none => simp [hg] at ha
    | some w =>
      cases w with
      | atom _ => simp [hg] at ha
      | arr _ => simp [hg] at ha
      | obj kvs =>
        simp only [hg] at ha
        cases hk : KL.get? k kvs with
        | none => simp [hk] at ha
        | some x =>
          simp only [hk, Option.some.injEq, Prod.mk.injEq] at ha
          obtain ⟨rfl, rfl⟩ := ha
          rw [Ne, edit_at_path_content_iff p d _ _ hg, remove_member_content_iff k kvs x hk]
          cases x.isNull <;> simp
  | swap i j =>
    simp only [applyOp] at ha
    cases hg : J.get? p d with
    | none => simp [hg] at ha
    | some w =>
      cases w with
      | atom _ => simp [hg] at ha
      | obj _ => simp [hg] at ha
      | arr xs =>
        simp only [hg] at ha
        cases hi : JL.get? i xs with
        | none => simp [hi] at ha
        | some a =>
          cases hj : JL.get? j xs with
          | none => simp [hi, hj] at ha
          | some b =>
            simp only [hi, hj] at ha
            by_cases hij : i = j
            · simp [hij] at ha
            · simp only [hij, if_false, Option.some.injEq, Prod.mk.injEq] at ha
              obtain ⟨rfl, rfl⟩ := ha
              rw [Ne, edit_at_path_content_iff p d _ _ hg, swap_elements_content_iff i j xs a b hij hi hj, ← hs]
              cases sameContent a b <;> simp

/-! ## … and are evident (Spec/C08.lean: `Evident`): no hypothesis about the content is left -/

/-- a calculated envelope carries the digest of its document -/
theorem calculated_digest (h : Hash) (docCalc : J → Option J) (e0 e : Env)
    (hc : calculate h docCalc e0 = some e) : ∃ dg, e.dig = some dg ∧ digest h e.doc = some dg := by
  unfold calculate at hc
  cases h1 : docCalc e0.doc with
  | none => simp [h1] at hc
  | some d =>
    cases h2 : digest h d with
    | none => simp [h1, h2] at hc
    | some dg =>
      simp only [h1, h2, Option.some.injEq] at hc
      subst hc
      exact ⟨dg, rfl, h2⟩

/-- the bridge: a document of another content in a calculated envelope is evident -/
theorem changed_content_evident (h : Hash) (docValid : J → Bool) (docCalc : J → Option J) (e0 e : Env)
    (d' : J) (hc : calculate h docCalc e0 = some e) (hw : e.doc.wf = true) (hw' : d'.wf = true)
    (hne : norm d' ≠ norm e.doc) : Evident h docValid e d' := by
  obtain ⟨dg, hd, hdig⟩ := calculated_digest h docCalc e0 e hc
  have t := tamper_detected h docValid e.doc d' dg hw hw' hdig (fun x => hne x.symm)
  unfold Evident tampered
  rw [hd]
  refine ⟨t.1, t.2, ?_⟩
  intro dg' h2 x
  exact recalc_changes_digest h e.doc d' hw hw' dg dg' hdig h2 (fun x => hne x.symm) (Option.some.inj x).symm

/-- the value at any path of the document of a calculated envelope replaced by a value of another
    content: evident.  Every theorem below is an instance. -/
theorem edit_at_path_detected (h : Hash) (docValid : J → Bool) (docCalc : J → Option J) (e0 e : Env)
    (p : Path) (v v' : J) (hc : calculate h docCalc e0 = some e) (hw : e.doc.wf = true) (hw' : v'.wf = true)
    (hg : J.get? p e.doc = some v) (hne : norm v' ≠ norm v) :
    Evident h docValid e (J.set p v' e.doc) :=
  changed_content_evident h docValid docCalc e0 e _ hc hw (wf_set v' hw' p e.doc hw)
    (edit_at_path_changes_content p e.doc v v' hg hne)

/-- a value altered: any leaf, at any depth, replaced by any other leaf -/
theorem value_altered_detected (h : Hash) (docValid : J → Bool) (docCalc : J → Option J) (e0 e : Env)
    (p : Path) (a a' : Atom) (hc : calculate h docCalc e0 = some e) (hw : e.doc.wf = true) (hw' : a'.wf = true)
    (hg : J.get? p e.doc = some (.atom a)) (hne : a' ≠ a) :
    Evident h docValid e (J.set p (.atom a') e.doc) :=
  changed_content_evident h docValid docCalc e0 e _ hc hw (wf_set (.atom a') hw' p e.doc hw)
    (leaf_altered_changes_content p e.doc a a' hg hne)

/-- a member with a value other than null added to any object of the document -/
theorem member_added_detected (h : Hash) (docValid : J → Bool) (docCalc : J → Option J) (e0 e : Env)
    (p : Path) (kvs : KL) (n : Nat) (k : Str) (v : J) (hc : calculate h docCalc e0 = some e)
    (hw : e.doc.wf = true) (hwv : v.wf = true) (hg : J.get? p e.doc = some (.obj kvs)) (hv : v.isNull = false) :
    Evident h docValid e (J.set p (.obj (KL.insertAt n k v kvs)) e.doc) :=
  edit_at_path_detected h docValid docCalc e0 e p (.obj kvs) _ hc hw
    (wf_insertAt k v hwv n kvs (by simpa [J.wf] using wf_get? p e.doc _ hg hw)) hg
    (add_member_changes_content n k v kvs hv)

/-- a member whose value is not null removed from any object of the document -/
theorem member_removed_detected (h : Hash) (docValid : J → Bool) (docCalc : J → Option J) (e0 e : Env)
    (p : Path) (kvs : KL) (k : Str) (v : J) (hc : calculate h docCalc e0 = some e)
    (hw : e.doc.wf = true) (hg : J.get? p e.doc = some (.obj kvs)) (hk : KL.get? k kvs = some v)
    (hv : v.isNull = false) :
    Evident h docValid e (J.set p (.obj (KL.erase k kvs)) e.doc) :=
  edit_at_path_detected h docValid docCalc e0 e p (.obj kvs) _ hc hw
    (wf_erase k kvs (by simpa [J.wf] using wf_get? p e.doc _ hg hw)) hg
    (remove_member_changes_content k kvs v hk hv)

/-- two elements of different content exchanged in any array of the document -/
theorem elements_swapped_detected (h : Hash) (docValid : J → Bool) (docCalc : J → Option J) (e0 e : Env)
    (p : Path) (xs : JL) (i j : Nat) (a b : J) (hc : calculate h docCalc e0 = some e)
    (hw : e.doc.wf = true) (hg : J.get? p e.doc = some (.arr xs)) (hij : i ≠ j)
    (hi : JL.get? i xs = some a) (hj : JL.get? j xs = some b) (hne : norm a ≠ norm b) :
    Evident h docValid e (J.set p (.arr (JL.swap i j xs)) e.doc) :=
  edit_at_path_detected h docValid docCalc e0 e p (.arr xs) _ hc hw
    (wf_swap i j xs (by simpa [J.wf] using wf_get? p e.doc _ hg hw)) hg
    (swap_elements_changes_content i j xs a b hij hi hj hne)

/-- the elements of any array of the document rearranged (or some dropped, or added) so that some
    position holds another content than before -/
theorem elements_reordered_detected (h : Hash) (docValid : J → Bool) (docCalc : J → Option J) (e0 e : Env)
    (p : Path) (xs ys : JL) (i : Nat) (a b : J) (hc : calculate h docCalc e0 = some e)
    (hw : e.doc.wf = true) (hwy : ys.wf = true) (hg : J.get? p e.doc = some (.arr xs))
    (hx : JL.get? i xs = some a) (hy : JL.get? i ys = some b) (hne : norm b ≠ norm a) :
    Evident h docValid e (J.set p (.arr ys) e.doc) :=
  edit_at_path_detected h docValid docCalc e0 e p (.arr xs) (.arr ys) hc hw hwy hg
    (reorder_changes_content xs ys i a b hx hy hne)

/-- after recalculating, with the document's own calculation `docCalc` doing whatever it does to the
    changed document: if the value at the path still has another content than it had in the
    calculated envelope, the new digest is not the previous one -/
theorem recalculated_digest_differs (h : Hash) (docCalc : J → Option J) (e0 e e2 : Env) (d' : J)
    (p : Path) (v v2 : J) (hc : calculate h docCalc e0 = some e)
    (hc2 : calculate h docCalc (tampered e d') = some e2)
    (hw : e.doc.wf = true) (hw2 : e2.doc.wf = true)
    (c1 : J.distinctAlong p e.doc = true) (c2 : J.distinctAlong p e2.doc = true)
    (g1 : J.get? p e.doc = some v) (g2 : J.get? p e2.doc = some v2) (hne : norm v2 ≠ norm v) :
    e2.dig ≠ e.dig := by
  obtain ⟨dg, hd, hdig⟩ := calculated_digest h docCalc e0 e hc
  obtain ⟨dg2, hd2, hdig2⟩ := calculated_digest h docCalc _ e2 hc2
  rw [hd, hd2]
  intro x
  have x := Option.some.inj x
  subst x
  have := digest_injective h e2.doc e.doc hw2 hw dg2 hdig2 hdig
  exact hne (norm_eq_get p e2.doc e.doc v2 v this c2 c1 g2 g1)

/-- … in particular when the calculation leaves the edited document as it is -/
theorem recalculated_fixpoint_digest_differs (h : Hash) (docCalc : J → Option J) (e0 e e2 : Env)
    (p : Path) (v v' : J) (hc : calculate h docCalc e0 = some e)
    (hfix : docCalc (J.set p v' e.doc) = some (J.set p v' e.doc))
    (hc2 : calculate h docCalc (tampered e (J.set p v' e.doc)) = some e2)
    (hw : e.doc.wf = true) (hw' : v'.wf = true)
    (hg : J.get? p e.doc = some v) (hne : norm v' ≠ norm v) : e2.dig ≠ e.dig := by
  have ev := edit_at_path_detected h (fun _ => true) docCalc e0 e p v v' hc hw hw' hg hne
  unfold calculate tampered at hc2
  simp only [hfix] at hc2
  cases h2 : digest h (J.set p v' e.doc) with
  | none => simp [h2] at hc2
  | some dg' =>
    simp only [h2, Option.some.injEq] at hc2
    subst hc2
    exact ev.2.2 dg' h2

/-! non-vacuity.  One calculated envelope (identity "hash", a calculation that leaves the document
    alone) with document `{"a":[1,{"b":"x","n":null}],"c":1.5}` and, for every theorem above, an edit
    that satisfies its hypotheses; the last example shows the verdict of the model on one of them. -/

example : KL.get? [0x62] (.cons [0x62] (.str [0x78]) (.cons [0x6E] .null .nil)) = some (.str [0x78]) ∧
    norm (.str [0x79]) ≠ norm (.str [0x78]) :=
  ⟨rfl, by intro h; have := congrArg text h; revert this; decide⟩

/-- `1` and `1.0` are different contents (an integer and a float64), `1.0` and `1e0` are one (the model
    of a float is the float64's shortest digits: both are `1` × 10^0) -/
example : (Atom.flt false [1] 0) ≠ (Atom.int 1) ∧ (Atom.flt false [1] 0).wf = true ∧
    canonChars (.int 1) = some [0x31] ∧ canonChars (.flt false [1] 0) = some [0x31, 0x2E, 0x30, 0x45, 0x30] := by
  decide

example : ∃ (h : Hash) (docCalc : J → Option J) (e0 e : Env) (p : Path) (a a' : Atom) (kvs : KL) (xs : JL),
    calculate h docCalc e0 = some e ∧ e.doc.wf = true ∧
    -- value_altered_detected, edit_at_path_detected, recalculated_fixpoint_digest_differs
    J.get? p e.doc = some (.atom a) ∧ a'.wf = true ∧ a' ≠ a ∧
    docCalc (J.set p (.atom a') e.doc) = some (J.set p (.atom a') e.doc) ∧
    (∃ e2, calculate h docCalc (tampered e (J.set p (.atom a') e.doc)) = some e2 ∧
      -- recalculated_digest_differs
      e2.doc.wf = true ∧ J.distinctAlong p e.doc = true ∧ J.distinctAlong p e2.doc = true ∧
      J.get? p e2.doc = some (.atom a')) ∧
    -- member_added_detected, member_removed_detected
    J.get? [.key [0x61], .idx 1] e.doc = some (.obj kvs) ∧ KL.get? [0x62] kvs = some (.str [0x78]) ∧
    (J.str [0x78]).isNull = false ∧
    -- elements_swapped_detected, elements_reordered_detected
    J.get? [.key [0x61]] e.doc = some (.arr xs) ∧ JL.get? 0 xs = some (.int 1) ∧
    JL.get? 1 xs = some (.obj kvs) ∧ JL.get? 0 (JL.swap 0 1 xs) = some (.obj kvs) ∧
    norm (.int 1) ≠ norm (.obj kvs) :=
  ⟨⟨id, fun _ _ h => h⟩, some,
    ⟨none, .obj (.cons [0x61] (.arr (.cons (.int 1) (.cons (.obj (.cons [0x62] (.str [0x78]) (.cons [0x6E] .null .nil))) .nil)))
      (.cons [0x63] (.flt false [1, 5] 0) .nil))⟩,
    _, [.key [0x61], .idx 1, .key [0x62]], .str [0x78], .str [0x79], _, _,
    rfl, by decide, rfl, by decide, by decide, rfl, ⟨_, rfl, by decide, by decide, by decide, rfl⟩,
    rfl, rfl, rfl, rfl, rfl, rfl, rfl, by intro h; have := congrArg text h; revert this; decide⟩

/-- `edit_verdict_sound` is not vacuous: the oracle performs each kind of edit on that document; a string
    altered, a member added, a member removed, two elements exchanged change the content, a null member
    added or removed does not -/
example :
    let d : J := .obj (.cons [0x61] (.arr (.cons (.int 1) (.cons (.obj (.cons [0x62] (.str [0x78]) (.cons [0x6E] .null .nil))) .nil)))
      (.cons [0x63] (.flt false [1, 5] 0) .nil))
    let verdict (op : Op) (p : Path) : Option Bool := (applyOp op p d).map (·.2)
    verdict (.set (.str [0x79])) [.key [0x61], .idx 1, .key [0x62]] = some true ∧
    verdict (.set (.flt false [1, 5] 0)) [.key [0x63]] = some false ∧
    verdict (.ins 0 [0x7A] (.int 5)) [] = some true ∧ verdict (.ins 7 [0x7A] .null) [.key [0x61], .idx 1] = some false ∧
    verdict (.del [0x62]) [.key [0x61], .idx 1] = some true ∧ verdict (.del [0x6E]) [.key [0x61], .idx 1] = some false ∧
    verdict (.swap 0 1) [.key [0x61]] = some true ∧ verdict (.swap 0 0) [.key [0x61]] = none ∧
    verdict (.del [0x7A]) [] = none := by decide

/-- the model's verdict on the tampered envelope of that example: the digest error -/
example :
    let d : J := .obj (.cons [0x61] (.arr (.cons (.int 1) (.cons (.obj (.cons [0x62] (.str [0x78]) (.cons [0x6E] .null .nil))) .nil)))
      (.cons [0x63] (.flt false [1, 5] 0) .nil))
    let h : Hash := ⟨id, fun _ _ h => h⟩
    ∀ e, calculate h some ⟨none, d⟩ = some e →
      validate h (fun _ => true) (tampered e (J.set [.key [0x61], .idx 1, .key [0x62]] (.str [0x79]) e.doc)) = .digest ∧
      validate h (fun _ => true) (tampered e (J.set [.key [0x61], .idx 1] (.obj (KL.erase [0x6E] (.cons [0x62] (.str [0x78]) (.cons [0x6E] .null .nil)))) e.doc)) = .ok := by
  intro d h e he
  have : e = ⟨digest h d, d⟩ := by
    have h2 : calculate h some ⟨none, d⟩ = some ⟨digest h d, d⟩ := rfl
    rw [h2] at he; exact (Option.some.inj he).symm
  subst this
  decide

end edits

/-! ## expectations over facts regenerated from /repo on every run

How the digest is computed and compared (`Generated/DigestFacts.lean`, extractor
`harness/cmd/extract/digest.go`; re-pinned by hand with `tools/pin_digest_expect.py`): calls, branch
conditions, statements, loop headers — and for the marshallers of c14n the bytes written — in source
order, of every function between the document of an envelope and the verdict of `Validate`.
`Model/Digest.lean` (and `Model/C14n.lean`) mirror them by hand; a change to one of these functions
breaks its obligation here even when no swept edit shows a difference (`./check C08` then searches for
a witness). -/
namespace Expect
open GoblVerif.Generated.Digest

/-- Envelope.Digest: json.Marshal of the document, c14n.CanonicalJSON of those bytes,
    dsig.NewSHA256Digest of the canonical bytes; a marshalling failure is ErrMarshal, a canonicalisation
    failure ErrInternal (model `digest`: `(canon d).map (sha256Digest h)`, `none` = the internal error) -/
theorem Envelope_Digest_as_modelled :
    calls_Envelope_Digest =
      ["Marshal", "WithCause", "NewReader", "CanonicalJSON", "WithReason", "NewSHA256Digest"] ∧
    conds_Envelope_Digest =
      ["err != nil", "err != nil"] ∧
    stmts_Envelope_Digest =
      ["data, err := json.Marshal(e.Document)", "return nil, ErrMarshal.WithCause(err)", "r := bytes.NewReader(data)", "cd, err := c14n.CanonicalJSON(r)", "return nil, ErrInternal.WithReason(\"canonical JSON error: %w\", err)", "return dsig.NewSHA256Digest(cd), nil"] ∧
    loops_Envelope_Digest = [] :=
  ⟨rfl, rfl, rfl, rfl⟩

/-- Envelope.verifyDigest: the header's digest against a freshly computed one; a failure of Digest is
    passed on, a failure of Equals becomes ErrDigest (model `verifyDigest`) -/
theorem Envelope_verifyDigest_as_modelled :
    calls_Envelope_verifyDigest =
      ["Digest", "Equals", "WithCause"] ∧
    conds_Envelope_verifyDigest =
      ["err != nil", "err := d1.Equals(d2); err != nil"] ∧
    stmts_Envelope_verifyDigest =
      ["d1 := e.Head.Digest", "d2, err := e.Digest()", "return err", "err := d1.Equals(d2)", "return ErrDigest.WithCause(err)", "return nil"] ∧
    loops_Envelope_verifyDigest = [] :=
  ⟨rfl, rfl, rfl, rfl⟩

/-- Envelope.Validate is ValidateWithContext with the background context -/
theorem Envelope_Validate_as_modelled :
    calls_Envelope_Validate =
      ["ValidateWithContext", "Background"] ∧
    conds_Envelope_Validate = [] ∧
    stmts_Envelope_Validate =
      ["return e.ValidateWithContext(context.Background())"] ∧
    loops_Envelope_Validate = [] :=
  ⟨rfl, rfl, rfl, rfl⟩

/-- Envelope.ValidateWithContext: structural validation of schema, head, document and signatures first;
    only when that passes, verifyDigest — and its verdict is the verdict (model `validate`:
    `.validation` before `verifyDigest`) -/
theorem Envelope_ValidateWithContext_as_modelled :
    calls_Envelope_ValidateWithContext =
      ["len", "SignedContext", "ValidateStructWithContext", "Field", "Field", "Field", "Field", "Each", "wrapError", "wrapError", "verifyDigest"] ∧
    conds_Envelope_ValidateWithContext =
      ["len(e.Signatures) > 0", "err != nil"] ∧
    stmts_Envelope_ValidateWithContext =
      ["ctx = internal.SignedContext(ctx)", "err := validation.ValidateStructWithContext(ctx, e, validation.Field(&e.Schema, validation.Required), validation.Field(&e.Head, validation.Required), validation.Field(&e.Document, validation.Required), validation.Field(&e.Signatures, validation.Each(validation.Required)), )", "return wrapError(err)", "return wrapError(e.verifyDigest())"] ∧
    loops_Envelope_ValidateWithContext = [] :=
  ⟨rfl, rfl, rfl, rfl⟩

/-- Envelope.Calculate refuses an absent or empty document and otherwise is `calculate` -/
theorem Envelope_Calculate_as_modelled :
    calls_Envelope_Calculate =
      ["IsEmpty", "calculate"] ∧
    conds_Envelope_Calculate =
      ["e.Document == nil", "e.Document.IsEmpty()"] ∧
    stmts_Envelope_Calculate =
      ["return ErrNoDocument", "return ErrNoDocument", "return e.calculate()"] ∧
    loops_Envelope_Calculate = [] :=
  ⟨rfl, rfl, rfl, rfl⟩

/-- Envelope.calculate: the document calculates itself first, then — after the header exists — the
    digest is taken of the calculated document and stored in the header (model `calculate`) -/
theorem Envelope_calculate_as_modelled :
    calls_Envelope_calculate =
      ["Calculate", "WithCause", "NewHeader", "IsZero", "V7", "Digest"] ∧
    conds_Envelope_calculate =
      ["err := e.Document.Calculate(); err != nil", "e.Head == nil", "e.Head.UUID.IsZero()", "err != nil"] ∧
    stmts_Envelope_calculate =
      ["e.Schema = EnvelopeSchema", "err := e.Document.Calculate()", "return ErrCalculation.WithCause(err)", "e.Head = head.NewHeader()", "e.Head.UUID = uuid.V7()", "e.Head.Digest, err = e.Digest()", "return err", "return nil"] ∧
    loops_Envelope_calculate = [] :=
  ⟨rfl, rfl, rfl, rfl⟩

/-- dsig.NewSHA256Digest: one SHA-256 over the whole of the data handed in (no loop, no branch),
    hexadecimal, under the algorithm name DigestSHA256 (model `sha256Digest`: `⟨algSHA256, h.H data⟩`,
    the hash applied once to all the bytes) -/
theorem dsig_NewSHA256Digest_as_modelled :
    calls_dsig_NewSHA256Digest =
      ["Sum256", "EncodeToString"] ∧
    conds_dsig_NewSHA256Digest = [] ∧
    stmts_dsig_NewSHA256Digest =
      ["sum := sha256.Sum256(data)", "return &Digest{ Algorithm: DigestSHA256, Value: hex.EncodeToString(sum[:]), }"] ∧
    loops_dsig_NewSHA256Digest = [] :=
  ⟨rfl, rfl, rfl, rfl⟩

/-- Digest.Equals: algorithm names first, then values, by `!=` on the strings (model `Dig.equals`) -/
theorem dsig_Digest_Equals_as_modelled :
    calls_dsig_Digest_Equals =
      ["New", "New"] ∧
    conds_dsig_Digest_Equals =
      ["d.Algorithm != d2.Algorithm", "d.Value != d2.Value"] ∧
    stmts_dsig_Digest_Equals =
      ["return errors.New(\"algorithm mismatch\")", "return errors.New(\"mismatch\")", "return nil"] ∧
    loops_dsig_Digest_Equals = [] :=
  ⟨rfl, rfl, rfl, rfl⟩

/-- c14n.CanonicalJSON: UnmarshalJSON of the reader, MarshalJSON of what it returned — nothing in
    between (model `canon`; the two halves are C07's) -/
theorem c14n_CanonicalJSON_as_modelled :
    calls_c14n_CanonicalJSON =
      ["UnmarshalJSON", "MarshalJSON"] ∧
    conds_c14n_CanonicalJSON =
      ["err != nil"] ∧
    stmts_c14n_CanonicalJSON =
      ["obj, err := UnmarshalJSON(src)", "return nil, err", "return obj.MarshalJSON()"] ∧
    loops_c14n_CanonicalJSON = [] :=
  ⟨rfl, rfl, rfl, rfl⟩

/-- c14n.UnmarshalJSON, the entry point of the reader (the same shape C07 pins: encoding check, decoder
    with UseNumber, one value, nothing after it) -/
theorem c14n_UnmarshalJSON_as_modelled :
    calls_c14n_UnmarshalJSON =
      ["ReadAll", "checkEncoding", "NewDecoder", "NewReader", "UseNumber", "handleNextToken", "New", "Token", "New"] ∧
    conds_c14n_UnmarshalJSON =
      ["err != nil", "err := checkEncoding(data); err != nil", "err != nil", "res == nil", "_, err := dec.Token(); err != io.EOF", "err != nil"] ∧
    stmts_c14n_UnmarshalJSON =
      ["data, err := io.ReadAll(src)", "return nil, err", "err := checkEncoding(data)", "return nil, err", "dec := json.NewDecoder(bytes.NewReader(data))", "res, err := handleNextToken(dec)", "return nil, err", "return nil, errors.New(\"unexpected end of JSON input\")", "_, err := dec.Token()", "return nil, err", "return nil, errors.New(\"unexpected data after top-level value\")", "return res, nil"] ∧
    loops_c14n_UnmarshalJSON = [] :=
  ⟨rfl, rfl, rfl, rfl⟩

/-- c14n.MarshalJSON (canonical JSON of a Go value) goes through the same CanonicalJSON -/
theorem c14n_MarshalJSON_as_modelled :
    calls_c14n_MarshalJSON =
      ["new", "NewEncoder", "Encode", "Errorf", "CanonicalJSON"] ∧
    conds_c14n_MarshalJSON =
      ["err := enc.Encode(src); err != nil"] ∧
    stmts_c14n_MarshalJSON =
      ["data := new(bytes.Buffer)", "enc := json.NewEncoder(data)", "err := enc.Encode(src)", "return nil, fmt.Errorf(\"encoding: %w\", err)", "return CanonicalJSON(data)"] ∧
    loops_c14n_MarshalJSON = [] :=
  ⟨rfl, rfl, rfl, rfl⟩

/-- c14n Object.Sort: stable, by `<` on the keys (model `sortK`) -/
theorem c14n_Object_Sort_as_modelled :
    calls_c14n_Object_Sort =
      ["SliceStable"] ∧
    conds_c14n_Object_Sort = [] ∧
    stmts_c14n_Object_Sort =
      ["return o.Attributes[i].Key < o.Attributes[j].Key"] ∧
    loops_c14n_Object_Sort = [] ∧
    writes_c14n_Object_Sort = [] :=
  ⟨rfl, rfl, rfl, rfl, rfl⟩

/-- c14n Object.MarshalJSON: `{`, the attributes that marshal to something separated by `,`, `}` (model
    `marshalK`) -/
theorem c14n_Object_MarshalJSON_as_modelled :
    calls_c14n_Object_MarshalJSON =
      ["WriteByte", "MarshalJSON", "len", "WriteByte", "Write", "WriteByte", "Bytes"] ∧
    conds_c14n_Object_MarshalJSON =
      ["err != nil", "len(a) == 0", "!first"] ∧
    stmts_c14n_Object_MarshalJSON =
      ["first := true", "a, err := v.MarshalJSON()", "return nil, err", "first = false", "return buf.Bytes(), nil"] ∧
    loops_c14n_Object_MarshalJSON =
      ["range o.Attributes"] ∧
    writes_c14n_Object_MarshalJSON =
      ["buf.WriteByte('{')", "buf.WriteByte(',')", "buf.Write(a)", "buf.WriteByte('}')"] :=
  ⟨rfl, rfl, rfl, rfl, rfl⟩

/-- c14n Array.MarshalJSON: `[`, every value in order separated by `,`, `]` — nothing dropped, nothing
    reordered (model `marshalL`) -/
theorem c14n_Array_MarshalJSON_as_modelled :
    calls_c14n_Array_MarshalJSON =
      ["WriteByte", "WriteByte", "MarshalJSON", "Write", "WriteByte", "Bytes"] ∧
    conds_c14n_Array_MarshalJSON =
      ["i > 0", "err != nil"] ∧
    stmts_c14n_Array_MarshalJSON =
      ["data, err := v.MarshalJSON()", "return nil, err", "return buf.Bytes(), nil"] ∧
    loops_c14n_Array_MarshalJSON =
      ["range a.Values"] ∧
    writes_c14n_Array_MarshalJSON =
      ["buf.WriteByte('[')", "buf.WriteByte(',')", "buf.Write(data)", "buf.WriteByte(']')"] :=
  ⟨rfl, rfl, rfl, rfl, rfl⟩

/-- c14n Attribute.MarshalJSON: nothing for a null value, else key `:` value (model `marshalK`,
    `attrJoin`) -/
theorem c14n_Attribute_MarshalJSON_as_modelled :
    calls_c14n_Attribute_MarshalJSON =
      ["encodeString", "MarshalJSON", "Write", "WriteByte", "Write", "Bytes"] ∧
    conds_c14n_Attribute_MarshalJSON =
      ["_, ok := a.Value.(Null); ok", "err != nil", "err != nil"] ∧
    stmts_c14n_Attribute_MarshalJSON =
      ["_, ok := a.Value.(Null)", "return nil, nil", "key, err := encodeString(a.Key)", "return nil, err", "val, err := a.Value.MarshalJSON()", "return nil, err", "return buf.Bytes(), nil"] ∧
    loops_c14n_Attribute_MarshalJSON = [] ∧
    writes_c14n_Attribute_MarshalJSON =
      ["buf.Write(key)", "buf.WriteByte(':')", "buf.Write(val)"] :=
  ⟨rfl, rfl, rfl, rfl, rfl⟩

/-- c14n String.MarshalJSON is encodeString -/
theorem c14n_String_MarshalJSON_as_modelled :
    calls_c14n_String_MarshalJSON =
      ["encodeString", "string"] ∧
    conds_c14n_String_MarshalJSON = [] ∧
    stmts_c14n_String_MarshalJSON =
      ["return encodeString(string(o))"] ∧
    loops_c14n_String_MarshalJSON = [] ∧
    writes_c14n_String_MarshalJSON = [] :=
  ⟨rfl, rfl, rfl, rfl, rfl⟩

/-- c14n Integer.MarshalJSON: FormatInt base 10 -/
theorem c14n_Integer_MarshalJSON_as_modelled :
    calls_c14n_Integer_MarshalJSON =
      ["FormatInt", "int64"] ∧
    conds_c14n_Integer_MarshalJSON = [] ∧
    stmts_c14n_Integer_MarshalJSON =
      ["return []byte(strconv.FormatInt(int64(i), 10)), nil"] ∧
    loops_c14n_Integer_MarshalJSON = [] ∧
    writes_c14n_Integer_MarshalJSON = [] :=
  ⟨rfl, rfl, rfl, rfl, rfl⟩

/-- c14n Float.MarshalJSON: strconv's shortest 'E' form, the point put in after the first digit — which
    comes after a minus sign —, the exponent stripped of `+` and leading zeros (model `marshalFloat`) -/
theorem c14n_Float_MarshalJSON_as_modelled :
    calls_c14n_Float_MarshalJSON =
      ["AppendFloat", "float64", "append", "append", "IndexByte", "make", "len", "copy", "len", "append", "append"] ∧
    conds_c14n_Float_MarshalJSON =
      ["num[0] == '-'", "num[d] != '.'", "exp[0] == '+'", "v == '-' || v == '+'", "v == '0' && (i+1) < len(exp)", "k != 0"] ∧
    stmts_c14n_Float_MarshalJSON =
      ["num := []byte{}", "num = strconv.AppendFloat(num, float64(f), 'E', -1, 64)", "d := 1", "d = 2", "rest := append([]byte(\".0\"), num[d:]...)", "num = append(num[:d], rest...)", "i := bytes.IndexByte(num, 'E')", "exp := make([]byte, len(num)-i-1)", "num = num[:i+1]", "exp = exp[1:]", "j := 0", "k := 0", "j = 1", "k = i + 1", "exp = append(exp[:j], exp[k:]...)", "num = append(num, exp...)", "return num, nil"] ∧
    loops_c14n_Float_MarshalJSON =
      ["range exp"] ∧
    writes_c14n_Float_MarshalJSON = [] :=
  ⟨rfl, rfl, rfl, rfl, rfl⟩

/-- c14n Null.MarshalJSON -/
theorem c14n_Null_MarshalJSON_as_modelled :
    calls_c14n_Null_MarshalJSON = [] ∧
    conds_c14n_Null_MarshalJSON = [] ∧
    stmts_c14n_Null_MarshalJSON =
      ["return []byte(`null`), nil"] ∧
    loops_c14n_Null_MarshalJSON = [] ∧
    writes_c14n_Null_MarshalJSON = [] :=
  ⟨rfl, rfl, rfl, rfl, rfl⟩

/-- c14n Bool.MarshalJSON -/
theorem c14n_Bool_MarshalJSON_as_modelled :
    calls_c14n_Bool_MarshalJSON = [] ∧
    conds_c14n_Bool_MarshalJSON =
      ["b"] ∧
    stmts_c14n_Bool_MarshalJSON =
      ["return []byte(`true`), nil", "return []byte(`false`), nil"] ∧
    loops_c14n_Bool_MarshalJSON = [] ∧
    writes_c14n_Bool_MarshalJSON = [] :=
  ⟨rfl, rfl, rfl, rfl, rfl⟩

/-- c14n encodeString: the bytes written for every character — safe ASCII literally, the seven short
    escapes each with its own letter, `u00XX` for the other controls, everything else copied (model
    `encodeString`) -/
theorem c14n_encodeString_as_modelled :
    calls_c14n_encodeString =
      ["WriteByte", "len", "WriteString", "WriteByte", "WriteByte", "WriteByte", "WriteByte", "WriteByte", "WriteByte", "WriteByte", "WriteString", "WriteByte", "WriteByte", "DecodeRuneInString", "ValueOf", "Sprintf", "len", "WriteString", "WriteByte", "Bytes"] ∧
    conds_c14n_encodeString =
      ["b := s[i]; b < utf8.RuneSelf", "safeSet[b]", "start < i", "c == utf8.RuneError && size == 1", "start < len(s)"] ∧
    stmts_c14n_encodeString =
      ["start := 0", "i := 0", "b := s[i]", "i++", "i++", "start = i", "c, size := utf8.DecodeRuneInString(s[i:])", "return nil, &json.UnsupportedValueError{Value: reflect.ValueOf(s), Str: fmt.Sprintf(\"%q\", s)}", "i += size", "return buf.Bytes(), nil"] ∧
    loops_c14n_encodeString =
      ["for i := 0; i < len(s); "] ∧
    writes_c14n_encodeString =
      ["buf.WriteByte('\"')", "buf.WriteString(s[start:i])", "buf.WriteByte('\\\\')", "case '\\\\', '\"'", "buf.WriteByte(b)", "case '\\n'", "buf.WriteByte('n')", "case '\\r'", "buf.WriteByte('r')", "case '\\t'", "buf.WriteByte('t')", "case '\\f'", "buf.WriteByte('f')", "case '\\b'", "buf.WriteByte('b')", "default", "buf.WriteString(`u00`)", "buf.WriteByte(hex[b>>4])", "buf.WriteByte(hex[b&0xF])", "buf.WriteString(s[start:])", "buf.WriteByte('\"')"] :=
  ⟨rfl, rfl, rfl, rfl, rfl⟩

/-- schema.Object.MarshalJSON — what `json.Marshal(e.Document)` runs: the payload as encoding/json
    writes it, with the *stored* schema id inserted (the model's `doc : J` is this text) -/
theorem schema_Object_MarshalJSON_as_modelled :
    calls_schema_Object_MarshalJSON =
      ["Marshal", "Insert"] ∧
    conds_schema_Object_MarshalJSON =
      ["err != nil", "err != nil"] ∧
    stmts_schema_Object_MarshalJSON =
      ["data, err := json.Marshal(d.payload)", "return nil, err", "data, err = Insert(d.Schema, data)", "return nil, err", "return data, nil"] ∧
    loops_schema_Object_MarshalJSON = [] :=
  ⟨rfl, rfl, rfl, rfl⟩

/-- schema.Object.UnmarshalJSON: the schema id is extracted from the text and kept as it is written, a
    *fresh* payload instance of exactly that id is created, the whole text is unmarshalled into it -/
theorem schema_Object_UnmarshalJSON_as_modelled :
    calls_schema_Object_UnmarshalJSON =
      ["Extract", "Interface", "Unmarshal", "checkNullElements", "ValueOf"] ∧
    conds_schema_Object_UnmarshalJSON =
      ["d.Schema, err = Extract(data); err != nil", "d.Schema == UnknownID", "d.payload == nil", "_, ok := d.payload.(*Object); ok", "err := json.Unmarshal(data, d.payload); err != nil", "err := checkNullElements(reflect.ValueOf(d.payload), 0); err != nil"] ∧
    stmts_schema_Object_UnmarshalJSON =
      ["d.Schema, err = Extract(data)", "return err", "return nil", "d.payload = d.Schema.Interface()", "return ErrUnknownSchema", "_, ok := d.payload.(*Object)", "d.payload = nil", "return ErrUnknownSchema", "err := json.Unmarshal(data, d.payload)", "return err", "err := checkNullElements(reflect.ValueOf(d.payload), 0)", "d.payload = nil", "return err", "return nil"] ∧
    loops_schema_Object_UnmarshalJSON = [] :=
  ⟨rfl, rfl, rfl, rfl⟩

/-- schema.Extract reads the top-level `$schema` member with encoding/json (member order and depth do
    not matter) -/
theorem schema_Extract_as_modelled :
    calls_schema_Extract =
      ["new", "Unmarshal"] ∧
    conds_schema_Extract =
      ["err := json.Unmarshal(data, def); err != nil"] ∧
    stmts_schema_Extract =
      ["def := new(document)", "err := json.Unmarshal(data, def)", "return UnknownID, err", "return def.Schema, nil"] ∧
    loops_schema_Extract = [] :=
  ⟨rfl, rfl, rfl, rfl⟩

/-- schema.Insert writes the id as the first member of the payload's object -/
theorem schema_Insert_as_modelled :
    calls_schema_Insert =
      ["Marshal", "TrimLeft", "TrimRight", "Equal", "TrimSpace", "append", "byte", "append"] ∧
    conds_schema_Insert =
      ["err != nil", "!bytes.Equal(bytes.TrimSpace(data), []byte(\"}\"))"] ∧
    stmts_schema_Insert =
      ["doc := &document{Schema: id}", "sdata, err := json.Marshal(doc)", "return nil, err", "data = bytes.TrimLeft(data, \"{\")", "sdata = bytes.TrimRight(sdata, \"}\")", "sdata = append(sdata, byte(','))", "data = append(sdata, data...)", "return data, nil"] ∧
    loops_schema_Insert = [] :=
  ⟨rfl, rfl, rfl, rfl⟩

/-- the registry answers for the exact id only -/
theorem schema_registry_typeFor_as_modelled :
    calls_schema_registry_typeFor = [] ∧
    conds_schema_registry_typeFor =
      ["id == e.id"] ∧
    stmts_schema_registry_typeFor =
      ["return e.typ", "return nil"] ∧
    loops_schema_registry_typeFor =
      ["range r.entries"] :=
  ⟨rfl, rfl, rfl, rfl⟩

/-- ID.Interface: a new value of the registered type, nil for an unknown id -/
theorem schema_ID_Interface_as_modelled :
    calls_schema_ID_Interface =
      ["Type", "Interface", "New"] ∧
    conds_schema_ID_Interface =
      ["typ == nil"] ∧
    stmts_schema_ID_Interface =
      ["typ := Type(id)", "return nil", "return reflect.New(typ).Interface()"] ∧
    loops_schema_ID_Interface = [] :=
  ⟨rfl, rfl, rfl, rfl⟩

/-- the algorithm name of the model is the one constant of the library; a digest travels as
    `{"alg": …, "val": …}` under `head.dig`, the document under `doc` -/
theorem digest_names_as_modelled :
    digestAlgorithms = ["DigestSHA256=sha256"] ∧ algSHA256 = "sha256" ∧
    digestJSON = ["Algorithm:alg", "Value:val"] ∧ headerDigestJSON = ["Digest:dig"] ∧
    envelopeJSON = ["Schema:$schema", "Head:head", "Document:doc", "Signatures:sigs,omitempty"] :=
  ⟨rfl, rfl, rfl, rfl, rfl⟩

/-- the hash is crypto/sha256's one-shot `Sum256` of the data as handed in, written out with
    encoding/hex (the abstract `Hash.H` of the model; the harness instantiates it with the same two) -/
theorem hash_is_sha256_of_all_bytes :
    sha256_imports = ["crypto/sha256", "encoding/hex"] ∧
    sha256_pkgcalls = ["sha256.Sum256(data)", "hex.EncodeToString(sum[:])"] := ⟨rfl, rfl⟩

/-- the header must carry a digest (model `validate`: no digest is a validation error), and the
    document is required -/
theorem digest_and_document_required :
    GoblVerif.Generated.Head.rules_Digest = ["validation.Required"] ∧
    GoblVerif.Generated.Envelope.rules_Document = ["validation.Required"] := ⟨rfl, rfl⟩

end Expect

end GoblVerif.Props.C08
