/-
  C08 — The header digest makes every change to the document evident.

  Corollaries of C07's injectivity (`canon_injective`) and of the decision
  logic of Validate/verifyDigest/Digest.Equals (Model/Digest.lean).  The hash
  is abstract; its collision-freeness is the structure field `Hash.inj`, an
  explicit hypothesis of every theorem that needs it (no axiom).

  `d.wf` = every float leaf of the document carries well-formed shortest
  digits (what strconv yields; hypothesis about the trusted formatter).
-/
import GoblVerif.Model.Digest
import GoblVerif.Props.C07

namespace GoblVerif.Props.C08
open GoblVerif GoblVerif.Spec.C07 GoblVerif.C14n GoblVerif.Digest

/-- equal digests ⇒ equal content (this is where `Hash.inj` is used) -/
theorem digest_injective (h : Hash) (d d' : J) (hw : d.wf = true) (hw' : d'.wf = true) (x : Dig)
    (h1 : digest h d = some x) (h2 : digest h d' = some x) : norm d = norm d' := by
  unfold digest at h1 h2
  cases hc : canon d with
  | none => simp [hc] at h1
  | some b =>
    cases hc' : canon d' with
    | none => simp [hc'] at h2
    | some b' =>
      simp only [hc, hc', Option.map_some, Option.some.injEq] at h1 h2
      have : h.H b = h.H b' := by
        have := h1.trans h2.symm
        simpa [sha256Digest] using this
      have hb : b = b' := h.inj b b' this
      subst hb
      exact C07.canon_injective d d' hw hw' b hc hc'

/-- a calculated envelope validates (when its document is valid) -/
theorem validate_after_calculate (h : Hash) (docCalc : J → Option J) (docValid : J → Bool) (e e' : Env)
    (hc : calculate h docCalc e = some e') (hv : docValid e'.doc = true) :
    validate h docValid e' = .ok := by
  unfold calculate at hc
  cases h1 : docCalc e.doc with
  | none => simp [h1] at hc
  | some d =>
    cases h2 : digest h d with
    | none => simp [h1, h2] at hc
    | some dg =>
      simp only [h1, h2, Option.some.injEq] at hc
      subst hc
      simp only [validate, verifyDigest] at hv ⊢
      simp [hv, h2, Dig.equals]

/-- the content was changed without recalculating ⇒ validation does not succeed;
    it fails with a *digest* error whenever the changed document is structurally
    valid and canonicalisable -/
theorem tamper_detected (h : Hash) (docValid : J → Bool) (d d' : J) (dg : Dig)
    (hw : d.wf = true) (hw' : d'.wf = true)
    (hdig : digest h d = some dg) (hne : norm d ≠ norm d') :
    validate h docValid { dig := some dg, doc := d' } ≠ .ok ∧
    (docValid d' = true → canon d' ≠ none → validate h docValid { dig := some dg, doc := d' } = .digest) := by
  have key : ∀ d2, digest h d' = some d2 → dg.equals d2 = false := by
    intro d2 h2
    cases he : dg.equals d2 with
    | false => rfl
    | true =>
      simp only [Dig.equals, Bool.and_eq_true, beq_iff_eq] at he
      have : dg = d2 := by
        cases dg; cases d2; simp_all
      subst this
      exact absurd (digest_injective h d d' hw hw' dg hdig h2) hne
  constructor
  · simp only [validate, verifyDigest]
    cases docValid d' with
    | false => simp
    | true =>
      cases h2 : digest h d' with
      | none => simp
      | some d2 => simp [key d2 h2]
  · intro hv hc
    simp only [validate, verifyDigest, hv, if_true]
    cases h2 : digest h d' with
    | none =>
      unfold digest at h2
      cases hcd : canon d' with
      | none => exact absurd hcd hc
      | some b => simp [hcd] at h2
    | some d2 => simp [key d2 h2]

/-- a digest produced with a different algorithm name never validates -/
theorem algorithm_is_compared (h : Hash) (docValid : J → Bool) (d : J) (dg : Dig)
    (halg : dg.alg ≠ algSHA256) : validate h docValid { dig := some dg, doc := d } ≠ .ok := by
  simp only [validate, verifyDigest]
  cases docValid d with
  | false => simp
  | true =>
    cases h2 : digest h d with
    | none => simp
    | some d2 =>
      have : d2.alg = algSHA256 := by
        unfold digest at h2
        cases hc : canon d with
        | none => simp [hc] at h2
        | some b => simp [hc, sha256Digest] at h2; rw [← h2]
      have : dg.equals d2 = false := by
        simp only [Dig.equals, Bool.and_eq_false_iff, beq_eq_false_iff_ne, ne_eq]
        left; rw [this]; exact halg
      simp [this]

/-- after recalculating, the digest of changed content differs from the previous one -/
theorem recalc_changes_digest (h : Hash) (d d' : J) (hw : d.wf = true) (hw' : d'.wf = true)
    (dg dg' : Dig) (h1 : digest h d = some dg) (h2 : digest h d' = some dg')
    (hne : norm d ≠ norm d') : dg ≠ dg' := by
  intro e; subst e
  exact hne (digest_injective h d d' hw hw' dg h1 h2)

/-- re-encodings that keep the content keep the digest … -/
theorem reencode_same_digest (h : Hash) (d d' : J) (hn : norm d = norm d') : digest h d = digest h d' := by
  unfold digest; rw [C07.canon_of_norm_eq d d' hn]

/-- … in particular a different member order (distinct keys) -/
theorem reorder_same_digest (h : Hash) (kvs kvs' : KL) (hp : kvs.toList.Perm kvs'.toList)
    (hn : (KL.keys kvs).Nodup) : digest h (.obj kvs) = digest h (.obj kvs') := by
  unfold digest; rw [C07.canon_perm kvs kvs' hp hn]

/-- … and null members added or removed -/
theorem nulls_same_digest (h : Hash) (kvs : KL) :
    digest h (.obj (KL.ofList (kvs.toList.filter (fun p => !p.2.isNull)))) = digest h (.obj kvs) := by
  unfold digest; rw [C07.canon_drop_null kvs]

/-- hence a re-encoded calculated envelope keeps validating -/
theorem reencoded_still_validates (h : Hash) (docValid : J → Bool) (d d' : J) (dg : Dig)
    (hn : norm d = norm d') (hv : validate h docValid { dig := some dg, doc := d } = .ok)
    (hv' : docValid d' = true) : validate h docValid { dig := some dg, doc := d' } = .ok := by
  simp only [validate, verifyDigest] at hv ⊢
  rw [← reencode_same_digest h d d' hn, hv']
  cases hd : docValid d with
  | false => simp [hd] at hv
  | true => simpa [hd] using hv

/-! non-vacuity: the hypotheses of `tamper_detected` are satisfiable (identity "hash") -/
example : ∃ (h : Hash) (d d' : J) (dg : Dig), d.wf = true ∧ d'.wf = true ∧ digest h d = some dg ∧
    norm d ≠ norm d' ∧ validate h (fun _ => true) { dig := some dg, doc := d' } = .digest :=
  ⟨⟨id, fun _ _ h => h⟩, .obj (.cons [0x61] (.int 1) .nil), .obj (.cons [0x61] (.int 2) .nil),
    ⟨algSHA256, [0x7B, 0x22, 0x61, 0x22, 0x3A, 0x31, 0x7D]⟩, by decide, by decide, by decide,
    (by intro h; have := congrArg text h; revert this; decide), by decide⟩

end GoblVerif.Props.C08
