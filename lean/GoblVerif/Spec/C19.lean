/-
  Specification side of C19 (b), written from the property statement:

    "Every shipped regime and addon definition … names an existing currency …
     and only refers to tags, extensions, categories and correction types that
     are themselves defined."

  `regimeIssues` / `addonIssues` list every reference of a published definition
  that does NOT resolve; a definition is coherent when the list is empty.
  "Defined" means: in the definition itself, in an addon, or in a catalogue
  (for an addon also: in one of the regimes, with which it is combined).
  Values of pattern-governed extension keys are checked by the harness with
  Go's regexp (regular expressions are not modelled in Lean).
-/
import GoblVerif.Model.Refs

namespace GoblVerif.Spec.C19
open GoblVerif.Refs

structure Issue where
  kind : String      -- currency | ext-key | ext-code | tag | type | schema | requires
  at_  : String      -- where in the definition
  ref  : String      -- the reference that does not resolve
deriving DecidableEq, Repr

/-- extension definitions visible from a definition with own extensions `own` -/
def visibleExt (d : Defs) (own : List ExtDef) : List ExtDef :=
  own ++ d.addons.flatMap (·.extensions) ++ d.catalogues.flatMap (·.extensions)

def keyIssue (exts : List ExtDef) (at_ k : String) : List Issue :=
  if exts.any (·.key == k) then [] else [⟨"ext-key", at_, k⟩]

def pairIssue (exts : List ExtDef) (at_ : String) (kv : String × String) : List Issue :=
  match exts.find? (·.key == kv.1) with
  | none => [⟨"ext-key", at_, kv.1⟩]
  | some kd => if kd.codes.isEmpty || kd.codes.contains kv.2 then [] else [⟨"ext-code", at_, kv.1 ++ "=" ++ kv.2⟩]

def scenarioIssues (d : Defs) (exts : List ExtDef) (tagsOffered : String → List String)
    (sets : List ScenarioSet) : List Issue :=
  sets.flatMap fun ss =>
    (if d.schemas.contains ss.schema then [] else [⟨"schema", "scenarios", ss.schema⟩]) ++
    ss.list.flatMap fun s =>
      (s.tags.flatMap fun t => if (tagsOffered ss.schema).contains t then [] else [⟨"tag", "scenarios:" ++ ss.schema, t⟩]) ++
      (if ss.schema == "bill/invoice" then
        s.types.flatMap fun t => if d.invoiceTypes.contains t then [] else [⟨"type", "scenarios:" ++ ss.schema, t⟩]
       else []) ++
      (if s.extKey == "" then []
       else if s.extCode == "" then keyIssue exts "scenarios:filter" s.extKey
       else pairIssue exts "scenarios:filter" (s.extKey, s.extCode)) ++
      s.ext.flatMap (pairIssue exts "scenarios:ext")

def correctionIssues (d : Defs) (exts : List ExtDef) (cs : List Correction) : List Issue :=
  cs.flatMap fun c =>
    (if d.schemas.contains c.schema then [] else [⟨"schema", "corrections", c.schema⟩]) ++
    (if c.schema == "bill/invoice" then
      c.types.flatMap fun t => if d.invoiceTypes.contains t then [] else [⟨"type", "corrections", t⟩]
     else []) ++
    c.extensions.flatMap (keyIssue exts "corrections")

def tagSetIssues (d : Defs) (sets : List TagSet) : List Issue :=
  sets.flatMap fun ts => if d.schemas.contains ts.schema then [] else [⟨"schema", "tags", ts.schema⟩]

/-- every unresolved reference of a published regime definition -/
def regimeIssues (d : Defs) (r : Regime) : List Issue :=
  let exts := visibleExt d r.extensions
  let offered := fun schema => tagKeysFor r.tags schema ++ d.addons.flatMap (fun a => tagKeysFor a.tags schema)
  (if d.currencies.contains r.currency then [] else [⟨"currency", "currency", r.currency⟩]) ++
  tagSetIssues d r.tags ++
  (r.categories.flatMap fun c =>
    c.extKeys.flatMap (keyIssue exts ("category " ++ c.code)) ++
    c.ext.flatMap (pairIssue exts ("category " ++ c.code)) ++
    c.rates.flatMap fun rt =>
      rt.ext.flatMap (pairIssue exts ("rate " ++ c.code ++ "/" ++ rt.key)) ++
      rt.valueExts.flatMap fun ve => ve.flatMap (pairIssue exts ("rate value " ++ c.code ++ "/" ++ rt.key))) ++
  scenarioIssues d exts offered r.scenarios ++
  correctionIssues d exts r.corrections

/-- every unresolved reference of a published addon definition -/
def addonIssues (d : Defs) (a : Addon) : List Issue :=
  let exts := visibleExt d (a.extensions ++ d.liveRegimes.flatMap (·.extensions))
  let required := d.addons.filter fun b => a.requires.contains b.key
  let offered := fun schema =>
    tagKeysFor a.tags schema ++ required.flatMap (fun b => tagKeysFor b.tags schema) ++
    d.liveRegimes.flatMap (fun r => tagKeysFor r.tags schema)
  (a.requires.flatMap fun k => if (d.addonFor k).isSome then [] else [⟨"requires", "requires", k⟩]) ++
  tagSetIssues d a.tags ++
  scenarioIssues d exts offered a.scenarios ++
  correctionIssues d exts a.corrections

/-- the shape of the shipped deviation (known finding
    `scenario_tag_without_tag_set`): a regime's scenario uses a tag for a document
    type for which the regime publishes no tag set at all -/
def knownTagGap (r : Regime) (i : Issue) : Bool :=
  i.kind == "tag" && r.scenarios.any fun ss =>
    i.at_ == "scenarios:" ++ ss.schema && (tagKeysFor r.tags ss.schema).isEmpty

def regimeCoherent (d : Defs) (r : Regime) : Bool :=
  ((regimeIssues d r).filter fun i => !knownTagGap r i).isEmpty

def addonCoherent (d : Defs) (a : Addon) : Bool := (addonIssues d a).isEmpty

/-! ## references whose value is governed by a pattern (judged by the harness with Go's regexp) -/

def pairPattern (exts : List ExtDef) (kv : String × String) : List (String × String × String) :=
  match exts.find? (·.key == kv.1) with
  | some kd => if kd.pattern == "" then [] else [(kv.1, kv.2, kd.pattern)]
  | none => []

def scenarioPairs (sets : List ScenarioSet) : List (String × String) :=
  sets.flatMap fun ss => ss.list.flatMap fun s =>
    (if s.extKey == "" || s.extCode == "" then [] else [(s.extKey, s.extCode)]) ++ s.ext

def regimePairs (r : Regime) : List (String × String) :=
  (r.categories.flatMap fun c => c.ext ++ c.rates.flatMap fun rt => rt.ext ++ rt.valueExts.flatMap id) ++
  scenarioPairs r.scenarios

/-- (key, code, pattern) for every extension pair of a regime file that a pattern governs -/
def regimePatternRefs (d : Defs) (r : Regime) : List (String × String × String) :=
  (regimePairs r).flatMap (pairPattern (visibleExt d r.extensions))

def addonPatternRefs (d : Defs) (a : Addon) : List (String × String × String) :=
  (scenarioPairs a.scenarios).flatMap (pairPattern (visibleExt d (a.extensions ++ d.liveRegimes.flatMap (·.extensions))))

end GoblVerif.Spec.C19
