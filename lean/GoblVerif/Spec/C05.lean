/-
  Specification side of C05, written from the property statement, not from
  the Go code: rational arithmetic and "round half away from zero".
-/
import GoblVerif.Model.Num

namespace GoblVerif.Spec

/-- round a rational to the nearest integer, half away from zero -/
def roundHalfAway (q : Rat) : Int :=
  if 0 ≤ q then (q + 1/2).floor else - ((-q + 1/2).floor)

/-- `q` rounded to `e` decimals, expressed in units of 10^-e -/
def roundTo (e : Nat) (q : Rat) : Int := roundHalfAway (q * ((pow10 e : Int) : Rat))

/-- three-way comparison of rationals -/
def cmp (x y : Rat) : Int := if x < y then -1 else if x > y then 1 else 0

/-- the magnitude domain of the property: "operands and the exact
    intermediate fit in 2^52 units of the working precision" -/
def small (i : Int) : Prop := i.natAbs < 2 ^ 52

instance (i : Int) : Decidable (small i) := by unfold small; infer_instance

end GoblVerif.Spec
