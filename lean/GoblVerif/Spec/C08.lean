/-
  Specification side of C08, written from the property statement:

    "If the logical content of its document is changed in any way - a value
     altered, a member added or removed, array elements reordered - without
     recalculating, validation fails with a digest error; after recalculating,
     the digest differs from the previous one."

  `Evident` is that sentence for one edited document; the edits themselves are
  the functions of Model/JsonEdit.lean.  `applyOp` performs one named edit at
  the end of a path and says — as an executable oracle, by looking at the
  edited place only — whether it changes the logical content; Props/C08 proves
  that answer right (`edit_verdict_sound`).  Core Lean only.
-/
import GoblVerif.Model.Digest
import GoblVerif.Model.JsonEdit
import GoblVerif.Spec.C07

namespace GoblVerif.Spec.C08
open GoblVerif GoblVerif.C14n GoblVerif.Digest

/-- the envelope with its document replaced by `d'` and the header (its digest) left as it is:
    "changed without recalculating" -/
def tampered (e : Env) (d' : J) : Env := { dig := e.dig, doc := d' }

/-- The change of the document of `e` into `d'` is evident:
    * without recalculating, validation does not succeed, whatever the structural validation
      (`docValid`) says about the changed document,
    * and it fails with the *digest* error whenever the changed document is structurally valid
      and has a canonical form (otherwise an earlier error is reported: `validation`/`internal`);
    * the digest of the changed document — what a recalculation stores when the document's own
      calculation leaves it as it was edited — is not the previous one. -/
def Evident (h : Hash) (docValid : J → Bool) (e : Env) (d' : J) : Prop :=
  validate h docValid (tampered e d') ≠ .ok ∧
  (docValid d' = true → canon d' ≠ none → validate h docValid (tampered e d') = .digest) ∧
  (∀ dg', digest h d' = some dg' → some dg' ≠ e.dig)

/-! ## the edits by name, with the oracle "does it change the content?" -/

open GoblVerif.Edit GoblVerif.Spec.C07

/-- the single edits of the property: a value replaced, a member added, a member removed,
    two array elements exchanged -/
inductive Op where
  | set (v' : J)
  | ins (n : Nat) (k : Str) (v : J)
  | del (k : Str)
  | swap (i j : Nat)

/-- same logical content (Boolean; `J.beq` is equality: Props/C08 `edit_verdict_sound` rests on it) -/
def sameContent (a b : J) : Bool := J.beq (norm a) (norm b)

/-- `applyOp op p d`: the document `d` with the edit `op` performed on the value at the end of `p`,
    and the oracle's verdict (true = the logical content changes), decided locally:
    set — the new value has another content than the old one; ins — the new member's value is not
    null; del — the removed member's value was not null; swap — the two elements differ in content.
    `none`: the path, the member or one of the elements does not exist (or `i = j`). -/
def applyOp (op : Op) (p : Path) (d : J) : Option (J × Bool) :=
  match op with
  | .set v' =>
    match J.get? p d with
    | some v => some (J.set p v' d, !sameContent v' v)
    | none => none
  | .ins n k v =>
    match J.get? p d with
    | some (.obj kvs) => some (J.set p (.obj (KL.insertAt n k v kvs)) d, !v.isNull)
    | _ => none
  | .del k =>
    match J.get? p d with
    | some (.obj kvs) =>
      match KL.get? k kvs with
      | some w => some (J.set p (.obj (KL.erase k kvs)) d, !w.isNull)
      | none => none
    | _ => none
  | .swap i j =>
    match J.get? p d with
    | some (.arr xs) =>
      match JL.get? i xs, JL.get? j xs with
      | some a, some b => if i = j then none else some (J.set p (.arr (JL.swap i j xs)) d, !sameContent a b)
      | _, _ => none
    | _ => none

end GoblVerif.Spec.C08
