/-
  Specification side of C07, written from the property statement and from
  /repo/c14n/README.md ("JSON in canonical form: …"), not from the Go code.

  * `norm`  — the logical content: null members dropped, members sorted by key;
  * `text`  — the canonical text of a content, by the README rules 2–8
              (no whitespace, `,` `:` separators, rule-8 escapes, plain
              integers, `d.d+E[-]d+` floats);
  * recognisers of the number forms (`isIntPlain`, `isFloatForm`), of sorted
    members, of "clean" strings (rule 1/8.3: a string is a sequence of Unicode
    scalar values — U+FFFD is one of them; anything else has no UTF-8 encoding);
  * `decodeAtom` — reads one leaf back from canonical text (used to state that
    parsing gives back the content).
-/
import GoblVerif.Model.Json

namespace GoblVerif.Spec.C07
open GoblVerif

/-! ## rule 8: strings -/

def upperHex (n : Nat) : Nat := if n < 10 then 48 + n else 55 + n

/-- README 8.1 / 8.2: the seven two-character escapes, `\u00XX` (upper case)
    for the other control characters, everything else literal -/
def escChar (c : Nat) : Chars :=
  if c = 0x22 then [0x5C, 0x22]          -- \"
  else if c = 0x5C then [0x5C, 0x5C]     -- \\
  else if c = 0x08 then [0x5C, 0x62]     -- \b
  else if c = 0x09 then [0x5C, 0x74]     -- \t
  else if c = 0x0A then [0x5C, 0x6E]     -- \n
  else if c = 0x0C then [0x5C, 0x66]     -- \f
  else if c = 0x0D then [0x5C, 0x72]     -- \r
  else if c < 0x20 then [0x5C, 0x75, 0x30, 0x30, upperHex (c / 16), upperHex (c % 16)]
  else [c]

def escS (s : Str) : Chars := s.flatMap escChar

def strText (s : Str) : Chars := 0x22 :: (escS s ++ [0x22])

/-! ## rules 6, 7: numbers -/

/-- fractional digits: the remaining digits, or a single `0` -/
def fracText (rest : List Nat) : Chars := if rest.isEmpty then [48] else rest.map (48 + ·)

/-- rule 7: `[-]d.d+E[-]d+` -/
def fltText (neg : Bool) (ds : List Nat) (e : Int) : Chars :=
  (if neg then [0x2D] else []) ++
  (48 + ds.headD 0) :: 0x2E :: (fracText ds.tail ++ 0x45 :: formatInt e)

def atomText : Atom → Chars
  | .null => [0x6E, 0x75, 0x6C, 0x6C]
  | .bool true => [0x74, 0x72, 0x75, 0x65]
  | .bool false => [0x66, 0x61, 0x6C, 0x73, 0x65]
  | .int i => formatInt i
  | .flt neg ds e => fltText neg ds e
  | .str s => strText s

/-! ## rules 2–5: structure -/

def sep (first : Bool) : Chars := if first then [] else [0x2C]

mutual
/-- the canonical text of a content (members in the order given) -/
def text : J → Chars
  | .atom a => atomText a
  | .arr xs => 0x5B :: (elems true xs ++ [0x5D])
  | .obj kvs => 0x7B :: (members true kvs ++ [0x7D])
def elems : Bool → JL → Chars
  | _, .nil => []
  | first, .cons x xs => sep first ++ (text x ++ elems false xs)
def members : Bool → KL → Chars
  | _, .nil => []
  | first, .cons k v r => sep first ++ (strText k ++ 0x3A :: (text v ++ members false r))
end

/- drop every member whose value is null, at every depth -/
mutual
def dropJ : J → J
  | .atom a => .atom a
  | .arr xs => .arr (dropJL xs)
  | .obj kvs => .obj (dropJK kvs)
def dropJL : JL → JL
  | .nil => .nil
  | .cons x xs => .cons (dropJ x) (dropJL xs)
def dropJK : KL → KL
  | .nil => .nil
  | .cons k v r => if v.isNull then dropJK r else .cons k (dropJ v) (dropJK r)
end

/-- the logical content of a JSON value: members sorted by key, null members dropped -/
def norm (v : J) : J := dropJ (sortJ v)

/-! ## rule 1 / 8.3: a string with invalid encoding is refused

A string is valid when every element is a Unicode scalar value (`isScalar`: below
0x110000 and no surrogate).  U+FFFD is a scalar value like any other. -/

def cleanS (s : Str) : Bool := s.all isScalar

def cleanA : Atom → Bool
  | .str s => cleanS s
  | _ => true

mutual
def cleanJ : J → Bool
  | .atom a => cleanA a
  | .arr xs => cleanJL xs
  | .obj kvs => cleanJK kvs
def cleanJL : JL → Bool
  | .nil => true
  | .cons x xs => cleanJ x && cleanJL xs
def cleanJK : KL → Bool
  | .nil => true
  | .cons k v r => cleanS k && cleanJ v && cleanJK r
end

/-! ## recognisers of the README forms (executable oracles) -/

def isDigit (c : Nat) : Bool := 48 ≤ c && c ≤ 57

/-- rule 6: `0` or `[-]` non-zero digit, digits; no sign on zero, no point, no exponent -/
def isIntPlain (t : Chars) : Bool :=
  match t with
  | [48] => true
  | 0x2D :: d :: ds => 49 ≤ d && d ≤ 57 && ds.all isDigit
  | d :: ds => 49 ≤ d && d ≤ 57 && ds.all isDigit
  | [] => false

/-- exponent part: plain integer (no plus, no leading zeros) -/
def isExpPlain (t : Chars) : Bool := isIntPlain t

/-- fraction: a single `0`, or digits not ending in `0` -/
def isFrac (t : Chars) : Bool := t == [48] || (!t.isEmpty && t.all isDigit && t.getLast? != some 48)

def splitOn (c : Nat) : Chars → Chars × Chars
  | [] => ([], [])
  | x :: xs => if x = c then ([], xs) else ((x :: (splitOn c xs).1), (splitOn c xs).2)

/-- rule 7: one digit before the point (non-zero unless the number is zero),
    non-empty fraction without trailing zeros, capital `E`, no plus signs,
    no leading zeros in the exponent -/
def isFloatForm (t : Chars) : Bool :=
  let body := match t with
    | 0x2D :: r => r
    | r => r
  match body with
  | d :: 0x2E :: r =>
    let fe := splitOn 0x45 r
    isDigit d && isFrac fe.1 && isExpPlain fe.2 && r.contains 0x45 &&
      (d != 48 || (fe.1 == [48] && fe.2 == [48]))
  | _ => false

/- members of every object in key order (`strict`: strictly, i.e. no duplicates) -/
def sortedKeys (strict : Bool) : List Str → Bool
  | [] => true
  | [_] => true
  | a :: b :: r => (if strict then ltS a b else !ltS b a) && sortedKeys strict (b :: r)

def KL.keys : KL → List Str
  | .nil => []
  | .cons k _ r => k :: KL.keys r

mutual
def sortedJ (strict : Bool) : J → Bool
  | .atom _ => true
  | .arr xs => sortedJL strict xs
  | .obj kvs => sortedKeys strict (KL.keys kvs) && sortedJK strict kvs
def sortedJL (strict : Bool) : JL → Bool
  | .nil => true
  | .cons x xs => sortedJ strict x && sortedJL strict xs
def sortedJK (strict : Bool) : KL → Bool
  | .nil => true
  | .cons _ v r => sortedJ strict v && sortedJK strict r
end

/- no object has a null member (rule 4); nulls in arrays are fine (rule 5) -/
mutual
def noNullMembers : J → Bool
  | .atom _ => true
  | .arr xs => noNullMembersL xs
  | .obj kvs => noNullMembersK kvs
def noNullMembersL : JL → Bool
  | .nil => true
  | .cons x xs => noNullMembers x && noNullMembersL xs
def noNullMembersK : KL → Bool
  | .nil => true
  | .cons _ v r => !v.isNull && noNullMembers v && noNullMembersK r
end

/- some string or key of the value contains a character satisfying `p` -/
mutual
def strsHave (p : Nat → Bool) : J → Bool
  | .atom (.str s) => s.any p
  | .atom _ => false
  | .arr xs => strsHaveL p xs
  | .obj kvs => strsHaveK p kvs
def strsHaveL (p : Nat → Bool) : JL → Bool
  | .nil => false
  | .cons x xs => strsHave p x || strsHaveL p xs
def strsHaveK (p : Nat → Bool) : KL → Bool
  | .nil => false
  | .cons k v r => k.any p || strsHave p v || strsHaveK p r
end

/-! ## what may follow a value inside canonical text -/

/-- end of text, or one of `,` `]` `}` -/
def delim : Chars → Bool
  | [] => true
  | c :: _ => c == 0x2C || c == 0x5D || c == 0x7D

/-! ## reading one leaf back -/

def spanDigits : Chars → Chars × Chars
  | [] => ([], [])
  | c :: cs => if isDigit c then ((c :: (spanDigits cs).1), (spanDigits cs).2) else ([], c :: cs)

def natOfDigits (ds : Chars) : Nat := ds.foldl (fun a c => a * 10 + (c - 48)) 0

def hexVal (c : Nat) : Nat := if c < 58 then c - 48 else c - 55

/-- undo `escS` up to the closing quote -/
def unescS : Chars → Option (Str × Chars)
  | [] => none
  | 0x22 :: r => some ([], r)
  | 0x5C :: 0x75 :: _ :: _ :: h :: l :: r =>
    (unescS r).map (fun p => ((hexVal h * 16 + hexVal l) :: p.1, p.2))
  | 0x5C :: x :: r =>
    let c := if x = 0x62 then 0x08 else if x = 0x74 then 0x09 else if x = 0x6E then 0x0A
      else if x = 0x66 then 0x0C else if x = 0x72 then 0x0D else x
    (unescS r).map (fun p => (c :: p.1, p.2))
  | c :: r => (unescS r).map (fun p => (c :: p.1, p.2))

def stripMinus (cs : Chars) : Bool × Chars :=
  if cs.head? == some 0x2D then (true, cs.tail) else (false, cs)

def decodeNumber (cs : Chars) : Option (Atom × Chars) :=
  let s := stripMinus cs
  let ip := spanDigits s.2
  if ip.1.isEmpty then none else
  if ip.2.head? == some 0x2E then
    let fp := spanDigits ip.2.tail
    if fp.2.head? == some 0x45 then
      let es := stripMinus fp.2.tail
      let ed := spanDigits es.2
      if ed.1.isEmpty || fp.1.isEmpty || ip.1.length != 1 then none else
      let e : Int := (natOfDigits ed.1 : Nat)
      let ds := ip.1 ++ (if fp.1 == [48] then [] else fp.1)
      some (.flt s.1 (ds.map (· - 48)) (if es.1 then -e else e), ed.2)
    else none
  else
    let n : Int := (natOfDigits ip.1 : Nat)
    some (.int (if s.1 then -n else n), ip.2)

/-- read one leaf from the front of a canonical text -/
def decodeAtom (cs : Chars) : Option (Atom × Chars) :=
  match cs with
  | 0x6E :: 0x75 :: 0x6C :: 0x6C :: r => some (.null, r)
  | 0x74 :: 0x72 :: 0x75 :: 0x65 :: r => some (.bool true, r)
  | 0x66 :: 0x61 :: 0x6C :: 0x73 :: 0x65 :: r => some (.bool false, r)
  | 0x22 :: r => (unescS r).map (fun p => (.str p.1, p.2))
  | _ => decodeNumber cs

end GoblVerif.Spec.C07
