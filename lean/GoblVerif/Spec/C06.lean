/-
  Specification side of C06, written from the property statement and the two
  published patterns, not from the parser:

    amount      ^\-?[0-9]+(\.[0-9]+)?$
    percentage  ^\-?[0-9]+(\.[0-9]+)?%$

  * `isAmountText` / `isPercentageText`: hand-written recognisers of exactly
    these two languages (pinned to the extracted pattern strings by
    `Props.C06.Expect`, compared with Go's `regexp` on every generated string
    by the harness);
  * `decimalValue`: the rational a pattern member denotes, read digit by digit;
  * `fits64`: "whose value fits in 64 bits", made precise: at most 18
    decimals, and the number the digits (without the point) form, with the
    sign of the text, is an int64: −2^63 … 2^63−1.

  Texts are byte lists (see Model/Codec.lean).  Core Lean only.
-/
import GoblVerif.Model.Codec

namespace GoblVerif.Spec.C06
open GoblVerif GoblVerif.Codec

/-- `[0-9]` -/
def digit (c : Char) : Bool := '0' ≤ c && c ≤ '9'

/-- `\-?` -/
def stripMinus : Text → Text
  | '-' :: r => r
  | s => s

/-- `[0-9]+(\.[0-9]+)?$` -/
def isAmountBody (u : Text) : Bool :=
  let a := u.takeWhile digit
  let r := u.dropWhile digit
  !a.isEmpty &&
    (match r with
     | [] => true
     | c :: m => c == '.' && !m.isEmpty && m.all digit)

/-- the language of `^\-?[0-9]+(\.[0-9]+)?$` -/
def isAmountText (s : Text) : Bool := isAmountBody (stripMinus s)

/-- the language of `^\-?[0-9]+(\.[0-9]+)?%$` -/
def isPercentageText (s : Text) : Bool :=
  match s.getLast? with
  | some '%' => isAmountText s.dropLast
  | _ => false

/-! ### reading a pattern member as a number -/

def negative : Text → Bool
  | '-' :: _ => true
  | _ => false

/-- digits before the point -/
def intDigits (s : Text) : Text := (stripMinus s).takeWhile digit

/-- digits after the point (empty when there is none) -/
def fracDigits (s : Text) : Text := ((stripMinus s).dropWhile digit).drop 1

def digitsValue (ds : Text) : Nat := ds.foldl (fun n c => 10 * n + (c.toNat - '0'.toNat)) 0

/-- all digits read as one natural number (the value in units of 10^-decimals) -/
def unscaled (s : Text) : Nat :=
  digitsValue (intDigits s) * 10 ^ (fracDigits s).length + digitsValue (fracDigits s)

/-- number of decimals written -/
def decimals (s : Text) : Nat := (fracDigits s).length

/-- the rational denoted by a pattern member -/
def decimalValue (s : Text) : Rat :=
  let m : Rat := ((unscaled s : Nat) : Int) / (((10 : Int) ^ decimals s : Int) : Rat)
  if negative s then -m else m

/-- the digits without the point as one integer, with the sign of the text: the
    value in units of 10^-decimals -/
def signedUnscaled (s : Text) : Int := if negative s then -(unscaled s : Int) else (unscaled s : Int)

/-- "fits in 64 bits": at most 18 decimals, and the digits with the sign of the
    text are an int64.  The range is not symmetric: −2^63 fits, 2^63 does not. -/
def fits64 (s : Text) : Bool :=
  decide (decimals s ≤ 18) &&
  decide (-(2 : Int) ^ 63 ≤ signedUnscaled s) && decide (signedUnscaled s ≤ 2 ^ 63 - 1)

/-! ### JSON spellings of a text (RFC 8259 section 7)

The same string value can be written in many ways; the ones considered here:
every character either stands for itself or is written as `\u00XX`.  Which one
is chosen per character is given by a mask (missing entries: unescaped). -/

def hexDigit (n : Nat) : Char :=
  match n with
  | 0 => '0' | 1 => '1' | 2 => '2' | 3 => '3' | 4 => '4' | 5 => '5' | 6 => '6' | 7 => '7'
  | 8 => '8' | 9 => '9' | 10 => 'a' | 11 => 'b' | 12 => 'c' | 13 => 'd' | 14 => 'e' | _ => 'f'

/-- `\u00XX` for an ASCII character -/
def uEscape (c : Char) : Text := ['\\', 'u', '0', '0', hexDigit (c.toNat / 16), hexDigit (c.toNat % 16)]

/-- an ASCII character that may stand for itself inside a JSON string -/
def jsonPlain (c : Char) : Bool := 0x20 ≤ c.toNat && c.toNat < 0x80 && c != '"' && c != '\\'

def spell : List Bool → Text → Text
  | _, [] => []
  | m, c :: cs => (if m.headD false then uEscape c else [c]) ++ spell m.tail cs

/-- `s` written as a JSON string token -/
def jsonSpelling (mask : List Bool) (s : Text) : Text := '"' :: (spell mask s ++ ['"'])

/-! ### oracles on observed results (evaluated by the driver on Go's output) -/

/-- reading: accepted exactly the fitting pattern members, with their value and precision -/
def readOracle (s : Text) (accepted : Bool) (got : Amount) : Bool :=
  (accepted == (isAmountText s && fits64 s)) &&
  (!accepted || (got.toRat == decimalValue s && got.exp == decimals s))

/-- writing: the text is a pattern member that denotes the amount at its precision -/
def writeOracle (a : Amount) (text : Text) : Bool :=
  isAmountText text && decimalValue text == a.toRat && decimals text == a.exp

/-- percentage reading, judged against the published pattern: the text without
    `%` is a fitting amount text and the value is that number of hundredths -/
def pctReadOracle (s : Text) (accepted : Bool) (got : Pct) : Bool :=
  (accepted == (isPercentageText s && fits64 s.dropLast)) &&
  (!accepted || got.amount.toRat == decimalValue s.dropLast / 100)

/-- percentage writing: pattern member denoting the value in percent -/
def pctWriteOracle (p : Pct) (text : Text) : Bool :=
  isPercentageText text && decimalValue text.dropLast / 100 == p.amount.toRat

end GoblVerif.Spec.C06
