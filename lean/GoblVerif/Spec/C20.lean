/-
  Specification side of C20, written from the property statement:

  * a *rate group* of a category is identified by extensions, country, the
    percentage **value** (or "exempt") and the surcharge percentage value;
    `sameGroup` compares values as rationals (so 20% = 20.0%), keys are ignored;
  * "combine component-wise": for every category code and every rate group the
    bases, amounts and surcharges of the merged summary are the sums of the
    operands' (`figuresAdd`), and the total is the sum of the totals;
  * negation flips every amount, surcharges included (`isNegationOf`);
  * "zero everywhere" (`allZero`), "same up to row order" (`sameFigures` +
    `noDuplicates`);
  * payments: the total is Σ convert(debit) − convert(credit) over the lines,
    with convert = exact product with the declared rate, rounded half away from
    zero to the payment currency's precision (`convertSpec`).

  The sums are taken over integer values at one common precision `e`
  (`uniform e`): this is the domain in which "the sum" is an amount at all, and
  what `Total.Calculate` produces.  Core Lean only.
-/
import GoblVerif.Model.Payment
import GoblVerif.Spec.C05

namespace GoblVerif.Spec.C20
open GoblVerif GoblVerif.Merge

/-! ### rate groups -/

def samePercent (p q : Option Pct) : Bool :=
  match p, q with
  | none, none => true
  | some a, some b => a.amount.toRat == b.amount.toRat
  | _, _ => false

def sameSurchargePercent (s t : Option Surcharge) : Bool :=
  match s, t with
  | none, none => true
  | some a, some b => a.percent.amount.toRat == b.percent.amount.toRat
  | _, _ => false

/-- same rate group: extensions, country, percentage value, surcharge percentage value
    (an exempt group has neither) -/
def sameGroup (k r : RateTotal) : Bool :=
  k.ext == r.ext && k.country == r.country && samePercent k.percent r.percent &&
    (k.percent.isNone || sameSurchargePercent k.surcharge r.surcharge)

/-! ### one common precision -/

def uniformRate (e : Nat) (r : RateTotal) : Bool :=
  r.base.exp == e && r.amount.exp == e && (match r.surcharge with | none => true | some s => s.amount.exp == e)

def uniformCategory (e : Nat) (c : CategoryTotal) : Bool :=
  c.amount.exp == e && (match c.surcharge with | none => true | some s => s.exp == e) && c.rates.all (uniformRate e)

def uniform (e : Nat) (t : Total) : Bool := t.sum.exp == e && t.categories.all (uniformCategory e)

/-- an exempt group carries no surcharge (always true of what the calculator builds).
    Not a hypothesis of any theorem (since fix 1b8dc7e `Merge` handles the other
    shapes too); reported by the driver for the input distribution only -/
def wellFormedRate (r : RateTotal) : Bool := r.percent.isSome || r.surcharge.isNone

def wellFormed (t : Total) : Bool := t.categories.all fun c => c.rates.all wellFormedRate

/-! ### figures per category code and rate group -/

def surchargeValue (r : RateTotal) : Int := match r.surcharge with | none => 0 | some s => s.amount.value
def catSurchargeValue (c : CategoryTotal) : Int := match c.surcharge with | none => 0 | some s => s.value

/-- Σ of `w` over the elements selected by `sel` -/
def wsum {α : Type} (sel : α → Bool) (w : α → Int) : List α → Int
  | [] => 0
  | x :: xs => (if sel x then w x else 0) + wsum sel w xs

/-- figure `f` of rate group `k` in the categories with code `code` -/
def groupFigure (f : RateTotal → Int) (code : String) (k : RateTotal) (t : Total) : Int :=
  wsum (fun c => c.code == code) (fun c => wsum (sameGroup k) f c.rates) t.categories

def categoryFigure (g : CategoryTotal → Int) (code : String) (t : Total) : Int :=
  wsum (fun c => c.code == code) g t.categories

def allRates (t : Total) : List RateTotal := t.categories.flatMap (·.rates)
def allCodes (t : Total) : List String := t.categories.map (·.code)

/-- `out` carries, for every category and rate group, the sums of the figures of `a` and `b` -/
def figuresAdd (a b out : Total) : Bool :=
  let codes := allCodes a ++ allCodes b ++ allCodes out
  let probes := allRates a ++ allRates b ++ allRates out
  out.sum.value == a.sum.value + b.sum.value &&
  codes.all (fun code =>
    categoryFigure (·.amount.value) code out == categoryFigure (·.amount.value) code a + categoryFigure (·.amount.value) code b &&
    categoryFigure catSurchargeValue code out == categoryFigure catSurchargeValue code a + categoryFigure catSurchargeValue code b &&
    probes.all (fun k =>
      groupFigure (·.base.value) code k out == groupFigure (·.base.value) code k a + groupFigure (·.base.value) code k b &&
      groupFigure (·.amount.value) code k out == groupFigure (·.amount.value) code k a + groupFigure (·.amount.value) code k b &&
      groupFigure surchargeValue code k out == groupFigure surchargeValue code k a + groupFigure surchargeValue code k b))

/-- merge oracle on an observed result, for operands at one precision -/
def mergeOracle (e : Nat) (a b out : Total) : Bool := uniform e out && figuresAdd a b out

/-- two summaries present the same figures for every category and rate group -/
def sameFigures (x y : Total) : Bool :=
  let codes := allCodes x ++ allCodes y
  let probes := allRates x ++ allRates y
  x.sum == y.sum &&
  codes.all (fun code =>
    categoryFigure (·.amount.value) code x == categoryFigure (·.amount.value) code y &&
    categoryFigure catSurchargeValue code x == categoryFigure catSurchargeValue code y &&
    probes.all (fun k =>
      groupFigure (·.base.value) code k x == groupFigure (·.base.value) code k y &&
      groupFigure (·.amount.value) code k x == groupFigure (·.amount.value) code k y &&
      groupFigure surchargeValue code k x == groupFigure surchargeValue code k y))

/-- no two rows of a list are related -/
def pairwiseNot {α : Type} (rel : α → α → Bool) : List α → Bool
  | [] => true
  | x :: xs => xs.all (fun y => !rel x y) && pairwiseNot rel xs

/-- every category code occurs once and every rate group once per category -/
def noDuplicates (t : Total) : Bool :=
  pairwiseNot (fun a b => a.code == b.code) t.categories && t.categories.all (fun c => pairwiseNot sameGroup c.rates)

/-- number of rate rows in the categories with code `code` -/
def rowCount (code : String) (t : Total) : Int := categoryFigure (fun c => (c.rates.length : Int)) code t

/-- same categories and rate groups with the same figures, in any row order:
    the figures agree for every category code and rate group, and there are
    equally many categories and rows per code (with `noDuplicates` on both sides
    this is a bijection between the rows) -/
def sameUpToOrder (x y : Total) : Bool :=
  sameFigures x y && x.categories.length == y.categories.length &&
  (allCodes x ++ allCodes y).all (fun code => rowCount code x == rowCount code y)

/-! ### negation -/

def rateNegated (r n : RateTotal) : Bool :=
  n.key == r.key && n.country == r.country && n.ext == r.ext && n.percent == r.percent &&
  n.base == ⟨-r.base.value, r.base.exp⟩ && n.amount == ⟨-r.amount.value, r.amount.exp⟩ &&
  (match r.surcharge, n.surcharge with
   | none, none => true
   | some s, some t => t.percent == s.percent && t.amount == ⟨-s.amount.value, s.amount.exp⟩
   | _, _ => false)

def zipAll {α : Type} (p : α → α → Bool) : List α → List α → Bool
  | [], [] => true
  | x :: xs, y :: ys => p x y && zipAll p xs ys
  | _, _ => false

def categoryNegated (c n : CategoryTotal) : Bool :=
  n.code == c.code && n.retained == c.retained && n.amount == ⟨-c.amount.value, c.amount.exp⟩ &&
  (match c.surcharge, n.surcharge with
   | none, none => true
   | some s, some t => t == ⟨-s.value, s.exp⟩
   | _, _ => false) &&
  zipAll rateNegated c.rates n.rates

/-- `n` is `t` with the sign of every amount flipped, surcharges included, rows in place -/
def isNegationOf (t n : Total) : Bool :=
  n.sum == ⟨-t.sum.value, t.sum.exp⟩ && zipAll categoryNegated t.categories n.categories

def rateZero (r : RateTotal) : Bool :=
  r.base.value == 0 && r.amount.value == 0 && surchargeValue r == 0

def allZero (t : Total) : Bool :=
  t.sum.value == 0 &&
  t.categories.all (fun c => c.amount.value == 0 && catSurchargeValue c == 0 && c.rates.all rateZero)

/-! ### payments -/

/-- an amount converted with rate `rate` into a currency with `e` decimals:
    the exact product rounded half away from zero -/
def convertSpec (rate : Rat) (e : Nat) (a : Amount) : Amount := ⟨Spec.roundTo e (a.toRat * rate), e⟩

/-- Σ over the lines of (converted debit − converted credit), in units of 10^-e -/
def totalOf (lines : List (Int × Int)) : Int := lines.foldl (fun acc l => acc + (l.1 - l.2)) 0

end GoblVerif.Spec.C20
