/-
  Specification side of C12, written from the property statement:

    "the percentage (and surcharge) a document receives is the table value with
     the latest start date on or before the document's tax date among the values
     whose tags and extensions apply, a value taking effect on its start date
     itself; exempt keys yield no percentage, and a date before the first value
     is an error rather than a guess.  Each table lists its undated-or-dated
     values in strictly descending date order so that this choice is
     unambiguous."

  Only the data types (Date, RateValue …) and the finite-map lookup come from
  Model/Rates.lean; the order on dates, "applies", "in force" and "descending"
  are defined here without looking at RateDef.Value.
-/
import GoblVerif.Model.Rates

namespace GoblVerif.Spec.C12
open GoblVerif.Rates

/-! ## the calendar order -/

/-- `a` is an earlier day than `b` -/
def dateLt (a b : Date) : Bool :=
  decide (a.y < b.y ∨ (a.y = b.y ∧ (a.m < b.m ∨ (a.m = b.m ∧ a.d < b.d))))

/-- `a` is the same day as `b` or an earlier one -/
def dateLe (a b : Date) : Bool :=
  decide (a.y < b.y ∨ (a.y = b.y ∧ (a.m < b.m ∨ (a.m = b.m ∧ a.d ≤ b.d))))

/-- start dates, an undated value counting as "since ever" (−∞) -/
def startLt (a b : Option Date) : Bool :=
  match a, b with
  | none, none => false
  | none, some _ => true
  | some _, none => false
  | some x, some y => dateLt x y

def startLe (a b : Option Date) : Bool :=
  match a, b with
  | none, _ => true
  | some _, none => false
  | some x, some y => dateLe x y

/-- a start date is a real calendar day (Gregorian) -/
def realDay (a : Date) : Bool :=
  let leap := (a.y % 4 == 0 && a.y % 100 != 0) || a.y % 400 == 0
  let len := if a.m == 2 then (if leap then 29 else 28)
             else if a.m == 4 || a.m == 6 || a.m == 9 || a.m == 11 then 30 else 31
  1 ≤ a.m && a.m ≤ 12 && 1 ≤ a.d && a.d ≤ len

def sinceReal (v : RateValue) : Bool :=
  match v.since with
  | none => true
  | some s => realDay s

/-! ## which values apply to a document -/

/-- the value's tag filter: no tags = every document; otherwise the document
    carries at least one of them -/
def tagsApply (v : RateValue) (tags : List String) : Bool :=
  v.tags.isEmpty || v.tags.any (fun t => tags.contains t)

/-- the value's extension filter: no pairs = every combo; otherwise the combo's
    extension map gives each listed key the listed value -/
def extApply (v : RateValue) (ext : Ext) : Bool :=
  v.ext.isEmpty || v.ext.all (fun kv => extLookup ext kv.1 == some kv.2)

def applies (v : RateValue) (tags : List String) (ext : Ext) : Bool :=
  tagsApply v tags && extApply v ext

/-- the value has taken effect on day `d` (its start date itself included) -/
def onOrBefore (v : RateValue) (d : Date) : Bool :=
  match v.since with
  | none => true
  | some s => dateLe s d

/-! ## the value in force -/

/-- the values that apply and have taken effect -/
def candidates (vals : List RateValue) (d : Date) (tags : List String) (ext : Ext) : List RateValue :=
  vals.filter fun v => applies v tags ext && onOrBefore v d

/-- of a list, the value with the greatest start date (the earlier-listed one
    among equal start dates — see `ambiguous`) -/
def latest : List RateValue → Option RateValue
  | [] => none
  | v :: rest =>
    match latest rest with
    | none => some v
    | some b => if startLt v.since b.since then some b else some v

/-- **the value in force** on day `d` for a document with these tags / extensions -/
def inForce (vals : List RateValue) (d : Date) (tags : List String) (ext : Ext) : Option RateValue :=
  latest (candidates vals d tags ext)

/-- the same thing as a relation: `r` applies, has taken effect, and no other
    applicable value that has taken effect starts later -/
def IsInForce (vals : List RateValue) (d : Date) (tags : List String) (ext : Ext) (r : RateValue) : Prop :=
  r ∈ vals ∧ applies r tags ext = true ∧ onOrBefore r d = true ∧
  ∀ r' ∈ vals, applies r' tags ext = true → onOrBefore r' d = true → startLe r'.since r.since = true

/-- two listed values that apply share the latest start date: the statement's
    "latest start date" does not single one out -/
def ambiguous (vals : List RateValue) (d : Date) (tags : List String) (ext : Ext) : Bool :=
  match inForce vals d tags ext with
  | none => false
  | some r => ((candidates vals d tags ext).filter fun v => v.since == r.since).length > 1

/-! ## "strictly descending date order", per filter -/

/-- each start date is strictly earlier than the one listed before it; an
    undated value can therefore only come last -/
def strictDesc : List (Option Date) → Bool
  | [] => true
  | [_] => true
  | x :: y :: rest => startLt y x && strictDesc (y :: rest)

/-- non-strict version (equal neighbours allowed) -/
def weakDesc : List (Option Date) → Bool
  | [] => true
  | [_] => true
  | x :: y :: rest => startLe y x && weakDesc (y :: rest)

/-- the start dates of the values that apply under one filter, in table order -/
def startsFor (vals : List RateValue) (tags : List String) (ext : Ext) : List (Option Date) :=
  (vals.filter fun v => applies v tags ext).map (·.since)

def descendingFor (vals : List RateValue) (tags : List String) (ext : Ext) : Bool :=
  strictDesc (startsFor vals tags ext)

/-- the filters that occur in a table: no tags / each row's tag list, crossed
    with no extensions / each row's extension pairs -/
def filtersOf (vals : List RateValue) : List (List String × Ext) :=
  let ts := [] :: (vals.map (·.tags)).filter (!·.isEmpty)
  let es := [] :: (vals.map (·.ext)).filter (!·.isEmpty)
  ts.flatMap fun t => es.map fun e => (t, e)

def isQualified (v : RateValue) : Bool := !v.tags.isEmpty || !v.ext.isEmpty

/-- the shape of the one shipped deviation (see known_findings.json,
    `qualified_row_shares_start_with_fallback`): a tag/extension-qualified row
    has the same start date as an unqualified (fall-back) row of the same rate,
    so "latest start date" alone does not choose between them -/
def qualifiedTie (vals : List RateValue) : Bool :=
  vals.any fun v => isQualified v && vals.any fun w => !isQualified w && w.since == v.since

/-- a rate's table is in strictly descending order under every filter that occurs -/
def tableDescending (vals : List RateValue) : Bool :=
  (filtersOf vals).all fun f => descendingFor vals f.1 f.2

def tableWeaklyDescending (vals : List RateValue) : Bool :=
  (filtersOf vals).all fun f => weakDesc (startsFor vals f.1 f.2)

/-- every rate of every category of every regime -/
def allRates (regs : List RegimeTable) : List RateDef :=
  regs.flatMap fun r => r.categories.flatMap fun c => c.rates

end GoblVerif.Spec.C12
