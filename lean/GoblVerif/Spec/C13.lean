/-
  Specification side of C13: the national check-digit rules in their
  published (textbook) form — DESIGN.md Appendix D — written from the
  published descriptions, not from the Go loops: weighted sums as Σ wᵢ·dᵢ,
  numbers by positional value, ISO 7064 MOD 11,10 in its recursive hybrid
  form with the closing condition "≡ 1 (mod 10)", Luhn as "double every
  second digit from the right, total ≡ 0 (mod 10)", mod-97 as "number
  formed by … ≡ r (mod 97)".

  Each regime gives `format`, `check` and `valid s = format s && check s`
  for a non-empty code; the empty code means "no code" and is accepted.
  Only the character-class basics (`Str`, `isDig`, `isUp`, `dval`) are
  shared with the model.

  Where the offline knowledge of the published rule was not firm the
  specification was aligned with the Go code; these places are marked
  ALIGNED and listed in the report / MANIFEST.
-/
import GoblVerif.Model.TaxId

namespace GoblVerif.Spec.TaxId
open GoblVerif.TaxId (Str isDig isUp dval)

/-! ## vocabulary -/

/-- all characters are decimal digits -/
def isDigits (s : Str) : Bool := s.all isDig
/-- the digits d₁…dₙ of a string of digits -/
def digs (s : Str) : List Nat := s.map dval
/-- Σ wᵢ·dᵢ -/
def dot (ws ds : List Nat) : Nat := (List.zipWith (· * ·) ws ds).sum
/-- the number written d₁d₂…dₙ (positional value) -/
def num : List Nat → Nat
  | [] => 0
  | d :: ds => d * 10 ^ ds.length + num ds
/-- sum of the decimal digits of a number below 100 -/
def digitSum (n : Nat) : Nat := n / 10 + n % 10
/-- i-th digit, 1-based, as in the published descriptions -/
def dg (ds : List Nat) (i : Nat) : Nat := ds.getD (i - 1) 0
def letterAt (t : List Char) (i : Nat) : Option Char := t[i]?

/-- Luhn: from the rightmost digit (the check digit) moving left, double every
    second digit (taking the digit sum of the double); the total. Argument:
    the digits from right to left. -/
def luhnTotal : List Nat → Nat
  | [] => 0
  | [a] => a
  | a :: b :: rest => a + digitSum (2 * b) + luhnTotal rest
/-- a digit string is Luhn-valid when the total is a multiple of 10 -/
def luhnValid (ds : List Nat) : Bool := luhnTotal ds.reverse % 10 == 0

/-! ## AE — TRN: 15 digits, no check digit -/
namespace AE
def format (s : Str) : Bool := s.length == 15 && isDigits s
def check (_ : Str) : Bool := true
def valid (s : Str) : Bool := format s && check s
end AE

/-! ## AT — UID: `U` + 8 digits; c = (10 − (Σ sᵢ + 4) mod 10) mod 10,
    sᵢ = dᵢ (i odd) or digitsum(2·dᵢ) (i even), i = 1..7 -/
namespace AT
def format (s : Str) : Bool := s.length == 9 && s.head? == some 'U' && isDigits (s.drop 1)
def check (s : Str) : Bool :=
  let d := digs (s.drop 1)
  let sigma := dg d 1 + digitSum (2 * dg d 2) + dg d 3 + digitSum (2 * dg d 4) + dg d 5 + digitSum (2 * dg d 6) + dg d 7
  dg d 8 == (10 - (sigma + 4) % 10) % 10
def valid (s : Str) : Bool := format s && check s
end AT

/-! ## BE — enterprise number: 10 digits (a 9-digit number gets a leading 0);
    d₉d₁₀ = 97 − (d₁…d₈ mod 97).
    ALIGNED: leading digit 0 and d₂ ≠ 0 (the Go format; the newer numbers
    starting with 1 are not accepted by Go — not judged here). -/
namespace BE
def pad (s : Str) : Str := if s.length == 9 then '0' :: s else s
def format (s : Str) : Bool :=
  let t := pad s
  t.length == 10 && isDigits t && t.head? == some '0' && t[1]? != some '0'
def check (s : Str) : Bool :=
  let d := digs (pad s)
  num (d.drop 8) + num (d.take 8) % 97 == 97
def valid (s : Str) : Bool := format s && check s
end BE

/-! ## BR — CNPJ: 14 digits, two mod-11 check digits;
    weights 5,4,3,2,9,…,2 over d₁..d₁₂ and 6,5,4,3,2,9,…,2 over d₁..d₁₃;
    r < 2 ↦ 0 else 11 − r -/
namespace BR
def format (s : Str) : Bool := s.length == 14 && isDigits s
def dv (r : Nat) : Nat := if r < 2 then 0 else 11 - r
def check (s : Str) : Bool :=
  let d := digs s
  let r1 := dot [5, 4, 3, 2, 9, 8, 7, 6, 5, 4, 3, 2] d % 11
  let r2 := dot [6, 5, 4, 3, 2, 9, 8, 7, 6, 5, 4, 3, 2] d % 11
  dg d 13 == dv r1 && dg d 14 == dv r2
def valid (s : Str) : Bool := format s && check s
end BR

/-! ## CH — UID: `E` + 9 digits; c = 11 − (Σ wᵢdᵢ mod 11), w = 5,4,3,2,7,6,5,4;
    10 is invalid, 11 ↦ 0 -/
namespace CH
def format (s : Str) : Bool := s.length == 10 && s.head? == some 'E' && isDigits (s.drop 1)
def check (s : Str) : Bool :=
  let d := digs (s.drop 1)
  let c := 11 - dot [5, 4, 3, 2, 7, 6, 5, 4] d % 11
  c != 10 && dg d 9 == (if c == 11 then 0 else c)
def valid (s : Str) : Bool := format s && check s
end CH

/-! ## CO — NIT: 9–10 digits, last is the check digit;
    r = Σ wᵢdᵢ mod 11 with the prime weights 3,7,13,…,71 applied from the
    right of the number (without the check digit); check = r if r < 2 else 11 − r -/
namespace CO
def primes : List Nat := [3, 7, 13, 17, 19, 23, 29, 37, 41, 43, 47, 53, 59, 67, 71]
def format (s : Str) : Bool := (s.length == 9 || s.length == 10) && isDigits s
def check (s : Str) : Bool :=
  let d := digs s
  let body := d.take (d.length - 1)
  let r := dot primes body.reverse % 11
  d.getLast? == some (if r < 2 then r else 11 - r)
def valid (s : Str) : Bool := format s && check s
end CO

/-! ## DE — USt-IdNr: 9 digits, d₁ ≠ 0; ISO 7064 MOD 11,10 (hybrid system):
    P₁ = 10; Sⱼ = (Pⱼ + aⱼ) mod 10, 0 read as 10; Pⱼ₊₁ = 2·Sⱼ mod 11;
    the string is valid when (P₉ + a₉) mod 10 = 1 -/
namespace DE
def format (s : Str) : Bool := s.length == 9 && isDigits s && s.head? != some '0'
def step (p a : Nat) : Nat :=
  let s := (p + a) % 10
  2 * (if s == 0 then 10 else s) % 11
def check (s : Str) : Bool :=
  let d := digs s
  ((d.take 8).foldl step 10 + dg d 9) % 10 == 1
def valid (s : Str) : Bool := format s && check s
end DE

/-! ## ES — NIF / NIE / CIF -/
namespace ES
def letters : List Char :=
  ['T','R','W','A','G','M','Y','F','P','D','X','B','N','J','Z','S','Q','V','H','L','C','K','E']
def controlLetters : List Char := ['J','A','B','C','D','E','F','G','H','I']
/-- CIF entity letters; ALIGNED: K, L, M (special NIFs) are given the CIF
    control rule, as Go does (other references give them the NIF letter rule;
    not decidable offline) -/
def cifTypes : List Char := ['A','B','C','D','E','F','G','H','J','N','P','Q','R','S','U','V','W', 'K','L','M']

def mid (s : Str) : Str := (s.drop 1).take 7
def last (s : Str) : Char := s.getD 8 ' '

/-- NIF: 8 digits + letter -/
def nifFormat (s : Str) : Bool := s.length == 9 && isDigits (s.take 8) && letters.contains (last s)
def nifCheck (s : Str) : Bool :=
  let n := num (digs (s.take 8))
  n != 0 && letterAt letters (n % 23) == some (last s)
/-- NIE: X/Y/Z + 7 digits + letter; X,Y,Z ↦ 0,1,2 prefixed to the number -/
def nieFormat (s : Str) : Bool :=
  s.length == 9 && ['X','Y','Z'].contains (s.getD 0 ' ') && isDigits (mid s) && letters.contains (last s)
def nieCheck (s : Str) : Bool :=
  let k := match s.getD 0 ' ' with | 'X' => 0 | 'Y' => 1 | _ => 2
  let n := k * 10 ^ 7 + num (digs (mid s))
  letterAt letters (n % 23) == some (last s)
/-- CIF: entity letter + 7 digits + control (digit or letter; either form is
    accepted for every entity letter — lenient, as Go is) -/
def cifFormat (s : Str) : Bool :=
  s.length == 9 && cifTypes.contains (s.getD 0 ' ') && isDigits (mid s) &&
    (isDig (last s) || controlLetters.contains (last s))
def cifCheck (s : Str) : Bool :=
  let d := digs (mid s)
  let evens := dg d 2 + dg d 4 + dg d 6
  let odds := digitSum (2 * dg d 1) + digitSum (2 * dg d 3) + digitSum (2 * dg d 5) + digitSum (2 * dg d 7)
  let c := (10 - (evens + odds) % 10) % 10
  (isDig (last s) && dval (last s) == c) || letterAt controlLetters c == some (last s)

def format (s : Str) : Bool := nifFormat s || nieFormat s || cifFormat s
def check (s : Str) : Bool :=
  if nifFormat s then nifCheck s else if nieFormat s then nieCheck s else cifCheck s
def valid (s : Str) : Bool := format s && check s
end ES

/-! ## FR — TVA: 2 key digits + SIREN (9 digits); key = (12 + 3·(SIREN mod 97)) mod 97.
    The SIREN itself is Luhn-valid (used by the normaliser only). -/
namespace FR
def format (s : Str) : Bool := s.length == 11 && isDigits s
def check (s : Str) : Bool :=
  let d := digs s
  num (d.take 2) == (12 + 3 * (num (d.drop 2) % 97)) % 97
def valid (s : Str) : Bool := format s && check s
def sirenFormat (s : Str) : Bool := s.length == 9 && isDigits s
def sirenValid (s : Str) : Bool := sirenFormat s && luhnValid (digs s)
end FR

/-! ## GB — VAT: 9 digits (+3 branch digits), or GD000–GD499 / HA500–HA999.
    T = 8d₁+7d₂+…+2d₇ + d₈d₉; old style T ≡ 0 (mod 97), new style ("9755")
    T + 55 ≡ 0 (mod 97), with the HMRC number ranges.
    Limited independence: the Go code is a port of a reference implementation
    and the ranges are transcribed from the same description.  ALIGNED:
    check digits 97–99 are never produced ("(97 − Σ mod 97) mod 97"), an
    all-zero number is invalid. -/
namespace GB
def format (s : Str) : Bool :=
  ((s.length == 9 || s.length == 12) && isDigits s) ||
  (s.length == 5 && (s.take 2 == ['G','D'] || s.take 2 == ['H','A']) && isDigits (s.drop 2))
def check (s : Str) : Bool :=
  if s.take 2 == ['G','D'] then num (digs (s.drop 2)) ≤ 499
  else if s.take 2 == ['H','A'] then num (digs (s.drop 2)) ≥ 500
  else
    let d := digs s
    let body := num (d.take 7)
    let cc := num ((d.drop 7).take 2)
    let t := dot [8, 7, 6, 5, 4, 3, 2] d + cc
    num d != 0 && cc ≤ 96 &&
      ((t % 97 == 0 && body < 9990001 && (body < 100000 || body > 999999) && (body < 9490001 || body > 9700000))
       || ((t + 55) % 97 == 0 && body > 1000000))
def valid (s : Str) : Bool := format s && check s
end GB

/-! ## GR — AFM: 9 digits; (Σ dᵢ·2^(9−i), i = 1..8) mod 11 mod 10 = d₉ -/
namespace GR
def format (s : Str) : Bool := s.length == 9 && isDigits s
def check (s : Str) : Bool :=
  let d := digs s
  dot [256, 128, 64, 32, 16, 8, 4, 2] d % 11 % 10 == dg d 9
def valid (s : Str) : Bool := format s && check s
end GR

/-! ## IN — GSTIN: 15 characters 2 digits, 5 letters, 4 digits, letter,
    [1-9A-Z], `Z`, check; base-36 Luhn: values 0-9,A-Z ↦ 0..35, factors 1,2
    alternately from the left, each product q contributes q div 36 + q mod 36,
    check = (36 − Σ mod 36) mod 36 -/
namespace IN
def alnum (c : Char) : Bool := isDig c || isUp c
def value (c : Char) : Nat := if isDig c then dval c else c.toNat - 55
def format (s : Str) : Bool :=
  s.length == 15 && isDigits (s.take 2) && ((s.drop 2).take 5).all isUp && isDigits ((s.drop 7).take 4) &&
  isUp (s.getD 11 ' ') && alnum (s.getD 12 ' ') && s.getD 12 ' ' != '0' && s.getD 13 ' ' == 'Z' && alnum (s.getD 14 ' ')
def contrib (q : Nat) : Nat := q / 36 + q % 36
def check (s : Str) : Bool :=
  let v := (s.take 14).map value
  let total := ((List.zipWith (· * ·) [1, 2, 1, 2, 1, 2, 1, 2, 1, 2, 1, 2, 1, 2] v).map contrib).sum
  value (s.getD 14 ' ') == (36 - total % 36) % 36
def valid (s : Str) : Bool := format s && check s
end IN

/-! ## IT — Partita IVA: 11 digits, Luhn -/
namespace IT
def format (s : Str) : Bool := s.length == 11 && isDigits s
def check (s : Str) : Bool := luhnValid (digs s)
def valid (s : Str) : Bool := format s && check s
end IT

/-! ## MX — RFC: 3 (company) or 4 (person) letters of `A–Z Ñ &`, 6 digits
    (date), 3 alphanumerics (homoclave); no check enforced -/
namespace MX
def letter (c : Char) : Bool := isUp c || c == 'Ñ' || c == '&'
def alnum (c : Char) : Bool := isDig c || isUp c
def format (s : Str) : Bool :=
  (s.length == 12 || s.length == 13) &&
  let k := s.length - 9
  (s.take k).all letter && isDigits ((s.drop k).take 6) && (s.drop (k + 6)).all alnum
def check (_ : Str) : Bool := true
def valid (s : Str) : Bool := format s && check s
end MX

/-! ## NL — btw-id: 9 digits, `B`, 2 digits.
    11-test ("elfproef") on the 9 digits: Σ (10−i)·dᵢ (i = 1..8) mod 11 = d₉ —
    a remainder of 10 is therefore never valid; or (since 2020) the mod-97
    test: `NL`+digits+`B`+digits with letters ↦ 10..35, read as one decimal
    number, ≡ 1 (mod 97). -/
namespace NL
def format (s : Str) : Bool :=
  s.length == 12 && isDigits (s.take 9) && s.getD 9 ' ' == 'B' && isDigits (s.drop 10)
def elfproef (d : List Nat) : Bool := dot [9, 8, 7, 6, 5, 4, 3, 2] d % 11 == dg d 9
/-- decimal expansion used by the mod-97 test: digit ↦ itself, letter ↦ two digits of 10..35 -/
def expand (c : Char) : List Nat := if isDig c then [dval c] else [(c.toNat - 55) / 10, (c.toNat - 55) % 10]
def mod97 (s : Str) : Bool := num ((['N','L'] ++ s).flatMap expand) % 97 == 1
def check (s : Str) : Bool := elfproef (digs (s.take 9)) || mod97 s
def valid (s : Str) : Bool := format s && check s
end NL

/-! ## PL — NIP: 10 digits; Σ wᵢdᵢ mod 11 = d₁₀, w = 6,5,7,2,3,4,5,6,7 (a
    remainder of 10 never matches).  ALIGNED format detail: d₁ ≠ 0 and not both
    of d₂,d₃ zero (tax-office prefix), as the Go pattern says. -/
namespace PL
def format (s : Str) : Bool :=
  s.length == 10 && isDigits s && s.getD 0 ' ' != '0' && !(s.getD 1 ' ' == '0' && s.getD 2 ' ' == '0')
def check (s : Str) : Bool :=
  let d := digs s
  dot [6, 5, 7, 2, 3, 4, 5, 6, 7] d % 11 == dg d 10
def valid (s : Str) : Bool := format s && check s
end PL

/-! ## PT — NIF: 9 digits with a valid prefix; r = Σ (10−i)·dᵢ (i = 1..8) mod 11;
    check = 0 if r < 2 else 11 − r -/
namespace PT
def prefixes1 : List Char := ['1', '2', '3', '5', '6', '8']
def prefixes2 : List (Char × Char) :=
  [('4','5'), ('7','0'), ('7','1'), ('7','2'), ('7','4'), ('7','5'), ('7','7'), ('7','8'), ('7','9'),
   ('9','0'), ('9','1'), ('9','8'), ('9','9')]
def format (s : Str) : Bool :=
  s.length == 9 && isDigits s &&
  (prefixes1.contains (s.getD 0 ' ') || prefixes2.contains (s.getD 0 ' ', s.getD 1 ' '))
def check (s : Str) : Bool :=
  let d := digs s
  let r := dot [9, 8, 7, 6, 5, 4, 3, 2] d % 11
  dg d 9 == (if r < 2 then 0 else 11 - r)
def valid (s : Str) : Bool := format s && check s
end PT

/-! ## normalisation laws as executable oracles (judged on Go outputs) -/

/-- the decimal digits of a text, in order -/
def digitsOf (s : Str) : Str := s.filter isDig
/-- "never alters the identifying digits": the digits of the input are the
    digits of the output (FR may *prepend* the two key digits to a SIREN: suffix) -/
def keepsDigits (input output : Str) : Bool := digitsOf input == digitsOf output
def keepsDigitsSuffix (input output : Str) : Bool :=
  (digitsOf input).reverse.isPrefixOf (digitsOf output).reverse

/-! ## normalisation: what "without its country prefixes" means

Country codes are two letters.  A code "carries a country prefix" when its first
two characters are one of the codes of the identity (its country, or an
alternative code the regime names: `GR` for Greece, `XI`/`XU` for the United
Kingdom); the normalised code is what is left when every such leading code has
been removed.  The country of the identity is the one it has *after* normalisation:
Greece is written `GR` (ISO) or `EL` (tax country code) and always returned as `EL`,
so both `EL` and `GR` are its codes under either spelling. -/
def stripCodes (codes : List Str) : Str → Str
  | a :: b :: rest => if codes.contains [a, b] then stripCodes codes rest else a :: b :: rest
  | s => s

/-- `s` ends with `suf` -/
def endsWith (suf s : Str) : Bool := suf.reverse.isPrefixOf s.reverse
/-- CH: the VAT suffixes that may follow the number -/
def chSuffixes : List Str := [['M','W','S','T'], ['T','V','A'], ['I','V','A']]
end GoblVerif.Spec.TaxId
