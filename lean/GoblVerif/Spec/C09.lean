/-
  Specification side of C09, written from the property statement, not from
  the Go code.

  "Verification accepts exactly what was signed": a signature over a header
  *covers* a set of items (the identifier, the digest if it was there, every
  stamp, link, tag and meta entry, the notes if any).  Verification with a
  set of trusted keys must succeed exactly when the envelope carries at least
  one signature, every signature on it was made by a trusted key, and every
  item each signature covers is still presented unchanged by the envelope's
  header.  Adding further stamps, links, tags or meta entries does not remove
  anything, so it cannot turn an accepted envelope into a rejected one.
-/
import GoblVerif.Model.Envelope

namespace GoblVerif.Spec.C09
open GoblVerif

inductive Item
  | uuid (u : String)
  | dig (alg val : String)
  | stamp (prv val : String)
  | link (key url : String)
  | tag (t : String)
  | metaKV (k v : String)
  | notes (s : String)
deriving DecidableEq, Repr

def digItems : Option Digest → List Item
  | some d => [.dig d.alg d.val]
  | none => []

/-- the items a signature over header `p` covers -/
def covered (p : Header) : List Item :=
  [.uuid p.uuid] ++ digItems p.dig
  ++ p.stamps.map (fun s => .stamp s.prv s.val)
  ++ p.links.map (fun l => .link l.key l.url)
  ++ p.tags.map .tag
  ++ p.metas.map (fun kv => .metaKV kv.1 kv.2)
  ++ (if p.notes = "" then [] else [.notes p.notes])

/-- the items a header presents -/
def present (h : Header) : List Item :=
  [.uuid h.uuid] ++ digItems h.dig
  ++ h.stamps.map (fun s => .stamp s.prv s.val)
  ++ h.links.map (fun l => .link l.key l.url)
  ++ h.tags.map .tag
  ++ h.metas.map (fun kv => .metaKV kv.1 kv.2)
  ++ [.notes h.notes]

/-- everything the signature covers is still there, unchanged -/
def accepts (h p : Header) : Bool := (covered p).all (fun i => (present h).contains i)

/-- the verdict the property asks of a verification of header `h` carrying
    signatures `sigs` against trusted keys `keys` (no keys: content only) -/
def expected (h : Header) (sigs : List Sig) (keys : List Key) : Bool :=
  !sigs.isEmpty && sigs.all (fun s => (keys.isEmpty || keys.contains s.signer) && accepts h s.payload)

/-- a digest whose algorithm name has no `;` (every real one: "sha256") -/
def digNice : Option Digest → Prop
  | some d => ';' ∉ d.alg.toList
  | none => True

instance (d : Option Digest) : Decidable (digNice d) := by
  cases d <;> (unfold digNice; infer_instance)

/-! example values used by the non-vacuity `example`s of Props/C09.lean -/

def exH : Nat → String := fun n => String.ofList (List.replicate n 'x')

def exHead : Header :=
  { uuid := "0190f5c1-0000-7000-8000-000000000001", dig := some ⟨"sha256", exH 3⟩,
    stamps := [⟨"prv-a", "v1"⟩], links := [{ key := "k1", url := "https://example.com/1" }],
    tags := ["t1"], metas := [("m1", "x")], notes := "n" }

def exEnv : Env := { head := exHead, doc := some ⟨3, true, true, true, true⟩, sigs := [] }

end GoblVerif.Spec.C09
