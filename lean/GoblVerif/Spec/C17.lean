/-
  C17 specification side: negation of presented figures.
-/
import GoblVerif.Model.Calc

namespace GoblVerif.Spec.C17
open GoblVerif GoblVerif.Calc

/-- the sum of a list of amounts at full precision (`calculateLineSum`) -/
def total (c : Nat) (xs : List Amount) : Amount := xs.foldl (accum exactOps) ⟨0, c⟩

end GoblVerif.Spec.C17
