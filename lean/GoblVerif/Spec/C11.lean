/-
  C11 — the property, written from its statement (not from the Go code):

  (1) every published schema file is a valid draft 2020-12 schema with
      resolvable references  →  `SchemaSetOk`;
  (2) every document GOBL calculates and validates is accepted by the
      published schema of its type  →  `Conforms`.

  (2) quantifies over all of GOBL's validation and is not a theorem here; what
  is stated and proved in Props/C11.lean are the instances of (2) for leaf
  types ("the text the printer produces matches the pattern / format") and for
  enumerations ("what the Go validator accepts is listed exactly once in the
  schema's `oneOf` of `const`s"), plus (1) over the regenerated files.
  Core Lean only.
-/
import GoblVerif.Model.Schema

namespace GoblVerif.Spec.C11
open GoblVerif GoblVerif.Schema

/-- follow object members -/
def path : JVal → List NStr → Option JVal
  | v, [] => some v
  | v, k :: ks => match v.get? k with
    | some v' => path v' ks
    | none => none

/-- the string `const`s of a list of subschemas (`oneOf` / `anyOf` of constants) -/
def constsOf : JVal → List NStr
  | .arr xs => xs.filterMap fun x => match x.get? s%"const" with
    | some (.str s) => some s
    | _ => none
  | _ => []

/-- the `oneOf` constants found at `p` in a schema file -/
def oneOfConsts (file : JVal) (p : List NStr) : List NStr :=
  match path file (p ++ [s%"oneOf"]) with
  | some v => constsOf v
  | none => []

/-- a value accepted by the Go side is accepted by a `oneOf` of constants iff it is
    listed exactly once (twice would make `oneOf` reject it) -/
def listedOnce (accepted consts : List NStr) : Bool := accepted.all fun a => consts.count a == 1

/-- the string found at `p`, or the empty string -/
def strAt (file : JVal) (p : List NStr) : NStr :=
  match path file p with
  | some (.str s) => s
  | _ => NStr.empty

def natAt (file : JVal) (p : List NStr) : Option Nat := (path file p).bind natOf?

/-- the strings of the array found at `p` (e.g. a `required` list) -/
def strsAt (file : JVal) (p : List NStr) : List NStr :=
  match path file p with
  | some (.arr xs) => xs.filterMap JVal.str?
  | _ => []

/-- is there a member at `p` -/
def hasAt (file : JVal) (p : List NStr) : Bool := (path file p).isSome

/-- the `patternProperties` found at `p`, as (pattern, `$ref` of its subschema) pairs -/
def patternRefsAt (file : JVal) (p : List NStr) : List (NStr × NStr) :=
  match path file (p ++ [s%"patternProperties"]) with
  | some (.obj m) => m.map fun kv => (kv.1, match kv.2.get? s%"$ref" with | some (.str r) => r | _ => NStr.empty)
  | _ => []

/-- (1): the three well-formedness checks for a set of files -/
def SchemaSetOk (files : List (NStr × JVal)) : Bool :=
  let reg := registryOf files
  files.all fun f => wellTyped walkFuel f.2 && refsOk reg f.2 && patternsOk f.2 && formatsOk f.2

/-- (2): the published schema `id` accepts `inst` -/
def Conforms (files : List (NStr × JVal)) (id : NStr) (inst : JVal) : Prop :=
  validateById (registryOf files) id inst = .ok

/-- `$id`, `$schema` and the file path agree; ids are distinct -/
def idsOk (files : List (NStr × JVal)) : Bool :=
  (files.all fun f =>
    strAt f.2 [s%"$id"] +++ s%".json" == s%"https://gobl.org/draft-0/" +++ f.1 &&
    strAt f.2 [s%"$schema"] == s%"https://json-schema.org/draft/2020-12/schema") &&
  distinctKeys (files.map fun f => strAt f.2 [s%"$id"])

def sameSet (a b : List NStr) : Bool := a.all b.contains && b.all a.contains

end GoblVerif.Spec.C11
