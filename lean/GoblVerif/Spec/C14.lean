/-
  Specification side of C14 for errors surfaced through the command line,
  written from the property statement:

    "no input crashes the library; every refusal is a structured, keyed error"

  and from what the README of the command line promises about its output:
  an error is one JSON object with a numeric `code` and at least one of `key`
  (one of the documented keys of the library), `message`, `fields`; nothing
  else appears in it.  Core Lean only.
-/
namespace GoblVerif.Spec.C14

/-- the members an error object may have -/
def allowedMembers : List String := ["code", "key", "fields", "message"]

/-- an error as it is observed on the outside -/
structure Shown where
  code : Nat
  key : String
  hasFields : Bool
  message : String
deriving DecidableEq, Repr

/-- structured: a code, something that says what went wrong, and a key that is documented if present -/
def structured (documented : List String) (e : Shown) : Bool :=
  e.code != 0 && (e.key != "" || e.message != "" || e.hasFields) && (e.key == "" || documented.contains e.key)

/-- a refusal that is about the request itself (unknown command or flag, unreadable file):
    a client error that carries the reason as text -/
def usageShape (e : Shown) : Bool := e.code == 400 && e.message != ""

/-- a result that could not be encoded: the library's key for that, and the reason -/
def encodingShape (e : Shown) : Bool := e.code == 422 && e.key == "marshal" && e.message != ""

end GoblVerif.Spec.C14
