/-
  C04 specification side: re-reading presented line figures as inputs.
-/
import GoblVerif.Model.Calc

namespace GoblVerif.Spec.C04
open GoblVerif GoblVerif.Calc

/-- a calculated and presented line read back as an input line (what
    serialise → parse gives the next calculation) -/
def reread (l : Line) : Line := { l with sum := none, total := none }

/-- calculate and present one line -/
def present (cur : String) (c : Nat) (rates : List XRate) (r : Rule) (l : Line) : Except CalcErr Line :=
  (calcLine exactOps cur c rates r l).map (roundLine exactOps)

end GoblVerif.Spec.C04
