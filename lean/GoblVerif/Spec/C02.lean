/-
  C02 specification side.
-/
import GoblVerif.Model.Calc

namespace GoblVerif.Spec.C02
open GoblVerif GoblVerif.Calc

/-- the tax-exclusive totals of the rows that carry a combo of category `k`
    (a row counts once per such combo), as exact rationals -/
def rowsOf (k : String) (rows : List Row) : List Rat :=
  rows.flatMap (fun rw => (rw.taxes.filter (·.cat == k)).map (fun _ => rw.total.toRat))

end GoblVerif.Spec.C02
