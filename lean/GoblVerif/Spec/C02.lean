/-
  C02 specification side.

  `summaryOk d out` is the statement of C02 as ONE executable oracle, written
  from the statement and not from the code.  The *tax-inclusive* totals of the
  taxable rows (lines, document discounts negatively, document charges) are
  what the calculation hands to the tax summary (`Calc.pre`; how a line total
  comes about is C01's subject).  From them the oracle derives, in exact
  rational arithmetic with explicit "round half away from zero" points:

  * the contribution of every (row, combo) pair: the row's working total (two
    more decimals than the currency), the included tax taken out with the
    row's own percentage of the included category, under the currency rule
    rounded to the currency;
  * for every presented rate group, identified by its key (country,
    extensions, percentage and surcharge percentage by value | exempt): the
    sum of the contributions with that category and key — the presented base
    is that sum rounded to the currency; the amount is the percentage of that
    sum, rounded once at the working precision of the group (the finest
    precision among its contributions) and presented rounded to the currency;
    likewise the surcharge;
  * partition: no two categories with one code, no two groups with one key in
    a category, and every contribution finds its category and its group — so
    each taxed row total lands in exactly one rate group of its category;
  * category amount / surcharge = Σ of the groups' working amounts, tax sum =
    Σ ordinary − Σ retained (with surcharges), each presented rounded to the
    currency; the document's `tax` figure is that sum;
  * `tax_included` is the presented amount of the included category, and if no
    other tax applies (the only category is the included one, ordinary,
    without surcharge) the total with tax is the gross total of the rows.

  The same function judges the output of the real `Invoice.Calculate`
  (driver request `C02 summary`, harness/props/c02) and is proved of
  `Calc.calculate exactOps` for every document (`Props.C02.tax_summary_spec`).

  Core Lean only.
-/
import GoblVerif.Model.Calc
import GoblVerif.Spec.C05

namespace GoblVerif.Spec.C02
open GoblVerif GoblVerif.Calc

/-- the tax-exclusive totals of the rows that carry a combo of category `k`
    (a row counts once per such combo), as exact rationals -/
def rowsOf (k : String) (rows : List Row) : List Rat :=
  rows.flatMap (fun rw => (rw.taxes.filter (·.cat == k)).map (fun _ => rw.total.toRat))

/-! ## the summary oracle -/

/-- the identity of a rate group: extensions, country, and — unless exempt — the
    percentage and the surcharge percentage, by value -/
abbrev GroupKey := String × String × Option (Rat × Option Rat)

def keyOfCombo (cb : Combo) : GroupKey :=
  (cb.ext, cb.country, cb.percent.map (fun p => (p.amount.toRat, cb.surcharge.map (·.amount.toRat))))

def keyOfRate (rt : RateTotal) : GroupKey :=
  (rt.ext, rt.country, rt.percent.map (fun p => (p.amount.toRat, rt.surcharge.map (·.1.amount.toRat))))

/-- working total of a taxable row: two more decimals than the currency (never fewer than it has) -/
def working (c : Nat) (rw : Row) : Amount := if rw.taxes.isEmpty then rw.total else up rw.total (c + 2)

/-- the tax-exclusive total of a row: when prices include category `k` and the
    row carries it with a percentage, that tax is taken out with that very
    percentage, rounded half away from zero once at the row's working precision -/
def exclusive (c : Nat) (includes : Option String) (rw : Row) : Amount :=
  let t := working c rw
  match includes with
  | none => t
  | some k =>
    match rw.taxes.find? (fun cb => cb.cat == k) with
    | some cb =>
      (match cb.percent with
       | some p => ⟨Spec.roundTo t.exp (t.toRat / (1 + p.amount.toRat)), t.exp⟩
       | none => t)
    | none => t

/-- what one (row, combo) pair contributes, and where -/
structure Contribution where
  cat : String
  key : GroupKey
  amount : Amount
deriving DecidableEq

/-- under the currency rule a contribution is rounded to the currency before it is summed -/
def contributed (rule : Rule) (c : Nat) (t : Amount) : Amount :=
  match rule with
  | .currency => ⟨Spec.roundTo c t.toRat, c⟩
  | _ => t

def contributions (rule : Rule) (c : Nat) (includes : Option String) (rows : List Row) : List Contribution :=
  rows.flatMap (fun rw =>
    rw.taxes.map (fun cb => ⟨cb.cat, keyOfCombo cb, contributed rule c (exclusive c includes rw)⟩))

/-- the contributions to the group `(cat, k)` -/
def groupOf (cs : List Contribution) (cat : String) (k : GroupKey) : List Amount :=
  (cs.filter (fun x => decide (x.cat = cat ∧ x.key = k))).map (·.amount)

/-- exact sum -/
def baseQ (g : List Amount) : Rat := (g.map Amount.toRat).sum

/-- working precision of a group: the finest among its contributions, at least the currency's -/
def workExp (c : Nat) (g : List Amount) : Nat := g.foldl (fun e a => max e a.exp) c

/-- `p` % of `q`, rounded half away from zero once at `e` decimals -/
def pctAt (e : Nat) (q : Rat) (p : Pct) : Rat :=
  ((Spec.roundTo e (q * p.amount.toRat) : Int) : Rat) / ((pow10 e : Int) : Rat)

/-- the presented figure `a` is `q` rounded half away from zero to the currency -/
def presentedAs (c : Nat) (q : Rat) (a : Amount) : Bool :=
  decide (a.exp = c) && decide (a.value = Spec.roundTo c q)

/-- working amount of a presented group (an exempt group has none) -/
def amountQ (c : Nat) (cs : List Contribution) (cat : String) (rt : RateTotal) : Rat :=
  let g := groupOf cs cat (keyOfRate rt)
  match rt.percent with
  | none => 0
  | some p => pctAt (workExp c g) (baseQ g) p

/-- working surcharge of a presented group -/
def surchargeQ (c : Nat) (cs : List Contribution) (cat : String) (rt : RateTotal) : Option Rat :=
  let g := groupOf cs cat (keyOfRate rt)
  match rt.percent, rt.surcharge with
  | some _, some (sp, _) => some (pctAt (workExp c g) (baseQ g) sp)
  | _, _ => none

/-- base = Σ contributions with the group's key; amount (surcharge) = percentage of that sum -/
def rateOk (c : Nat) (cs : List Contribution) (cat : String) (rt : RateTotal) : Bool :=
  presentedAs c (baseQ (groupOf cs cat (keyOfRate rt))) rt.base &&
  presentedAs c (amountQ c cs cat rt) rt.amount &&
  (match surchargeQ c cs cat rt, rt.surcharge with
   | some q, some (_, sa) => presentedAs c q sa
   | _, _ => true)

def catAmountQ (c : Nat) (cs : List Contribution) (ct : CatTotal) : Rat :=
  ((ct.rates.map (amountQ c cs ct.code)).sum : Rat)

def catSurchargesQ (c : Nat) (cs : List Contribution) (ct : CatTotal) : List Rat :=
  ct.rates.filterMap (surchargeQ c cs ct.code)

/-- category amount = Σ groups; category surcharge = Σ group surcharges, presented exactly when there is one -/
def catOk (c : Nat) (cs : List Contribution) (ct : CatTotal) : Bool :=
  ct.rates.all (rateOk c cs ct.code) &&
  presentedAs c (catAmountQ c cs ct) ct.amount &&
  (match ct.surcharge with
   | some s => !(catSurchargesQ c cs ct).isEmpty && presentedAs c ((catSurchargesQ c cs ct).sum : Rat) s
   | none => (catSurchargesQ c cs ct).isEmpty)

/-- what a category adds to the tax total: amount and surcharges, subtracted when retained -/
def catTaxQ (c : Nat) (cs : List Contribution) (ct : CatTotal) : Rat :=
  let v := catAmountQ c cs ct + ((catSurchargesQ c cs ct).sum : Rat)
  if ct.retained then -v else v

def pairwiseDistinct {α : Type} [DecidableEq α] : List α → Bool
  | [] => true
  | x :: xs => !xs.contains x && pairwiseDistinct xs

/-- each contribution lands in exactly one group of its category: categories and
    groups are unambiguous, and every contribution finds its group -/
def partitionOk (cs : List Contribution) (cats : List CatTotal) : Bool :=
  pairwiseDistinct (cats.map (·.code)) &&
  cats.all (fun ct => pairwiseDistinct (ct.rates.map keyOfRate)) &&
  cs.all (fun x => cats.any (fun ct => ct.code == x.cat && ct.rates.any (fun rt => decide (keyOfRate rt = x.key))))

/-- tax total = Σ ordinary − Σ retained, incl. surcharges (a presented summary has at least one category) -/
def taxSumOk (c : Nat) (taxQ : Rat) (t : Totals) : Bool :=
  (match t.taxes with
   | some x => presentedAs c taxQ x.sum && !x.cats.isEmpty
   | none => true) &&
  presentedAs c taxQ t.tax

/-- the included tax is the presented amount of its category -/
def includedOk (includes : Option String) (cats : List CatTotal) (t : Totals) : Bool :=
  match includes with
  | none => t.taxIncluded.isNone
  | some k => decide (t.taxIncluded = (cats.find? (fun ct => ct.code == k)).map (·.amount))

/-- if no other tax applies (the only category is the included one, ordinary,
    without surcharge), the total with tax is the gross total of the rows -/
def onlyIncludedOk (c : Nat) (includes : Option String) (cats : List CatTotal) (gross : Amount) (t : Totals) : Bool :=
  match includes, cats with
  | some k, [ct] =>
    if ct.code == k && !ct.retained && ct.surcharge.isNone then presentedAs c gross.toRat t.totalWithTax else true
  | _, _ => true

/-- the categories a document presents -/
def catsOf (t : Totals) : List CatTotal := match t.taxes with | some x => x.cats | none => []

/-- the oracle over the rows `calculate` hands to the tax summary (`gross` = sum − discounts + charges of the rows) -/
def summaryRowsOk (rule : Rule) (c : Nat) (includes : Option String) (rows : List Row) (gross : Amount)
    (out : Out) : Bool :=
  match out.totals with
  | none => rows.isEmpty
  | some t =>
    let cs := contributions rule c includes rows
    let cats := catsOf t
    partitionOk cs cats &&
    cats.all (catOk c cs) &&
    taxSumOk c ((cats.map (catTaxQ c cs)).sum : Rat) t &&
    includedOk includes cats t &&
    onlyIncludedOk c includes cats gross t

/-- **C02 as one executable statement** about a document and what it is calculated to -/
def summaryOk (d : Doc) (out : Out) : Bool :=
  match pre exactOps d with
  | .ok p => summaryRowsOk d.rule d.c d.includes p.rows p.total2 out
  | .error _ => false

end GoblVerif.Spec.C02
