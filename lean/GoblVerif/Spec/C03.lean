/-
  C03 specification side: the guard the property itself states ("fixed
  discount, charge and advance amounts are supplied at the currency's
  precision") as decidable predicates over the model's documents, and the
  property itself as ONE executable oracle over the presented figures of a
  calculated document (`readdOk`).

  `readdOk` is written from the statement of C03, not from the code: it only
  reads the figures a calculated document presents (an `Out`), recomputes each
  of them from the other presented figures with exact rational arithmetic and
  "round half away from zero to the currency" (`Spec.roundTo`), and bounds the
  number of decimals.  The same function judges the output of the real
  `Invoice.Calculate` (driver request `C03 readd`, harness/props/c03) and is
  proved to hold of `Calc.calculate exactOps` for every guarded document
  (`Props.C03.currency_rule_readds`).

  Core Lean only.
-/
import GoblVerif.Model.Calc
import GoblVerif.Spec.C05

namespace GoblVerif.Spec.C03
open GoblVerif GoblVerif.Calc

/-- sum of the integer values of a list of amounts (all at one exponent) -/
def sumValues (xs : List Amount) : Int := (xs.map (·.value)).sum

/-! ## the re-add oracle -/

/-- exact sum of presented figures -/
def qsum (xs : List Amount) : Rat := (xs.map Amount.toRat).sum

/-- an optional figure counts as zero when it is not presented -/
def q0 (a : Option Amount) : Rat := match a with | some x => x.toRat | none => 0

/-- the figure has at most `e` decimals -/
def atMost (e : Nat) (a : Amount) : Bool := decide (a.exp ≤ e)

def atMostO (e : Nat) (a : Option Amount) : Bool := match a with | some x => atMost e x | none => true

/-- `a` is `p` % of `base` rounded half away from zero to `c` decimals -/
def isPctOf (c : Nat) (p : Pct) (base a : Amount) : Bool :=
  decide (a.exp = c) && decide (a.value = Spec.roundTo c (base.toRat * p.amount.toRat))

/-- total = sum − discounts + charges, no figure with more than `e` decimals
    (lines and breakdown rows) -/
def rowOk (e : Nat) (sum total : Amount) (ds cs : List LineAdj) : Bool :=
  decide (total.toRat = sum.toRat - qsum (ds.map (·.amount)) + qsum (cs.map (·.amount))) &&
  atMost e sum && atMost e total &&
  ds.all (fun d => atMost e d.amount) && cs.all (fun d => atMost e d.amount)

/-- decimals of the presented item price (0 when there is none) -/
def priceExp (it : Option Item) : Nat :=
  match it with
  | some it => (match it.price with | some p => p.exp | none => 0)
  | none => 0

def subLineOk (e : Nat) (sl : SubLine) : Bool :=
  match sl.sum, sl.total with
  | some s, some t => rowOk e s t sl.discounts sl.charges
  | _, _ => true

/-- a line that presents a sum and a total: total = sum − discounts + charges,
    also for every breakdown row, nothing finer than the currency or the item
    price.  A line that presents no figures (no item, no price) has nothing to
    re-add. -/
def lineOk (c : Nat) (l : Line) : Bool :=
  match l.sum, l.total with
  | some s, some t =>
    let e := max c (priceExp l.item)
    rowOk e s t l.discounts l.charges && l.breakdown.all (subLineOk e)
  | _, _ => true

/-- the surcharge amount a rate group contributes to its category (a group
    without a percentage presents none) -/
def surOf (rt : RateTotal) : Option Amount :=
  match rt.percent, rt.surcharge with
  | some _, some (_, sa) => some sa
  | _, _ => none

/-- each rate amount (and surcharge amount) is its percentage of the presented
    base rounded to the currency; base and amount carry no more decimals than
    the currency -/
def rateOk (c : Nat) (rt : RateTotal) : Bool :=
  atMost c rt.base && atMost c rt.amount &&
  (match rt.percent with
   | none => true
   | some p =>
     isPctOf c p rt.base rt.amount &&
     (match rt.surcharge with
      | some (sp, sa) => isPctOf c sp rt.base sa
      | none => true))

/-- category amount = Σ rate amounts; category surcharge = Σ rate surcharges
    (presented exactly when some rate carries one) -/
def catOk (c : Nat) (ct : CatTotal) : Bool :=
  ct.rates.all (rateOk c) &&
  decide (ct.amount.toRat = qsum (ct.rates.map (·.amount))) && atMost c ct.amount &&
  (match ct.surcharge with
   | some s => decide (s.toRat = qsum (ct.rates.filterMap surOf)) && atMost c s
   | none => (ct.rates.filterMap surOf).isEmpty)

/-- what a category adds to the tax sum: amount + surcharge, negated when retained -/
def signedQ (ct : CatTotal) : Rat :=
  let v := ct.amount.toRat + q0 ct.surcharge
  if ct.retained then -v else v

/-- the tax summary: every category, tax sum = Σ ordinary − Σ retained, and the
    document's `tax` figure is that sum.  Without a summary the tax is zero. -/
def taxesOk (c : Nat) (t : Totals) : Bool :=
  match t.taxes with
  | none => decide (t.tax.value = 0)
  | some x =>
    x.cats.all (catOk c) &&
    decide (x.sum.toRat = ((x.cats.map signedQ).sum : Rat)) && atMost c x.sum &&
    decide (t.tax.toRat = x.sum.toRat)

/-- an advance given as a percentage is that percentage of the presented total with tax -/
def advanceOk (c : Nat) (twt : Amount) (a : Advance) : Bool :=
  atMost c a.amount &&
  (match a.percent with
   | some p => isPctOf c p twt a.amount
   | none => true)

/-- a due date given as a (non-zero) percentage is that percentage of the presented payable amount -/
def dueOk (c : Nat) (payable : Amount) (d : Due) : Bool :=
  atMost c d.amount &&
  (match d.percent with
   | some p => if pctIsZero p then true else isPctOf c p payable d.amount
   | none => true)

/-- an optional total is the sum of its rows, and is presented exactly when there are rows -/
def rowsSumOk (t : Option Amount) (rows : List Amount) : Bool :=
  match t with
  | some x => decide (x.toRat = qsum rows)
  | none => rows.isEmpty

def totalsOk (c : Nat) (out : Out) (t : Totals) : Bool :=
  -- document sum = Σ line totals
  decide (t.sum.toRat = qsum (out.lines.filterMap (·.total))) &&
  -- discount / charge totals = Σ of their rows
  rowsSumOk t.discount (out.discounts.map (·.amount)) &&
  rowsSumOk t.charge (out.charges.map (·.amount)) &&
  -- total = sum − discounts + charges − included tax
  decide (t.total.toRat = t.sum.toRat - q0 t.discount + q0 t.charge - q0 t.taxIncluded) &&
  -- rate amounts, category sums, tax sum
  taxesOk c t &&
  -- total with tax = total + tax
  decide (t.totalWithTax.toRat = t.total.toRat + t.tax.toRat) &&
  -- payable = total with tax + rounding
  decide (t.payable.toRat = t.totalWithTax.toRat + q0 t.rounding) &&
  -- advances = Σ advance rows; due = payable − advances
  rowsSumOk t.advances (out.advances.map (·.amount)) &&
  (match t.due with
   | some x => decide (x.toRat = t.payable.toRat - q0 t.advances)
   | none => t.advances.isNone) &&
  out.advances.all (advanceOk c t.totalWithTax) &&
  out.dues.all (dueOk c t.payable) &&
  -- no figure has more decimals than the currency
  atMost c t.sum && atMostO c t.discount && atMostO c t.charge && atMostO c t.taxIncluded &&
  atMost c t.total && atMost c t.tax && atMost c t.totalWithTax && atMostO c t.rounding &&
  atMost c t.payable && atMostO c t.advances && atMostO c t.due &&
  out.discounts.all (fun x => atMost c x.amount) && out.charges.all (fun x => atMost c x.amount)

/-- **C03 as one executable statement** over the figures a calculated document
    presents; `c` is the number of decimals of the document currency. -/
def readdOk (c : Nat) (out : Out) : Bool :=
  out.lines.all (lineOk c) &&
  (match out.totals with
   | some t => totalsOk c out t
   | none => true)

end GoblVerif.Spec.C03
