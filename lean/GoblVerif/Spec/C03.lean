/-
  C03 specification side: the guard the property itself states ("fixed
  discount, charge and advance amounts are supplied at the currency's
  precision") as decidable predicates over the model's documents.
-/
import GoblVerif.Model.Calc

namespace GoblVerif.Spec.C03
open GoblVerif GoblVerif.Calc

/-- sum of the integer values of a list of amounts (all at one exponent) -/
def sumValues (xs : List Amount) : Int := (xs.map (·.value)).sum

end GoblVerif.Spec.C03
