/-
  Specification side of C18, written from the property statement:

    "If a document passes validation then every reference it makes resolves in
     the published definitions: its regime and addons exist, each tax combo's
     category and rate key belong to the regime that applies to it, each
     extension key is defined by the regime, an addon or a catalogue and its
     value is one of the allowed codes or matches the declared pattern (also
     inside the tax summaries a document stores), each tag is offered by the
     regime or an active addon for that document type, the category named as
     included in the prices belongs to the document's regime, currencies and
     countries are known codes, and payment means keys (by their base), payment
     terms keys and note keys are keys the schemas publish."

  `Defs` is loaded from Generated/Defs.lean, i.e. from the published data files.
-/
import GoblVerif.Model.Refs

namespace GoblVerif.Spec.C18
open GoblVerif.Refs

/-- the regime named by a document exists in the published definitions -/
def regimeResolves (d : Defs) (code : String) : Prop := ∃ r ∈ d.liveRegimes, r.country = code ∨ code ∈ r.alt

/-- the addon exists -/
def addonResolves (d : Defs) (key : String) : Prop := ∃ a ∈ d.addons, a.key = key

/-- the regime that applies to a combo is the one of its country override, else the document's -/
def appliesTo (d : Defs) (docRegime : String) (c : Combo) (r : Regime) : Prop :=
  r ∈ d.liveRegimes ∧ (let code := if c.country = "" then docRegime else c.country; r.country = code ∨ code ∈ r.alt)

/-- category and rate key belong to the regime that applies to the combo
    (a rate key may carry `+`-separated qualifiers, one part naming the rate) -/
def comboResolves (d : Defs) (docRegime : String) (c : Combo) : Prop :=
  ∃ r, appliesTo d docRegime c r ∧ ∃ cat ∈ r.categories, cat.code = c.category ∧
    (c.rate = "" ∨ ∃ rt ∈ cat.rates, keyHas c.rate rt.key = true)

/-- the extension key is defined by a regime, an addon or a catalogue and the value
    is one of its allowed codes / matches its pattern -/
def extPairResolves (d : Defs) (pm : PatternMatch) (kv : String × String) : Prop :=
  ∃ kd ∈ d.allExtDefs, kd.key = kv.1 ∧ (kd.codes = [] ∨ kv.2 ∈ kd.codes) ∧ (kd.pattern = "" ∨ pm kd.pattern kv.2 = true)

def extResolves (d : Defs) (pm : PatternMatch) (ext : List (String × String)) : Prop :=
  ∀ kv ∈ ext, extPairResolves d pm kv

/-- the tag is offered for the document type by the document's regime or by one of its addons -/
def tagResolves (docRegime : Option Regime) (addons : List Addon) (schema tag : String) : Prop :=
  (∃ r, docRegime = some r ∧ ∃ ts ∈ r.tags, ts.schema = schema ∧ tag ∈ ts.keys) ∨
  (∃ a ∈ addons, ∃ ts ∈ a.tags, ts.schema = schema ∧ tag ∈ ts.keys)

/-- the category named by `tax.prices_include` is one of the document's regime -/
def includesResolves (d : Defs) (docRegime cat : String) : Prop :=
  ∃ r ∈ d.liveRegimes, (r.country = docRegime ∨ docRegime ∈ r.alt) ∧ ∃ c ∈ r.categories, c.code = cat

/-- every extension pair of every rate of a stored tax summary resolves -/
def totalResolves (d : Defs) (pm : PatternMatch) (cats : List CategoryTotal) : Prop :=
  ∀ ct ∈ cats, ∀ rt ∈ ct.rates, extResolves d pm rt.ext

def currencyResolves (d : Defs) (code : String) : Prop := code ∈ d.currencies
def countryResolves (d : Defs) (code : String) : Prop := code ∈ d.countries

/-- a payment means key (`payment.instructions.key`, `payment.advances[*].key`): its BASE, the
    part before the first `+`, is one of the published means keys (the schema lists them
    as `const`s and adds "Regime Specific Key": sub-keys after `+` are open) -/
def meansKeyResolves (ks : KeySets) (k : String) : Prop :=
  ∃ base ∈ ks.get "pay/means", (splitPlus k.toList []).head? = some base.toList

/-- a note key / payment terms key is one of the published keys -/
def noteKeyResolves (ks : KeySets) (k : String) : Prop := k ∈ ks.get "org/note"
def termsKeyResolves (ks : KeySets) (k : String) : Prop := k ∈ ks.get "pay/terms"

def meansKeyResolvesB (ks : KeySets) (k : String) : Bool :=
  (ks.get "pay/means").any fun base => (splitPlus k.toList []).head? == some base.toList

/-! ## executable forms (used by the driver on validated output documents) -/

def regimeResolvesB (d : Defs) (code : String) : Bool := (d.regimeFor code).isSome
def addonResolvesB (d : Defs) (key : String) : Bool := (d.addonFor key).isSome

def comboResolvesB (d : Defs) (docRegime : String) (c : Combo) : Bool :=
  match d.regimeFor (if c.country == "" then docRegime else c.country) with
  | none => false
  | some r =>
    match r.category c.category with
    | none => false
    | some cat => c.rate == "" || cat.rateKeys.any (fun k => keyHas c.rate k)

def includesResolvesB (d : Defs) (docRegime cat : String) : Bool :=
  match d.regimeFor docRegime with
  | none => false
  | some r => r.categories.any (·.code == cat)

def extPairResolvesB (d : Defs) (pm : PatternMatch) (kv : String × String) : Bool :=
  d.allExtDefs.any fun kd => kd.key == kv.1 && (kd.codes.isEmpty || kd.codes.contains kv.2) && (kd.pattern == "" || pm kd.pattern kv.2)

def tagResolvesB (docRegime : Option Regime) (addons : List Addon) (schema tag : String) : Bool :=
  (match docRegime with
   | none => false
   | some r => r.tags.any fun ts => ts.schema == schema && ts.keys.contains tag) ||
  addons.any fun a => a.tags.any fun ts => ts.schema == schema && ts.keys.contains tag

end GoblVerif.Spec.C18
