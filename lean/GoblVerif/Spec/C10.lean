/-
  Specification side of C10: the abstract state of an envelope and the table
  that gives the outcome class of every life-cycle operation from it.

  The property statement names four facts (digest matches the document, the
  document is valid for signing, signatures are present, the header still
  contains each signed header).  Reading the statement against the API shows
  a few more are needed to *determine* every outcome (DESIGN.md Appendix B):
  validity depends on the signed flag (an invoice needs a code only when
  signed; stamps are allowed only when signed), an envelope may be empty, a
  document may fail to calculate, and a `null` entry can enter the signature
  list through JSON.  `Abs` holds exactly these facts; `validUnsigned`,
  `validSigned` are derived.
-/
import GoblVerif.Model.Envelope

namespace GoblVerif.Spec.C10
open GoblVerif

@[ext] structure Abs where
  /-- a document is present -/
  hasDoc : Bool
  /-- it can be calculated -/
  calcOk : Bool
  /-- it validates outside the signed context -/
  docValid : Bool
  /-- it is an invoice-like document: needs a code when signed … -/
  needsCode : Bool
  /-- … and has one -/
  hasCode : Bool
  /-- no duplicate stamp providers / link keys in the header -/
  headOk : Bool
  /-- the header has a digest -/
  digPresent : Bool
  /-- … and it is the digest of the present document -/
  digestOk : Bool
  stampsPresent : Bool
  /-- the signature list is not empty -/
  signed : Bool
  /-- every entry of it is a signature (no `null` entry) -/
  allReal : Bool
  /-- the header still contains every signed header -/
  containsAll : Bool
  /-- who made the (real) signatures, in order -/
  signers : List Key
deriving DecidableEq, Repr, Inhabited

/-- valid as an unsigned envelope, the stamps rule aside -/
def Abs.validUnsigned (a : Abs) : Bool := a.hasDoc && a.docValid && a.headOk && a.digPresent
/-- valid for signing: an invoice needs a code when signed -/
def Abs.validSigned (a : Abs) : Bool := a.validUnsigned && (!a.needsCode || a.hasCode)

/-- structural validation in the context the envelope is in: signed → the
    signed rules and every entry real; unsigned → no stamps -/
def Abs.structOk (a : Abs) : Bool :=
  if a.signed then a.validSigned && a.allReal else a.validUnsigned && !a.stampsPresent

def Abs.validateOutcome (a : Abs) : Outcome :=
  if !a.structOk then .validation else if !a.digestOk then .digest else .ok

/-- `Sign` validates the envelope *with* the new signature on it -/
def Abs.signOutcome (a : Abs) : Outcome :=
  if !(a.validSigned && a.allReal) then .validation else if !a.digestOk then .digest else .ok

def Abs.verifyOutcome (a : Abs) (ks : List Key) : Outcome :=
  if !a.signed then .unsigned
  else if a.allReal && a.containsAll && (ks.isEmpty || a.signers.all (fun k => ks.contains k)) then .ok
  else .verifyFailed

/-- **the table**: outcome class of each operation from the abstract state -/
def specOutcome (a : Abs) : Op → Outcome
  | .insert d => if d.calcOk then .ok else .calculation
  | .calculate => if !a.hasDoc then .noDocument else if !a.calcOk then .calculation else .ok
  | .editDoc _ => if a.hasDoc then .ok else .skip
  | .toggleCode _ => if a.hasDoc then .ok else .skip
  | .sign _ => a.signOutcome
  | .signBadKey => .signature
  | .unsign => .ok
  | .addStamp _ _ => .ok
  | .alterStamp _ => if a.stampsPresent then .ok else .skip
  | .addLink _ _ => .ok
  | .addTag _ => .ok
  | .setMeta _ _ => .ok
  | .setNotes _ => .ok
  | .validate => a.validateOutcome
  | .verify ks => a.verifyOutcome ks
  | .roundtrip inj =>
    if !a.hasDoc then .marshal
    else match inj with
      | .empty => .parse
      | _ => .ok

/-- the two facts an operation can change in a way the other abstract facts do
    not determine (a new digest may or may not be the one that was signed; a
    replaced stamp may or may not have been signed).  Everything else is
    determined. -/
structure Free where
  digestOk : Bool
  containsAll : Bool

/-- `containsAll` after a header change: vacuous without signatures -/
def Abs.freeContains (a : Abs) (f : Free) : Bool := if a.signed then f.containsAll else true

def Abs.unsigned (a : Abs) : Abs :=
  { a with signed := false, signers := [], allReal := true, containsAll := true }

/-- the abstract successor state (with the two free facts supplied) -/
def specStep (a : Abs) (op : Op) (f : Free) : Abs :=
  match op with
  | .insert d =>
    { a with hasDoc := true, calcOk := d.calcOk, docValid := d.valid, needsCode := d.needsCode, hasCode := d.hasCode,
             digPresent := a.digPresent || d.calcOk,
             digestOk := if d.calcOk then true else f.digestOk,
             containsAll := if d.calcOk then a.freeContains f else a.containsAll }
  | .calculate =>
    if a.hasDoc && a.calcOk then
      { a with digPresent := true, digestOk := true,
               containsAll := if a.digestOk then a.containsAll else a.freeContains f }
    else a
  | .editDoc _ => if a.hasDoc then { a with digestOk := f.digestOk } else a
  | .toggleCode _ => if a.hasDoc then { a with digestOk := f.digestOk, hasCode := !a.hasCode } else a
  | .sign k =>
    if a.signOutcome = .ok then { a with signed := true, signers := a.signers ++ [k] }
    else a.unsigned            -- a failed signing leaves the envelope unsigned
  | .signBadKey => a
  | .unsign => a.unsigned
  | .addStamp _ _ => { a with stampsPresent := true, containsAll := a.freeContains f }
  | .alterStamp _ => if a.stampsPresent then { a with containsAll := a.freeContains f } else a
  | .addLink _ _ => { a with containsAll := a.freeContains f }
  | .addTag _ => { a with containsAll := a.freeContains f }
  | .setMeta _ _ => { a with containsAll := a.freeContains f }
  | .setNotes _ => { a with containsAll := a.freeContains f }
  | .validate => a
  | .verify _ => a
  | .roundtrip inj =>
    if a.hasDoc && inj == .null then { a with signed := true, allReal := false } else a

/-! ## the abstraction function -/

def docFact (d : Option Doc) (f : Doc → Bool) : Bool :=
  match d with
  | some d => f d
  | none => false

def sigContained (h : Header) : Option Sig → Bool
  | some s => h.contains s.payload
  | none => true

def abs (H : Nat → String) (e : Env) : Abs :=
  { hasDoc := e.doc.isSome
    calcOk := docFact e.doc (·.calcOk)
    docValid := docFact e.doc (·.valid)
    needsCode := docFact e.doc (·.needsCode)
    hasCode := docFact e.doc (·.hasCode)
    headOk := !(dupKeys (e.head.stamps.map (·.prv)) || dupKeys (e.head.links.map (·.key)))
    digPresent := e.head.dig.isSome
    digestOk := docFact e.doc (fun d => e.head.dig == some (digestOf H d))
    stampsPresent := !e.head.stamps.isEmpty
    signed := !e.sigs.isEmpty
    allReal := e.sigs.all (·.isSome)
    containsAll := e.sigs.all (sigContained e.head)
    signers := e.sigs.filterMap (fun s => s.map (·.signer)) }

/-- the free facts read off a concrete state -/
def freeOf (H : Nat → String) (e : Env) : Free :=
  { digestOk := (abs H e).digestOk, containsAll := (abs H e).containsAll }

/-- the empty envelope (`gobl.NewEnvelope()`) -/
def emptyEnv (uuid : String) : Env :=
  { head := { uuid := uuid, dig := none, stamps := [], links := [], tags := [], metas := [], notes := "" },
    doc := none, sigs := [] }

/-- the API operations of the life-cycle (`Op` has no other) and the
    signatures produced along a history: `(signer, header at that time)` for
    every `sign` step -/
def signLog (H : Nat → String) : Env → List Op → List Sig
  | _, [] => []
  | e, op :: ops =>
    (match op with
     | .sign k => [⟨k, e.head⟩]
     | _ => []) ++ signLog H (Env.step H e op).1 ops

/-- the outcomes the table predicts along a history -/
def specTrace (H : Nat → String) : Env → List Op → List Outcome
  | _, [] => []
  | e, op :: ops => specOutcome (abs H e) op :: specTrace H (Env.step H e op).1 ops

/-- example values for the non-vacuity `example`s of Props/C10.lean -/
def exH : Nat → String := fun n => String.ofList (List.replicate n 'x')
def exInvoice : Doc := ⟨1, true, true, true, true⟩
def exInvoiceNoCode : Doc := ⟨2, true, true, true, false⟩
def exUuid : String := "0190f5c1-0000-7000-8000-000000000001"

end GoblVerif.Spec.C10
