/-
  C01 specification side: exact rational reading of amounts and the rounding
  function the property names (Spec/C05: `roundTo`, half away from zero).
-/
import GoblVerif.Spec.C05
import GoblVerif.Model.Calc

namespace GoblVerif.Spec.C01
open GoblVerif GoblVerif.Calc

/-- a presented figure: the value `q` shown with exactly `c` decimals -/
def presents (c : Nat) (a : Amount) (q : Rat) : Prop :=
  a.exp = c ∧ a.value = GoblVerif.Spec.roundTo c q

end GoblVerif.Spec.C01

namespace GoblVerif.Spec.C01
open GoblVerif GoblVerif.Calc

/-! ## the unrounded exact value of every total (`exact d` of DESIGN.md):
the same data flow as `Calc.calculate` in plain rational arithmetic, no
rounding anywhere.  Written independently of the model's operations. -/

def pq (p : Pct) : Rat := p.amount.toRat

/-- amount of a line-level discount/charge on a line with sum `s` and quantity `q` -/
def adjQ (s q : Rat) (isCharge : Bool) (d : LineAdj) : Rat :=
  let byPct : Rat :=
    match d.percent with
    | some p => if p.amount.value == 0 then d.amount.toRat else
        (match d.base with | some b => b.toRat * pq p | none => s * pq p)
    | none => d.amount.toRat
  if isCharge then
    match d.rate with
    | some r => r.toRat * (match d.quantity with | some x => x.toRat | none => q)
    | none => byPct
  else byPct

/-- unit price of an item in the document currency -/
def priceQ (cur : String) (rates : List XRate) (it : Item) : Option Rat :=
  match it.price with
  | none => none
  | some p =>
    if it.cur == "" || it.cur == cur then some p.toRat else
    match it.alts.find? (fun a => a.1 == cur) with
    | some a => some a.2.toRat
    | none =>
      match rates.find? (fun r => r.from == it.cur && r.to == cur) with
      | some r => some (p.toRat * r.amount.toRat)
      | none => none

def rowTotalQ (cur : String) (rates : List XRate) (qty : Amount) (item : Option Item)
    (discounts charges : List LineAdj) (priceOverride : Option Rat) : Option Rat :=
  match item with
  | none => none
  | some it =>
    let price := match priceOverride with | some p => some p | none => priceQ cur rates it
    match price with
    | none => none
    | some p =>
      let s := p * qty.toRat
      some (s - (discounts.map (adjQ s qty.toRat false)).sum + (charges.map (adjQ s qty.toRat true)).sum)

def lineTotalQ (cur : String) (rates : List XRate) (l : Line) : Option Rat :=
  let subs := l.breakdown.filterMap (fun sl => rowTotalQ cur rates sl.qty sl.item sl.discounts sl.charges none)
  let override : Option Rat := if l.breakdown.isEmpty || subs.isEmpty then none else some subs.sum
  rowTotalQ cur rates l.qty l.item l.discounts l.charges override

def docAdjQ (sum : Rat) (d : DocAdj) : Rat :=
  match d.percent with
  | some p => if p.amount.value == 0 then d.amount.toRat else
      (match d.base with | some b => b.toRat * pq p | none => sum * pq p)
  | none => d.amount.toRat

/-- tax a row with total `t` adds: per combo ±t'·(percent + surcharge), where
    t' has the included tax taken out with its own percentage -/
def rowTaxQ (includes : Option String) (t : Rat) (taxes : List Combo) : Rat × Rat :=
  let t' : Rat :=
    match includes with
    | none => t
    | some k =>
      match taxes.find? (fun cb => cb.cat == k) with
      | some cb => (match cb.percent with | some p => t / (1 + pq p) | none => t)
      | none => t
  let all := (taxes.map fun cb =>
    match cb.percent with
    | none => (0 : Rat)
    | some p =>
      let a := t' * (pq p + (match cb.surcharge with | some s => pq s | none => 0))
      if cb.retained then -a else a).sum
  let inc := match includes with
    | none => (0 : Rat)
    | some k => ((taxes.filter (fun cb => cb.cat == k)).map fun cb =>
        match cb.percent with | some p => t' * pq p | none => 0).sum
  (all, inc)

structure TotalsQ where
  sum : Rat
  discount : Rat
  charge : Rat
  taxIncluded : Rat
  total : Rat
  tax : Rat
  totalWithTax : Rat
  payable : Rat
  advances : Rat
  due : Rat

def exactQ (d : Doc) : TotalsQ :=
  let lts := d.lines.map (fun l => (lineTotalQ d.cur d.rates l, l.taxes))
  let sum := (lts.filterMap (·.1)).sum
  let ds := d.discounts.map (fun x => (docAdjQ sum x, x.taxes))
  let cs := d.charges.map (fun x => (docAdjQ sum x, x.taxes))
  let discount := (ds.map (·.1)).sum
  let charge := (cs.map (·.1)).sum
  let rows : List (Rat × List Combo) :=
    lts.filterMap (fun x => x.1.map (fun t => (t, x.2))) ++ ds.map (fun x => (-x.1, x.2)) ++ cs
  let tx := rows.map (fun r => rowTaxQ d.includes r.1 r.2)
  let tax := (tx.map (·.1)).sum
  let inc := (tx.map (·.2)).sum
  let total := sum - discount + charge - inc
  let twt := total + tax
  let payable := twt + (match d.rounding with | some x => x.toRat | none => 0)
  let advances := if d.hasPayment then (d.advances.map fun a =>
      match a.percent with | some p => twt * pq p | none => a.amount.toRat).sum else 0
  { sum, discount, charge, taxIncluded := inc, total, tax, totalWithTax := twt, payable, advances,
    due := payable - advances }

end GoblVerif.Spec.C01
