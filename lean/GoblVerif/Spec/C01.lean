/-
  C01 specification side: exact rational reading of amounts and the rounding
  function the property names (Spec/C05: `roundTo`, half away from zero).
-/
import GoblVerif.Spec.C05
import GoblVerif.Model.Calc

namespace GoblVerif.Spec.C01
open GoblVerif GoblVerif.Calc

/-- a presented figure: the value `q` shown with exactly `c` decimals -/
def presents (c : Nat) (a : Amount) (q : Rat) : Prop :=
  a.exp = c ∧ a.value = GoblVerif.Spec.roundTo c q

end GoblVerif.Spec.C01
