/-
  C01 specification side: exact rational reading of amounts and the rounding
  function the property names (Spec/C05: `roundTo`, half away from zero).
-/
import GoblVerif.Spec.C05
import GoblVerif.Spec.C02
import GoblVerif.Model.Calc

namespace GoblVerif.Spec.C01
open GoblVerif GoblVerif.Calc

/-- a presented figure: the value `q` shown with exactly `c` decimals -/
def presents (c : Nat) (a : Amount) (q : Rat) : Prop :=
  a.exp = c ∧ a.value = GoblVerif.Spec.roundTo c q

end GoblVerif.Spec.C01

namespace GoblVerif.Spec.C01
open GoblVerif GoblVerif.Calc

/-! ## the unrounded exact value of every total (`exact d` of DESIGN.md):
the same data flow as `Calc.calculate` in plain rational arithmetic, no
rounding anywhere.  Written independently of the model's operations. -/

def pq (p : Pct) : Rat := p.amount.toRat

/-- amount of a line-level discount/charge on a line with sum `s` and quantity `q` -/
def adjQ (s q : Rat) (isCharge : Bool) (d : LineAdj) : Rat :=
  let byPct : Rat :=
    match d.percent with
    | some p => if p.amount.value == 0 then d.amount.toRat else
        (match d.base with | some b => b.toRat * pq p | none => s * pq p)
    | none => d.amount.toRat
  if isCharge then
    match d.rate with
    | some r => r.toRat * (match d.quantity with | some x => x.toRat | none => q)
    | none => byPct
  else byPct

/-- unit price of an item in the document currency -/
def priceQ (cur : String) (rates : List XRate) (it : Item) : Option Rat :=
  match it.price with
  | none => none
  | some p =>
    if it.cur == "" || it.cur == cur then some p.toRat else
    match it.alts.find? (fun a => a.1 == cur) with
    | some a => some a.2.toRat
    | none =>
      match rates.find? (fun r => r.from == it.cur && r.to == cur) with
      | some r => some (p.toRat * r.amount.toRat)
      | none => none

def rowTotalQ (cur : String) (rates : List XRate) (qty : Amount) (item : Option Item)
    (discounts charges : List LineAdj) (priceOverride : Option Rat) : Option Rat :=
  match item with
  | none => none
  | some it =>
    let price := match priceOverride with | some p => some p | none => priceQ cur rates it
    match price with
    | none => none
    | some p =>
      let s := p * qty.toRat
      some (s - (discounts.map (adjQ s qty.toRat false)).sum + (charges.map (adjQ s qty.toRat true)).sum)

def lineTotalQ (cur : String) (rates : List XRate) (l : Line) : Option Rat :=
  let subs := l.breakdown.filterMap (fun sl => rowTotalQ cur rates sl.qty sl.item sl.discounts sl.charges none)
  let override : Option Rat := if l.breakdown.isEmpty || subs.isEmpty then none else some subs.sum
  rowTotalQ cur rates l.qty l.item l.discounts l.charges override

def docAdjQ (sum : Rat) (d : DocAdj) : Rat :=
  match d.percent with
  | some p => if p.amount.value == 0 then d.amount.toRat else
      (match d.base with | some b => b.toRat * pq p | none => sum * pq p)
  | none => d.amount.toRat

/-- tax a row with total `t` adds: per combo ±t'·(percent + surcharge), where
    t' has the included tax taken out with its own percentage -/
def rowTaxQ (includes : Option String) (t : Rat) (taxes : List Combo) : Rat × Rat :=
  let t' : Rat :=
    match includes with
    | none => t
    | some k =>
      match taxes.find? (fun cb => cb.cat == k) with
      | some cb => (match cb.percent with | some p => t / (1 + pq p) | none => t)
      | none => t
  let all := (taxes.map fun cb =>
    match cb.percent with
    | none => (0 : Rat)
    | some p =>
      let a := t' * (pq p + (match cb.surcharge with | some s => pq s | none => 0))
      if cb.retained then -a else a).sum
  let inc := match includes with
    | none => (0 : Rat)
    | some k => ((taxes.filter (fun cb => cb.cat == k)).map fun cb =>
        match cb.percent with | some p => t' * pq p | none => 0).sum
  (all, inc)

structure TotalsQ where
  sum : Rat
  discount : Rat
  charge : Rat
  taxIncluded : Rat
  total : Rat
  tax : Rat
  totalWithTax : Rat
  payable : Rat
  advances : Rat
  due : Rat

def exactQ (d : Doc) : TotalsQ :=
  let lts := d.lines.map (fun l => (lineTotalQ d.cur d.rates l, l.taxes))
  let sum := (lts.filterMap (·.1)).sum
  let ds := d.discounts.map (fun x => (docAdjQ sum x, x.taxes))
  let cs := d.charges.map (fun x => (docAdjQ sum x, x.taxes))
  let discount := (ds.map (·.1)).sum
  let charge := (cs.map (·.1)).sum
  let rows : List (Rat × List Combo) :=
    lts.filterMap (fun x => x.1.map (fun t => (t, x.2))) ++ ds.map (fun x => (-x.1, x.2)) ++ cs
  let tx := rows.map (fun r => rowTaxQ d.includes r.1 r.2)
  let tax := (tx.map (·.1)).sum
  let inc := (tx.map (·.2)).sum
  let total := sum - discount + charge - inc
  let twt := total + tax
  let payable := twt + (match d.rounding with | some x => x.toRat | none => 0)
  let advances := if d.hasPayment then (d.advances.map fun a =>
      match a.percent with | some p => twt * pq p | none => a.amount.toRat).sum else 0
  { sum, discount, charge, taxIncluded := inc, total, tax, totalWithTax := twt, payable, advances,
    due := payable - advances }

/-! ## the rows of the tax summary in exact arithmetic -/

/-- a row total with the included tax taken out by an exact division (the `t'` of `rowTaxQ`) -/
def exclQ (includes : Option String) (t : Rat) (taxes : List Combo) : Rat :=
  match includes with
  | none => t
  | some k =>
    match taxes.find? (fun cb => cb.cat == k) with
    | some cb => (match cb.percent with | some p => t / (1 + pq p) | none => t)
    | none => t

/-- the rows the tax summary is built from, exactly: line totals, document discounts (negated),
document charges, each with the included tax taken out, and their combos -/
def exactTaxRows (d : Doc) : List (Rat × List Combo) :=
  let lts := d.lines.map (fun l => (lineTotalQ d.cur d.rates l, l.taxes))
  let sum := (lts.filterMap (·.1)).sum
  let ds := d.discounts.map (fun x => (docAdjQ sum x, x.taxes))
  let cs := d.charges.map (fun x => (docAdjQ sum x, x.taxes))
  let rows : List (Rat × List Combo) :=
    lts.filterMap (fun x => x.1.map (fun t => (t, x.2))) ++ ds.map (fun x => (-x.1, x.2)) ++ cs
  rows.map (fun r => (exclQ d.includes r.1 r.2, r.2))

/-- exact amount of tax category `k`: Σ rows Σ combos of the category, row × percentage -/
def catAmountQ (d : Doc) (k : String) : Rat :=
  ((exactTaxRows d).map (fun r => ((r.2.filter (fun cb => cb.cat == k)).map
    (fun cb => match cb.percent with | some p => r.1 * pq p | none => 0)).sum)).sum

/-- exact surcharge of tax category `k` -/
def catSurchargeQ (d : Doc) (k : String) : Rat :=
  ((exactTaxRows d).map (fun r => ((r.2.filter (fun cb => cb.cat == k)).map
    (fun cb => match cb.percent with
      | some _ => r.1 * (match cb.surcharge with | some s => pq s | none => 0)
      | none => 0)).sum)).sum

/-- exact base of the rate group `key` of category `cat`: the row once per combo of the group -/
def groupBaseQ (d : Doc) (cat : String) (key : Spec.C02.GroupKey) : Rat :=
  ((exactTaxRows d).map (fun r => ((r.2.filter
    (fun cb => decide (cb.cat = cat ∧ Spec.C02.keyOfCombo cb = key))).map (fun _ => r.1)).sum)).sum

end GoblVerif.Spec.C01

/-! ## weights of the error bound and the decidable document class of `Props.C01.calc_eq_spec`

The weights count rounding points in half-units of the working precision (currency + 2 decimals);
`inDocC` decides the document class for which Props/C01 proves the bound
(`Proofs/CalcErrorMore.lean`: `inDocC_sound`).  Core Lean only: the driver evaluates both. -/

namespace GoblVerif.Calc.Err
open GoblVerif GoblVerif.Calc

/-- weight of a line: one rounding for price × quantity, and for every discount / charge its own
rounding plus the propagated error of the line sum (percentage ≤ 100 %) -/
def lineW (l : Line) : Nat := 1 + 2 * (l.discounts.length + l.charges.length)

/-- total weight of the lines -/
def sumW (ls : List Line) : Nat := (ls.map lineW).sum

/-- weight of `total` before the included tax is taken out: the lines' weight carried through
1 − Σ discount % + Σ charge %, plus one rounding per document discount / charge -/
def totalW (d : Doc) : Nat :=
  sumW d.lines * (1 + d.discounts.length + d.charges.length) + d.discounts.length + d.charges.length

/-- weight of a combo: its percentage, and its surcharge when it has one -/
def cW (cb : Combo) : Nat := if cb.surcharge.isSome then 2 else 1

def comboW (taxes : List Combo) : Nat := (taxes.map cW).sum

/-- weight of a rate group: its amount, and its surcharge when it has one -/
def rateW (rt : RateTotal) : Nat := if rt.surcharge.isSome then 2 else 1

def ratesW (rts : List RateTotal) : Nat := (rts.map rateW).sum

/-- number of rounding points of a tax summary: one per rate group, one more when the group has a
surcharge (without surcharges: the number of rate groups) -/
def groupsOf (cats : List CatTotal) : Nat := (cats.map (fun ct => ratesW ct.rates)).sum

/-- error carried into the tax by the line totals: weight of the line × number of its combos -/
def linesTaxW (ls : List Line) : Nat := (ls.map (fun l => lineW l * comboW l.taxes)).sum

/-- … and by the document discounts / charges: (own rounding + weight of the sum) × combos -/
def adjTaxW (W : Nat) (xs : List DocAdj) : Nat := (xs.map (fun x => (1 + W) * comboW x.taxes)).sum

/-- weight of the tax: one rounding per rate group (`G` groups) plus the carried errors -/
def taxW (d : Doc) (G : Nat) : Nat :=
  G + linesTaxW d.lines + adjTaxW (sumW d.lines) d.discounts + adjTaxW (sumW d.lines) d.charges

/-- weight of the discount / charge total: per row its own rounding plus the weight of the sum -/
def adjW (W k : Nat) : Nat := k * (1 + W)

/-- weight of total-with-tax and payable -/
def twtW (d : Doc) (G : Nat) : Nat := totalW d + taxW d G

/-- weight of the advances total: per advance one rounding plus the weight of total-with-tax -/
def advW (d : Doc) (G : Nat) : Nat := d.advances.length * (1 + twtW d G)

/-- weight of the amount due -/
def dueW (d : Doc) (G : Nat) : Nat := twtW d G + advW d G

/-- number of rate groups of the tax summary shown with the totals -/
def groupsT (t : Totals) : Nat :=
  match t.taxes with
  | some tx => groupsOf tx.cats
  | none => 0


/-- |p| ≤ 100 %, decided on the integers -/
def pctLe1 (p : Pct) : Bool := decide (p.amount.value.natAbs ≤ 10 ^ p.amount.exp)

def adjOkB (c : Nat) (d : LineAdj) : Bool :=
  d.rate.isNone &&
  (match d.percent with
   | some p =>
     if pctIsZero p then decide (d.amount.exp ≤ c + 2)
     else pctLe1 p && (match d.base with | none => true | some b => decide (b.exp ≤ c + 2))
   | none => decide (d.amount.exp ≤ c + 2))

def adjLineB (c : Nat) (l : Line) : Bool :=
  match l.item with
  | some it => it.cur == "" && it.price.isSome && l.breakdown.isEmpty &&
      l.discounts.all (adjOkB c) && l.charges.all (adjOkB c)
  | none => false

def docAdjOkB (c : Nat) (x : DocAdj) : Bool :=
  match x.percent with
  | some p =>
    if pctIsZero p then decide (x.amount.exp ≤ c + 2)
    else pctLe1 p && (match x.base with | none => true | some b => decide (b.exp ≤ c + 2))
  | none => decide (x.amount.exp ≤ c + 2)

def comboOkB (ret : String → Bool) (cb : Combo) : Bool :=
  cb.retained == ret cb.cat &&
  (match cb.percent with | some p => pctLe1 p | none => true) &&
  (match cb.surcharge with | some sp => pctLe1 sp | none => true)

def advOkB (c : Nat) (a : Advance) : Bool :=
  match a.percent with
  | some p => pctLe1 p
  | none => decide (a.amount.exp ≤ c + 2)

def allCombos (d : Doc) : List Combo :=
  d.lines.flatMap (·.taxes) ++ d.discounts.flatMap (·.taxes) ++ d.charges.flatMap (·.taxes)

/-- which categories a document treats as retained: the flag of the first combo of the category -/
def retOf (d : Doc) (k : String) : Bool :=
  match (allCombos d).find? (fun cb => cb.cat == k) with
  | some cb => cb.retained
  | none => false

/-- the document class `DocC (retOf d) d` of `Props.C01.calc_eq_spec`, decided -/
def inDocC (d : Doc) : Bool :=
  d.rule == .precise && !d.lines.isEmpty && d.lines.all (adjLineB d.c) &&
  d.discounts.all (docAdjOkB d.c) && d.charges.all (docAdjOkB d.c) && d.includes.isNone &&
  d.lines.all (fun l => l.taxes.all (comboOkB (retOf d))) &&
  d.discounts.all (fun x => x.taxes.all (comboOkB (retOf d))) &&
  d.charges.all (fun x => x.taxes.all (comboOkB (retOf d))) &&
  (match d.rounding with | some x => decide (x.exp ≤ d.c + 2) | none => true) &&
  d.advances.all (advOkB d.c)

/-! ### prices including one tax category (`prices_include`)

`removeIncludedTaxes` divides the prepared total of every row that carries a combo of the included
category (with a percentage) by 1 + percentage: one more rounding point for that row (`incB`).  The
amount of the included category (`tax_included`) is subtracted from `total`: its own rounding points
are the rate groups of that category (`incGroupsOf`) and it carries the rows' errors once per combo of
the category (`kN`). -/

/-- the extra rounding point of a row: 1 when the included category occurs on it with a percentage -/
def incB (inc : Option String) (taxes : List Combo) : Nat :=
  match inc with
  | none => 0
  | some k =>
    match taxes.find? (fun cb => cb.cat == k) with
    | some cb => if cb.percent.isSome then 1 else 0
    | none => 0

/-- number of combos of the included category on a row -/
def kN (inc : Option String) (taxes : List Combo) : Nat :=
  match inc with
  | none => 0
  | some k => (taxes.filter (fun cb => cb.cat == k)).length

/-- number of combos of the rate group `(cat, key)` on a row -/
def gN (cat : String) (key : Spec.C02.GroupKey) (taxes : List Combo) : Nat :=
  (taxes.filter (fun cb => decide (cb.cat = cat ∧ Spec.C02.keyOfCombo cb = key))).length

/-- the rows' errors carried into a quantity that is `L taxes`-Lipschitz in the row total: lines with
their own weight, document discounts / charges with 1 + the weight of the sum, each plus `incB` -/
def rowsWL (L : List Combo → Nat) (inc : Option String) (d : Doc) : Nat :=
  (d.lines.map (fun l => (lineW l + incB inc l.taxes) * L l.taxes)).sum +
  (d.discounts.map (fun x => (1 + sumW d.lines + incB inc x.taxes) * L x.taxes)).sum +
  (d.charges.map (fun x => (1 + sumW d.lines + incB inc x.taxes) * L x.taxes)).sum

/-- rate groups of the included category in a tax summary -/
def incGroupsOf (inc : Option String) (cats : List CatTotal) : Nat :=
  match inc with
  | none => 0
  | some k =>
    match cats.find? (fun ct => ct.code == k) with
    | some ct => ct.rates.length
    | none => 0

def incGroupsT (inc : Option String) (t : Totals) : Nat :=
  match t.taxes with
  | some tx => incGroupsOf inc tx.cats
  | none => 0

/-- weight of the tax when prices may include a category -/
def taxWI (d : Doc) (G : Nat) : Nat := G + rowsWL comboW d.includes d
/-- weight of `tax_included` -/
def incWI (d : Doc) (Gk : Nat) : Nat := Gk + rowsWL (kN d.includes) d.includes d
/-- weight of `total` = sum − discounts + charges − tax_included -/
def totalWI (d : Doc) (Gk : Nat) : Nat := totalW d + incWI d Gk
def twtWI (d : Doc) (G Gk : Nat) : Nat := totalWI d Gk + taxWI d G
def advWI (d : Doc) (G Gk : Nat) : Nat := d.advances.length * (1 + twtWI d G Gk)
def dueWI (d : Doc) (G Gk : Nat) : Nat := twtWI d G Gk + advWI d G Gk

/-- a combo of the included category has a percentage ≥ 0 -/
def incPosB (inc : Option String) (cb : Combo) : Bool :=
  match inc with
  | none => true
  | some k => !(cb.cat == k) || (match cb.percent with | some p => decide (0 ≤ p.amount.value) | none => true)

/-- the class of `Props.C01.calc_eq_spec_included`, decided: as `inDocC`, but the prices may include
one tax category, which must not be retained and whose percentages must not be negative -/
def inDocI (d : Doc) : Bool :=
  d.rule == .precise && !d.lines.isEmpty && d.lines.all (adjLineB d.c) &&
  d.discounts.all (docAdjOkB d.c) && d.charges.all (docAdjOkB d.c) &&
  (match d.includes with | some k => !(retOf d k) | none => true) &&
  (allCombos d).all (fun cb => comboOkB (retOf d) cb && incPosB d.includes cb) &&
  (match d.rounding with | some x => decide (x.exp ≤ d.c + 2) | none => true) &&
  d.advances.all (advOkB d.c)

/-- the largest weight of a calculated document whose prices may include a tax category -/
def docWeightI (d : Doc) : Nat :=
  match calculate exactOps d with
  | .ok out => (match out.totals with
      | some t => dueWI d (groupsT t) (incGroupsT d.includes t)
      | none => 0)
  | .error _ => 0

/-- the largest weight of a calculated document (that of the amount due); 0 when nothing was calculated -/
def docWeight (d : Doc) : Nat :=
  match calculate exactOps d with
  | .ok out => (match out.totals with | some t => dueW d (groupsT t) | none => 0)
  | .error _ => 0


/-! ### tighter weights: the actual percentages instead of their bound of 100 %

Rational weights (still in half-units of the working precision).  A percentage row multiplies the
error it inherits by |percentage|, not by 1; a fixed amount has no rounding point and inherits
nothing; a tax combo carries |percentage| + |surcharge percentage| of its row's error into the tax.
The line weights `lineW` are kept.  `Props.C01.calc_eq_spec_tight`. -/

def ratAbs (x : Rat) : Rat := if x < 0 then -x else x

/-- |percentage| as a rational -/
def pctA (p : Pct) : Rat := ratAbs p.amount.toRat

/-- rounding points of a document discount / charge row: 1 for a (non-zero) percentage, 0 for a fixed amount -/
def adjR (x : DocAdj) : Rat :=
  match x.percent with
  | some p => if pctIsZero p then 0 else 1
  | none => 0

/-- factor by which such a row inherits the error of the document sum: |percentage| for a
percentage of the sum, 0 for a percentage of an explicit base or a fixed amount -/
def adjL (x : DocAdj) : Rat :=
  match x.percent with
  | some p => if pctIsZero p then 0 else (match x.base with | none => pctA p | some _ => 0)
  | none => 0

def adjRowWQ (s : Nat) (x : DocAdj) : Rat := adjR x + adjL x * (s : Rat)
def adjWQ (s : Nat) (xs : List DocAdj) : Rat := (xs.map (adjRowWQ s)).sum

/-- weight of sum − discounts + charges -/
def total2WQ (d : Doc) : Rat :=
  (sumW d.lines : Rat) + adjWQ (sumW d.lines) d.discounts + adjWQ (sumW d.lines) d.charges

def cWQ (cb : Combo) : Rat :=
  match cb.percent with
  | some p => pctA p + (match cb.surcharge with | some s => pctA s | none => 0)
  | none => 0

def comboWQ (taxes : List Combo) : Rat := (taxes.map cWQ).sum

def kNQ (inc : Option String) (taxes : List Combo) : Rat :=
  match inc with
  | none => 0
  | some k => ((taxes.filter (fun cb => cb.cat == k)).map
      (fun cb => match cb.percent with | some p => pctA p | none => 0)).sum

def rowsWLQ (L : List Combo → Rat) (inc : Option String) (d : Doc) : Rat :=
  (d.lines.map (fun l => ((lineW l : Rat) + (incB inc l.taxes : Rat)) * L l.taxes)).sum +
  (d.discounts.map (fun x => (adjRowWQ (sumW d.lines) x + (incB inc x.taxes : Rat)) * L x.taxes)).sum +
  (d.charges.map (fun x => (adjRowWQ (sumW d.lines) x + (incB inc x.taxes : Rat)) * L x.taxes)).sum

def taxWQ (d : Doc) (G : Nat) : Rat := (G : Rat) + rowsWLQ comboWQ d.includes d
def incWQ (d : Doc) (Gk : Nat) : Rat := (Gk : Rat) + rowsWLQ (kNQ d.includes) d.includes d
def totalWQ (d : Doc) (Gk : Nat) : Rat := total2WQ d + incWQ d Gk
def twtWQ (d : Doc) (G Gk : Nat) : Rat := totalWQ d Gk + taxWQ d G

/-- an advance: 1 + |percentage| × weight of the total with tax; a fixed advance weighs nothing -/
def advRowWQ (T : Rat) (a : Advance) : Rat :=
  match a.percent with
  | some p => 1 + pctA p * T
  | none => 0

def advWQ (d : Doc) (G Gk : Nat) : Rat := (d.advances.map (advRowWQ (twtWQ d G Gk))).sum
def dueWQ (d : Doc) (G Gk : Nat) : Rat := twtWQ d G Gk + advWQ d G Gk

/-- the largest tight weight of a calculated document -/
def docWeightQ (d : Doc) : Rat :=
  match calculate exactOps d with
  | .ok out => (match out.totals with
      | some t => dueWQ d (groupsT t) (incGroupsT d.includes t)
      | none => 0)
  | .error _ => 0

end GoblVerif.Calc.Err
