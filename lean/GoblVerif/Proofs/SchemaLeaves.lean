/-
  Helper lemmas for the leaf inclusions of C11: digits, zero padding, and the
  shape of the regular expressions the schema patterns compile to.
  Core Lean only.
-/
import GoblVerif.Model.SchemaLeaves
import GoblVerif.Model.Schema
import GoblVerif.Proofs.Regex

namespace GoblVerif.Leaves
open GoblVerif.Regex RE

def IsDigit (c : Nat) : Prop := 48 ≤ c ∧ c ≤ 57

theorem natDigitsF_digits : ∀ (f n : Nat) (c : Nat), c ∈ natDigitsF f n → IsDigit c := by
  intro f
  induction f with
  | zero =>
    intro n c h
    simp only [natDigitsF, List.mem_singleton] at h
    subst h; unfold IsDigit; omega
  | succ f ih =>
    intro n c h
    unfold natDigitsF at h
    split at h
    · simp only [List.mem_singleton] at h
      subst h; unfold IsDigit; omega
    · simp only [List.mem_append, List.mem_singleton] at h
      rcases h with h | h
      · exact ih _ _ h
      · subst h; unfold IsDigit; omega

theorem natDigitsF_ne_nil : ∀ (f n : Nat), natDigitsF f n ≠ [] := by
  intro f n
  cases f with
  | zero => simp [natDigitsF]
  | succ f =>
    unfold natDigitsF
    split
    · simp
    · simp

theorem natDigits_digits (n c : Nat) (h : c ∈ natDigits n) : IsDigit c := natDigitsF_digits _ _ _ h
theorem natDigits_ne_nil (n : Nat) : natDigits n ≠ [] := natDigitsF_ne_nil _ _

theorem padZero_digits (w : Nat) (ds : List Nat) (h : ∀ c ∈ ds, IsDigit c) : ∀ c ∈ padZero w ds, IsDigit c := by
  intro c hc
  simp only [padZero, List.mem_append, List.mem_replicate] at hc
  rcases hc with ⟨_, rfl⟩ | hc
  · unfold IsDigit; omega
  · exact h c hc

theorem padZero_ne_nil (w : Nat) (ds : List Nat) (h : ds ≠ []) : padZero w ds ≠ [] := by
  simp [padZero, h]

theorem padZero_length (w : Nat) (ds : List Nat) (h : ds.length ≤ w) : (padZero w ds).length = w := by
  simp [padZero]; omega

/-! ### the digit class and runs of digits -/

def digitCls : RE := .cls ⟨[(48, 57)], false⟩

theorem digit_matches {c : Nat} (h : IsDigit c) : Matches digitCls [c] := by
  apply Matches.cls
  obtain ⟨h1, h2⟩ := h
  simp [CClass.mem, h1, h2]

theorem digits_plus {s : List Nat} (hne : s ≠ []) (h : ∀ c ∈ s, IsDigit c) : Matches (RE.plus digitCls) s :=
  matches_plus_of_all hne (fun c hc => digit_matches (h c hc))

theorem single_matches (c : Nat) : Matches (.cls ⟨[(c, c)], false⟩) [c] := by
  apply Matches.cls
  simp [CClass.mem]

/-! ### cbc.NormalizeCode: shape of the result, and the language of the code pattern -/

/-- every separator is followed by an alphanumeric character (or ends the text) -/
def sepOk : List Nat → Bool
  | x :: y :: r => (!isSep x || Leaves.isAlnum y) && sepOk (y :: r)
  | _ => true

def Allowed (l : List Nat) : Prop := ∀ c ∈ l, Leaves.isAlnum c = true ∨ isSep c = true

theorem sep_not_alnum {c : Nat} (h : isSep c = true) : Leaves.isAlnum c = false := by
  simp only [isSep, Bool.or_eq_true, beq_iff_eq] at h
  rcases h with ((((h | h) | h) | h) | h) | h <;> subst h <;> decide

theorem alnum_not_sep {c : Nat} (h : Leaves.isAlnum c = true) : isSep c = false := by
  cases hs : isSep c with
  | false => rfl
  | true => rw [sep_not_alnum hs] at h; cases h

theorem sepOk_tail {x : Nat} {l : List Nat} (h : sepOk (x :: l) = true) : sepOk l = true := by
  cases l with
  | nil => rfl
  | cons y r => simp only [sepOk, Bool.and_eq_true] at h; exact h.2

theorem collapse_false_head (d : Nat) (r : List Nat) : ∃ t, collapse false (d :: r) = d :: t := by
  unfold collapse
  split
  · split
    · split <;> exact ⟨_, rfl⟩
    · exact ⟨_, rfl⟩
  · exact ⟨_, rfl⟩

theorem collapse_true_head (l : List Nat) : ∀ x t, collapse true l = x :: t → Leaves.isAlnum x = true := by
  induction l with
  | nil => intro x t h; simp [collapse] at h
  | cons c r ih =>
    intro x t h
    unfold collapse at h
    split at h
    · rename_i hc
      simp only [List.cons.injEq] at h
      rw [← h.1]; exact hc
    · exact ih x t h

theorem sepOk_cons_of {x : Nat} {l : List Nat} (hl : sepOk l = true)
    (hx : isSep x = true → ∀ y t, l = y :: t → Leaves.isAlnum y = true) : sepOk (x :: l) = true := by
  cases l with
  | nil => rfl
  | cons y r =>
    simp only [sepOk, Bool.and_eq_true, Bool.or_eq_true, Bool.not_eq_true']
    refine ⟨?_, hl⟩
    cases hs : isSep x with
    | false => exact .inl rfl
    | true => exact .inr (hx hs y r rfl)

theorem sepOk_collapse (l : List Nat) : ∀ b, sepOk (collapse b l) = true := by
  induction l with
  | nil => intro b; cases b <;> rfl
  | cons c r ih =>
    intro b
    cases b with
    | true =>
      unfold collapse
      split
      · rename_i hc
        apply sepOk_cons_of (ih false)
        intro hs; rw [alnum_not_sep hc] at hs; cases hs
      · exact ih true
    | false =>
      unfold collapse
      split
      · rename_i hs
        split
        · rename_i d r'
          split
          · rename_i hd
            apply sepOk_cons_of (ih false)
            intro _ y t hy
            obtain ⟨t', ht'⟩ := collapse_false_head d r'
            rw [ht'] at hy
            simp only [List.cons.injEq] at hy
            rw [← hy.1]; exact hd
          · apply sepOk_cons_of (ih true)
            intro _ y t hy
            exact collapse_true_head _ y t hy
        · rfl
      · rename_i hs
        apply sepOk_cons_of (ih false)
        intro h; exact absurd h hs

theorem allowed_dropInvalid (s : List Nat) : Allowed (dropInvalid s) := by
  intro c hc
  simp only [dropInvalid, List.mem_filter, Bool.or_eq_true] at hc
  exact hc.2

theorem collapse_sub (l : List Nat) : ∀ b c, c ∈ collapse b l → c ∈ l := by
  induction l with
  | nil => intro b c h; cases b <;> simp [collapse] at h
  | cons x r ih =>
    intro b c h
    cases b with
    | true =>
      unfold collapse at h
      split at h
      · simp only [List.mem_cons] at h ⊢
        rcases h with h | h
        · exact .inl h
        · exact .inr (ih _ _ h)
      · exact List.mem_cons_of_mem _ (ih _ _ h)
    | false =>
      unfold collapse at h
      split at h
      · split at h
        · split at h <;>
          · simp only [List.mem_cons] at h ⊢
            rcases h with h | h
            · exact .inl h
            · exact .inr (by simpa using ih _ _ h)
        · simpa using h
      · simp only [List.mem_cons] at h ⊢
        rcases h with h | h
        · exact .inl h
        · exact .inr (ih _ _ h)

theorem trimLeft_sub (l : List Nat) : ∀ c, c ∈ trimLeft l → c ∈ l := by
  induction l with
  | nil => intro c h; simp [trimLeft] at h
  | cons x r ih =>
    intro c h
    unfold trimLeft at h
    split at h
    · exact List.mem_cons_of_mem _ (ih c h)
    · exact h

theorem sepOk_trimLeft (l : List Nat) (h : sepOk l = true) : sepOk (trimLeft l) = true := by
  induction l with
  | nil => rfl
  | cons x r ih =>
    unfold trimLeft
    split
    · exact ih (sepOk_tail h)
    · exact h

theorem trimRight_sub (l : List Nat) : ∀ c, c ∈ trimRight l → c ∈ l := by
  induction l with
  | nil => intro c h; simp [trimRight] at h
  | cons x r ih =>
    intro c h
    unfold trimRight at h
    split at h
    · split at h
      · simp at h
      · simp only [List.mem_singleton] at h; subst h; exact List.mem_cons_self ..
    · rename_i hne
      simp only [List.mem_cons] at h ⊢
      rcases h with h | h
      · exact .inl h
      · exact .inr (ih c h)

/-- `trimRight r` is a prefix of `r`: its head is the head of `r` -/
theorem trimRight_head (r : List Nat) : ∀ y t, trimRight r = y :: t → ∃ t', r = y :: t' := by
  intro y t h
  cases r with
  | nil => simp [trimRight] at h
  | cons x r' =>
    unfold trimRight at h
    split at h
    · split at h
      · cases h
      · simp only [List.cons.injEq] at h; exact ⟨r', by rw [h.1]⟩
    · simp only [List.cons.injEq] at h; exact ⟨r', by rw [h.1]⟩

theorem sepOk_trimRight (l : List Nat) (h : sepOk l = true) : sepOk (trimRight l) = true := by
  induction l with
  | nil => rfl
  | cons x r ih =>
    have hr := ih (sepOk_tail h)
    unfold trimRight
    split
    · split <;> rfl
    · apply sepOk_cons_of hr
      intro hs y t hy
      obtain ⟨t', ht'⟩ := trimRight_head r y t hy
      subst ht'
      simp only [sepOk, Bool.and_eq_true, Bool.or_eq_true, Bool.not_eq_true'] at h
      rcases h.1 with h1 | h1
      · rw [hs] at h1; cases h1
      · exact h1

theorem normalizeCode_allowed (s : List Nat) : Allowed (normalizeCode s) := by
  intro c hc
  unfold normalizeCode trimSpace at hc
  exact allowed_dropInvalid s c (collapse_sub _ _ _ (trimLeft_sub _ _ (trimRight_sub _ _ hc)))

theorem normalizeCode_sepOk (s : List Nat) : sepOk (normalizeCode s) = true := by
  unfold normalizeCode trimSpace
  exact sepOk_trimRight _ (sepOk_trimLeft _ (sepOk_collapse _ _))


/- `alnumCls`, `sepCls`, `blockRE`, `codeRE` (what the `cbc.Code` pattern compiles to) are defined in
   Model/SchemaLeaves.lean, where the validator models use them. -/

theorem alnum_matches {c : Nat} (h : Leaves.isAlnum c = true) : Matches alnumCls [c] := by
  apply Matches.cls
  simp only [Leaves.isAlnum, Regex.isAlnum, Bool.or_eq_true, Bool.and_eq_true, decide_eq_true_eq] at h
  simp [CClass.mem]
  omega

theorem sep_matches {c : Nat} (h : isSep c = true) : Matches sepCls [c] := by
  apply Matches.cls
  simp only [isSep, Bool.or_eq_true, beq_iff_eq] at h
  simp [CClass.mem]
  omega

theorem blocks (n : Nat) : ∀ l : List Nat, l.length ≤ n → Allowed l → sepOk l = true →
    (∀ y t, l = y :: t → Leaves.isAlnum y = true) → l ≠ [] →
    (∀ z, l.getLast? = some z → Leaves.isAlnum z = true) →
    ∃ run rest, l = run ++ rest ∧ run ≠ [] ∧ (∀ c ∈ run, Leaves.isAlnum c = true) ∧ Matches (.star blockRE) rest := by
  induction n with
  | zero =>
    intro l hl _ _ _ hne _
    cases l with
    | nil => exact absurd rfl hne
    | cons _ _ => simp at hl
  | succ n ih =>
    intro l hl hal hso hhead hne hlast
    cases l with
    | nil => exact absurd rfl hne
    | cons c t =>
      have hc : Leaves.isAlnum c = true := hhead c t rfl
      cases t with
      | nil => exact ⟨[c], [], rfl, by simp, by simpa using hc, .starNil⟩
      | cons d t' =>
        have hlen : (d :: t').length ≤ n := by simp at hl ⊢; omega
        have hal' : Allowed (d :: t') := fun x hx => hal x (List.mem_cons_of_mem _ hx)
        have hso' : sepOk (d :: t') = true := sepOk_tail hso
        have hlast' : ∀ z, (d :: t').getLast? = some z → Leaves.isAlnum z = true := by
          intro z hz; apply hlast z; rw [List.getLast?_cons_cons]; exact hz
        cases hd : Leaves.isAlnum d with
        | true =>
          obtain ⟨run, rest, e, _, hrun, hm⟩ := ih (d :: t') hlen hal' hso'
            (by intro y t hy; simp only [List.cons.injEq] at hy; rw [← hy.1]; exact hd) (by simp) hlast'
          refine ⟨c :: run, rest, by rw [e]; rfl, by simp, ?_, hm⟩
          intro x hx
          simp only [List.mem_cons] at hx
          rcases hx with rfl | hx
          · exact hc
          · exact hrun x hx
        | false =>
          have hsd : isSep d = true := by
            rcases hal d (by simp) with h | h
            · rw [hd] at h; cases h
            · exact h
          cases t' with
          | nil =>
            have := hlast d (by simp)
            rw [hd] at this; cases this
          | cons e t'' =>
            have he : Leaves.isAlnum e = true := by
              simp only [sepOk, Bool.and_eq_true, Bool.or_eq_true, Bool.not_eq_true'] at hso'
              rcases hso'.1 with h | h
              · rw [hsd] at h; cases h
              · exact h
            have hlen2 : (e :: t'').length ≤ n := by simp at hlen ⊢; omega
            obtain ⟨run, rest, e', hrne, hrun, hm⟩ := ih (e :: t'') hlen2
              (fun x hx => hal' x (List.mem_cons_of_mem _ hx)) (sepOk_tail hso')
              (by intro y t hy; simp only [List.cons.injEq] at hy; rw [← hy.1]; exact he) (by simp)
              (by intro z hz; apply hlast' z; rw [List.getLast?_cons_cons]; exact hz)
            have hblock : Matches blockRE (d :: run) := by
              have h1 : Matches (RE.opt sepCls) [d] := matches_opt_some (sep_matches hsd)
              have h2 : Matches (RE.plus alnumCls) run :=
                matches_plus_of_all hrne (fun x hx => alnum_matches (hrun x hx))
              exact Matches.cat h1 h2
            refine ⟨[c], d :: e :: t'', rfl, by simp, by simpa using hc, ?_⟩
            rw [e']
            have := Matches.starCons hblock hm
            simpa using this

/-- a text of allowed characters in which every separator is followed by an alphanumeric, and which
    starts and ends with an alphanumeric, is in the language of the `cbc.Code` pattern -/
theorem code_shape_matches (l : List Nat) (hal : Allowed l) (hso : sepOk l = true)
    (hhead : ∀ y t, l = y :: t → Leaves.isAlnum y = true) (hne : l ≠ [])
    (hlast : ∀ z, l.getLast? = some z → Leaves.isAlnum z = true) : Matches codeRE l := by
  obtain ⟨run, rest, e, hrne, hrun, hm⟩ := blocks l.length l (Nat.le_refl _) hal hso hhead hne hlast
  rw [e]
  exact Matches.cat (matches_plus_of_all hrne (fun x hx => alnum_matches (hrun x hx))) hm


/-! ### fixed-width decimal fields (`%02d`, `%04d`) -/

theorem pad2 (n : Nat) (h : n < 100) : padZero 2 (natDigits n) = [48 + n / 10, 48 + n % 10] := by
  unfold natDigits
  by_cases h10 : n < 10
  · have : natDigitsF n n = [48 + n] := by
      cases n with
      | zero => rfl
      | succ k => simp [natDigitsF, h10]
    rw [this]
    have h0 : n / 10 = 0 := by omega
    have h1 : n % 10 = n := by omega
    simp [padZero, h0, h1]
  · have : natDigitsF n n = [48 + n / 10, 48 + n % 10] := by
      cases n with
      | zero => omega
      | succ k =>
        have hk : ¬ (k + 1 < 10) := h10
        have hq : (k + 1) / 10 < 10 := by omega
        simp only [natDigitsF, hk, if_false]
        cases k with
        | zero => omega
        | succ j => simp [natDigitsF, hq]
    rw [this]
    simp [padZero]

theorem natDigitsF_small (f n : Nat) (h : n < 10) : natDigitsF f n = [48 + n] := by
  cases f with
  | zero => simp [natDigitsF]; omega
  | succ f => simp [natDigitsF, h]

theorem natDigitsF_step (f n : Nat) (h : ¬ n < 10) :
    natDigitsF (f + 1) n = natDigitsF f (n / 10) ++ [48 + n % 10] := by
  simp [natDigitsF, h]

theorem pad4 (n : Nat) (h : n < 10000) :
    padZero 4 (natDigits n) = [48 + n / 1000, 48 + n / 100 % 10, 48 + n / 10 % 10, 48 + n % 10] := by
  unfold natDigits
  by_cases h1 : n < 10
  · rw [natDigitsF_small _ _ h1]
    have a : n / 1000 = 0 := by omega
    have b : n / 100 % 10 = 0 := by omega
    have c : n / 10 % 10 = 0 := by omega
    have d : n % 10 = n := by omega
    simp [padZero, a, b, c, d]
  · obtain ⟨f1, rfl⟩ : ∃ f, n = f + 1 := ⟨n - 1, by omega⟩
    rw [natDigitsF_step _ _ h1]
    by_cases h2 : (f1 + 1) / 10 < 10
    · rw [natDigitsF_small _ _ h2]
      have a : (f1 + 1) / 1000 = 0 := by omega
      have b : (f1 + 1) / 100 % 10 = 0 := by omega
      have c : (f1 + 1) / 10 % 10 = (f1 + 1) / 10 := by omega
      simp [padZero, a, b, c]
    · obtain ⟨f2, rfl⟩ : ∃ f, f1 = f + 1 := ⟨f1 - 1, by omega⟩
      rw [natDigitsF_step _ _ h2]
      by_cases h3 : (f2 + 1 + 1) / 10 / 10 < 10
      · rw [natDigitsF_small _ _ h3]
        have a : (f2 + 1 + 1) / 1000 = 0 := by omega
        have b : (f2 + 1 + 1) / 100 % 10 = (f2 + 1 + 1) / 10 / 10 := by omega
        simp [padZero, a, b]
      · obtain ⟨f3, rfl⟩ : ∃ f, f2 = f + 1 := ⟨f2 - 1, by omega⟩
        rw [natDigitsF_step _ _ h3]
        have h4 : (f3 + 1 + 1 + 1) / 10 / 10 / 10 < 10 := by omega
        rw [natDigitsF_small _ _ h4]
        have a : (f3 + 1 + 1 + 1) / 1000 = (f3 + 1 + 1 + 1) / 10 / 10 / 10 := by omega
        have b : (f3 + 1 + 1 + 1) / 100 % 10 = (f3 + 1 + 1 + 1) / 10 / 10 % 10 := by omega
        simp [padZero, a, b]

/-! ### UUID text -/

theorem isHex_hexDigit (n : Nat) (h : n < 16) : Schema.isHex (hexDigit n) = true := by
  unfold hexDigit Schema.isHex Schema.isDigit
  split <;> simp <;> omega

@[simp] theorem isHex_hi (b : Nat) : Schema.isHex (hexDigit (b / 16 % 16)) = true :=
  isHex_hexDigit _ (Nat.mod_lt _ (by decide))
@[simp] theorem isHex_lo (b : Nat) : Schema.isHex (hexDigit (b % 16)) = true :=
  isHex_hexDigit _ (Nat.mod_lt _ (by decide))

end GoblVerif.Leaves
