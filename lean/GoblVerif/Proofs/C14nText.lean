/-
  Helper lemmas for C07: the canonical text of a content is a delimited
  prefix code (mutual structural induction on two values), hence injective.
-/
import GoblVerif.Proofs.C14nAtoms

namespace GoblVerif.Proofs.C14n
open GoblVerif GoblVerif.Spec.C07

theorem text_head (v : J) (hw : v.wf = true) : ∃ h t, text v = h :: t ∧ h ≠ 0x5D ∧ h ≠ 0x7D ∧ h ≠ 0x2C := by
  cases v with
  | atom a =>
    obtain ⟨h, t, e, hs⟩ := atomText_head a (by simpa [J.wf] using hw)
    exact ⟨h, t, by simp [text, e], hs.2.2.1, hs.2.2.2.1, hs.2.2.2.2.1⟩
  | arr xs => exact ⟨0x5B, elems true xs ++ [0x5D], by simp [text], by decide, by decide, by decide⟩
  | obj kvs => exact ⟨0x7B, members true kvs ++ [0x7D], by simp [text], by decide, by decide, by decide⟩

theorem delim_elems (xs : JL) (r : Chars) : delim (elems false xs ++ 0x5D :: r) = true := by
  cases xs <;> simp [elems, sep, delim]

theorem delim_members (xs : KL) (r : Chars) : delim (members false xs ++ 0x7D :: r) = true := by
  cases xs <;> simp [members, sep, delim]

mutual
theorem inj_J : ∀ (v w : J) (r₁ r₂ : Chars), v.wf = true → w.wf = true → delim r₁ = true → delim r₂ = true →
    text v ++ r₁ = text w ++ r₂ → v = w ∧ r₁ = r₂
  | .atom a, .atom b, r₁, r₂, hv, hw, h₁, h₂, h => by
    have := atomText_prefix_free a b r₁ r₂ (by simpa [J.wf] using hv) (by simpa [J.wf] using hw) h₁ h₂
      (by simpa [text] using h)
    exact ⟨by rw [this.1], this.2⟩
  | .atom a, .arr ys, r₁, r₂, hv, hw, h₁, h₂, h => by
    obtain ⟨c, t, e, hs⟩ := atomText_head a (by simpa [J.wf] using hv)
    simp only [text, e, List.cons_append, List.cons.injEq] at h
    exact absurd h.1 hs.1
  | .atom a, .obj ys, r₁, r₂, hv, hw, h₁, h₂, h => by
    obtain ⟨c, t, e, hs⟩ := atomText_head a (by simpa [J.wf] using hv)
    simp only [text, e, List.cons_append, List.cons.injEq] at h
    exact absurd h.1 hs.2.1
  | .arr xs, .atom b, r₁, r₂, hv, hw, h₁, h₂, h => by
    obtain ⟨c, t, e, hs⟩ := atomText_head b (by simpa [J.wf] using hw)
    simp only [text, e, List.cons_append, List.cons.injEq] at h
    exact absurd h.1.symm hs.1
  | .obj xs, .atom b, r₁, r₂, hv, hw, h₁, h₂, h => by
    obtain ⟨c, t, e, hs⟩ := atomText_head b (by simpa [J.wf] using hw)
    simp only [text, e, List.cons_append, List.cons.injEq] at h
    exact absurd h.1.symm hs.2.1
  | .arr xs, .obj ys, r₁, r₂, hv, hw, h₁, h₂, h => by
    simp [text] at h
  | .obj xs, .arr ys, r₁, r₂, hv, hw, h₁, h₂, h => by
    simp [text] at h
  | .arr xs, .arr ys, r₁, r₂, hv, hw, h₁, h₂, h => by
    simp only [text, List.cons_append, List.cons.injEq, true_and, List.append_assoc, List.nil_append] at h
    have := inj_L true xs ys r₁ r₂ (by simpa [J.wf] using hv) (by simpa [J.wf] using hw) h
    exact ⟨by rw [this.1], this.2⟩
  | .obj xs, .obj ys, r₁, r₂, hv, hw, h₁, h₂, h => by
    simp only [text, List.cons_append, List.cons.injEq, true_and, List.append_assoc, List.nil_append] at h
    have := inj_K true xs ys r₁ r₂ (by simpa [J.wf] using hv) (by simpa [J.wf] using hw) h
    exact ⟨by rw [this.1], this.2⟩
theorem inj_L : ∀ (f : Bool) (xs ys : JL) (r₁ r₂ : Chars), xs.wf = true → ys.wf = true →
    elems f xs ++ 0x5D :: r₁ = elems f ys ++ 0x5D :: r₂ → xs = ys ∧ r₁ = r₂
  | f, .nil, .nil, r₁, r₂, _, _, h => by simpa [elems] using h
  | f, .nil, .cons y ys, r₁, r₂, _, hy, h => by
    simp only [JL.wf, Bool.and_eq_true] at hy
    obtain ⟨c, t, e, hs⟩ := text_head y hy.1
    cases f <;> simp [elems, sep, e] at h
    exact absurd h.1.symm hs.1
  | f, .cons x xs, .nil, r₁, r₂, hx, _, h => by
    simp only [JL.wf, Bool.and_eq_true] at hx
    obtain ⟨c, t, e, hs⟩ := text_head x hx.1
    cases f <;> simp [elems, sep, e] at h
    exact absurd h.1 hs.1
  | f, .cons x xs, .cons y ys, r₁, r₂, hx, hy, h => by
    simp only [JL.wf, Bool.and_eq_true] at hx hy
    have h' : text x ++ (elems false xs ++ 0x5D :: r₁) = text y ++ (elems false ys ++ 0x5D :: r₂) := by
      cases f <;> simpa [elems, sep] using h
    obtain ⟨e1, e2⟩ := inj_J x y _ _ hx.1 hy.1 (delim_elems xs r₁) (delim_elems ys r₂) h'
    obtain ⟨e3, e4⟩ := inj_L false xs ys r₁ r₂ hx.2 hy.2 e2
    exact ⟨by rw [e1, e3], e4⟩
theorem inj_K : ∀ (f : Bool) (xs ys : KL) (r₁ r₂ : Chars), xs.wf = true → ys.wf = true →
    members f xs ++ 0x7D :: r₁ = members f ys ++ 0x7D :: r₂ → xs = ys ∧ r₁ = r₂
  | f, .nil, .nil, r₁, r₂, _, _, h => by simpa [members] using h
  | f, .nil, .cons k v ys, r₁, r₂, _, _, h => by
    cases f <;> simp [members, sep, strText] at h
  | f, .cons k v xs, .nil, r₁, r₂, _, _, h => by
    cases f <;> simp [members, sep, strText] at h
  | f, .cons k v xs, .cons k' v' ys, r₁, r₂, hx, hy, h => by
    simp only [KL.wf, Bool.and_eq_true] at hx hy
    have h' : strText k ++ (0x3A :: (text v ++ (members false xs ++ 0x7D :: r₁))) =
        strText k' ++ (0x3A :: (text v' ++ (members false ys ++ 0x7D :: r₂))) := by
      cases f <;> simpa [members, sep] using h
    obtain ⟨ek, h''⟩ := strText_prefix_free k k' _ _ h'
    simp only [List.cons.injEq, true_and] at h''
    obtain ⟨e1, e2⟩ := inj_J v v' _ _ hx.1 hy.1 (delim_members xs r₁) (delim_members ys r₂) h''
    obtain ⟨e3, e4⟩ := inj_K false xs ys r₁ r₂ hx.2 hy.2 e2
    exact ⟨by rw [ek, e1, e3], e4⟩
end

theorem text_injective (v w : J) (hv : v.wf = true) (hw : w.wf = true) (h : text v = text w) : v = w :=
  (inj_J v w [] [] hv hw rfl rfl (by simpa using h)).1

end GoblVerif.Proofs.C14n
