/-
  Helper lemmas for C07: a leaf of canonical text can be read back
  (`decodeAtom (atomText a ++ r) = some (a, r)`), hence leaf texts are a
  delimited prefix code.
-/
import GoblVerif.Proofs.C14nDigits

namespace GoblVerif.Proofs.C14n
open GoblVerif GoblVerif.Spec.C07

/-! ## strings -/

theorem hexVal_upperHex (n : Nat) (h : n < 16) : hexVal (upperHex n) = n := by
  unfold hexVal upperHex; split <;> split <;> omega

theorem unescS_lit (c : Nat) (r : Chars) (h1 : c ≠ 0x22) (h2 : c ≠ 0x5C) :
    unescS (c :: r) = (unescS r).map (fun p => (c :: p.1, p.2)) := by
  rw [unescS.eq_def]
  split <;> simp_all

theorem unescS_escChar (c : Nat) (r : Chars) :
    unescS (escChar c ++ r) = (unescS r).map (fun p => (c :: p.1, p.2)) := by
  unfold escChar
  split
  · subst_vars; simp [unescS]
  split
  · subst_vars; simp [unescS]
  split
  · subst_vars; simp [unescS]
  split
  · subst_vars; simp [unescS]
  split
  · subst_vars; simp [unescS]
  split
  · subst_vars; simp [unescS]
  split
  · subst_vars; simp [unescS]
  split
  · rename_i hlt
    simp only [List.cons_append, List.nil_append, unescS]
    rw [hexVal_upperHex _ (by omega), hexVal_upperHex _ (by omega)]
    have : c / 16 * 16 + c % 16 = c := by omega
    rw [this]
  · rename_i h1 h2 _ _ _ _ _ _
    simp only [List.cons_append, List.nil_append]
    exact unescS_lit c r h1 h2

theorem unescS_escS : ∀ (s : Str) (r : Chars), unescS (escS s ++ 0x22 :: r) = some (s, r)
  | [], r => by simp [escS, unescS]
  | c :: cs, r => by
    have ih := unescS_escS cs r
    simp only [escS, List.flatMap_cons, List.append_assoc] at ih ⊢
    rw [unescS_escChar, ih]; rfl

/-- the first character of an escaped character is never a bare quote -/
theorem escChar_head (c : Nat) : ∃ h t, escChar c = h :: t ∧ h ≠ 0x22 := by
  unfold escChar
  repeat' split
  all_goals first
    | exact ⟨_, _, rfl, by decide⟩
    | exact ⟨_, _, rfl, by assumption⟩


/-! ## numbers -/

theorem stripMinus_of_ne (c : Nat) (t : Chars) (h : c ≠ 0x2D) : stripMinus (c :: t) = (false, c :: t) := by
  simp [stripMinus, h]

theorem stripMinus_minus (t : Chars) : stripMinus (0x2D :: t) = (true, t) := by
  simp [stripMinus]

theorem stripMinus_digits (n : Nat) (r : Chars) : stripMinus (natDigits n ++ r) = (false, natDigits n ++ r) := by
  obtain ⟨h, t, e, hd, _⟩ := natDigits_cons n
  rw [e]; simp only [List.cons_append]
  apply stripMinus_of_ne
  intro hh; subst hh; simp [isDigit] at hd

theorem span_natDigits (n : Nat) (r : Chars) (hr : stops r) : spanDigits (natDigits n ++ r) = (natDigits n, r) :=
  spanDigits_append _ _ (natDigits_spec n).dig hr

theorem natDigits_ne_nil (n : Nat) : (natDigits n).isEmpty = false := by
  obtain ⟨h, t, e, _, _⟩ := natDigits_cons n; rw [e]; rfl

theorem not_point_of_delim {r : Chars} (h : delim r = true) : (r.head? == some 0x2E) = false := by
  cases r with
  | nil => rfl
  | cons c t =>
    simp [delim] at h
    rcases h with (h | h) | h <;> subst h <;> simp

theorem decodeNumber_nat (n : Nat) (r : Chars) (hr : delim r = true) :
    decodeNumber (natDigits n ++ r) = some (.int n, r) := by
  unfold decodeNumber
  simp [stripMinus_digits, span_natDigits n r (stops_of_delim hr), natDigits_ne_nil,
    (natDigits_spec n).val, not_point_of_delim hr]

theorem decodeNumber_neg (n : Nat) (r : Chars) (hr : delim r = true) :
    decodeNumber (0x2D :: (natDigits n ++ r)) = some (.int (-(n : Int)), r) := by
  unfold decodeNumber
  simp [stripMinus_minus, span_natDigits n r (stops_of_delim hr), natDigits_ne_nil,
    (natDigits_spec n).val, not_point_of_delim hr]

theorem decodeNumber_formatInt (i : Int) (r : Chars) (hr : delim r = true) :
    decodeNumber (formatInt i ++ r) = some (.int i, r) := by
  unfold formatInt
  split
  · rename_i h
    rw [List.cons_append, decodeNumber_neg _ _ hr]
    have : -(i.natAbs : Int) = i := by omega
    rw [this]
  · rename_i h
    rw [decodeNumber_nat _ _ hr]
    have : (i.natAbs : Int) = i := by omega
    rw [this]

/-- the exponent part read back -/
theorem exp_roundtrip (e : Int) (r : Chars) (hr : delim r = true) :
    (stripMinus (formatInt e ++ r)).1 = decide (e < 0) ∧
    spanDigits (stripMinus (formatInt e ++ r)).2 = (natDigits e.natAbs, r) := by
  unfold formatInt
  split
  · rename_i h
    simp [stripMinus_minus, span_natDigits _ r (stops_of_delim hr), h]
  · rename_i h
    simp [stripMinus_digits, span_natDigits _ r (stops_of_delim hr), h]

theorem fracText_digits (rest : List Nat) (h : rest.all (· < 10) = true) : ∀ c ∈ fracText rest, isDigit c = true := by
  unfold fracText
  split
  · intro c hc; simp at hc; subst hc; decide
  · intro c hc
    simp only [List.mem_map] at hc
    obtain ⟨x, hx, e⟩ := hc
    have := List.all_eq_true.mp h x hx
    simp at this
    subst e; simp [isDigit]; omega

theorem map_sub_add (l : List Nat) : (l.map (48 + ·)).map (· - 48) = l := by
  induction l with
  | nil => rfl
  | cons a t ih => simp [ih]

theorem fracText_back (rest : List Nat) (hl : rest ≠ [] → rest.getLast? ≠ some 0) :
    ((if fracText rest == [48] then [] else fracText rest).map (· - 48)) = rest := by
  unfold fracText
  cases rest with
  | nil => simp
  | cons a t =>
    have hl := hl (by simp)
    simp only [List.isEmpty_cons, Bool.false_eq_true, if_false]
    have hne : ((a :: t).map (48 + ·) == [48]) = false := by
      cases t with
      | nil =>
        simp at hl
        simp; omega
      | cons b u => simp
    rw [hne]; simp only [Bool.false_eq_true, if_false]
    exact map_sub_add _

theorem wfDigits_cons {d : Nat} {rest : List Nat} (h : wfDigits (d :: rest) = true) :
    d < 10 ∧ rest.all (· < 10) = true ∧ (rest ≠ [] → rest.getLast? ≠ some 0) := by
  cases rest with
  | nil => simp [wfDigits] at h; simp [h]
  | cons a t =>
    simp only [wfDigits, Bool.and_eq_true, decide_eq_true_eq, bne_iff_ne] at h
    exact ⟨h.1.1, h.1.2, fun _ => h.2⟩

theorem decodeNumber_flt_body (d : Nat) (rest : List Nat) (e : Int) (r : Chars)
    (hw : wfDigits (d :: rest) = true) (hr : delim r = true) (sgn : Bool) (pre : Chars)
    (hs : stripMinus (pre ++ (48 + d) :: 0x2E :: (fracText rest ++ 0x45 :: (formatInt e ++ r))) =
      (sgn, (48 + d) :: 0x2E :: (fracText rest ++ 0x45 :: (formatInt e ++ r)))) :
    decodeNumber (pre ++ (48 + d) :: 0x2E :: (fracText rest ++ 0x45 :: (formatInt e ++ r))) =
      some (.flt sgn (d :: rest) e, r) := by
  obtain ⟨hd, hall, hlast⟩ := wfDigits_cons hw
  have h1 : spanDigits ((48 + d) :: 0x2E :: (fracText rest ++ 0x45 :: (formatInt e ++ r))) =
      ([48 + d], 0x2E :: (fracText rest ++ 0x45 :: (formatInt e ++ r))) := by
    have := spanDigits_append [48 + d] (0x2E :: (fracText rest ++ 0x45 :: (formatInt e ++ r)))
      (by intro c hc; simp at hc; subst hc; simp [isDigit]; omega) (stops_cons (by decide))
    simpa using this
  have h2 : spanDigits (fracText rest ++ 0x45 :: (formatInt e ++ r)) = (fracText rest, 0x45 :: (formatInt e ++ r)) :=
    spanDigits_append _ _ (fracText_digits rest hall) (stops_cons (by decide))
  obtain ⟨h3, h4⟩ := exp_roundtrip e r hr
  have hfe : (fracText rest).isEmpty = false := by
    unfold fracText; split <;> simp_all
  unfold decodeNumber
  simp only [hs, h1, h2, h3, h4, natDigits_ne_nil, hfe, (natDigits_spec _).val, List.head?_cons, List.tail_cons]
  simp only [List.isEmpty_cons, Bool.false_eq_true, if_false, List.length_cons, List.length_nil,
    Bool.or_self, beq_self_eq_true, if_true]
  have hds : ([48 + d] ++ if fracText rest == [48] then [] else fracText rest).map (· - 48) = d :: rest := by
    rw [List.map_append, fracText_back rest hlast]; simp
  rw [hds]
  by_cases he : e < 0
  · simp only [he, decide_true, if_true]
    have : -(e.natAbs : Int) = e := by omega
    rw [this]; simp
  · simp only [he, decide_false, Bool.false_eq_true, if_false]
    have : (e.natAbs : Int) = e := by omega
    rw [this]; simp

theorem decodeNumber_fltText (neg : Bool) (ds : List Nat) (e : Int) (r : Chars)
    (hw : wfDigits ds = true) (hr : delim r = true) :
    decodeNumber (fltText neg ds e ++ r) = some (.flt neg ds e, r) := by
  cases ds with
  | nil => simp [wfDigits] at hw
  | cons d rest =>
    obtain ⟨hd, _, _⟩ := wfDigits_cons hw
    cases neg with
    | true =>
      have := decodeNumber_flt_body d rest e r hw hr true [0x2D] (by simp [stripMinus_minus])
      simpa [fltText] using this
    | false =>
      have := decodeNumber_flt_body d rest e r hw hr false []
        (by simp only [List.nil_append]; exact stripMinus_of_ne _ _ (by omega))
      simpa [fltText] using this


/-! ## leaves -/

/-- first character of a number -/
def numStart (h : Nat) : Prop := h = 0x2D ∨ isDigit h = true

theorem formatInt_head (i : Int) : ∃ h t, formatInt i = h :: t ∧ numStart h := by
  unfold formatInt
  split
  · exact ⟨_, _, rfl, Or.inl rfl⟩
  · obtain ⟨h, t, e, hd, _⟩ := natDigits_cons i.natAbs
    exact ⟨h, t, e, Or.inr hd⟩

theorem fltText_head (neg : Bool) (ds : List Nat) (e : Int) (hw : wfDigits ds = true) :
    ∃ h t, fltText neg ds e = h :: t ∧ numStart h := by
  cases ds with
  | nil => simp [wfDigits] at hw
  | cons d rest =>
    obtain ⟨hd, _, _⟩ := wfDigits_cons hw
    cases neg with
    | true => exact ⟨_, _, rfl, Or.inl rfl⟩
    | false =>
      refine ⟨48 + d, 0x2E :: (fracText rest ++ 0x45 :: formatInt e), by simp [fltText], Or.inr ?_⟩
      simp [isDigit]; omega

theorem decodeAtom_number (h : Nat) (t : Chars) (hn : numStart h) : decodeAtom (h :: t) = decodeNumber (h :: t) := by
  rw [decodeAtom.eq_def]
  rcases hn with hn | hn
  · subst hn; simp
  · split <;> first | rfl | (simp_all [isDigit])

/-- a leaf of canonical text can be read back -/
theorem decodeAtom_atomText (a : Atom) (r : Chars) (hw : a.wf = true) (hr : delim r = true) :
    decodeAtom (atomText a ++ r) = some (a, r) := by
  cases a with
  | null => simp [atomText, decodeAtom]
  | bool b => cases b <;> simp [atomText, decodeAtom]
  | int i =>
    obtain ⟨h, t, e, hn⟩ := formatInt_head i
    have := decodeNumber_formatInt i r hr
    simp only [atomText]
    rw [e] at this ⊢
    rw [List.cons_append, decodeAtom_number h _ hn]; exact this
  | flt neg ds e =>
    obtain ⟨h, t, e', hn⟩ := fltText_head neg ds e hw
    have := decodeNumber_fltText neg ds e r hw hr
    simp only [atomText]
    rw [e'] at this ⊢
    rw [List.cons_append, decodeAtom_number h _ hn]; exact this
  | str s =>
    simp only [atomText, strText, List.cons_append, List.append_assoc, List.nil_append, decodeAtom]
    have := unescS_escS s r
    rw [this]; rfl

/-- leaf texts are a prefix code once delimited -/
theorem atomText_prefix_free (a b : Atom) (r₁ r₂ : Chars) (ha : a.wf = true) (hb : b.wf = true)
    (h₁ : delim r₁ = true) (h₂ : delim r₂ = true) (h : atomText a ++ r₁ = atomText b ++ r₂) :
    a = b ∧ r₁ = r₂ := by
  have e1 := decodeAtom_atomText a r₁ ha h₁
  have e2 := decodeAtom_atomText b r₂ hb h₂
  rw [h, e2] at e1
  simp at e1
  exact ⟨e1.1.symm, e1.2.symm⟩

/-- strings need no delimiter -/
theorem strText_prefix_free (s t : Str) (r₁ r₂ : Chars) (h : strText s ++ r₁ = strText t ++ r₂) :
    s = t ∧ r₁ = r₂ := by
  simp only [strText, List.cons_append, List.append_assoc, List.nil_append, List.cons.injEq, true_and] at h
  have e1 := unescS_escS s r₁
  have e2 := unescS_escS t r₂
  rw [h, e2] at e1
  simp at e1
  exact ⟨e1.1.symm, e1.2.symm⟩

/-- what a leaf can start with: never a bracket, brace, comma or colon -/
def atomStart (h : Nat) : Prop :=
  h ≠ 0x5B ∧ h ≠ 0x7B ∧ h ≠ 0x5D ∧ h ≠ 0x7D ∧ h ≠ 0x2C ∧ h ≠ 0x3A

theorem numStart_atomStart {h : Nat} (hn : numStart h) : atomStart h := by
  rcases hn with hn | hn
  · subst hn; unfold atomStart; decide
  · simp [isDigit] at hn; unfold atomStart; omega

theorem atomText_head (a : Atom) (hw : a.wf = true) : ∃ h t, atomText a = h :: t ∧ atomStart h := by
  cases a with
  | null => exact ⟨_, _, rfl, by unfold atomStart; decide⟩
  | bool b => cases b <;> exact ⟨_, _, rfl, by unfold atomStart; decide⟩
  | int i =>
    obtain ⟨h, t, e, hn⟩ := formatInt_head i
    exact ⟨h, t, e, numStart_atomStart hn⟩
  | flt neg ds e =>
    obtain ⟨h, t, e', hn⟩ := fltText_head neg ds e hw
    exact ⟨h, t, e', numStart_atomStart hn⟩
  | str s => exact ⟨_, _, rfl, by unfold atomStart; decide⟩

end GoblVerif.Proofs.C14n
