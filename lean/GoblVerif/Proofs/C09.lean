/-
  Helper lemmas for C09 that speak about the specification's items (core Lean only).
-/
import GoblVerif.Spec.C09

namespace GoblVerif
open GoblVerif.Spec.C09

theorem mem_digItems (i : Item) (d : Option Digest) :
    i ∈ digItems d ↔ ∃ x, d = some x ∧ i = .dig x.alg x.val := by
  cases d <;> simp [digItems]

/-- `alg;val` determines `alg` and `val` when the algorithm names contain no `;` -/
theorem digest_str_eq_iff (d d2 : Digest) (h1 : ';' ∉ d.alg.toList) (h2 : ';' ∉ d2.alg.toList) :
    d.str = d2.str ↔ (d.alg = d2.alg ∧ d.val = d2.val) := by
  constructor
  · intro h
    simp only [Digest.str] at h
    rw [String.ext_iff] at h
    simp only [String.toList_append] at h
    rw [List.append_assoc, List.append_assoc] at h
    have key : ∀ (a b x y : List Char), ';' ∉ a → ';' ∉ b → a ++ (";".toList ++ x) = b ++ (";".toList ++ y) →
        a = b ∧ x = y := by
      intro a
      induction a with
      | nil =>
        intro b x y _ hb h
        cases b with
        | nil => simpa using h
        | cons c cs =>
          exfalso
          have : (";".toList ++ x).head? = (c :: cs ++ (";".toList ++ y)).head? := by simpa using congrArg List.head? h
          simp at this
          exact hb (this ▸ List.mem_cons_self)
      | cons c cs ih =>
        intro b x y ha hb h
        cases b with
        | nil =>
          exfalso
          have : (c :: cs ++ (";".toList ++ x)).head? = (";".toList ++ y).head? := by simpa using congrArg List.head? h
          simp at this
          exact ha (this ▸ List.mem_cons_self)
        | cons c' cs' =>
          simp only [List.cons_append, List.cons.injEq] at h
          obtain ⟨hc, ht⟩ := h
          have := ih cs' x y (fun hm => ha (List.mem_cons_of_mem _ hm)) (fun hm => hb (List.mem_cons_of_mem _ hm)) ht
          exact ⟨by rw [hc, this.1], this.2⟩
    have := key _ _ _ _ h1 h2 h
    exact ⟨String.ext_iff.mpr this.1, String.ext_iff.mpr this.2⟩
  · rintro ⟨ha, hv⟩
    simp [Digest.str, ha, hv]

end GoblVerif
