/-
  Correctness of the derivative matcher of Model/Regex.lean against the usual
  inductive semantics of regular expressions:

      matchL r s = true ↔ Matches r s

  (core Lean only; no Mathlib needed).
-/
import GoblVerif.Model.Regex

namespace GoblVerif.Regex
open RE

/-- the language of a regular expression -/
inductive Matches : RE → List Nat → Prop
  | eps : Matches .eps []
  | cls {k : CClass} {c : Nat} : k.mem c = true → Matches (.cls k) [c]
  | cat {a b : RE} {s t : List Nat} : Matches a s → Matches b t → Matches (.cat a b) (s ++ t)
  | altL {a b : RE} {s : List Nat} : Matches a s → Matches (.alt a b) s
  | altR {a b : RE} {s : List Nat} : Matches b s → Matches (.alt a b) s
  | starNil {a : RE} : Matches (.star a) []
  | starCons {a : RE} {s t : List Nat} : Matches a s → Matches (.star a) t → Matches (.star a) (s ++ t)

theorem not_matches_empty {s : List Nat} : ¬ Matches .empty s := by
  intro h; cases h

theorem matches_eps {s : List Nat} : Matches .eps s ↔ s = [] := by
  constructor
  · intro h; cases h; rfl
  · intro h; subst h; exact .eps

theorem matches_cls {k : CClass} {s : List Nat} : Matches (.cls k) s ↔ ∃ c, s = [c] ∧ k.mem c = true := by
  constructor
  · intro h; cases h with | cls hc => exact ⟨_, rfl, hc⟩
  · rintro ⟨c, rfl, hc⟩; exact .cls hc

theorem matches_cat {a b : RE} {s : List Nat} :
    Matches (.cat a b) s ↔ ∃ s1 s2, s = s1 ++ s2 ∧ Matches a s1 ∧ Matches b s2 := by
  constructor
  · intro h; cases h with | cat h1 h2 => exact ⟨_, _, rfl, h1, h2⟩
  · rintro ⟨s1, s2, rfl, h1, h2⟩; exact .cat h1 h2

theorem matches_alt {a b : RE} {s : List Nat} : Matches (.alt a b) s ↔ Matches a s ∨ Matches b s := by
  constructor
  · intro h
    cases h with
    | altL h => exact .inl h
    | altR h => exact .inr h
  · rintro (h | h)
    · exact .altL h
    · exact .altR h

theorem nullable_iff (r : RE) : nullable r = true ↔ Matches r [] := by
  induction r with
  | empty => simp [nullable, not_matches_empty]
  | eps => simp [nullable, matches_eps]
  | cls k => simp [nullable, matches_cls]
  | cat a b iha ihb =>
    simp only [nullable, Bool.and_eq_true, iha, ihb, matches_cat]
    constructor
    · rintro ⟨h1, h2⟩; exact ⟨[], [], rfl, h1, h2⟩
    · rintro ⟨s1, s2, h, h1, h2⟩
      have h' := h.symm
      rw [List.append_eq_nil_iff] at h'
      obtain ⟨rfl, rfl⟩ := h'
      exact ⟨h1, h2⟩
  | alt a b iha ihb => simp [nullable, iha, ihb, matches_alt]
  | star a _ => simp only [nullable, true_iff]; exact .starNil

theorem mkCat_iff {a b : RE} {s : List Nat} : Matches (mkCat a b) s ↔ Matches (.cat a b) s := by
  unfold mkCat
  split
  · rename_i h; subst h
    simp only [matches_cat]
    constructor
    · intro h; exact absurd h not_matches_empty
    · rintro ⟨_, _, _, h, _⟩; exact absurd h not_matches_empty
  · split
    · rename_i h; subst h
      simp only [matches_cat]
      constructor
      · intro h; exact absurd h not_matches_empty
      · rintro ⟨_, _, _, _, h⟩; exact absurd h not_matches_empty
    · split
      · rename_i h; subst h
        simp only [matches_cat, matches_eps]
        constructor
        · intro h; exact ⟨[], s, rfl, rfl, h⟩
        · rintro ⟨s1, s2, rfl, rfl, h⟩; simpa using h
      · exact Iff.rfl

theorem mkAlt_iff {a b : RE} {s : List Nat} : Matches (mkAlt a b) s ↔ Matches (.alt a b) s := by
  unfold mkAlt
  split
  · rename_i h; subst h; simp [matches_alt, not_matches_empty]
  · split
    · rename_i h; subst h; simp [matches_alt, not_matches_empty]
    · split
      · rename_i h; subst h; simp [matches_alt]
      · exact Iff.rfl

theorem star_cons_inv {a : RE} {w : List Nat} (h : Matches (.star a) w) :
    ∀ c s, w = c :: s → ∃ s1 s2, s = s1 ++ s2 ∧ Matches a (c :: s1) ∧ Matches (.star a) s2 := by
  generalize hr : RE.star a = r at h
  induction h with
  | eps => cases hr
  | cls _ => cases hr
  | cat _ _ _ _ => cases hr
  | altL _ _ => cases hr
  | altR _ _ => cases hr
  | starNil => intro c s hw; cases hw
  | @starCons a' s' t h1 h2 _ ih2 =>
    cases hr
    intro c s hw
    cases s' with
    | nil =>
      simp only [List.nil_append] at hw
      exact ih2 rfl c s hw
    | cons x xs =>
      simp only [List.cons_append, List.cons.injEq] at hw
      obtain ⟨rfl, rfl⟩ := hw
      exact ⟨xs, t, rfl, h1, h2⟩

theorem matches_star_cons {a : RE} {c : Nat} {s : List Nat} :
    Matches (.star a) (c :: s) ↔ ∃ s1 s2, s = s1 ++ s2 ∧ Matches a (c :: s1) ∧ Matches (.star a) s2 := by
  constructor
  · intro h; exact star_cons_inv h c s rfl
  · rintro ⟨s1, s2, rfl, h1, h2⟩
    have := Matches.starCons h1 h2
    simpa using this

theorem deriv_iff (c : Nat) (r : RE) : ∀ s, Matches (deriv c r) s ↔ Matches r (c :: s) := by
  induction r with
  | empty => intro s; simp [deriv, not_matches_empty]
  | eps => intro s; simp [deriv, not_matches_empty, matches_eps]
  | cls k =>
    intro s
    simp only [deriv, matches_cls]
    split
    · rename_i h
      simp only [matches_eps]
      constructor
      · rintro rfl; exact ⟨c, rfl, h⟩
      · rintro ⟨c', h', _⟩
        simp only [List.cons.injEq] at h'
        exact h'.2
    · rename_i h
      constructor
      · intro h'; exact absurd h' not_matches_empty
      · rintro ⟨c', h', hm⟩
        simp only [List.cons.injEq] at h'
        obtain ⟨rfl, _⟩ := h'
        exact absurd hm h
  | cat a b iha ihb =>
    intro s
    have key : Matches (.cat a b) (c :: s) ↔
        (∃ s1 s2, s = s1 ++ s2 ∧ Matches a (c :: s1) ∧ Matches b s2) ∨ (Matches a [] ∧ Matches b (c :: s)) := by
      rw [matches_cat]
      constructor
      · rintro ⟨s1, s2, h, h1, h2⟩
        cases s1 with
        | nil => simp only [List.nil_append] at h; subst h; exact .inr ⟨h1, h2⟩
        | cons x xs =>
          simp only [List.cons_append, List.cons.injEq] at h
          obtain ⟨rfl, rfl⟩ := h
          exact .inl ⟨xs, s2, rfl, h1, h2⟩
      · rintro (⟨s1, s2, rfl, h1, h2⟩ | ⟨h1, h2⟩)
        · exact ⟨c :: s1, s2, rfl, h1, h2⟩
        · exact ⟨[], c :: s, rfl, h1, h2⟩
    have left : Matches (mkCat (deriv c a) b) s ↔ ∃ s1 s2, s = s1 ++ s2 ∧ Matches a (c :: s1) ∧ Matches b s2 := by
      rw [mkCat_iff, matches_cat]
      constructor
      · rintro ⟨s1, s2, h, h1, h2⟩; exact ⟨s1, s2, h, (iha s1).mp h1, h2⟩
      · rintro ⟨s1, s2, h, h1, h2⟩; exact ⟨s1, s2, h, (iha s1).mpr h1, h2⟩
    rw [key]
    simp only [deriv]
    split
    · rename_i hn
      rw [mkAlt_iff, matches_alt, left, ihb s]
      have : Matches a [] := (nullable_iff a).mp hn
      constructor
      · rintro (h | h)
        · exact .inl h
        · exact .inr ⟨this, h⟩
      · rintro (h | ⟨_, h⟩)
        · exact .inl h
        · exact .inr h
    · rename_i hn
      rw [left]
      constructor
      · intro h; exact .inl h
      · rintro (h | ⟨h, _⟩)
        · exact h
        · exact absurd ((nullable_iff a).mpr h) hn
  | alt a b iha ihb =>
    intro s
    simp only [deriv]
    rw [mkAlt_iff, matches_alt, matches_alt, iha s, ihb s]
  | star a iha =>
    intro s
    simp only [deriv]
    rw [mkCat_iff, matches_cat, matches_star_cons]
    constructor
    · rintro ⟨s1, s2, h, h1, h2⟩; exact ⟨s1, s2, h, (iha s1).mp h1, h2⟩
    · rintro ⟨s1, s2, h, h1, h2⟩; exact ⟨s1, s2, h, (iha s1).mpr h1, h2⟩

/-- the matcher decides the language -/
theorem matchL_iff (r : RE) (s : List Nat) : matchL r s = true ↔ Matches r s := by
  induction s generalizing r with
  | nil => exact nullable_iff r
  | cons c cs ih => rw [matchL, ih, deriv_iff]

/-! ### building blocks used by the leaf theorems -/

theorem matches_star_of_all {a : RE} {s : List Nat} (h : ∀ c ∈ s, Matches a [c]) : Matches (.star a) s := by
  induction s with
  | nil => exact .starNil
  | cons c cs ih =>
    have h1 : Matches a [c] := h c (List.mem_cons_self ..)
    have h2 := ih (fun x hx => h x (List.mem_cons_of_mem _ hx))
    exact Matches.starCons h1 h2

theorem matches_plus_of_all {a : RE} {s : List Nat} (hne : s ≠ []) (h : ∀ c ∈ s, Matches a [c]) :
    Matches (RE.plus a) s := by
  cases s with
  | nil => exact absurd rfl hne
  | cons c cs =>
    have h1 : Matches a [c] := h c (List.mem_cons_self ..)
    have h2 : Matches (.star a) cs := matches_star_of_all (fun x hx => h x (List.mem_cons_of_mem _ hx))
    exact Matches.cat h1 h2

theorem matches_opt_nil {a : RE} : Matches (RE.opt a) [] := .altL .eps
theorem matches_opt_some {a : RE} {s : List Nat} (h : Matches a s) : Matches (RE.opt a) s := .altR h

end GoblVerif.Regex
