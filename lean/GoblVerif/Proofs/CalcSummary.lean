/-
  From the tax part of the calculation model to the executable oracle
  `Spec.C02.summaryOk`:

  * the rows the model accumulates (`prepareRow`, `removeIncluded`) are the
    specification's tax-exclusive working totals (`Spec.C02.exclusive`);
  * one invariant over `addToRates` / `addToCats` / `baseRateTotals`: categories
    and groups are unambiguous, every processed (row, combo) pair finds its
    group, and every group's base is — in value and in precision — the sum of
    the contributions with its category and key (the per-group form of
    `partition_by_key` together with `groups_pairwise_distinct`);
  * amounts, surcharges, category sums and the tax sum as exact rationals for
    both rounding rules, and their presentation by `tax.Total.round`.
-/
import GoblVerif.Spec.C02
import GoblVerif.Proofs.CalcGroups
import GoblVerif.Proofs.CalcReadd

namespace GoblVerif.Calc
open GoblVerif.Spec GoblVerif.Spec.C02
open GoblVerif.Spec.C03 (surOf)

/-! ## keys -/

theorem keyOfCombo_eq (cb : Combo) : keyOfCombo cb = comboKey cb := rfl
theorem keyOfRate_eq (rt : RateTotal) : keyOfRate rt = rtKey rt := rfl

theorem rtMatches_iff_key (rt : RateTotal) (cb : Combo) : rtMatches rt cb = true ↔ keyOfRate rt = keyOfCombo cb :=
  rtMatches_iff rt cb

theorem keyOfRate_newRate (c : ℕ) (cb : Combo) (b : Amount) :
    keyOfRate { newRate c cb with base := b } = keyOfCombo cb := by
  simp only [keyOfRate, newRate, keyOfCombo, Prod.mk.injEq, true_and]
  cases cb.percent with
  | none => rfl
  | some p => cases cb.surcharge <;> simp

/-! ## the rows the summary is built from -/

/-- the row as the specification sees it after preparation and included-tax removal -/
def exclRow (c : ℕ) (inc : Option String) (rw : Row) : Row := { total := exclusive c inc rw, taxes := rw.taxes }

theorem prepareRow_eq (c : ℕ) (rw : Row) : prepareRow c rw = { total := working c rw, taxes := rw.taxes } := by
  unfold prepareRow working E
  split <;> rfl

theorem factor_toRat_sm (p : Pct) : (factor p).toRat = 1 + p.amount.toRat := by
  have h := p10q_ne p.amount.exp
  unfold factor Amount.toRat
  push_cast
  field_simp
  ring

theorem rha_zero (n : ℤ) : rha n 0 = 0 := by
  unfold rha
  split <;> simp

/-- `Amount.Remove` is "divide by 1 + p, round half away from zero once at the amount's precision" -/
theorem remove_spec (t : Amount) (p : Pct) :
    remove exactOps t p = ⟨roundTo t.exp (t.toRat / (1 + p.amount.toRat)), t.exp⟩ := by
  unfold remove
  simp only [exact_div]
  by_cases hne : (factor p).value = 0
  · have hq : (factor p).toRat = 0 := by unfold Amount.toRat; rw [hne]; simp
    rw [← factor_toRat_sm, hq]
    unfold Amount.divX
    simp only [hne, lt_irrefl, if_false, neg_zero, rha_zero]
    congr 1
    unfold roundTo
    simp only [div_zero, zero_mul]
    exact (roundHalfAway_int 0).symm
  · have hv := divX_spec t (factor p) hne
    rw [factor_toRat_sm] at hv
    rw [← hv]
    cases h : t.divX (factor p)
    have he : (t.divX (factor p)).exp = t.exp := divX_exp t (factor p)
    rw [h] at he
    simp only at he
    simp [he]

theorem removeIncludedRow_spec (c : ℕ) (k : String) (rw rw' : Row)
    (h : removeIncludedRow exactOps k (prepareRow c rw) = .ok rw') : rw' = exclRow c (some k) rw := by
  rw [prepareRow_eq] at h
  unfold removeIncludedRow at h
  unfold exclRow exclusive
  simp only at h ⊢
  cases hf : rw.taxes.find? (fun cb => cb.cat == k) with
  | none =>
    simp only [hf] at h ⊢
    injection h with h
    exact h.symm
  | some cb =>
    simp only [hf] at h ⊢
    split at h
    · cases h
    · cases hp : cb.percent with
      | none =>
        simp only [hp] at h ⊢
        injection h with h
        exact h.symm
      | some p =>
        simp only [hp] at h ⊢
        injection h with h
        rw [← h, remove_spec]

theorem removeIncluded_spec (c : ℕ) (k : String) (rows rows' : List Row)
    (h : removeIncluded exactOps k (rows.map (prepareRow c)) = .ok rows') :
    rows' = rows.map (exclRow c (some k)) := by
  induction rows generalizing rows' with
  | nil => simp [removeIncluded] at h; subst h; rfl
  | cons rw rows ih =>
    simp only [List.map_cons] at h ⊢
    unfold removeIncluded at h
    cases h1 : removeIncludedRow exactOps k (prepareRow c rw) with
    | error e => simp [h1] at h
    | ok rw' =>
      simp only [h1] at h
      cases h2 : removeIncluded exactOps k (rows.map (prepareRow c)) with
      | error e => simp [h2] at h
      | ok rs =>
        simp only [h2] at h
        injection h with h
        rw [← h, removeIncludedRow_spec c k rw rw' h1, ih rs h2]

theorem prepare_spec (c : ℕ) (rows : List Row) : rows.map (prepareRow c) = rows.map (exclRow c none) := by
  apply List.map_congr_left
  intro rw _
  rw [prepareRow_eq]
  rfl

/-- the summary `taxTotal` returns, in terms of the specification's rows -/
theorem taxTotal_rows (r : Rule) (c : ℕ) (inc : Option String) (rows : List Row) (tx : TaxTotal)
    (h : taxTotal exactOps r c inc rows = .ok tx) :
    tx = roundTax exactOps c ((baseRateTotals exactOps r c (rows.map (exclRow c inc))).map (catAmounts exactOps r c))
      (finalSum exactOps r c ((baseRateTotals exactOps r c (rows.map (exclRow c inc))).map (catAmounts exactOps r c))) := by
  unfold taxTotal at h
  simp only at h
  cases inc with
  | none =>
    simp only at h
    injection h with h
    rw [← h, prepare_spec]
  | some k =>
    simp only at h
    cases hrm : removeIncluded exactOps k (rows.map (prepareRow c)) with
    | error e => simp [hrm] at h
    | ok rows3 =>
      simp only [hrm] at h
      injection h with h
      rw [← h, removeIncluded_spec c k rows rows3 hrm]

/-! ## contributions -/

/-- what `Add` after `matchRoundingPrecision` adds is the specification's contribution -/
theorem contrib_eq (r : Rule) (c : ℕ) (t : Amount) : contrib r c t = (contributed r c t).toRat := by
  cases r with
  | currency =>
    simp only [contrib, contributed]
    congr 1
    cases h : t.rescaleX c
    have he : (t.rescaleX c).exp = c := rescaleX_exp t c
    have hv := rescaleX_value t c
    rw [h] at he hv
    simp only at he hv
    rw [he, hv]
  | precise => rfl
  | other => rfl

theorem contributed_exp_currency (c : ℕ) (t : Amount) : (contributed .currency c t).exp = c := rfl

theorem contributed_other (r : Rule) (hr : r ≠ .currency) (c : ℕ) (t : Amount) : contributed r c t = t := by
  cases r <;> simp_all [contributed]

theorem le_workExp (c : ℕ) (g : List Amount) : c ≤ workExp c g := by
  unfold workExp
  induction g generalizing c with
  | nil => exact Nat.le_refl c
  | cons a g ih =>
    rw [List.foldl_cons]
    exact Nat.le_trans (Nat.le_max_left c a.exp) (ih (max c a.exp))

theorem workExp_append (c : ℕ) (g : List Amount) (a : Amount) :
    workExp c (g ++ [a]) = max (workExp c g) a.exp := by
  unfold workExp
  rw [List.foldl_append]
  rfl

theorem baseQ_append (g : List Amount) (a : Amount) : baseQ (g ++ [a]) = baseQ g + a.toRat := by
  unfold baseQ
  simp

theorem groupOf_append (ws : List Contribution) (w : Contribution) (cat : String) (k : GroupKey) :
    groupOf (ws ++ [w]) cat k = groupOf ws cat k ++ (if w.cat = cat ∧ w.key = k then [w.amount] else []) := by
  unfold groupOf
  rw [List.filter_append, List.map_append]
  congr 1
  by_cases h : w.cat = cat ∧ w.key = k
  · simp [h]
  · simp [h]

/-! ## the invariant of the accumulation -/

/-- a group's base is, in value and in precision, the sum of the contributions with its category and key -/
def GroupFacts (r : Rule) (c : ℕ) (ws : List Contribution) (cat : String) (rt : RateTotal) : Prop :=
  rt.base.toRat = baseQ (groupOf ws cat (keyOfRate rt)) ∧
  rt.base.exp = workExp c (groupOf ws cat (keyOfRate rt)) ∧
  (r = .currency → rt.base.exp = c)

theorem base_step_exp_rule (r : Rule) (c : ℕ) (base t : Amount) (hb : r = .currency → base.exp = c) :
    (add exactOps (mrp r base t) t).exp = max base.exp (contributed r c t).exp := by
  cases r with
  | currency =>
    have := hb rfl
    simp only [mrp, add_exp, contributed]
    omega
  | precise => simp only [mrp, add_exp, up_exp, contributed]
  | other => simp only [mrp, add_exp, up_exp, contributed]

theorem GroupFacts.step (r : Rule) (c : ℕ) (ws : List Contribution) (cat : String) (rt : RateTotal) (t : Amount)
    (w : Contribution) (hw : w.amount = contributed r c t) (hk : w.cat = cat ∧ w.key = keyOfRate rt)
    (h : GroupFacts r c ws cat rt) :
    GroupFacts r c (ws ++ [w]) cat { rt with base := add exactOps (mrp r rt.base t) t } := by
  obtain ⟨h1, h2, h3⟩ := h
  have hkey : keyOfRate { rt with base := add exactOps (mrp r rt.base t) t } = keyOfRate rt := rfl
  obtain ⟨b1, b2⟩ := base_step r c rt.base t h3
  refine ⟨?_, ?_, b2⟩
  · rw [hkey, groupOf_append, if_pos hk, baseQ_append, ← h1, hw, ← contrib_eq]
    exact b1
  · rw [hkey, groupOf_append, if_pos hk, workExp_append, ← h2, hw]
    exact base_step_exp_rule r c rt.base t h3

theorem GroupFacts.skip (r : Rule) (c : ℕ) (ws : List Contribution) (cat : String) (rt : RateTotal)
    (w : Contribution) (hk : ¬ (w.cat = cat ∧ w.key = keyOfRate rt)) (h : GroupFacts r c ws cat rt) :
    GroupFacts r c (ws ++ [w]) cat rt := by
  unfold GroupFacts
  rw [groupOf_append, if_neg hk, List.append_nil]
  exact h

theorem GroupFacts.new (r : Rule) (c : ℕ) (ws : List Contribution) (cb : Combo) (t : Amount)
    (w : Contribution) (hw : w = ⟨cb.cat, keyOfCombo cb, contributed r c t⟩)
    (hnone : groupOf ws cb.cat (keyOfCombo cb) = []) :
    GroupFacts r c (ws ++ [w]) cb.cat { newRate c cb with base := add exactOps (mrp r (newRate c cb).base t) t } := by
  have hkey := keyOfRate_newRate c cb (add exactOps (mrp r (newRate c cb).base t) t)
  have hb0 : (newRate c cb).base = ⟨0, c⟩ := rfl
  obtain ⟨b1, b2⟩ := base_step r c ⟨0, c⟩ t (fun _ => rfl)
  unfold GroupFacts
  rw [hkey, groupOf_append, hnone, hw]
  simp only [and_self, if_true, List.nil_append, hb0]
  refine ⟨?_, ?_, b2⟩
  · rw [b1, contrib_eq]
    simp [baseQ, Amount.toRat]
  · rw [base_step_exp_rule r c ⟨0, c⟩ t (fun _ => rfl)]
    simp [workExp]

/-- the keys of a rate list are unambiguous -/
def KeysDistinct (rts : List RateTotal) : Prop := (rts.map keyOfRate).Pairwise (· ≠ ·)

theorem addToRates_inv (r : Rule) (c : ℕ) (cb : Combo) (t : Amount) (ws : List Contribution)
    (rts : List RateTotal) (hd : KeysDistinct rts) (hF : ∀ rt ∈ rts, GroupFacts r c ws cb.cat rt)
    (hnew : (∀ rt ∈ rts, keyOfRate rt ≠ keyOfCombo cb) → groupOf ws cb.cat (keyOfCombo cb) = []) :
    KeysDistinct (addToRates exactOps r c cb t rts) ∧
    (∀ rt ∈ addToRates exactOps r c cb t rts,
      GroupFacts r c (ws ++ [⟨cb.cat, keyOfCombo cb, contributed r c t⟩]) cb.cat rt) ∧
    ((addToRates exactOps r c cb t rts).map keyOfRate = rts.map keyOfRate ∨
     (addToRates exactOps r c cb t rts).map keyOfRate = rts.map keyOfRate ++ [keyOfCombo cb]) ∧
    (∃ rt ∈ addToRates exactOps r c cb t rts, keyOfRate rt = keyOfCombo cb) := by
  induction rts with
  | nil =>
    have hnone := hnew (fun _ h => by simp at h)
    simp only [addToRates]
    refine ⟨by simp [KeysDistinct], ?_, Or.inr (by simp [keyOfRate_newRate]),
      ⟨{ newRate c cb with base := add exactOps (mrp r (newRate c cb).base t) t }, by simp, keyOfRate_newRate c cb _⟩⟩
    intro rt hrt
    simp only [List.mem_singleton] at hrt
    subst hrt
    exact GroupFacts.new r c ws cb t _ rfl hnone
  | cons rt rts ih =>
    have hd' : KeysDistinct rts := (List.pairwise_cons.mp hd).2
    have hhead : ∀ k ∈ rts.map keyOfRate, keyOfRate rt ≠ k := (List.pairwise_cons.mp hd).1
    simp only [addToRates]
    split
    · rename_i hm
      have hkey : keyOfRate rt = keyOfCombo cb := (rtMatches_iff_key rt cb).mp hm
      refine ⟨hd, ?_, Or.inl rfl, ⟨{ rt with base := add exactOps (mrp r rt.base t) t }, by simp, hkey⟩⟩
      intro x hx
      simp only [List.mem_cons] at hx
      rcases hx with rfl | hx
      · exact GroupFacts.step r c ws cb.cat rt t _ rfl ⟨rfl, hkey.symm⟩ (hF rt (by simp))
      · apply GroupFacts.skip r c ws cb.cat x _ _ (hF x (by simp [hx]))
        intro hk
        exact hhead (keyOfRate x) (List.mem_map_of_mem hx) (hkey.trans hk.2)
    · rename_i hnm
      have hne : keyOfRate rt ≠ keyOfCombo cb := fun h => hnm ((rtMatches_iff_key rt cb).mpr h)
      obtain ⟨i1, i2, i3, i4⟩ := ih hd' (fun x hx => hF x (by simp [hx]))
        (fun h => hnew (fun x hx => by
          simp only [List.mem_cons] at hx
          rcases hx with rfl | hx
          · exact hne
          · exact h x hx))
      refine ⟨?_, ?_, ?_, ?_⟩
      · unfold KeysDistinct
        rw [List.map_cons, List.pairwise_cons]
        refine ⟨?_, i1⟩
        intro k hk
        rcases i3 with e | e
        · rw [e] at hk; exact hhead k hk
        · rw [e, List.mem_append] at hk
          rcases hk with hk | hk
          · exact hhead k hk
          · simp only [List.mem_singleton] at hk
            rw [hk]; exact hne
      · intro x hx
        simp only [List.mem_cons] at hx
        rcases hx with rfl | hx
        · apply GroupFacts.skip r c ws cb.cat x _ _ (hF x (by simp))
          intro hk
          exact hne hk.2.symm
        · exact i2 x hx
      · rcases i3 with e | e
        · exact Or.inl (by simp [e])
        · exact Or.inr (by simp [e])
      · obtain ⟨x, hx, hxk⟩ := i4
        exact ⟨x, by simp [hx], hxk⟩

/-- what the invariant says of one category -/
def CatInv (r : Rule) (c : ℕ) (ws : List Contribution) (ct : CatTotal) : Prop :=
  KeysDistinct ct.rates ∧ (∀ rt ∈ ct.rates, GroupFacts r c ws ct.code rt) ∧
  (∀ w ∈ ws, w.cat = ct.code → ∃ rt ∈ ct.rates, keyOfRate rt = w.key)

theorem groupOf_nil_of_absent (ws : List Contribution) (cat : String) (k : GroupKey)
    (h : ∀ w ∈ ws, w.cat = cat → w.key ≠ k) : groupOf ws cat k = [] := by
  unfold groupOf
  rw [List.map_eq_nil_iff, List.filter_eq_nil_iff]
  intro w hw
  simp only [decide_eq_true_eq]
  intro hk
  exact h w hw hk.1 hk.2

theorem CatInv.other (r : Rule) (c : ℕ) (ws : List Contribution) (ct : CatTotal) (w : Contribution)
    (hne : w.cat ≠ ct.code) (h : CatInv r c ws ct) : CatInv r c (ws ++ [w]) ct := by
  obtain ⟨h1, h2, h3⟩ := h
  refine ⟨h1, ?_, ?_⟩
  · intro rt hrt
    exact GroupFacts.skip r c ws ct.code rt w (fun hk => hne hk.1) (h2 rt hrt)
  · intro x hx hxc
    simp only [List.mem_append, List.mem_singleton] at hx
    rcases hx with hx | rfl
    · exact h3 x hx hxc
    · exact absurd hxc hne

theorem CatInv.same (r : Rule) (c : ℕ) (ws : List Contribution) (ct : CatTotal) (cb : Combo) (t : Amount)
    (hcode : ct.code = cb.cat) (h : CatInv r c ws ct) :
    CatInv r c (ws ++ [⟨cb.cat, keyOfCombo cb, contributed r c t⟩])
      { ct with rates := addToRates exactOps r c cb t ct.rates } := by
  obtain ⟨h1, h2, h3⟩ := h
  have hnew : (∀ rt ∈ ct.rates, keyOfRate rt ≠ keyOfCombo cb) → groupOf ws cb.cat (keyOfCombo cb) = [] := by
    intro hall
    apply groupOf_nil_of_absent
    intro w hw hwc hwk
    obtain ⟨rt, hrt, hrk⟩ := h3 w hw (hwc.trans hcode.symm)
    exact hall rt hrt (hrk.trans hwk)
  obtain ⟨i1, i2, i3, i4⟩ := addToRates_inv r c cb t ws ct.rates h1 (fun rt hrt => hcode ▸ h2 rt hrt) hnew
  refine ⟨i1, fun rt hrt => by simpa only [hcode] using i2 rt hrt, ?_⟩
  intro x hx hxc
  simp only [List.mem_append, List.mem_singleton] at hx
  rcases hx with hx | rfl
  · obtain ⟨rt, hrt, hrk⟩ := h3 x hx hxc
    have hmem : keyOfRate rt ∈ (addToRates exactOps r c cb t ct.rates).map keyOfRate := by
      rcases i3 with e | e
      · rw [e]; exact List.mem_map_of_mem hrt
      · rw [e]; exact List.mem_append_left _ (List.mem_map_of_mem hrt)
    simp only [List.mem_map] at hmem
    obtain ⟨rt', hrt', hk'⟩ := hmem
    exact ⟨rt', hrt', hk'.trans hrk⟩
  · exact i4

theorem CatInv.fresh (r : Rule) (c : ℕ) (ws : List Contribution) (cb : Combo) (t : Amount)
    (habs : ∀ w ∈ ws, w.cat ≠ cb.cat) :
    CatInv r c (ws ++ [⟨cb.cat, keyOfCombo cb, contributed r c t⟩])
      { code := cb.cat, retained := cb.retained, rates := addToRates exactOps r c cb t [],
        amount := ⟨0, c⟩, surcharge := none, precise := ⟨0, c⟩ } := by
  have hnone : groupOf ws cb.cat (keyOfCombo cb) = [] :=
    groupOf_nil_of_absent ws _ _ (fun w hw hwc => absurd hwc (habs w hw))
  obtain ⟨i1, i2, _, i4⟩ := addToRates_inv r c cb t ws [] (by simp [KeysDistinct]) (fun _ h => by simp at h)
    (fun _ => hnone)
  refine ⟨i1, i2, ?_⟩
  intro x hx hxc
  simp only [List.mem_append, List.mem_singleton] at hx
  rcases hx with hx | rfl
  · exact absurd hxc (habs x hx)
  · exact i4

/-- category codes are unambiguous -/
def CodesDistinct (cats : List CatTotal) : Prop := (cats.map (·.code)).Pairwise (· ≠ ·)

theorem addToCats_inv (r : Rule) (c : ℕ) (cb : Combo) (t : Amount) (ws : List Contribution) (cats : List CatTotal)
    (hd : CodesDistinct cats) (hC : ∀ ct ∈ cats, CatInv r c ws ct)
    (hnew : (∀ ct ∈ cats, ct.code ≠ cb.cat) → ∀ w ∈ ws, w.cat ≠ cb.cat) :
    CodesDistinct (addToCats exactOps r c cb t cats) ∧
    (∀ ct ∈ addToCats exactOps r c cb t cats, CatInv r c (ws ++ [⟨cb.cat, keyOfCombo cb, contributed r c t⟩]) ct) ∧
    ((addToCats exactOps r c cb t cats).map (·.code) = cats.map (·.code) ∨
     (addToCats exactOps r c cb t cats).map (·.code) = cats.map (·.code) ++ [cb.cat]) := by
  induction cats with
  | nil =>
    simp only [addToCats]
    refine ⟨by simp [CodesDistinct], ?_, Or.inr (by simp)⟩
    intro ct hct
    simp only [List.mem_singleton] at hct
    subst hct
    exact CatInv.fresh r c ws cb t (hnew (fun _ h => by simp at h))
  | cons ct cts ih =>
    have hd' : CodesDistinct cts := (List.pairwise_cons.mp hd).2
    have hhead : ∀ k ∈ cts.map (·.code), ct.code ≠ k := (List.pairwise_cons.mp hd).1
    simp only [addToCats]
    split
    · rename_i hcode
      have hcode' : ct.code = cb.cat := by simpa using hcode
      refine ⟨hd, ?_, Or.inl rfl⟩
      intro x hx
      simp only [List.mem_cons] at hx
      rcases hx with rfl | hx
      · exact CatInv.same r c ws ct cb t hcode' (hC ct (by simp))
      · apply CatInv.other r c ws x _ _ (hC x (by simp [hx]))
        intro hk
        exact hhead x.code (List.mem_map_of_mem hx) (hcode'.trans hk)
    · rename_i hcode
      have hne : ct.code ≠ cb.cat := by simpa using hcode
      obtain ⟨i1, i2, i3⟩ := ih hd' (fun x hx => hC x (by simp [hx]))
        (fun h => hnew (fun x hx => by
          simp only [List.mem_cons] at hx
          rcases hx with rfl | hx
          · exact hne
          · exact h x hx))
      refine ⟨?_, ?_, ?_⟩
      · unfold CodesDistinct
        rw [List.map_cons, List.pairwise_cons]
        refine ⟨?_, i1⟩
        intro k hk
        rcases i3 with e | e
        · rw [e] at hk; exact hhead k hk
        · rw [e, List.mem_append] at hk
          rcases hk with hk | hk
          · exact hhead k hk
          · simp only [List.mem_singleton] at hk
            rw [hk]; exact hne
      · intro x hx
        simp only [List.mem_cons] at hx
        rcases hx with rfl | hx
        · exact CatInv.other r c ws x _ (fun hk => hne hk.symm) (hC x (by simp))
        · exact i2 x hx
      · rcases i3 with e | e
        · exact Or.inl (by simp [e])
        · exact Or.inr (by simp [e])

/-- the whole invariant -/
def SummaryInv (r : Rule) (c : ℕ) (ws : List Contribution) (cats : List CatTotal) : Prop :=
  CodesDistinct cats ∧ (∀ ct ∈ cats, CatInv r c ws ct) ∧ (∀ w ∈ ws, ∃ ct ∈ cats, ct.code = w.cat)

theorem SummaryInv.step (r : Rule) (c : ℕ) (cb : Combo) (t : Amount) (ws : List Contribution) (cats : List CatTotal)
    (h : SummaryInv r c ws cats) :
    SummaryInv r c (ws ++ [⟨cb.cat, keyOfCombo cb, contributed r c t⟩]) (addToCats exactOps r c cb t cats) := by
  obtain ⟨h1, h2, h3⟩ := h
  have hnew : (∀ ct ∈ cats, ct.code ≠ cb.cat) → ∀ w ∈ ws, w.cat ≠ cb.cat := by
    intro hall w hw hwc
    obtain ⟨ct, hct, hcc⟩ := h3 w hw
    exact hall ct hct (hcc.trans hwc)
  obtain ⟨i1, i2, i3⟩ := addToCats_inv r c cb t ws cats h1 h2 hnew
  refine ⟨i1, i2, ?_⟩
  have hcodes : ∀ k ∈ cats.map (·.code), k ∈ (addToCats exactOps r c cb t cats).map (·.code) := by
    intro k hk
    rcases i3 with e | e
    · rw [e]; exact hk
    · rw [e]; exact List.mem_append_left _ hk
  intro w hw
  simp only [List.mem_append, List.mem_singleton] at hw
  rcases hw with hw | rfl
  · obtain ⟨ct, hct, hcc⟩ := h3 w hw
    have := hcodes ct.code (List.mem_map_of_mem hct)
    simp only [List.mem_map] at this
    obtain ⟨ct', hct', hk'⟩ := this
    exact ⟨ct', hct', hk'.trans hcc⟩
  · -- the new contribution: its category now exists
    have : cb.cat ∈ (addToCats exactOps r c cb t cats).map (·.code) := by
      rcases i3 with e | e
      · -- no category was appended: one with that code was already there
        by_cases hex : ∃ ct ∈ cats, ct.code = cb.cat
        · obtain ⟨ct, hct, hcc⟩ := hex
          exact hcodes cb.cat (hcc ▸ List.mem_map_of_mem hct)
        · exfalso
          have hlen := congrArg List.length e
          simp only [List.length_map] at hlen
          have : ∀ (cs : List CatTotal), (∀ ct ∈ cs, ct.code ≠ cb.cat) →
              (addToCats exactOps r c cb t cs).length = cs.length + 1 := by
            intro cs
            induction cs with
            | nil => intro _; rfl
            | cons x xs ihx =>
              intro hx
              have hxne : (x.code == cb.cat) = false := by simpa using hx x (by simp)
              simp only [addToCats, hxne, Bool.false_eq_true, if_false, List.length_cons]
              rw [ihx (fun y hy => hx y (by simp [hy]))]
          have := this cats (fun ct hct hcc => hex ⟨ct, hct, hcc⟩)
          omega
      · rw [e]; simp
    simp only [List.mem_map] at this
    obtain ⟨ct', hct', hk'⟩ := this
    exact ⟨ct', hct', hk'⟩

/-- the (combo, total) pairs in the order `calculateBaseRateTotals` visits them -/
def pairsOf (rows : List Row) : List (Combo × Amount) :=
  rows.flatMap (fun rw => rw.taxes.map (fun cb => (cb, rw.total)))

theorem baseRateTotals_pairs (r : Rule) (c : ℕ) (rows : List Row) (cats : List CatTotal) :
    rows.foldl (fun cats rw => rw.taxes.foldl (fun cats cb => addToCats exactOps r c cb rw.total cats) cats) cats =
      (pairsOf rows).foldl (fun cats x => addToCats exactOps r c x.1 x.2 cats) cats := by
  induction rows generalizing cats with
  | nil => rfl
  | cons rw rows ih =>
    simp only [List.foldl_cons, pairsOf, List.flatMap_cons, List.foldl_append]
    rw [ih]
    congr 1
    rw [List.foldl_map]

theorem contributions_pairs (r : Rule) (c : ℕ) (inc : Option String) (rows : List Row) :
    contributions r c inc rows =
      (pairsOf (rows.map (exclRow c inc))).map (fun x => ⟨x.1.cat, keyOfCombo x.1, contributed r c x.2⟩) := by
  unfold contributions pairsOf
  induction rows with
  | nil => rfl
  | cons rw rows ih =>
    simp only [List.map_cons, List.flatMap_cons, List.map_append, ih]
    congr 1
    simp [exclRow, List.map_map, Function.comp_def]

theorem SummaryInv.fold (r : Rule) (c : ℕ) (ps : List (Combo × Amount)) (ws : List Contribution) (cats : List CatTotal)
    (h : SummaryInv r c ws cats) :
    SummaryInv r c (ws ++ ps.map (fun x => ⟨x.1.cat, keyOfCombo x.1, contributed r c x.2⟩))
      (ps.foldl (fun cats x => addToCats exactOps r c x.1 x.2 cats) cats) := by
  induction ps generalizing ws cats with
  | nil => simpa using h
  | cons x ps ih =>
    have := ih _ _ (SummaryInv.step r c x.1 x.2 ws cats h)
    simpa [List.foldl_cons, List.map_cons, List.append_assoc] using this

/-- **the accumulation invariant for the whole `calculateBaseRateTotals`** -/
theorem baseRateTotals_inv (r : Rule) (c : ℕ) (inc : Option String) (rows : List Row) :
    SummaryInv r c (contributions r c inc rows) (baseRateTotals exactOps r c (rows.map (exclRow c inc))) := by
  unfold baseRateTotals
  rw [baseRateTotals_pairs, contributions_pairs]
  have := SummaryInv.fold r c (pairsOf (rows.map (exclRow c inc))) [] []
    ⟨by simp [CodesDistinct], fun _ h => by simp at h, fun _ h => by simp at h⟩
  simpa using this

/-! ## amounts, surcharges and their presentation -/

theorem presentedAs_rescale (c : ℕ) (a : Amount) (q : ℚ) (h : a.toRat = q) :
    presentedAs c q (exactOps.rescale a c) = true := by
  unfold presentedAs
  simp only [exact_rescale, rescaleX_exp, rescaleX_value, h, decide_true, Bool.and_self]

theorem mulX_toRat (base : Amount) (p : Pct) : (base.mulX p.amount).toRat = pctAt base.exp base.toRat p := by
  unfold pctAt
  rw [← mulX_spec]
  rfl

theorem amountQ_congr (c : ℕ) (ws : List Contribution) (cat : String) (rt rt' : RateTotal)
    (h1 : keyOfRate rt' = keyOfRate rt) (h2 : rt'.percent = rt.percent) :
    amountQ c ws cat rt' = amountQ c ws cat rt := by
  unfold amountQ
  rw [h1, h2]

theorem surchargeQ_congr (c : ℕ) (ws : List Contribution) (cat : String) (rt rt' : RateTotal)
    (h1 : keyOfRate rt' = keyOfRate rt) (h2 : rt'.percent = rt.percent)
    (h3 : rt'.surcharge.map (·.1) = rt.surcharge.map (·.1)) :
    surchargeQ c ws cat rt' = surchargeQ c ws cat rt := by
  unfold surchargeQ
  rw [h1, h2]
  cases hs : rt.surcharge with
  | none =>
    cases hs' : rt'.surcharge with
    | none => rfl
    | some x => simp [hs, hs'] at h3
  | some x =>
    cases hs' : rt'.surcharge with
    | none => simp [hs, hs'] at h3
    | some y =>
      obtain ⟨a, b⟩ := x; obtain ⟨a', b'⟩ := y
      simp [hs, hs'] at h3
      subst h3
      cases rt.percent <;> rfl

theorem rateAmounts_same (rt : RateTotal) (c : ℕ) :
    keyOfRate (rateAmounts exactOps rt c) = keyOfRate rt ∧ (rateAmounts exactOps rt c).percent = rt.percent ∧
    (rateAmounts exactOps rt c).surcharge.map (·.1) = rt.surcharge.map (·.1) ∧
    (rateAmounts exactOps rt c).base = rt.base := by
  unfold rateAmounts
  cases hp : rt.percent with
  | none => simp [keyOfRate, hp]
  | some p =>
    cases hs : rt.surcharge with
    | none => simp [keyOfRate, hp, hs]
    | some x => obtain ⟨sp, sa⟩ := x; simp [keyOfRate, hp, hs]

theorem presentRate_same (c : ℕ) (rt : RateTotal) :
    keyOfRate (presentRate c rt) = keyOfRate rt ∧ (presentRate c rt).percent = rt.percent ∧
    (presentRate c rt).surcharge.map (·.1) = rt.surcharge.map (·.1) := by
  unfold presentRate
  cases hs : rt.surcharge with
  | none => simp [keyOfRate, hs]
  | some x => obtain ⟨sp, sa⟩ := x; simp [keyOfRate, hs]

/-- what a calculated (not yet presented) group says in exact rationals -/
def RateQ (r : Rule) (c : ℕ) (ws : List Contribution) (cat : String) (rt : RateTotal) : Prop :=
  rt.base.toRat = baseQ (groupOf ws cat (keyOfRate rt)) ∧
  rt.amount.toRat = amountQ c ws cat rt ∧
  (surOf rt).map Amount.toRat = surchargeQ c ws cat rt ∧
  (r = .currency → rt.amount.exp = c ∧ ∀ sa, surOf rt = some sa → sa.exp = c)

theorem rateAmounts_RateQ (r : Rule) (c : ℕ) (ws : List Contribution) (cat : String) (rt : RateTotal)
    (h : GroupFacts r c ws cat rt) : RateQ r c ws cat (rateAmounts exactOps rt c) := by
  obtain ⟨h1, h2, h3⟩ := h
  obtain ⟨k1, k2, k3, k4⟩ := rateAmounts_same rt c
  refine ⟨by rw [k1, k4]; exact h1, ?_, ?_, ?_⟩
  · rw [amountQ_congr c ws cat rt _ k1 k2]
    unfold rateAmounts amountQ
    cases hp : rt.percent with
    | none => simp [Amount.toRat]
    | some p =>
      simp only [pctOf, exact_mul]
      rw [mulX_toRat, h1, h2]
  · rw [surchargeQ_congr c ws cat rt _ k1 k2 k3]
    unfold rateAmounts surchargeQ surOf
    cases hp : rt.percent with
    | none => simp
    | some p =>
      cases hs : rt.surcharge with
      | none => simp
      | some x =>
        obtain ⟨sp, sa⟩ := x
        simp only [Option.map_some, pctOf, exact_mul]
        rw [mulX_toRat, h1, h2]
  · intro hr
    have hb := h3 hr
    unfold rateAmounts surOf
    cases hp : rt.percent with
    | none => simp
    | some p =>
      refine ⟨by simp [hb], ?_⟩
      intro sa hsa
      cases hs : rt.surcharge with
      | none => simp [hs] at hsa
      | some x =>
        obtain ⟨sp, sa0⟩ := x
        simp only [hs, Option.map_some, Option.some.injEq] at hsa
        rw [← hsa]; simp [hb]

theorem rateOk_present (r : Rule) (c : ℕ) (ws : List Contribution) (cat : String) (rt : RateTotal)
    (h : RateQ r c ws cat rt) :
    Spec.C02.rateOk c ws cat (presentRate c rt) = true ∧
    amountQ c ws cat (presentRate c rt) = amountQ c ws cat rt ∧
    surchargeQ c ws cat (presentRate c rt) = surchargeQ c ws cat rt := by
  obtain ⟨h1, h2, h3, _⟩ := h
  obtain ⟨k1, k2, k3⟩ := presentRate_same c rt
  have ea := amountQ_congr c ws cat rt _ k1 k2
  have es := surchargeQ_congr c ws cat rt _ k1 k2 k3
  refine ⟨?_, ea, es⟩
  unfold Spec.C02.rateOk
  rw [ea, es, k1]
  have hb : presentedAs c (baseQ (groupOf ws cat (keyOfRate rt))) (presentRate c rt).base = true :=
    presentedAs_rescale c rt.base _ h1
  have ha : presentedAs c (amountQ c ws cat rt) (presentRate c rt).amount = true :=
    presentedAs_rescale c rt.amount _ h2
  rw [hb, ha]
  simp only [Bool.and_self, Bool.true_and]
  -- the surcharge
  unfold surOf at h3
  unfold presentRate
  cases hq : surchargeQ c ws cat rt with
  | none => rfl
  | some q =>
    cases hs : rt.surcharge with
    | none => rfl
    | some x =>
      obtain ⟨sp, sa⟩ := x
      simp only [Option.map_some]
      apply presentedAs_rescale
      rw [hq, hs] at h3
      cases hp : rt.percent with
      | none => simp [hp] at h3
      | some p => simpa [hp] using h3

/-- the category surcharge as an exact sum (both rules) -/
theorem surchargeFold_toRat (r : Rule) (c : ℕ) (rates : List RateTotal) (z : Option Amount)
    (hz : r = .currency → ∀ x, z = some x → x.exp = c)
    (hr : r = .currency → ∀ rt ∈ rates, ∀ sa, surOf rt = some sa → sa.exp = c) :
    ∀ s, rates.foldl (fun (s : Option Amount) rt =>
        match rt.percent, rt.surcharge with
        | some _, some (_, sa) =>
          let x := s.getD ⟨0, c⟩
          some (add exactOps (mrp r x sa) sa)
        | _, _ => s) z = some s →
      s.toRat = (match z with | some x => x.toRat | none => 0) + ((rates.filterMap surOf).map Amount.toRat).sum := by
  induction rates generalizing z with
  | nil =>
    intro s hs
    simp only [List.foldl_nil] at hs
    subst hs
    simp
  | cons rt rates ih =>
    intro s hs
    rw [List.foldl_cons] at hs
    have hrest : r = .currency → ∀ x ∈ rates, ∀ sa, surOf x = some sa → sa.exp = c :=
      fun h x hx => hr h x (by simp [hx])
    cases hp : rt.percent with
    | none =>
      simp only [hp] at hs
      rw [ih z hz hrest s hs]
      simp [List.filterMap_cons, surOf, hp]
    | some p =>
      cases hsr : rt.surcharge with
      | none =>
        simp only [hp, hsr] at hs
        rw [ih z hz hrest s hs]
        simp [List.filterMap_cons, surOf, hp, hsr]
      | some x =>
        obtain ⟨sp, sa⟩ := x
        simp only [hp, hsr] at hs
        have hso : surOf rt = some sa := by simp [surOf, hp, hsr]
        have hx : r = .currency → (z.getD ⟨0, c⟩).exp = c := by
          intro h
          cases z with
          | none => rfl
          | some y => exact hz h y rfl
        obtain ⟨b1, b2⟩ := base_step r c (z.getD ⟨0, c⟩) sa hx
        have hcs : contrib r c sa = sa.toRat := by
          cases r with
          | currency =>
            simp only [contrib]
            rw [rescaleX_self sa c (hr rfl rt (by simp) sa hso)]
          | precise => rfl
          | other => rfl
        rw [ih (some (add exactOps (mrp r (z.getD ⟨0, c⟩) sa) sa))
          (fun h y hy => by injection hy with hy; rw [← hy]; exact b2 h) hrest s hs]
        simp only [List.filterMap_cons, hso, List.map_cons, List.sum_cons, b1, hcs]
        cases z <;> simp [Amount.toRat] <;> ring

theorem catSurchargesQ_present (r : Rule) (c : ℕ) (ws : List Contribution) (cat : String) (rates : List RateTotal)
    (h : ∀ rt ∈ rates, RateQ r c ws cat rt) :
    (rates.map (presentRate c)).filterMap (surchargeQ c ws cat) = (rates.filterMap surOf).map Amount.toRat := by
  induction rates with
  | nil => rfl
  | cons rt rates ih =>
    simp only [List.map_cons, List.filterMap_cons]
    rw [ih (fun x hx => h x (by simp [hx])), (rateOk_present r c ws cat rt (h rt (by simp))).2.2,
      ← (h rt (by simp)).2.2.1]
    cases surOf rt <;> rfl

theorem amountQ_present_sum (r : Rule) (c : ℕ) (ws : List Contribution) (cat : String) (rates : List RateTotal)
    (h : ∀ rt ∈ rates, RateQ r c ws cat rt) :
    (((rates.map (presentRate c)).map (amountQ c ws cat)).sum : ℚ) = ((rates.map (taxedAmount r c)).sum : ℚ) := by
  induction rates with
  | nil => rfl
  | cons rt rates ih =>
    simp only [List.map_cons, List.sum_cons]
    rw [ih (fun x hx => h x (by simp [hx])), (rateOk_present r c ws cat rt (h rt (by simp))).2.1]
    congr 1
    obtain ⟨_, h2, _, h4⟩ := h rt (by simp)
    unfold taxedAmount
    cases hp : rt.percent with
    | none => unfold amountQ; simp [hp]
    | some p =>
      rw [← h2]
      cases r with
      | currency => simp only [contrib]; rw [rescaleX_self _ _ (h4 rfl).1]
      | precise => rfl
      | other => rfl

/-- the signed working figure of a category: amount and surcharge, as `calculateFinalSum` adds them -/
theorem catSignedQ_eq (ct : CatTotal) (a : ℚ) (ss : List ℚ) (ha : ct.amount.toRat = a)
    (hs : ∀ s, ct.surcharge = some s → s.toRat = ss.sum) (hn : ct.surcharge = none → ss = []) :
    catSignedQ ct = (if ct.retained then -(a + ss.sum) else a + ss.sum) := by
  unfold catSignedQ
  rw [ha]
  cases hsc : ct.surcharge with
  | none => simp [hn hsc]
  | some s => simp [hs s hsc]

/-- **one category, calculated and presented**: it satisfies the oracle, and what the
oracle takes as its tax is what `calculateFinalSum` adds -/
theorem presentCat_ok (r : Rule) (c : ℕ) (ws : List Contribution) (ct : CatTotal) (h : CatInv r c ws ct) :
    Spec.C02.catOk c ws (presentCat c (catAmounts exactOps r c ct)) = true ∧
    catTaxQ c ws (presentCat c (catAmounts exactOps r c ct)) = catSignedQ (catAmounts exactOps r c ct) ∧
    (presentCat c (catAmounts exactOps r c ct)).rates.map keyOfRate = ct.rates.map keyOfRate := by
  obtain ⟨_, hF, _⟩ := h
  set rates1 := ct.rates.map (rateAmounts exactOps · c) with hr1
  have hQ : ∀ rt ∈ rates1, RateQ r c ws ct.code rt := by
    intro rt hrt
    simp only [hr1, List.mem_map] at hrt
    obtain ⟨x, hx, rfl⟩ := hrt
    exact rateAmounts_RateQ r c ws ct.code x (hF x hx)
  have hrates : (catAmounts exactOps r c ct).rates = rates1 := rfl
  have hcode : (presentCat c (catAmounts exactOps r c ct)).code = ct.code := rfl
  have hprates : (presentCat c (catAmounts exactOps r c ct)).rates = rates1.map (presentRate c) := rfl
  have hamt : (catAmounts exactOps r c ct).amount.toRat = ((rates1.map (taxedAmount r c)).sum : ℚ) :=
    catAmounts_amount r c ct
  -- category amount
  have hA : catAmountQ c ws (presentCat c (catAmounts exactOps r c ct)) = (catAmounts exactOps r c ct).amount.toRat := by
    unfold catAmountQ
    rw [hcode, hprates, amountQ_present_sum r c ws ct.code rates1 hQ, hamt]
  -- category surcharge
  have hS : catSurchargesQ c ws (presentCat c (catAmounts exactOps r c ct)) = (rates1.filterMap surOf).map Amount.toRat := by
    unfold catSurchargesQ
    rw [hcode, hprates, catSurchargesQ_present r c ws ct.code rates1 hQ]
  have hsome : ∀ s, (catAmounts exactOps r c ct).surcharge = some s →
      s.toRat = (((rates1.filterMap surOf).map Amount.toRat).sum : ℚ) ∧ rates1.filterMap surOf ≠ [] := by
    intro s hs
    simp only [catAmounts] at hs
    have h1 := surchargeFold_toRat r c rates1 none (fun _ x hx => by cases hx)
      (fun hr rt hrt sa hsa => ((hQ rt hrt).2.2.2 hr).2 sa hsa) s hs
    refine ⟨by simpa using h1, ?_⟩
    intro hnil
    -- with no surcharge-bearing rate the fold returns its start value `none`
    have : ∀ (xs : List RateTotal) (z : Option Amount), xs.filterMap surOf = [] →
        xs.foldl (fun (s : Option Amount) rt =>
          match rt.percent, rt.surcharge with
          | some _, some (_, sa) =>
            let x := s.getD ⟨0, c⟩
            some (add exactOps (mrp r x sa) sa)
          | _, _ => s) z = z := by
      intro xs
      induction xs with
      | nil => intro z _; rfl
      | cons x xs ihx =>
        intro z hx
        rw [List.foldl_cons]
        cases hp : x.percent with
        | none =>
          simp only [hp]
          apply ihx
          simpa [List.filterMap_cons, surOf, hp] using hx
        | some p =>
          cases hsr : x.surcharge with
          | none =>
            simp only [hp, hsr]
            apply ihx
            simpa [List.filterMap_cons, surOf, hp, hsr] using hx
          | some y =>
            obtain ⟨sp, sa⟩ := y
            simp [List.filterMap_cons, surOf, hp, hsr] at hx
    have h2 : (some s : Option Amount) = none := hs.symm.trans (this rates1 none hnil)
    cases h2
  have hnone : (catAmounts exactOps r c ct).surcharge = none → rates1.filterMap surOf = [] := by
    intro hn
    simp only [catAmounts] at hn
    exact (surchargeFold_none r c rates1 none hn).2
  refine ⟨?_, ?_, ?_⟩
  · unfold Spec.C02.catOk
    rw [hA, hS, hcode, hprates]
    simp only [Bool.and_eq_true, List.all_eq_true]
    refine ⟨⟨?_, presentedAs_rescale c _ _ rfl⟩, ?_⟩
    · intro rt hrt
      simp only [List.mem_map] at hrt
      obtain ⟨x, hx, rfl⟩ := hrt
      exact (rateOk_present r c ws ct.code x (hQ x hx)).1
    · show (match (presentCat c (catAmounts exactOps r c ct)).surcharge with
          | some s => _ | none => _) = true
      have hps : (presentCat c (catAmounts exactOps r c ct)).surcharge =
          (catAmounts exactOps r c ct).surcharge.map (exactOps.rescale · c) := rfl
      rw [hps]
      cases hsc : (catAmounts exactOps r c ct).surcharge with
      | none => simp [hnone hsc]
      | some s =>
        obtain ⟨e1, e2⟩ := hsome s hsc
        simp only [Option.map_some, Bool.and_eq_true, Bool.not_eq_true', List.isEmpty_eq_false_iff,
          List.map_eq_nil_iff, ne_eq]
        exact ⟨e2, presentedAs_rescale c s _ e1⟩
  · unfold catTaxQ
    rw [hA, hS]
    have hret : (presentCat c (catAmounts exactOps r c ct)).retained = (catAmounts exactOps r c ct).retained := rfl
    rw [hret]
    exact (catSignedQ_eq (catAmounts exactOps r c ct) _ ((rates1.filterMap surOf).map Amount.toRat) rfl
      (fun s hs => (hsome s hs).1) (fun hn => by rw [hnone hn]; rfl)).symm
  · rw [hprates, hr1, List.map_map, List.map_map]
    apply List.map_congr_left
    intro rt _
    simp only [Function.comp_def]
    rw [(presentRate_same c _).1, (rateAmounts_same rt c).1]

/-! ## the tax sum, for both rules -/

theorem catSignedQ_of_exps (c : ℕ) (ct : CatTotal) (ha : ct.amount.exp = c)
    (hs : ∀ s, ct.surcharge = some s → s.exp = c) :
    catSignedQ ct = ((catSigned ct : ℤ) : ℚ) / ((pow10 c : ℤ) : ℚ) := by
  unfold catSignedQ catSigned
  rw [toRat_at _ c ha]
  cases hsc : ct.surcharge with
  | none => cases ct.retained <;> simp <;> ring
  | some s =>
    simp only
    rw [toRat_at s c (hs s hsc)]
    cases ct.retained <;> simp <;> ring

/-- `calculateFinalSum` adds the ordinary categories (amount and surcharge) and subtracts the retained
ones, exactly, under either rule -/
theorem finalSum_toRat_any (r : Rule) (c : ℕ) (rows : List Row) :
    (finalSum exactOps r c ((baseRateTotals exactOps r c rows).map (catAmounts exactOps r c))).toRat =
      (((baseRateTotals exactOps r c rows).map (catAmounts exactOps r c)).map catSignedQ).sum := by
  by_cases hr : r = .currency
  · subst hr
    have hex : ∀ ct ∈ (baseRateTotals exactOps .currency c rows).map (catAmounts exactOps .currency c),
        ct.amount.exp = c ∧ ∀ s, ct.surcharge = some s → s.exp = c := by
      intro ct hct
      simp only [List.mem_map] at hct
      obtain ⟨ct0, h0, rfl⟩ := hct
      obtain ⟨_, h2, h3⟩ := catAmounts_currency c ct0 (baseRateTotals_currency c rows ct0 h0)
      exact ⟨by rw [h2], fun s hs => by rw [h3 s hs]⟩
    rw [finalSum_currency c _ hex]
    generalize (baseRateTotals exactOps .currency c rows).map (catAmounts exactOps .currency c) = cats at hex
    induction cats with
    | nil => simp [Amount.toRat]
    | cons ct cats ih =>
      have i := ih (fun x hx => hex x (by simp [hx]))
      simp only [List.map_cons, List.sum_cons]
      rw [← i, catSignedQ_of_exps c ct (hex ct (by simp)).1 (hex ct (by simp)).2]
      unfold Amount.toRat
      push_cast
      ring
  · apply finalSum_toRat r hr c
    intro ct hct
    simp only [List.mem_map] at hct
    obtain ⟨ct0, _, rfl⟩ := hct
    exact catAmounts_surcharge_exp_le r hr c ct0

/-! ## the summary `taxTotal` returns -/

theorem pairwiseDistinct_of_pairwise {α : Type} [DecidableEq α] (l : List α) (h : l.Pairwise (· ≠ ·)) :
    pairwiseDistinct l = true := by
  induction l with
  | nil => rfl
  | cons x xs ih =>
    obtain ⟨h1, h2⟩ := List.pairwise_cons.mp h
    simp only [pairwiseDistinct, Bool.and_eq_true, Bool.not_eq_true', ih h2, and_true]
    rw [List.contains_eq_mem]
    simp only [decide_eq_false_iff_not]
    intro hm
    exact h1 x hm rfl

theorem toRat_of_value_zero (a : Amount) (h : a.value = 0) : a.toRat = 0 := by
  unfold Amount.toRat; rw [h]; simp

theorem rescale_toRat_zero (a : Amount) (c : ℕ) (h : a.value = 0) : (exactOps.rescale a c).toRat = 0 := by
  apply toRat_of_value_zero
  rw [exact_rescale, rescaleX_value, toRat_of_value_zero a h]
  unfold roundTo
  rw [zero_mul]
  exact roundHalfAway_int 0

/-- everything the oracle says about the summary itself -/
structure SummaryFacts (r : Rule) (c : ℕ) (cs : List Contribution) (tx : TaxTotal) : Prop where
  partition : partitionOk cs tx.cats = true
  cats : tx.cats.all (Spec.C02.catOk c cs) = true
  sum_precise : tx.preciseSum.toRat = ((tx.cats.map (catTaxQ c cs)).sum : ℚ)
  sum_presented : tx.sum = exactOps.rescale tx.preciseSum c
  cat_presented : ∀ ct ∈ tx.cats, ct.amount = exactOps.rescale ct.precise c
  cat_plain : ∀ ct ∈ tx.cats, ct.retained = false → ct.surcharge = none → catTaxQ c cs ct = ct.precise.toRat

theorem taxTotal_summary (r : Rule) (c : ℕ) (inc : Option String) (rows : List Row) (tx : TaxTotal)
    (h : taxTotal exactOps r c inc rows = .ok tx) : SummaryFacts r c (contributions r c inc rows) tx := by
  have htx := taxTotal_rows r c inc rows tx h
  obtain ⟨i1, i2, i3⟩ := baseRateTotals_inv r c inc rows
  set cs := contributions r c inc rows with hcs
  set cats0 := baseRateTotals exactOps r c (rows.map (exclRow c inc)) with hc0
  rw [roundTax_eq] at htx
  have hcats : tx.cats = cats0.map (fun ct => presentCat c (catAmounts exactOps r c ct)) := by
    rw [htx]; simp only [List.map_map, Function.comp_def]
  have hok : ∀ ct ∈ cats0, _ := fun ct hct => presentCat_ok r c cs ct (i2 ct hct)
  have hsumP : tx.preciseSum = finalSum exactOps r c (cats0.map (catAmounts exactOps r c)) := by rw [htx]
  have hsum : tx.sum = exactOps.rescale tx.preciseSum c := by rw [htx]
  refine ⟨?_, ?_, ?_, hsum, ?_, ?_⟩
  · -- partition
    unfold partitionOk
    simp only [Bool.and_eq_true, List.all_eq_true, List.any_eq_true, beq_iff_eq, decide_eq_true_eq]
    refine ⟨⟨?_, ?_⟩, ?_⟩
    · apply pairwiseDistinct_of_pairwise
      rw [hcats, List.map_map]
      exact i1
    · intro ct hct
      rw [hcats] at hct
      simp only [List.mem_map] at hct
      obtain ⟨ct0, h0, rfl⟩ := hct
      apply pairwiseDistinct_of_pairwise
      rw [(hok ct0 h0).2.2]
      exact (i2 ct0 h0).1
    · intro x hx
      obtain ⟨ct0, h0, hcode⟩ := i3 x hx
      obtain ⟨rt0, hrt0, hk0⟩ := (i2 ct0 h0).2.2 x hx hcode.symm
      refine ⟨presentCat c (catAmounts exactOps r c ct0), by rw [hcats]; exact List.mem_map_of_mem h0, hcode, ?_⟩
      have hm : keyOfRate rt0 ∈ (presentCat c (catAmounts exactOps r c ct0)).rates.map keyOfRate := by
        rw [(hok ct0 h0).2.2]; exact List.mem_map_of_mem hrt0
      simp only [List.mem_map] at hm
      obtain ⟨rt', hrt', hk'⟩ := hm
      exact ⟨rt', hrt', hk'.trans hk0⟩
  · simp only [List.all_eq_true]
    intro ct hct
    rw [hcats] at hct
    simp only [List.mem_map] at hct
    obtain ⟨ct0, h0, rfl⟩ := hct
    exact (hok ct0 h0).1
  · rw [hsumP, finalSum_toRat_any, hcats, List.map_map, List.map_map]
    congr 1
    apply List.map_congr_left
    intro ct0 h0
    simp only [Function.comp_def]
    exact ((hok ct0 h0).2.1).symm
  · intro ct hct
    rw [hcats] at hct
    simp only [List.mem_map] at hct
    obtain ⟨ct0, _, rfl⟩ := hct
    rfl
  · intro ct hct hret hsur
    rw [hcats] at hct
    simp only [List.mem_map] at hct
    obtain ⟨ct0, h0, rfl⟩ := hct
    rw [(hok ct0 h0).2.1]
    have hret' : (catAmounts exactOps r c ct0).retained = false := hret
    have hsur' : (catAmounts exactOps r c ct0).surcharge = none := by
      have : (presentCat c (catAmounts exactOps r c ct0)).surcharge =
          (catAmounts exactOps r c ct0).surcharge.map (exactOps.rescale · c) := rfl
      rw [this] at hsur
      cases hx : (catAmounts exactOps r c ct0).surcharge with
      | none => rfl
      | some s => rw [hx] at hsur; simp at hsur
    unfold catSignedQ
    rw [hret', hsur']
    simp
    rfl

theorem TaxTotal.precise_toRat (c : ℕ) (tx : TaxTotal) (h : tx.sum = exactOps.rescale tx.preciseSum c) :
    tx.precise.toRat = tx.preciseSum.toRat := by
  unfold TaxTotal.precise
  by_cases hv : tx.preciseSum.value = 0
  · simp only [hv, bne_self_eq_false, Bool.false_eq_true, if_false]
    rw [h, rescale_toRat_zero _ c hv, toRat_of_value_zero _ hv]
  · have : (tx.preciseSum.value != 0) = true := by simpa using hv
    simp only [this, if_true]

theorem preciseAmount_facts (c : ℕ) (ct : CatTotal) (h : ct.amount = exactOps.rescale ct.precise c) :
    exactOps.rescale ct.preciseAmount c = ct.amount ∧ ct.preciseAmount.toRat = ct.precise.toRat := by
  unfold CatTotal.preciseAmount
  by_cases hv : ct.precise.value = 0
  · simp only [hv, bne_self_eq_false, Bool.false_eq_true, if_false]
    refine ⟨rescaleX_self _ _ (by rw [h]; exact rescaleX_exp _ _), ?_⟩
    rw [h, rescale_toRat_zero _ c hv, toRat_of_value_zero _ hv]
  · have : (ct.precise.value != 0) = true := by simpa using hv
    simp only [this, if_true]
    constructor
    · exact h.symm
    · first | rfl | trivial

/-- **summaryRowsOk of the final assembly** -/
theorem summaryRowsOk_finish (d : Doc) (p : Pre) (tx : TaxTotal)
    (htx : taxTotal exactOps d.rule d.c d.includes p.rows = .ok tx)
    (hinc : ∀ ti, taxIncluded d.includes tx = some ti → ti.toRat = tx.precise.toRat →
      (rawTotals exactOps d p tx).totalWithTax = p.total2) :
    summaryRowsOk d.rule d.c d.includes p.rows p.total2 (finish exactOps d p tx) = true := by
  have F := taxTotal_summary d.rule d.c d.includes p.rows tx htx
  set cs := contributions d.rule d.c d.includes p.rows with hcs
  set t := roundTotals exactOps d.c (rawTotals exactOps d p tx) with ht
  have hout : (finish exactOps d p tx).totals = some t := rfl
  have f_taxes : t.taxes = if tx.cats.isEmpty then none else some tx := rfl
  have f_tax : t.tax = exactOps.rescale tx.precise d.c := rfl
  have f_ti : t.taxIncluded = (taxIncluded d.includes tx).map (exactOps.rescale · d.c) := rfl
  have f_twt : t.totalWithTax = exactOps.rescale (rawTotals exactOps d p tx).totalWithTax d.c := rfl
  have hcatsOf : catsOf t = tx.cats := by
    unfold catsOf
    rw [f_taxes]
    by_cases he : tx.cats.isEmpty = true
    · simp only [he, if_true]; exact (List.isEmpty_iff.mp he).symm
    · simp only [he, Bool.false_eq_true, if_false]
  have hprec := TaxTotal.precise_toRat d.c tx F.sum_presented
  unfold summaryRowsOk
  rw [hout]
  simp only [hcatsOf, ← hcs, Bool.and_eq_true]
  refine ⟨⟨⟨⟨F.partition, F.cats⟩, ?_⟩, ?_⟩, ?_⟩
  · -- tax sum
    unfold taxSumOk
    simp only [Bool.and_eq_true]
    refine ⟨?_, ?_⟩
    · rw [f_taxes]
      by_cases he : tx.cats.isEmpty = true
      · simp only [he, if_true]
      · simp only [he, Bool.false_eq_true, if_false, Bool.and_eq_true, Bool.not_eq_true', Bool.not_false, and_true]
        rw [F.sum_presented]
        exact presentedAs_rescale d.c _ _ F.sum_precise
    · rw [f_tax]
      exact presentedAs_rescale d.c _ _ (hprec.trans F.sum_precise)
  · -- tax_included
    unfold includedOk
    rw [f_ti]
    unfold taxIncluded
    cases hi : d.includes with
    | none => rfl
    | some k =>
      simp only [decide_eq_true_eq]
      cases hf : tx.cats.find? (fun ct => ct.code == k) with
      | none => rfl
      | some ct =>
        simp only [Option.map_some]
        rw [(preciseAmount_facts d.c ct (F.cat_presented ct (List.mem_of_find?_eq_some hf))).1]
  · -- the only tax is the included one
    unfold onlyIncludedOk
    cases hi : d.includes with
    | none => rfl
    | some k =>
      cases hc : tx.cats with
      | nil => rfl
      | cons ct rest =>
        cases rest with
        | cons _ _ => rfl
        | nil =>
          simp only
          split
          · rename_i hcond
            simp only [Bool.and_eq_true, beq_iff_eq, Bool.not_eq_true', Option.isNone_iff_eq_none] at hcond
            obtain ⟨⟨hcode, hret⟩, hsur⟩ := hcond
            have hmem : ct ∈ tx.cats := by rw [hc]; simp
            have hti : taxIncluded d.includes tx = some ct.preciseAmount := by
              unfold taxIncluded
              rw [hi, hc]
              simp [List.find?_cons, hcode]
            have hq : ct.preciseAmount.toRat = tx.precise.toRat := by
              rw [(preciseAmount_facts d.c ct (F.cat_presented ct hmem)).2, hprec, F.sum_precise, hc]
              simp only [List.map_cons, List.map_nil, List.sum_cons, List.sum_nil, add_zero]
              exact (F.cat_plain ct hmem hret hsur).symm
            rw [f_twt, hinc _ hti hq]
            exact presentedAs_rescale d.c _ _ rfl
          · rfl

end GoblVerif.Calc
